import Revm.Proofs.EvmStep2
/-! Closed forms of the handler primitives that read or write memory, and what keeps the memory part of `WFM`. -/
set_option linter.unusedSimpArgs false
set_option linter.unusedVariables false
namespace Revm.Proofs.EvmStep2
open Revm Revm.Model Revm.Model.Interp
open Revm.Model.GasCalc (enabled)
open Revm.Spec.EvmRules Revm.Spec.EvmRules2
open Revm.Spec.GasCalc (ceil32 memCost)
open Revm.Proofs.EvmStep
open Revm.Proofs.Memory (ctx replaceCtx)

/-! ## lists -/

theorem touch_covers (μ : List Nat) (off len : Nat) : off + len ≤ (touch μ off len).length := by
  unfold touch
  by_cases h : off + len ≤ μ.length
  · rw [if_pos h]; exact h
  · rw [if_neg h]; simp only [List.length_append, List.length_replicate]; unfold ceil32; omega

theorem touch_ge (μ : List Nat) (off len : Nat) : μ.length ≤ (touch μ off len).length := by
  unfold touch
  split
  · exact Nat.le_refl _
  · simp only [List.length_append, List.length_replicate]; omega

/-- the budget `remaining + C_mem` is exactly preserved by a paid expansion -/
theorem touch_budget (μ : List Nat) (off len rem : Nat) (h : ¬ rem < touchCost μ off len) :
    rem - touchCost μ off len + memCost (ceil32 (touch μ off len).length) = rem + memCost (ceil32 μ.length) := by
  unfold touchCost at h ⊢
  unfold touch
  by_cases hc : off + len ≤ μ.length
  · rw [if_pos hc, Nat.max_eq_left (ceil32_mono hc)]; omega
  · have hm : max (ceil32 μ.length) (ceil32 (off + len)) = ceil32 (off + len) :=
      Nat.max_eq_right (ceil32_mono (by omega))
    rw [hm] at h ⊢
    rw [if_neg hc]
    have hl : (μ ++ List.replicate (32 * ceil32 (off + len) - μ.length) 0).length = 32 * ceil32 (off + len) := by
      simp only [List.length_append, List.length_replicate]; unfold ceil32; omega
    rw [hl]
    have : ceil32 (32 * ceil32 (off + len)) = ceil32 (off + len) := by
      generalize ceil32 (off + len) = w; unfold ceil32; omega
    rw [this]
    have := memCost_mono (ceil32_mono (a := μ.length) (b := off + len) (by omega))
    omega

theorem store_length (μ : List Nat) (off : Nat) (val : List Nat) (h : off + val.length ≤ μ.length) :
    (store μ off val).length = μ.length := Proofs.Memory.writeAt_length μ off val h

theorem load_length (μ : List Nat) (off len : Nat) (h : off + len ≤ μ.length) : (load μ off len).length = len := by
  unfold load; simp only [List.length_take, List.length_drop]; omega

theorem natToBe_eq (k v : Nat) :
    Memory.natToBe k v = (List.range k).map fun i => v / 256 ^ (k - 1 - i) % 256 := by
  induction k generalizing v with
  | zero => rfl
  | succ k ih =>
    rw [Memory.natToBe, ih, List.range_succ, List.map_append]
    congr 1
    · apply List.map_congr_left
      intro i hi
      have hi' : i < k := List.mem_range.mp hi
      have e : k + 1 - 1 - i = (k - 1 - i) + 1 := by omega
      rw [e, Nat.pow_succ, Nat.mul_comm, Nat.div_div_eq_div_mul]
    · simp

theorem wordBytes_eq (v : Nat) : Memory.natToBe 32 v = wordBytes v := natToBe_eq 32 v

theorem wordBytes_length (v : Nat) : (wordBytes v).length = 32 := by simp [wordBytes]

theorem beToNat_eq (bs : List Nat) : Memory.beToNat bs = beNat bs := Proofs.Stack.beVal_eq_beNat bs

/-! ## operands -/

theorem asUsize_small (v : Nat) (h : v < U64) : Jump.asUsizeOrFail v = some v := by
  have hU := U64_val; have h1 := U128_val; have h2 := Jump.U192_val
  unfold Jump.asUsizeOrFail
  simp only []
  rw [hU, h1, h2]; rw [hU] at h
  rw [if_neg (by omega)]
  congr 1; omega

theorem asUsize_big (v : Nat) (h : U64 ≤ v) (hw : v < W) : Jump.asUsizeOrFail v = none := by
  have hU := U64_val; have h1 := U128_val; have h2 := Jump.U192_val; have hW := W_val
  unfold Jump.asUsizeOrFail
  simp only []
  rw [hU, h1, h2]; rw [hU] at h; rw [hW] at hw
  rw [if_pos (by omega)]

theorem asUsizeOrFail_ok (v : Nat) (reason : IResult) (s : IState) (h : v < U64) :
    asUsizeOrFail v reason s = .ok v s := by
  unfold asUsizeOrFail; rw [asUsize_small v h]; rfl

theorem asUsizeOrFail_fail (v : Nat) (reason : IResult) (s : IState) (h : U64 ≤ v) (hw : v < W) :
    asUsizeOrFail v reason s = .halt reason [] s := by
  unfold asUsizeOrFail; rw [asUsize_big v h hw]; rfl

/-! ## the memory part of `WFM`, and what keeps it -/

/-- the part of `WFM` the memory primitives need -/
structure MemOK (s : IState) : Prop where
  gas : s.gas.remaining < U64
  mem : Proofs.Memory.WF s.mem
  ck : s.mem.lastCheckpoint ≤ 2^62
  budget : s.gas.remaining + memCost (ceil32 (memOf s).length) < GAS_BOUND

theorem WFM.memOK {s : IState} (h : WFM s) : MemOK s := ⟨h.gas, h.mem, h.ck, h.budget⟩

theorem MemOK.adv {s : IState} (h : MemOK s) : MemOK (adv s) := ⟨h.gas, h.mem, h.ck, h.budget⟩

theorem MemOK.charge {s : IState} (h : MemOK s) (c : Nat) : MemOK (charge s c) :=
  ⟨by show s.gas.remaining - c < U64; have := h.gas; omega, h.mem, h.ck,
   by show s.gas.remaining - c + memCost (ceil32 (memOf s).length) < GAS_BOUND; have := h.budget; omega⟩

theorem MemOK.stack {s : IState} (h : MemOK s) (st : List Nat) : MemOK { s with stack := st } :=
  ⟨h.gas, h.mem, h.ck, h.budget⟩

theorem memOf_setMem {s : IState} (h : Proofs.Memory.WF s.mem) (μ : List Nat) : memOf (setMem s μ) = μ :=
  Proofs.Memory.replaceCtx_ctx h μ

theorem MemOK.setMem {s : IState} (h : MemOK s) (μ : List Nat) (hl : μ.length ≤ 2^60)
    (hb : s.gas.remaining + memCost (ceil32 μ.length) < GAS_BOUND) : MemOK (setMem s μ) := by
  refine ⟨h.gas, ?_, h.ck, ?_⟩
  · have := h.ck
    exact Proofs.Memory.replaceCtx_wf h.mem μ (by unfold Memory.ISIZE_MAX; omega)
  · rw [memOf_setMem h.mem]; exact hb

/-- a byte list whose memory cost is below the gas bound is short -/
theorem len_of_cost {n : Nat} (h : memCost (ceil32 n) < GAS_BOUND) : n ≤ 2^60 := by
  have hG := GAS_BOUND_val
  by_cases hn : n ≤ 2^60
  · exact hn
  · exfalso
    have h1 : 2^55 ≤ ceil32 n := by unfold ceil32; omega
    have := memCost_mono h1
    have h2 : 2^59 ≤ memCost (2^55) := by decide
    omega

theorem MemOK.touch {s : IState} (h : MemOK s) (off len : Nat)
    (hc : ¬ s.gas.remaining < touchCost (memOf s) off len) :
    MemOK (Spec.EvmRules2.setMem (Spec.EvmRules.charge s (touchCost (memOf s) off len)) (touch (memOf s) off len)) := by
  have hb := touch_budget (memOf s) off len s.gas.remaining hc
  have hbud := h.budget
  refine (h.charge _).setMem _ ?_ ?_
  · apply len_of_cost
    show memCost (ceil32 (Spec.EvmRules2.touch (memOf s) off len).length) < GAS_BOUND
    omega
  · show s.gas.remaining - touchCost (memOf s) off len + memCost (ceil32 (Spec.EvmRules2.touch (memOf s) off len).length)
      < GAS_BOUND
    omega

/-- a write inside the frame keeps everything -/
theorem MemOK.store {s : IState} (h : MemOK s) (off : Nat) (val : List Nat)
    (hin : off + val.length ≤ (memOf s).length) :
    MemOK (Spec.EvmRules2.setMem s (Spec.EvmRules2.store (memOf s) off val)) := by
  have hb := h.budget
  have hl := store_length (memOf s) off val hin
  refine h.setMem _ ?_ ?_
  · rw [hl]; apply len_of_cost; omega
  · rw [hl]; exact hb

/-! ## `resize_memory!` and the memory accessors inside a handler -/

theorem resizeMem_ok (s : IState) (off len : Nat) (h : MemOK s) (ho : off < U64) (hl : len < U64)
    (hc : ¬ s.gas.remaining < touchCost (memOf s) off len) :
    resizeMem off len s =
      .ok () (setMem (charge s (touchCost (memOf s) off len)) (touch (memOf s) off len)) := by
  have hG := GAS_BOUND_val; have hU := U64_val
  have hb := h.budget
  unfold resizeMem
  rw [resizeMacro_exact h.mem h.ck ho hl (by rw [← memOf_eq]; omega), ← memOf_eq, if_neg hc]
  rfl

theorem resizeMem_fail (s : IState) (off len : Nat) (h : MemOK s) (ho : off < U64) (hl : len < U64)
    (hc : s.gas.remaining < touchCost (memOf s) off len) :
    resizeMem off len s = .halt .MemoryOOG [] s := by
  have hG := GAS_BOUND_val; have hU := U64_val
  have hb := h.budget
  unfold resizeMem
  rw [resizeMacro_exact h.mem h.ck ho hl (by rw [← memOf_eq]; omega), ← memOf_eq, if_pos hc]
  rfl

/-- `resize_memory!` followed by the rest of the handler is `memAccess` -/
theorem resizeMem_bind (s : IState) (off len : Nat) (f : Unit → M Unit) (h : MemOK s) (ho : off < U64) (hl : len < U64) :
    ((resizeMem off len >>= f) s).toDone = memAccess s off len (fun s' => (f () s').toDone) := by
  unfold memAccess
  by_cases hc : s.gas.remaining < touchCost (memOf s) off len
  · rw [bind_halt _ _ _ _ _ _ (resizeMem_fail s off len h ho hl hc), if_pos hc]; rfl
  · rw [bind_ok _ _ _ _ _ (resizeMem_ok s off len h ho hl hc), if_neg hc]

theorem memSlice_eq (s : IState) (off len : Nat) (h : Proofs.Memory.WF s.mem) (hin : off + len ≤ (memOf s).length) :
    memSlice off len s = .ok (load (memOf s) off len) s := by
  unfold memSlice
  rw [Proofs.Memory.slice_value h off len hin]
  rfl

theorem memGetU256_eq (s : IState) (off : Nat) (h : Proofs.Memory.WF s.mem) (hin : off + 32 ≤ (memOf s).length) :
    memGetU256 off s = .ok (beNat (load (memOf s) off 32)) s := by
  unfold memGetU256 Memory.getU256 Memory.getWord
  rw [Proofs.Memory.slice_value h off 32 hin]
  simp only [memRes, beToNat_eq]
  rfl

theorem memSet_eq (s : IState) (off : Nat) (val : List Nat) (h : Proofs.Memory.WF s.mem) (hne : val ≠ [])
    (hin : off + val.length ≤ (memOf s).length) :
    liftMemWrite (fun m => Memory.set m off val) s = .ok () (setMem s (store (memOf s) off val)) := by
  unfold liftMemWrite Memory.set
  have : val.isEmpty = false := by cases val <;> simp_all
  rw [this]
  simp only [Bool.false_eq_true, if_false]
  rw [Proofs.Memory.writeSlice_ok h hin]
  rfl

theorem memSetU256_eq (s : IState) (off v : Nat) (h : Proofs.Memory.WF s.mem) (hin : off + 32 ≤ (memOf s).length) :
    memSetU256 off v s = .ok () (setMem s (store (memOf s) off (wordBytes v))) := by
  unfold memSetU256 Memory.setU256
  rw [wordBytes_eq]
  exact memSet_eq s off (wordBytes v) h (by intro e; have := wordBytes_length v; rw [e] at this; cases this)
    (by rw [wordBytes_length]; exact hin)

theorem memSetByte_eq (s : IState) (off b : Nat) (h : Proofs.Memory.WF s.mem) (hin : off + 1 ≤ (memOf s).length) :
    memSetByte off b s = .ok () (setMem s (store (memOf s) off [b])) := by
  unfold memSetByte Memory.setByte
  exact memSet_eq s off [b] h (by simp) (by simpa using hin)

theorem memCopy_eq (s : IState) (dst src len : Nat) (h : Proofs.Memory.WF s.mem)
    (h1 : src + len ≤ (memOf s).length) (h2 : dst + len ≤ (memOf s).length) :
    memCopy dst src len s = .ok () (setMem s (store (memOf s) dst (load (memOf s) src len))) := by
  have hle := Proofs.Memory.WF_le h
  have h3 := h.2.2
  have hI := Proofs.Memory.isize_lt_u64
  have hcl : (memOf s).length = s.mem.buffer.length - s.mem.lastCheckpoint := Proofs.Memory.ctx_length
  have hnw : src + len < U64 := by omega
  unfold memCopy liftMemWrite Memory.copy
  simp only []
  rw [if_pos hle, Nat.mod_eq_of_lt hnw, if_neg (by omega), if_neg (by omega)]
  have : src + len - src = len := by omega
  rw [this, if_neg (by omega), Proofs.Memory.readAt_buffer h, Proofs.Memory.writeAt_buffer h]
  rfl

theorem paddedSlice_length (data : List Nat) (dOff len : Nat) :
    (Spec.Memory.paddedSlice data dOff len).length = len := by
  unfold Spec.Memory.paddedSlice
  simp only [List.length_append, List.length_replicate, List.length_take, List.length_drop]
  omega

theorem memSetData_eq (s : IState) (moff dOff len : Nat) (data : List Nat) (h : Proofs.Memory.WF s.mem)
    (hd : data.length ≤ Memory.ISIZE_MAX) (h2 : dOff < U64) (hin : moff + len ≤ (memOf s).length) :
    memSetData moff dOff len data s =
      .ok () (setMem s (store (memOf s) moff (Spec.Memory.paddedSlice data dOff len))) := by
  have hI := Proofs.Memory.isize_lt_u64
  have hcl : (memOf s).length ≤ Memory.ISIZE_MAX := by
    have := h.2.2; rw [memOf_eq, Proofs.Memory.ctx_length]; omega
  have hin' : moff + len ≤ Proofs.Interp.clen s.mem := by
    unfold Proofs.Interp.clen; rw [← Proofs.Memory.ctx_length (m := s.mem)]; exact hin
  obtain ⟨m', hm', _⟩ := Proofs.Interp.setData_ok (m := s.mem) (moff := moff) (dOff := dOff) (len := len) (data := data)
    h hd hin'
  obtain ⟨f', hf, hm2⟩ := Proofs.Memory.setData_head h (by omega) h2 (by omega) (by omega) hm'
  unfold Spec.Memory.setDataF Spec.Memory.writeF at hf
  rw [paddedSlice_length, if_pos (by rw [← memOf_eq]; exact hin)] at hf
  injection hf with hf
  unfold memSetData liftMemWrite
  simp only []
  rw [hm', hm2, ← hf]
  unfold Spec.EvmRules2.setMem Spec.EvmRules2.store memRes
  rw [paddedSlice_length]
  rfl

/-! ## `pop!` with any number of names -/

theorem popNUnsafe_gen (l vs : List Nat) : Stack.popNUnsafe vs.length (l ++ vs.reverse) = (l, .ok vs) := by
  induction vs generalizing l with
  | nil => simp [Stack.popNUnsafe]
  | cons v vs ih =>
    have e : l ++ (v :: vs).reverse = (l ++ vs.reverse) ++ [v] := by simp
    rw [List.length_cons, Stack.popNUnsafe, e, popUnsafe_concat]
    simp only [ih]

theorem popN_ok (s : IState) (l vs : List Nat) (h : s.stack = l ++ vs.reverse) :
    popN vs.length s = .ok vs { s with stack := l } := by
  unfold popN Stack.popMacro
  have hl : ¬ s.stack.length < vs.length := by rw [h]; simp
  rw [if_neg hl, h, popNUnsafe_gen]

theorem popN_underflow (s : IState) (k : Nat) (h : s.stack.length < k) :
    popN k s = .halt .StackUnderflow [] s := by
  unfold popN Stack.popMacro; rw [if_pos h]; rfl

theorem pop3_ok (s : IState) (l : List Nat) (a b c : Nat) (h : s.stack = l ++ [c, b, a]) :
    pop3 s = .ok (a, b, c) { s with stack := l } := by
  unfold pop3
  have h3 : popN 3 s = .ok [a, b, c] { s with stack := l } := popN_ok s l [a, b, c] (by simpa using h)
  rw [bind_ok _ _ _ _ _ h3]
  rfl

theorem pop3_underflow (s : IState) (h : s.stack.length < 3) : pop3 s = .halt .StackUnderflow [] s := by
  unfold pop3; rw [bind_halt _ _ _ _ _ _ (popN_underflow s 3 h)]

theorem pop4_ok (s : IState) (l : List Nat) (a b c d : Nat) (h : s.stack = l ++ [d, c, b, a]) :
    pop4 s = .ok (a, b, c, d) { s with stack := l } := by
  unfold pop4
  have h4 : popN 4 s = .ok [a, b, c, d] { s with stack := l } := popN_ok s l [a, b, c, d] (by simpa using h)
  rw [bind_ok _ _ _ _ _ h4]
  rfl

theorem pop4_underflow (s : IState) (h : s.stack.length < 4) : pop4 s = .halt .StackUnderflow [] s := by
  unfold pop4; rw [bind_halt _ _ _ _ _ _ (popN_underflow s 4 h)]

/-- the stack as `rest.reverse ++ top-first prefix reversed` -/
theorem stack_of_reverse {st pre rest : List Nat} (h : st.reverse = pre ++ rest) : st = rest.reverse ++ pre.reverse := by
  have := congrArg List.reverse h
  simpa using this

theorem lt_W_of_mem {st : List Nat} (hw : ∀ w ∈ st, w < W) {pre rest : List Nat} (h : st.reverse = pre ++ rest)
    {x : Nat} (hx : x ∈ pre) : x < W := by
  apply hw
  have : x ∈ st.reverse := by rw [h]; exact List.mem_append_left _ hx
  simpa using this

/-! ## per-word costs below the gas bound -/

open Revm.Model.GasCalc in
/-- `base + m · words` as the code computes it (`cost_per_word` with the saturating `num_words`, `checked_add`) against the
formula over unbounded numbers: below the gas bound they charge the same or both exceed the gas left -/
theorem gasOrFail_words (s : IState) (base m len : Nat) (hm : 2 ≤ m) (hm8 : m ≤ 8) (hb : base < 2^40)
    (hl : len < U64) (hg : s.gas.remaining < GAS_BOUND) :
    gasOrFail (match costPerWord len m with
               | none => none
               | some c => U64ops.checkedAdd base c) s
      = if s.gas.remaining < base + m * ceil32 len then .halt .OutOfGas [] s
        else .ok () (charge s (base + m * ceil32 len)) := by
  have hU := U64_val; have hG := GAS_BOUND_val
  have hgu : s.gas.remaining < U64 := by omega
  by_cases h31 : len + 31 < U64
  · have hnw := Proofs.GasCalc.numWords_eq len h31
    have hc : ceil32 len ≤ 2^59 := Proofs.GasCalc.ceil32_le len hl
    have hq : m * ceil32 len ≤ 8 * 2^59 := Nat.mul_le_mul hm8 hc
    have hmw : m * ceil32 len < U64 := by omega
    unfold costPerWord U64ops.checkedMul
    rw [hnw, if_pos hmw]
    simp only []
    unfold U64ops.checkedAdd
    generalize m * ceil32 len = q at *
    rw [if_pos (by omega)]
    unfold gasOrFail
    by_cases hlt : s.gas.remaining < base + q
    · rw [if_pos hlt]; show gasCharge (base + q) s = _; rw [gasCharge_fail s _ hlt]
    · rw [if_neg hlt]; show gasCharge (base + q) s = _; rw [gasCharge_ok s _ hgu (by omega)]; rfl
  · obtain ⟨hnw, hc⟩ := Proofs.GasCalc.numWords_short len (by omega) hl
    have hbig : s.gas.remaining < base + m * ceil32 len := by
      rw [hc]
      have : 2 * 2^59 ≤ m * 2^59 := Nat.mul_le_mul_right _ hm
      omega
    rw [if_pos hbig]
    unfold costPerWord U64ops.checkedMul
    rw [hnw]
    have h1 : 2 * (2^59 - 1) ≤ m * (2^59 - 1) := Nat.mul_le_mul_right _ hm
    by_cases hmw : m * (2^59 - 1) < U64
    · rw [if_pos hmw]
      simp only []
      unfold U64ops.checkedAdd
      by_cases hadd : base + m * (2^59 - 1) < U64
      · rw [if_pos hadd]
        unfold gasOrFail
        show gasCharge (base + m * (2^59 - 1)) s = _
        rw [gasCharge_fail s _ (by omega)]
      · rw [if_neg hadd]; rfl
    · rw [if_neg hmw]; rfl

/-- `gas_or_fail!(verylowcopy_cost(len))` charges `G_verylow + G_copy · ⌈len / 32⌉` -/
theorem copyCharge_eq (s : IState) (len : Nat) (hl : len < U64) (hg : s.gas.remaining < GAS_BOUND) :
    gasOrFail (GasCalc.verylowcopyCost len) s
      = if s.gas.remaining < Spec.GasCalc.copyCost len then .halt .OutOfGas [] s
        else .ok () (charge s (Spec.GasCalc.copyCost len)) :=
  gasOrFail_words s GasCalc.VERYLOW GasCalc.COPY len (by decide) (by decide) (by decide) hl hg

theorem MemOK.bound {s : IState} (h : MemOK s) : s.gas.remaining < GAS_BOUND := by
  have := h.budget; omega

/-! ## more plumbing -/

theorem bind_assoc' {α β γ} (m : M α) (f : α → M β) (g : β → M γ) (s : IState) :
    ((m >>= f) >>= g) s = (m >>= fun a => f a >>= g) s := by
  show M.bind (M.bind m f) g s = M.bind m (fun a => M.bind (f a) g) s
  unfold M.bind
  cases m s <;> rfl

theorem pure_bind' {α β} (a : α) (f : α → M β) (s : IState) : ((pure a : M α) >>= f) s = f a s := rfl

theorem bind_fault {α β} (m : M α) (f : α → M β) (s : IState) (x : Fault) (h : m s = .fault x) :
    (m >>= f) s = .fault x := by
  show M.bind m f s = _
  simp only [M.bind, h]

theorem check_ok (fork : Nat) (s : IState) (h : enabled s.spec fork = true) : check fork s = .ok () s := by
  simp [check, h]

theorem check_fail (fork : Nat) (s : IState) (h : ¬ enabled s.spec fork = true) :
    check fork s = .halt .NotActivated [] s := by
  simp [check, h]

theorem requireNonStatic_ok (s : IState) (h : s.isStatic = false) : requireNonStatic s = .ok () s := by
  simp [requireNonStatic, h]

theorem requireNonStatic_fail (s : IState) (h : s.isStatic = true) :
    requireNonStatic s = .halt .StateChangeDuringStaticCall [] s := by
  simp [requireNonStatic, h]

/-- `gas_or_fail!(keccak256_cost(len))` -/
theorem keccakCharge_eq (s : IState) (len : Nat) (hl : len < U64) (hg : s.gas.remaining < GAS_BOUND) :
    gasOrFail (GasCalc.keccak256Cost len) s
      = if s.gas.remaining < Spec.GasCalc.keccak256Cost len then .halt .OutOfGas [] s
        else .ok () (charge s (Spec.GasCalc.keccak256Cost len)) :=
  gasOrFail_words s GasCalc.KECCAK256 GasCalc.KECCAK256WORD len (by decide) (by decide) (by decide) hl hg

/-- `gas_or_fail!(log_cost(n, len))`: the checked 64-bit sum fails only where the true cost exceeds any `u64` budget -/
theorem logCharge_eq (s : IState) (n len : Nat) (hg : s.gas.remaining < U64) :
    gasOrFail (GasCalc.logCost n len) s
      = if s.gas.remaining < Spec.GasCalc.logCost n len then .halt .OutOfGas [] s
        else .ok () (charge s (Spec.GasCalc.logCost n len)) := by
  cases hc : GasCalc.logCost n len with
  | none =>
    have : ¬ Spec.GasCalc.logCost n len < U64 := by
      intro hlt
      have := (Proofs.GasCalc.logCost_iff n len _).mpr ⟨rfl, hlt⟩
      rw [hc] at this; cases this
    rw [if_pos (by omega)]; rfl
  | some v =>
    obtain ⟨hv, _⟩ := (Proofs.GasCalc.logCost_iff n len v).mp hc
    rw [hv]
    unfold gasOrFail
    simp only []
    by_cases hlt : s.gas.remaining < v
    · rw [if_pos hlt, gasCharge_fail s _ hlt]
    · rw [if_neg hlt, gasCharge_ok s _ hg (by omega)]; rfl

/-! ## stepping through the `pre` part of a host instruction -/

theorem hostCall_ok {α β} (m : M α) (f : α → M (HostOp × β)) (post : β → HostResp → M Unit) (s s' : IState) (a : α)
    (h : m s = .ok a s') : hostCall (m >>= f) post s = hostCall (f a) post s' := by
  unfold hostCall; rw [bind_ok _ _ _ _ _ h]

theorem hostCall_halt {α β} (m : M α) (f : α → M (HostOp × β)) (post : β → HostResp → M Unit) (s s' : IState) (r o)
    (h : m s = .halt r o s') : hostCall (m >>= f) post s = .halt r o s' := by
  unfold hostCall; rw [bind_halt _ _ _ _ _ _ h]

theorem hostCall_assoc {α γ β} (m : M α) (g : α → M γ) (f : γ → M (HostOp × β)) (post : β → HostResp → M Unit)
    (s : IState) : hostCall ((m >>= g) >>= f) post s = hostCall (m >>= fun a => g a >>= f) post s := by
  unfold hostCall; rw [bind_assoc']

theorem hostCall_pure {β} (op : HostOp) (b : β) (post : β → HostResp → M Unit) (s : IState) :
    hostCall (pure (op, b)) post s = .host op (fun r => (post b r s).toDone) := rfl

theorem hostCallAction_ok {α β} (m : M α) (f : α → M (HostOp × β)) (post : β → HostResp → M Action) (s s' : IState)
    (a : α) (h : m s = .ok a s') : hostCallAction (m >>= f) post s = hostCallAction (f a) post s' := by
  unfold hostCallAction; rw [bind_ok _ _ _ _ _ h]

theorem hostCallAction_halt {α β} (m : M α) (f : α → M (HostOp × β)) (post : β → HostResp → M Action)
    (s s' : IState) (r o) (h : m s = .halt r o s') : hostCallAction (m >>= f) post s = .halt r o s' := by
  unfold hostCallAction; rw [bind_halt _ _ _ _ _ _ h]

theorem hostCallAction_assoc {α γ β} (m : M α) (g : α → M γ) (f : γ → M (HostOp × β))
    (post : β → HostResp → M Action) (s : IState) :
    hostCallAction ((m >>= g) >>= f) post s = hostCallAction (m >>= fun a => g a >>= f) post s := by
  unfold hostCallAction; rw [bind_assoc']

theorem hostCallAction_pure {β} (op : HostOp) (b : β) (post : β → HostResp → M Action) (s : IState) :
    hostCallAction (pure (op, b)) post s = .host op (fun r => (post b r s).toDoneAction) := rfl

theorem getS_ok (s : IState) : getS s = .ok s s := rfl

end Revm.Proofs.EvmStep2
