import Revm.Spec.EvmRules
import Revm.Proofs.Gas
import Revm.Proofs.Stack
/-! Proofs of the instruction rules of `Spec/EvmRules.lean` (C01 `step_pure_agrees`): `Interp.step` on any state whose
next opcode belongs to a pure family is exactly the family's rule. -/
namespace Revm.Proofs.EvmStep
open Revm Revm.Model Revm.Model.Interp
open Revm.Model.GasCalc (enabled)
open Revm.Spec.EvmRules

/-! ## stack lemmas on `rest ++ [top]` -/

theorem popUnsafe_concat (l : List Nat) (v : Nat) : Stack.popUnsafe (l ++ [v]) = (l, .ok v) := by
  simp [Stack.popUnsafe]

theorem popNUnsafe_one (l : List Nat) (v : Nat) : Stack.popNUnsafe 1 (l ++ [v]) = (l, .ok [v]) := by
  simp only [Stack.popNUnsafe, popUnsafe_concat]

theorem popNUnsafe_two (l : List Nat) (a b : Nat) : Stack.popNUnsafe 2 (l ++ [b, a]) = (l, .ok [a, b]) := by
  have : l ++ [b, a] = (l ++ [b]) ++ [a] := by simp
  simp only [Stack.popNUnsafe]
  rw [this, popUnsafe_concat (l ++ [b]) a]
  simp only [popUnsafe_concat l b]

theorem peek_concat (l : List Nat) (v : Nat) : Stack.peek (l ++ [v]) 0 = (l ++ [v], .ok v) := by
  simp [Stack.peek]

theorem set_concat (l : List Nat) (v x : Nat) : Stack.set (l ++ [v]) 0 x = (l ++ [x], .ok ()) := by
  simp [Stack.set]

/-- `gas!` on a well-formed meter -/
theorem gasCharge_ok (s : IState) (c : Nat) (hr : s.gas.remaining < U64) (h : c ≤ s.gas.remaining) :
    gasCharge c s = .ok () { s with gas := { s.gas with remaining := s.gas.remaining - c } } := by
  simp only [gasCharge, Proofs.Gas.recordCost_ok s.gas c hr h]
  rfl

theorem gasCharge_fail (s : IState) (c : Nat) (h : s.gas.remaining < c) :
    gasCharge c s = .halt .OutOfGas [] s := by
  simp only [gasCharge, Proofs.Gas.recordCost_fail s.gas c h]
  rfl


theorem bind_ok {α β} (m : M α) (f : α → M β) (s s' : IState) (a : α) (h : m s = .ok a s') :
    (m >>= f) s = f a s' := by
  show M.bind m f s = _
  simp only [M.bind, h]

theorem bind_halt {α β} (m : M α) (f : α → M β) (s s' : IState) (r o) (h : m s = .halt r o s') :
    (m >>= f) s = .halt r o s' := by
  show M.bind m f s = _
  simp only [M.bind, h]

theorem popTop2_ok (s : IState) (l : List Nat) (a b : Nat) (h : s.stack = l ++ [b, a]) :
    popTop2 s = .ok (a, b) { s with stack := l ++ [b] } := by
  unfold popTop2
  have h1 : popTop 2 s = .ok ([a], b) { s with stack := l ++ [b] } := by
    unfold popTop
    have hl : ¬ s.stack.length < 2 := by rw [h]; simp
    rw [if_neg hl]
    have : l ++ [b, a] = (l ++ [b]) ++ [a] := by simp
    rw [show (2 - 1 : Nat) = 1 from rfl, h, this, popNUnsafe_one]
    simp only [peek_concat]
  rw [bind_ok _ _ _ _ _ h1]
  rfl

theorem popTop2_underflow (s : IState) (h : s.stack.length < 2) : popTop2 s = .halt .StackUnderflow [] s := by
  unfold popTop2
  have h1 : popTop 2 s = .halt .StackUnderflow [] s := by
    unfold popTop; rw [if_pos h]
  rw [bind_halt _ _ _ _ _ _ h1]

theorem setTop_ok (s : IState) (l : List Nat) (v x : Nat) (h : s.stack = l ++ [v]) :
    setTop x s = .ok () { s with stack := l ++ [x] } := by
  unfold setTop
  simp only [h, set_concat]

theorem binopI_eq (g fork : Nat) (f : Nat → Nat → Nat) (s : IState) (hwf : s.gas.remaining < U64) :
    (binopI g fork f s).toDone =
      (if !enabled s.spec fork then Done.halt .NotActivated [] s
       else if s.gas.remaining < g then .halt .OutOfGas [] s
       else match s.stack.reverse with
         | a :: b :: rest => .next { charge s g with stack := (f a b :: rest).reverse }
         | _ => .halt .StackUnderflow [] (charge s g)) := by
  unfold binopI
  by_cases hen : enabled s.spec fork
  · have hc : check fork s = .ok () s := by simp [check, hen]
    rw [bind_ok _ _ _ _ _ hc]
    simp only [hen, Bool.not_true, Bool.false_eq_true, if_false]
    by_cases hg : s.gas.remaining < g
    · rw [bind_halt _ _ _ _ _ _ (gasCharge_fail s g hg), if_pos hg]; rfl
    · rw [bind_ok _ _ _ _ _ (gasCharge_ok s g hwf (by omega)), if_neg hg]
      generalize hs2 : ({ s with gas := { s.gas with remaining := s.gas.remaining - g } } : IState) = s2
      have hst : s2.stack = s.stack := by rw [← hs2]
      have hch : charge s g = s2 := hs2
      rw [hch]
      rcases hrev : s.stack.reverse with _ | ⟨a, _ | ⟨b, rest⟩⟩
      · have : s2.stack.length < 2 := by
          rw [hst, ← List.length_reverse, hrev]; decide
        rw [bind_halt _ _ _ _ _ _ (popTop2_underflow s2 this)]; rfl
      · have : s2.stack.length < 2 := by
          rw [hst, ← List.length_reverse, hrev]; simp
        rw [bind_halt _ _ _ _ _ _ (popTop2_underflow s2 this)]; rfl
      · have hs : s2.stack = rest.reverse ++ [b, a] := by
          rw [hst]; have := congrArg List.reverse hrev; simpa using this
        rw [bind_ok _ _ _ _ _ (popTop2_ok s2 _ a b hs)]
        have := setTop_ok { s2 with stack := rest.reverse ++ [b] } rest.reverse b (f a b) rfl
        simp only [this, Exec.toDone, List.reverse_cons]
  · have hc : check fork s = .halt .NotActivated [] s := by simp [check, hen]
    rw [bind_halt _ _ _ _ _ _ hc]
    simp [hen, Exec.toDone]

theorem step_binop (s : IState) (op : Nat) (g : Tier) (fork : Nat) (f : Nat → Nat → Nat)
    (hcode : s.code[s.pc]? = some op) (hdec : decode op = .binop g fork f) (hwf : s.gas.remaining < U64) :
    step s = .pure (binopRule g.cost fork f s) := by
  unfold step
  rw [hcode]
  simp only [hdec, execInstr, execPure]
  show Outcome.pure (binopI g.cost fork f (adv s)).toDone = _
  rw [binopI_eq g.cost fork f (adv s) hwf]
  rfl


/-! ## unary and ternary word operations -/

theorem popTop1_ok (s : IState) (l : List Nat) (a : Nat) (h : s.stack = l ++ [a]) :
    popTop1 s = .ok a s := by
  unfold popTop1
  have h1 : popTop 1 s = .ok ([], a) s := by
    unfold popTop
    have hl : ¬ s.stack.length < 1 := by rw [h]; simp
    rw [if_neg hl, show (1 - 1 : Nat) = 0 from rfl]
    simp only [Stack.popNUnsafe, h, peek_concat]
    rw [← h]
  rw [bind_ok _ _ _ _ _ h1]
  rfl

theorem popTop1_underflow (s : IState) (h : s.stack.length < 1) : popTop1 s = .halt .StackUnderflow [] s := by
  unfold popTop1
  have h1 : popTop 1 s = .halt .StackUnderflow [] s := by
    unfold popTop; rw [if_pos h]
  rw [bind_halt _ _ _ _ _ _ h1]

theorem popNUnsafe_three (l : List Nat) (a b c : Nat) :
    Stack.popNUnsafe 2 (l ++ [c, b, a]) = (l ++ [c], .ok [a, b]) := by
  have : l ++ [c, b, a] = (l ++ [c]) ++ [b, a] := by simp
  rw [this, popNUnsafe_two]

theorem popTop3_ok (s : IState) (l : List Nat) (a b c : Nat) (h : s.stack = l ++ [c, b, a]) :
    popTop3 s = .ok (a, b, c) { s with stack := l ++ [c] } := by
  unfold popTop3
  have h1 : popTop 3 s = .ok ([a, b], c) { s with stack := l ++ [c] } := by
    unfold popTop
    have hl : ¬ s.stack.length < 3 := by rw [h]; simp
    rw [if_neg hl, show (3 - 1 : Nat) = 2 from rfl, h, popNUnsafe_three]
    simp only [peek_concat]
  rw [bind_ok _ _ _ _ _ h1]
  rfl

theorem popTop3_underflow (s : IState) (h : s.stack.length < 3) : popTop3 s = .halt .StackUnderflow [] s := by
  unfold popTop3
  have h1 : popTop 3 s = .halt .StackUnderflow [] s := by
    unfold popTop; rw [if_pos h]
  rw [bind_halt _ _ _ _ _ _ h1]

theorem unopI_eq (g : Nat) (f : Nat → Nat) (s : IState) (hwf : s.gas.remaining < U64) :
    (unopI g f s).toDone =
      (if s.gas.remaining < g then Done.halt .OutOfGas [] s
       else match s.stack.reverse with
         | a :: rest => .next { charge s g with stack := (f a :: rest).reverse }
         | _ => .halt .StackUnderflow [] (charge s g)) := by
  unfold unopI
  by_cases hg : s.gas.remaining < g
  · rw [bind_halt _ _ _ _ _ _ (gasCharge_fail s g hg), if_pos hg]; rfl
  · rw [bind_ok _ _ _ _ _ (gasCharge_ok s g hwf (by omega)), if_neg hg]
    generalize hs2 : ({ s with gas := { s.gas with remaining := s.gas.remaining - g } } : IState) = s2
    have hst : s2.stack = s.stack := by rw [← hs2]
    have hch : charge s g = s2 := hs2
    rw [hch]
    rcases hrev : s.stack.reverse with _ | ⟨a, rest⟩
    · have : s2.stack.length < 1 := by
        rw [hst, ← List.length_reverse, hrev]; decide
      rw [bind_halt _ _ _ _ _ _ (popTop1_underflow s2 this)]; rfl
    · have hs : s2.stack = rest.reverse ++ [a] := by
        rw [hst]; have := congrArg List.reverse hrev; simpa using this
      rw [bind_ok _ _ _ _ _ (popTop1_ok s2 _ a hs)]
      have := setTop_ok s2 rest.reverse a (f a) hs
      simp only [this, Exec.toDone, List.reverse_cons]

theorem teropI_eq (g : Nat) (f : Nat → Nat → Nat → Nat) (s : IState) (hwf : s.gas.remaining < U64) :
    (teropI g f s).toDone =
      (if s.gas.remaining < g then Done.halt .OutOfGas [] s
       else match s.stack.reverse with
         | a :: b :: c :: rest => .next { charge s g with stack := (f a b c :: rest).reverse }
         | _ => .halt .StackUnderflow [] (charge s g)) := by
  unfold teropI
  by_cases hg : s.gas.remaining < g
  · rw [bind_halt _ _ _ _ _ _ (gasCharge_fail s g hg), if_pos hg]; rfl
  · rw [bind_ok _ _ _ _ _ (gasCharge_ok s g hwf (by omega)), if_neg hg]
    generalize hs2 : ({ s with gas := { s.gas with remaining := s.gas.remaining - g } } : IState) = s2
    have hst : s2.stack = s.stack := by rw [← hs2]
    have hch : charge s g = s2 := hs2
    rw [hch]
    rcases hrev : s.stack.reverse with _ | ⟨a, _ | ⟨b, _ | ⟨c, rest⟩⟩⟩
    · have : s2.stack.length < 3 := by rw [hst, ← List.length_reverse, hrev]; decide
      rw [bind_halt _ _ _ _ _ _ (popTop3_underflow s2 this)]; rfl
    · have : s2.stack.length < 3 := by rw [hst, ← List.length_reverse, hrev]; simp
      rw [bind_halt _ _ _ _ _ _ (popTop3_underflow s2 this)]; rfl
    · have : s2.stack.length < 3 := by rw [hst, ← List.length_reverse, hrev]; simp
      rw [bind_halt _ _ _ _ _ _ (popTop3_underflow s2 this)]; rfl
    · have hs : s2.stack = rest.reverse ++ [c, b, a] := by
        rw [hst]; have := congrArg List.reverse hrev; simpa using this
      rw [bind_ok _ _ _ _ _ (popTop3_ok s2 _ a b c hs)]
      have := setTop_ok { s2 with stack := rest.reverse ++ [c] } rest.reverse c (f a b c) rfl
      simp only [this, Exec.toDone, List.reverse_cons]

theorem step_unop (s : IState) (op : Nat) (g : Tier) (f : Nat → Nat) (hcode : s.code[s.pc]? = some op)
    (hdec : decode op = .unop g f) (hwf : s.gas.remaining < U64) :
    step s = .pure (unopRule g.cost f s) := by
  unfold step
  rw [hcode]
  simp only [hdec, execInstr, execPure]
  show Outcome.pure (unopI g.cost f (adv s)).toDone = _
  rw [unopI_eq g.cost f (adv s) hwf]
  rfl

theorem step_terop (s : IState) (op : Nat) (g : Tier) (f : Nat → Nat → Nat → Nat)
    (hcode : s.code[s.pc]? = some op) (hdec : decode op = .terop g f) (hwf : s.gas.remaining < U64) :
    step s = .pure (teropRule g.cost f s) := by
  unfold step
  rw [hcode]
  simp only [hdec, execInstr, execPure]
  show Outcome.pure (teropI g.cost f (adv s)).toDone = _
  rw [teropI_eq g.cost f (adv s) hwf]
  rfl

/-! ## `check!; gas!; push!(value)`: the environment reads, PC, MSIZE, GAS -/

theorem pushValI_eq (g fork : Nat) (v : IState → Nat) (s : IState) (hwf : s.gas.remaining < U64) :
    (pushValI g fork v s).toDone =
      (if !enabled s.spec fork then Done.halt .NotActivated [] s
       else if s.gas.remaining < g then .halt .OutOfGas [] s
       else if s.stack.length = 1024 then .halt .StackOverflow [] (charge s g)
       else .next { charge s g with stack := s.stack ++ [v (charge s g)] }) := by
  unfold pushValI
  by_cases hen : enabled s.spec fork
  · have hc : check fork s = .ok () s := by simp [check, hen]
    rw [bind_ok _ _ _ _ _ hc]
    simp only [hen, Bool.not_true, Bool.false_eq_true, if_false]
    by_cases hg : s.gas.remaining < g
    · rw [bind_halt _ _ _ _ _ _ (gasCharge_fail s g hg), if_pos hg]; rfl
    · rw [bind_ok _ _ _ _ _ (gasCharge_ok s g hwf (by omega)), if_neg hg]
      generalize hs2 : ({ s with gas := { s.gas with remaining := s.gas.remaining - g } } : IState) = s2
      have hst : s2.stack = s.stack := by rw [← hs2]
      have hch : charge s g = s2 := hs2
      rw [hch]
      have hget : getS s2 = .ok s2 s2 := rfl
      rw [bind_ok _ _ _ _ _ hget]
      simp only [push, Stack.push, Stack.STACK_LIMIT, hst]
      by_cases hl : s.stack.length = 1024
      · simp only [hl, if_true, Exec.toDone, stackErr]
      · simp only [hl, if_false, Exec.toDone]
  · have hc : check fork s = .halt .NotActivated [] s := by simp [check, hen]
    rw [bind_halt _ _ _ _ _ _ hc]
    simp [hen, Exec.toDone]

theorem step_pushVal (s : IState) (op : Nat) (g : Tier) (fork : Nat) (v : IState → Nat)
    (hcode : s.code[s.pc]? = some op) (hdec : decode op = .pushVal g fork v) (hwf : s.gas.remaining < U64) :
    step s = .pure (pushValRule g.cost fork v s) := by
  unfold step
  rw [hcode]
  simp only [hdec, execInstr, execPure]
  show Outcome.pure (pushValI g.cost fork v (adv s)).toDone = _
  rw [pushValI_eq g.cost fork v (adv s) hwf]
  rfl

theorem difficultyI_eq (s : IState) (hwf : s.gas.remaining < U64) :
    (difficultyI s).toDone =
      (if s.gas.remaining < GasCalc.BASE then Done.halt .OutOfGas [] s
       else
         match (if enabled s.spec GasCalc.SpecId.MERGE then s.env.prevrandao else some s.env.difficulty) with
         | none => .fault .panic
         | some w =>
           if s.stack.length = 1024 then .halt .StackOverflow [] (charge s GasCalc.BASE)
           else .next { charge s GasCalc.BASE with stack := s.stack ++ [w] }) := by
  unfold difficultyI
  by_cases hg : s.gas.remaining < GasCalc.BASE
  · rw [bind_halt _ _ _ _ _ _ (gasCharge_fail s _ hg), if_pos hg]; rfl
  · rw [bind_ok _ _ _ _ _ (gasCharge_ok s _ hwf (by omega)), if_neg hg]
    generalize hs2 : ({ s with gas := { s.gas with remaining := s.gas.remaining - GasCalc.BASE } } : IState) = s2
    have hst : s2.stack = s.stack := by rw [← hs2]
    have hsp : s2.spec = s.spec := by rw [← hs2]
    have henv : s2.env = s.env := by rw [← hs2]
    have hch : charge s GasCalc.BASE = s2 := hs2
    rw [hch]
    have hget : getS s2 = .ok s2 s2 := rfl
    rw [bind_ok _ _ _ _ _ hget, hsp, henv]
    by_cases hm : enabled s.spec GasCalc.SpecId.MERGE
    · simp only [hm, if_true]
      cases hp : s.env.prevrandao with
      | none => rfl
      | some w =>
        simp only [push, Stack.push, Stack.STACK_LIMIT, hst]
        by_cases hl : s.stack.length = 1024
        · simp only [hl, if_true, Exec.toDone, stackErr]
        · simp only [hl, if_false, Exec.toDone]
    · simp only [hm, if_false, Bool.false_eq_true]
      simp only [push, Stack.push, Stack.STACK_LIMIT, hst]
      by_cases hl : s.stack.length = 1024
      · simp only [hl, if_true, Exec.toDone, stackErr]
      · simp only [hl, if_false, Exec.toDone]

theorem step_difficulty (s : IState) (hcode : s.code[s.pc]? = some 0x44) (hwf : s.gas.remaining < U64) :
    step s = .pure (difficultyRule s) := by
  unfold step
  rw [hcode]
  have hdec : decode 0x44 = .difficulty := rfl
  simp only [hdec, execInstr, execPure]
  show Outcome.pure (difficultyI (adv s)).toDone = _
  rw [difficultyI_eq (adv s) hwf]
  rfl

/-! ## POP, PUSH0, JUMPDEST, DUP, SWAP, PUSH -/

theorem stackCall_eq (f : List Nat → List Nat × Stack.Res Unit) (s : IState) :
    stackCall f s = (match f s.stack with
      | (d, .ok _) => Exec.ok () { s with stack := d }
      | (_, .err e) => .halt (stackErr e) [] s
      | (_, _) => .fault .oobStack) := rfl

theorem popI_eq (s : IState) (hwf : s.gas.remaining < U64) :
    (popI s).toDone =
      (if s.gas.remaining < GasCalc.BASE then Done.halt .OutOfGas [] s
       else match s.stack.reverse with
         | _ :: rest => .next { charge s GasCalc.BASE with stack := rest.reverse }
         | [] => .halt .StackUnderflow [] (charge s GasCalc.BASE)) := by
  unfold popI
  by_cases hg : s.gas.remaining < GasCalc.BASE
  · rw [bind_halt _ _ _ _ _ _ (gasCharge_fail s _ hg), if_pos hg]; rfl
  · rw [bind_ok _ _ _ _ _ (gasCharge_ok s _ hwf (by omega)), if_neg hg]
    generalize hs2 : ({ s with gas := { s.gas with remaining := s.gas.remaining - GasCalc.BASE } } : IState) = s2
    have hst : s2.stack = s.stack := by rw [← hs2]
    have hch : charge s GasCalc.BASE = s2 := hs2
    rw [hch, stackCall_eq, hst]
    rcases hrev : s.stack.reverse with _ | ⟨a, rest⟩
    · have : s.stack = [] := by simpa using hrev
      simp [this, Stack.pop, Exec.toDone, stackErr, resVoid]
    · have hs : s.stack = rest.reverse ++ [a] := by
        have := congrArg List.reverse hrev; simpa using this
      simp [hs, Stack.pop, Exec.toDone, resVoid]

theorem step_pop (s : IState) (hcode : s.code[s.pc]? = some 0x50) (hwf : s.gas.remaining < U64) :
    step s = .pure (popRule s) := by
  unfold step
  rw [hcode]
  have hdec : decode 0x50 = .pop := rfl
  simp only [hdec, execInstr, execPure]
  show Outcome.pure (popI (adv s)).toDone = _
  rw [popI_eq (adv s) hwf]
  rfl

theorem step_jumpdest (s : IState) (hcode : s.code[s.pc]? = some 0x5b) (hwf : s.gas.remaining < U64) :
    step s = .pure (jumpdestRule s) := by
  unfold step
  rw [hcode]
  have hdec : decode 0x5b = .jumpdest := rfl
  simp only [hdec, execInstr, execPure]
  show Outcome.pure (gasCharge GasCalc.JUMPDEST (adv s)).toDone = _
  unfold jumpdestRule
  by_cases hg : s.gas.remaining < GasCalc.JUMPDEST
  · rw [gasCharge_fail (adv s) GasCalc.JUMPDEST hg, if_pos hg]; rfl
  · rw [gasCharge_ok (adv s) GasCalc.JUMPDEST hwf (by show _ ≤ s.gas.remaining; omega), if_neg hg]; rfl

theorem dup_closed (d : List Nat) (n : Nat) (hn : 0 < n) :
    Stack.dup d n = (match d.reverse[n - 1]? with
      | none => (d, .err .StackUnderflow)
      | some v => if d.length < 1024 then (d ++ [v], .ok ()) else (d, .err .StackOverflow)) := by
  unfold Stack.dup
  have hn0 : ¬ n = 0 := by omega
  rw [if_neg hn0]
  by_cases h : d.length < n
  · have : d.reverse[n - 1]? = none := List.getElem?_eq_none (by simp; omega)
    simp [h, this]
  · have h1 : n - 1 < d.length := by omega
    rw [List.getElem?_reverse h1]
    have h2 : d.length - 1 - (n - 1) = d.length - n := by omega
    have h3 : d.length - n < d.length := by omega
    rw [h2, List.getElem?_eq_getElem h3]
    by_cases h4 : d.length + 1 > Stack.STACK_LIMIT
    · have : ¬ d.length < 1024 := by unfold Stack.STACK_LIMIT at h4; omega
      simp [h, h4, this]
    · have : d.length < 1024 := by unfold Stack.STACK_LIMIT at h4; omega
      simp [h, h4, this, List.getElem?_eq_getElem h3]

theorem dupI_eq (n : Nat) (hn : 0 < n) (s : IState) (hwf : s.gas.remaining < U64) :
    (dupI n s).toDone =
      (if s.gas.remaining < GasCalc.VERYLOW then Done.halt .OutOfGas [] s
       else match s.stack.reverse[n - 1]? with
         | none => .halt .StackUnderflow [] (charge s GasCalc.VERYLOW)
         | some v =>
           if s.stack.length < 1024 then .next { charge s GasCalc.VERYLOW with stack := s.stack ++ [v] }
           else .halt .StackOverflow [] (charge s GasCalc.VERYLOW)) := by
  unfold dupI
  by_cases hg : s.gas.remaining < GasCalc.VERYLOW
  · rw [bind_halt _ _ _ _ _ _ (gasCharge_fail s _ hg), if_pos hg]; rfl
  · rw [bind_ok _ _ _ _ _ (gasCharge_ok s _ hwf (by omega)), if_neg hg]
    generalize hs2 : ({ s with gas := { s.gas with remaining := s.gas.remaining - GasCalc.VERYLOW } } : IState) = s2
    have hst : s2.stack = s.stack := by rw [← hs2]
    have hch : charge s GasCalc.VERYLOW = s2 := hs2
    rw [hch, stackCall_eq, hst, dup_closed _ _ hn]
    cases hv : s.stack.reverse[n - 1]? with
    | none => simp [Exec.toDone, stackErr]
    | some v =>
      by_cases hl : s.stack.length < 1024
      · simp [hl, Exec.toDone]
      · simp [hl, Exec.toDone, stackErr]

theorem step_dup (s : IState) (op : Nat) (n : Fin 16) (hcode : s.code[s.pc]? = some op)
    (hdec : decode op = .dup n) (hwf : s.gas.remaining < U64) :
    step s = .pure (dupRule (n.val + 1) s) := by
  unfold step
  rw [hcode]
  simp only [hdec, execInstr, execPure]
  show Outcome.pure (dupI (n.val + 1) (adv s)).toDone = _
  rw [dupI_eq (n.val + 1) (by omega) (adv s) hwf]
  rfl

theorem swap_closed (d : List Nat) (n : Nat) (hn : 0 < n) (hn2 : n < U64) :
    Stack.swap d n = (match d.reverse[0]?, d.reverse[n]? with
      | some a, some b => (((d.reverse.set 0 b).set n a).reverse, .ok ())
      | _, _ => (d, .err .StackUnderflow)) := by
  have h := Proofs.Stack.swap_refines d n hn hn2
  simp only [Proofs.Stack.abs, Stack.step, Spec.Stack.swap, Spec.Stack.exchange, Nat.zero_add] at h
  generalize hr : Stack.swap d n = r at h
  obtain ⟨d', res⟩ := r
  simp only at h
  cases h0 : d.reverse[0]? with
  | none =>
    rw [h0] at h
    simp only [Prod.mk.injEq] at h
    obtain ⟨h1, h2⟩ := h
    have hd : d' = d := by have := congrArg List.reverse h1; simpa using this
    cases res <;> simp_all [Stack.Out.ofUnit]
  | some a =>
    rw [h0] at h
    cases hnn : d.reverse[n]? with
    | none =>
      rw [hnn] at h
      simp only [Prod.mk.injEq] at h
      obtain ⟨h1, h2⟩ := h
      have hd : d' = d := by have := congrArg List.reverse h1; simpa using this
      cases res <;> simp_all [Stack.Out.ofUnit]
    | some b =>
      rw [hnn] at h
      simp only [Prod.mk.injEq] at h
      obtain ⟨h1, h2⟩ := h
      have hd : d' = ((d.reverse.set 0 b).set n a).reverse := by
        have := congrArg List.reverse h1; simpa using this
      cases res <;> simp_all [Stack.Out.ofUnit]

theorem swapI_eq (n : Nat) (hn : 0 < n) (hn2 : n < U64) (s : IState) (hwf : s.gas.remaining < U64) :
    (swapI n s).toDone =
      (if s.gas.remaining < GasCalc.VERYLOW then Done.halt .OutOfGas [] s
       else match s.stack.reverse[0]?, s.stack.reverse[n]? with
         | some a, some b =>
           .next { charge s GasCalc.VERYLOW with stack := ((s.stack.reverse.set 0 b).set n a).reverse }
         | _, _ => .halt .StackUnderflow [] (charge s GasCalc.VERYLOW)) := by
  unfold swapI
  by_cases hg : s.gas.remaining < GasCalc.VERYLOW
  · rw [bind_halt _ _ _ _ _ _ (gasCharge_fail s _ hg), if_pos hg]; rfl
  · rw [bind_ok _ _ _ _ _ (gasCharge_ok s _ hwf (by omega)), if_neg hg]
    generalize hs2 : ({ s with gas := { s.gas with remaining := s.gas.remaining - GasCalc.VERYLOW } } : IState) = s2
    have hst : s2.stack = s.stack := by rw [← hs2]
    have hch : charge s GasCalc.VERYLOW = s2 := hs2
    rw [hch, stackCall_eq, hst, swap_closed _ _ hn hn2]
    cases h0 : s.stack.reverse[0]? with
    | none => simp [Exec.toDone, stackErr]
    | some a =>
      cases hnn : s.stack.reverse[n]? with
      | none => simp [Exec.toDone, stackErr]
      | some b => simp [Exec.toDone]

theorem step_swap (s : IState) (op : Nat) (n : Fin 16) (hcode : s.code[s.pc]? = some op)
    (hdec : decode op = .swap n) (hwf : s.gas.remaining < U64) :
    step s = .pure (swapRule (n.val + 1) s) := by
  unfold step
  rw [hcode]
  simp only [hdec, execInstr, execPure]
  show Outcome.pure (swapI (n.val + 1) (adv s)).toDone = _
  have hlt : n.val + 1 < U64 := by
    have := n.isLt; rw [U64_val]; omega
  rw [swapI_eq (n.val + 1) (by omega) hlt (adv s) hwf]
  rfl


theorem push0I_eq (s : IState) (hwf : s.gas.remaining < U64) :
    (push0I s).toDone =
      (if !enabled s.spec GasCalc.SpecId.SHANGHAI then Done.halt .NotActivated [] s
       else if s.gas.remaining < GasCalc.BASE then .halt .OutOfGas [] s
       else if s.stack.length = 1024 then .halt .StackOverflow [] (charge s GasCalc.BASE)
       else .next { charge s GasCalc.BASE with stack := s.stack ++ [0] }) := by
  unfold push0I
  by_cases hen : enabled s.spec GasCalc.SpecId.SHANGHAI
  · have hc : check GasCalc.SpecId.SHANGHAI s = .ok () s := by simp [check, hen]
    rw [bind_ok _ _ _ _ _ hc]
    simp only [hen, Bool.not_true, Bool.false_eq_true, if_false]
    by_cases hg : s.gas.remaining < GasCalc.BASE
    · rw [bind_halt _ _ _ _ _ _ (gasCharge_fail s _ hg), if_pos hg]; rfl
    · rw [bind_ok _ _ _ _ _ (gasCharge_ok s _ hwf (by omega)), if_neg hg]
      generalize hs2 : ({ s with gas := { s.gas with remaining := s.gas.remaining - GasCalc.BASE } } : IState) = s2
      have hst : s2.stack = s.stack := by rw [← hs2]
      have hch : charge s GasCalc.BASE = s2 := hs2
      rw [hch, stackCall_eq, hst]
      simp only [Stack.push, Stack.STACK_LIMIT]
      by_cases hl : s.stack.length = 1024
      · simp only [hl, if_true, Exec.toDone, stackErr]
      · simp only [hl, if_false, Exec.toDone]
  · have hc : check GasCalc.SpecId.SHANGHAI s = .halt .NotActivated [] s := by simp [check, hen]
    rw [bind_halt _ _ _ _ _ _ hc]
    simp [hen, Exec.toDone]

theorem step_push0 (s : IState) (hcode : s.code[s.pc]? = some 0x5f) (hwf : s.gas.remaining < U64) :
    step s = .pure (push0Rule s) := by
  unfold step
  rw [hcode]
  have hdec : decode 0x5f = .push0 := rfl
  simp only [hdec, execInstr, execPure]
  show Outcome.pure (push0I (adv s)).toDone = _
  rw [push0I_eq (adv s) hwf]
  rfl

theorem chunks32_short (bs : List Nat) (h0 : bs ≠ []) (h : bs.length ≤ 32) : Spec.Stack.chunks32 bs = [bs] := by
  rw [Spec.Stack.chunks32]
  simp only [h0, dite_false]
  have h1 : bs.take 32 = bs := List.take_of_length_le h
  have h2 : bs.drop 32 = [] := List.drop_eq_nil_of_le h
  rw [h1, h2, Spec.Stack.chunks32]
  simp

theorem pushI_eq (n : Nat) (hn : 0 < n) (hn32 : n ≤ 32) (s : IState) (hwf : s.gas.remaining < U64)
    (hst : s.stack.length ≤ 1024) :
    (pushI n s).toDone =
      (if s.gas.remaining < GasCalc.VERYLOW then Done.halt .OutOfGas [] s
       else if s.pc + n ≤ s.code.length then
         if s.stack.length = 1024 then .halt .StackOverflow [] (charge s GasCalc.VERYLOW)
         else .next { charge s GasCalc.VERYLOW with
                      stack := s.stack ++ [Spec.Stack.beNat ((s.code.drop s.pc).take n)], pc := s.pc + n }
       else .fault .oobCode) := by
  unfold pushI
  by_cases hg : s.gas.remaining < GasCalc.VERYLOW
  · rw [bind_halt _ _ _ _ _ _ (gasCharge_fail s _ hg), if_pos hg]; rfl
  · rw [bind_ok _ _ _ _ _ (gasCharge_ok s _ hwf (by omega)), if_neg hg]
    generalize hs2 : ({ s with gas := { s.gas with remaining := s.gas.remaining - GasCalc.VERYLOW } } : IState) = s2
    have hst2 : s2.stack = s.stack := by rw [← hs2]
    have hpc2 : s2.pc = s.pc := by rw [← hs2]
    have hcode2 : s2.code = s.code := by rw [← hs2]
    have hch : charge s GasCalc.VERYLOW = s2 := hs2
    rw [hch]
    by_cases hc : s.pc + n ≤ s.code.length
    · have hcs : codeSlice n s2 = .ok ((s.code.drop s.pc).take n) s2 := by
        simp only [codeSlice, hpc2, hcode2, hc, if_true]
      rw [bind_ok _ _ _ _ _ hcs, if_pos hc]
      have hlen : ((s.code.drop s.pc).take n).length = n := by
        rw [List.length_take, List.length_drop]; omega
      generalize hbs : (s.code.drop s.pc).take n = bs at *
      have hne : bs ≠ [] := by intro h; rw [h] at hlen; simp at hlen; omega
      have hps := Proofs.Stack.pushSlice_eq s.stack bs hst
      have hceil : Spec.Stack.ceil32 bs.length = 1 := by unfold Spec.Stack.ceil32; omega
      rw [hceil, chunks32_short bs hne (by omega)] at hps
      by_cases hl : s.stack.length = 1024
      · have : s.stack.length + 1 > Stack.STACK_LIMIT := by unfold Stack.STACK_LIMIT; omega
        rw [if_pos this] at hps
        have hsc : stackCall (fun d => Stack.pushSlice d bs) s2 = .halt .StackOverflow [] s2 := by
          rw [stackCall_eq, hst2, hps]; rfl
        rw [bind_halt _ _ _ _ _ _ hsc, if_pos hl]; rfl
      · have : ¬ s.stack.length + 1 > Stack.STACK_LIMIT := by unfold Stack.STACK_LIMIT; omega
        rw [if_neg this] at hps
        have hsc : stackCall (fun d => Stack.pushSlice d bs) s2 =
            .ok () { s2 with stack := s.stack ++ [Spec.Stack.beNat bs] } := by
          rw [stackCall_eq, hst2, hps]; rfl
        rw [bind_ok _ _ _ _ _ hsc, if_neg hl]
        simp only [advancePc, modifyS, Exec.toDone, hpc2]
    · have hcs : codeSlice n s2 = .fault .oobCode := by
        simp only [codeSlice, hpc2, hcode2, hc, if_false]
      rw [if_neg hc]
      show (M.bind (codeSlice n) _ s2).toDone = _
      simp only [M.bind, hcs, Exec.toDone]

theorem step_push (s : IState) (op : Nat) (n : Fin 32) (hcode : s.code[s.pc]? = some op)
    (hdec : decode op = .push n) (hwf : s.gas.remaining < U64) (hst : s.stack.length ≤ 1024) :
    step s = .pure (pushRule (n.val + 1) s) := by
  unfold step
  rw [hcode]
  simp only [hdec, execInstr, execPure]
  show Outcome.pure (pushI (n.val + 1) (adv s)).toDone = _
  rw [pushI_eq (n.val + 1) (by omega) (by have := n.isLt; omega) (adv s) hwf hst]
  rfl


/-! ## JUMP, JUMPI -/

theorem pop1_ok (s : IState) (l : List Nat) (a : Nat) (h : s.stack = l ++ [a]) :
    pop1 s = .ok a { s with stack := l } := by
  unfold pop1
  have h1 : popN 1 s = .ok [a] { s with stack := l } := by
    unfold popN Stack.popMacro
    have hl : ¬ s.stack.length < 1 := by rw [h]; simp
    rw [if_neg hl, h, popNUnsafe_one]
  rw [bind_ok _ _ _ _ _ h1]
  rfl

theorem pop1_underflow (s : IState) (h : s.stack.length < 1) : pop1 s = .halt .StackUnderflow [] s := by
  unfold pop1
  have h1 : popN 1 s = .halt .StackUnderflow [] s := by
    unfold popN Stack.popMacro; rw [if_pos h]; rfl
  rw [bind_halt _ _ _ _ _ _ h1]

theorem pop2_ok (s : IState) (l : List Nat) (a b : Nat) (h : s.stack = l ++ [b, a]) :
    pop2 s = .ok (a, b) { s with stack := l } := by
  unfold pop2
  have h1 : popN 2 s = .ok [a, b] { s with stack := l } := by
    unfold popN Stack.popMacro
    have hl : ¬ s.stack.length < 2 := by rw [h]; simp
    rw [if_neg hl, h, popNUnsafe_two]
  rw [bind_ok _ _ _ _ _ h1]
  rfl

theorem pop2_underflow (s : IState) (h : s.stack.length < 2) : pop2 s = .halt .StackUnderflow [] s := by
  unfold pop2
  have h1 : popN 2 s = .halt .StackUnderflow [] s := by
    unfold popN Stack.popMacro; rw [if_pos h]; rfl
  rw [bind_halt _ _ _ _ _ _ h1]

theorem jumpInner_eq (s2 : IState) (t : Nat) : (jumpInner t s2).toDone = jumpTo s2 t := by
  unfold jumpInner jumpTo asUsizeOrFail
  cases hx : Jump.asUsizeOrFail t with
  | none =>
    have : (haltWith (α := Nat) .InvalidJump) s2 = .halt .InvalidJump [] s2 := rfl
    rw [bind_halt _ _ _ _ _ _ this]; rfl
  | some x =>
    have : (pure x : M Nat) s2 = .ok x s2 := rfl
    rw [bind_ok _ _ _ _ _ this]
    have hget : getS s2 = .ok s2 s2 := rfl
    rw [bind_ok _ _ _ _ _ hget]
    by_cases hv : Jump.isValid s2.jumpTable x
    · simp [hv, modifyS, Exec.toDone]
    · simp [hv, haltWith, Exec.toDone]

theorem jumpI_eq (s : IState) (hwf : s.gas.remaining < U64) :
    (jumpI s).toDone =
      (if s.gas.remaining < GasCalc.MID then Done.halt .OutOfGas [] s
       else match s.stack.reverse with
         | t :: rest => jumpTo { charge s GasCalc.MID with stack := rest.reverse } t
         | [] => .halt .StackUnderflow [] (charge s GasCalc.MID)) := by
  unfold jumpI
  by_cases hg : s.gas.remaining < GasCalc.MID
  · rw [bind_halt _ _ _ _ _ _ (gasCharge_fail s _ hg), if_pos hg]; rfl
  · rw [bind_ok _ _ _ _ _ (gasCharge_ok s _ hwf (by omega)), if_neg hg]
    generalize hs2 : ({ s with gas := { s.gas with remaining := s.gas.remaining - GasCalc.MID } } : IState) = s2
    have hst : s2.stack = s.stack := by rw [← hs2]
    have hch : charge s GasCalc.MID = s2 := hs2
    rw [hch]
    rcases hrev : s.stack.reverse with _ | ⟨t, rest⟩
    · have : s2.stack.length < 1 := by rw [hst, ← List.length_reverse, hrev]; decide
      rw [bind_halt _ _ _ _ _ _ (pop1_underflow s2 this)]; rfl
    · have hs : s2.stack = rest.reverse ++ [t] := by
        rw [hst]; have := congrArg List.reverse hrev; simpa using this
      rw [bind_ok _ _ _ _ _ (pop1_ok s2 _ t hs)]
      exact jumpInner_eq _ t

theorem jumpiI_eq (s : IState) (hwf : s.gas.remaining < U64) :
    (jumpiI s).toDone =
      (if s.gas.remaining < GasCalc.HIGH then Done.halt .OutOfGas [] s
       else match s.stack.reverse with
         | t :: c :: rest =>
           if c ≠ 0 then jumpTo { charge s GasCalc.HIGH with stack := rest.reverse } t
           else .next { charge s GasCalc.HIGH with stack := rest.reverse }
         | _ => .halt .StackUnderflow [] (charge s GasCalc.HIGH)) := by
  unfold jumpiI
  by_cases hg : s.gas.remaining < GasCalc.HIGH
  · rw [bind_halt _ _ _ _ _ _ (gasCharge_fail s _ hg), if_pos hg]; rfl
  · rw [bind_ok _ _ _ _ _ (gasCharge_ok s _ hwf (by omega)), if_neg hg]
    generalize hs2 : ({ s with gas := { s.gas with remaining := s.gas.remaining - GasCalc.HIGH } } : IState) = s2
    have hst : s2.stack = s.stack := by rw [← hs2]
    have hch : charge s GasCalc.HIGH = s2 := hs2
    rw [hch]
    rcases hrev : s.stack.reverse with _ | ⟨t, _ | ⟨c, rest⟩⟩
    · have : s2.stack.length < 2 := by rw [hst, ← List.length_reverse, hrev]; decide
      rw [bind_halt _ _ _ _ _ _ (pop2_underflow s2 this)]; rfl
    · have : s2.stack.length < 2 := by rw [hst, ← List.length_reverse, hrev]; simp
      rw [bind_halt _ _ _ _ _ _ (pop2_underflow s2 this)]; rfl
    · have hs : s2.stack = rest.reverse ++ [c, t] := by
        rw [hst]; have := congrArg List.reverse hrev; simpa using this
      rw [bind_ok _ _ _ _ _ (pop2_ok s2 _ t c hs)]
      by_cases hc : c = 0
      · simp [hc, Exec.toDone]; rfl
      · simp only [hc, ne_eq, not_false_eq_true, if_true]
        exact jumpInner_eq _ t

theorem step_jump (s : IState) (hcode : s.code[s.pc]? = some 0x56) (hwf : s.gas.remaining < U64) :
    step s = .pure (jumpRule s) := by
  unfold step
  rw [hcode]
  have hdec : decode 0x56 = .jump := rfl
  simp only [hdec, execInstr, execPure]
  show Outcome.pure (jumpI (adv s)).toDone = _
  rw [jumpI_eq (adv s) hwf]
  rfl

theorem step_jumpi (s : IState) (hcode : s.code[s.pc]? = some 0x57) (hwf : s.gas.remaining < U64) :
    step s = .pure (jumpiRule s) := by
  unfold step
  rw [hcode]
  have hdec : decode 0x57 = .jumpi := rfl
  simp only [hdec, execInstr, execPure]
  show Outcome.pure (jumpiI (adv s)).toDone = _
  rw [jumpiI_eq (adv s) hwf]
  rfl


/-! ## SLOAD, TLOAD -/

theorem sloadI_eq (s : IState) (hwf : s.gas.remaining < U64) :
    sloadI s = (match s.stack.reverse with
      | key :: rest => .host (.sload s.target key) (sloadAfter s rest)
      | [] => .halt .StackUnderflow [] s) := by
  unfold sloadI hostCall
  rcases hrev : s.stack.reverse with _ | ⟨key, rest⟩
  · have : s.stack.length < 1 := by rw [← List.length_reverse, hrev]; decide
    rw [bind_halt _ _ _ _ _ _ (popTop1_underflow s this)]
  · have hs : s.stack = rest.reverse ++ [key] := by
      have := congrArg List.reverse hrev; simpa using this
    rw [bind_ok _ _ _ _ _ (popTop1_ok s _ key hs)]
    have hget : getS s = .ok s s := rfl
    rw [bind_ok _ _ _ _ _ hget]
    show Outcome.host (.sload s.target key) _ = _
    congr 1
    funext r
    unfold sloadAfter
    show ((do requireSome r; let s ← getS; gasCharge (GasCalc.sloadCost s.spec r.isCold); setTop r.word : M Unit) s).toDone = _
    by_cases hok : r.ok
    · have hreq : requireSome r s = .ok () s := by simp [requireSome, hok]
      rw [bind_ok _ _ _ _ _ hreq, bind_ok _ _ _ _ _ hget]
      simp only [hok, Bool.not_true, Bool.false_eq_true, if_false]
      generalize GasCalc.sloadCost s.spec r.isCold = c
      by_cases hg : s.gas.remaining < c
      · rw [bind_halt _ _ _ _ _ _ (gasCharge_fail s c hg), if_pos hg]; rfl
      · rw [bind_ok _ _ _ _ _ (gasCharge_ok s c hwf (by omega)), if_neg hg]
        have := setTop_ok { s with gas := { s.gas with remaining := s.gas.remaining - c } } rest.reverse key r.word hs
        simp only [this, Exec.toDone, List.reverse_cons, charge]
    · have hreq : requireSome r s = .halt .FatalExternalError [] s := by simp [requireSome, hok]
      rw [bind_halt _ _ _ _ _ _ hreq]
      simp [hok, Exec.toDone]

theorem step_sload (s : IState) (hcode : s.code[s.pc]? = some 0x54) (hwf : s.gas.remaining < U64) :
    step s = sloadRule s := by
  unfold step
  rw [hcode]
  have hdec : decode 0x54 = .sload := rfl
  simp only [hdec, execInstr, execPure]
  show sloadI (adv s) = _
  rw [sloadI_eq (adv s) hwf]
  rfl

theorem tloadI_eq (s : IState) (hwf : s.gas.remaining < U64) :
    tloadI s =
      (if !enabled s.spec GasCalc.SpecId.CANCUN then Outcome.halt .NotActivated [] s
       else if s.gas.remaining < GasCalc.WARM_STORAGE_READ_COST then .halt .OutOfGas [] s
       else match s.stack.reverse with
         | key :: rest =>
           .host (.tload s.target key) (fun r =>
             .next { charge s GasCalc.WARM_STORAGE_READ_COST with stack := (r.word :: rest).reverse })
         | [] => .halt .StackUnderflow [] (charge s GasCalc.WARM_STORAGE_READ_COST)) := by
  unfold tloadI hostCall
  by_cases hen : enabled s.spec GasCalc.SpecId.CANCUN
  · have hc : check GasCalc.SpecId.CANCUN s = .ok () s := by simp [check, hen]
    rw [bind_ok _ _ _ _ _ hc]
    simp only [hen, Bool.not_true, Bool.false_eq_true, if_false]
    by_cases hg : s.gas.remaining < GasCalc.WARM_STORAGE_READ_COST
    · rw [bind_halt _ _ _ _ _ _ (gasCharge_fail s _ hg), if_pos hg]
    · rw [bind_ok _ _ _ _ _ (gasCharge_ok s _ hwf (by omega)), if_neg hg]
      generalize hs2 : ({ s with gas := { s.gas with remaining := s.gas.remaining - GasCalc.WARM_STORAGE_READ_COST } } : IState) = s2
      have hst : s2.stack = s.stack := by rw [← hs2]
      have htg : s2.target = s.target := by rw [← hs2]
      have hch : charge s GasCalc.WARM_STORAGE_READ_COST = s2 := hs2
      rw [hch]
      rcases hrev : s.stack.reverse with _ | ⟨key, rest⟩
      · have : s2.stack.length < 1 := by rw [hst, ← List.length_reverse, hrev]; decide
        rw [bind_halt _ _ _ _ _ _ (popTop1_underflow s2 this)]
      · have hs : s2.stack = rest.reverse ++ [key] := by
          rw [hst]; have := congrArg List.reverse hrev; simpa using this
        rw [bind_ok _ _ _ _ _ (popTop1_ok s2 _ key hs)]
        have hget : getS s2 = .ok s2 s2 := rfl
        rw [bind_ok _ _ _ _ _ hget]
        show Outcome.host (.tload s2.target key) _ = _
        rw [htg]
        congr 1
        funext r
        show (setTop r.word s2).toDone = _
        have := setTop_ok s2 rest.reverse key r.word hs
        simp only [this, Exec.toDone, List.reverse_cons, htg]
  · have hc : check GasCalc.SpecId.CANCUN s = .halt .NotActivated [] s := by simp [check, hen]
    rw [bind_halt _ _ _ _ _ _ hc]
    simp [hen]

theorem step_tload (s : IState) (hcode : s.code[s.pc]? = some 0x5c) (hwf : s.gas.remaining < U64) :
    step s = tloadRule s := by
  unfold step
  rw [hcode]
  have hdec : decode 0x5c = .tload := rfl
  simp only [hdec, execInstr, execPure]
  show tloadI (adv s) = _
  rw [tloadI_eq (adv s) hwf]
  rfl

end Revm.Proofs.EvmStep
