import Revm.Proofs.EvmInstHooksKind
/-! C29 instance, part 2: the shape of the trace of a concrete run that returns.

`WfTrace ks evs`: starting with open frames of kinds `ks` (innermost first, non-empty) the events `evs` are a complete,
well-nested frame history — a frame request answered with a frame opens one of the request's kind, a request answered
with a result opens none, a return closes the innermost one, and the history ends exactly with the return that closes
the last one. `runLoopTr_wf`: every run of the concrete loop that returns `.ok` has such a trace for the kinds of the
frames on its stack (`kindsOf stack`; the kind of a concrete frame is the kind of the request that made it:
`makeFrame_kind`). -/
namespace Revm.Proofs.EvmInstHooks
open Revm Revm.Model Revm.Model.Evm
open Revm.Model.InspectorHooks (Insn Spawn Turn Kind Ev Stacks St Status HandlerRes)

inductive WfTrace : List Kind → List LEv → Prop
  | insn {k : Kind} {ks : List Kind} {l : List LEv} (x : Insn) (g : Truth) :
      WfTrace (k :: ks) l → WfTrace (k :: ks) (.insn x g :: l)
  | frame {k : Kind} {ks : List Kind} {l : List LEv} (k' : Kind) (i : Nat) :
      WfTrace (k' :: k :: ks) l → WfTrace (k :: ks) (.next (.spawn ⟨k', i, none, .frame⟩ false) :: l)
  | result {k : Kind} {ks : List Kind} {l : List LEv} (k' : Kind) (i o : Nat) :
      WfTrace (k :: ks) l → WfTrace (k :: ks) (.next (.spawn ⟨k', i, none, .result o⟩ false) :: l)
  | ret {k k' : Kind} {ks : List Kind} {l : List LEv} (o : Nat) :
      WfTrace (k' :: ks) l → WfTrace (k :: k' :: ks) (.next (.ret (some o) false) :: l)
  | last (k : Kind) (o : Nat) : WfTrace [k] [.next (.ret (some o) false)]

/-- the kinds of the frames of a concrete call stack, innermost first -/
def kindsOf {κ : Type} (st : List (Frame κ)) : List Kind := st.map fun f => kindOfFrame f.kind

/-- kinds of the open frames after an iteration; `none`: the first frame returned -/
def depthOf {κ : Type} : Evm.Next κ → Option (List Kind)
  | .run st _ => some (kindsOf st)
  | .ended top rest _ _ _ _ => some (kindsOf (top :: rest))
  | .done _ _ => none

/-- `l` is a complete history for what is left open after an iteration -/
def Rest {κ : Type} (nx : Evm.Next κ) (l : List LEv) : Prop :=
  match depthOf nx with
  | some d => WfTrace d l
  | none => l = []

theorem deliver_depth {κ : Type} {kind : FrameKind} {o : Interp.ChildResult} {parent : Frame κ}
    {rest : List (Frame κ)} {mem : Memory.SharedMemory} {w : World} {nx : Evm.Next κ}
    (h : Evm.deliver kind o parent rest mem w = .ok nx) : depthOf nx = some (kindsOf (parent :: rest)) := by
  unfold Evm.deliver at h
  cases hi : insertBy kind o { parent.interp with mem := mem } with
  | ok u s =>
    rw [hi] at h
    simp only [pure, Except.pure, Except.ok.injEq] at h
    subst h; rfl
  | halt r out s =>
    rw [hi] at h
    simp only [pure, Except.pure, Except.ok.injEq] at h
    subst h; rfl
  | fault f =>
    rw [hi] at h
    simp [throw, throwThe, MonadExceptOf.throw] at h

theorem frameEnd_depth {κ : Type} {C : CpOps κ} {cfg : Cfg} {top : Frame κ} {rest : List (Frame κ)}
    {r : Interp.IResult} {out : List Nat} {s : Interp.IState} {w : World} {nx : Evm.Next κ}
    (h : frameEnd C cfg top rest r out s w = .ok nx) :
    depthOf nx = match rest with
      | [] => none
      | p :: rest' => some (kindsOf (p :: rest')) := by
  unfold frameEnd at h
  simp only [bind, Except.bind] at h
  cases hm : freeCtx s.mem with
  | error e => rw [hm] at h; simp at h
  | ok mem =>
    rw [hm] at h
    simp only at h
    cases hc : frameReturn C cfg top w (resultOf r out s) with
    | error e => rw [hc] at h; simp at h
    | ok p =>
      obtain ⟨res1, w1⟩ := p
      rw [hc] at h
      simp only at h
      cases rest with
      | nil =>
        simp only [pure, Except.pure, Except.ok.injEq] at h
        subst h; rfl
      | cons p1 rest' => exact deliver_depth h

theorem frameAction_depth {κ : Type} {C : CpOps κ} {cfg : Cfg} {top : Frame κ} {rest : List (Frame κ)}
    {a : Interp.Action} {s : Interp.IState} {w : World} {nx : Evm.Next κ}
    (h : frameAction C cfg top rest a s w = .ok nx) :
    (∃ f w', makeFrame C cfg w a s.mem = .ok (.frame f, w') ∧
      depthOf nx = some (kindOfFrame f.kind :: kindsOf (top :: rest))) ∨
    (∃ o w', makeFrame C cfg w a s.mem = .ok (.result o, w') ∧ depthOf nx = some (kindsOf (top :: rest))) := by
  unfold frameAction at h
  simp only [bind, Except.bind] at h
  cases hm : makeFrame C cfg w a s.mem with
  | error e => rw [hm] at h; simp at h
  | ok x =>
    rw [hm] at h
    obtain ⟨fr, w'⟩ := x
    cases fr with
    | frame f =>
      simp only [pure, Except.pure, Except.ok.injEq] at h
      subst h
      exact Or.inl ⟨f, w', rfl, rfl⟩
    | result o =>
      simp only at h
      exact Or.inr ⟨o, w', rfl, (deliver_depth h).trans rfl⟩

/-- the events after a resolved instruction, followed by a complete history of what is left open -/
theorem afterStep_wf {κ : Type} {C : CpOps κ} {cfg : Cfg} {top : Frame κ} {rest : List (Frame κ)}
    {d : Interp.Done} {w : World} {nx : Evm.Next κ} (h : afterStep C cfg top rest d w = .ok nx)
    (l : List LEv) (hl : Rest nx l) : WfTrace (kindsOf (top :: rest)) (doneEvs C cfg d w ++ l) := by
  unfold afterStep at h
  cases d with
  | next s =>
    simp only [pure, Except.pure, Except.ok.injEq] at h
    subst h
    exact hl
  | action a s =>
    simp only at h
    rcases frameAction_depth h with ⟨f, w', hm, hd⟩ | ⟨o, w', hm, hd⟩
    · simp only [Rest, hd, makeFrame_kind hm] at hl
      simp only [doneEvs, actionEvs, hm, List.cons_append, List.nil_append]
      exact .frame _ _ hl
    · simp only [Rest, hd] at hl
      simp only [doneEvs, actionEvs, hm, List.cons_append, List.nil_append]
      exact .result _ _ _ hl
  | halt r out s =>
    simp only at h
    have hd := frameEnd_depth h
    simp only [doneEvs, retEv, List.cons_append, List.nil_append]
    cases rest with
    | nil =>
      simp only [Rest, hd] at hl
      subst hl
      exact .last _ _
    | cons p rest' =>
      simp only [Rest, hd] at hl
      exact .ret _ hl
  | fault f => simp [throw, throwThe, MonadExceptOf.throw] at h

theorem iterate_wf {κ : Type} {C : CpOps κ} {cfg : Cfg} {stack : List (Frame κ)} {w : World} {nx : Evm.Next κ}
    (h : iterate C cfg stack w = .ok nx) (l : List LEv) (hl : Rest nx l) :
    WfTrace (kindsOf stack) (iterEvs C cfg stack w ++ l) := by
  unfold iterate at h
  cases stack with
  | nil => simp [throw, throwThe, MonadExceptOf.throw] at h
  | cons top rest =>
    simp only at h
    simp only [iterEvs]
    cases hstep : Interp.step top.interp with
    | pure d =>
      rw [hstep] at h
      simp only [stepEvs, List.cons_append]
      exact .insn _ _ (afterStep_wf h l hl)
    | host op k =>
      rw [hstep] at h
      simp only [bind, Except.bind] at h
      cases ha : answer cfg.he w op with
      | error e => rw [ha] at h; simp at h
      | ok p =>
        obtain ⟨resp, w'⟩ := p
        rw [ha] at h
        simp only [ha, stepEvs, List.cons_append]
        exact .insn _ _ (afterStep_wf h l hl)

theorem frameEnd_wf {κ : Type} {C : CpOps κ} {cfg : Cfg} {top : Frame κ} {rest : List (Frame κ)}
    {r : Interp.IResult} {out : List Nat} {s : Interp.IState} {w : World} {nx : Evm.Next κ}
    (h : frameEnd C cfg top rest r out s w = .ok nx) (l : List LEv) (hl : Rest nx l) :
    WfTrace (kindsOf (top :: rest)) (retEv :: l) := by
  have hd := frameEnd_depth h
  cases rest with
  | nil =>
    simp only [Rest, hd] at hl
    subst hl
    exact .last _ _
  | cons p rest' =>
    simp only [Rest, hd] at hl
    exact .ret _ hl

theorem runLoopTr_wf_aux {κ : Type} (C : CpOps κ) (cfg : Cfg) : ∀ fuel : Nat,
    (∀ stack w x, (runLoopTr C cfg fuel stack w).1 = .ok x →
      WfTrace (kindsOf stack) (runLoopTr C cfg fuel stack w).2) ∧
    (∀ top rest r out s w x, (runEndedTr C cfg fuel top rest r out s w).1 = .ok x →
      WfTrace (kindsOf (top :: rest)) (runEndedTr C cfg fuel top rest r out s w).2) := by
  intro fuel
  induction fuel with
  | zero =>
    constructor
    · intro stack w x h; rw [runLoopTr] at h; simp [throw, throwThe, MonadExceptOf.throw] at h
    · intro top rest r out s w x h; rw [runEndedTr] at h; simp [throw, throwThe, MonadExceptOf.throw] at h
  | succ n ih =>
    constructor
    · intro stack w x h
      rw [runLoopTr] at h ⊢
      cases hi : iterate C cfg stack w with
      | error e => rw [hi] at h; simp at h
      | ok nx =>
        rw [hi] at h
        cases nx with
        | run st w' => exact iterate_wf hi _ (ih.1 st w' x h)
        | ended t rs r o s w' => exact iterate_wf hi _ (ih.2 t rs r o s w' x h)
        | done r w' => simpa using iterate_wf hi [] rfl
    · intro top rest r out s w x h
      rw [runEndedTr] at h ⊢
      cases hi : frameEnd C cfg top rest r out s w with
      | error e => rw [hi] at h; simp at h
      | ok nx =>
        rw [hi] at h
        cases nx with
        | run st w' => exact frameEnd_wf hi _ (ih.1 st w' x h)
        | ended t rs r o s w' => exact frameEnd_wf hi _ (ih.2 t rs r o s w' x h)
        | done r w' => exact frameEnd_wf hi [] rfl

/-- every run of the concrete loop that returns has a complete, well-nested trace -/
theorem runLoopTr_wf {κ : Type} (C : CpOps κ) (cfg : Cfg) (fuel : Nat) (stack : List (Frame κ)) (w : World)
    (x : Interp.ChildResult × World) (h : (runLoopTr C cfg fuel stack w).1 = .ok x) :
    WfTrace (kindsOf stack) (runLoopTr C cfg fuel stack w).2 := (runLoopTr_wf_aux C cfg fuel).1 stack w x h

end Revm.Proofs.EvmInstHooks
