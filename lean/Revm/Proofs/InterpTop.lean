import Revm.Proofs.InterpRun
/-! Proofs for C25, part 8: the initial state, the loop for every fuel, reachable states, and the per-step
corollaries in the form `Props/C25.lean` states them. -/
set_option linter.unusedSimpArgs false
set_option linter.unusedVariables false
namespace Revm.Proofs.Interp
open Revm Revm.Model Revm.Model.Interp
open Revm.Proofs.Memory (WF)

/-! ## the initial state -/

/-- the `Env` passed `Env::validate_block_env`: from the Merge on `prevrandao` is set -/
def EnvOk (spec : Nat) (env : Env) : Prop :=
  GasCalc.enabled spec GasCalc.SpecId.MERGE = true → env.prevrandao ≠ none

/-- a memory whose running context is fresh (`SharedMemory::new()` or right after `new_context()`) -/
structure FreshMem (m : Memory.SharedMemory) : Prop where
  wf : WF m
  ck : m.lastCheckpoint ≤ 2^62
  empty : clen m = 0

theorem freshMem_new : FreshMem Memory.new :=
  ⟨Proofs.Memory.new_wf, by show (0 : Nat) ≤ 2^62; omega, rfl⟩

theorem mcost_fresh {m : Memory.SharedMemory} (h : FreshMem m) : Memory.currentExpansionCost m = 0 := by
  unfold Memory.currentExpansionCost
  rw [len_clen h.wf, h.empty]
  rfl

theorem pad_getElem (code : List Nat) (i : Nat) (h1 : code.length ≤ i) (h2 : i < (Jump.pad code).length) :
    (Jump.pad code)[i]? = some 0 := by
  unfold Jump.pad at h2 ⊢
  rw [List.getElem?_append_right h1]
  simp only [List.length_append, List.length_replicate] at h2
  rw [List.getElem?_replicate]
  rw [if_pos (by omega)]

theorem init_inv (code input : List Nat) (gasLimit : Nat) (isStatic : Bool) (spec target caller callValue : Nat)
    (env : Env) (mem : Memory.SharedMemory)
    (hcode : Spec.Jump.Bytes code) (hcl : code.length ≤ Memory.ISIZE_MAX) (hil : input.length ≤ Memory.ISIZE_MAX)
    (hgas : gasLimit < U64) (henv : EnvOk spec env) (hmem : FreshMem mem) :
    Inv (IState.init code input gasLimit isStatic spec target caller callValue env mem)
      ∧ measure (IState.init code input gasLimit isStatic spec target caller callValue env mem) = gasLimit := by
  have hmeas : measure (IState.init code input gasLimit isStatic spec target caller callValue env mem)
      = gasLimit := by
    show gasLimit + Memory.currentExpansionCost mem = gasLimit
    rw [mcost_fresh hmem]; rfl
  refine ⟨?_, hmeas⟩
  exact
    { codeLen := Proofs.Jump.pad_length code
      pad := fun i h1 h2 => pad_getElem code i h1 h2
      jt := by
        intro t ht
        show t < code.length
        by_cases h : t < code.length
        · exact h
        · have := Proofs.Jump.isValid_beyond hcode t (by omega)
          have ht' : Jump.isValid (Jump.analyze (Jump.pad code)) t = true := ht
          rw [this] at ht'; cases ht'
      legacy := rfl
      notInit := rfl
      envOk := henv
      origLe := hcl
      pc := by show 0 < (Jump.pad code).length; rw [Proofs.Jump.pad_length]; omega
      stack := by show ([] : List Nat).length ≤ 1024; simp
      memWF := hmem.wf
      memCk := hmem.ck
      rdLen := by show ([] : List Nat).length ≤ _; simp
      inLen := hil
      meas := by rw [hmeas]; omega
      safe := Or.inr rfl }

/-! ## the loop, for every fuel -/

/-- what `run` may return: a defined result within the gas of the frame; never a fault; "out of fuel" only when
the fuel was at most the measure -/
def RunSafe (fuel : Nat) (s : IState) : RunResult → Prop
  | .done _ _ s' => measure s' ≤ measure s
  | .fault _ => False
  | .outOfFuel => fuel ≤ measure s

theorem RunSafe.mono {n : Nat} {s s' : IState} {r : RunResult} (h : RunSafe n s' r)
    (hm : measure s' + 1 ≤ measure s) : RunSafe (n + 1) s r := by
  cases r with
  | done r o s'' => show measure s'' ≤ measure s; have : measure s'' ≤ measure s' := h; omega
  | fault f => exact h
  | outOfFuel => show n + 1 ≤ measure s; have : n ≤ measure s' := h; omega

theorem continueWith_safe {η : Type} (o : Oracle η) (ho : OracleOk o) (n : Nat) (s : IState) (d : Done) (h : η)
    (hd : StepOk s d) (hs : measure s ≤ U64 - 1)
    (ih : ∀ (s' : IState) (h' : η), Inv s' → RunSafe n s' (run o n s' h').1) :
    RunSafe (n + 1) s (continueWith o (run o n) d h).1 := by
  cases hd with
  | next hi hm _ => exact (ih _ h hi).mono hm
  | @action a s' hi hm hr _ =>
    have hc := ho.child h a
    have hins := insertOutcome_sat (B := measure s - 1) a (o.child h a).1 hi (by omega) (by omega) hr hc
    show RunSafe (n + 1) s (match insertOutcome a (o.child h a).1 s' with
      | .ok _ s'' => run o n s'' (o.child h a).2
      | .halt r out s'' => (RunResult.done r out s'', (o.child h a).2)
      | .fault f => (RunResult.fault f, (o.child h a).2)).1
    cases hx : insertOutcome a (o.child h a).1 s' with
    | ok u s'' =>
      rw [hx] at hins
      have hmid := sat_ok_inv hins
      exact (ih s'' (o.child h a).2 hmid.1).mono (by have := hmid.2.1; omega)
    | halt r out s'' =>
      rw [hx] at hins
      have := sat_halt_inv hins
      show measure s'' ≤ measure s
      omega
    | fault f => rw [hx] at hins; exact (sat_fault_inv hins).elim
  | halt hm => exact hm

theorem run_safe {η : Type} (o : Oracle η) (ho : OracleOk o) :
    ∀ (fuel : Nat) (s : IState) (h : η), Inv s → RunSafe fuel s (run o fuel s h).1 := by
  intro fuel
  induction fuel with
  | zero => intro s h _; exact Nat.zero_le _
  | succ n ih =>
    intro s h hi
    have hg := step_good hi
    show RunSafe (n + 1) s (match step s with
      | .pure d => continueWith o (run o n) d h
      | .host op k => continueWith o (run o n) (k (o.host h op).1) (o.host h op).2).1
    generalize step s = st at hg
    cases hg with
    | pure hd => exact continueWith_safe o ho n s _ h hd hi.meas ih
    | host hk => exact continueWith_safe o ho n s _ _ (hk _ (ho.host h _)) hi.meas ih

/-! ## reachable states -/

/-- the instruction resolved against the oracle -/
def resolve {η : Type} (o : Oracle η) (out : Outcome) (h : η) : Done × η :=
  match out with
  | .pure d => (d, h)
  | .host op k => (k (o.host h op).1, (o.host h op).2)

/-- the states `run` passes through between instructions -/
inductive Reach {η : Type} (o : Oracle η) (s0 : IState) (h0 : η) : IState → η → Prop
  | start : Reach o s0 h0 s0 h0
  | next {s h s' h'} : Reach o s0 h0 s h → resolve o (step s) h = (.next s', h') → Reach o s0 h0 s' h'
  | reenter {s h a s' h' s''} : Reach o s0 h0 s h → resolve o (step s) h = (.action a s', h') →
      insertOutcome a (o.child h' a).1 s' = .ok () s'' → Reach o s0 h0 s'' (o.child h' a).2

theorem resolve_ok {η : Type} (o : Oracle η) (ho : OracleOk o) {s : IState} (hi : Inv s) (h : η) :
    StepOk s (resolve o (step s) h).1 := by
  have hg := step_good hi
  unfold resolve
  generalize step s = st at hg
  cases hg with
  | pure hd => exact hd
  | host hk => exact hk _ (ho.host h _)

/-- the invariant (instruction pointer inside the code, stack within 1024, memory well-formed, …) holds in every
reachable state, and the measure never exceeds its initial value -/
theorem reach_inv {η : Type} (o : Oracle η) (ho : OracleOk o) {s0 : IState} {h0 : η} (hi0 : Inv s0)
    {s : IState} {h : η} (hr : Reach o s0 h0 s h) :
    Inv s ∧ measure s ≤ measure s0 ∧ s.code = s0.code ∧ s.origLen = s0.origLen := by
  induction hr with
  | start => exact ⟨hi0, Nat.le_refl _, rfl, rfl⟩
  | @next s h s' h' _ hres ih =>
    have hok := resolve_ok o ho ih.1 h
    rw [hres] at hok
    cases hok with
    | next hi hm hc => exact ⟨hi, by have := ih.2.1; omega, hc.1.trans ih.2.2.1, hc.2.trans ih.2.2.2⟩
  | @reenter s h a s' h' s'' _ hres hins ih =>
    have hok := resolve_ok o ho ih.1 h
    rw [hres] at hok
    cases hok with
    | action hi hm hr hc =>
      have hsat := insertOutcome_sat (B := measure s - 1) a (o.child h' a).1 hi (by omega)
        (by have := ih.1.meas; omega) hr (ho.child h' a)
      rw [hins] at hsat
      have hmid := sat_ok_inv hsat
      exact ⟨hmid.1, by have := hmid.2.1; have := ih.2.1; omega,
        (hmid.2.2.1.trans hc.1).trans ih.2.2.1, (hmid.2.2.2.trans hc.2).trans ih.2.2.2⟩

/-! ## per-step corollaries -/

theorem mcost_mono {s0 s : IState} (h1 : WF s0.mem) (h2 : WF s.mem) (hg : clen s0.mem ≤ clen s.mem) :
    mcost s0 ≤ mcost s := by
  unfold mcost Memory.currentExpansionCost
  rw [len_clen h1, len_clen h2]
  exact memGas_mono' (numWords_mono hg)

/-- `gas_decreases` on the meter itself: a continuing instruction leaves strictly less gas -/
theorem stepOk_next_gas {s s' : IState} (hi : Inv s) {d : Done}
    (hd : DoneGood { s with pc := s.pc + 1 } d) (hn : d = .next s') :
    s'.gas.remaining + 1 ≤ s.gas.remaining := by
  subst hn
  cases hd with
  | next hn =>
    have h1 := hn.core.meas
    have h2 : mcost { s with pc := s.pc + 1 } ≤ mcost s' :=
      mcost_mono hi.memWF hn.core.memWF hn.core.grow
    have e1 : measure { s with pc := s.pc + 1 } = s.gas.remaining + mcost { s with pc := s.pc + 1 } := rfl
    have e2 : measure s' = s'.gas.remaining + mcost s' := rfl
    rw [e1, e2] at h1
    omega

theorem step_next_gas {η : Type} (o : Oracle η) (ho : OracleOk o) {s s' : IState} (hi : Inv s) (h h' : η)
    (hres : resolve o (step s) h = (.next s', h')) : s'.gas.remaining + 1 ≤ s.gas.remaining := by
  have hpc := hi.pc
  rw [step_eq hpc] at hres
  by_cases hin : s.pc < s.origLen
  · have hs : Start { s with pc := s.pc + 1 } :=
      { codeLen := hi.codeLen, jt := hi.jt, legacy := hi.legacy, notInit := hi.notInit, envOk := hi.envOk,
        origLe := hi.origLe, pc := hin, stack := hi.stack, memWF := hi.memWF, memCk := hi.memCk,
        rdLen := hi.rdLen, inLen := hi.inLen, meas := hi.meas, safe := hi.safe }
    have hg := execInstr_good hs (decode s.code[s.pc])
    generalize execInstr (decode s.code[s.pc]) { s with pc := s.pc + 1 } = out at hg hres
    unfold resolve at hres
    cases hg with
    | pure hd =>
      simp only [Prod.mk.injEq] at hres
      exact stepOk_next_gas hi hd hres.1
    | host hk =>
      simp only [Prod.mk.injEq] at hres
      exact stepOk_next_gas hi (hk _ (ho.host h _)) hres.1
  · have h0 := hi.pad s.pc (by omega) hpc
    rw [List.getElem?_eq_getElem hpc] at h0
    injection h0 with h0
    rw [h0, decode_zero] at hres
    simp [resolve, execInstr, execPure, haltWith, Exec.toDone] at hres

/-- in the padding the interpreter stops -/
theorem step_in_padding {s : IState} (hi : Inv s) (h : s.origLen ≤ s.pc) :
    step s = .halt .Stop [] { s with pc := s.pc + 1 } := by
  have hpc := hi.pc
  rw [step_eq hpc]
  have h0 := hi.pad s.pc h hpc
  rw [List.getElem?_eq_getElem hpc] at h0
  injection h0 with h0
  rw [h0, decode_zero]
  rfl

end Revm.Proofs.Interp
