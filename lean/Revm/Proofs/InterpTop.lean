import Revm.Proofs.InterpRun
/-! Proofs for C25, part 8: the initial state, the loop for every fuel, reachable states, and the per-step
corollaries in the form `Props/C25.lean` states them. -/
set_option linter.unusedSimpArgs false
set_option linter.unusedVariables false
namespace Revm.Proofs.Interp
open Revm Revm.Model Revm.Model.Interp
open Revm.Proofs.Memory (WF)

/-! ## the initial state -/

/-- the `Env` passed `Env::validate_block_env`: from the Merge on `prevrandao` is set -/
def EnvOk (spec : Nat) (env : Env) : Prop :=
  GasCalc.enabled spec GasCalc.SpecId.MERGE = true → env.prevrandao ≠ none

/-- a memory whose running context is fresh (`SharedMemory::new()` or right after `new_context()`) -/
structure FreshMem (m : Memory.SharedMemory) : Prop where
  wf : WF m
  ck : m.lastCheckpoint ≤ 2^62
  empty : clen m = 0

theorem freshMem_new : FreshMem Memory.new :=
  ⟨Proofs.Memory.new_wf, by show (0 : Nat) ≤ 2^62; omega, rfl⟩

theorem mcost_fresh {m : Memory.SharedMemory} (h : FreshMem m) : Memory.currentExpansionCost m = 0 := by
  unfold Memory.currentExpansionCost
  rw [len_clen h.wf, h.empty]
  rfl

theorem pad_getElem (code : List Nat) (i : Nat) (h1 : code.length ≤ i) (h2 : i < (Jump.pad code).length) :
    (Jump.pad code)[i]? = some 0 := by
  unfold Jump.pad at h2 ⊢
  rw [List.getElem?_append_right h1]
  simp only [List.length_append, List.length_replicate] at h2
  rw [List.getElem?_replicate]
  rw [if_pos (by omega)]

theorem init_inv (code input : List Nat) (gasLimit : Nat) (isStatic : Bool) (spec target caller callValue : Nat)
    (env : Env) (mem : Memory.SharedMemory)
    (hcode : Spec.Jump.Bytes code) (hcl : code.length ≤ Memory.ISIZE_MAX) (hil : input.length ≤ Memory.ISIZE_MAX)
    (hgas : gasLimit < U64) (henv : EnvOk spec env) (hmem : FreshMem mem) :
    InvC (Jump.pad code) code.length (IState.init code input gasLimit isStatic spec target caller callValue env mem)
      ∧ measure (IState.init code input gasLimit isStatic spec target caller callValue env mem) = gasLimit := by
  have hmeas : measure (IState.init code input gasLimit isStatic spec target caller callValue env mem)
      = gasLimit := by
    show gasLimit + Memory.currentExpansionCost mem = gasLimit
    rw [mcost_fresh hmem]; rfl
  refine ⟨⟨?_, rfl, rfl⟩, hmeas⟩
  exact
    { codeLen := Proofs.Jump.pad_length code
      pad := fun i h1 h2 => pad_getElem code i h1 h2
      jt := by
        intro t ht
        show t < code.length
        by_cases h : t < code.length
        · exact h
        · have := Proofs.Jump.isValid_beyond hcode t (by omega)
          have ht' : Jump.isValid (Jump.analyze (Jump.pad code)) t = true := ht
          rw [this] at ht'; cases ht'
      legacy := rfl
      notInit := rfl
      envOk := henv
      origLe := hcl
      pc := by show 0 < (Jump.pad code).length; rw [Proofs.Jump.pad_length]; omega
      stack := by show ([] : List Nat).length ≤ 1024; simp
      memWF := hmem.wf
      memCk := hmem.ck
      rdLen := by show ([] : List Nat).length ≤ _; simp
      inLen := hil
      meas := by rw [hmeas]; omega
      safe := Or.inr rfl }

/-! ## per-step corollaries -/

theorem mcost_mono {s0 s : IState} (h1 : WF s0.mem) (h2 : WF s.mem) (hg : clen s0.mem ≤ clen s.mem) :
    mcost s0 ≤ mcost s := by
  unfold mcost Memory.currentExpansionCost
  rw [len_clen h1, len_clen h2]
  exact memGas_mono' (numWords_mono hg)

/-- `gas_decreases` on the meter itself: a continuing instruction leaves strictly less gas -/
theorem stepOk_next_gas {s s' : IState} (hi : Inv s) {d : Done}
    (hd : DoneGood { s with pc := s.pc + 1 } d) (hn : d = .next s') :
    s'.gas.remaining + 1 ≤ s.gas.remaining := by
  subst hn
  cases hd with
  | next hn =>
    have h1 := hn.core.meas
    have h2 : mcost { s with pc := s.pc + 1 } ≤ mcost s' :=
      mcost_mono hi.memWF hn.core.memWF hn.core.grow
    have e1 : measure { s with pc := s.pc + 1 } = s.gas.remaining + mcost { s with pc := s.pc + 1 } := rfl
    have e2 : measure s' = s'.gas.remaining + mcost s' := rfl
    rw [e1, e2] at h1
    omega

theorem step_next_gas {η : Type} (o : Oracle η) (ho : OracleOk o) {s s' : IState} (hi : Inv s) (h h' : η)
    (hres : resolve o (step s) h = (.next s', h')) : s'.gas.remaining + 1 ≤ s.gas.remaining := by
  have hpc := hi.pc
  rw [step_eq hpc] at hres
  by_cases hin : s.pc < s.origLen
  · have hs := hi.start hin
    have hg := execInstr_good hs (decode s.code[s.pc])
    generalize execInstr (decode s.code[s.pc]) { s with pc := s.pc + 1 } = out at hg hres
    unfold resolve at hres
    cases hg with
    | pure hd =>
      simp only [Prod.mk.injEq] at hres
      exact stepOk_next_gas hi hd hres.1
    | host hk =>
      simp only [Prod.mk.injEq] at hres
      exact stepOk_next_gas hi (hk _ (ho.host h _)) hres.1
  · have h0 := hi.pad s.pc (by omega) hpc
    rw [List.getElem?_eq_getElem hpc] at h0
    injection h0 with h0
    rw [h0, decode_zero] at hres
    simp [resolve, execInstr, execPure, haltWith, Exec.toDone] at hres

/-- in the padding the interpreter stops -/
theorem step_in_padding {s : IState} (hi : Inv s) (h : s.origLen ≤ s.pc) :
    step s = .halt .Stop [] { s with pc := s.pc + 1 } := by
  have hpc := hi.pc
  rw [step_eq hpc]
  have h0 := hi.pad s.pc h hpc
  rw [List.getElem?_eq_getElem hpc] at h0
  injection h0 with h0
  rw [h0, decode_zero]
  rfl

end Revm.Proofs.Interp
