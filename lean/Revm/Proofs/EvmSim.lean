import Revm.Model.Evm
/-! The generic simulation of the frame loop (`run_sim`): the whole-transaction machine `Evm.transactWith` is parametric in
the subroutine discipline `CpOps κ`; two disciplines related by a relation on configurations that host answers, frame
creation and frame return preserve give related runs — for every program (the interpreter is the same function on both
sides) and every fuel. -/
namespace Revm.Proofs.EvmSim
open Revm Revm.Model Revm.Model.Evm

/-- two frames of the two machines: same kind, same interpreter state; the checkpoints are related through `R` -/
def FrameRel {κ1 κ2 : Type} (f1 : Frame κ1) (f2 : Frame κ2) : Prop := f1.kind = f2.kind ∧ f1.interp = f2.interp

def StackRel {κ1 κ2 : Type} : List (Frame κ1) → List (Frame κ2) → Prop
  | [], [] => True
  | f1 :: r1, f2 :: r2 => FrameRel f1 f2 ∧ StackRel r1 r2
  | _, _ => False

def cps {κ : Type} (st : List (Frame κ)) : List κ := st.map (·.checkpoint)

def ForRel {κ1 κ2 : Type} (R : List κ1 → World → List κ2 → World → Prop) (ks1 : List κ1) (ks2 : List κ2) :
    FrameOrResult κ1 × World → FrameOrResult κ2 × World → Prop
  | (.frame f1, w1), (.frame f2, w2) => FrameRel f1 f2 ∧ R (f1.checkpoint :: ks1) w1 (f2.checkpoint :: ks2) w2
  | (.result r1, w1), (.result r2, w2) => r1 = r2 ∧ R ks1 w1 ks2 w2
  | _, _ => False

/-- what relates two subroutine disciplines for the frame loop: a relation `R` between configurations (the open
checkpoints, innermost first, and the world) that every host answer, frame creation and frame return carries from
the first machine's completed step to a completed step of the second with the same visible result -/
structure FrameSim {κ1 κ2 : Type} (C1 : CpOps κ1) (C2 : CpOps κ2) (cfg : Cfg) where
  R : List κ1 → World → List κ2 → World → Prop
  host : ∀ ks1 w1 ks2 w2 op resp w1', R ks1 w1 ks2 w2 → answer cfg.he w1 op = .ok (resp, w1') →
    ∃ w2', answer cfg.he w2 op = .ok (resp, w2') ∧ R ks1 w1' ks2 w2'
  callFrame : ∀ ks1 w1 ks2 w2 i mem x1, R ks1 w1 ks2 w2 → makeCallFrame C1 cfg w1 i mem = .ok x1 →
    ∃ x2, makeCallFrame C2 cfg w2 i mem = .ok x2 ∧ ForRel R ks1 ks2 x1 x2
  createFrame : ∀ ks1 w1 ks2 w2 i mem x1, R ks1 w1 ks2 w2 → makeCreateFrame C1 cfg w1 i mem = .ok x1 →
    ∃ x2, makeCreateFrame C2 cfg w2 i mem = .ok x2 ∧ ForRel R ks1 ks2 x1 x2
  callRet : ∀ k1 ks1 w1 k2 ks2 w2 r r1 w1', R (k1 :: ks1) w1 (k2 :: ks2) w2 → callReturn C1 w1 k1 r = .ok (r1, w1') →
    ∃ w2', callReturn C2 w2 k2 r = .ok (r1, w2') ∧ R ks1 w1' ks2 w2'
  createRet : ∀ k1 ks1 w1 k2 ks2 w2 a r r1 w1', R (k1 :: ks1) w1 (k2 :: ks2) w2 →
    createReturn C1 cfg w1 k1 a r = .ok (r1, w1') →
    ∃ w2', createReturn C2 cfg w2 k2 a r = .ok (r1, w2') ∧ R ks1 w1' ks2 w2'

variable {κ1 κ2 : Type} {C1 : CpOps κ1} {C2 : CpOps κ2} {cfg : Cfg}

def NextRel (S : FrameSim C1 C2 cfg) : Next κ1 → Next κ2 → Prop
  | .run st1 w1, .run st2 w2 => StackRel st1 st2 ∧ S.R (cps st1) w1 (cps st2) w2
  | .ended t1 r1 res1 o1 s1 w1, .ended t2 r2 res2 o2 s2 w2 =>
    FrameRel t1 t2 ∧ StackRel r1 r2 ∧ res1 = res2 ∧ o1 = o2 ∧ s1 = s2 ∧ S.R (cps (t1 :: r1)) w1 (cps (t2 :: r2)) w2
  | .done r1 w1, .done r2 w2 => r1 = r2 ∧ S.R [] w1 [] w2
  | _, _ => False

theorem deliver_sim (S : FrameSim C1 C2 cfg) (kind : FrameKind) (o : Interp.ChildResult)
    (p1 : Frame κ1) (p2 : Frame κ2) (r1 : List (Frame κ1)) (r2 : List (Frame κ2)) (mem : Memory.SharedMemory)
    (w1 w2 : World) (hp : FrameRel p1 p2) (hr : StackRel r1 r2) (hR : S.R (cps (p1 :: r1)) w1 (cps (p2 :: r2)) w2)
    (n1 : Next κ1) (h : deliver kind o p1 r1 mem w1 = .ok n1) :
    ∃ n2, deliver kind o p2 r2 mem w2 = .ok n2 ∧ NextRel S n1 n2 := by
  unfold deliver at h ⊢
  rw [← hp.2]
  cases hi : insertBy kind o { p1.interp with mem := mem } with
  | ok u s =>
    rw [hi] at h
    simp only [pure, Except.pure, Except.ok.injEq] at h
    subst h
    exact ⟨_, rfl, ⟨⟨hp.1, rfl⟩, hr⟩, hR⟩
  | halt r out s =>
    rw [hi] at h
    simp only [pure, Except.pure, Except.ok.injEq] at h
    subst h
    exact ⟨_, rfl, hp, hr, rfl, rfl, rfl, hR⟩
  | fault f =>
    rw [hi] at h
    simp [throw, throwThe, MonadExceptOf.throw] at h


theorem frameReturn_sim (S : FrameSim C1 C2 cfg) (t1 : Frame κ1) (t2 : Frame κ2) (ks1 : List κ1) (ks2 : List κ2)
    (w1 w2 : World) (res : Interp.ChildResult) (ht : FrameRel t1 t2)
    (hR : S.R (t1.checkpoint :: ks1) w1 (t2.checkpoint :: ks2) w2) (res1 : Interp.ChildResult) (w1' : World)
    (h : frameReturn C1 cfg t1 w1 res = .ok (res1, w1')) :
    ∃ w2', frameReturn C2 cfg t2 w2 res = .ok (res1, w2') ∧ S.R ks1 w1' ks2 w2' := by
  unfold frameReturn at h ⊢
  rw [← ht.1]
  cases hk : t1.kind with
  | call rs re => rw [hk] at h; exact S.callRet _ _ _ _ _ _ _ _ _ hR h
  | create a => rw [hk] at h; exact S.createRet _ _ _ _ _ _ _ _ _ _ hR h

theorem frameEnd_sim (S : FrameSim C1 C2 cfg) (t1 : Frame κ1) (t2 : Frame κ2) (r1 : List (Frame κ1))
    (r2 : List (Frame κ2)) (res : Interp.IResult) (out : List Nat) (s : Interp.IState) (w1 w2 : World)
    (ht : FrameRel t1 t2) (hr : StackRel r1 r2) (hR : S.R (cps (t1 :: r1)) w1 (cps (t2 :: r2)) w2)
    (n1 : Next κ1) (h : frameEnd C1 cfg t1 r1 res out s w1 = .ok n1) :
    ∃ n2, frameEnd C2 cfg t2 r2 res out s w2 = .ok n2 ∧ NextRel S n1 n2 := by
  unfold frameEnd at h ⊢
  simp only [bind, Except.bind] at h ⊢
  cases hm : freeCtx s.mem with
  | error e => rw [hm] at h; simp at h
  | ok mem =>
    rw [hm] at h
    simp only at h ⊢
    cases hc : frameReturn C1 cfg t1 w1 (resultOf res out s) with
    | error e => rw [hc] at h; simp at h
    | ok p =>
      obtain ⟨res1, w1'⟩ := p
      rw [hc] at h
      obtain ⟨w2', hc2, hR'⟩ := frameReturn_sim S t1 t2 (cps r1) (cps r2) w1 w2 _ ht hR res1 w1' hc
      rw [hc2]
      simp only at h ⊢
      rw [← ht.1]
      cases r1 with
      | nil =>
        cases r2 with
        | nil =>
          simp only [pure, Except.pure, Except.ok.injEq] at h
          subst h
          exact ⟨_, rfl, rfl, hR'⟩
        | cons a b => exact absurd hr (by simp [StackRel])
      | cons p1 r1' =>
        cases r2 with
        | nil => exact absurd hr (by simp [StackRel])
        | cons p2 r2' =>
          simp only at h ⊢
          exact deliver_sim S t1.kind res1 p1 p2 r1' r2' mem w1' w2' hr.1 hr.2 hR' n1 h

theorem makeFrame_sim (S : FrameSim C1 C2 cfg) (ks1 : List κ1) (ks2 : List κ2) (w1 w2 : World) (a : Interp.Action)
    (mem : Memory.SharedMemory) (hR : S.R ks1 w1 ks2 w2) (x1 : FrameOrResult κ1 × World)
    (h : makeFrame C1 cfg w1 a mem = .ok x1) :
    ∃ x2, makeFrame C2 cfg w2 a mem = .ok x2 ∧ ForRel S.R ks1 ks2 x1 x2 := by
  unfold makeFrame at h ⊢
  cases a with
  | call i => exact S.callFrame _ _ _ _ _ _ _ hR h
  | create i => exact S.createFrame _ _ _ _ _ _ _ hR h
  | eofCreate i => simp [throw, throwThe, MonadExceptOf.throw] at h

theorem frameAction_sim (S : FrameSim C1 C2 cfg) (t1 : Frame κ1) (t2 : Frame κ2) (r1 : List (Frame κ1))
    (r2 : List (Frame κ2)) (a : Interp.Action) (s : Interp.IState) (w1 w2 : World)
    (ht : FrameRel t1 t2) (hr : StackRel r1 r2) (hR : S.R (cps (t1 :: r1)) w1 (cps (t2 :: r2)) w2)
    (n1 : Next κ1) (h : frameAction C1 cfg t1 r1 a s w1 = .ok n1) :
    ∃ n2, frameAction C2 cfg t2 r2 a s w2 = .ok n2 ∧ NextRel S n1 n2 := by
  unfold frameAction at h ⊢
  simp only [bind, Except.bind] at h ⊢
  cases hm : makeFrame C1 cfg w1 a s.mem with
  | error e => rw [hm] at h; simp at h
  | ok x1 =>
    rw [hm] at h
    obtain ⟨x2, hm2, hx⟩ := makeFrame_sim S _ _ w1 w2 a s.mem hR x1 hm
    rw [hm2]
    obtain ⟨fr1, w1'⟩ := x1
    obtain ⟨fr2, w2'⟩ := x2
    cases fr1 with
    | frame f1 =>
      cases fr2 with
      | frame f2 =>
        simp only [pure, Except.pure, Except.ok.injEq] at h ⊢
        subst h
        exact ⟨_, rfl, ⟨hx.1, ⟨ht.1, rfl⟩, hr⟩, hx.2⟩
      | result o => exact absurd hx (by simp [ForRel])
    | result o1 =>
      cases fr2 with
      | frame f2 => exact absurd hx (by simp [ForRel])
      | result o2 =>
        simp only [ForRel] at hx
        obtain ⟨ho, hR'⟩ := hx
        subst ho
        simp only at h ⊢
        exact deliver_sim S (kindOfAction a) o1 { t1 with interp := s } { t2 with interp := s } r1 r2 s.mem w1' w2'
          ⟨ht.1, rfl⟩ hr hR' n1 h

theorem afterStep_sim (S : FrameSim C1 C2 cfg) (t1 : Frame κ1) (t2 : Frame κ2) (r1 : List (Frame κ1))
    (r2 : List (Frame κ2)) (d : Interp.Done) (w1 w2 : World)
    (ht : FrameRel t1 t2) (hr : StackRel r1 r2) (hR : S.R (cps (t1 :: r1)) w1 (cps (t2 :: r2)) w2)
    (n1 : Next κ1) (h : afterStep C1 cfg t1 r1 d w1 = .ok n1) :
    ∃ n2, afterStep C2 cfg t2 r2 d w2 = .ok n2 ∧ NextRel S n1 n2 := by
  unfold afterStep at h ⊢
  cases d with
  | next s =>
    simp only [pure, Except.pure, Except.ok.injEq] at h ⊢
    subst h
    exact ⟨_, rfl, ⟨⟨ht.1, rfl⟩, hr⟩, hR⟩
  | action a s => exact frameAction_sim S t1 t2 r1 r2 a s w1 w2 ht hr hR n1 h
  | halt r out s => exact frameEnd_sim S t1 t2 r1 r2 r out s w1 w2 ht hr hR n1 h
  | fault f => simp [throw, throwThe, MonadExceptOf.throw] at h

theorem iterate_sim (S : FrameSim C1 C2 cfg) (st1 : List (Frame κ1)) (st2 : List (Frame κ2)) (w1 w2 : World)
    (hs : StackRel st1 st2) (hR : S.R (cps st1) w1 (cps st2) w2) (n1 : Next κ1)
    (h : iterate C1 cfg st1 w1 = .ok n1) : ∃ n2, iterate C2 cfg st2 w2 = .ok n2 ∧ NextRel S n1 n2 := by
  unfold iterate at h ⊢
  cases st1 with
  | nil => simp [throw, throwThe, MonadExceptOf.throw] at h
  | cons t1 r1 =>
    cases st2 with
    | nil => exact absurd hs (by simp [StackRel])
    | cons t2 r2 =>
      simp only at h ⊢
      rw [← hs.1.2]
      cases hstep : Interp.step t1.interp with
      | pure d => rw [hstep] at h; exact afterStep_sim S t1 t2 r1 r2 d w1 w2 hs.1 hs.2 hR n1 h
      | host op k =>
        rw [hstep] at h
        simp only [bind, Except.bind] at h ⊢
        cases ha : answer cfg.he w1 op with
        | error e => rw [ha] at h; simp at h
        | ok p =>
          obtain ⟨resp, w1'⟩ := p
          rw [ha] at h
          obtain ⟨w2', ha2, hR'⟩ := S.host _ _ _ _ op resp w1' hR ha
          rw [ha2]
          exact afterStep_sim S t1 t2 r1 r2 (k resp) w1' w2' hs.1 hs.2 hR' n1 h

theorem runLoop_sim_aux (S : FrameSim C1 C2 cfg) : ∀ fuel : Nat,
    (∀ st1 st2 w1 w2 x, StackRel st1 st2 → S.R (cps st1) w1 (cps st2) w2 → runLoop C1 cfg fuel st1 w1 = .ok x →
      ∃ w2', runLoop C2 cfg fuel st2 w2 = .ok (x.1, w2') ∧ S.R [] x.2 [] w2') ∧
    (∀ t1 t2 r1 r2 res out s w1 w2 x, FrameRel t1 t2 → StackRel r1 r2 →
      S.R (cps (t1 :: r1)) w1 (cps (t2 :: r2)) w2 → runEnded C1 cfg fuel t1 r1 res out s w1 = .ok x →
      ∃ w2', runEnded C2 cfg fuel t2 r2 res out s w2 = .ok (x.1, w2') ∧ S.R [] x.2 [] w2') := by
  intro fuel
  induction fuel with
  | zero =>
    constructor
    · intro st1 st2 w1 w2 x _ _ h; simp [runLoop, throw, throwThe, MonadExceptOf.throw] at h
    · intro t1 t2 r1 r2 res out s w1 w2 x _ _ _ h; simp [runEnded, throw, throwThe, MonadExceptOf.throw] at h
  | succ n ih =>
    have next : ∀ (n1 : Next κ1) (n2 : Next κ2) (x : Interp.ChildResult × World), NextRel S n1 n2 →
        (match n1 with
          | .run st w => runLoop C1 cfg n st w
          | .ended t r res o s w => runEnded C1 cfg n t r res o s w
          | .done r w => pure (r, w)) = .ok x →
        ∃ w2', (match n2 with
          | .run st w => runLoop C2 cfg n st w
          | .ended t r res o s w => runEnded C2 cfg n t r res o s w
          | .done r w => pure (r, w)) = .ok (x.1, w2') ∧ S.R [] x.2 [] w2' := by
      intro n1 n2 x hn h
      cases n1 with
      | run st1 w1 =>
        cases n2 with
        | run st2 w2 => exact ih.1 _ _ _ _ _ hn.1 hn.2 h
        | ended _ _ _ _ _ _ => exact absurd hn (by simp [NextRel])
        | done _ _ => exact absurd hn (by simp [NextRel])
      | ended t1 r1 res1 o1 s1 w1 =>
        cases n2 with
        | run _ _ => exact absurd hn (by simp [NextRel])
        | ended t2 r2 res2 o2 s2 w2 =>
          obtain ⟨a, b, c, d, e, f⟩ := hn
          subst c; subst d; subst e
          exact ih.2 _ _ _ _ _ _ _ _ _ _ a b f h
        | done _ _ => exact absurd hn (by simp [NextRel])
      | done r1 w1 =>
        cases n2 with
        | run _ _ => exact absurd hn (by simp [NextRel])
        | ended _ _ _ _ _ _ => exact absurd hn (by simp [NextRel])
        | done r2 w2 =>
          obtain ⟨a, b⟩ := hn
          subst a
          have h' : (Except.ok (r1, w1) : R (Interp.ChildResult × World)) = .ok x := h
          injection h' with h'
          subst h'
          exact ⟨w2, rfl, b⟩
    constructor
    · intro st1 st2 w1 w2 x hs hR h
      rw [runLoop] at h ⊢
      simp only [bind, Except.bind] at h ⊢
      cases hi : iterate C1 cfg st1 w1 with
      | error e => rw [hi] at h; simp at h
      | ok n1 =>
        rw [hi] at h
        obtain ⟨n2, hi2, hn⟩ := iterate_sim S st1 st2 w1 w2 hs hR n1 hi
        rw [hi2]
        exact next n1 n2 x hn (by cases n1 <;> exact h)
    · intro t1 t2 r1 r2 res out s w1 w2 x ht hr hR h
      rw [runEnded] at h ⊢
      simp only [bind, Except.bind] at h ⊢
      cases hi : frameEnd C1 cfg t1 r1 res out s w1 with
      | error e => rw [hi] at h; simp at h
      | ok n1 =>
        rw [hi] at h
        obtain ⟨n2, hi2, hn⟩ := frameEnd_sim S t1 t2 r1 r2 res out s w1 w2 ht hr hR n1 hi
        rw [hi2]
        exact next n1 n2 x hn (by cases n1 <;> exact h)

/-- **`run_sim`**: related disciplines give related runs of the frame loop, for every program and every fuel -/
theorem runLoop_sim (S : FrameSim C1 C2 cfg) (fuel : Nat) (st1 : List (Frame κ1)) (st2 : List (Frame κ2))
    (w1 w2 : World) (hs : StackRel st1 st2) (hR : S.R (cps st1) w1 (cps st2) w2) (r : Interp.ChildResult)
    (w1' : World) (h : runLoop C1 cfg fuel st1 w1 = .ok (r, w1')) :
    ∃ w2', runLoop C2 cfg fuel st2 w2 = .ok (r, w2') ∧ S.R [] w1' [] w2' :=
  (runLoop_sim_aux S fuel).1 st1 st2 w1 w2 (r, w1') hs hR h

end Revm.Proofs.EvmSim
