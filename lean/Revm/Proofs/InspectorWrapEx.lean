import Revm.Proofs.InspectorWrapTop
/-! Concrete small machines for C28: witnesses that the hypotheses of the theorems are satisfiable, and the
machine showing that `GasInspector`'s outcome modification IS visible to a consumer that reads the gas of an
error-class outcome. -/
namespace Revm.Proofs.InspectorWrap
open Revm Revm.Model.InspectorWrap

/-- every type parameter is `Unit` -/
def unitTy : Ty :=
  { E := Unit, Rest := Unit, Mem := Unit, CallIn := Unit, CreateIn := Unit, EofIn := Unit, FrameData := Unit,
    Err := Unit, Log := Unit, SD := Unit }

def unitOps : EnvOps unitTy :=
  { logs := fun _ => [], journalLastLen := fun _ => 0, sdInfo := fun _ _ _ => (), depth := fun _ => 0,
    txGasLimit := fun _ => 100000 }

def unitIo : InterpOps unitTy :=
  { push := fun st _ => st, setReturnData := fun st _ => st, isEof := fun _ => false, memSet := fun m _ _ => m }

/-- an `InvalidJump` halt with 40 of 100 gas left -/
def haltResult : InterpreterResult :=
  { result := .InvalidJump, output := [], gas := { limit := 100, remaining := 40, refunded := 0 } }

def unitState : IState unitTy :=
  { ip := 0, instructionResult := .Continue, gas := Revm.Model.Gas.new 100, mem := (), nextAction := .none, rest := () }

/-- a machine whose first `call` halts at once with gas left, with the MAINNET outcome consumers -/
def mainnetLike : Machine unitTy Unit where
  fetch _ := 0
  table _ st c := ({ st with instructionResult := .InvalidJump }, c)
  takeError c := .ok c
  call c _ := .ok (.result { result := haltResult, memoryOffset := (0, 0) }, c)
  create c _ := .ok (.frame unitState (), c)
  eofcreate c _ := .ok (.result { result := haltResult, address := none }, c)
  callReturn c _ r := .ok ({ result := r, memoryOffset := (0, 0) }, c)
  createReturn c _ r := .ok ({ result := r, address := none }, c)
  eofcreateReturn c _ r := .ok ({ result := r, address := none }, c)
  insertCallOutcome c f sh o := mainnetInsertCall unitIo (fun c => .ok c) c f sh o
  insertCreateOutcome c f o := mainnetInsertCreate unitIo (fun c => .ok c) c f o
  insertEofcreateOutcome c f o := mainnetInsertEofcreate unitIo (fun c => .ok c) c f o
  lastFrameReturn c r := .ok (lastFrameReturn (unitOps.txGasLimit c) r, c)
  newContext m := m
  freeContext m := m
  emptyMem := ()
  newMem := ()

theorem mainnetLike_consumers : MainnetConsumers unitOps unitIo mainnetLike where
  insertCall _ _ _ _ := rfl
  insertCreate _ _ _ := rfl
  insertEofcreate _ _ _ := rfl
  last _ _ := rfl

/-- the same machine, but `last_frame_return` hands the first frame's gas record on unchanged, i.e. it READS
the gas of an error-class outcome -/
def leaky : Machine unitTy Unit := { mainnetLike with lastFrameReturn := fun c r => .ok (r, c) }

def emptyW {S : Type} (s : S) : WState unitTy S := { obs := s, callStack := [], createStack := [], eofStack := [] }

end Revm.Proofs.InspectorWrap
