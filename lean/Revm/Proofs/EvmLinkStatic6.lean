import Revm.Proofs.EvmLinkStatic5
import Revm.Proofs.EvmLinkGasInv
import Revm.Proofs.EvmLinkKeep6
/-! LINK, static mode (C10), part 6: the loop. While a static frame `f` stays open, every frame above it is a static
call frame whose checkpoint was handed out after `f` started, and the world satisfies the invariant of C10 — hence the
world state equals the one `f` started on, in every state `run_the_loop` passes (`StepsAbove`, no fuel). -/
set_option linter.unusedSimpArgs false
set_option linter.unusedVariables false
namespace Revm.Proofs.EvmLink
open Revm Revm.Model Revm.Model.Evm
open Revm.Model.Static (BalOk WorldEq)
open Revm.Proofs.Static (Inv inv_init)

/-- the frames above the static frame: static call frames holding checkpoints handed out inside it -/
def AboveOk (cps : List Journal.Checkpoint) (above : List JFrame) : Prop :=
  ∀ g ∈ above, g.checkpoint ∈ cps ∧ g.interp.isStatic = true ∧ ∃ rs re, g.kind = .call rs re

/-- a stack whose part above `rest` is the static frame with its (static) descendants -/
def SStack (db : Journal.Db) (L : Nat) (s0 : Journal.JState) (rest : List JFrame) (stack : List JFrame) (w : World) :
    Prop :=
  ∃ above f cps, stack = above ++ f :: rest ∧ f.interp.isStatic = true ∧ AboveOk cps above ∧ SW db L s0 cps w

def SNext (db : Journal.Db) (L : Nat) (s0 : Journal.JState) (rest : List JFrame) : Next Journal.Checkpoint → Prop
  | .run stack w => SStack db L s0 rest stack w
  | .ended top rest' _ _ _ w => SStack db L s0 rest (top :: rest') w
  | .done _ _ => False

theorem AboveOk.mono {cps cps' : List Journal.Checkpoint} {above : List JFrame} (h : AboveOk cps above)
    (hm : ∀ c ∈ cps, c ∈ cps') : AboveOk cps' above :=
  fun g hg => ⟨hm _ (h g hg).1, (h g hg).2⟩

/-- the running frame gets a new interpreter state that is still static -/
theorem SStack.updTop {db L s0 rest top rest' w} (h : SStack db L s0 rest (top :: rest') w) (s : Interp.IState)
    (hs : s.isStatic = true) : SStack db L s0 rest ({ top with interp := s } :: rest') w := by
  obtain ⟨above, f, cps, e, hf, ha, hw⟩ := h
  cases above with
  | nil =>
    simp only [List.nil_append, List.cons.injEq] at e
    obtain ⟨rfl, rfl⟩ := e
    exact ⟨[], { top with interp := s }, cps, rfl, hs, ha, hw⟩
  | cons g a' =>
    simp only [List.cons_append, List.cons.injEq] at e
    obtain ⟨rfl, rfl⟩ := e
    refine ⟨{ top with interp := s } :: a', f, cps, rfl, hf, ?_, hw⟩
    intro x hx
    cases hx with
    | head => exact ⟨(ha top (List.mem_cons_self ..)).1, hs, (ha top (List.mem_cons_self ..)).2.2⟩
    | tail _ hx => exact ha x (List.mem_cons_of_mem _ hx)

theorem SStack.topStatic {db L s0 rest top rest' w} (h : SStack db L s0 rest (top :: rest') w) :
    top.interp.isStatic = true := by
  obtain ⟨above, f, cps, e, hf, ha, hw⟩ := h
  cases above with
  | nil =>
    simp only [List.nil_append, List.cons.injEq] at e
    rw [e.1]; exact hf
  | cons g a' =>
    simp only [List.cons_append, List.cons.injEq] at e
    rw [e.1]; exact (ha g (List.mem_cons_self ..)).2.1

theorem SStack.world {db L s0 rest stack w w'} (h : SStack db L s0 rest stack w)
    (hw' : ∀ cps, SW db L s0 cps w → SW db L s0 cps w') : SStack db L s0 rest stack w' := by
  obtain ⟨above, f, cps, e, hf, ha, hw⟩ := h
  exact ⟨above, f, cps, e, hf, ha, hw' cps hw⟩

theorem deliver_depth {kind : FrameKind} {o : Interp.ChildResult} {parent : JFrame} {rest : List JFrame}
    {mem : Memory.SharedMemory} {w : World} {nx} (h : deliver kind o parent rest mem w = .ok nx) :
    nextDepth nx = rest.length + 1 := by
  unfold deliver at h
  split at h
  · simp only [pure, Except.pure, Except.ok.injEq] at h; subst h; rfl
  · simp only [pure, Except.pure, Except.ok.injEq] at h; subst h; rfl
  · cases h

/-- delivering an outcome to a waiting static frame -/
theorem deliver_static {db L s0 rest} {kind : FrameKind} {o : Interp.ChildResult} {parent : JFrame}
    {rest' : List JFrame} {mem : Memory.SharedMemory} {w : World} {nx}
    (hS : SStack db L s0 rest (parent :: rest') w) (h : deliver kind o parent rest' mem w = .ok nx) :
    SNext db L s0 rest nx := by
  unfold deliver at h
  have hk : Keep (plusGas { parent.interp with mem := mem } o.gasRemaining) T
      (insertBy kind o { parent.interp with mem := mem }) := by
    unfold insertBy
    cases kind with
    | call rs re => exact insertCall_kept rs re o _
    | create a => exact insertCreate_kept o _
  generalize insertBy kind o { parent.interp with mem := mem } = e at hk h
  cases hk with
  | @ok _ s hs _ =>
    simp only [pure, Except.pure, Except.ok.injEq] at h
    subst h
    exact hS.updTop s (hs.st.trans hS.topStatic)
  | @halt r out s hs =>
    simp only [pure, Except.pure, Except.ok.injEq] at h
    subst h
    exact hS
  | fault => cases h

section loop
variable {db : Journal.Db} {L : Nat} {s0 : Journal.JState} (hb0 : BalOk db s0)
include hb0

/-- a frame above the static frame returns; the static frame itself does not (that would leave `rest.length` frames) -/
theorem frameEnd_static {rest : List JFrame} {cfg : Cfg} {top : JFrame} {rest' : List JFrame} {r : Interp.IResult}
    {out : List Nat} {s : Interp.IState} {w : World} {nx} (hS : SStack db L s0 rest (top :: rest') w)
    (h : frameEnd journalOps cfg top rest' r out s w = .ok nx) (hb : rest.length < nextDepth nx) :
    SNext db L s0 rest nx := by
  unfold frameEnd at h
  obtain ⟨mem, _, h⟩ := bind_ok h
  obtain ⟨⟨res, w1⟩, hret, h⟩ := bind_ok h
  simp only at h
  obtain ⟨above, f, cps, e, hf, ha, hw⟩ := hS
  cases above with
  | nil =>
    simp only [List.nil_append, List.cons.injEq] at e
    obtain ⟨rfl, rfl⟩ := e
    exfalso
    cases rest' with
    | nil =>
      simp only [pure, Except.pure, Except.ok.injEq] at h
      subst h
      simp only [nextDepth] at hb
      omega
    | cons parent rest'' =>
      simp only at h
      have := deliver_depth h
      simp only [List.length_cons] at hb
      omega
  | cons g a' =>
    simp only [List.cons_append, List.cons.injEq] at e
    obtain ⟨rfl, rfl⟩ := e
    obtain ⟨hcp, _, rs, re, hkind⟩ := ha top (List.mem_cons_self ..)
    have hw1 : SW db L s0 cps w1 := by
      unfold frameReturn at hret
      rw [hkind] at hret
      exact sw_callReturn hb0 hw hcp hret
    have hS1 : SStack db L s0 rest (a' ++ f :: rest) w1 :=
      ⟨a', f, cps, rfl, hf, fun x hx => ha x (List.mem_cons_of_mem _ hx), hw1⟩
    cases hq : a' ++ f :: rest with
    | nil => cases a' <;> cases hq
    | cons parent rest'' =>
      rw [hq] at h hS1
      simp only at h
      exact deliver_static hS1 h

/-- the running static frame hands out a (static) call -/
theorem frameAction_static {rest : List JFrame} {cfg : Cfg} {top : JFrame} {rest' : List JFrame}
    {i : Interp.CallInputs} {s : Interp.IState} {w : World} {nx} (hS : SStack db L s0 rest (top :: rest') w)
    (hs : s.isStatic = true) (hsc : StaticCall i)
    (h : frameAction journalOps cfg top rest' (.call i) s w = .ok nx) : SNext db L s0 rest nx := by
  unfold frameAction at h
  obtain ⟨⟨fr, w1⟩, hmk, h⟩ := bind_ok h
  unfold makeFrame at hmk
  simp only at hmk h
  obtain ⟨above, f, cps, e, hf, ha, hw⟩ := hS.updTop s hs
  obtain ⟨cps', hw1, hmono, hfr⟩ := sw_makeCallFrame hb0 hw hsc hmk
  have hS1 : SStack db L s0 rest ({ top with interp := s } :: rest') w1 :=
    ⟨above, f, cps', e, hf, ha.mono hmono, hw1⟩
  cases fr with
  | frame fnew =>
    simp only [pure, Except.pure, Except.ok.injEq] at h
    subst h
    obtain ⟨c1, c2, c3⟩ := hfr fnew rfl
    refine ⟨fnew :: above, f, cps', by rw [e]; rfl, hf, ?_, hw1⟩
    intro x hx
    cases hx with
    | head => exact ⟨c1, c2, c3⟩
    | tail _ hx => exact (ha.mono hmono) x hx
  | result o =>
    simp only at h
    exact deliver_static hS1 h

theorem afterStep_static {rest : List JFrame} {cfg : Cfg} {top : JFrame} {rest' : List JFrame} {d : Interp.Done}
    {w : World} {nx} (hS : SStack db L s0 rest (top :: rest') w) (hd1 : StaticDone d) (hd2 : KDone top.interp d)
    (h : afterStep journalOps cfg top rest' d w = .ok nx) (hb : rest.length < nextDepth nx) :
    SNext db L s0 rest nx := by
  unfold afterStep at h
  have hst := hS.topStatic
  cases hd2 with
  | next hk =>
    simp only [pure, Except.pure, Except.ok.injEq] at h
    subst h
    exact hS.updTop _ (hk.st.trans hst)
  | halt hk => exact frameEnd_static hb0 hS h hb
  | fault => cases h
  | action hk _ =>
    cases hd1 with
    | call hsc => exact frameAction_static hb0 hS (hk.st.trans hst) hsc h

theorem iterate_static {rest : List JFrame} {cfg : Cfg} {stack : List JFrame} {w : World} {nx}
    (hS : SStack db L s0 rest stack w) (h : iterate journalOps cfg stack w = .ok nx)
    (hb : rest.length < nextDepth nx) : SNext db L s0 rest nx := by
  unfold iterate at h
  cases stack with
  | nil => cases h
  | cons top rest' =>
    simp only at h
    have hst := hS.topStatic
    have h1 := step_static top.interp hst
    have h2 := step_kept top.interp
    generalize Interp.step top.interp = o at h h1 h2
    cases h1 with
    | pure hd1 =>
      cases h2 with
      | pure hd2 => exact afterStep_static hb0 hS hd1 hd2 h hb
    | host hop hk1 =>
      cases h2 with
      | host hk2 =>
        simp only at h
        obtain ⟨⟨resp, w1⟩, ha, h⟩ := bind_ok h
        exact afterStep_static hb0 (hS.world fun cps hw => sw_answer hb0 hw ha hop) (hk1 resp) (hk2 resp) h hb

/-- **the static invariant along every run above the static frame** -/
theorem stepsAbove_static {rest : List JFrame} {cfg : Cfg} {n m : Next Journal.Checkpoint}
    (t : StepsAbove cfg rest.length n m) (hS : SNext db L s0 rest n) : SNext db L s0 rest m := by
  induction t with
  | refl n => exact hS
  | iter h hb _ ih => exact ih (iterate_static hb0 hS h hb)
  | fend h hb _ ih => exact ih (frameEnd_static hb0 hS h hb)

end loop

/-- **THE WORLD STATE INSIDE A STATIC FRAME** (C10 `static_frame_state_equal` for whole-EVM runs): in every state
`run_the_loop` passes while the static frame `f` is still open, the world state equals the one `f` started on -/
theorem static_frame_state_equal_evm (cfg : Cfg) (f : JFrame) (rest : List JFrame) (w : World)
    (n : Next Journal.Checkpoint) (hf : f.interp.isStatic = true) (hbal : BalOk w.db w.js)
    (t : StepsAbove cfg rest.length (.run (f :: rest) w) n) :
    ∀ stack' w', n = .run stack' w' → WorldEq w.db w'.js w.js := by
  intro stack' w' hn
  have h0 : SNext w.db w.js.journal.length w.js rest (.run (f :: rest) w) :=
    ⟨[], f, [], rfl, hf, (fun g hg => nomatch hg), ⟨inv_init w.db { js := w.js, cps := [] }, rfl⟩⟩
  have h1 := stepsAbove_static hbal t h0
  rw [hn] at h1
  obtain ⟨above, f', cps, _, _, _, hw⟩ := h1
  exact hw.inv.world

end Revm.Proofs.EvmLink
