import Revm.Proofs.EvmLinkInterp8
import Lean.Elab.Tactic
/-! LINK, the interpreter side of panic-freedom, part 9: **only RETURN / REVERT (and RETURNCONTRACT, which legacy code
cannot reach) end a frame with an output**: every other halt of every instruction carries the empty output (`HE`); the
output of RETURN / REVERT is a slice of the frame's memory. Hence `OutB`. -/
set_option linter.unusedSimpArgs false
set_option linter.unusedVariables false
namespace Revm.Proofs.EvmLink
open Revm Revm.Model Revm.Model.Interp

/-- every halt of `m` carries the empty output -/
def HE {α} (m : M α) : Prop := ∀ s r o s', m s = .halt r o s' → o = []

theorem he_bind {α β} {m : M α} {f : α → M β} (h1 : HE m) (h2 : ∀ a, HE (f a)) : HE (m >>= f) := by
  intro s r o s' h
  change M.bind m f s = _ at h
  unfold M.bind at h
  cases hm : m s with
  | ok a s1 => rw [hm] at h; exact h2 a s1 r o s' h
  | halt r1 o1 s1 => rw [hm] at h; cases h; exact h1 s _ _ _ hm
  | fault f => rw [hm] at h; cases h
theorem he_pure {α} (a : α) : HE (pure a : M α) := fun s r o s' h => nomatch h
theorem he_mpure {α} (a : α) : HE (M.pure a : M α) := fun s r o s' h => nomatch h
theorem he_haltWith {α} (r : IResult) : HE (haltWith r : M α) := fun s r' o s' h => by cases h; rfl
theorem he_faultWith {α} (f : Fault) : HE (faultWith f : M α) := fun s r o s' h => nomatch h
theorem he_getS : HE getS := fun s r o s' h => nomatch h
theorem he_modifyS (f : IState → IState) : HE (modifyS f) := fun s r o s' h => nomatch h

open Lean Elab Tactic Meta in
/-- unfold the head constant of `m` in a goal `HE m` -/
elab "he_unfold" : tactic => do
  let g ← getMainGoal
  let t ← instantiateMVars (← g.getType)
  let m := t.appArg!
  match m.getAppFn with
  | .const n _ => evalTactic (← `(tactic| unfold $(mkIdent n):ident))
  | _ => throwError "he_unfold: no head constant"

/-- a primitive given as a function of the state -/
syntax "he_leaf" : tactic
macro_rules | `(tactic| he_leaf) => `(tactic| focus
  (intro s r o s' h
   try unfold memRes at h
   try simp only [] at h
   repeat' (split at h)
   all_goals first | (cases h; done) | (cases h; rfl)))

syntax "he_auto" : tactic
macro_rules | `(tactic| he_auto) => `(tactic| repeat (first
  | exact he_pure _ | exact he_mpure _ | exact he_haltWith _ | exact he_faultWith _ | exact he_getS | exact he_modifyS _
  | (refine he_bind ?_ (fun _ => ?_))
  | he_leaf
  | split
  | he_unfold))

theorem he_gasCharge (c : Nat) : HE (gasCharge c) := by he_auto
theorem he_popTop (k : Nat) : HE (popTop k) := by he_auto
theorem he_memRes {α β} (x : Memory.Res α) (k : α → Exec β) (r : IResult) (o : List Nat) (s' : IState)
    (h : memRes x k = .halt r o s') : ∃ a, x = .ok a ∧ k a = .halt r o s' := by
  unfold memRes at h
  split at h
  · exact ⟨_, rfl, h⟩
  · cases h
  · cases h
theorem he_resizeMem (off len : Nat) : HE (resizeMem off len) := by
  intro s r o s' h
  unfold resizeMem at h
  obtain ⟨a, _, h⟩ := he_memRes _ _ _ _ _ h
  split at h
  · cases h
  · cases h; rfl
theorem he_liftMemWrite (f : Memory.SharedMemory → Memory.Res Memory.SharedMemory) : HE (liftMemWrite f) := by
  intro s r o s' h
  unfold liftMemWrite at h
  obtain ⟨a, _, h⟩ := he_memRes _ _ _ _ _ h
  cases h
theorem he_memSlice (off len : Nat) : HE (memSlice off len) := by
  intro s r o s' h
  unfold memSlice at h
  obtain ⟨a, _, h⟩ := he_memRes _ _ _ _ _ h
  cases h
theorem he_memSliceRange (a b : Nat) : HE (memSliceRange a b) := by
  intro s r o s' h
  unfold memSliceRange at h
  obtain ⟨a, _, h⟩ := he_memRes _ _ _ _ _ h
  cases h
theorem he_memGetU256 (off : Nat) : HE (memGetU256 off) := by
  intro s r o s' h
  unfold memGetU256 at h
  obtain ⟨a, _, h⟩ := he_memRes _ _ _ _ _ h
  cases h

syntax "he_auto2" : tactic
macro_rules | `(tactic| he_auto2) => `(tactic| repeat (first
  | assumption
  | exact he_pure _ | exact he_mpure _ | exact he_haltWith _ | exact he_faultWith _ | exact he_getS | exact he_modifyS _
  | exact he_gasCharge _ | exact he_popTop _ | exact he_resizeMem _ _ | exact he_liftMemWrite _
  | exact he_memSlice _ _ | exact he_memSliceRange _ _ | exact he_memGetU256 _
  | (refine he_bind ?_ (fun _ => ?_))
  | he_leaf
  | split
  | he_unfold))

set_option maxHeartbeats 100000 in
theorem he_setTop (v : Nat) : HE (setTop v) := by he_auto2

set_option maxHeartbeats 100000 in
theorem he_push (v : Nat) : HE (push v) := by he_auto2

set_option maxHeartbeats 100000 in
theorem he_popN (k : Nat) : HE (popN k) := by he_auto2

set_option maxHeartbeats 100000 in
theorem he_pop1  : HE (pop1) := by he_auto2

set_option maxHeartbeats 100000 in
theorem he_pop2  : HE (pop2) := by he_auto2

set_option maxHeartbeats 100000 in
theorem he_pop3  : HE (pop3) := by he_auto2

set_option maxHeartbeats 100000 in
theorem he_pop4  : HE (pop4) := by he_auto2

set_option maxHeartbeats 100000 in
theorem he_popAddress  : HE (popAddress) := by he_auto2

set_option maxHeartbeats 100000 in
theorem he_popTop1  : HE (popTop1) := by he_auto2

set_option maxHeartbeats 100000 in
theorem he_popTop2  : HE (popTop2) := by he_auto2

set_option maxHeartbeats 100000 in
theorem he_popTop3  : HE (popTop3) := by he_auto2

set_option maxHeartbeats 100000 in
theorem he_asUsizeOrFail (v : Nat) (r : IResult) : HE (asUsizeOrFail v r) := by he_auto2

set_option maxHeartbeats 100000 in
theorem he_check (k : Nat) : HE (check k) := by he_auto2

set_option maxHeartbeats 100000 in
theorem he_requireEof  : HE (requireEof) := by he_auto2

set_option maxHeartbeats 100000 in
theorem he_requireNonStatic  : HE (requireNonStatic) := by he_auto2

set_option maxHeartbeats 100000 in
theorem he_requireInitEof  : HE (requireInitEof) := by he_auto2

set_option maxHeartbeats 100000 in
theorem he_requireSome (r : HostResp) : HE (requireSome r) := by he_auto2

set_option maxHeartbeats 100000 in
theorem he_gasOrFail (c : Option Nat) : HE (gasOrFail c) := by he_auto2

set_option maxHeartbeats 100000 in
theorem he_stackCall (f : List Nat → List Nat × Stack.Res Unit) : HE (stackCall f) := by he_auto2

set_option maxHeartbeats 100000 in
theorem he_stackCallAdv (f : List Nat → List Nat × Stack.Res Unit) (n : Nat) : HE (stackCallAdv f n) := by he_auto2

set_option maxHeartbeats 100000 in
theorem he_codeSlice (n : Nat) : HE (codeSlice n) := by he_auto2

set_option maxHeartbeats 100000 in
theorem he_codeByte (n : Nat) : HE (codeByte n) := by he_auto2

set_option maxHeartbeats 100000 in
theorem he_advancePc (n : Nat) : HE (advancePc n) := by he_auto2

set_option maxHeartbeats 100000 in
theorem he_readU16 (n : Nat) : HE (readU16 n) := by he_auto2

set_option maxHeartbeats 100000 in
theorem he_readI16 (n : Nat) : HE (readI16 n) := by he_auto2

set_option maxHeartbeats 100000 in
theorem he_jumpRel (d : Int) : HE (jumpRel d) := by he_auto2

set_option maxHeartbeats 100000 in
theorem he_getEof  : HE (getEof) := by he_auto2

set_option maxHeartbeats 100000 in
theorem he_loadEofCode (a b : Nat) : HE (loadEofCode a b) := by he_auto2

set_option maxHeartbeats 100000 in
theorem he_setEof (f : EofCtx → EofCtx) : HE (setEof f) := by he_auto2

set_option maxHeartbeats 100000 in
theorem he_assumeNotEof  : HE (assumeNotEof) := by he_auto2

set_option maxHeartbeats 100000 in
theorem he_refund (r : Int) : HE (refund r) := by he_auto2

set_option maxHeartbeats 100000 in
theorem he_memSetU256 (a b : Nat) : HE (memSetU256 a b) := he_liftMemWrite _

set_option maxHeartbeats 100000 in
theorem he_memSetByte (a b : Nat) : HE (memSetByte a b) := he_liftMemWrite _

set_option maxHeartbeats 100000 in
theorem he_memSetData (a b c : Nat) (d : List Nat) : HE (memSetData a b c d) := he_liftMemWrite _

set_option maxHeartbeats 100000 in
theorem he_memCopy (a b c : Nat) : HE (memCopy a b c) := he_liftMemWrite _

set_option maxHeartbeats 100000 in
theorem he_jumpInner (t : Nat) : HE (jumpInner t) := by he_auto2

set_option maxHeartbeats 100000 in
theorem he_checkWhen (b : Bool) (k : Nat) : HE (checkWhen b k) := by he_auto2

/-- the bytes `memSlice` hands out are a slice of the buffer -/
theorem memSlice_len {off len : Nat} {s s1 : IState} {out : List Nat} (h : memSlice off len s = .ok out s1) :
    s1 = s ∧ out.length ≤ s.mem.buffer.length := by
  unfold memSlice memRes at h
  split at h
  · rename_i a heq
    cases h
    refine ⟨rfl, ?_⟩
    unfold Memory.slice Memory.sliceRange at heq
    split at heq
    · split at heq
      · cases heq
        unfold Memory.readAt
        rw [List.length_take, List.length_drop]
        omega
      · cases heq
    · cases heq
  · cases h
  · cases h

/-- every halt of `m` carries an output no longer than the memory buffer of the halting state -/
def HL {α} (m : M α) : Prop := ∀ s r o s', m s = .halt r o s' → o.length ≤ s'.mem.buffer.length

theorem HE.hl {α} {m : M α} (h : HE m) : HL m := fun s r o s' e => by rw [h s r o s' e]; exact Nat.zero_le _

theorem hl_bind {α β} {m : M α} {f : α → M β} (h1 : HL m) (h2 : ∀ a, HL (f a)) : HL (m >>= f) := by
  intro s r o s' h
  change M.bind m f s = _ at h
  unfold M.bind at h
  cases hm : m s with
  | ok a s1 => rw [hm] at h; exact h2 a s1 r o s' h
  | halt r1 o1 s1 => rw [hm] at h; cases h; exact h1 s _ _ _ hm
  | fault f => rw [hm] at h; cases h

theorem hl_sliceOut (r : IResult) (off len : Nat) : HL (memSlice off len >>= fun out => (haltOut r out : M Unit)) := by
  intro s r' o s' h
  change M.bind (memSlice off len) _ s = _ at h
  unfold M.bind at h
  cases hm : memSlice off len s with
  | ok out s1 =>
    rw [hm] at h
    obtain ⟨rfl, hl⟩ := memSlice_len hm
    unfold haltOut at h
    cases h
    exact hl
  | halt r1 o1 s1 => rw [hm] at h; cases h; rw [he_memSlice off len s _ _ _ hm]; exact Nat.zero_le _
  | fault f => rw [hm] at h; cases h

theorem hl_haltOutNil (r : IResult) : HL (haltOut r [] : M Unit) := by
  intro s r' o s' h
  unfold haltOut at h
  cases h
  exact Nat.zero_le _

attribute [local irreducible] gasCharge getS check requireNonStatic requireEof requireInitEof requireSome assumeNotEof gasOrFail refund advancePc setEof popN popTop setTop push stackCall stackCallAdv asUsizeOrFail resizeMem memSlice memSliceRange memGetU256 memSetU256 memSetByte memSetData memCopy codeSlice codeByte jumpRel getEof loadEofCode haltWith haltOut faultWith modifyS liftMemWrite pop1 pop2 pop3 pop4 popAddress popTop1 popTop2 popTop3 readU16 readI16 jumpInner checkWhen

syntax "he_auto3" : tactic
macro_rules | `(tactic| he_auto3) => `(tactic| repeat (first
  | assumption
  | exact he_pure _ | exact he_mpure _ | exact he_haltWith _ | exact he_faultWith _ | exact he_getS | exact he_modifyS _
  | exact he_gasCharge _ | exact he_popTop _ | exact he_resizeMem _ _ | exact he_liftMemWrite _
  | exact he_memSlice _ _ | exact he_memSliceRange _ _ | exact he_memGetU256 _
  | exact he_setTop _ | exact he_push _ | exact he_popN _ | exact he_pop1 | exact he_pop2 | exact he_pop3 | exact he_pop4 | exact he_popAddress | exact he_popTop1 | exact he_popTop2 | exact he_popTop3 | exact he_asUsizeOrFail _ _
  | exact he_check _ | exact he_requireEof | exact he_requireNonStatic | exact he_requireInitEof | exact he_requireSome _ | exact he_gasOrFail _ | exact he_stackCall _ | exact he_stackCallAdv _ _ | exact he_codeSlice _ | exact he_codeByte _ | exact he_advancePc _ | exact he_readU16 _
  | exact he_readI16 _ | exact he_jumpRel _ | exact he_getEof | exact he_loadEofCode _ _ | exact he_setEof _ | exact he_assumeNotEof | exact he_refund _ | exact he_memSetU256 _ _ | exact he_memSetByte _ _ | exact he_memSetData _ _ _ _ | exact he_memCopy _ _ _ | exact he_jumpInner _ | exact he_checkWhen _ _
  | (refine he_bind ?_ (fun _ => ?_))
  | (dsimp only; done)
  | dsimp only
  | he_leaf
  | split
  | he_unfold))

set_option maxHeartbeats 100000 in
theorem he_unopI (c : Nat) (f : Nat → Nat) : HE (unopI c f) := by he_auto3

set_option maxHeartbeats 100000 in
theorem he_binopI (c k : Nat) (f : Nat → Nat → Nat) : HE (binopI c k f) := by he_auto3

set_option maxHeartbeats 100000 in
theorem he_teropI (c : Nat) (f : Nat → Nat → Nat → Nat) : HE (teropI c f) := by he_auto3

set_option maxHeartbeats 100000 in
theorem he_pushValI (c k : Nat) (v : IState → Nat) : HE (pushValI c k v) := by he_auto3

set_option maxHeartbeats 100000 in
theorem he_pushI (n : Nat) : HE (pushI n) := by he_auto3

set_option maxHeartbeats 100000 in
theorem he_dupI (n : Nat) : HE (dupI n) := by he_auto3

set_option maxHeartbeats 100000 in
theorem he_swapI (n : Nat) : HE (swapI n) := by he_auto3

set_option maxHeartbeats 100000 in
theorem he_rjumpI : HE rjumpI := by he_auto3

set_option maxHeartbeats 100000 in
theorem he_rjumpiI : HE rjumpiI := by he_auto3

set_option maxHeartbeats 100000 in
theorem he_rjumpvI : HE rjumpvI := by he_auto3

set_option maxHeartbeats 100000 in
theorem he_callfI : HE callfI := by he_auto3

set_option maxHeartbeats 100000 in
theorem he_retfI : HE retfI := by he_auto3

set_option maxHeartbeats 100000 in
theorem he_jumpfI : HE jumpfI := by he_auto3

set_option maxHeartbeats 100000 in
theorem he_dupnI : HE dupnI := by he_auto3

set_option maxHeartbeats 100000 in
theorem he_swapnI : HE swapnI := by he_auto3

set_option maxHeartbeats 100000 in
theorem he_exchangeI : HE exchangeI := by he_auto3

set_option maxHeartbeats 100000 in
theorem he_dataloadI : HE dataloadI := by he_auto3

set_option maxHeartbeats 100000 in
theorem he_dataloadnI : HE dataloadnI := by he_auto3

set_option maxHeartbeats 100000 in
theorem he_datasizeI : HE datasizeI := by he_auto3

set_option maxHeartbeats 100000 in
theorem he_datacopyI : HE datacopyI := by he_auto3

set_option maxHeartbeats 100000 in
theorem he_returndataloadI : HE returndataloadI := by he_auto3

set_option maxHeartbeats 100000 in
theorem he_expI : HE expI := by he_auto3

set_option maxHeartbeats 100000 in
theorem he_difficultyI : HE difficultyI := by he_auto3

set_option maxHeartbeats 100000 in
theorem he_calldataloadI : HE calldataloadI := by he_auto3

set_option maxHeartbeats 100000 in
theorem he_codesizeI : HE codesizeI := by he_auto3

set_option maxHeartbeats 100000 in
theorem he_returndatacopyI : HE returndatacopyI := by he_auto3

set_option maxHeartbeats 100000 in
theorem he_blobhashI : HE blobhashI := by he_auto3

set_option maxHeartbeats 100000 in
theorem he_popI : HE popI := by he_auto3

set_option maxHeartbeats 100000 in
theorem he_push0I : HE push0I := by he_auto3

set_option maxHeartbeats 100000 in
theorem he_mloadI : HE mloadI := by he_auto3

set_option maxHeartbeats 100000 in
theorem he_mstoreI : HE mstoreI := by he_auto3

set_option maxHeartbeats 100000 in
theorem he_mstore8I : HE mstore8I := by he_auto3

set_option maxHeartbeats 100000 in
theorem he_mcopyI : HE mcopyI := by he_auto3

set_option maxHeartbeats 100000 in
theorem he_jumpI : HE jumpI := by he_auto3

set_option maxHeartbeats 100000 in
theorem he_jumpiI : HE jumpiI := by he_auto3

set_option maxHeartbeats 100000 in
theorem he_copyToMem (d : IState → List Nat) (g : M Unit) (hg : HE g) : HE (copyToMem d g) := by
  unfold copyToMem; he_auto3

/-! ## RETURN / REVERT -/

theorem hl_returnInner (r : IResult) : HL (returnInner r) := by
  unfold returnInner
  refine hl_bind (he_pop2).hl (fun x => ?_)
  obtain ⟨offset, len⟩ := x
  dsimp only
  refine hl_bind (he_asUsizeOrFail _ _).hl (fun len' => ?_)
  split
  · refine hl_bind (he_asUsizeOrFail _ _).hl (fun off' => ?_)
    refine hl_bind (he_resizeMem _ _).hl (fun _ => ?_)
    exact hl_sliceOut r off' len'
  · exact hl_haltOutNil r

theorem hl_revertI : HL revertI := by
  unfold revertI
  exact hl_bind (he_check _).hl (fun _ => hl_returnInner _)

/-! ## outcomes -/

/-- every halt an outcome leads to, whatever the host answers, has an output within the memory buffer -/
def OL (o : Outcome) : Prop :=
  (∀ r out s', o = .pure (.halt r out s') → out.length ≤ s'.mem.buffer.length) ∧
  (∀ op k resp r out s', o = .host op k → k resp = .halt r out s' → out.length ≤ s'.mem.buffer.length)

theorem ol_pure_toDone {e : Exec Unit} (h : ∀ r o s', e = .halt r o s' → o.length ≤ s'.mem.buffer.length) :
    OL (.pure e.toDone) := by
  refine ⟨fun r out s' heq => ?_, fun op k resp r out s' heq => nomatch heq⟩
  cases e with
  | ok a s => cases heq
  | halt r1 o1 s1 => cases heq; exact h _ _ _ rfl
  | fault f => cases heq

theorem ol_pure_toDoneAction {e : Exec Action} (h : ∀ r o s', e = .halt r o s' → o.length ≤ s'.mem.buffer.length) :
    OL (.pure e.toDoneAction) := by
  refine ⟨fun r out s' heq => ?_, fun op k resp r out s' heq => nomatch heq⟩
  cases e with
  | ok a s => cases heq
  | halt r1 o1 s1 => cases heq; exact h _ _ _ rfl
  | fault f => cases heq

theorem ol_hostCall {β} (pre : M (HostOp × β)) (post : β → HostResp → M Unit) (s : IState) (h1 : HL pre)
    (h2 : ∀ b r, HL (post b r)) : OL (hostCall pre post s) := by
  unfold hostCall
  cases hp : pre s with
  | ok x s1 =>
    obtain ⟨op, b⟩ := x
    refine ⟨fun r out s' heq => (nomatch heq), fun op' k resp r out s' heq hk => ?_⟩
    cases heq
    dsimp only at hk
    cases he : post b resp s1 with
    | ok a s2 => rw [he] at hk; cases hk
    | halt r1 o1 s2 => rw [he] at hk; cases hk; exact h2 b resp s1 _ _ _ he
    | fault f => rw [he] at hk; cases hk
  | halt r1 o1 s1 =>
    refine ⟨fun r out s' heq => ?_, fun op k resp r out s' heq => nomatch heq⟩
    cases heq; exact h1 s _ _ _ hp
  | fault f => exact ⟨fun r out s' heq => (nomatch heq), fun op k resp r out s' heq => (nomatch heq)⟩

theorem ol_hostCallAction {β} (pre : M (HostOp × β)) (post : β → HostResp → M Action) (s : IState) (h1 : HL pre)
    (h2 : ∀ b r, HL (post b r)) : OL (hostCallAction pre post s) := by
  unfold hostCallAction
  cases hp : pre s with
  | ok x s1 =>
    obtain ⟨op, b⟩ := x
    refine ⟨fun r out s' heq => (nomatch heq), fun op' k resp r out s' heq hk => ?_⟩
    cases heq
    dsimp only at hk
    cases he : post b resp s1 with
    | ok a s2 => rw [he] at hk; cases hk
    | halt r1 o1 s2 => rw [he] at hk; cases hk; exact h2 b resp s1 _ _ _ he
    | fault f => rw [he] at hk; cases hk
  | halt r1 o1 s1 =>
    refine ⟨fun r out s' heq => ?_, fun op k resp r out s' heq => nomatch heq⟩
    cases heq; exact h1 s _ _ _ hp
  | fault f => exact ⟨fun r out s' heq => (nomatch heq), fun op k resp r out s' heq => (nomatch heq)⟩

theorem ol_hostCallOptAction {β} (pre : M (HostOp × β)) (post : β → HostResp → M (Option Action)) (s : IState)
    (h1 : HL pre) (h2 : ∀ b r, HL (post b r)) : OL (hostCallOptAction pre post s) := by
  unfold hostCallOptAction
  cases hp : pre s with
  | ok x s1 =>
    obtain ⟨op, b⟩ := x
    refine ⟨fun r out s' heq => (nomatch heq), fun op' k resp r out s' heq hk => ?_⟩
    cases heq
    dsimp only at hk
    cases he : post b resp s1 with
    | ok a s2 => rw [he] at hk; cases a <;> cases hk
    | halt r1 o1 s2 => rw [he] at hk; cases hk; exact h2 b resp s1 _ _ _ he
    | fault f => rw [he] at hk; cases hk
  | halt r1 o1 s1 =>
    refine ⟨fun r out s' heq => ?_, fun op k resp r out s' heq => nomatch heq⟩
    cases heq; exact h1 s _ _ _ hp
  | fault f => exact ⟨fun r out s' heq => (nomatch heq), fun op k resp r out s' heq => (nomatch heq)⟩


end Revm.Proofs.EvmLink
