import Revm.Proofs.EvmLinkStrict2
import Revm.Proofs.EvmLinkKeep3
/-! LINK, termination, part 3: every pure handler of `Model.Interp` that lets the frame continue has consumed at least one
unit of gas. -/
set_option linter.unusedSimpArgs false
set_option linter.unusedVariables false
namespace Revm.Proofs.EvmLink
open Revm Revm.Model Revm.Model.Interp

-- failing alternatives of the dispatcher must fail syntactically, not by unfolding two primitives against each other
attribute [local irreducible] gasCharge getS check requireNonStatic requireEof requireInitEof requireSome assumeNotEof
  gasOrFail refund advancePc setEof popN popTop setTop push stackCall stackCallAdv asUsizeOrFail resizeMem memSlice
  memSliceRange memGetU256 memSetU256 memSetByte memSetData memCopy codeSlice codeByte jumpRel getEof loadEofCode
  haltWith haltOut faultWith modifyS liftMemWrite

/-- the side condition of a charge: the cost is at least 1 -/
syntax "sk_side" : tactic
macro_rules | `(tactic| sk_side) => `(tactic| first
  | decide | assumption | exact expCost_pos _ _ | exact copyCost_pos _ | exact keccakCost_pos _
  | exact logCost_pos _ _ | exact create2Cost_pos _ | exact extcodecopyCost_pos _ _ _
  | exact sstoreCost_pos _ _ _ _ _ _ | exact sloadCost_pos _ _ | exact warmColdCost_pos _ | exact callCost_pos _ _ _ _ _
  | (split <;> sk_side))

/-- a primitive (or an already proved helper) at the head of a bind -/
syntax "sk_prim" : tactic
macro_rules | `(tactic| sk_prim) => `(tactic| first
  | exact sk_mono (sk_gasCharge1 ‹_› _ (by sk_side)) (fun _ _ _ _ => trivial)
  | exact sk_gasOrFail1 ‹_› _ (by sk_side)
  | exact sk_mono (sk_gasCharge ‹_› _) (fun _ _ _ _ => trivial)
  | exact sk_mono (sk_getS ‹_›) (fun _ _ _ _ => trivial)
  | exact sk_check ‹_› _
  | exact sk_requireNonStatic ‹_›
  | exact sk_requireEof ‹_›
  | exact sk_requireInitEof ‹_›
  | exact sk_requireSome ‹_› _ ‹_›
  | exact sk_assumeNotEof ‹_›
  | exact sk_gasOrFail ‹_› _
  | exact sk_refund ‹_› _
  | exact sk_advancePc ‹_› _
  | exact sk_setEof ‹_› _
  | exact sk_popN ‹_› _
  | exact sk_popTop ‹_› _
  | exact sk_setTop ‹_› _
  | exact sk_push ‹_› _
  | exact sk_stackCall ‹_› _
  | exact sk_stackCallAdv ‹_› _ _
  | exact sk_asUsizeOrFail ‹_› _ _ (by first | decide | assumption)
  | exact sk_resizeMem ‹_› _ _
  | exact sk_memSlice ‹_› _ _
  | exact sk_memSliceRange ‹_› _ _
  | exact sk_memGetU256 ‹_› _
  | exact sk_memSetU256 ‹_› _ _
  | exact sk_memSetByte ‹_› _ _
  | exact sk_memSetData ‹_› _ _ _ _
  | exact sk_memCopy ‹_› _ _ _
  | exact sk_codeSlice ‹_› _
  | exact sk_codeByte ‹_› _
  | exact sk_jumpRel ‹_› _
  | exact sk_getEof ‹_›
  | exact sk_loadEofCode ‹_› _ _
  | exact sk_haltWith ‹_› _ (by first | decide | assumption)
  | exact sk_haltOut ‹_› _ _ (by first | decide | assumption)
  | exact sk_faultWith _
  | exact sk_pure ‹_› trivial
  | exact sk_modifyS ‹_› _ ⟨rfl, rfl, Nat.le_refl _⟩)

/-- walk through a do-block -/
syntax "sk_auto" : tactic
macro_rules | `(tactic| sk_auto) => `(tactic| repeat (first
  | sk_prim
  | refine sk_bind (by sk_prim) (fun _ _ _ _ => ?_)
  | refine sk_bind (Q := T) (by split <;> sk_auto) (fun _ _ _ _ => ?_)
  | split
  | dsimp only))

theorem tier_pos (t : Tier) : 1 ≤ t.cost := by cases t <;> decide

section helpers
variable {fl : Bool} {s0 s : IState}

theorem sk_pop1 (h : KeptB fl s0 s) : SKeep fl s0 T (pop1 s) := by unfold pop1; sk_auto
theorem sk_pop2 (h : KeptB fl s0 s) : SKeep fl s0 T (pop2 s) := by unfold pop2; sk_auto
theorem sk_pop3 (h : KeptB fl s0 s) : SKeep fl s0 T (pop3 s) := by unfold pop3; sk_auto
theorem sk_pop4 (h : KeptB fl s0 s) : SKeep fl s0 T (pop4 s) := by unfold pop4; sk_auto
macro_rules | `(tactic| sk_prim) => `(tactic| first
  | exact sk_pop1 ‹_› | exact sk_pop2 ‹_› | exact sk_pop3 ‹_› | exact sk_pop4 ‹_›)
attribute [local irreducible] pop1 pop2 pop3 pop4

theorem sk_popAddress (h : KeptB fl s0 s) : SKeep fl s0 T (popAddress s) := by unfold popAddress; sk_auto
theorem sk_popTop1 (h : KeptB fl s0 s) : SKeep fl s0 T (popTop1 s) := by unfold popTop1; sk_auto
theorem sk_popTop2 (h : KeptB fl s0 s) : SKeep fl s0 T (popTop2 s) := by unfold popTop2; sk_auto
theorem sk_popTop3 (h : KeptB fl s0 s) : SKeep fl s0 T (popTop3 s) := by unfold popTop3; sk_auto
theorem sk_readU16 (h : KeptB fl s0 s) (o : Nat) : SKeep fl s0 T (readU16 o s) := by unfold readU16; sk_auto
macro_rules | `(tactic| sk_prim) => `(tactic| first
  | exact sk_popAddress ‹_› | exact sk_popTop1 ‹_› | exact sk_popTop2 ‹_› | exact sk_popTop3 ‹_›
  | exact sk_readU16 ‹_› _)
theorem sk_readI16 (h : KeptB fl s0 s) (o : Nat) : SKeep fl s0 T (readI16 o s) := by unfold readI16; sk_auto
macro_rules | `(tactic| sk_prim) => `(tactic| exact sk_readI16 ‹_› _)
attribute [local irreducible] popAddress popTop1 popTop2 popTop3 readU16 readI16

theorem sk_unopI (h : KeptB fl s0 s) (g : Nat) (hg : 1 ≤ g) (f) : SKeep true s0 T (unopI g f s) := by unfold unopI; sk_auto
theorem sk_binopI (h : KeptB fl s0 s) (g : Nat) (hg : 1 ≤ g) (k : Nat) (f) : SKeep true s0 T (binopI g k f s) := by unfold binopI; sk_auto
theorem sk_teropI (h : KeptB fl s0 s) (g : Nat) (hg : 1 ≤ g) (f) : SKeep true s0 T (teropI g f s) := by unfold teropI; sk_auto
theorem sk_expI (h : KeptB fl s0 s) : SKeep true s0 T (expI s) := by unfold expI; sk_auto

theorem sk_jumpInner (h : KeptB fl s0 s) (t : Nat) : SKeep fl s0 T (jumpInner t s) := by unfold jumpInner; sk_auto
theorem sk_returnInner {fl' : Bool} (h : KeptB fl s0 s) (r : IResult) (hr : RGood r) : SKeep fl' s0 T (returnInner r s) := by unfold returnInner; sk_auto
macro_rules | `(tactic| sk_prim) => `(tactic| first | exact sk_jumpInner ‹_› _ | exact sk_returnInner ‹_› _ (by first | decide | assumption))
attribute [local irreducible] jumpInner returnInner

theorem sk_copyToMem (h : KeptB fl s0 s) (data : IState → List Nat) (guard : M Unit)
    (hg : ∀ (fl' : Bool) s', KeptB fl' s0 s' → SKeep fl' s0 T (guard s')) : SKeep true s0 T (copyToMem data guard s) := by
  unfold copyToMem
  repeat (first
    | exact hg _ _ ‹_›
    | refine sk_bind (hg _ _ ‹_›) (fun _ _ _ _ => ?_)
    | sk_prim
    | refine sk_bind (by sk_prim) (fun _ _ _ _ => ?_)
    | split
    | dsimp only)

theorem sk_pushValI (h : KeptB fl s0 s) (g : Nat) (hg : 1 ≤ g) (k) (v) : SKeep true s0 T (pushValI g k v s) := by unfold pushValI; sk_auto
theorem sk_difficultyI (h : KeptB fl s0 s) : SKeep true s0 T (difficultyI s) := by
  unfold difficultyI
  refine sk_bind (by sk_prim) (fun _ _ _ _ => ?_)
  refine sk_bind (sk_getS ‹_›) (fun x s' hk hq => ?_)
  split
  · cases x.env.prevrandao with
    | some w => (try dsimp only); sk_auto
    | none => (try dsimp only); sk_auto
  · (try dsimp only); sk_auto
theorem sk_calldataloadI (h : KeptB fl s0 s) : SKeep true s0 T (calldataloadI s) := by unfold calldataloadI; sk_auto
theorem sk_codesizeI (h : KeptB fl s0 s) : SKeep true s0 T (codesizeI s) := by unfold codesizeI; sk_auto
theorem sk_returndatacopyI (h : KeptB fl s0 s) : SKeep true s0 T (returndatacopyI s) := by unfold returndatacopyI; sk_auto
theorem sk_blobhashI (h : KeptB fl s0 s) : SKeep true s0 T (blobhashI s) := by unfold blobhashI; sk_auto
theorem sk_popI (h : KeptB fl s0 s) : SKeep true s0 T (popI s) := by unfold popI; sk_auto
theorem sk_push0I (h : KeptB fl s0 s) : SKeep true s0 T (push0I s) := by unfold push0I; sk_auto
theorem sk_pushI (h : KeptB fl s0 s) (n) : SKeep true s0 T (pushI n s) := by unfold pushI; sk_auto
theorem sk_dupI (h : KeptB fl s0 s) (n) : SKeep true s0 T (dupI n s) := by unfold dupI; sk_auto
theorem sk_swapI (h : KeptB fl s0 s) (n) : SKeep true s0 T (swapI n s) := by unfold swapI; sk_auto
theorem sk_mloadI (h : KeptB fl s0 s) : SKeep true s0 T (mloadI s) := by unfold mloadI; sk_auto
theorem sk_mstoreI (h : KeptB fl s0 s) : SKeep true s0 T (mstoreI s) := by unfold mstoreI; sk_auto
theorem sk_mstore8I (h : KeptB fl s0 s) : SKeep true s0 T (mstore8I s) := by unfold mstore8I; sk_auto
theorem sk_mcopyI (h : KeptB fl s0 s) : SKeep true s0 T (mcopyI s) := by unfold mcopyI; sk_auto
theorem sk_jumpI (h : KeptB fl s0 s) : SKeep true s0 T (jumpI s) := by unfold jumpI; sk_auto
theorem sk_jumpiI (h : KeptB fl s0 s) : SKeep true s0 T (jumpiI s) := by unfold jumpiI; sk_auto
theorem sk_revertI (h : KeptB fl s0 s) : SKeep true s0 T (revertI s) := by unfold revertI; sk_auto
theorem sk_rjumpI (h : KeptB fl s0 s) : SKeep true s0 T (rjumpI s) := by unfold rjumpI; sk_auto
theorem sk_rjumpiI (h : KeptB fl s0 s) : SKeep true s0 T (rjumpiI s) := by unfold rjumpiI; sk_auto
theorem sk_rjumpvI (h : KeptB fl s0 s) : SKeep true s0 T (rjumpvI s) := by unfold rjumpvI; sk_auto
theorem sk_callfI (h : KeptB fl s0 s) : SKeep true s0 T (callfI s) := by
  unfold callfI
  refine sk_bind (by sk_prim) (fun _ _ _ _ => ?_)
  refine sk_bind (by sk_prim) (fun _ _ _ _ => ?_)
  refine sk_bind (by sk_prim) (fun idx _ _ _ => ?_)
  refine sk_bind (by sk_prim) (fun c s' hk _ => ?_)
  split
  · (try dsimp only); sk_auto
  · cases c.types[idx]? with
    | none => (try dsimp only); sk_auto
    | some t => (try dsimp only); sk_auto
theorem sk_retfI (h : KeptB fl s0 s) : SKeep true s0 T (retfI s) := by
  unfold retfI
  refine sk_bind (by sk_prim) (fun _ _ _ _ => ?_)
  refine sk_bind (by sk_prim) (fun _ _ _ _ => ?_)
  refine sk_bind (by sk_prim) (fun c s' hk _ => ?_)
  cases c.retStack with
  | nil => (try dsimp only); sk_auto
  | cons p rest => obtain ⟨idx, pc⟩ := p; (try dsimp only); sk_auto
theorem sk_jumpfI (h : KeptB fl s0 s) : SKeep true s0 T (jumpfI s) := by
  unfold jumpfI
  refine sk_bind (by sk_prim) (fun _ _ _ _ => ?_)
  refine sk_bind (by sk_prim) (fun _ _ _ _ => ?_)
  refine sk_bind (by sk_prim) (fun idx _ _ _ => ?_)
  refine sk_bind (by sk_prim) (fun c s' hk _ => ?_)
  cases c.types[idx]? with
  | none => (try dsimp only); sk_auto
  | some t => (try dsimp only); sk_auto
theorem sk_dupnI (h : KeptB fl s0 s) : SKeep true s0 T (dupnI s) := by unfold dupnI; sk_auto
theorem sk_swapnI (h : KeptB fl s0 s) : SKeep true s0 T (swapnI s) := by unfold swapnI; sk_auto
theorem sk_exchangeI (h : KeptB fl s0 s) : SKeep true s0 T (exchangeI s) := by unfold exchangeI; sk_auto
theorem sk_dataloadI (h : KeptB fl s0 s) : SKeep true s0 T (dataloadI s) := by unfold dataloadI; sk_auto
theorem sk_dataloadnI (h : KeptB fl s0 s) : SKeep true s0 T (dataloadnI s) := by unfold dataloadnI; sk_auto
theorem sk_datasizeI (h : KeptB fl s0 s) : SKeep true s0 T (datasizeI s) := by unfold datasizeI; sk_auto
theorem sk_datacopyI (h : KeptB fl s0 s) : SKeep true s0 T (datacopyI s) := by unfold datacopyI; sk_auto
theorem sk_returndataloadI (h : KeptB fl s0 s) : SKeep true s0 T (returndataloadI s) := by unfold returndataloadI; sk_auto
theorem sk_returnContractI (h : KeptB fl s0 s) : SKeep true s0 T (returnContractI s) := by
  unfold returnContractI
  refine sk_bind (by sk_prim) (fun _ _ _ _ => ?_)
  refine sk_bind (by sk_prim) (fun idx _ _ _ => ?_)
  refine sk_bind (by sk_prim) (fun p _ _ _ => ?_)
  obtain ⟨auxOff, auxSize⟩ := p
  dsimp only
  refine sk_bind (by sk_prim) (fun auxSize' _ _ _ => ?_)
  refine sk_bind (by sk_prim) (fun c s' hk _ => ?_)
  cases c.containers[idx]? with
  | none => (try dsimp only); sk_auto
  | some container =>
    (try dsimp only)
    cases headerOf container with
    | none => (try dsimp only); sk_auto
    | some hd =>
      (try dsimp only)
      have haux : SKeep fl s0 T ((if auxSize' ≠ 0 then do
          let auxOff ← asUsizeOrFail auxOff
          resizeMem auxOff auxSize'
          memSlice auxOff auxSize'
        else pure []) s') := by
        split
        · sk_auto
        · sk_auto
      refine sk_bind haux (fun aux s2 hk2 _ => ?_)
      (try dsimp only)
      split
      · (try dsimp only); sk_auto
      · split
        · (try dsimp only); sk_auto
        · cases patchU16 (container ++ aux) hd.dataSizeRawI _ with
          | none => (try dsimp only); sk_auto
          | some out => (try dsimp only); sk_auto

/-- **every pure handler** keeps `is_static` and the gas limit and never gives gas back -/
theorem sk_execPure (i : Instr) (m : M Unit) (hm : execPure i = some m) (h : KeptB fl s0 s) : SKeep true s0 T (m s) := by
  cases i <;> simp only [execPure, Option.some.injEq, reduceCtorEq] at hm <;> subst hm
  all_goals first
    | exact sk_haltWith h _ (by decide)
    | exact sk_returnContractI h
    | exact sk_rjumpI h | exact sk_rjumpiI h | exact sk_rjumpvI h | exact sk_callfI h | exact sk_retfI h
    | exact sk_jumpfI h | exact sk_dupnI h | exact sk_swapnI h | exact sk_exchangeI h
    | exact sk_dataloadI h | exact sk_dataloadnI h | exact sk_datasizeI h | exact sk_datacopyI h
    | exact sk_returndataloadI h
    | exact sk_unopI h _ (tier_pos _) _ | exact sk_binopI h _ (tier_pos _) _ _ | exact sk_teropI h _ (tier_pos _) _ | exact sk_expI h
    | exact sk_pushValI h _ (tier_pos _) _ _ | exact sk_difficultyI h | exact sk_calldataloadI h
    | exact sk_copyToMem h _ _ (fun _ s' h' => sk_pure h' trivial)
    | exact sk_copyToMem h _ _ (fun _ s' h' => sk_assumeNotEof h')
    | exact sk_codesizeI h | exact sk_returndatacopyI h | exact sk_blobhashI h
    | exact sk_popI h | exact sk_push0I h | exact sk_pushI h _ | exact sk_dupI h _ | exact sk_swapI h _
    | exact sk_mloadI h | exact sk_mstoreI h | exact sk_mstore8I h | exact sk_mcopyI h
    | exact sk_jumpI h | exact sk_jumpiI h
    | exact sk_mono (sk_gasCharge1 h _ (by decide)) (fun _ _ _ _ => trivial)
    | exact sk_returnInner h _ (by decide) | exact sk_revertI h

end helpers
end Revm.Proofs.EvmLink
