import Revm.Model.Jump
import Revm.Spec.Jump
/-! Proofs for C04: the pointer-skipping scan of `analyze` computes exactly the JUMPDESTs at instruction
boundaries, padding is harmless, and JUMP / JUMPI accept exactly those targets. Core Lean only. -/
set_option linter.unusedSimpArgs false
namespace Revm.Proofs.Jump
open Revm Revm.Model.Jump Revm.Spec.Jump

/-! ### instruction boundaries -/

theorem start_append {code : List Nat} (ext : List Nat) {t : Nat} (h : InstrStart code t) :
    InstrStart (code ++ ext) t := by
  induction h with
  | zero => exact .zero
  | step _ hop ih =>
    refine .step ih ?_
    have hlt := (List.getElem?_eq_some_iff.mp hop).1
    rw [List.getElem?_append_left hlt]; exact hop

theorem start_of_append {code ext : List Nat} {t : Nat} (h : InstrStart (code ++ ext) t)
    (ht : t ≤ code.length) : InstrStart code t := by
  induction h with
  | zero => exact .zero
  | @step i op _ hop ih =>
    have hi : i < code.length := by omega
    refine .step (ih (by omega)) ?_
    rw [List.getElem?_append_left hi] at hop; exact hop

/-- two boundaries never interleave: the next boundary after `a` is at least `a + 1 + pushLen` -/
theorem start_gap {code : List Nat} : ∀ (b a op : Nat), InstrStart code a → InstrStart code b → a < b →
    code[a]? = some op → a + 1 + pushLen op ≤ b := by
  intro b
  induction b using Nat.strongRecOn with
  | _ b ih =>
    intro a op ha hb hab hop
    cases hb with
    | zero => omega
    | @step j opj hj hopj =>
      rcases Nat.lt_trichotomy a j with h | h | h
      · have := ih j (by omega) a op ha hj h hop; omega
      · subst h; rw [hop] at hopj; cases hopj; omega
      · have := ih a hab j opj hj ha h hopj; omega

/-- inside the code every position is a boundary or push data -/
theorem start_or_pushData {code : List Nat} : ∀ t, t ≤ code.length →
    InstrStart code t ∨ InPushData code t := by
  intro t
  induction t with
  | zero => intro _; exact .inl .zero
  | succ t ih =>
    intro ht
    have htl : t < code.length := by omega
    rcases ih (by omega) with h | ⟨i, op, hi, hop, hlt, hle⟩
    · have hop : code[t]? = some code[t] := List.getElem?_eq_getElem htl
      by_cases hp : pushLen code[t] = 0
      · left; have := InstrStart.step h hop; rw [hp] at this; exact this
      · right; exact ⟨t, code[t], h, hop, by omega, by omega⟩
    · by_cases he : t + 1 ≤ i + pushLen op
      · right; exact ⟨i, op, hi, hop, by omega, he⟩
      · left
        have : t + 1 = i + 1 + pushLen op := by omega
        rw [this]; exact .step hi hop

/-- and never both -/
theorem not_start_and_pushData {code : List Nat} {t : Nat} (hs : InstrStart code t)
    (hp : InPushData code t) : False := by
  obtain ⟨i, op, hi, hop, hlt, hle⟩ := hp
  have := start_gap t i op hi hs hlt hop
  omega

/-- "instruction boundary" = "not inside the immediate data of a PUSH" (inside the code) -/
theorem instrStart_iff_not_inPushData {code : List Nat} {t : Nat} (ht : t ≤ code.length) :
    InstrStart code t ↔ ¬ InPushData code t := by
  constructor
  · exact fun hs hp => not_start_and_pushData hs hp
  · intro hn; rcases start_or_pushData t ht with h | h
    · exact h
    · exact absurd h hn

theorem validDest_iff_text (code : List Nat) (t : Nat) : ValidDest code t ↔ ValidDestText code t := by
  unfold ValidDest ValidDestText
  constructor
  · rintro ⟨h1, h2, h3⟩; exact ⟨h1, h2, (instrStart_iff_not_inPushData (by omega)).mp h3⟩
  · rintro ⟨h1, h2, h3⟩; exact ⟨h1, h2, (instrStart_iff_not_inPushData (by omega)).mpr h3⟩

/-! ### the opcode test of the scan -/

theorem pushOffset_lt_iff {op : Nat} (h : op < 256) :
    u8WrappingSub op PUSH1 < 32 ↔ (0x60 ≤ op ∧ op ≤ 0x7f) := by
  unfold u8WrappingSub PUSH1; omega

theorem pushOffset_step {op : Nat} (h : op < 256) (hp : u8WrappingSub op PUSH1 < 32) :
    u8WrappingSub op PUSH1 + 2 = 1 + pushLen op := by
  have := (pushOffset_lt_iff h).mp hp
  unfold pushLen; rw [if_pos this]
  unfold u8WrappingSub PUSH1; omega

theorem pushLen_zero_of_not {op : Nat} (h : op < 256) (hp : ¬ u8WrappingSub op PUSH1 < 32) :
    pushLen op = 0 := by
  have : ¬ (0x60 ≤ op ∧ op ≤ 0x7f) := fun hc => hp ((pushOffset_lt_iff h).mpr hc)
  unfold pushLen; rw [if_neg this]

/-! ### the scan loop -/

theorem analyzeLoop_spec {code : List Nat} (hb : Bytes code) : ∀ (n i : Nat) (jumps : List Bool),
    code.length - i = n → InstrStart code i → jumps.length = code.length →
    (∀ t, jumps[t]? = some true ↔ (t < i ∧ ValidDest code t)) →
    (∀ t, (analyzeLoop code i jumps)[t]? = some true ↔ ValidDest code t)
      ∧ (analyzeLoop code i jumps).length = code.length := by
  intro n
  induction n using Nat.strongRecOn with
  | _ n ih =>
    intro i jumps hn hs hl hinv
    unfold analyzeLoop
    by_cases hi : i < code.length
    · rw [dif_pos hi]
      have hop : code[i]? = some code[i] := List.getElem?_eq_getElem hi
      have hlt256 : code[i] < 256 := hb _ (List.getElem_mem hi)
      simp only []
      by_cases hj : code[i] = JUMPDEST
      · rw [if_pos hj]
        have hpl : pushLen code[i] = 0 := by rw [hj]; decide
        have hs' : InstrStart code (i + 1) := by
          have := InstrStart.step hs hop; rw [hpl] at this; exact this
        refine ih (code.length - (i + 1)) (by omega) (i + 1) _ rfl hs' (by rw [List.length_set]; exact hl) ?_
        intro t
        rw [List.getElem?_set]
        by_cases hti : i = t
        · subst hti
          rw [if_pos rfl, if_pos (by omega)]
          constructor
          · intro _; exact ⟨by omega, hi, by rw [hop, hj]; rfl, hs⟩
          · intro _; rfl
        · rw [if_neg hti, hinv t]
          constructor
          · rintro ⟨h1, h2⟩; exact ⟨by omega, h2⟩
          · rintro ⟨h1, h2⟩; exact ⟨by omega, h2⟩
      · rw [if_neg hj]
        have hnot_i : ¬ ValidDest code i := by
          rintro ⟨_, h2, _⟩; rw [hop] at h2; exact hj (Option.some.inj h2)
        by_cases hp : u8WrappingSub code[i] PUSH1 < 32
        · rw [if_pos hp]
          have hstep := pushOffset_step hlt256 hp
          have hs' : InstrStart code (i + (u8WrappingSub code[i] PUSH1 + 2)) := by
            have := InstrStart.step hs hop
            rw [hstep, ← Nat.add_assoc]; exact this
          refine ih (code.length - (i + (u8WrappingSub code[i] PUSH1 + 2))) (by omega) _ _ rfl hs' hl ?_
          intro t
          rw [hinv t]
          constructor
          · rintro ⟨h1, h2⟩; exact ⟨by omega, h2⟩
          · rintro ⟨h1, h2⟩
            refine ⟨?_, h2⟩
            by_cases hti : t < i
            · exact hti
            · exfalso
              by_cases hte : t = i
              · subst hte; exact hnot_i h2
              · have := start_gap t i _ hs h2.2.2 (by omega) hop
                omega
        · rw [if_neg hp]
          have hpl := pushLen_zero_of_not hlt256 hp
          have hs' : InstrStart code (i + 1) := by
            have := InstrStart.step hs hop; rw [hpl] at this; exact this
          refine ih (code.length - (i + 1)) (by omega) (i + 1) _ rfl hs' hl ?_
          intro t
          rw [hinv t]
          constructor
          · rintro ⟨h1, h2⟩; exact ⟨by omega, h2⟩
          · rintro ⟨h1, h2⟩
            refine ⟨?_, h2⟩
            by_cases hte : t = i
            · subst hte; exact absurd h2 hnot_i
            · omega
    · rw [dif_neg hi]
      refine ⟨fun t => ?_, hl⟩
      rw [hinv t]
      constructor
      · exact fun h => h.2
      · intro h; exact ⟨by have := h.1; omega, h⟩

theorem analyze_spec {code : List Nat} (hb : Bytes code) :
    (∀ t, (analyze code)[t]? = some true ↔ ValidDest code t) ∧ (analyze code).length = code.length := by
  unfold analyze
  refine analyzeLoop_spec hb _ 0 _ rfl .zero List.length_replicate ?_
  intro t
  constructor
  · intro h
    rw [List.getElem?_replicate] at h
    by_cases hc : t < code.length
    · rw [if_pos hc] at h; cases h
    · rw [if_neg hc] at h; cases h
  · rintro ⟨h, _⟩; omega

theorem isValid_iff (jt : List Bool) (t : Nat) : isValid jt t = true ↔ jt[t]? = some true := by
  unfold isValid
  by_cases h : t < jt.length
  · rw [dif_pos h, List.getElem?_eq_getElem h]
    constructor
    · intro e; rw [e]
    · intro e; exact Option.some.inj e
  · rw [dif_neg h, List.getElem?_eq_none (by omega)]
    constructor <;> intro e <;> cases e

/-! ### padding -/

theorem pad_length (code : List Nat) : (pad code).length = code.length + 33 := by
  unfold pad; rw [List.length_append, List.length_replicate]

theorem pad_take (code : List Nat) : (pad code).take code.length = code := by
  unfold pad; rw [List.take_left']; rfl

theorem pad_drop (code : List Nat) : (pad code).drop code.length = List.replicate 33 0 := by
  unfold pad; rw [List.drop_left']; rfl

theorem bytes_pad {code : List Nat} (hb : Bytes code) : Bytes (pad code) := by
  intro x hx
  unfold pad at hx
  rcases List.mem_append.mp hx with h | h
  · exact hb x h
  · have := (List.mem_replicate.mp h).2; omega

/-- the 33 padding zeros add no destination and move no boundary inside the code -/
theorem validDest_pad (code : List Nat) (t : Nat) : ValidDest (pad code) t ↔ ValidDest code t := by
  constructor
  · rintro ⟨_, h2, h3⟩
    by_cases ht : t < code.length
    · refine ⟨ht, ?_, start_of_append h3 (by omega)⟩
      unfold pad at h2; rw [List.getElem?_append_left ht] at h2; exact h2
    · exfalso
      unfold pad at h2
      rw [List.getElem?_append_right (by omega), List.getElem?_replicate] at h2
      by_cases hc : t - code.length < 33
      · rw [if_pos hc] at h2; cases h2
      · rw [if_neg hc] at h2; cases h2
  · rintro ⟨h1, h2, h3⟩
    refine ⟨by rw [pad_length]; omega, ?_, start_append _ h3⟩
    unfold pad; rw [List.getElem?_append_left h1]; exact h2

/-- headline: the table built by `analyze` on the padded code answers `is_valid` exactly by `ValidDest`
of the original code, for every byte string and every position -/
theorem analyze_correct {code : List Nat} (hb : Bytes code) (t : Nat) :
    isValid (analyze (pad code)) t = true ↔ ValidDest code t := by
  rw [isValid_iff, (analyze_spec (bytes_pad hb)).1 t, validDest_pad]

theorem analyze_pad_length {code : List Nat} (hb : Bytes code) :
    (analyze (pad code)).length = code.length + 33 := by
  rw [(analyze_spec (bytes_pad hb)).2, pad_length]

theorem isValid_beyond {code : List Nat} (hb : Bytes code) (t : Nat) (ht : code.length ≤ t) :
    isValid (analyze (pad code)) t = false := by
  cases h : isValid (analyze (pad code)) t with
  | false => rfl
  | true => have := ((analyze_correct hb t).mp h).1; omega

/-! ### Bytecode / Contract -/

theorem toAnalysed_idem (b : Bytecode) : toAnalysed (toAnalysed b) = toAnalysed b := by
  cases b <;> rfl

theorem isValidJump_contract {code : List Nat} (hb : Bytes code) (t : Nat) :
    isValidJump (contractNew (.legacyRaw code)) t = true ↔ ValidDest code t :=
  analyze_correct hb t

/-! ### `as_usize_or_fail!` -/

theorem asUsizeOrFail_eq {v : Nat} (hv : v < W) :
    asUsizeOrFail v = if v < U64 then some v else none := by
  have hW := W_val
  unfold asUsizeOrFail
  simp only [U64_val, U128_val, U192_val]
  by_cases h : v < 18446744073709551616
  · rw [if_pos h, if_neg (by omega)]; congr 1; omega
  · rw [if_neg h, if_pos (by omega)]

/-! ### JUMP / JUMPI -/

theorem jumpInner_eq {code : List Nat} (hb : Bytes code) (s : Interp)
    (hs : s.bytecode = contractNew (.legacyRaw code)) {target : Nat} (ht : target < W) :
    (target < U64 ∧ ValidDest code target → jumpInner s target = { s with pc := target }) ∧
    (¬ (target < U64 ∧ ValidDest code target) → jumpInner s target = { s with result := .InvalidJump }) := by
  unfold jumpInner
  rw [asUsizeOrFail_eq ht]
  by_cases h64 : target < U64
  · rw [if_pos h64]
    simp only []
    rw [hs]
    by_cases hv : isValidJump (contractNew (.legacyRaw code)) target = true
    · have hvd := (isValidJump_contract hb target).mp hv
      rw [hv]
      refine ⟨fun _ => ?_, fun hn => absurd ⟨h64, hvd⟩ hn⟩
      simp only [Bool.not_true, Bool.false_eq_true, if_false]
    · have hvd : ¬ ValidDest code target := fun h => hv ((isValidJump_contract hb target).mpr h)
      have hv' : isValidJump (contractNew (.legacyRaw code)) target = false := by
        cases hx : isValidJump (contractNew (.legacyRaw code)) target with
        | false => rfl
        | true => exact absurd hx hv
      rw [hv']
      refine ⟨fun hy => absurd hy.2 hvd, fun _ => ?_⟩
      simp only [Bool.not_false, if_true]
  · rw [if_neg h64]
    exact ⟨fun hy => absurd hy.1 h64, fun _ => rfl⟩

/-- accepted targets: representable as `usize` and a valid destination of the contract's code -/
def Accepts (code : List Nat) (target : Nat) : Prop := target < U64 ∧ ValidDest code target

theorem accepts_iff_validDest {code : List Nat} (hlen : code.length ≤ U64) (target : Nat) :
    Accepts code target ↔ ValidDest code target := by
  constructor
  · exact fun h => h.2
  · intro h; exact ⟨by have := h.1; omega, h⟩

theorem jump_eq {code : List Nat} (hb : Bytes code) (s : Interp)
    (hs : s.bytecode = contractNew (.legacyRaw code)) (hgas : MID ≤ s.gas)
    {target : Nat} {rest : List Nat} (hst : s.stack = target :: rest) (ht : target < W) :
    (Accepts code target →
      jump s = { s with gas := s.gas - MID, stack := rest, pc := target }) ∧
    (¬ Accepts code target →
      jump s = { s with gas := s.gas - MID, stack := rest, result := .InvalidJump }) := by
  unfold jump recordCost
  rw [if_pos hgas]
  simp only [hst]
  exact jumpInner_eq hb { s with gas := s.gas - MID, stack := rest } hs ht

theorem jumpi_eq {code : List Nat} (hb : Bytes code) (s : Interp)
    (hs : s.bytecode = contractNew (.legacyRaw code)) (hgas : HIGH ≤ s.gas)
    {target cond : Nat} {rest : List Nat} (hst : s.stack = target :: cond :: rest) (ht : target < W) :
    (cond ≠ 0 → Accepts code target →
      jumpi s = { s with gas := s.gas - HIGH, stack := rest, pc := target }) ∧
    (cond ≠ 0 → ¬ Accepts code target →
      jumpi s = { s with gas := s.gas - HIGH, stack := rest, result := .InvalidJump }) ∧
    (cond = 0 → jumpi s = { s with gas := s.gas - HIGH, stack := rest }) := by
  unfold jumpi recordCost
  rw [if_pos hgas]
  simp only [hst]
  have key := jumpInner_eq hb { s with gas := s.gas - HIGH, stack := rest } hs ht
  refine ⟨fun hc ha => ?_, fun hc ha => ?_, fun hc => ?_⟩
  · rw [if_pos hc]; exact key.1 ha
  · rw [if_pos hc]; exact key.2 ha
  · rw [if_neg (by omega)]

theorem jump_ok_iff {code : List Nat} (hb : Bytes code) (hlen : code.length ≤ U64) (s : Interp)
    (hs : s.bytecode = contractNew (.legacyRaw code)) (hres : s.result = .Continue) (hgas : MID ≤ s.gas)
    {target : Nat} {rest : List Nat} (hst : s.stack = target :: rest) (ht : target < W) :
    ((jump s).result = .Continue ∧ (jump s).pc = target) ↔ ValidDest code target := by
  have key := jump_eq hb s hs hgas hst ht
  rw [← accepts_iff_validDest hlen]
  constructor
  · intro h
    by_cases ha : Accepts code target
    · exact ha
    · rw [key.2 ha] at h; exact absurd h.1 (by simp)
  · intro ha; rw [key.1 ha]; exact ⟨hres, rfl⟩

theorem jumpi_nonzero_ok_iff {code : List Nat} (hb : Bytes code) (hlen : code.length ≤ U64) (s : Interp)
    (hs : s.bytecode = contractNew (.legacyRaw code)) (hres : s.result = .Continue) (hgas : HIGH ≤ s.gas)
    {target cond : Nat} {rest : List Nat} (hst : s.stack = target :: cond :: rest) (ht : target < W)
    (hc : cond ≠ 0) :
    ((jumpi s).result = .Continue ∧ (jumpi s).pc = target) ↔ ValidDest code target := by
  have key := jumpi_eq hb s hs hgas hst ht
  rw [← accepts_iff_validDest hlen]
  constructor
  · intro h
    by_cases ha : Accepts code target
    · exact ha
    · rw [key.2.1 hc ha] at h; exact absurd h.1 (by simp)
  · intro ha; rw [key.1 hc ha]; exact ⟨hres, rfl⟩

theorem jump_oog (s : Interp) (h : s.gas < MID) : jump s = { s with result := .OutOfGas } := by
  unfold jump recordCost; rw [if_neg (by omega)]

theorem jumpi_oog (s : Interp) (h : s.gas < HIGH) : jumpi s = { s with result := .OutOfGas } := by
  unfold jumpi recordCost; rw [if_neg (by omega)]

theorem jump_underflow (s : Interp) (h : MID ≤ s.gas) (hst : s.stack = []) :
    jump s = { s with gas := s.gas - MID, result := .StackUnderflow } := by
  unfold jump recordCost; rw [if_pos h]; simp only [hst]

theorem jumpi_underflow (s : Interp) (h : HIGH ≤ s.gas) (hst : s.stack.length < 2) :
    jumpi s = { s with gas := s.gas - HIGH, result := .StackUnderflow } := by
  unfold jumpi recordCost; rw [if_pos h]
  match hs : s.stack with
  | [] => simp only [hs]
  | [_] => simp only [hs]
  | _ :: _ :: _ => rw [hs] at hst; simp at hst; omega

/-- safety form, no assumption on gas or stack: whenever `jump_inner` leaves the frame running, the new
pc is a valid destination -/
theorem jumpInner_safe {code : List Nat} (hb : Bytes code) (s : Interp)
    (hs : s.bytecode = contractNew (.legacyRaw code)) {target : Nat} (ht : target < W)
    (hres : (jumpInner s target).result = .Continue) :
    (jumpInner s target).pc = target ∧ Accepts code target := by
  have key := jumpInner_eq hb s hs ht
  by_cases ha : Accepts code target
  · rw [key.1 ha]; exact ⟨rfl, ha⟩
  · rw [key.2 ha] at hres; cases hres

theorem jump_safe {code : List Nat} (hb : Bytes code) (s : Interp)
    (hs : s.bytecode = contractNew (.legacyRaw code)) (hw : ∀ w ∈ s.stack, w < W)
    (hres : (jump s).result = .Continue) : Accepts code (jump s).pc := by
  unfold jump recordCost at hres ⊢
  by_cases hg : MID ≤ s.gas
  · rw [if_pos hg] at hres ⊢
    cases hst : s.stack with
    | nil => simp only [hst] at hres; cases hres
    | cons target rest =>
      simp only [hst] at hres ⊢
      have ht : target < W := hw target (by rw [hst]; exact List.mem_cons_self)
      have := jumpInner_safe hb { s with gas := s.gas - MID, stack := rest } hs ht hres
      rw [this.1]; exact this.2
  · rw [if_neg hg] at hres; cases hres

theorem jumpi_safe {code : List Nat} (hb : Bytes code) (s : Interp)
    (hs : s.bytecode = contractNew (.legacyRaw code)) (hw : ∀ w ∈ s.stack, w < W)
    (hres : (jumpi s).result = .Continue) :
    (jumpi s).pc = s.pc ∨ Accepts code (jumpi s).pc := by
  unfold jumpi recordCost at hres ⊢
  by_cases hg : HIGH ≤ s.gas
  · rw [if_pos hg] at hres ⊢
    match hst : s.stack with
    | [] => simp only [hst] at hres; cases hres
    | [_] => simp only [hst] at hres; cases hres
    | target :: cond :: rest =>
      simp only [hst] at hres ⊢
      by_cases hc : cond ≠ 0
      · rw [if_pos hc] at hres ⊢
        have ht : target < W := hw target (by rw [hst]; exact List.mem_cons_self)
        have := jumpInner_safe hb { s with gas := s.gas - HIGH, stack := rest } hs ht hres
        right; rw [this.1]; exact this.2
      · rw [if_neg hc]; left; rfl
  · rw [if_neg hg] at hres; cases hres

/-! ### the executable Spec scan agrees with the declarative definition -/

theorem drop_cons_inv {code : List Nat} {i b : Nat} {rest : List Nat} (h : code.drop i = b :: rest) :
    i < code.length ∧ code[i]? = some b ∧ code.drop (i + 1) = rest := by
  have hi : i < code.length := by
    by_cases hc : i < code.length
    · exact hc
    · rw [List.drop_eq_nil_of_le (by omega)] at h; cases h
  rw [List.drop_eq_getElem_cons hi] at h
  injection h with h1 h2
  exact ⟨hi, by rw [List.getElem?_eq_getElem hi, h1], h2⟩

theorem classify_spec {code : List Nat} : ∀ (l : List Nat) (skip i : Nat), code.drop i = l →
    InstrStart code (i + skip) → (∀ t, i ≤ t → t < i + skip → ¬ ValidDest code t) →
    ∀ t, (classify l skip)[t]? = some true ↔ ValidDest code (i + t) := by
  intro l
  induction l with
  | nil =>
    intro skip i hd _ _ t
    have hi : code.length ≤ i := by
      by_cases hc : code.length ≤ i
      · exact hc
      · have := congrArg List.length hd; rw [List.length_drop] at this; simp at this; omega
    cases skip <;> simp only [classify] <;>
      exact ⟨fun h => (by cases h), fun h => (by have := h.1; omega)⟩
  | cons b rest ih =>
    intro skip i hd hs hno t
    obtain ⟨hi, hop, hd'⟩ := drop_cons_inv hd
    cases skip with
    | succ k =>
      simp only [classify]
      cases t with
      | zero =>
        constructor
        · intro h; cases h
        · intro h; exact absurd h (hno i (by omega) (by omega))
      | succ t' =>
        rw [List.getElem?_cons_succ]
        have := ih k (i + 1) hd' (by rw [show i + 1 + k = i + (k + 1) by omega]; exact hs)
          (fun t h1 h2 => hno t (by omega) (by omega)) t'
        rw [this, show i + 1 + t' = i + (t' + 1) by omega]
    | zero =>
      simp only [classify]
      have hs0 : InstrStart code i := hs
      cases t with
      | zero =>
        rw [List.getElem?_cons_zero, Nat.add_zero]
        constructor
        · intro h
          have hb : b = 0x5b := by
            have := Option.some.inj h; exact of_decide_eq_true (by simpa using this)
          exact ⟨hi, by rw [hop, hb], hs0⟩
        · rintro ⟨_, h2, _⟩
          rw [hop] at h2
          have hb : b = 0x5b := Option.some.inj h2
          rw [hb]; rfl
      | succ t' =>
        rw [List.getElem?_cons_succ]
        have := ih (pushLen b) (i + 1) hd' (.step hs0 hop)
          (fun t h1 h2 hv => by
            have := start_gap t i b hs0 hv.2.2 (by omega) hop
            omega) t'
        rw [this, show i + 1 + t' = i + (t' + 1) by omega]

theorem validDestB_iff (code : List Nat) (t : Nat) : validDestB code t = true ↔ ValidDest code t := by
  unfold validDestB
  have := classify_spec (code := code) code 0 0 rfl .zero (fun t h1 h2 => by omega) t
  rw [Nat.zero_add] at this
  rw [← this]
  constructor
  · intro h; exact eq_of_beq h
  · intro h; rw [h]; rfl

theorem mem_trueIdx : ∀ (l : List Bool) (i t : Nat),
    t ∈ trueIdx l i ↔ (i ≤ t ∧ l[t - i]? = some true) := by
  intro l
  induction l with
  | nil => intro i t; simp [trueIdx]
  | cons b r ih =>
    intro i t
    have key : (i ≤ t ∧ (b :: r)[t - i]? = some true) ↔
        ((t = i ∧ b = true) ∨ (i + 1 ≤ t ∧ r[t - (i + 1)]? = some true)) := by
      by_cases hti : t = i
      · subst hti; simp; intro h; omega
      · by_cases hlt : t < i
        · constructor
          · intro h; omega
          · rintro (h | h) <;> omega
        · have : t - i = (t - (i + 1)) + 1 := by omega
          rw [this, List.getElem?_cons_succ]
          constructor
          · intro h; exact .inr ⟨by omega, h.2⟩
          · rintro (h | h)
            · exact absurd h.1 hti
            · exact ⟨by omega, h.2⟩
    rw [key]
    unfold trueIdx
    cases b with
    | true =>
      rw [if_pos rfl, List.mem_cons, ih]
      constructor
      · rintro (h | h)
        · exact .inl ⟨h, rfl⟩
        · exact .inr h
      · rintro (h | h)
        · exact .inl h.1
        · exact .inr h
    | false =>
      rw [if_neg (by decide), ih]
      constructor
      · intro h; exact .inr h
      · rintro (h | h)
        · exact absurd h.2 (by decide)
        · exact h

theorem mem_validDests (code : List Nat) (t : Nat) : t ∈ validDests code ↔ ValidDest code t := by
  unfold validDests
  rw [mem_trueIdx, ← validDestB_iff]
  unfold validDestB
  constructor
  · rintro ⟨_, h⟩; rw [Nat.sub_zero] at h; rw [h]; rfl
  · intro h; exact ⟨by omega, by rw [Nat.sub_zero]; exact eq_of_beq h⟩

end Revm.Proofs.Jump
