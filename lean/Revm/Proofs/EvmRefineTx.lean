import Revm.Proofs.EvmRefineFrameSim
import Revm.Proofs.EvmSimTx
/-! The transaction-level obligations of the simulation (validation, pre-execution, post-execution): the same functions
run on both machines at the empty checkpoint stack. -/
set_option linter.unusedSimpArgs false
set_option linter.unusedVariables false
namespace Revm.Proofs.EvmRefine
open Revm Revm.Model Revm.Model.Journal Revm.Spec.JournalAbs Revm.Proofs.Journal Revm.Proofs.Frame
open Revm.Model.Evm
open Revm.Spec.Evm (Snap snapshotOps journalOpsStrict)

variable {w1 w2 : World}

theorem CfgRel.nil_intro (hw : WRel w1 w2) (g : Good w1.js) : CfgRel [] w1 [] w2 :=
  ⟨hw, rfl, ⟨[], .nil _ g⟩, trivial⟩

/-- an unjournaled rewrite of a present account at transaction level (storage kept, balance a word) -/
theorem CfgRel.nil_upd (h : CfgRel [] w1 [] w2) {a : Addr} {x y x' y' : Acct} (hx : w1.js.state a = some x)
    (hy : w2.js.state a = some y) (ar : ARel (dbPre w1.pre) a x' y') (hsx : x'.storage = x.storage)
    (hb : x'.info.balance < W) (hcx : ∀ c, x'.info.code = some c → c = x'.info.codeHash)
    (hcy : ∀ c, y'.info.code = some c → c = y'.info.codeHash) :
    CfgRel [] { w1 with js := Journal.setAcct w1.js a x' } [] { w2 with js := Journal.setAcct w2.js a y' } := by
  refine CfgRel.nil_intro ⟨h.w.rel.setAcct a x' y' ar hcx hcy, h.w.pre, h.w.codes, h.w.logs, h.w.pc, h.w.hs1, h.w.hs2,
    ?_, h.w.bal⟩ (h.good.upd hx hsx hb)
  intro b
  show w2.addrs.contains b = ((Journal.setAcct w2.js a y').state b).isSome
  rw [h.w.pres b]
  by_cases hb' : b = a
  · subst hb'; simp [Journal.setAcct, hy]
  · simp [Journal.setAcct, hb']

theorem satAdd_lt (a b : Nat) : U256.saturatingAdd a b < W := by
  unfold U256.saturatingAdd
  have := W_val
  split <;> omega

/-- `deduct_caller` -/
theorem deduct_rel (e : Evm.Env) (spec : Nat) (h : CfgRel [] w1 [] w2) {w1' : World}
    (hl : deductCaller e spec w1 = .ok w1') : ∃ w2', deductCaller e spec w2 = .ok w2' ∧ CfgRel [] w1' [] w2' := by
  unfold deductCaller at hl ⊢
  simp only [bind, Except.bind] at hl ⊢
  cases h1 : w1.loadAccount e.tx.caller with
  | error err => rw [h1] at hl; simp at hl
  | ok p =>
    obtain ⟨wa, c⟩ := p
    rw [h1] at hl
    obtain ⟨wb, h2, hr⟩ := wLoadAccount_rel h h1
    rw [h2]
    simp only at hl ⊢
    cases hx : wa.acct e.tx.caller with
    | error err => rw [hx] at hl; simp at hl
    | ok x =>
      rw [hx] at hl
      obtain ⟨y, hy, ar, hxs, hys⟩ := hr.acct hx
      rw [hy]
      simp only at hl ⊢
      obtain ⟨e1, e2, e3, e4, e5, e6, e7, e8, e9⟩ := ar
      have hbx : x.info.balance < W := hr.good.bal _ x hxs
      have key : ∀ gasCost : Nat, CfgRel []
          { wa with js := Journal.setAcct wa.js e.tx.caller { x with
              info := (if e.tx.to.isSome = true then
                  { x.info with balance := U256.saturatingSub x.info.balance gasCost, nonce := U64ops.saturatingAdd x.info.nonce 1 }
                else { x.info with balance := U256.saturatingSub x.info.balance gasCost }), touched := true } } []
          { wb with js := Journal.setAcct wb.js e.tx.caller { y with
              info := (if e.tx.to.isSome = true then
                  { y.info with balance := U256.saturatingSub y.info.balance gasCost, nonce := U64ops.saturatingAdd y.info.nonce 1 }
                else { y.info with balance := U256.saturatingSub y.info.balance gasCost }), touched := true } } := by
        intro gasCost
        by_cases hto : e.tx.to.isSome = true
        · simp only [hto, if_true]
          refine hr.nil_upd hxs hys ⟨by simp [e1], by simp [e2], e3, e4, e5, rfl, e7, e8, e9⟩ rfl ?_
            (hr.w.rel.cj _ x hxs) (hr.w.rel.cs _ y hys)
          show U256.saturatingSub x.info.balance gasCost < W
          unfold U256.saturatingSub; omega
        · simp only [hto, Bool.false_eq_true, if_false]
          refine hr.nil_upd hxs hys ⟨by simp [e1], e2, e3, e4, e5, rfl, e7, e8, e9⟩ rfl ?_
            (hr.w.rel.cj _ x hxs) (hr.w.rel.cs _ y hys)
          show U256.saturatingSub x.info.balance gasCost < W
          unfold U256.saturatingSub; omega
      by_cases hcan : GasCalc.enabled spec GasCalc.SpecId.CANCUN = true
      · simp only [hcan, if_true] at hl ⊢
        cases hfee : ofOpt "already checked" e.calcDataFee with
        | error err => rw [hfee] at hl; simp at hl
        | ok fee =>
          rw [hfee] at hl
          simp only [pure, Except.pure, Except.ok.injEq] at hl ⊢
          subst hl
          exact ⟨_, rfl, key _⟩
      · simp only [hcan, Bool.false_eq_true, if_false, pure, Except.pure, Except.ok.injEq] at hl ⊢
        subst hl
        exact ⟨_, rfl, key _⟩

/-- balance and touched mark rewritten -/
def updBT (x : Acct) (b : Nat) (g : Bool → Bool) : Acct := { x with touched := g x.touched, info := { x.info with balance := b } }

/-- load an account and rewrite its balance / touched mark without journaling (reimburse, reward) -/
theorem loadUpd_rel (h : CfgRel [] w1 [] w2) (a : Addr) (f : Nat → Nat) (g : Bool → Bool) (hf : ∀ b, f b < W)
    {wa : World} {c : Bool} {x : Acct} (h1 : w1.loadAccount a = .ok (wa, c)) (hx : wa.acct a = .ok x) :
    ∃ wb y, w2.loadAccount a = .ok (wb, c) ∧ wb.acct a = .ok y ∧
      CfgRel [] { wa with js := Journal.setAcct wa.js a (updBT x (f x.info.balance) g) } []
        { wb with js := Journal.setAcct wb.js a (updBT y (f y.info.balance) g) } := by
  obtain ⟨wb, h2, hr⟩ := wLoadAccount_rel h h1
  obtain ⟨y, hy, ar, hxs, hys⟩ := hr.acct hx
  obtain ⟨e1, e2, e3, e4, e5, e6, e7, e8, e9⟩ := ar
  refine ⟨wb, y, h2, hy, hr.nil_upd hxs hys ⟨by simp [updBT, e1], e2, e3, e4, e5, by simp [updBT, e6], e7, e8, e9⟩ rfl (hf _)
    (hr.w.rel.cj _ x hxs) (hr.w.rel.cs _ y hys)⟩

/-- `reimburse_caller`, `reward_beneficiary`, `output` -/
theorem fin_rel (e : Evm.Env) (spec fg rf : Nat) (ic : Bool) (res : Interp.ChildResult) (h : CfgRel [] w1 [] w2)
    {r : TxResult} {w1' : World} (hl : finish e spec fg rf ic res w1 = .ok (r, w1')) :
    ∃ w2', finish e spec fg rf ic res w2 = .ok (r, w2') ∧ CfgRel [] w1' [] w2' := by
  unfold finish at hl ⊢
  simp only [bind, Except.bind] at hl ⊢
  cases h1 : w1.loadAccount e.tx.caller with
  | error err => rw [h1] at hl; simp at hl
  | ok p =>
    obtain ⟨wa, c⟩ := p
    rw [h1] at hl
    simp only at hl
    cases hx : wa.acct e.tx.caller with
    | error err => rw [hx] at hl; simp at hl
    | ok x =>
      rw [hx] at hl
      simp only at hl
      obtain ⟨wb, y, h2, hy, hr⟩ := loadUpd_rel h e.tx.caller
        (fun b => U256.saturatingAdd b (U256.wmul e.effectiveGasPrice
          (U64ops.wadd (finalGas e spec fg rf res).remaining (Gas.i64AsU64 (finalGas e spec fg rf res).refunded))))
        id (fun b => satAdd_lt _ _) h1 hx
      rw [h2]
      simp only
      rw [hy]
      simp only [updBT, id] at hr ⊢
      generalize hwa : ({ wa with js := Journal.setAcct wa.js e.tx.caller { x with info := { x.info with
          balance := U256.saturatingAdd x.info.balance (U256.wmul e.effectiveGasPrice
            (U64ops.wadd (finalGas e spec fg rf res).remaining (Gas.i64AsU64 (finalGas e spec fg rf res).refunded))) } } } : World) = wa' at hl hr
      generalize hwb : ({ wb with js := Journal.setAcct wb.js e.tx.caller { y with info := { y.info with
          balance := U256.saturatingAdd y.info.balance (U256.wmul e.effectiveGasPrice
            (U64ops.wadd (finalGas e spec fg rf res).remaining (Gas.i64AsU64 (finalGas e spec fg rf res).refunded))) } } } : World) = wb' at hr ⊢
      cases h3 : wa'.loadAccount e.block.coinbase with
      | error err => rw [h3] at hl; simp at hl
      | ok p3 =>
        obtain ⟨wc, c3⟩ := p3
        rw [h3] at hl
        simp only at hl
        cases hx3 : wc.acct e.block.coinbase with
        | error err => rw [hx3] at hl; simp at hl
        | ok x3 =>
          rw [hx3] at hl
          simp only at hl
          obtain ⟨wd, y3, h4, hy3, hr3⟩ := loadUpd_rel hr e.block.coinbase
            (fun b => U256.saturatingAdd b (U256.wmul
              (if GasCalc.enabled spec GasCalc.SpecId.LONDON = true then U256.saturatingSub e.effectiveGasPrice e.block.basefee
                else e.effectiveGasPrice)
              (U64ops.wsub (Gas.spent (finalGas e spec fg rf res)) (Gas.i64AsU64 (finalGas e spec fg rf res).refunded))))
            (fun _ => true) (fun b => satAdd_lt _ _) h3 hx3
          rw [h4]
          simp only
          rw [hy3]
          simp only [updBT] at hr3 ⊢
          cases hc : ofOpt "unexpected internal return flag" (classOf res.result) with
          | error err => rw [hc] at hl; simp at hl
          | ok cls =>
            rw [hc] at hl
            simp only [pure, Except.pure, Except.ok.injEq, Prod.mk.injEq] at hl ⊢
            obtain ⟨hl1, hl2⟩ := hl
            subst hl1; subst hl2
            refine ⟨_, ⟨?_, rfl⟩, hr3⟩
            have hlogs : wd.logs = wc.logs := by
              have := hr3.w.logs; exact this
            have hjl : wd.js.logs = wc.js.logs := by
              have := hr3.w.rel.logs; exact this.symm
            show txResultOf cls res ic _ (List.filterMap (fun i => wd.logs[i]?) wd.js.logs) = _
            rw [hlogs, hjl]
            rfl

/-! ## before pre-execution: the storage maps are literally the same -/

/-- the storage maps of the two state maps are the same (true before anything was reverted; `initial_account_load` of
the access list is a function of the map, not of the observable slots) -/
def SameSt (j s : JState) : Prop := ∀ a x y, j.state a = some x → s.state a = some y → x.storage = y.storage

/-- the relation before pre-execution -/
def R0 (w1 w2 : World) : Prop := CfgRel [] w1 [] w2 ∧ SameSt w1.js w2.js

theorem loadAccount_storage {db : Db} {s s' : JState} {a : Addr} {c : Bool} (h : loadAccount db s a = some (s', c)) :
    ∀ b x', s'.state b = some x' →
      (∃ x, s.state b = some x ∧ x'.storage = x.storage) ∨ (s.state b = none ∧ x'.storage = fun _ => none) := by
  intro b x' hb
  unfold loadAccount at h
  cases hs : s.state a with
  | some x =>
    rw [hs] at h
    simp only at h
    have key : ∀ s1 : JState, s1.state = (setAcct s a { x with cold := false }).state → s1.state b = some x' →
        (∃ x, s.state b = some x ∧ x'.storage = x.storage) ∨ (s.state b = none ∧ x'.storage = fun _ => none) := by
      intro s1 h1 hb1
      rw [h1] at hb1
      by_cases hba : b = a
      · subst hba
        simp only [setAcct, if_true, Option.some.injEq] at hb1
        subst hb1
        exact .inl ⟨x, hs, rfl⟩
      · simp only [setAcct, hba, if_false] at hb1
        exact .inl ⟨x', hb1, rfl⟩
    by_cases hc : x.cold = true
    · rw [if_pos hc] at h
      cases hp : pushEntry (setAcct s a { x with cold := false }) (.accountWarmed a) with
      | none => rw [hp] at h; simp at h
      | some s1 =>
        rw [hp] at h
        simp only [Option.map_some, Option.some.injEq, Prod.mk.injEq] at h
        rw [← h.1] at hb
        exact key s1 (pushEntry_some hp).1 hb
    · rw [if_neg hc] at h
      simp only [Option.some.injEq, Prod.mk.injEq] at h
      rw [← h.1] at hb
      exact key _ rfl hb
  | none =>
    rw [hs] at h
    change (if (!s.preloaded a) = true then
        (pushEntry (setAcct s a (dbAcct db a)) (.accountWarmed a)).map (·, true)
      else some (setAcct s a (dbAcct db a), false)) = some (s', c) at h
    have hdbst : (dbAcct db a).storage = fun _ => none := by
      unfold dbAcct; cases db.basic a <;> rfl
    have key : ∀ s1 : JState, s1.state = (setAcct s a (dbAcct db a)).state → s1.state b = some x' →
        (∃ x, s.state b = some x ∧ x'.storage = x.storage) ∨ (s.state b = none ∧ x'.storage = fun _ => none) := by
      intro s1 h1 hb1
      rw [h1] at hb1
      by_cases hba : b = a
      · subst hba
        simp only [setAcct, if_true, Option.some.injEq] at hb1
        subst hb1
        exact .inr ⟨hs, hdbst⟩
      · simp only [setAcct, hba, if_false] at hb1
        exact .inl ⟨x', hb1, rfl⟩
    by_cases hc : (!s.preloaded a) = true
    · rw [if_pos hc] at h
      cases hp : pushEntry (setAcct s a (dbAcct db a)) (.accountWarmed a) with
      | none => rw [hp] at h; simp at h
      | some s1 =>
        rw [hp] at h
        simp only [Option.map_some, Option.some.injEq, Prod.mk.injEq] at h
        rw [← h.1] at hb
        exact key s1 (pushEntry_some hp).1 hb
    · rw [if_neg hc] at h
      simp only [Option.some.injEq, Prod.mk.injEq] at h
      rw [← h.1] at hb
      exact key _ rfl hb

theorem loadCode_storage {db : Db} {s s' : JState} {a : Addr} {c : Bool} (h : loadCode db s a = some (s', c)) :
    ∀ b x', s'.state b = some x' →
      (∃ x, s.state b = some x ∧ x'.storage = x.storage) ∨ (s.state b = none ∧ x'.storage = fun _ => none) := by
  intro b x' hb
  simp only [loadCode, bind, Option.bind] at h
  cases h1 : loadAccount db s a with
  | none => rw [h1] at h; simp at h
  | some p =>
    obtain ⟨s1, c1⟩ := p
    rw [h1] at h
    simp only at h
    cases hx : s1.state a with
    | none => rw [hx] at h; simp at h
    | some x =>
      rw [hx] at h
      simp only at h
      by_cases hc : x.info.code.isNone = true
      · rw [if_pos hc] at h
        simp only [Option.some.injEq, Prod.mk.injEq] at h
        rw [← h.1] at hb
        by_cases hba : b = a
        · subst hba
          simp only [setAcct, if_true, Option.some.injEq] at hb
          subst hb
          exact loadAccount_storage h1 b x hx
        · simp only [setAcct, hba, if_false] at hb
          exact loadAccount_storage h1 b x' hb
      · rw [if_neg hc] at h
        simp only [Option.some.injEq, Prod.mk.injEq] at h
        rw [← h.1] at hb
        exact loadAccount_storage h1 b x' hb

/-- two loads that only add pristine accounts keep `SameSt` -/
theorem SameSt.of_storage {db : Db} {j s j' s' : JState} (h : SameSt j s) (hrel : JRel db j s)
    (hj : ∀ b x', j'.state b = some x' →
      (∃ x, j.state b = some x ∧ x'.storage = x.storage) ∨ (j.state b = none ∧ x'.storage = fun _ => none))
    (hs : ∀ b y', s'.state b = some y' →
      (∃ y, s.state b = some y ∧ y'.storage = y.storage) ∨ (s.state b = none ∧ y'.storage = fun _ => none)) :
    SameSt j' s' := by
  intro b x' y' hx' hy'
  rcases hj b x' hx' with ⟨x, hx, ex⟩ | ⟨hxn, ex⟩
  · rcases hs b y' hy' with ⟨y, hy, ey⟩ | ⟨hyn, ey⟩
    · rw [ex, ey]; exact h b x y hx hy
    · have := hrel.get hx
      obtain ⟨y, hy, _⟩ := this
      rw [hyn] at hy; cases hy
  · rcases hs b y' hy' with ⟨y, hy, ey⟩ | ⟨hyn, ey⟩
    · have := hrel.get_none hxn
      rw [this] at hy; cases hy
    · rw [ex, ey]

/-- what `preverify` returns on the two machines -/
def PreRes : Option (World × Nat × Nat) → Option (World × Nat × Nat) → Prop
  | none, none => True
  | some (w1', ig1, fg1), some (w2', ig2, fg2) => ig1 = ig2 ∧ fg1 = fg2 ∧ R0 w1' w2'
  | _, _ => False

theorem wLoadCode_sameSt (h : R0 w1 w2) {a : Addr} {wa wb : World} {c : Bool} (h1 : w1.loadCode a = .ok (wa, c))
    (h2 : w2.loadCode a = .ok (wb, c)) : SameSt wa.js wb.js := by
  unfold World.loadCode at h1 h2
  simp only [bind, Except.bind] at h1 h2
  cases ho1 : ofOpt "load_code" (Journal.loadCode w1.db w1.js a) with
  | error e => rw [ho1] at h1; simp at h1
  | ok p1 =>
    obtain ⟨j', c1⟩ := p1
    rw [ho1] at h1
    cases ho2 : ofOpt "load_code" (Journal.loadCode w2.db w2.js a) with
    | error e => rw [ho2] at h2; simp at h2
    | ok p2 =>
      obtain ⟨s', c2⟩ := p2
      rw [ho2] at h2
      simp only [pure, Except.pure, Except.ok.injEq, Prod.mk.injEq] at h1 h2
      have e1 : wa.js = j' := by rw [← h1.1]; exact (noteAddr_fields _ a).1
      have e2 : wb.js = s' := by rw [← h2.1]; exact (noteAddr_fields _ a).1
      rw [e1, e2]
      exact h.2.of_storage h.1.w.rel (loadCode_storage (ofOpt_ok ho1)) (loadCode_storage (ofOpt_ok ho2))

/-- validation -/
theorem pre_rel (e : Evm.Env) (spec : Nat) (h : R0 w1 w2) {o1 : Option (World × Nat × Nat)}
    (hl : preverify w1 e spec = .ok o1) : ∃ o2, preverify w2 e spec = .ok o2 ∧ PreRes o1 o2 := by
  unfold preverify at hl ⊢
  simp only [bind, Except.bind] at hl ⊢
  cases hv : validateEnv e spec with
  | error err => rw [hv] at hl; simp at hl
  | ok b =>
    rw [hv] at hl
    simp only at hl ⊢
    by_cases hb : (!b) = true
    · rw [if_pos hb] at hl ⊢
      simp only [pure, Except.pure, Except.ok.injEq] at hl ⊢
      subst hl
      exact ⟨none, rfl, trivial⟩
    · rw [if_neg hb] at hl ⊢
      generalize hg : ofOpt "initcode_cost" (GasCalc.calculateInitialTxGas spec e.tx.data e.tx.to.isNone _ _) = og at hl ⊢
      cases og with
      | error err => simp at hl
      | ok g =>
        obtain ⟨ig, fg⟩ := g
        simp only at hl ⊢
        by_cases c1 : ig > e.tx.gasLimit
        · rw [if_pos c1] at hl ⊢
          simp only [pure, Except.pure, Except.ok.injEq] at hl ⊢
          subst hl
          exact ⟨none, rfl, trivial⟩
        · rw [if_neg c1] at hl ⊢
          by_cases c2 : GasCalc.enabled spec GasCalc.SpecId.PRAGUE = true ∧ fg > e.tx.gasLimit
          · rw [if_pos c2] at hl ⊢
            simp only [pure, Except.pure, Except.ok.injEq] at hl ⊢
            subst hl
            exact ⟨none, rfl, trivial⟩
          · rw [if_neg c2] at hl ⊢
            cases h1 : w1.loadCode e.tx.caller with
            | error err => rw [h1] at hl; simp at hl
            | ok p =>
              obtain ⟨wa, c⟩ := p
              rw [h1] at hl
              simp only at hl
              cases hx : wa.acct e.tx.caller with
              | error err => rw [hx] at hl; simp at hl
              | ok x =>
                rw [hx] at hl
                simp only at hl
                cases hc : ofOpt "code not cached" x.info.code with
                | error err => rw [hc] at hl; simp at hl
                | ok hh =>
                  rw [hc] at hl
                  simp only at hl
                  obtain ⟨wb, y, h2, hy, hcy, hco, hr⟩ := fetch_rel h.1 h1 hx hc
                  rw [h2]
                  simp only
                  rw [hy]
                  simp only
                  rw [hcy]
                  simp only
                  rw [hco]
                  cases hb2 : ofOpt "code_by_hash" (wa.codeOf hh) with
                  | error err => rw [hb2] at hl; simp at hl
                  | ok code =>
                    rw [hb2] at hl
                    simp only at hl ⊢
                    have hinfo : y.info = x.info := by
                      obtain ⟨y', hy', ar, _, _⟩ := hr.acct hx
                      rw [hy] at hy'
                      simp only [Except.ok.injEq] at hy'
                      subst hy'
                      obtain ⟨e1, e2, e3, _⟩ := ar
                      have c1' := ofOpt_ok hc
                      have c2' := ofOpt_ok hcy
                      cases hxi : x.info with
                      | mk b1 n1 ch1 co1 =>
                        cases hyi : y.info with
                        | mk b2 n2 ch2 co2 =>
                          rw [hxi] at e1 e2 e3 c1'
                          rw [hyi] at e1 e2 e3 c2'
                          simp only at e1 e2 e3 c1' c2'
                          rw [e1, e2, e3, c1', c2']
                    rw [hinfo]
                    by_cases hva : (!validateAgainstState e spec code x.info) = true
                    · rw [if_pos hva] at hl ⊢
                      simp only [pure, Except.pure, Except.ok.injEq] at hl ⊢
                      subst hl
                      exact ⟨none, rfl, trivial⟩
                    · rw [if_neg hva] at hl ⊢
                      simp only [pure, Except.pure, Except.ok.injEq] at hl ⊢
                      subst hl
                      exact ⟨_, rfl, rfl, rfl, hr, wLoadCode_sameSt h h1 h2⟩

end Revm.Proofs.EvmRefine
