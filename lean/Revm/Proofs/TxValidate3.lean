import Revm.Proofs.TxValidate2
/-! C02, validation part 3: `validate = first violated rule`, the rules against `ValidTx`,
and `validate = ok ↔ ValidTx`. -/
set_option linter.unusedSimpArgs false
set_option linter.unusedVariables false
namespace Revm.Proofs.TxValidate
open Revm
open Revm.Model.GasCalc (enabled canon calculateInitialTxGas)
open Revm.Model.GasCalc.SpecId
open Revm.Model.TxValidate
open Revm.Spec.GasCalc (Fork intrinsicGas floorGas)
open Revm.Spec.TxValid

theorem andThen_assoc (a b c : Res) : (a.andThen b).andThen c = a.andThen (b.andThen c) := by
  cases a <;> rfl

/-! ### what a passed stage tells the later ones -/

theorem header_ok_blob (f : Fork) (blk : Block) (h : resOf (firstViolated (rulesHeader f blk)) = .ok) :
    hasEIP4844 f = true → blk.blobGasPrice.isSome = true := by
  have h2 := (fv_none_iff _).1 ((resOf_eq_ok _).1 h)
    (.ExcessBlobGasNotSet, decide (hasEIP4844 f = true → blk.blobGasPrice.isSome = true))
    (by simp [rulesHeader])
  exact of_decide_eq_true h2

theorem tx_ok_blob (f : Fork) (cfg : Cfg) (blk : Block) (tx : Tx)
    (h : resOf (firstViolated (rulesTx f cfg blk tx)) = .ok) :
    hasEIP4844 f = false → tx.maxFeePerBlobGas = none := by
  have h2 := (fv_none_iff _).1 ((resOf_eq_ok _).1 h)
    (.BlobVersionedHashesNotSupported,
      decide ((tx.maxFeePerBlobGas.isSome = true ∨ tx.blobHashes ≠ []) → hasEIP4844 f = true))
    (by simp [rulesTx])
  have h3 := of_decide_eq_true h2
  intro hc
  cases hm : tx.maxFeePerBlobGas with
  | none => rfl
  | some m => rw [hm, hc] at h3; simp at h3

/-- `validate_env` (block, then tx) -/
theorem validateEnv_eq (f : Fork) (cfg : Cfg) (blk : Block) (tx : Tx)
    (hwrap : hasEIP1559 f = true → ∀ p, tx.priorityFee = some p → blk.basefee + p < W)
    (hlen : tx.data.length < U64) :
    validateEnv (canon f.id) cfg blk tx
      = resOf (firstViolated (rulesHeader f blk ++ rulesTx f cfg blk tx)) := by
  unfold validateEnv
  rw [validateBlockEnv_eq, fv_append]
  apply andThen_congr
  intro h
  exact validateTx_eq f cfg blk tx hwrap hlen (header_ok_blob f blk h)

/-- **the reply is the variant of the first violated rule** (exact variant; needs the two
no-overflow conditions under which the code reports the variant the rule is named after) -/
theorem validate_eq_firstViolated (f : Fork) (cfg : Cfg) (blk : Block) (tx : Tx) (snd : Sender)
    (hr : InRange blk tx snd) (hfit : GasFits f tx)
    (hwrap : hasEIP1559 f = true → ∀ p, tx.priorityFee = some p → blk.basefee + p < W)
    (hnosat : blobFee tx < W) :
    validate f.id cfg blk tx snd = resOf (firstViolated (rules f cfg blk tx snd)) := by
  unfold validate validateCanon rules
  rw [validateEnv_eq f cfg blk tx hwrap hr.dataLen, validateInitialTxGas_eq f tx hfit,
    fv_append (rulesHeader f blk ++ rulesTx f cfg blk tx ++ rulesGas f tx),
    fv_append (rulesHeader f blk ++ rulesTx f cfg blk tx), andThen_assoc]
  apply andThen_congr
  intro h
  rw [fv_append, andThen_eq_ok] at h
  rw [validateTxAgainstState_eq f blk tx snd hr (tx_ok_blob f cfg blk tx h.2) hnosat]

/-! ### the groups of rules against the conjuncts of `ValidTx` -/

theorem header_iff (f : Fork) (blk : Block) :
    firstViolated (rulesHeader f blk) = none ↔ HeaderOk f blk := by
  rw [fv_none_iff]
  unfold rulesHeader HeaderOk
  simp only [List.forall_mem_cons, decide_eq_true_eq]
  simp

theorem gas_iff (f : Fork) (tx : Tx) : firstViolated (rulesGas f tx) = none ↔ GasOk f tx := by
  rw [fv_none_iff]
  unfold rulesGas GasOk
  simp only [List.forall_mem_cons, decide_eq_true_eq]
  simp

theorem state_iff (tx : Tx) (snd : Sender) (hb : snd.balance < W) :
    firstViolated (rulesState tx snd) = none ↔ snd.code ≠ .other ∧ NonceOk tx snd ∧ FundsOk tx snd := by
  have hW : W = 2^256 := rfl
  rw [fv_none_iff]
  unfold rulesState NonceOk FundsOk
  simp only [List.forall_mem_cons, decide_eq_true_eq]
  unfold NonceNotHigh NonceNotLow NonceNotMax
  cases tx.nonce with
  | none =>
    simp only []
    constructor
    · intro ⟨h1, _, _, _, _, h6, _⟩; exact ⟨h1, trivial, h6⟩
    · intro ⟨h1, _, h4⟩; exact ⟨h1, trivial, trivial, trivial, by omega, h4, fun _ h => nomatch h⟩
  | some n =>
    simp only []
    constructor
    · intro ⟨h1, h2, h3, h4, h5, h6, _⟩; exact ⟨h1, ⟨by omega, h4⟩, h6⟩
    · intro ⟨h1, ⟨h2, h3⟩, h4⟩; exact ⟨h1, by omega, by omega, h3, by omega, h4, fun _ h => nomatch h⟩

theorem fv_append_none (l1 l2 : List Rule) :
    firstViolated (l1 ++ l2) = none ↔ firstViolated l1 = none ∧ firstViolated l2 = none := by
  rw [← resOf_eq_ok, fv_append, andThen_eq_ok, resOf_eq_ok, resOf_eq_ok]

theorem head_iff (f : Fork) (cfg : Cfg) (blk : Block) (tx : Tx) :
    firstViolated (rulesTxHead f cfg blk tx) = none ↔
      ChainIdOk cfg tx ∧ BlockGasOk blk tx ∧ (tx.accessList ≠ [] → hasEIP2930 f = true) := by
  rw [fv_none_iff]
  unfold rulesTxHead
  simp only [List.forall_mem_cons, decide_eq_true_eq]
  constructor
  · intro ⟨a, b, c, _⟩; exact ⟨a, b, c⟩
  · intro ⟨a, b, c⟩; exact ⟨a, b, c, fun _ h => nomatch h⟩

theorem fee_iff (f : Fork) (blk : Block) (tx : Tx) :
    firstViolated (rulesFee f blk tx) = none ↔ FeeOk f blk tx := by
  rw [fv_none_iff]
  unfold rulesFee FeeOk PriorityOk
  simp only [List.forall_mem_cons, decide_eq_true_eq]
  constructor
  · intro ⟨a, b, _⟩ h; exact ⟨a h, b h⟩
  · intro h; exact ⟨fun hl => (h hl).1, fun hl => (h hl).2, fun _ h => nomatch h⟩

theorem init_iff (f : Fork) (cfg : Cfg) (tx : Tx) :
    firstViolated (rulesInit f cfg tx) = none ↔ InitcodeOk f cfg tx := by
  rw [fv_none_iff]
  unfold rulesInit
  simp only [List.forall_mem_cons, decide_eq_true_eq]
  constructor
  · intro ⟨a, _⟩; exact a
  · intro a; exact ⟨a, fun _ h => nomatch h⟩

theorem blob_iff (f : Fork) (cfg : Cfg) (blk : Block) (tx : Tx) :
    firstViolated (rulesBlob f cfg blk tx) = none ↔
      ((tx.maxFeePerBlobGas.isSome = true ∨ tx.blobHashes ≠ []) → hasEIP4844 f = true) ∧
      BlobOk f cfg blk tx := by
  rw [fv_none_iff]
  unfold rulesBlob BlobOk
  simp only [List.forall_mem_cons, decide_eq_true_eq]
  cases hmf : tx.maxFeePerBlobGas with
  | none =>
    have hp := blobPriceOk_none blk tx hmf
    simp only [Option.isSome_none, Bool.false_eq_true, false_implies, false_or, forall_const, true_and]
    constructor
    · intro ⟨a, _, b, _⟩; exact ⟨a, b⟩
    · intro ⟨a, b⟩; exact ⟨a, hp, b, fun _ h => nomatch h⟩
  | some m =>
    simp only [Option.isSome_some, true_or, forall_const, reduceCtorEq, false_implies, true_and]
    cases hbp : blk.blobGasPrice with
    | none =>
      have hp : BlobPriceOk blk tx := by unfold BlobPriceOk; rw [hmf, hbp]; trivial
      simp only []
      constructor
      · intro ⟨a, _, b, c, d, e, _⟩; exact ⟨a, trivial, b, c, d, e⟩
      · intro ⟨a, _, b, c, d, e⟩; exact ⟨a, hp, b, c, d, e, fun _ h => nomatch h⟩
    | some price =>
      have hp := blobPriceOk_some blk tx m price hmf hbp
      simp only []
      constructor
      · intro ⟨a, p, b, c, d, e, _⟩; exact ⟨a, hp.1 p, b, c, d, e⟩
      · intro ⟨a, p, b, c, d, e⟩; exact ⟨a, hp.2 p, b, c, d, e, fun _ h => nomatch h⟩

theorem auth_iff (f : Fork) (tx : Tx) :
    firstViolated (rulesAuth f tx) = none ↔
      (tx.authList.isSome = true → hasEIP7702 f = true) ∧ AuthOk tx := by
  rw [fv_none_iff]
  unfold rulesAuth AuthOk
  simp only [List.forall_mem_cons, decide_eq_true_eq]
  cases hal : tx.authList with
  | none =>
    simp only [Option.isSome_none, Bool.false_eq_true, false_implies, true_and, ne_eq, reduceCtorEq,
      not_false_eq_true, and_true]
    simp
  | some n =>
    simp only [Option.isSome_some, forall_const, ne_eq, Option.some.injEq]
    constructor
    · intro ⟨a, b, ⟨c1, c2⟩, d, _⟩; exact ⟨a, b, c1, c2, d⟩
    · intro ⟨a, b, c1, c2, d⟩; exact ⟨a, b, ⟨c1, c2⟩, d, fun _ h => nomatch h⟩

theorem tx_iff (f : Fork) (cfg : Cfg) (blk : Block) (tx : Tx)
    (hd1 : tx.priorityFee.isSome = true → hasEIP1559 f = true) :
    firstViolated (rulesTx f cfg blk tx) = none ↔
      ChainIdOk cfg tx ∧ BlockGasOk blk tx ∧ TypeOk f tx ∧ FeeOk f blk tx ∧ InitcodeOk f cfg tx ∧
      BlobOk f cfg blk tx ∧ AuthOk tx := by
  rw [rulesTx_split, fv_append_none, fv_append_none, fv_append_none, fv_append_none, head_iff, fee_iff,
    init_iff, blob_iff, auth_iff]
  unfold TypeOk
  constructor
  · intro ⟨⟨a, b, c⟩, d, e, ⟨g, h⟩, i, j⟩; exact ⟨a, b, ⟨c, hd1, g, i⟩, d, e, h, j⟩
  · intro ⟨a, b, ⟨c, _, g, i⟩, d, e, h, j⟩; exact ⟨⟨a, b, c⟩, d, e, ⟨g, h⟩, i, j⟩

end Revm.Proofs.TxValidate
