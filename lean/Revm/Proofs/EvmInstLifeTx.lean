import Revm.Proofs.EvmInstLifeLoop
/-! C31 instance, part 3: `EvmLifecycle.transact (evmHandler spec)` IS `Evm.transact` - stage by stage. -/
namespace Revm.Proofs.EvmInstLife
open Revm Revm.Model Revm.Model.Evm Revm.Proofs.EvmInst
open Revm.Model.Journal (JState)
open Revm.Model.GasCalc (enabled)

set_option linter.unusedSimpArgs false

/-! ## `load_accounts` + `set_precompiles` -/

theorem isPrecompile_lt {sp a : Nat} (h : isPrecompile sp a = true) : a < 18 := by
  unfold isPrecompile at h
  simp only [Bool.or_eq_true, Bool.and_eq_true, decide_eq_true_eq, beq_iff_eq] at h
  omega

theorem contains_precompileAddrs (sp a : Nat) : (precompileAddrs sp).contains a = isPrecompile sp a := by
  unfold precompileAddrs
  cases h : isPrecompile sp a with
  | true =>
    rw [List.contains_iff_mem, List.mem_filter, List.mem_range]
    exact ⟨isPrecompile_lt h, h⟩
  | false =>
    rw [← Bool.not_eq_true, List.contains_iff_mem, List.mem_filter]
    intro hc
    rw [h] at hc
    exact absurd hc.2 (by decide)

/-- the journal after `set_spec_id` and the EIP-3651 coinbase warming, as the abstract `loadAccountsW` writes it -/
def jsStart (e : Env) (sp : Nat) (js : JState) : JState :=
  if sp ≥ EvmLifecycle.SHANGHAI then
    EvmLifecycle.preloadInsert (EvmLifecycle.setSpecId js sp) e.block.coinbase
  else EvmLifecycle.setSpecId js sp

theorem jsStart_eq (e : Env) (sp : Nat) (js : JState) :
    jsStart e sp js =
      { js with spec := sp,
                preloaded := fun a => js.preloaded a || (enabled sp GasCalc.SpecId.SHANGHAI && a == e.block.coinbase) } := by
  unfold jsStart EvmLifecycle.preloadInsert EvmLifecycle.setSpecId enabled
  by_cases h : sp ≥ EvmLifecycle.SHANGHAI
  · have h' : sp ≥ GasCalc.SpecId.SHANGHAI := h
    simp only [h, h', if_true, decide_true, Bool.true_and]
    congr 1
    funext a
    exact Bool.or_comm _ _
  · have h' : ¬ sp ≥ GasCalc.SpecId.SHANGHAI := h
    simp only [h, h', if_false, decide_false, Bool.false_and, Bool.or_false]

/-- `Evm.loadAccounts` is: write spec and coinbase warming, load the access list, extend by the precompiles -/
theorem loadAccounts_eq (e : Env) (sp : Nat) (w : World) :
    loadAccounts e sp w =
      (let x := loadAccessList e { w with js := jsStart e sp w.js }
       { x with js := EvmLifecycle.preloadExtend x.js (precompileAddrs sp) }) := by
  unfold loadAccounts loadAccessList
  rw [jsStart_eq]
  simp only [EvmLifecycle.preloadExtend]
  congr 1
  congr 1
  funext a
  rw [contains_precompileAddrs]
  exact Bool.or_comm _ _

section
variable (spec : Nat) (e : Env)

local notation "sp" => GasCalc.canon spec
local notation "H" => evmHandler spec

/-! ## the fields of the handler -/

theorem h_spec : (H).spec = spec := rfl
theorem h_validateEnv : (H).validateEnv e =
    (match validateEnv e sp with
     | .error err => .error (.err err)
     | .ok false => .error .rejected
     | .ok true => .ok ()) := rfl
theorem h_initialTxGas : (H).initialTxGas e =
    (match initialTxGas e sp with
     | .error err => .error (.err err)
     | .ok none => .error .rejected
     | .ok (some g) => .ok g) := rfl
theorem h_txAgainstState (w : LWork) : (H).txAgainstState e w =
    (match txAgainstState e sp (workWorld w) with
     | .error err => (.error (.err err), w)
     | .ok (x, false) => (.error .rejected, setWorld w x)
     | .ok (x, true) => (.ok (), setWorld w x)) := rfl
theorem h_coinbase : (H).coinbase e = e.block.coinbase := rfl
theorem h_loadAccessList (w : LWork) :
    (H).loadAccessList e w = (.ok (), setWorld w (loadAccessList e (workWorld w))) := rfl
theorem h_loadPrecompiles : (H).loadPrecompiles = sp := rfl
theorem h_precompileAddrs (p : Nat) : (H).precompileAddrs p = precompileAddrs p := rfl
theorem h_deductCaller (p : Nat) : (H).deductCaller p e = liftStageU (deductCaller e sp) := rfl
theorem h_applyAuthList (p : Nat) :
    (H).applyAuthList p e = liftStage (fun x => (applyAuthList e sp x).map (fun q => (q.2, q.1))) := rfl
theorem h_firstFrame (p : Nat) (g : Nat × Nat) :
    (H).firstFrame p g e = liftStage (fun x =>
      (firstFrame journalOps (e.toCfg sp) e (firstGasLimit e g.1) x).map (fun q =>
        (match q.1 with
         | .frame f => Sum.inl (LS.run [f])
         | .result r => Sum.inr (r, noGas), q.2))) := rfl
theorem h_lastFrameReturn (p : Nat) (fr : FRes) (w : LWork) :
    (H).lastFrameReturn p fr e w = (.ok (fr.1, lastFrameGas e fr.1), w) := rfl
theorem h_refund (g : Nat × Nat) (r : Nat) (fr : FRes) : (H).refund e g r fr = (fr.1, refundGas sp g.2 r fr.2) := rfl
theorem h_reimburseCaller (p : Nat) (fr : FRes) : (H).reimburseCaller p fr e = liftStageU (reimburse e fr.2) := rfl
theorem h_rewardBeneficiary (p : Nat) (fr : FRes) :
    (H).rewardBeneficiary p fr e = liftStageU (reward e sp fr.2) := rfl
theorem h_mkResult : (H).mkResult = mkRes := rfl
theorem h_endHook (out : Except LErr (ERes × EvmLifecycle.EvmState)) (w : LWork) : (H).endHook out e w = (out, w) := rfl

/-! ## validation -/

/-- the validation stages: the concrete `preverify` against the abstract `preverify_transaction_inner` -/
inductive PreRel (w : LWork) : R (Option (World × Nat × Nat)) → Except LErr (Nat × Nat) × LWork → Prop
  | err (er : Evm.Err) (w1 : LWork) : w1.error = w.error → PreRel w (.error er) (.error (.err er), w1)
  | rej (w1 : LWork) : w1.error = w.error → PreRel w (.ok none) (.error .rejected, w1)
  | ok (x : World) (ig fg : Nat) : PreRel w (.ok (some (x, ig, fg))) (.ok (ig, fg), setWorld w x)

theorem pre_rel (w : LWork) :
    PreRel w (preverify (workWorld w) e sp) (EvmLifecycle.preverifyInnerW (H) e w) := by
  rw [preverify_eq]
  unfold EvmLifecycle.preverifyInnerW
  rw [h_validateEnv, h_initialTxGas]
  simp only [h_txAgainstState]
  cases validateEnv e sp with
  | error er => exact .err er w rfl
  | ok b =>
    cases b with
    | false => exact .rej w rfl
    | true =>
      simp only [bind, Except.bind, pure, Except.pure, Bool.not_true, Bool.false_eq_true, if_false]
      cases initialTxGas e sp with
      | error er => exact .err er w rfl
      | ok g =>
        cases g with
        | none => exact .rej w rfl
        | some g =>
          obtain ⟨ig, fg⟩ := g
          simp only []
          cases txAgainstState e sp (workWorld w) with
          | error er => exact .err er w rfl
          | ok p =>
            obtain ⟨x, b⟩ := p
            cases b with
            | false => exact .rej _ rfl
            | true => exact .ok x ig fg

/-! ## `load_accounts`, `set_precompiles` -/

theorem loadAccountsW_eq (w : LWork) :
    EvmLifecycle.loadAccountsW (H) e w =
      (.ok (), setWorld w (loadAccessList e { workWorld w with js := jsStart e sp w.js })) := by
  unfold EvmLifecycle.loadAccountsW
  rw [h_spec, canon_eq, h_coinbase]
  simp only [h_loadAccessList]
  rfl

/-- the context after the abstract `load_accounts` and `set_precompiles` holds exactly the world after the concrete
`loadAccounts` -/
theorem after_setPrecompiles (c : LCtx) :
    (EvmLifecycle.setPrecompiles (H) (c.withWork (EvmLifecycle.loadAccountsW (H) c.env c.work).2)).work =
      setWorld c.work (loadAccounts c.env sp (workWorld c.work)) := by
  rw [loadAccountsW_eq, loadAccounts_eq]
  rfl

end

/-! ## everything after `set_precompiles` -/

/-- `Evm.execute` after `loadAccounts` -/
def restC (fuel : Nat) (e : Env) (s ig fg : Nat) (x : World) : R (TxResult × World) := do
  let w ← deductCaller e s x
  let (w, refund) ← applyAuthList e s w
  let (f, w) ← firstFrame journalOps (e.toCfg s) e (firstGasLimit e ig) w
  let (res, w) ← runFirst journalOps (e.toCfg s) fuel f w
  finish e s fg refund e.tx.to.isNone res w

theorem execute_eq_restC (fuel : Nat) (e : Env) (s ig fg : Nat) (w : World) :
    execute journalOps fuel e s ig fg w = restC fuel e s ig fg (loadAccounts e s w) :=
  execute_eq journalOps fuel e s ig fg w

/-- the concrete run after `loadAccounts` against the abstract `transact_preverified_inner` after `set_precompiles` -/
inductive RestRel : R (TxResult × World) → Option (Except LErr (ERes × EvmLifecycle.EvmState) × LWork) → Prop
  | ok (x : World) (er : ERes) (w1 : LWork) : w1.db = WDb.of x → w1.error = none →
      RestRel (.ok (resolve x.logs er, x)) (some (.ok (er, x.js.state), w1))
  | fuel : RestRel (.error .outOfFuel) none
  | err (er : Evm.Err) (w1 : LWork) : w1.error = none → RestRel (.error er) (some (.error (.err er), w1))

section
variable (spec : Nat) (e : Env)

local notation "sp" => GasCalc.canon spec
local notation "H" => evmHandler spec

theorem output_rel (fr : FRes) (w : LWork) (hw : w.error = none) :
    RestRel
      ((output e.tx.to.isNone fr.1 fr.2 w.js.logs w.db.logs).map (fun r => (r, workWorld w)))
      (some (EvmLifecycle.outputW (H) e fr w)) := by
  unfold EvmLifecycle.outputW output
  simp only [EvmLifecycle.takeError, hw, h_mkResult, mkRes, EvmLifecycle.jfinalize]
  cases hc : classOf fr.1.result with
  | none => exact .err _ _ rfl
  | some cls =>
    simp only [ofOpt, bind, Except.bind, pure, Except.pure, Except.map]
    rw [← resolve_txResultOf]
    exact .ok (workWorld w) _ _ rfl rfl

/-- the loop (or the early result) of the abstract `transact_preverified_inner` -/
def loopL (pre : Nat) (fuel : Nat) (first : LS ⊕ FRes) (w : LWork) : Option (Except LErr FRes × LWork) :=
  match first with
  | .inl ls => EvmLifecycle.runLoop (H) pre e fuel ls w
  | .inr r => some (.ok r, w)

/-- what the abstract `transact_preverified_inner` does with the answer of the loop -/
def postL (pre : Nat) (g : Nat × Nat) (refund : Nat) :
    Option (Except LErr FRes × LWork) → Option (Except LErr (ERes × EvmLifecycle.EvmState) × LWork)
  | none => none
  | some (.error er, w) => some (.error er, w)
  | some (.ok fr, w) =>
    match (H).lastFrameReturn pre fr e w with
    | (.error er, w) => some (.error er, w)
    | (.ok fr, w) =>
    let fr := (H).refund e g refund fr
    match (H).reimburseCaller pre fr e w with
    | (.error er, w) => some (.error er, w)
    | (.ok _, w) =>
    match (H).rewardBeneficiary pre fr e w with
    | (.error er, w) => some (.error er, w)
    | (.ok _, w) => some (EvmLifecycle.outputW (H) e fr w)

/-- splits the three post-execution stage matches that follow the loop -/
local macro "post_chain" pre:ident g:ident refund:ident fr:ident w4:ident : tactic => `(tactic| (
  generalize (evmHandler _).lastFrameReturn $pre $fr _ $w4 = a5
  obtain ⟨r5, w5⟩ := a5
  cases r5 with
  | error er => rfl
  | ok fr5 =>
    simp only []
    generalize (evmHandler _).reimburseCaller $pre ((evmHandler _).refund _ $g $refund fr5) _ w5 = a6
    obtain ⟨r6, w6⟩ := a6
    cases r6 with
    | error er => rfl
    | ok u6 =>
      simp only []
      generalize (evmHandler _).rewardBeneficiary $pre ((evmHandler _).refund _ $g $refund fr5) _ w6 = a7
      obtain ⟨r7, w7⟩ := a7
      cases r7 <;> rfl))

theorem innerRestW_eq (fuel : Nat) (g : Nat × Nat) (pre : Nat) (w : LWork) :
    EvmLifecycle.innerRestW (H) fuel g pre e w =
      match (H).deductCaller pre e w with
      | (.error er, w) => some (.error er, w)
      | (.ok _, w) =>
      match (H).applyAuthList pre e w with
      | (.error er, w) => some (.error er, w)
      | (.ok refund, w) =>
      match (H).firstFrame pre g e w with
      | (.error er, w) => some (.error er, w)
      | (.ok first, w) => postL spec e pre g refund (loopL spec e pre fuel first w) := by
  unfold EvmLifecycle.innerRestW
  generalize (H).deductCaller pre e w = a1
  obtain ⟨r1, w1⟩ := a1
  cases r1 with
  | error er => rfl
  | ok u =>
    simp only []
    generalize (H).applyAuthList pre e w1 = a2
    obtain ⟨r2, w2⟩ := a2
    cases r2 with
    | error er => rfl
    | ok refund =>
      simp only []
      generalize (H).firstFrame pre g e w2 = a3
      obtain ⟨r3, w3⟩ := a3
      cases r3 with
      | error er => rfl
      | ok first =>
        simp only []
        cases first with
        | inl ls =>
          simp only [loopL]
          generalize EvmLifecycle.runLoop (H) pre e fuel ls w3 = B
          cases B with
          | none => rfl
          | some q =>
            obtain ⟨r4, w4⟩ := q
            cases r4 with
            | error er => rfl
            | ok fr =>
              simp only [postL]
              post_chain pre g refund fr w4
        | inr r =>
          simp only [loopL, postL]
          post_chain pre g refund r w3

/-- the post-execution stages -/
theorem post_rel (pre : Nat) (g : Nat × Nat) (refund : Nat) (w : LWork) (hw : w.error = none)
    {A : R (Interp.ChildResult × World)} {B : Option (Except LErr FRes × LWork)} (hl : LoopRel w A B) :
    RestRel (A >>= fun p => finish e sp g.2 refund e.tx.to.isNone p.1 p.2) (postL spec e pre g refund B) := by
  cases hl with
  | fuel => exact .fuel
  | err er w1 h1 => exact .err er w1 h1
  | ok res x4 =>
    show RestRel (finish e sp g.2 refund e.tx.to.isNone res x4) _
    rw [finish_eq]
    unfold postL
    simp only [h_lastFrameReturn, h_refund, h_reimburseCaller, h_rewardBeneficiary, liftStageU, setWorld_world,
      bind, Except.bind]
    cases reimburse e (refundGas sp g.2 refund (lastFrameGas e res)) x4 with
    | error er => exact .err er _ hw
    | ok x5 =>
      simp only [setWorld_setWorld, setWorld_world]
      cases reward e sp (refundGas sp g.2 refund (lastFrameGas e res)) x5 with
      | error er => exact .err er _ hw
      | ok x6 =>
        simp only [setWorld_setWorld, setWorld_world]
        have : RestRel
            ((output e.tx.to.isNone res (refundGas sp g.2 refund (lastFrameGas e res)) x6.js.logs x6.logs).map
              (fun r => (r, x6)))
            (some (EvmLifecycle.outputW (H) e (res, refundGas sp g.2 refund (lastFrameGas e res)) (setWorld w x6))) :=
          output_rel spec e (res, refundGas sp g.2 refund (lastFrameGas e res)) (setWorld w x6) hw
        revert this
        simp only [pure, Except.pure, Except.map]
        cases output e.tx.to.isNone res (refundGas sp g.2 refund (lastFrameGas e res)) x6.js.logs x6.logs with
        | error er => exact id
        | ok r => exact id

theorem rest_rel (fuel : Nat) (g : Nat × Nat) (pre : Nat) (w : LWork) (hw : w.error = none) :
    RestRel (restC fuel e sp g.1 g.2 (workWorld w)) (EvmLifecycle.innerRestW (H) fuel g pre e w) := by
  rw [innerRestW_eq]
  unfold restC
  rw [h_deductCaller]
  simp only [h_applyAuthList, h_firstFrame]
  unfold liftStageU
  simp only [bind, Except.bind]
  cases deductCaller e sp (workWorld w) with
  | error er => exact .err er w hw
  | ok x1 =>
    simp only [liftStage, setWorld_world]
    cases applyAuthList e sp x1 with
    | error er => exact .err er _ hw
    | ok p =>
      obtain ⟨x2, refund⟩ := p
      simp only [Except.map, setWorld_world, setWorld_setWorld]
      cases firstFrame journalOps (e.toCfg sp) e (firstGasLimit e g.1) x2 with
      | error er => exact .err er _ hw
      | ok p =>
        obtain ⟨f, x3⟩ := p
        simp only [setWorld_setWorld]
        have hloop : LoopRel (setWorld w x3) (runFirst journalOps (e.toCfg sp) fuel f x3)
            (loopL spec e pre fuel (match f with
                    | .frame f => (Sum.inl (LS.run [f]) : LS ⊕ FRes)
                    | .result r => Sum.inr (r, noGas)) (setWorld w x3)) := by
          cases f with
          | frame f => exact (loop_sim spec e pre fuel (setWorld w x3) hw).1 [f]
          | result r => exact .ok r x3
        exact post_rel spec e pre g refund (setWorld w x3) hw hloop

end

end Revm.Proofs.EvmInstLife
