import Revm.Proofs.EvmStep2Prim
/-! (d) KECCAK256, LOG0 … LOG4: `Interp.step` is the rule of `Spec/EvmRules2.lean`. -/
set_option linter.unusedSimpArgs false
set_option linter.unusedVariables false
namespace Revm.Proofs.EvmStep2
open Revm Revm.Model Revm.Model.Interp
open Revm.Model.GasCalc (enabled)
open Revm.Spec.EvmRules Revm.Spec.EvmRules2
open Revm.Spec.GasCalc (ceil32 memCost)
open Revm.Proofs.EvmStep

theorem keccak256I_eq (s : IState) (h : MemOK s) (hw : ∀ w ∈ s.stack, w < W) :
    keccak256I s =
      match s.stack.reverse with
      | off :: len :: rest =>
        let s1 := { s with stack := (len :: rest).reverse }
        if U64 ≤ len then .halt .InvalidOperandOOG [] s1
        else needGasO s1 (Spec.GasCalc.keccak256Cost len) fun s2 =>
          if len = 0 then .next { s2 with stack := (KECCAK_EMPTY :: rest).reverse }
          else if U64 ≤ off then .halt .InvalidOperandOOG [] s2
          else memAccessO s2 off len fun s3 =>
            .host (.keccak (load (memOf s3) off len)) fun r => .next { s3 with stack := (r.word :: rest).reverse }
      | _ => .halt .StackUnderflow [] s := by
  unfold keccak256I keccakPre
  rcases hrev : s.stack.reverse with _ | ⟨off, _ | ⟨len, rest⟩⟩
  · have : s.stack.length < 2 := by rw [← List.length_reverse, hrev]; decide
    rw [bind_halt _ _ _ _ _ _ (popTop2_underflow s this)]
  · have : s.stack.length < 2 := by rw [← List.length_reverse, hrev]; simp
    rw [bind_halt _ _ _ _ _ _ (popTop2_underflow s this)]
  · have hs : s.stack = rest.reverse ++ [len, off] := stack_of_reverse (pre := [off, len]) hrev
    have hoff : off < W := lt_W_of_mem hw (pre := [off, len]) hrev (by simp)
    have hlen : len < W := lt_W_of_mem hw (pre := [off, len]) hrev (by simp)
    rw [bind_ok _ _ _ _ _ (popTop2_ok s _ off len hs)]
    simp only [List.reverse_cons]
    have h1 : MemOK { s with stack := rest.reverse ++ [len] } := h.stack _
    have hst1 : ({ s with stack := rest.reverse ++ [len] } : IState).stack = rest.reverse ++ [len] := rfl
    generalize ({ s with stack := rest.reverse ++ [len] } : IState) = s1 at h1 hst1 ⊢
    by_cases hl : U64 ≤ len
    · rw [bind_halt _ _ _ _ _ _ (asUsizeOrFail_fail len _ s1 hl hlen), if_pos hl]
    · rw [bind_ok _ _ _ _ _ (asUsizeOrFail_ok len _ s1 (by omega)), if_neg hl]
      unfold needGasO
      have hcc := keccakCharge_eq s1 len (by omega) h1.bound
      by_cases hg : s1.gas.remaining < Spec.GasCalc.keccak256Cost len
      · rw [if_pos hg] at hcc
        rw [bind_halt _ _ _ _ _ _ hcc, if_pos hg]
      · rw [if_neg hg] at hcc
        rw [bind_ok _ _ _ _ _ hcc, if_neg hg]
        have h2 : MemOK (charge s1 (Spec.GasCalc.keccak256Cost len)) := h1.charge _
        have hst2 : (charge s1 (Spec.GasCalc.keccak256Cost len)).stack = rest.reverse ++ [len] := hst1
        generalize charge s1 (Spec.GasCalc.keccak256Cost len) = s2 at h2 hst2 ⊢
        by_cases hz : len = 0
        · simp only [hz, if_true]
          show Outcome.pure (setTop KECCAK_EMPTY s2).toDone = _
          rw [setTop_ok s2 rest.reverse len KECCAK_EMPTY hst2]
          rfl
        · simp only [hz, if_false]
          by_cases ho : U64 ≤ off
          · rw [bind_halt _ _ _ _ _ _ (asUsizeOrFail_fail off _ s2 ho hoff), if_pos ho]
          · rw [bind_ok _ _ _ _ _ (asUsizeOrFail_ok off _ s2 (by omega)), if_neg ho]
            unfold memAccessO
            by_cases hc : s2.gas.remaining < touchCost (memOf s2) off len
            · rw [bind_halt _ _ _ _ _ _ (resizeMem_fail s2 _ len h2 (by omega) (by omega) hc), if_pos hc]
            · rw [bind_ok _ _ _ _ _ (resizeMem_ok s2 _ len h2 (by omega) (by omega) hc), if_neg hc]
              have h3 := h2.touch off len hc
              have hcov := touch_covers (memOf s2) off len
              have hm3 : memOf (setMem (charge s2 (touchCost (memOf s2) off len))
                  (touch (memOf s2) off len)) = touch (memOf s2) off len := memOf_setMem h2.mem _
              have hst3 : (setMem (charge s2 (touchCost (memOf s2) off len))
                  (touch (memOf s2) off len)).stack = rest.reverse ++ [len] := hst2
              generalize setMem (charge s2 (touchCost (memOf s2) off len)) (touch (memOf s2) off len) = s3
                at h3 hm3 hst3 ⊢
              rw [bind_ok _ _ _ _ _ (memSlice_eq s3 off len h3.mem (by rw [hm3]; exact hcov))]
              show Outcome.host (.keccak (load (memOf s3) off len)) _ = _
              congr 1
              funext r
              rw [setTop_ok s3 rest.reverse len r.word hst3]
              rfl

theorem step_keccak (s : IState) (hcode : s.code[s.pc]? = some 0x20) (hwf : WFM s) :
    step s = keccakRule s := by
  unfold step
  rw [hcode]
  have hdec : decode 0x20 = .keccak256 := rfl
  simp only [hdec, execInstr, execPure]
  show keccak256I (adv s) = _
  rw [keccak256I_eq (adv s) hwf.memOK.adv hwf.words]
  rfl

/-- the tail of `log::<N>` after gas and memory: `pop!` of the topics and the host call -/
theorem logTail_eq (n : Nat) (s : IState) (rest data : List Nat) (hst : s.stack = rest.reverse) :
    hostCall (popN n >>= fun topics => getS >>= fun s' =>
              (pure (HostOp.log s'.target topics data, ()) : M (HostOp × Unit)))
      (fun (_ : Unit) (_ : HostResp) => (pure () : M Unit)) s = logEmit n s rest data := by
  unfold logEmit
  by_cases hn : rest.length < n
  · rw [if_pos hn, hostCall_halt _ _ _ _ _ _ _ (popN_underflow s n (by rw [hst]; simpa using hn))]
  · rw [if_neg hn]
    have hsplit : s.stack = (rest.drop n).reverse ++ (rest.take n).reverse := by
      rw [hst, ← List.reverse_append, List.take_append_drop]
    have hlen : (rest.take n).length = n := by rw [List.length_take]; omega
    have hp := popN_ok s (rest.drop n).reverse (rest.take n) hsplit
    rw [hlen] at hp
    rw [hostCall_ok _ _ _ _ _ _ hp, hostCall_ok _ _ _ _ _ _ (getS_ok _)]
    rfl

theorem logI_eq (n : Nat) (s : IState) (h : MemOK s) (hw : ∀ w ∈ s.stack, w < W) :
    logI n s =
      if s.isStatic then .halt .StateChangeDuringStaticCall [] s
      else match s.stack.reverse with
        | off :: len :: rest =>
          let s1 := { s with stack := rest.reverse }
          if U64 ≤ len then .halt .InvalidOperandOOG [] s1
          else needGasO s1 (Spec.GasCalc.logCost n len) fun s2 =>
            if len = 0 then logEmit n s2 rest []
            else if U64 ≤ off then .halt .InvalidOperandOOG [] s2
            else memAccessO s2 off len fun s3 => logEmit n s3 rest (load (memOf s3) off len)
        | _ => .halt .StackUnderflow [] s := by
  unfold logI
  by_cases hstc : s.isStatic = true
  · rw [hostCall_halt _ _ _ _ _ _ _ (requireNonStatic_fail s hstc), if_pos hstc]
  · have hstf : s.isStatic = false := by simpa using hstc
    rw [hostCall_ok _ _ _ _ _ _ (requireNonStatic_ok s hstf), if_neg hstc]
    rcases hrev : s.stack.reverse with _ | ⟨off, _ | ⟨len, rest⟩⟩
    · have : s.stack.length < 2 := by rw [← List.length_reverse, hrev]; decide
      rw [hostCall_halt _ _ _ _ _ _ _ (pop2_underflow s this)]
    · have : s.stack.length < 2 := by rw [← List.length_reverse, hrev]; simp
      rw [hostCall_halt _ _ _ _ _ _ _ (pop2_underflow s this)]
    · have hs : s.stack = rest.reverse ++ [len, off] := stack_of_reverse (pre := [off, len]) hrev
      have hoff : off < W := lt_W_of_mem hw (pre := [off, len]) hrev (by simp)
      have hlen : len < W := lt_W_of_mem hw (pre := [off, len]) hrev (by simp)
      rw [hostCall_ok _ _ _ _ _ _ (pop2_ok s _ off len hs)]
      simp only []
      have h1 : MemOK { s with stack := rest.reverse } := h.stack _
      have hst1 : ({ s with stack := rest.reverse } : IState).stack = rest.reverse := rfl
      generalize ({ s with stack := rest.reverse } : IState) = s1 at h1 hst1 ⊢
      by_cases hl : U64 ≤ len
      · rw [hostCall_halt _ _ _ _ _ _ _ (asUsizeOrFail_fail len _ s1 hl hlen), if_pos hl]
      · rw [hostCall_ok _ _ _ _ _ _ (asUsizeOrFail_ok len _ s1 (by omega)), if_neg hl]
        unfold needGasO
        have hcc := logCharge_eq s1 n len h1.gas
        by_cases hg : s1.gas.remaining < Spec.GasCalc.logCost n len
        · rw [if_pos hg] at hcc
          rw [hostCall_halt _ _ _ _ _ _ _ hcc, if_pos hg]
        · rw [if_neg hg] at hcc
          rw [hostCall_ok _ _ _ _ _ _ hcc, if_neg hg]
          have h2 : MemOK (charge s1 (Spec.GasCalc.logCost n len)) := h1.charge _
          have hst2 : (charge s1 (Spec.GasCalc.logCost n len)).stack = rest.reverse := hst1
          generalize charge s1 (Spec.GasCalc.logCost n len) = s2 at h2 hst2 ⊢
          by_cases hz : len = 0
          · simp only [hz, if_true]
            have hp : (pure [] : M (List Nat)) s2 = .ok [] s2 := rfl
            rw [hostCall_ok _ _ _ _ _ _ hp]
            exact logTail_eq n s2 rest [] hst2
          · simp only [hz, if_false]
            rw [hostCall_assoc]
            by_cases ho : U64 ≤ off
            · rw [hostCall_halt _ _ _ _ _ _ _ (asUsizeOrFail_fail off _ s2 ho hoff), if_pos ho]
            · rw [hostCall_ok _ _ _ _ _ _ (asUsizeOrFail_ok off _ s2 (by omega)), if_neg ho, hostCall_assoc]
              unfold memAccessO
              by_cases hc : s2.gas.remaining < touchCost (memOf s2) off len
              · rw [hostCall_halt _ _ _ _ _ _ _ (resizeMem_fail s2 _ len h2 (by omega) (by omega) hc), if_pos hc]
              · rw [hostCall_ok _ _ _ _ _ _ (resizeMem_ok s2 _ len h2 (by omega) (by omega) hc), if_neg hc]
                have h3 := h2.touch off len hc
                have hcov := touch_covers (memOf s2) off len
                have hm3 : memOf (setMem (charge s2 (touchCost (memOf s2) off len))
                    (touch (memOf s2) off len)) = touch (memOf s2) off len := memOf_setMem h2.mem _
                have hst3 : (setMem (charge s2 (touchCost (memOf s2) off len))
                    (touch (memOf s2) off len)).stack = rest.reverse := hst2
                generalize setMem (charge s2 (touchCost (memOf s2) off len)) (touch (memOf s2) off len) = s3
                  at h3 hm3 hst3 ⊢
                rw [hostCall_ok _ _ _ _ _ _ (memSlice_eq s3 off len h3.mem (by rw [hm3]; exact hcov))]
                exact logTail_eq n s3 rest _ hst3

set_option maxRecDepth 8000 in
theorem decode_log (n : Fin 5) : decode (0xa0 + n.val) = .log n := by
  rcases n with ⟨k, hk⟩
  repeat (first | (cases k with | zero => rfl | succ k => ?_) | omega)

theorem step_log (s : IState) (n : Fin 5) (hcode : s.code[s.pc]? = some (0xa0 + n.val)) (hwf : WFM s) :
    step s = logRule n.val s := by
  unfold step
  rw [hcode]
  simp only [decode_log n, execInstr, execPure]
  show logI n.val (adv s) = _
  rw [logI_eq n.val (adv s) hwf.memOK.adv hwf.words]
  rfl

end Revm.Proofs.EvmStep2
