import Revm.Proofs.InterpEofC26Table
import Revm.Proofs.Eof
import Revm.Proofs.EofTracker
/-! C25 ↔ C26: what C26 proves about a validated container (`Spec.Eof.SectionOk` at every instruction start of the
linear decoding) gives the in-range half of the well-formedness predicate `wfCtxB` of C25 at every instruction boundary
of C25's own scan. -/
set_option linter.unusedSimpArgs false
set_option linter.unusedVariables false
namespace Revm.Proofs.Interp
open Revm Revm.Model Revm.Model.Interp

theorem opcode_row {op : Nat} (h : op < 256) :
    eofTag (decode op) = byteTag op ∧ staticLen (decode op) = 1 + immOf op ∧
    ((byteTag op = 8 ∨ byteTag op = 9) → notEofOf op = true) ∧
    (byteTag op = 7 → (EofValidate.opInfo op).isSome = true) ∧
    (termOf op = true → notEofOf op = false → terminating (decode op) = true) := by
  have := List.all_eq_true.mp opcode_tables_agree op (List.mem_range.mpr h)
  simp only [Bool.and_eq_true, beq_iff_eq, Bool.or_eq_true, bne_iff_ne, ne_eq, Bool.not_eq_true'] at this
  obtain ⟨⟨⟨⟨h1, h2⟩, h3⟩, h4⟩, h5⟩ := this
  refine ⟨h1, h2, ?_, ?_, ?_⟩
  · intro h89
    rcases h3 with h3 | h3
    · rcases h89 with e | e
      · exact absurd e h3.1
      · exact absurd e h3.2
    · exact h3
  · intro h7
    rcases h4 with h4 | h4
    · exact absurd h7 h4
    · exact h4
  · intro ht hn
    rcases h5 with (h5 | h5) | h5
    · rw [ht] at h5; cases h5
    · rw [hn] at h5; cases h5
    · exact h5

theorem instrLenOf_static (I : Instr) (sec : List Nat) (i : Nat) :
    instrLenOf I sec i = staticLen I + (if eofTag I = 7 then 2 + 2 * sec.getD (i + 1) 0 else 0) := by
  cases I <;> simp [instrLenOf, staticLen, eofTag] <;> omega

/-! ## C25's scan visits only instruction starts of C26's linear decoding -/

theorem getD_of_lt {sec : List Nat} {j : Nat} (hj : j < sec.length) : sec.getD j 0 = sec[j] := by
  rw [List.getD_eq_getElem?_getD, List.getElem?_eq_getElem hj]; rfl

theorem immLen_eq {sec : List Nat} {j : Nat} (hj : j < sec.length) :
    Spec.Eof.immLen sec.toArray j =
      (match EofValidate.opInfo sec[j] with
       | none => 0
       | some inf => inf.imm + (if sec[j] = EofValidate.RJUMPV then
           (match sec[j + 1]? with
            | some m => 2 * (m + 1)
            | none => 0) else 0)) := by
  unfold Spec.Eof.immLen
  rw [List.getElem?_toArray, List.getElem?_eq_getElem hj]
  simp only [List.getElem?_toArray]
  generalize EofValidate.opInfo sec[j] = oi
  cases oi with
  | none => rfl
  | some inf =>
    show inf.imm + _ = inf.imm + _
    congr 1

/-- length of an instruction in C25's scan = 1 + C26's `immLen` (except for an RJUMPV whose count byte is missing) -/
theorem instrLen_eq {sec : List Nat} (hb : ∀ b ∈ sec, b < 256) {j : Nat} (hj : j < sec.length)
    (hc : j + 1 < sec.length ∨ sec[j] ≠ 0xe2) :
    instrLen sec j = 1 + Spec.Eof.immLen sec.toArray j := by
  have hop : sec[j] < 256 := hb _ (List.getElem_mem hj)
  obtain ⟨t1, t2, _, t4, _⟩ := opcode_row hop
  unfold instrLen
  rw [instrLenOf_static, getD_of_lt hj, t1, t2, immLen_eq hj]
  unfold immOf
  by_cases h7 : sec[j] = 0xe2
  · have hj1 : j + 1 < sec.length := by
      rcases hc with h | h
      · exact h
      · exact absurd h7 h
    have hsome := t4 (by rw [h7]; rfl)
    cases hinf : EofValidate.opInfo sec[j] with
    | none => rw [hinf] at hsome; cases hsome
    | some inf =>
      simp only []
      have e7 : byteTag sec[j] = 7 := by rw [h7]; rfl
      rw [if_pos e7, if_pos (show sec[j] = EofValidate.RJUMPV from h7), getD_of_lt hj1,
        List.getElem?_eq_getElem hj1]
      simp only []
      omega
  · have e7 : byteTag sec[j] ≠ 7 := by
      unfold byteTag
      repeat' split
      all_goals first | omega | (intro h; cases h) | skip
      all_goals simp_all
    rw [if_neg e7]
    cases hinf : EofValidate.opInfo sec[j] with
    | none => rfl
    | some inf =>
      simp only []
      rw [if_neg (show ¬ sec[j] = EofValidate.RJUMPV from h7)]
      omega

theorem reach_le {code : Array Nat} {a b : Nat} (h : Spec.Eof.Reach code a b) : a ≤ b := by
  induction h with
  | refl i => exact Nat.le_refl _
  | step hlt _ ih => omega

theorem scan_reach {sec : List Nat} (hb : ∀ b ∈ sec, b < 256) :
    ∀ (f j i : Nat), i ∈ scan sec f j → Spec.Eof.Reach sec.toArray j i ∧ i < sec.length := by
  intro f
  induction f with
  | zero => intro j i h; simp [scan] at h
  | succ f ih =>
    intro j i h
    unfold scan at h
    by_cases hj : j < sec.length
    · rw [if_pos hj] at h
      rcases List.mem_cons.mp h with rfl | h
      · exact ⟨.refl _, hj⟩
      · obtain ⟨hr, hi⟩ := ih _ _ h
        refine ⟨?_, hi⟩
        by_cases hc : j + 1 < sec.length ∨ sec[j] ≠ 0xe2
        · rw [instrLen_eq hb hj hc] at hr
          refine .step (by rw [List.size_toArray]; exact hj) ?_
          have e : j + (1 + Spec.Eof.immLen sec.toArray j) = j + 1 + Spec.Eof.immLen sec.toArray j := by omega
          rw [← e]; exact hr
        · -- an RJUMPV in the last byte: the scan ends here
          exfalso
          have h1 : ¬ (j + 1 < sec.length) := fun x => hc (Or.inl x)
          have hle := reach_le hr
          have : 1 ≤ instrLen sec j := by
            unfold instrLen; rw [instrLenOf_static]
            have : 1 ≤ staticLen (decode (sec.getD j 0)) := by
              generalize decode (sec.getD j 0) = I
              cases I <;> simp [staticLen] <;> omega
            omega
          omega
    · rw [if_neg hj] at h; cases h

/-- every instruction boundary of C25's scan is an instruction start in the sense of C26 -/
theorem boundary_isInstrStart {sec : List Nat} (hb : ∀ b ∈ sec, b < 256) {i : Nat} (h : i ∈ boundaries sec) :
    Spec.Eof.IsInstrStart sec.toArray i := by
  obtain ⟨hr, hi⟩ := scan_reach hb _ _ _ h
  exact ⟨hr, by rw [List.size_toArray]; exact hi⟩

/-! ## the in-range half of `instrOk` from C26's `InstrOk` -/

theorem byteTag_spec (op : Nat) :
    (byteTag op = 1 ↔ op = 0xe3) ∧ (byteTag op = 2 ↔ op = 0xe5) ∧ (byteTag op = 3 ↔ op = 0xec) ∧
    (byteTag op = 4 ↔ op = 0xee) ∧ (byteTag op = 5 ↔ op = 0xe0) ∧ (byteTag op = 6 ↔ op = 0xe1) ∧
    (byteTag op = 7 ↔ op = 0xe2) ∧ (byteTag op = 8 ↔ op = 0x38) ∧ (byteTag op = 9 ↔ op = 0x39) ∧
    (byteTag op = 10 ↔ op = 0xe4) := by
  unfold byteTag
  repeat' split
  all_goals omega

theorem u16At_of_spec {sec : List Nat} {k v : Nat} (h : Spec.Eof.u16At sec.toArray k = some v) :
    u16At sec k = v := by
  unfold Spec.Eof.u16At at h
  simp only [List.getElem?_toArray] at h
  unfold u16At
  rw [List.getD_eq_getElem?_getD, List.getD_eq_getElem?_getD]
  cases h1 : sec[k]? with
  | none => rw [h1] at h; simp at h
  | some a =>
    cases h2 : sec[k + 1]? with
    | none => rw [h1, h2] at h; simp at h
    | some b =>
      rw [h1, h2] at h
      simp only [Option.some.injEq] at h
      simpa using h

theorem i16At_eq (sec : List Nat) (p : Nat) : i16At sec p = EofValidate.toI16 (u16At sec p) := rfl

theorem getD_of_some {sec : List Nat} {k m : Nat} (h : sec.toArray[k]? = some m) : sec.getD k 0 = m := by
  rw [List.getElem?_toArray] at h
  rw [List.getD_eq_getElem?_getD, h]; rfl

/-- what C26 proves about the instruction at boundary `i`, in the vocabulary of C25's `instrOk`: the immediates lie
inside the section; CALLF / JUMPF name an existing section; EOFCREATE / RETURNCONTRACT name an existing
sub-container; every relative-jump target is a byte of the section; no CODESIZE / CODECOPY -/
def InRange (nTypes nContainers : Nat) (sec : List Nat) (i : Nat) : Prop :=
  i + instrLen sec i ≤ sec.length ∧
  (match decode (sec.getD i 0) with
   | .callf | .jumpf => u16At sec (i + 1) < nTypes
   | .eofcreate | .returnContract => sec.getD (i + 1) 0 < nContainers
   | .rjump | .rjumpi =>
     0 ≤ (i : Int) + 3 + i16At sec (i + 1) ∧ (i : Int) + 3 + i16At sec (i + 1) < sec.length
   | .rjumpv =>
     ∀ k, k ≤ sec.getD (i + 1) 0 →
       0 ≤ ((i + (4 + 2 * sec.getD (i + 1) 0) : Nat) : Int) + i16At sec (i + 2 + 2 * k) ∧
       ((i + (4 + 2 * sec.getD (i + 1) 0) : Nat) : Int) + i16At sec (i + 2 + 2 * k) < sec.length
   | .codesize | .codecopy => False
   | _ => True)

theorem sectionOk_inRange {sec : List Nat} {nT nC : Nat} (hb : ∀ b ∈ sec, b < 256)
    (h : Spec.Eof.SectionOk sec.toArray nT nC) {i : Nat} (hi : i ∈ boundaries sec) :
    i < sec.length ∧ InRange nT nC sec i := by
  have hs := boundary_isInstrStart hb hi
  have hlt : i < sec.length := by have := hs.2; rw [List.size_toArray] at this; exact this
  have ok := h i hs
  have hop : sec[i] < 256 := hb _ (List.getElem_mem hlt)
  obtain ⟨t1, t2, t89, t4, _⟩ := opcode_row hop
  obtain ⟨b1, b2, b3, b4, b5, b6, b7, b8, b9, _⟩ := byteTag_spec sec[i]
  have hcode : sec.toArray[i]? = some sec[i] := by rw [List.getElem?_toArray, List.getElem?_eq_getElem hlt]
  have himm := ok.imm_in
  rw [List.size_toArray] at himm
  -- an RJUMPV at a boundary has its count byte
  have hc : i + 1 < sec.length ∨ sec[i] ≠ 0xe2 := by
    by_cases h7 : sec[i] = 0xe2
    · left
      obtain ⟨m, hm, _⟩ := ok.rjumpv (by rw [hcode, h7]; rfl)
      rw [List.getElem?_toArray] at hm
      rcases Nat.lt_or_ge (i + 1) sec.length with hh | hh
      · exact hh
      · rw [List.getElem?_eq_none hh] at hm; cases hm
    · exact Or.inr h7
  have hlen := instrLen_eq hb hlt hc
  refine ⟨hlt, by omega, ?_⟩
  -- the facts per tag
  have f12 : eofTag (decode sec[i]) = 1 ∨ eofTag (decode sec[i]) = 2 → u16At sec (i + 1) < nT := by
    intro ht
    rw [t1] at ht
    obtain ⟨k, hk, hlt'⟩ := ok.section_idx (by
      rw [hcode]
      rcases ht with e | e
      · left; rw [b1.mp e]; rfl
      · right; rw [b2.mp e]; rfl)
    rw [u16At_of_spec hk]; exact hlt'
  have f34 : eofTag (decode sec[i]) = 3 ∨ eofTag (decode sec[i]) = 4 → sec.getD (i + 1) 0 < nC := by
    intro ht
    rw [t1] at ht
    obtain ⟨k, hk, hlt'⟩ := ok.container_idx (by
      rw [hcode]
      rcases ht with e | e
      · left; rw [b3.mp e]; rfl
      · right; rw [b4.mp e]; rfl)
    rw [getD_of_some hk]; exact hlt'
  have f56 : eofTag (decode sec[i]) = 5 ∨ eofTag (decode sec[i]) = 6 →
      0 ≤ (i : Int) + 3 + i16At sec (i + 1) ∧ (i : Int) + 3 + i16At sec (i + 1) < sec.length := by
    intro ht
    rw [t1] at ht
    obtain ⟨v, hv, h0, h1⟩ := ok.rjump (by
      rw [hcode]
      rcases ht with e | e
      · left; rw [b5.mp e]; rfl
      · right; rw [b6.mp e]; rfl)
    rw [List.size_toArray] at h1
    rw [i16At_eq, u16At_of_spec hv]
    generalize EofValidate.toI16 v = x at h0 h1 ⊢
    constructor <;> omega
  have f7 : eofTag (decode sec[i]) = 7 → ∀ k, k ≤ sec.getD (i + 1) 0 →
      0 ≤ ((i + (4 + 2 * sec.getD (i + 1) 0) : Nat) : Int) + i16At sec (i + 2 + 2 * k) ∧
      ((i + (4 + 2 * sec.getD (i + 1) 0) : Nat) : Int) + i16At sec (i + 2 + 2 * k) < sec.length := by
    intro ht k hk
    rw [t1] at ht
    obtain ⟨m, hm, hall⟩ := ok.rjumpv (by rw [hcode, b7.mp ht]; rfl)
    rw [getD_of_some hm] at hk ⊢
    obtain ⟨v, hv, h0, h1⟩ := hall k hk
    rw [List.size_toArray] at h1
    rw [i16At_eq, u16At_of_spec hv]
    generalize EofValidate.toI16 v = x at h0 h1 ⊢
    constructor <;> omega
  have f89 : eofTag (decode sec[i]) ≠ 8 ∧ eofTag (decode sec[i]) ≠ 9 := by
    obtain ⟨op, inf, h1, h2, h3⟩ := ok.known
    rw [hcode] at h1
    injection h1 with h1
    subst h1
    have hne : notEofOf sec[i] = false := by unfold notEofOf; rw [h2]; exact h3
    rw [t1]
    constructor
    · intro e; have := t89 (Or.inl e); rw [hne] at this; cases this
    · intro e; have := t89 (Or.inr e); rw [hne] at this; cases this
  rw [getD_of_lt hlt]
  generalize decode sec[i] = I at f12 f34 f56 f7 f89
  cases I
  case callf => exact f12 (Or.inl rfl)
  case jumpf => exact f12 (Or.inr rfl)
  case eofcreate => exact f34 (Or.inl rfl)
  case returnContract => exact f34 (Or.inr rfl)
  case rjump => exact f56 (Or.inl rfl)
  case rjumpi => exact f56 (Or.inr rfl)
  case rjumpv => exact f7 rfl
  case codesize => exact absurd rfl f89.1
  case codecopy => exact absurd rfl f89.2
  all_goals trivial

/-! ## a whole validated container -/

/-- the interpreter's view of a decoded container (`Bytecode::Eof(Arc<Eof>)`) -/
def ctxOf (e : Eof.Eof) : EofCtx :=
  { sections := e.body.codeSection
    types := e.body.typesSection.map fun t => (t.inputs, t.outputs, t.maxStackSize)
    data := e.body.dataSection
    dataSize := e.header.dataSize
    containers := e.body.containerSection }

/-- **C26 ⇒ the in-range half of C25's well-formedness.** For every container `validate_raw_eof_inner` accepts: at
least one section, as many types as sections, every byte a byte, and at every instruction boundary of every code
section `InRange`; every sub-container decodes. -/
theorem validated_inRange {bs : List Nat} {t : Option EofValidate.CodeType} {e : Eof.Eof} (hbs : Eof.IsBytes bs)
    (h : EofValidate.validateRawEofInner bs t = .ok e) :
    0 < (ctxOf e).sections.length ∧ (ctxOf e).types.length = (ctxOf e).sections.length ∧
    (ctxOf e).data.length ≤ Memory.ISIZE_MAX ∧
    (∀ (k : Nat) (sec : List Nat), (ctxOf e).sections[k]? = some sec →
      (∀ b ∈ sec, b < 256) ∧
      ∀ i ∈ boundaries sec, i < sec.length ∧ InRange (ctxOf e).types.length (ctxOf e).containers.length sec i) ∧
    (∀ sub ∈ (ctxOf e).containers, ∃ e', Eof.Eof.decode sub = .ok e') := by
  obtain ⟨hlen, hdec, _⟩ := Proofs.EofValidate.validateRaw_ok h
  have hdeep := Proofs.EofValidate.validateRaw_deep h
  obtain ⟨henc, _, _, _, hsz⟩ := Proofs.Eof.decode_ok hdec hbs
  cases hdeep with
  | mk _ hc hsub _ =>
    have htl : (ctxOf e).types.length = e.body.typesSection.length := List.length_map _
    refine ⟨hc.nonempty, by rw [htl]; exact hc.types_len, ?_, ?_, hsub⟩
    · show e.body.dataSection.length ≤ Memory.ISIZE_MAX
      have : e.body.dataSection.length ≤ 49152 := by omega
      exact Nat.le_trans this (by unfold Memory.ISIZE_MAX; omega)
    · intro k sec hk
      have hmem : sec ∈ e.body.codeSection := List.mem_of_getElem? hk
      have hbytes : ∀ b ∈ sec, b < 256 := by
        intro b hb
        have hb' : Eof.IsBytes e.encodeSlow := by rw [henc]; exact hbs
        unfold Eof.Eof.encodeSlow Eof.Body.encode at hb'
        apply hb'
        simp only [List.mem_append, List.mem_flatten]
        exact Or.inr (Or.inl (Or.inl (Or.inr ⟨sec, hmem, hb⟩)))
      refine ⟨hbytes, fun i hi => ?_⟩
      rw [htl]
      exact sectionOk_inRange hbytes (hc.sections k sec hk) hi

/-! ## conversely: every instruction start of C26's decoding is a boundary of C25's scan -/

theorem reach_scan {sec : List Nat} (hb : ∀ b ∈ sec, b < 256) {a b : Nat}
    (hr : Spec.Eof.Reach sec.toArray a b) (hlt : b < sec.length) :
    ∀ f, sec.length + 1 ≤ a + f → b ∈ scan sec f a := by
  induction hr with
  | refl i =>
    intro f hf
    cases f with
    | zero => omega
    | succ f => unfold scan; rw [if_pos hlt]; exact List.mem_cons_self ..
  | @step i j hi hr ih =>
    intro f hf
    rw [List.size_toArray] at hi
    cases f with
    | zero => omega
    | succ f =>
      unfold scan
      rw [if_pos hi]
      refine List.mem_cons_of_mem _ ?_
      by_cases hc : i + 1 < sec.length ∨ sec[i] ≠ 0xe2
      · rw [instrLen_eq hb hi hc]
        have e : i + (1 + Spec.Eof.immLen sec.toArray i) = i + 1 + Spec.Eof.immLen sec.toArray i := by omega
        rw [e]
        exact ih hlt f (by omega)
      · -- RJUMPV in the last byte: nothing is reachable behind it inside the section
        exfalso
        have hle := reach_le hr
        omega

theorem isInstrStart_boundary {sec : List Nat} (hb : ∀ b ∈ sec, b < 256) {i : Nat}
    (h : Spec.Eof.IsInstrStart sec.toArray i) : i ∈ boundaries sec := by
  have hlt : i < sec.length := by have := h.2; rw [List.size_toArray] at this; exact this
  exact reach_scan hb h.1 hlt _ (by omega)

end Revm.Proofs.Interp
