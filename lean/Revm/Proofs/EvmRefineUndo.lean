import Revm.Proofs.JournalRefs
/-! What `checkpoint_revert` keeps besides the observable state of C06: the domain of the state map, the code caches
(kept with their hash, or emptied), the touched mark of 0x03 from Spurious Dragon on, fork and pre-warmed set. -/
set_option linter.unusedSimpArgs false
namespace Revm.Proofs.EvmRefine
open Revm Revm.Model Revm.Model.Journal Revm.Spec.JournalAbs Revm.Proofs.Journal

/-- what the undo of journal entries does NOT do to an account: it does not leave the map, its code cache is kept with
the hash or emptied, and (from Spurious Dragon on) the touched mark of 0x03 stays -/
def KeepA (sd : Bool) (a : Addr) (x y : Acct) : Prop :=
  ((y.info.code = x.info.code ∧ y.info.codeHash = x.info.codeHash) ∨ y.info.code = none) ∧
  (sd = true → a = PRECOMPILE3 → y.touched = x.touched)

def Keeps (sd : Bool) (s s' : JState) : Prop :=
  ∀ a, match s.state a, s'.state a with
    | none, none => True
    | some x, some y => KeepA sd a x y
    | _, _ => False

theorem KeepA.refl (sd : Bool) (a : Addr) (x : Acct) : KeepA sd a x x := ⟨.inl ⟨rfl, rfl⟩, fun _ _ => rfl⟩

theorem KeepA.trans {sd : Bool} {a : Addr} {x y z : Acct} (h1 : KeepA sd a x y) (h2 : KeepA sd a y z) :
    KeepA sd a x z := by
  refine ⟨?_, fun hs ha => (h2.2 hs ha).trans (h1.2 hs ha)⟩
  rcases h2.1 with ⟨c2, d2⟩ | c2
  · rcases h1.1 with ⟨c1, d1⟩ | c1
    · exact .inl ⟨c2.trans c1, d2.trans d1⟩
    · exact .inr (c2.trans c1)
  · exact .inr c2

theorem Keeps.refl (sd : Bool) (s : JState) : Keeps sd s s := by
  intro a; cases s.state a with
  | none => trivial
  | some x => exact KeepA.refl sd a x

theorem Keeps.trans {sd : Bool} {s s1 s2 : JState} (h1 : Keeps sd s s1) (h2 : Keeps sd s1 s2) : Keeps sd s s2 := by
  intro a
  have a1 := h1 a; have a2 := h2 a
  cases hs : s.state a <;> cases hs1 : s1.state a <;> cases hs2 : s2.state a <;> simp only [hs, hs1, hs2] at a1 a2 ⊢
  all_goals first | trivial | exact a1.elim | exact a2.elim | exact KeepA.trans a1 a2

theorem Keeps.of_state_eq {sd : Bool} {s s' : JState} (h : s'.state = s.state) : Keeps sd s s' := by
  intro a; rw [h]; cases s.state a with
  | none => trivial
  | some x => exact KeepA.refl sd a x

/-- one `setAcct` on a present account that keeps what `KeepA` is about -/
theorem Keeps.setAcct {sd : Bool} {s : JState} {a : Addr} {x y : Acct} (hs : s.state a = some x)
    (h : KeepA sd a x y) : Keeps sd s (Journal.setAcct s a y) := by
  intro b
  by_cases hb : b = a
  · subst hb; simp only [hs, Journal.setAcct, if_true]; exact h
  · simp only [Journal.setAcct, hb, if_false]
    cases s.state b with
    | none => trivial
    | some z => exact KeepA.refl sd b z

theorem undoEntry_keeps {sd : Bool} {s s' : JState} {e : Entry} (h : undoEntry sd s e = some s') : Keeps sd s s' := by
  cases e <;> simp only [undoEntry, bind, Option.bind] at h
  case accountWarmed a =>
    cases hs : s.state a <;> simp [hs] at h
    subst h; exact Keeps.setAcct hs ⟨.inl ⟨rfl, rfl⟩, fun _ _ => rfl⟩
  case accountTouched a =>
    by_cases hc : sd = true ∧ a = PRECOMPILE3
    · simp [hc] at h; subst h; exact Keeps.refl _ _
    · simp only [hc, if_false] at h
      cases hs : s.state a <;> simp [hs] at h
      subst h
      exact Keeps.setAcct hs ⟨.inl ⟨rfl, rfl⟩, fun h1 h2 => absurd ⟨h1, h2⟩ hc⟩
  case accountDestroyed a t wd had =>
    cases hs : s.state a <;> simp [hs] at h
    rename_i acc
    have k1 : Keeps sd s (Journal.setAcct s a { acc with selfdestructed := wd, info := { acc.info with balance := U256.wadd acc.info.balance had } }) :=
      Keeps.setAcct hs ⟨.inl ⟨rfl, rfl⟩, fun _ _ => rfl⟩
    by_cases hat : a = t
    · simp [hat] at h; subst h; subst hat; exact k1
    · simp only [hat, ne_eq, not_false_eq_true, if_true] at h
      generalize hs1 : Journal.setAcct s a _ = s1 at h k1
      cases ht : s1.state t <;> simp [ht] at h
      subst h
      exact k1.trans (Keeps.setAcct ht ⟨.inl ⟨rfl, rfl⟩, fun _ _ => rfl⟩)
  case balanceTransfer src dst bal =>
    cases hs : s.state src <;> simp [hs] at h
    rename_i f
    have k1 : Keeps sd s (Journal.setAcct s src { f with info := { f.info with balance := U256.wadd f.info.balance bal } }) :=
      Keeps.setAcct hs ⟨.inl ⟨rfl, rfl⟩, fun _ _ => rfl⟩
    generalize hs1 : Journal.setAcct s src _ = s1 at h k1
    cases ht : s1.state dst <;> simp [ht] at h
    subst h
    exact k1.trans (Keeps.setAcct ht ⟨.inl ⟨rfl, rfl⟩, fun _ _ => rfl⟩)
  case nonceChange a =>
    cases hs : s.state a <;> simp [hs] at h
    subst h; exact Keeps.setAcct hs ⟨.inl ⟨rfl, rfl⟩, fun _ _ => rfl⟩
  case accountCreated a =>
    cases hs : s.state a <;> simp [hs] at h
    subst h; exact Keeps.setAcct hs ⟨.inl ⟨rfl, rfl⟩, fun _ _ => rfl⟩
  case storageChanged a k had =>
    cases hs : s.state a <;> simp [hs] at h
    rename_i acc
    cases hk : acc.storage k <;> simp [hk] at h
    subst h; exact Keeps.setAcct hs ⟨.inl ⟨rfl, rfl⟩, fun _ _ => rfl⟩
  case storageWarmed a k =>
    cases hs : s.state a <;> simp [hs] at h
    rename_i acc
    cases hk : acc.storage k <;> simp [hk] at h
    subst h; exact Keeps.setAcct hs ⟨.inl ⟨rfl, rfl⟩, fun _ _ => rfl⟩
  case transientChange a k had =>
    simp at h; subst h; exact Keeps.of_state_eq rfl
  case codeChange a =>
    cases hs : s.state a <;> simp [hs] at h
    subst h; exact Keeps.setAcct hs ⟨.inr rfl, fun _ _ => rfl⟩

theorem undoLevel_keeps {sd : Bool} (l : List Entry) {s s' : JState} (h : undoLevel sd s l = some s') : Keeps sd s s' := by
  induction l generalizing s with
  | nil => simp [undoLevel] at h; subst h; exact Keeps.refl _ _
  | cons e es ih =>
    simp only [undoLevel, bind, Option.bind] at h
    cases h1 : undoEntry sd s e with
    | none => simp [h1] at h
    | some s1 => simp only [h1] at h; exact (undoEntry_keeps h1).trans (ih h)

theorem undoLevels_keeps {sd : Bool} (ls : List (List Entry)) {s s' : JState} (h : undoLevels sd s ls = some s') :
    Keeps sd s s' := by
  induction ls generalizing s with
  | nil => simp [undoLevels] at h; subst h; exact Keeps.refl _ _
  | cons l rest ih =>
    simp only [undoLevels, bind, Option.bind] at h
    cases h1 : undoLevel sd s l with
    | none => simp [h1] at h
    | some s1 => simp only [h1] at h; exact (undoLevel_keeps l h1).trans (ih h)

theorem undoEntry_plain {sd : Bool} {s s' : JState} {e : Entry} (h : undoEntry sd s e = some s') :
    s'.spec = s.spec ∧ s'.preloaded = s.preloaded := by
  cases e <;> simp only [undoEntry, bind, Option.bind] at h
  case accountWarmed a => cases hs : s.state a <;> simp [hs] at h; subst h; exact ⟨rfl, rfl⟩
  case accountTouched a =>
    by_cases hc : sd = true ∧ a = PRECOMPILE3
    · simp [hc] at h; subst h; exact ⟨rfl, rfl⟩
    · simp only [hc, if_false] at h
      cases hs : s.state a <;> simp [hs] at h
      subst h; exact ⟨rfl, rfl⟩
  case accountDestroyed a t wd had =>
    cases hs : s.state a <;> simp [hs] at h
    by_cases hat : a = t
    · simp [hat] at h; subst h; exact ⟨rfl, rfl⟩
    · simp only [hat, ne_eq, not_false_eq_true, if_true] at h
      generalize hs1 : Journal.setAcct s a _ = s1 at h
      have e1 : s1.spec = s.spec ∧ s1.preloaded = s.preloaded := by rw [← hs1]; exact ⟨rfl, rfl⟩
      cases ht : s1.state t <;> simp [ht] at h
      subst h; exact e1
  case balanceTransfer src dst bal =>
    cases hs : s.state src <;> simp [hs] at h
    generalize hs1 : Journal.setAcct s src _ = s1 at h
    have e1 : s1.spec = s.spec ∧ s1.preloaded = s.preloaded := by rw [← hs1]; exact ⟨rfl, rfl⟩
    cases ht : s1.state dst <;> simp [ht] at h
    subst h; exact e1
  case nonceChange a => cases hs : s.state a <;> simp [hs] at h; subst h; exact ⟨rfl, rfl⟩
  case accountCreated a => cases hs : s.state a <;> simp [hs] at h; subst h; exact ⟨rfl, rfl⟩
  case storageChanged a k had =>
    cases hs : s.state a <;> simp [hs] at h
    rename_i acc
    cases hk : acc.storage k <;> simp [hk] at h
    subst h; exact ⟨rfl, rfl⟩
  case storageWarmed a k =>
    cases hs : s.state a <;> simp [hs] at h
    rename_i acc
    cases hk : acc.storage k <;> simp [hk] at h
    subst h; exact ⟨rfl, rfl⟩
  case transientChange a k had => simp at h; subst h; exact ⟨rfl, rfl⟩
  case codeChange a => cases hs : s.state a <;> simp [hs] at h; subst h; exact ⟨rfl, rfl⟩

theorem undoLevel_plain {sd : Bool} (l : List Entry) {s s' : JState} (h : undoLevel sd s l = some s') :
    s'.spec = s.spec ∧ s'.preloaded = s.preloaded := by
  induction l generalizing s with
  | nil => simp [undoLevel] at h; subst h; exact ⟨rfl, rfl⟩
  | cons e es ih =>
    simp only [undoLevel, bind, Option.bind] at h
    cases h1 : undoEntry sd s e with
    | none => simp [h1] at h
    | some s1 =>
      simp only [h1] at h
      have a := undoEntry_plain h1; have b := ih h
      exact ⟨b.1.trans a.1, b.2.trans a.2⟩

theorem undoLevels_plain {sd : Bool} (ls : List (List Entry)) {s s' : JState} (h : undoLevels sd s ls = some s') :
    s'.spec = s.spec ∧ s'.preloaded = s.preloaded := by
  induction ls generalizing s with
  | nil => simp [undoLevels] at h; subst h; exact ⟨rfl, rfl⟩
  | cons l rest ih =>
    simp only [undoLevels, bind, Option.bind] at h
    cases h1 : undoLevel sd s l with
    | none => simp [h1] at h
    | some s1 =>
      simp only [h1] at h
      have a := undoLevel_plain l h1; have b := ih h
      exact ⟨b.1.trans a.1, b.2.trans a.2⟩

/-- `checkpoint_revert`: the domain of the map, the code caches and the touched mark of 0x03, plus the plain fields -/
theorem revert_keeps {s s' : JState} {cp : Checkpoint} (h : Journal.revert s cp = some s') :
    Keeps (decide (s.spec ≥ SPURIOUS_DRAGON)) s s' ∧ s'.depth = decU64 s.depth ∧ s'.spec = s.spec ∧
    s'.preloaded = s.preloaded ∧ s'.journal = s.journal.drop (s.journal.length - cp.journalI) := by
  unfold Journal.revert at h
  by_cases hl : s.journal.length < cp.journalI
  · simp [hl] at h
  · simp only [hl, if_false] at h
    cases h1 : undoLevels (decide (s.spec ≥ SPURIOUS_DRAGON)) s (s.journal.take (s.journal.length - cp.journalI)) with
    | none => simp [h1] at h
    | some s1 =>
      simp only [h1, Option.some.injEq] at h
      subst h
      have k := undoLevels_keeps _ h1
      refine ⟨k.trans (Keeps.of_state_eq rfl), rfl, ?_, ?_, rfl⟩
      · exact (undoLevels_plain _ h1).1
      · exact (undoLevels_plain _ h1).2

end Revm.Proofs.EvmRefine
