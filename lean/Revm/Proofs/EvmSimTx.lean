import Revm.Proofs.EvmSim
import Revm.Spec.Evm
/-! The generic simulation lifted to whole transactions: validation, pre-execution, the frame loop, post-execution. -/
set_option linter.unusedSimpArgs false
namespace Revm.Proofs.EvmSim
open Revm Revm.Model Revm.Model.Evm

variable {κ1 κ2 : Type} {C1 : CpOps κ1} {C2 : CpOps κ2}

/-- the transaction-level obligations around the frame loop: validation, pre-execution and post-execution are the same
functions on both sides (they never open a subroutine) and have to respect `R` on the empty checkpoint stack -/
structure TxSim (C1 : CpOps κ1) (C2 : CpOps κ2) (e : Evm.Env) (spec : Nat) extends FrameSim C1 C2 (e.toCfg spec) where
  /-- the relation before pre-execution (it may say more than `R [] · [] ·`: nothing has been executed yet) -/
  R0 : World → World → Prop
  pre : ∀ w1 w2 o1, R0 w1 w2 → preverify w1 e spec = .ok o1 →
    ∃ o2, preverify w2 e spec = .ok o2 ∧
      (match o1, o2 with
       | none, none => True
       | some (w1', ig1, fg1), some (w2', ig2, fg2) => ig1 = ig2 ∧ fg1 = fg2 ∧ R0 w1' w2'
       | _, _ => False)
  load : ∀ w1 w2, R0 w1 w2 → R [] (loadAccounts e spec w1) [] (loadAccounts e spec w2)
  deduct : ∀ w1 w2 w1', R [] w1 [] w2 → deductCaller e spec w1 = .ok w1' →
    ∃ w2', deductCaller e spec w2 = .ok w2' ∧ R [] w1' [] w2'
  auth : ∀ w1 w2 w1' n, R [] w1 [] w2 → applyAuthList e spec w1 = .ok (w1', n) →
    ∃ w2', applyAuthList e spec w2 = .ok (w2', n) ∧ R [] w1' [] w2'
  fin : ∀ w1 w2 fg rf ic res r w1', R [] w1 [] w2 → finish e spec fg rf ic res w1 = .ok (r, w1') →
    ∃ w2', finish e spec fg rf ic res w2 = .ok (r, w2') ∧ R [] w1' [] w2'

theorem prepare_sim {e : Evm.Env} {spec : Nat} (T : TxSim C1 C2 e spec) (ig : Nat) (w1 w2 : World)
    (hR : T.R0 w1 w2) (x1 : FrameOrResult κ1 × World × Bool × Nat) (h : prepare C1 e spec ig w1 = .ok x1) :
    ∃ x2, prepare C2 e spec ig w2 = .ok x2 ∧ x1.2.2 = x2.2.2 ∧ ForRel T.R [] [] (x1.1, x1.2.1) (x2.1, x2.2.1) := by
  unfold prepare at h ⊢
  simp only [bind, Except.bind] at h ⊢
  have hl := T.load w1 w2 hR
  cases hd : deductCaller e spec (loadAccounts e spec w1) with
  | error err => rw [hd] at h; simp at h
  | ok wa1 =>
    rw [hd] at h
    obtain ⟨wa2, hd2, hRa⟩ := T.deduct _ _ wa1 hl hd
    rw [hd2]
    simp only at h ⊢
    cases ha : applyAuthList e spec wa1 with
    | error err => rw [ha] at h; simp at h
    | ok p =>
      obtain ⟨wb1, n⟩ := p
      rw [ha] at h
      obtain ⟨wb2, ha2, hRb⟩ := T.auth _ _ wb1 n hRa ha
      rw [ha2]
      simp only at h ⊢
      cases hto : e.tx.to with
      | some to =>
        rw [hto] at h
        simp only [bind, Except.bind] at h ⊢
        cases hm : makeCallFrame C1 (e.toCfg spec) wb1
            { input := e.tx.data, retStart := 0, retEnd := 0, gasLimit := U64ops.wsub e.tx.gasLimit ig,
              bytecodeAddress := to, targetAddress := to, caller := e.tx.caller, valueTransfer := true,
              value := e.tx.value, scheme := .call, isStatic := false, isEof := false } Memory.new with
        | error err => rw [hm] at h; simp at h
        | ok y1 =>
          rw [hm] at h
          obtain ⟨y2, hm2, hy⟩ := T.callFrame _ _ _ _ _ _ y1 hRb hm
          rw [hm2]
          simp only [pure, Except.pure, Except.ok.injEq] at h ⊢
          subst h
          exact ⟨_, rfl, rfl, hy⟩
      | none =>
        rw [hto] at h
        simp only [bind, Except.bind] at h ⊢
        cases hm : makeCreateFrame C1 (e.toCfg spec) wb1
            { caller := e.tx.caller, salt := none, value := e.tx.value, initCode := e.tx.data,
              gasLimit := U64ops.wsub e.tx.gasLimit ig } Memory.new with
        | error err => rw [hm] at h; simp at h
        | ok y1 =>
          rw [hm] at h
          obtain ⟨y2, hm2, hy⟩ := T.createFrame _ _ _ _ _ _ y1 hRb hm
          rw [hm2]
          simp only [pure, Except.pure, Except.ok.injEq] at h ⊢
          subst h
          exact ⟨_, rfl, rfl, hy⟩


theorem runFirst_sim {e : Evm.Env} {spec : Nat} (T : TxSim C1 C2 e spec) (fuel : Nat)
    (x1 : FrameOrResult κ1 × World) (x2 : FrameOrResult κ2 × World) (hx : ForRel T.R [] [] x1 x2)
    (res : Interp.ChildResult) (w1' : World) (h : runFirst C1 (e.toCfg spec) fuel x1.1 x1.2 = .ok (res, w1')) :
    ∃ w2', runFirst C2 (e.toCfg spec) fuel x2.1 x2.2 = .ok (res, w2') ∧ T.R [] w1' [] w2' := by
  obtain ⟨f1, w1⟩ := x1
  obtain ⟨f2, w2⟩ := x2
  cases f1 with
  | frame a =>
    cases f2 with
    | frame b =>
      simp only [ForRel] at hx
      unfold runFirst at h ⊢
      exact runLoop_sim T.toFrameSim fuel [a] [b] w1 w2 ⟨hx.1, trivial⟩ hx.2 res w1' h
    | result r => exact absurd hx (by simp [ForRel])
  | result r1 =>
    cases f2 with
    | frame b => exact absurd hx (by simp [ForRel])
    | result r2 =>
      simp only [ForRel] at hx
      unfold runFirst at h ⊢
      simp only [pure, Except.pure, Except.ok.injEq, Prod.mk.injEq] at h ⊢
      obtain ⟨h1, h2⟩ := h
      subst h1; subst h2
      exact ⟨w2, ⟨hx.1.symm, rfl⟩, hx.2⟩

theorem execute_sim {e : Evm.Env} {spec : Nat} (T : TxSim C1 C2 e spec) (fuel ig fg : Nat) (w1 w2 : World)
    (hR : T.R0 w1 w2) (r : TxResult) (w1' : World) (h : execute C1 fuel e spec ig fg w1 = .ok (r, w1')) :
    ∃ w2', execute C2 fuel e spec ig fg w2 = .ok (r, w2') ∧ T.R [] w1' [] w2' := by
  unfold execute at h ⊢
  simp only [bind, Except.bind] at h ⊢
  cases hp : prepare C1 e spec ig w1 with
  | error err => rw [hp] at h; simp at h
  | ok x1 =>
    rw [hp] at h
    obtain ⟨x2, hp2, heq, hx⟩ := prepare_sim T ig w1 w2 hR x1 hp
    rw [hp2]
    obtain ⟨f1, wa1, ic1, n1⟩ := x1
    obtain ⟨f2, wa2, ic2, n2⟩ := x2
    simp only [Prod.mk.injEq] at heq
    obtain ⟨hic, hn⟩ := heq
    subst hic; subst hn
    simp only at h ⊢
    cases hf : runFirst C1 (e.toCfg spec) fuel f1 wa1 with
    | error err => rw [hf] at h; simp at h
    | ok q =>
      obtain ⟨res, wb1⟩ := q
      rw [hf] at h
      obtain ⟨wb2, hf2, hRb⟩ := runFirst_sim T fuel (f1, wa1) (f2, wa2) hx res wb1 hf
      simp only at hf2
      rw [hf2]
      simp only at h ⊢
      exact T.fin _ _ _ _ _ _ _ _ hRb h

/-- worlds after a transaction: related when it was executed (a rejected transaction has no effect to speak of) -/
def OutRel (Rw : World → World → Prop) : Outcome → World → World → Prop
  | .rejected, _, _ => True
  | .executed _, a, b => Rw a b

/-- **the lifting**: a completed transaction of the first machine is a completed transaction of the second with the same
outcome (rejected, or executed with the same `TxResult`) and related final worlds -/
theorem transactWith_sim {e : Evm.Env} {spec : Nat} (T : TxSim C1 C2 e (GasCalc.canon spec)) (fuel : Nat)
    (w1 w2 : World) (hR : T.R0 w1 w2) (o : Outcome) (w1' : World)
    (h : transactWith C1 fuel w1 e spec = .ok (o, w1')) :
    ∃ w2', transactWith C2 fuel w2 e spec = .ok (o, w2') ∧ OutRel (fun a b => T.R [] a [] b) o w1' w2' := by
  unfold transactWith at h ⊢
  simp only [bind, Except.bind] at h ⊢
  cases hp : preverify w1 e (GasCalc.canon spec) with
  | error err => rw [hp] at h; simp at h
  | ok o1 =>
    rw [hp] at h
    obtain ⟨o2, hp2, ho⟩ := T.pre w1 w2 o1 hR hp
    rw [hp2]
    cases o1 with
    | none =>
      cases o2 with
      | none =>
        simp only [pure, Except.pure, Except.ok.injEq, Prod.mk.injEq] at h ⊢
        obtain ⟨h1, h2⟩ := h
        subst h1
        exact ⟨w2, ⟨rfl, rfl⟩, trivial⟩
      | some _ => exact absurd ho (by simp)
    | some p1 =>
      cases o2 with
      | none => exact absurd ho (by simp)
      | some p2 =>
        obtain ⟨wa1, ig1, fg1⟩ := p1
        obtain ⟨wa2, ig2, fg2⟩ := p2
        simp only at ho
        obtain ⟨hig, hfg, hRa⟩ := ho
        subst hig; subst hfg
        simp only at h ⊢
        cases he : execute C1 fuel e (GasCalc.canon spec) ig1 fg1 wa1 with
        | error err => rw [he] at h; simp at h
        | ok q =>
          obtain ⟨r, wb1⟩ := q
          rw [he] at h
          obtain ⟨wb2, he2, hRb⟩ := execute_sim T fuel ig1 fg1 wa1 wa2 hRa r wb1 he
          rw [he2]
          simp only [pure, Except.pure, Except.ok.injEq, Prod.mk.injEq] at h ⊢
          obtain ⟨h1, h2⟩ := h
          subst h1; subst h2
          exact ⟨wb2, ⟨rfl, rfl⟩, hRb⟩

end Revm.Proofs.EvmSim
