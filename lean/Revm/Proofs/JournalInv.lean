import Revm.Proofs.JournalOps3
/-! C06: the invariant of an open checkpoint over arbitrary admissible histories, and the revert theorem. -/
namespace Revm.Proofs.Journal
open Revm Revm.Model.Journal Revm.Spec.JournalAbs
set_option linter.unusedSimpArgs false
set_option linter.unusedVariables false

/-! ## journal levels above a checkpoint -/

theorem above_push (J : Nat) (es top : List Entry) (rest : List (List Entry)) (h : J < (top :: rest).length) :
    above J ((es ++ top) :: rest) = es ++ above J (top :: rest) := by
  unfold above
  simp only [List.length_cons] at *
  obtain ⟨n, hn⟩ : ∃ n, rest.length + 1 - J = n + 1 := ⟨rest.length - J, by omega⟩
  rw [hn]; simp [List.take_succ_cons]

theorem above_checkpoint (J : Nat) (j : List (List Entry)) (h : J ≤ j.length) :
    above J ([] :: j) = above J j := by
  unfold above
  simp only [List.length_cons]
  have : j.length + 1 - J = (j.length - J) + 1 := by omega
  rw [this]; simp [List.take_succ_cons]

theorem above_new_level (J : Nat) (es : List Entry) (j : List (List Entry)) (h : J ≤ j.length) :
    above J (es :: j) = es ++ above J j := by
  unfold above
  simp only [List.length_cons]
  have : j.length + 1 - J = (j.length - J) + 1 := by omega
  rw [this]; simp [List.take_succ_cons]

theorem above_split (J c : Nat) (j : List (List Entry)) (h1 : J ≤ c) (h2 : c ≤ j.length) :
    above J j = above c j ++ above J (j.drop (j.length - c)) := by
  unfold above
  have hl : (j.drop (j.length - c)).length = c := by simp; omega
  rw [hl, ← List.flatten_append]
  congr 1
  have : j.length - J = (j.length - c) + (c - J) := by omega
  rw [this, List.take_add]

theorem above_self (j : List (List Entry)) : above j.length j = [] := by simp [above]

/-! ## abstract undo keeps balances in range -/

theorem undoT_balOk (sd : Bool) (x : AState) (e : Entry) (h : BalOk x) : BalOk (undoT sd x e) := by
  cases e with
  | accountDestroyed a t was had =>
    intro b; simp only [undoT]
    by_cases hat : a ≠ t
    · simp only [hat, ne_eq, not_false_eq_true, if_true]
      by_cases hb : b = t
      · subst hb; simp only [upd_same]; apply bsub_lt
        by_cases hba : b = a
        · subst hba; simp only [upd_same]; exact wadd_lt _ _
        · rw [upd_ne' hba]; exact h b
      · rw [upd_ne' hb]
        by_cases hba : b = a
        · subst hba; simp only [upd_same]; exact wadd_lt _ _
        · rw [upd_ne' hba]; exact h b
    · simp only [hat, if_false]
      by_cases hba : b = a
      · subst hba; simp only [upd_same]; exact wadd_lt _ _
      · rw [upd_ne' hba]; exact h b
  | balanceTransfer a t had =>
    intro b; simp only [undoT]
    by_cases hb : b = t
    · subst hb; simp only [upd_same]; apply bsub_lt
      by_cases hba : b = a
      · subst hba; simp only [upd_same]; exact wadd_lt _ _
      · rw [upd_ne' hba]; exact h b
    · rw [upd_ne' hb]
      by_cases hba : b = a
      · subst hba; simp only [upd_same]; exact wadd_lt _ _
      · rw [upd_ne' hba]; exact h b
  | _ => exact h

theorem undoTs_balOk (sd : Bool) (es : List Entry) (x : AState) (h : BalOk x) : BalOk (undoTs sd x es) := by
  induction es generalizing x with
  | nil => exact h
  | cons e es ih => exact ih _ (undoT_balOk sd x e h)


/-! ## the invariant of an open checkpoint -/

/-- `J`, `L`: journal length and log count when the checkpoint was taken; `x0`, `logs0`: the observable
state and the logs at that moment; `base`: index of the first checkpoint handed out after it -/
structure Inv (db : Db) (J L : Nat) (x0 : AState) (logs0 : List Nat) (spec0 : Nat) (pre0 : Addr → Bool)
    (base : Nat) (r : Run) : Prop where
  len : J < r.js.journal.length
  spec : r.js.spec = spec0
  pre : r.js.preloaded = pre0
  logs : r.js.logs.take L = logs0
  logsLen : L ≤ r.js.logs.length
  undo : undoTs (sdOf r.js) (absT db r.js) (above J r.js.journal) = x0
  zero : ∀ a, Entry.accountCreated a ∈ above J r.js.journal → ∀ k, db.storage a k = 0
  bal : BalOk (absT db r.js)
  cps : ∀ i cp, base ≤ i → r.cps[i]? = some cp → J < cp.journalI ∧ L ≤ cp.logI

variable {db : Db} {J L : Nat} {x0 : AState} {logs0 : List Nat} {spec0 : Nat} {pre0 : Addr → Bool} {base : Nat}

theorem Inv.of_pushes {r : Run} {js' : JState} {es : List Entry}
    (h : Inv db J L x0 logs0 spec0 pre0 base r) (p : Pushes db r.js js' es) :
    Inv db J L x0 logs0 spec0 pre0 base { r with js := js' } := by
  obtain ⟨top, rest, hj⟩ : ∃ top rest, r.js.journal = top :: rest := by
    cases hj : r.js.journal with
    | nil => have := h.len; simp [hj] at this
    | cons t r => exact ⟨t, r, rfl⟩
  have hj' := p.journal top rest hj
  have hl : J < (top :: rest).length := by rw [← hj]; exact h.len
  have hab : above J js'.journal = es ++ above J r.js.journal := by rw [hj', hj]; exact above_push J es top rest hl
  refine ⟨?_, p.spec.trans h.spec, p.pre.trans h.pre, ?_, ?_, ?_, ?_, p.bal h.bal, h.cps⟩
  · show J < js'.journal.length
    rw [hj']; simpa using hl
  · show js'.logs.take L = logs0
    rw [p.logs]; exact h.logs
  · show L ≤ js'.logs.length
    rw [p.logs]; exact h.logsLen
  · show undoTs (sdOf js') (absT db js') (above J js'.journal) = x0
    rw [hab, undoTs_append, sdOf_eq p.spec, p.undo]; exact h.undo
  · intro a ha
    change Entry.accountCreated a ∈ above J js'.journal at ha
    rw [hab] at ha
    rcases List.mem_append.1 ha with h1 | h1
    · exact p.zero a h1
    · exact h.zero a h1

/-- a step that changes neither the observable state nor the journal entries above the checkpoint -/
theorem Inv.of_same {r r' : Run} (h : Inv db J L x0 logs0 spec0 pre0 base r)
    (h1 : r'.js.state = r.js.state) (h2 : r'.js.spec = r.js.spec) (h3 : r'.js.preloaded = r.js.preloaded)
    (h4 : r'.js.transient = r.js.transient) (h5 : r'.js.logs = r.js.logs) (h6 : r'.js.journal = r.js.journal)
    (h7 : r'.cps = r.cps) : Inv db J L x0 logs0 spec0 pre0 base r' := by
  have e := absT_congr db h1 h2 h3 h4
  refine ⟨by rw [h6]; exact h.len, h2.trans h.spec, h3.trans h.pre, by rw [h5]; exact h.logs,
    by rw [h5]; exact h.logsLen, by rw [h6, e, sdOf_eq h2]; exact h.undo, by rw [h6]; exact h.zero,
    by rw [e]; exact h.bal, by rw [h7]; exact h.cps⟩

theorem Inv.checkpoint {r : Run} (h : Inv db J L x0 logs0 spec0 pre0 base r) :
    Inv db J L x0 logs0 spec0 pre0 base { js := (checkpoint r.js).1, cps := r.cps ++ [(checkpoint r.js).2] } := by
  have hle : J ≤ r.js.journal.length := Nat.le_of_lt h.len
  refine ⟨?_, h.spec, h.pre, h.logs, h.logsLen, ?_, ?_, h.bal, ?_⟩
  · show J < ([] :: r.js.journal).length
    simp; omega
  · show undoTs (sdOf r.js) (absT db r.js) (above J ([] :: r.js.journal)) = x0
    rw [above_checkpoint J _ hle]; exact h.undo
  · intro a ha
    change Entry.accountCreated a ∈ above J ([] :: r.js.journal) at ha
    rw [above_checkpoint J _ hle] at ha; exact h.zero a ha
  · intro i cp hi hcp
    simp only at hcp
    by_cases hlt : i < r.cps.length
    · rw [List.getElem?_append_left hlt] at hcp; exact h.cps i cp hi hcp
    · rw [List.getElem?_append_right (Nat.le_of_not_lt hlt)] at hcp
      cases hk : i - r.cps.length with
      | zero =>
        rw [hk] at hcp; simp at hcp; subst hcp
        exact ⟨h.len, h.logsLen⟩
      | succ n => rw [hk] at hcp; simp at hcp


theorem Inv.revert {r : Run} {cp : Checkpoint} {js' : JState} (h : Inv db J L x0 logs0 spec0 pre0 base r)
    (hJ : J < cp.journalI) (hL : L ≤ cp.logI) (hr : revert r.js cp = some js') :
    Inv db J L x0 logs0 spec0 pre0 base { r with js := js' } := by
  have hle : cp.journalI ≤ r.js.journal.length := by
    unfold Model.Journal.revert at hr
    by_cases hl : r.js.journal.length < cp.journalI
    · simp [hl] at hr
    · exact Nat.le_of_not_lt hl
  have hsplit := above_split J cp.journalI r.js.journal (Nat.le_of_lt hJ) hle
  obtain ⟨_, r2, r3, r4, r5, r6⟩ := revert_abs db r.js js' cp hr
    (fun a ha => h.zero a (by rw [hsplit]; exact List.mem_append_left _ ha))
  have hu : undoTs (sdOf js') (absT db js') (above J js'.journal) = x0 := by
    rw [r2, r5, sdOf_eq r3, ← undoTs_append, ← hsplit]; exact h.undo
  refine ⟨?_, r3.trans h.spec, r4.trans h.pre, ?_, ?_, hu, ?_, ?_, h.cps⟩
  · show J < js'.journal.length
    rw [r5]; simp; omega
  · show js'.logs.take L = logs0
    rw [r6, List.take_take, Nat.min_eq_left hL]; exact h.logs
  · show L ≤ js'.logs.length
    rw [r6, List.length_take]; exact Nat.le_min.2 ⟨hL, h.logsLen⟩
  · intro a ha
    change Entry.accountCreated a ∈ above J js'.journal at ha
    rw [r5] at ha
    exact h.zero a (by rw [hsplit]; exact List.mem_append_right _ ha)
  · show BalOk (absT db js')
    rw [r2]; exact undoTs_balOk _ _ _ h.bal




theorem inv_step {hasStorage : Addr → Bool} (hdb : DbOk db hasStorage) {r r' : Run} {op : Op}
    (h : Inv db J L x0 logs0 spec0 pre0 base r)
    (hadm : admissible db hasStorage base r op = true) (hs : step db r op = some r') :
    Inv db J L x0 logs0 spec0 pre0 base r' := by
  cases op with
  | load a =>
    simp only [step, Option.map_eq_some_iff] at hs
    obtain ⟨⟨js', c⟩, h1, rfl⟩ := hs
    exact h.of_pushes (loadAccount_pushes h1).1
  | loadCode a =>
    simp only [step, Option.map_eq_some_iff] at hs
    obtain ⟨⟨js', c⟩, h1, rfl⟩ := hs
    exact h.of_pushes (loadCode_pushes h1).1
  | loadDelegated a =>
    simp only [step, Option.map_eq_some_iff] at hs
    obtain ⟨⟨js', e, c, d⟩, h1, rfl⟩ := hs
    obtain ⟨⟨es, p⟩, _⟩ := loadAccountDelegated_pushes (db := db) h1
    exact h.of_pushes p
  | initLoad a ks => simp [admissible] at hadm
  | touch a =>
    simp only [step, Option.map_eq_some_iff] at hs
    obtain ⟨js', h1, rfl⟩ := hs
    obtain ⟨es, p, _⟩ := touch_pushes (db := db) h1
    exact h.of_pushes p
  | transfer f t v =>
    simp only [step, Option.map_eq_some_iff] at hs
    obtain ⟨⟨js', e⟩, h1, rfl⟩ := hs
    obtain ⟨⟨es, p⟩, _⟩ := transfer_pushes (db := db) h.bal h1
    exact h.of_pushes p
  | incNonce a =>
    simp only [step, Option.map_eq_some_iff] at hs
    obtain ⟨⟨js', e⟩, h1, rfl⟩ := hs
    obtain ⟨es, p, _⟩ := incNonce_pushes (db := db) h1
    exact h.of_pushes p
  | setCode a hash =>
    simp only [step, Option.map_eq_some_iff] at hs
    obtain ⟨js', h1, rfl⟩ := hs
    have hk : ∀ acc, r.js.state a = some acc → acc.info.codeHash = KECCAK_EMPTY := by
      intro acc hacc; simp [admissible, hacc] at hadm; exact hadm
    obtain ⟨es, p, _⟩ := setCode_pushes (db := db) hk h1
    exact h.of_pushes p
  | sload a k =>
    simp only [step, Option.map_eq_some_iff] at hs
    obtain ⟨⟨js', v, c⟩, h1, rfl⟩ := hs
    exact h.of_pushes (sload_pushes h1).1
  | sstore a k v =>
    simp only [step, Option.map_eq_some_iff] at hs
    obtain ⟨⟨js', o, p, n, c⟩, h1, rfl⟩ := hs
    obtain ⟨⟨es, p⟩, _⟩ := sstore_pushes (db := db) h1
    exact h.of_pushes p
  | tload a k => simp [step] at hs; subst hs; exact h
  | tstore a k v =>
    simp only [step, Option.map_eq_some_iff] at hs
    obtain ⟨js', h1, rfl⟩ := hs
    obtain ⟨es, p, _⟩ := tstore_pushes (db := db) h1
    exact h.of_pushes p
  | log l =>
    simp [step] at hs; subst hs
    have hl : (Model.Journal.log r.js l).logs = r.js.logs ++ [l] := rfl
    have e : absT db (Model.Journal.log r.js l) = absT db r.js := absT_congr db rfl rfl rfl rfl
    refine ⟨h.len, h.spec, h.pre, ?_, ?_, ?_, h.zero, ?_, h.cps⟩
    · show (Model.Journal.log r.js l).logs.take L = logs0
      rw [hl, List.take_append_of_le_length h.logsLen]; exact h.logs
    · show L ≤ (Model.Journal.log r.js l).logs.length
      rw [hl]; simp; have := h.logsLen; omega
    · show undoTs (sdOf r.js) (absT db (Model.Journal.log r.js l)) (above J r.js.journal) = x0
      rw [e]; exact h.undo
    · show BalOk (absT db (Model.Journal.log r.js l))
      rw [e]; exact h.bal
  | selfdestruct a t =>
    simp only [step, Option.map_eq_some_iff] at hs
    obtain ⟨⟨js', x⟩, h1, rfl⟩ := hs
    obtain ⟨⟨es, p⟩, _⟩ := selfdestruct_pushes (db := db) h.bal h1
    exact h.of_pushes p
  | create c a hst bal spec =>
    simp only [step] at hs
    simp only [admissible, Bool.and_eq_true, Bool.or_eq_true, Bool.not_eq_true'] at hadm
    obtain ⟨⟨ha1, ha2⟩, ha3⟩ := hadm
    have hcr : ∀ acc, r.js.state a = some acc → acc.created = false := by
      intro acc hacc; simp [hacc] at ha1; exact ha1
    have hcal : ∀ acc, r.js.state c = some acc → bal ≤ acc.info.balance := by
      intro acc hacc; simp [hacc] at ha3; exact ha3
    cases hc : createAccountCheckpoint r.js c a hst bal spec with
    | none => simp [hc] at hs
    | some res =>
      obtain ⟨js', out⟩ := res
      have hp := create_pushes hdb h.bal hcr ha2 hcal hc
      cases out with
      | error e =>
        simp [hc] at hs; subst hs
        exact h.of_pushes hp
      | ok cp =>
        simp [hc] at hs; subst hs
        obtain ⟨rfl, es, p, _⟩ := hp
        exact (h.checkpoint).of_pushes p
  | checkpoint =>
    simp [step] at hs; subst hs
    exact h.checkpoint
  | commit =>
    simp [step] at hs; subst hs
    exact h.of_same rfl rfl rfl rfl rfl rfl rfl
  | revert i =>
    simp only [step] at hs
    simp only [admissible, decide_eq_true_eq] at hadm
    cases hcp : r.cps[i]? with
    | none => simp [hcp] at hs
    | some cp =>
      simp only [hcp, Option.map_eq_some_iff] at hs
      obtain ⟨js', h1, rfl⟩ := hs
      obtain ⟨hJ, hL⟩ := h.cps i cp hadm hcp
      exact h.revert hJ hL h1


theorem inv_run {hasStorage : Addr → Bool} (hdb : DbOk db hasStorage) (ops : List Op) {r r' : Run}
    (h : Inv db J L x0 logs0 spec0 pre0 base r)
    (hadm : admissibleRun db hasStorage base r ops = true) (hr : run db r ops = some r') :
    Inv db J L x0 logs0 spec0 pre0 base r' := by
  induction ops generalizing r with
  | nil => simp [run] at hr; subst hr; exact h
  | cons op ops ih =>
    simp only [run] at hr
    simp only [admissibleRun, Bool.and_eq_true] at hadm
    cases hs : Spec.JournalAbs.step db r op with
    | none => simp [hs] at hr
    | some r1 =>
      simp only [hs] at hr hadm
      exact ih (inv_step hdb h hadm.1 hs) hadm.2 hr

/-- only `checkpoint` and a successful `create` hand out a checkpoint; nothing removes one -/
theorem step_cps {r r' : Run} {op : Op} (hs : Spec.JournalAbs.step db r op = some r') :
    r'.cps = r.cps ∨ ((op = .checkpoint ∨ ∃ c a hst bal spec, op = .create c a hst bal spec) ∧
      ∃ cp, r'.cps = r.cps ++ [cp]) := by
  cases op <;> simp only [Spec.JournalAbs.step, Option.map_eq_some_iff] at hs
  case create c a hst bal spec =>
    split at hs
    · simp at hs; subst hs; exact Or.inr ⟨Or.inr ⟨_, _, _, _, _, rfl⟩, _, rfl⟩
    · simp at hs; subst hs; exact Or.inl rfl
    · simp at hs
  case checkpoint => simp at hs; subst hs; exact Or.inr ⟨Or.inl rfl, _, rfl⟩
  case revert i =>
    split at hs
    · simp at hs; obtain ⟨_, _, rfl⟩ := hs; exact Or.inl rfl
    · simp at hs
  all_goals first
    | (obtain ⟨_, _, rfl⟩ := hs; exact Or.inl rfl)
    | (simp at hs; subst hs; exact Or.inl rfl)

theorem step_cps_prefix {r r' : Run} {op : Op} (hs : Spec.JournalAbs.step db r op = some r') :
    ∃ t, r'.cps = r.cps ++ t := by
  rcases step_cps hs with h | ⟨_, cp, h⟩
  · exact ⟨[], by simp [h]⟩
  · exact ⟨[cp], h⟩

theorem run_cps_prefix (ops : List Op) {r r' : Run} (hr : run db r ops = some r') : ∃ t, r'.cps = r.cps ++ t := by
  induction ops generalizing r with
  | nil => simp [run] at hr; subst hr; exact ⟨[], by simp⟩
  | cons op ops ih =>
    simp only [run] at hr
    cases hs : Spec.JournalAbs.step db r op with
    | none => simp [hs] at hr
    | some r1 =>
      simp only [hs] at hr
      obtain ⟨t1, h1⟩ := step_cps_prefix hs
      obtain ⟨t2, h2⟩ := ih hr
      exact ⟨t1 ++ t2, by rw [h2, h1, List.append_assoc]⟩

/-- the invariant right after the step that hands out the checkpoint -/
theorem inv_init {hasStorage : Addr → Bool} (hdb : DbOk db hasStorage) {rpre r0 : Run} {op : Op} {cp : Checkpoint}
    (hbal : BalOk (absT db rpre.js))
    (hadm : admissible db hasStorage 0 rpre op = true)
    (hs : Spec.JournalAbs.step db rpre op = some r0) (hcp : r0.cps = rpre.cps ++ [cp]) :
    cp = (checkpoint rpre.js).2 ∧
    Inv db rpre.js.journal.length rpre.js.logs.length (absT db rpre.js) rpre.js.logs rpre.js.spec
      rpre.js.preloaded (rpre.cps.length + 1) r0 := by
  have base : Inv db rpre.js.journal.length rpre.js.logs.length (absT db rpre.js) rpre.js.logs rpre.js.spec
      rpre.js.preloaded (rpre.cps.length + 1)
      { js := (checkpoint rpre.js).1, cps := rpre.cps ++ [(checkpoint rpre.js).2] } := by
    refine ⟨?_, rfl, rfl, ?_, ?_, ?_, ?_, hbal, ?_⟩
    · show _ < ([] :: rpre.js.journal).length
      simp
    · show rpre.js.logs.take rpre.js.logs.length = rpre.js.logs
      simp
    · exact Nat.le_refl _
    · show undoTs _ (absT db rpre.js) (above rpre.js.journal.length ([] :: rpre.js.journal)) = _
      rw [above_checkpoint _ _ (Nat.le_refl _), above_self]; rfl
    · intro a ha
      change _ ∈ above rpre.js.journal.length ([] :: rpre.js.journal) at ha
      rw [above_checkpoint _ _ (Nat.le_refl _), above_self] at ha; simp at ha
    · intro i c hi hc
      simp only at hc
      rw [List.getElem?_eq_none (by simp; omega)] at hc; simp at hc
  have noCp : ∀ (r' : Run), r'.cps = rpre.cps → r'.cps = rpre.cps ++ [cp] → False := by
    intro r' h1 h2; rw [h1] at h2
    have := congrArg List.length h2; simp at this
  cases op with
  | checkpoint =>
    simp [Spec.JournalAbs.step] at hs; subst hs
    simp at hcp; subst hcp
    exact ⟨rfl, base⟩
  | create c a hst bal spec =>
    simp only [Spec.JournalAbs.step] at hs
    simp only [admissible, Bool.and_eq_true, Bool.or_eq_true, Bool.not_eq_true'] at hadm
    obtain ⟨⟨ha1, ha2⟩, ha3⟩ := hadm
    have hcr : ∀ acc, rpre.js.state a = some acc → acc.created = false := by
      intro acc hacc; simp [hacc] at ha1; exact ha1
    have hcal : ∀ acc, rpre.js.state c = some acc → bal ≤ acc.info.balance := by
      intro acc hacc; simp [hacc] at ha3; exact ha3
    cases hc : createAccountCheckpoint rpre.js c a hst bal spec with
    | none => simp [hc] at hs
    | some res =>
      obtain ⟨js', out⟩ := res
      have hp := create_pushes hdb hbal hcr ha2 hcal hc
      cases out with
      | error e => simp [hc] at hs; subst hs; exact absurd hcp (fun h => noCp _ rfl h)
      | ok cp' =>
        simp [hc] at hs; subst hs
        obtain ⟨rfl, es, p, _⟩ := hp
        simp at hcp; subst hcp
        exact ⟨rfl, base.of_pushes p⟩
  | _ =>
    rcases step_cps hs with h | ⟨h, _⟩
    · exact absurd hcp (fun h' => noCp _ h h')
    · rcases h with h | ⟨_, _, _, _, _, h⟩ <;> cases h


/-- **C06.** Take a checkpoint (`checkpoint` or a successful `create_account_checkpoint`) in a state whose
balances are 256-bit words, run any admissible history (nested checkpoints, commits, reverts of inner
checkpoints included), then revert to the checkpoint: every observable is as it was. -/
theorem revert_restores_core {hasStorage : Addr → Bool} (hdb : DbOk db hasStorage) {rpre r0 r : Run} {op : Op}
    {cp : Checkpoint} {ops : List Op} {s' : JState}
    (hbal : BalOk (absT db rpre.js))
    (hadm0 : admissible db hasStorage 0 rpre op = true)
    (hs : Spec.JournalAbs.step db rpre op = some r0) (hcp : r0.cps = rpre.cps ++ [cp])
    (hadm : admissibleRun db hasStorage (rpre.cps.length + 1) r0 ops = true)
    (hr : run db r0 ops = some r)
    (hrev : Model.Journal.revert r.js cp = some s') : AbsEq db s' rpre.js := by
  obtain ⟨hcpe, i0⟩ := inv_init hdb hbal hadm0 hs hcp
  have i := inv_run hdb ops i0 hadm hr
  have hJ : cp.journalI = rpre.js.journal.length := by rw [hcpe]; rfl
  have hL : cp.logI = rpre.js.logs.length := by rw [hcpe]; rfl
  obtain ⟨_, r2, r3, r4, r5, r6⟩ := revert_abs db r.js s' cp hrev (by rw [hJ]; exact i.zero)
  refine absEq_of_absT ?_ ?_
  · have e : absT db s' = absT db rpre.js := by rw [r2, hJ]; exact i.undo
    exact e
  · rw [r6, hL]; exact i.logs


end Revm.Proofs.Journal
