import Revm.Spec.Backend
/-! Proofs for C24 (core Lean only). -/
namespace Revm.Proofs.Backend
open Revm.Model.Backend Revm.Spec.Backend

section group
variable {C : Curve} (L : CurveLaws C)
include L

theorem zero_add (a : C.Pt) : C.add C.zero a = a := by rw [L.add_comm, L.add_zero]
theorem neg_add_self (a : C.Pt) : C.add (C.neg a) a = C.zero := by rw [L.add_comm, L.add_neg]
theorem add_left_comm (a b c : C.Pt) : C.add a (C.add b c) = C.add b (C.add a c) := by
  rw [← L.add_assoc, L.add_comm a b, L.add_assoc]
theorem neg_unique (a b : C.Pt) (h : C.add a b = C.zero) : b = C.neg a := by
  have h2 : C.add (C.neg a) (C.add a b) = C.neg a := by rw [h, L.add_zero]
  rw [← L.add_assoc, neg_add_self L, zero_add L] at h2
  exact h2
theorem neg_neg (a : C.Pt) : C.neg (C.neg a) = a :=
  (neg_unique L (C.neg a) a (neg_add_self L a)).symm
theorem add_neg_cancel_left (a b : C.Pt) : C.add a (C.add (C.neg a) b) = b := by
  rw [← L.add_assoc, L.add_neg, zero_add L]

omit L in
theorem smul_succ (k : Nat) (Q : C.Pt) : smul C (k + 1) Q = C.add (smul C k Q) Q := rfl
omit L in
theorem smul_zero (Q : C.Pt) : smul C 0 Q = C.zero := rfl
theorem smul_one (Q : C.Pt) : smul C 1 Q = Q := by
  show C.add C.zero Q = Q
  exact zero_add L Q
theorem smul_add (a b : Nat) (Q : C.Pt) : smul C (a + b) Q = C.add (smul C a Q) (smul C b Q) := by
  induction b with
  | zero => rw [Nat.add_zero, smul_zero, L.add_zero]
  | succ k ih => rw [← Nat.add_assoc, smul_succ, ih, smul_succ, L.add_assoc]
theorem smul_zero_pt (k : Nat) : smul C k C.zero = C.zero := by
  induction k with
  | zero => rfl
  | succ k ih => rw [smul_succ, ih, L.add_zero]
theorem smul_add_pt (k : Nat) (a b : C.Pt) :
    smul C k (C.add a b) = C.add (smul C k a) (smul C k b) := by
  induction k with
  | zero => rw [smul_zero, smul_zero, smul_zero, L.add_zero]
  | succ k ih =>
    rw [smul_succ, smul_succ, smul_succ, ih, L.add_assoc, L.add_assoc]
    congr 1
    exact add_left_comm L _ _ _
theorem smul_mul (a b : Nat) (Q : C.Pt) : smul C (a * b) Q = smul C a (smul C b Q) := by
  induction a with
  | zero => rw [Nat.zero_mul, smul_zero, smul_zero]
  | succ k ih => rw [Nat.succ_mul, smul_add L, ih, smul_succ]
theorem smul_mod (a : Nat) (Q : C.Pt) : smul C (a % C.n) Q = smul C a Q := by
  have h : smul C a Q = smul C (C.n * (a / C.n) + a % C.n) Q := by rw [Nat.div_add_mod]
  rw [h, smul_add L, smul_mul L, L.order, zero_add L]
theorem smul_of_mod_one (k : Nat) (Q : C.Pt) (h : k % C.n = 1) : smul C k Q = Q := by
  rw [← smul_mod L, h, smul_one L]
theorem smul_negModN (a : Nat) (Q : C.Pt) : smul C (negModN C a) Q = C.neg (smul C a Q) := by
  apply neg_unique L
  unfold negModN
  rw [smul_mod L, ← smul_mod L a, ← smul_add L]
  have hlt : a % C.n < C.n := Nat.mod_lt a (Nat.lt_trans Nat.zero_lt_one L.n_gt_one)
  have : a % C.n + (C.n - a % C.n) = C.n := by omega
  rw [this, L.order]
theorem smul_neg_pt (k : Nat) (Q : C.Pt) : smul C k (C.neg Q) = C.neg (smul C k Q) := by
  apply neg_unique L
  rw [← smul_add_pt L, L.add_neg, smul_zero_pt L]

/-- malleability at the level of the scalar products: `[r^-1 (n-s)](-R) = [r^-1 s]R` -/
theorem smul_malleable (rinv s : Nat) (R : C.Pt) :
    smul C (rinv * negModN C s % C.n) (C.neg R) = smul C (rinv * s % C.n) R := by
  rw [smul_mod L, smul_mod L, smul_mul L, smul_mul L, smul_negModN L, smul_neg_pt L s R, neg_neg L]

/-- the ECDSA verification equation holds on every recovered key:
`[z s^-1]G + [r s^-1]([-(r^-1 z)]G + [r^-1 s]R) = R` -/
theorem verify_point (z r s : Nat) (R : C.Pt) (hr0 : 0 < r) (hr : r < C.n) (hs0 : 0 < s) (hs : s < C.n) :
    C.add (smul C (z * C.inv s % C.n) C.G)
      (smul C (r * C.inv s % C.n)
        (C.add (smul C (negModN C (C.inv r * z % C.n)) C.G) (smul C (C.inv r * s % C.n) R))) = R := by
  have hri := L.inv_mul r hr0 hr
  have hsi := L.inv_mul s hs0 hs
  rw [smul_mod L (z * C.inv s), smul_mod L (r * C.inv s), smul_add_pt L, smul_negModN L,
    smul_mod L (C.inv r * z), smul_mod L (C.inv r * s), smul_neg_pt L, ← smul_mul L, ← smul_mul L]
  have e1 : r * C.inv s * (C.inv r * z) = (r * C.inv r) * (z * C.inv s) := by ac_rfl
  have e2 : r * C.inv s * (C.inv r * s) = (r * C.inv r) * (s * C.inv s) := by ac_rfl
  rw [e1, e2, smul_mul L (r * C.inv r), smul_mul L (r * C.inv r), smul_of_mod_one L _ _ hri,
    smul_of_mod_one L _ _ hri, smul_of_mod_one L _ _ hsi]
  exact add_neg_cancel_left L _ _


omit L in
theorem isOdd_xor (recid : Nat) (h : recid < 2) : isOdd (recid ^^^ 1) = !isOdd recid := by
  have h2 : recid = 0 ∨ recid = 1 := by omega
  rcases h2 with rfl | rfl <;> decide

omit L in
theorem negModN_of_pos (s : Nat) (hs0 : 0 < s) (hs : s < C.n) : negModN C s = C.n - s := by
  unfold negModN
  rw [Nat.mod_eq_of_lt hs, Nat.mod_eq_of_lt (by omega)]

/-- the tail of the k256 path after decompression, for an already normalised `s'` -/
theorem k256_tail (z r s' : Nat) (R : C.Pt) (b : Bool) (hl : C.lift r b = some R)
    (hr0 : 0 < r) (hr : r < C.n) (hs0 : 0 < s') (hs : s' < C.n) (hlow : ¬ s' > C.n / 2) :
    (let pk := C.add (smul C (negModN C (C.inv r * (z % C.n) % C.n)) C.G) (smul C (C.inv r * s' % C.n) R)
     if pk = C.zero then none else
     if s' > C.n / 2 then none else
     if C.xmodn (C.add (smul C ((z % C.n) * C.inv s' % C.n) C.G) (smul C (r * C.inv s' % C.n) pk)) = r
     then some pk else none)
    = (let pk := C.add (smul C (negModN C (C.inv r * (z % C.n) % C.n)) C.G) (smul C (C.inv r * s' % C.n) R)
       if pk = C.zero then none else some pk) := by
  dsimp only
  rw [verify_point L (z % C.n) r s' R hr0 hr hs0 hs, L.lift_x r b R hr hl, if_neg hlow, if_pos rfl]

/-- **the two back ends compute the same function** of (message, r, s, recovery id) -/
theorem k256_eq_secp (z r s recid : Nat) (hrec : recid < 2) :
    k256Core C z r s recid = secpCore C z r s recid := by
  unfold k256Core secpCore
  by_cases hov : r ≥ C.n ∨ s ≥ C.n
  · rw [if_pos hov, if_pos hov]
  rw [if_neg hov, if_neg hov]
  by_cases hz : r = 0 ∨ s = 0
  · rw [if_pos hz, if_pos hz]
  rw [if_neg hz, if_neg hz]
  have hr0 : 0 < r := by omega
  have hr : r < C.n := by omega
  have hs0 : 0 < s := by omega
  have hs : s < C.n := by omega
  by_cases hhigh : s > C.n / 2
  · -- high s: normalised to n - s, parity flipped
    simp only [hhigh, decide_true, if_true]
    rw [isOdd_xor recid hrec, L.lift_neg]
    cases hl : C.lift r (isOdd recid) with
    | none => rfl
    | some R =>
      have hl' : C.lift r (!isOdd recid) = some (C.neg R) := by rw [L.lift_neg, hl]; rfl
      have hneg := negModN_of_pos s hs0 hs
      have h1 : 0 < negModN C s := by omega
      have h2 : negModN C s < C.n := by omega
      have h3 : ¬ negModN C s > C.n / 2 := by omega
      have := k256_tail L z r (negModN C s) (C.neg R) (!isOdd recid) hl' hr0 hr h1 h2 h3
      dsimp only [Option.map] at this ⊢
      rw [this, smul_malleable L, L.add_comm]
  · -- low s: nothing changes
    simp only [hhigh, decide_false, if_false, Bool.false_eq_true]
    cases hl : C.lift r (isOdd recid) with
    | none => rfl
    | some R =>
      have := k256_tail L z r s R (isOdd recid) hl hr0 hr hs0 hs hhigh
      dsimp only at this ⊢
      rw [if_neg hhigh] at this
      rw [this, L.add_comm]


/-- malleability of recovery (what `normalize_s` + `recid ^= 1` relies on):
`recover(r, n - s, v xor 1) = recover(r, s, v)` -/
theorem secp_malleable (z r s recid : Nat) (hrec : recid < 2) (hs0 : 0 < s) (hs : s < C.n) :
    secpCore C z r (C.n - s) (recid ^^^ 1) = secpCore C z r s recid := by
  unfold secpCore
  have g1 : (r ≥ C.n ∨ C.n - s ≥ C.n) ↔ (r ≥ C.n ∨ s ≥ C.n) := by omega
  have g2 : (r = 0 ∨ C.n - s = 0) ↔ (r = 0 ∨ s = 0) := by omega
  by_cases hov : r ≥ C.n ∨ s ≥ C.n
  · rw [if_pos hov, if_pos (g1.mpr hov)]
  rw [if_neg hov, if_neg (fun h => hov (g1.mp h))]
  by_cases hz : r = 0 ∨ s = 0
  · rw [if_pos hz, if_pos (g2.mpr hz)]
  rw [if_neg hz, if_neg (fun h => hz (g2.mp h)), isOdd_xor recid hrec, L.lift_neg]
  cases C.lift r (isOdd recid) with
  | none => rfl
  | some R =>
    dsimp only [Option.map]
    rw [← negModN_of_pos s hs0 hs, smul_malleable L]

/-- the C path is the textbook formula `Q = r^-1 (s R - z G)` behind the range gates -/
theorem secp_eq_spec (z r s recid : Nat) (hr0 : 0 < r) (hr : r < C.n) (hs0 : 0 < s) (hs : s < C.n) :
    secpCore C z r s recid = Spec.Backend.recover C z r s (isOdd recid) := by
  unfold secpCore Spec.Backend.recover
  rw [if_neg (by omega), if_neg (by omega)]
  cases C.lift r (isOdd recid) with
  | none => rfl
  | some R =>
    dsimp only
    have e : C.add (smul C (C.inv r * s % C.n) R) (smul C (negModN C (C.inv r * (z % C.n) % C.n)) C.G)
        = smul C (C.inv r) (C.add (smul C s R) (C.neg (smul C z C.G))) := by
      rw [smul_add_pt L, smul_neg_pt L, smul_negModN L, smul_mod L, smul_mod L, smul_mul L, smul_mul L,
        smul_mod L z]
    rw [e]

end group

/-! ## wrapper level -/

theorem vGate_head (inp : List Nat) (h : vGate inp = true) :
    (inp.drop 63).head? = some 27 ∨ (inp.drop 63).head? = some 28 := by
  unfold vGate at h
  rw [Bool.and_eq_true] at h
  have h2 := h.2
  split at h2
  · left; assumption
  · right; assumption
  · exact absurd h2 (by decide)

/-- `ec_recover_run` only ever calls the back end with recovery id 0 or 1 -/
theorem ecRecoverRun_congr (f g : Nat → Nat → Nat → Nat → List Nat)
    (h : ∀ z r s recid, recid < 2 → f z r s recid = g z r s recid) (input : List Nat) (gas : Nat) :
    ecRecoverRun f input gas = ecRecoverRun g input gas := by
  unfold ecRecoverRun
  by_cases hg : 3000 > gas
  · rw [if_pos hg, if_pos hg]
  rw [if_neg hg, if_neg hg]
  dsimp only
  cases hv : vGate (rightPad 128 input) with
  | false => rfl
  | true =>
    rcases vGate_head _ hv with h27 | h28
    · rw [h27]; dsimp only; rw [h _ _ _ _ (by decide)]
    · rw [h28]; dsimp only; rw [h _ _ _ _ (by decide)]

theorem rightPad_length (len : Nat) (bs : List Nat) : (rightPad len bs).length = len := by
  unfold rightPad
  rw [List.length_take, List.length_append, List.length_replicate]
  omega

/-- the `expect`/`unwrap` sites of `ec_recover_run` never fire -/
theorem ecRecoverRun_no_panic (f : Nat → Nat → Nat → Nat → List Nat) (input : List Nat) (gas : Nat) :
    ecRecoverRun f input gas ≠ .panic := by
  unfold ecRecoverRun
  by_cases hg : 3000 > gas
  · rw [if_pos hg]; exact fun h => by cases h
  rw [if_neg hg]
  dsimp only
  cases hv : vGate (rightPad 128 input) with
  | false => exact fun h => by cases h
  | true =>
    rcases vGate_head _ hv with h27 | h28
    · rw [h27]; exact fun h => by cases h
    · rw [h28]; exact fun h => by cases h

/-- the driver's oracle model is the abstract model whenever the claim is the back end's real answer:
it never overrides a true answer, and it decides by itself every case it claims to decide -/
theorem oracle_sound (C : Curve) (hn : C.n = N)
    (hlift : ∀ r b, C.lift r b = none ↔ liftable r = false) (z r s recid : Nat) :
    oracleCore (outBytes C (secpCore C z r s recid)) z r s recid = outBytes C (secpCore C z r s recid) := by
  unfold oracleCore secpCore
  rw [hn]
  by_cases hov : r ≥ N ∨ s ≥ N
  · rw [if_pos hov, if_pos hov]; rfl
  rw [if_neg hov, if_neg hov]
  by_cases hz : r = 0 ∨ s = 0
  · rw [if_pos hz, if_pos hz]; rfl
  rw [if_neg hz, if_neg hz]
  cases hl : liftable r with
  | true => rfl
  | false =>
    rw [(hlift r (isOdd recid)).mpr hl]
    rfl

/-! ## KZG wrapper -/

theorem beNat_aux (bs : List Nat) : ∀ a : Nat, (∀ b ∈ bs, b < 256) →
    bs.foldl (fun a b => a * 256 + b) a < (a + 1) * 256 ^ bs.length := by
  induction bs with
  | nil => intro a _; simp
  | cons b bs ih =>
    intro a hb
    have hb0 : b < 256 := hb b (List.mem_cons_self ..)
    have ih' := ih (a * 256 + b) (fun x hx => hb x (List.mem_cons_of_mem _ hx))
    rw [List.foldl_cons, List.length_cons, Nat.pow_succ]
    have h1 : a * 256 + b + 1 ≤ (a + 1) * 256 := by omega
    have h2 := Nat.mul_le_mul_right (256 ^ bs.length) h1
    have h3 : (a + 1) * 256 * 256 ^ bs.length = (a + 1) * (256 ^ bs.length * 256) := by
      rw [Nat.mul_assoc, Nat.mul_comm 256]
    omega

theorem beNat_lt (bs : List Nat) (hb : ∀ b ∈ bs, b < 256) : beNat bs < 256 ^ bs.length := by
  have := beNat_aux bs 0 hb
  simpa [beNat] using this

theorem beNat32_lt (bs : List Nat) (hb : ∀ b ∈ bs, b < 256) (hl : bs.length = 32) : beNat bs < 2 ^ 256 := by
  have := beNat_lt bs hb
  rw [hl] at this
  exact this

/-- two libraries that agree on well-formed arguments (48-byte points, 256-bit scalars) give the same
precompile result on every input -/
theorem kzgRun_congr (v1 v2 : List Nat → Nat → Nat → List Nat → Bool)
    (h : ∀ c z y p, c.length = 48 → p.length = 48 → z < 2^256 → y < 2^256 → v1 c z y p = v2 c z y p)
    (input : List Nat) (hb : ∀ b ∈ input, b < 256) (gas : Nat) :
    kzgRun v1 input gas = kzgRun v2 input gas := by
  unfold kzgRun
  by_cases hg : gas < 50000
  · rw [if_pos hg, if_pos hg]
  rw [if_neg hg, if_neg hg]
  by_cases hlen : input.length ≠ 192
  · rw [if_pos hlen, if_pos hlen]
  rw [if_neg hlen, if_neg hlen]
  have hlen' : input.length = 192 := by omega
  dsimp only
  have hc : ((input.drop 96).take 48).length = 48 := by rw [List.length_take, List.length_drop]; omega
  have hp : ((input.drop 144).take 48).length = 48 := by rw [List.length_take, List.length_drop]; omega
  have hsub : ∀ k m, ∀ b ∈ (input.drop k).take m, b < 256 :=
    fun k m b hbm => hb b (List.mem_of_mem_drop (List.mem_of_mem_take hbm))
  have hz : beNat ((input.drop 32).take 32) < 2 ^ 256 :=
    beNat32_lt _ (hsub 32 32) (by rw [List.length_take, List.length_drop]; omega)
  have hy : beNat ((input.drop 64).take 32) < 2 ^ 256 :=
    beNat32_lt _ (hsub 64 32) (by rw [List.length_take, List.length_drop]; omega)
  rw [h _ _ _ _ hc hp hz hy]

/-- whenever one of the wrapper's own gates fails, the library is irrelevant -/
theorem kzgRun_gate (v1 v2 : List Nat → Nat → Nat → List Nat → Bool) (input : List Nat) (gas : Nat)
    (hgate : gas < 50000 ∨ input.length ≠ 192 ∨ versionedHash ((input.drop 96).take 48) ≠ input.take 32) :
    kzgRun v1 input gas = kzgRun v2 input gas := by
  unfold kzgRun
  by_cases hg : gas < 50000
  · rw [if_pos hg, if_pos hg]
  rw [if_neg hg, if_neg hg]
  by_cases hlen : input.length ≠ 192
  · rw [if_pos hlen, if_pos hlen]
  rw [if_neg hlen, if_neg hlen]
  dsimp only
  have hv : versionedHash ((input.drop 96).take 48) ≠ input.take 32 := by
    rcases hgate with h | h | h
    · exact absurd h hg
    · exact absurd h hlen
    · exact h
  rw [if_pos hv, if_pos hv]

/-- success is always the constant return value at the constant price, and implies every gate -/
theorem kzgRun_ok (v : List Nat → Nat → Nat → List Nat → Bool) (input : List Nat) (gas g : Nat) (out : List Nat)
    (h : kzgRun v input gas = .ok g out) :
    g = 50000 ∧ out = returnValue ∧ 50000 ≤ gas ∧ input.length = 192 ∧
    versionedHash ((input.drop 96).take 48) = input.take 32 ∧
    v ((input.drop 96).take 48) (beNat ((input.drop 32).take 32)) (beNat ((input.drop 64).take 32))
      ((input.drop 144).take 48) = true := by
  unfold kzgRun at h
  by_cases hg : gas < 50000
  · rw [if_pos hg] at h; cases h
  rw [if_neg hg] at h
  by_cases hlen : input.length ≠ 192
  · rw [if_pos hlen] at h; cases h
  rw [if_neg hlen] at h
  dsimp only at h
  by_cases hv : versionedHash ((input.drop 96).take 48) ≠ input.take 32
  · rw [if_pos hv] at h; cases h
  rw [if_neg hv] at h
  cases hver : v ((input.drop 96).take 48) (beNat ((input.drop 32).take 32)) (beNat ((input.drop 64).take 32))
      ((input.drop 144).take 48) with
  | false => rw [hver] at h; cases h
  | true =>
    rw [hver] at h
    injection h with h1 h2
    refine ⟨h1.symm, h2.symm, by omega, by omega, ?_, rfl⟩
    exact Classical.not_not.mp hv

/-- a field element that is not canonical is rejected before any group arithmetic -/
theorem libVerify_noncanonical (pr : List Nat → Nat → Nat → List Nat → Bool) (c p : List Nat) (z y : Nat)
    (h : z ≥ BLS_R ∨ y ≥ BLS_R) : libVerify pr c z y p = false := by
  unfold libVerify
  rcases h with h | h
  · have : decide (z < BLS_R) = false := decide_eq_false (by omega)
    rw [this]; rfl
  · have : decide (y < BLS_R) = false := decide_eq_false (by omega)
    rw [this, Bool.and_false, Bool.false_and]

end Revm.Proofs.Backend
