import Revm.Model.Stack
import Revm.Spec.Stack
/-! Helper lemmas and proofs for C12 (core Lean only). `abs` reads the `Vec` from its end, so the
refinement statements are `abs (Model.step d op) = Spec.step d.reverse op`. -/
set_option linter.unusedSimpArgs false
namespace Revm.Proofs.Stack
open Revm Revm.Model.Stack


/-- abstraction: the buffer read from the top -/
def abs (p : List Nat × Out) : List Nat × Out := (p.1.reverse, p.2)

theorem reverse_set (l : List Nat) (i : Nat) (a : Nat) (h : i < l.length) :
    (l.set i a).reverse = l.reverse.set (l.length - 1 - i) a := by
  apply List.ext_getElem?
  intro k
  by_cases hk : k < l.length
  · rw [List.getElem?_reverse (by simpa using hk), List.getElem?_set, List.getElem?_set,
      List.getElem?_reverse hk]
    simp only [List.length_set, List.length_reverse]
    by_cases h1 : i = l.length - 1 - k
    · have h2 : l.length - 1 - i = k := by omega
      have h3 : l.length - 1 - k < l.length := by omega
      rw [if_pos h1, if_pos h2, if_pos h, if_pos (by omega)]
    · have h2 : ¬ (l.length - 1 - i = k) := by omega
      rw [if_neg h1, if_neg h2]
  · have h1 : (l.set i a).reverse.length ≤ k := by simp; omega
    have h2 : (l.reverse.set (l.length - 1 - i) a).length ≤ k := by simp; omega
    rw [List.getElem?_eq_none h1, List.getElem?_eq_none h2]

theorem push_refines (d : List Nat) (v : Nat) (hd : d.length ≤ STACK_LIMIT) :
    abs (step d (.push v)) = Spec.Stack.push d.reverse v := by
  simp only [step, abs, push, Spec.Stack.push, Spec.Stack.LIMIT, STACK_LIMIT, List.length_reverse] at *
  by_cases h : d.length = 1024
  · simp [h, Out.ofUnit]
  · have : d.length < 1024 := by omega
    simp [h, this, Out.ofUnit]

theorem pop_refines (d : List Nat) : abs (step d .pop) = Spec.Stack.pop d.reverse := by
  rcases List.eq_nil_or_concat d with rfl | ⟨l, a, rfl⟩
  · simp [step, abs, pop, Spec.Stack.pop, Out.ofWord]
  · simp [step, abs, pop, Spec.Stack.pop, Out.ofWord, List.concat_eq_append]

theorem peek_refines (d : List Nat) (n : Nat) : abs (step d (.peek n)) = Spec.Stack.peek d.reverse n := by
  simp only [step, abs, peek, Spec.Stack.peek]
  by_cases h : n < d.length
  · rw [List.getElem?_reverse h]
    have : d.length - n - 1 = d.length - 1 - n := by omega
    rw [this]
    have hlt : d.length - 1 - n < d.length := by omega
    simp [h, List.getElem?_eq_getElem hlt, Out.ofWord]
  · have : d.reverse[n]? = none := List.getElem?_eq_none (by simp; omega)
    simp [h, this, Out.ofWord]


theorem dup_refines (d : List Nat) (n : Nat) (hn : 0 < n) :
    abs (step d (.dup n)) = Spec.Stack.dup d.reverse n := by
  simp only [step, abs, dup, Spec.Stack.dup, Spec.Stack.LIMIT, STACK_LIMIT, List.length_reverse]
  have hn0 : ¬ n = 0 := by omega
  rw [if_neg hn0]
  by_cases h : d.length < n
  · have : d.reverse[n - 1]? = none := List.getElem?_eq_none (by simp; omega)
    simp [h, this, Out.ofUnit]
  · have h1 : n - 1 < d.length := by omega
    rw [List.getElem?_reverse h1]
    have h2 : d.length - 1 - (n - 1) = d.length - n := by omega
    have h3 : d.length - n < d.length := by omega
    rw [h2, List.getElem?_eq_getElem h3]
    by_cases h4 : d.length + 1 > 1024
    · have : ¬ d.length < 1024 := by omega
      simp [h, h4, this, Out.ofUnit]
    · have : d.length < 1024 := by omega
      simp [h, h4, this, Out.ofUnit]

theorem exchange_refines (d : List Nat) (n m : Nat) (hm : 0 < m) (hnm : n + m < U64) :
    abs (step d (.exchange n m)) = Spec.Stack.exchange d.reverse n m := by
  simp only [step, abs, exchange, Spec.Stack.exchange]
  have hm0 : ¬ m = 0 := by omega
  have hnm' : ¬ n + m ≥ U64 := by omega
  rw [if_neg hm0, if_neg hnm']
  by_cases h : n + m ≥ d.length
  · have : d.reverse[n + m]? = none := List.getElem?_eq_none (by simp; omega)
    rw [if_pos h, this]
    cases d.reverse[n]? <;> simp [Out.ofUnit]
  · have h1 : n < d.length := by omega
    have h2 : n + m < d.length := by omega
    have hi : d.length - 1 - n < d.length := by omega
    have hj : d.length - 1 - (n + m) < d.length := by omega
    rw [if_neg h, List.getElem?_reverse h1, List.getElem?_reverse h2,
      List.getElem?_eq_getElem hi, List.getElem?_eq_getElem hj]
    simp only [Out.ofUnit]
    rw [reverse_set _ _ _ (by simpa using hj), reverse_set _ _ _ hi]
    simp only [List.length_set]
    have e1 : d.length - 1 - (d.length - 1 - n) = n := by omega
    have e2 : d.length - 1 - (d.length - 1 - (n + m)) = n + m := by omega
    rw [e1, e2]

theorem swap_refines (d : List Nat) (n : Nat) (hn : 0 < n) (hn2 : n < U64) :
    abs (step d (.swap n)) = Spec.Stack.swap d.reverse n := by
  have := exchange_refines d 0 n hn (by omega)
  simpa [step, Model.Stack.swap, Spec.Stack.swap] using this

theorem set_refines (d : List Nat) (n v : Nat) :
    abs (step d (.set n v)) = Spec.Stack.set d.reverse n v := by
  simp only [step, abs, Model.Stack.set, Spec.Stack.set, List.length_reverse]
  by_cases h : d.length > n
  · have h1 : d.length - n - 1 < d.length := by omega
    have h2 : n < d.length := h
    rw [if_pos h, if_pos h1, if_pos h2]
    simp only [Out.ofUnit]
    rw [reverse_set _ _ _ h1]
    have : d.length - 1 - (d.length - n - 1) = n := by omega
    rw [this]
  · have h2 : ¬ n < d.length := by omega
    rw [if_neg h, if_neg h2]; simp [Out.ofUnit]



/-! ### byte strings and limbs -/

theorem foldl_be (bs : List Nat) (a : Nat) :
    bs.foldl (fun a b => a * 256 + b) a = a * 256 ^ bs.length + Spec.Stack.beNat bs := by
  induction bs generalizing a with
  | nil => simp [Spec.Stack.beNat]
  | cons b bs ih =>
    simp only [List.foldl_cons, ih, Spec.Stack.beNat, List.length_cons, Nat.pow_succ]
    rw [Nat.add_mul, Nat.mul_assoc, Nat.mul_comm 256, Nat.add_assoc]

theorem beVal_eq_beNat (bs : List Nat) : beVal bs = Spec.Stack.beNat bs := by
  simp [beVal, foldl_be]

theorem beVal_append (a b : List Nat) : beVal (a ++ b) = beVal a * 256 ^ b.length + beVal b := by
  simp only [beVal, List.foldl_append]
  rw [foldl_be b, foldl_be b 0]; simp

theorem beVal_nil : beVal [] = 0 := rfl

theorem beVal_replicate_zero (k : Nat) : beVal (List.replicate k 0) = 0 := by
  induction k with
  | zero => rfl
  | succ k ih =>
    rw [List.replicate_succ', beVal_append, ih]; simp [beVal]

theorem beVal_zeros_append (k : Nat) (bs : List Nat) : beVal (List.replicate k 0 ++ bs) = beVal bs := by
  rw [beVal_append, beVal_replicate_zero]; simp

theorem leVal_append_zeros (l : List Nat) (k : Nat) : leVal (l ++ List.replicate k 0) = leVal l := by
  induction l with
  | nil =>
    induction k with
    | zero => rfl
    | succ k ih => simp only [List.nil_append] at ih ⊢; rw [List.replicate_succ]; simp only [leVal] at ih ⊢; rw [ih]; simp
  | cons a l ih => simp only [List.cons_append, leVal, ih]

theorem pow8 : 256 ^ 8 = U64 := by rw [U64_val]

/-- limbs written for one (full or partial) chunk, before the zero fill -/
def chunkLimbs (bs : List Nat) : List Nat :=
  (rchunksExact8 bs).1.map beVal ++
    (if !(rchunksExact8 bs).2.isEmpty then
      [beVal (List.replicate (8 - (rchunksExact8 bs).2.length) 0 ++ (rchunksExact8 bs).2)] else [])

theorem rchunks_lt (bs : List Nat) (h : bs.length < 8) : rchunksExact8 bs = ([], bs) := by
  rw [rchunksExact8]; simp [h]

theorem rchunks_ge (bs : List Nat) (h : ¬ bs.length < 8) :
    rchunksExact8 bs = (bs.drop (bs.length - 8) :: (rchunksExact8 (bs.take (bs.length - 8))).1,
      (rchunksExact8 (bs.take (bs.length - 8))).2) := by
  rw [rchunksExact8]; simp [h]

theorem chunkLimbs_lt (bs : List Nat) (h : bs.length < 8) :
    chunkLimbs bs = if bs = [] then [] else [beVal bs] := by
  simp only [chunkLimbs, rchunks_lt bs h, List.map_nil, List.nil_append]
  cases bs with
  | nil => simp
  | cons b bs => simp [beVal_zeros_append]

theorem chunkLimbs_ge (bs : List Nat) (h : ¬ bs.length < 8) :
    chunkLimbs bs = beVal (bs.drop (bs.length - 8)) :: chunkLimbs (bs.take (bs.length - 8)) := by
  simp only [chunkLimbs, rchunks_ge bs h, List.map_cons, List.cons_append]

theorem chunkLimbs_spec (n : Nat) : ∀ bs : List Nat, bs.length = n →
    leVal (chunkLimbs bs) = beVal bs ∧ (chunkLimbs bs).length = (bs.length + 7) / 8 := by
  induction n using Nat.strongRecOn with
  | _ n ih =>
    intro bs hn
    by_cases h : bs.length < 8
    · rw [chunkLimbs_lt bs h]
      cases bs with
      | nil => simp [leVal, beVal_nil]
      | cons b bs =>
        simp only [List.length_cons] at h ⊢
        simp [leVal]; omega
    · rw [chunkLimbs_ge bs h]
      have hl : (bs.take (bs.length - 8)).length = bs.length - 8 := by simp
      have := ih (bs.length - 8) (by omega) (bs.take (bs.length - 8)) hl
      refine ⟨?_, ?_⟩
      · rw [leVal, this.1]
        conv => rhs; rw [← List.take_append_drop (bs.length - 8) bs]
        rw [beVal_append]
        have : (bs.drop (bs.length - 8)).length = 8 := by simp; omega
        rw [this, pow8, Nat.mul_comm, Nat.add_comm]
      · rw [List.length_cons, this.2, hl]; omega

theorem chunkLimbs_val (bs : List Nat) : leVal (chunkLimbs bs) = beVal bs := (chunkLimbs_spec _ bs rfl).1
theorem chunkLimbs_length (bs : List Nat) : (chunkLimbs bs).length = (bs.length + 7) / 8 :=
  (chunkLimbs_spec _ bs rfl).2

theorem rchunks_rem_length (n : Nat) : ∀ bs : List Nat, bs.length = n →
    (rchunksExact8 bs).2.length = bs.length % 8 := by
  induction n using Nat.strongRecOn with
  | _ n ih =>
    intro bs hn
    by_cases h : bs.length < 8
    · rw [rchunks_lt bs h]; simp; omega
    · rw [rchunks_ge bs h]
      have hl : (bs.take (bs.length - 8)).length = bs.length - 8 := by simp
      have := ih (bs.length - 8) (by omega) _ hl
      simp only [this, hl]; omega

/-- for a full 32-byte chunk the inner loop writes exactly four limbs, whose value is the chunk's -/
theorem limbsOfChunk_full (w : List Nat) (hw : w.length = 32) :
    (limbsOfChunk w).length = 4 ∧ leVal (limbsOfChunk w) = beVal w := by
  have hr : (rchunksExact8 w).2 = [] := by
    apply List.eq_nil_of_length_eq_zero
    rw [rchunks_rem_length _ w rfl, hw]
  have e : chunkLimbs w = limbsOfChunk w := by simp [chunkLimbs, limbsOfChunk, hr]
  rw [← e, chunkLimbs_val, chunkLimbs_length, hw]; simp


/-! ### chunks -/

theorem chunksExact_lt (bs : List Nat) (h : bs.length < 32) : chunksExact32 bs = ([], bs) := by
  rw [chunksExact32, chunksExactGo]; simp [h]
theorem chunksExact_ge (bs : List Nat) (h : ¬ bs.length < 32) :
    chunksExact32 bs = (bs.take 32 :: (chunksExact32 (bs.drop 32)).1, (chunksExact32 (bs.drop 32)).2) := by
  rw [chunksExact32, chunksExactGo]; simp [h, chunksExact32]

theorem chunks32_nil : Spec.Stack.chunks32 [] = [] := by rw [Spec.Stack.chunks32]; simp
theorem chunks32_ne (bs : List Nat) (h : bs ≠ []) :
    Spec.Stack.chunks32 bs = bs.take 32 :: Spec.Stack.chunks32 (bs.drop 32) := by
  rw [Spec.Stack.chunks32]; simp [h]

/-- `chunks_exact(32)` + remainder is the plain chunking; full chunks have 32 bytes, the rest < 32 -/
theorem chunksExact_spec (n : Nat) : ∀ bs : List Nat, bs.length = n →
    Spec.Stack.chunks32 bs = (chunksExact32 bs).1 ++ (if (chunksExact32 bs).2 = [] then [] else [(chunksExact32 bs).2])
    ∧ (∀ w ∈ (chunksExact32 bs).1, w.length = 32) ∧ (chunksExact32 bs).2.length = bs.length % 32 := by
  induction n using Nat.strongRecOn with
  | _ n ih =>
    intro bs hn
    by_cases h : bs.length < 32
    · rw [chunksExact_lt bs h]
      cases bs with
      | nil => simp [chunks32_nil]
      | cons b bs =>
        have hd : (b :: bs).drop 32 = [] := List.drop_eq_nil_of_le (by omega)
        have ht : (b :: bs).take 32 = b :: bs := List.take_of_length_le (by omega)
        rw [chunks32_ne _ (by simp), hd, ht, chunks32_nil]
        simp; simp at h; omega
    · have hl : (bs.drop 32).length = bs.length - 32 := by simp
      have := ih (bs.length - 32) (by omega) _ hl
      have hne : bs ≠ [] := by intro e; subst e; simp at h
      rw [chunksExact_ge bs h, chunks32_ne bs hne, this.1]
      refine ⟨by simp, ?_, ?_⟩
      · intro w hw
        simp only [List.mem_cons] at hw
        rcases hw with rfl | hw
        · simp; omega
        · exact this.2.1 w hw
      · simp only [this.2.2, hl]; omega

theorem chunks32_length (n : Nat) : ∀ bs : List Nat, bs.length = n →
    (Spec.Stack.chunks32 bs).length = Spec.Stack.ceil32 bs.length := by
  induction n using Nat.strongRecOn with
  | _ n ih =>
    intro bs hn
    cases bs with
    | nil => simp [chunks32_nil, Spec.Stack.ceil32]
    | cons b bs =>
      rw [chunks32_ne _ (by simp)]
      have hl : ((b :: bs).drop 32).length = (b :: bs).length - 32 := by simp
      have := ih ((b :: bs).length - 32) (by simp at hn ⊢; omega) _ hl
      rw [List.length_cons, this, hl]; simp only [Spec.Stack.ceil32, List.length_cons]; omega

/-! ### the limb buffer read back as words -/

theorem wordsOfLimbs_four (l4 rest : List Nat) (h : l4.length = 4) :
    wordsOfLimbs (l4 ++ rest) = (wordsOfLimbs rest).map (leVal l4 :: ·) := by
  match l4, h with
  | [a, b, c, e], _ => simp [wordsOfLimbs]

theorem wordsOfLimbs_full (fulls : List (List Nat)) (hf : ∀ w ∈ fulls, w.length = 32)
    (tail ws : List Nat) (ht : wordsOfLimbs tail = some ws) :
    wordsOfLimbs (fulls.flatMap limbsOfChunk ++ tail) = some (fulls.map beVal ++ ws) := by
  induction fulls with
  | nil => simpa using ht
  | cons w fulls ih =>
    have hw := limbsOfChunk_full w (hf w (by simp))
    have ih' := ih (fun x hx => hf x (by simp [hx]))
    simp only [List.flatMap_cons, List.append_assoc, List.map_cons, List.cons_append]
    rw [wordsOfLimbs_four _ _ hw.1, ih', hw.2]; simp

theorem flatMap_limbs_length (fulls : List (List Nat)) (hf : ∀ w ∈ fulls, w.length = 32) :
    (fulls.flatMap limbsOfChunk).length % 4 = 0 := by
  induction fulls with
  | nil => simp
  | cons w fulls ih =>
    have hw := limbsOfChunk_full w (hf w (by simp))
    have ih' := ih (fun x hx => hf x (by simp [hx]))
    simp only [List.flatMap_cons, List.length_append, hw.1]; omega


theorem words_of_four (t : List Nat) (h : t.length = 4) : wordsOfLimbs t = some [leVal t] := by
  match t, h with
  | [a, b, c, e], _ => simp [wordsOfLimbs]

/-- the tail of `push_slice` appends exactly four limbs whose value is the big-endian value of the
partial chunk -/
theorem writePartialLastWord_spec (P rem : List Nat) (hP : P.length % 4 = 0)
    (h0 : 0 < rem.length) (h32 : rem.length < 32) :
    ∃ T, writePartialLastWord P rem = P ++ T ∧ T.length = 4 ∧ leVal T = beVal rem := by
  have hL : ∀ X : List Nat, X = P ++ chunkLimbs rem →
      (if X.length % 4 ≠ 0 then X ++ List.replicate (4 - X.length % 4) 0 else X) =
        P ++ (chunkLimbs rem ++ List.replicate ((4 - (chunkLimbs rem).length % 4) % 4) 0) := by
    intro X hX
    subst hX
    have hc := chunkLimbs_length rem
    have hm : (P ++ chunkLimbs rem).length % 4 = (chunkLimbs rem).length % 4 := by
      rw [List.length_append]; omega
    rw [hm]
    by_cases hz : (chunkLimbs rem).length % 4 ≠ 0
    · rw [if_pos hz, List.append_assoc]
      have : (4 - (chunkLimbs rem).length % 4) % 4 = 4 - (chunkLimbs rem).length % 4 := by omega
      rw [this]
    · rw [if_neg hz]
      have : (4 - (chunkLimbs rem).length % 4) % 4 = 0 := by omega
      rw [this]; simp
  refine ⟨chunkLimbs rem ++ List.replicate ((4 - (chunkLimbs rem).length % 4) % 4) 0, ?_, ?_, ?_⟩
  · rw [← hL _ rfl]
    simp only [writePartialLastWord, chunkLimbs]
    by_cases hr : (rchunksExact8 rem).2.isEmpty
    · simp [hr]
    · simp [hr, List.append_assoc]
  · rw [List.length_append, List.length_replicate, chunkLimbs_length]; omega
  · rw [leVal_append_zeros, chunkLimbs_val]

/-- `push_slice`, closed form: all or nothing, one word per 32-byte chunk, first chunk deepest,
each word the big-endian value of its chunk -/
theorem pushSlice_eq (d bs : List Nat) (hd : d.length ≤ STACK_LIMIT) :
    pushSlice d bs =
      if d.length + Spec.Stack.ceil32 bs.length > STACK_LIMIT then (d, .err .StackOverflow)
      else (d ++ (Spec.Stack.chunks32 bs).map Spec.Stack.beNat, .ok ()) := by
  unfold pushSlice
  cases bs with
  | nil =>
    have : ¬ d.length + Spec.Stack.ceil32 ([] : List Nat).length > STACK_LIMIT := by
      simp [Spec.Stack.ceil32]; omega
    rw [if_neg this]; simp [chunks32_nil]
  | cons b bs =>
    simp only [List.isEmpty_cons, Bool.false_eq_true, if_false]
    by_cases hov : d.length + Spec.Stack.ceil32 (b :: bs).length > STACK_LIMIT
    · have hov' : d.length + ((b :: bs).length + 31) / 32 > STACK_LIMIT := hov
      rw [if_pos hov', if_pos hov]
    · have hov' : ¬ d.length + ((b :: bs).length + 31) / 32 > STACK_LIMIT := hov
      rw [if_neg hov', if_neg hov]
      obtain ⟨hc, hfull, hrem⟩ := chunksExact_spec _ (b :: bs) rfl
      have hlen := chunks32_length _ (b :: bs) rfl
      have hmap : (Spec.Stack.chunks32 (b :: bs)).map Spec.Stack.beNat
          = (Spec.Stack.chunks32 (b :: bs)).map beVal := by
        apply List.map_congr_left; intro x _; rw [beVal_eq_beNat]
      have key : wordsOfLimbs
          (if (chunksExact32 (b :: bs)).2.isEmpty then (chunksExact32 (b :: bs)).1.flatMap limbsOfChunk
           else writePartialLastWord ((chunksExact32 (b :: bs)).1.flatMap limbsOfChunk) (chunksExact32 (b :: bs)).2)
          = some ((Spec.Stack.chunks32 (b :: bs)).map beVal) := by
        by_cases hr : (chunksExact32 (b :: bs)).2 = []
        · rw [hc, hr]
          have := wordsOfLimbs_full _ hfull [] [] (by simp [wordsOfLimbs])
          simpa using this
        · have hr' : (chunksExact32 (b :: bs)).2.isEmpty = false := by
            cases h : (chunksExact32 (b :: bs)).2 with
            | nil => exact absurd h hr
            | cons _ _ => rfl
          have h0 : 0 < (chunksExact32 (b :: bs)).2.length := List.length_pos_iff.mpr hr
          obtain ⟨T, hT, hT4, hTv⟩ := writePartialLastWord_spec _ (chunksExact32 (b :: bs)).2
            (flatMap_limbs_length _ hfull) h0 (by rw [hrem]; omega)
          rw [hr', hT, hc, if_neg hr]
          have := wordsOfLimbs_full _ hfull T [leVal T] (words_of_four T hT4)
          simp only [Bool.false_eq_true, if_false]
          rw [this, hTv]; simp
      simp only [key]
      have : ((Spec.Stack.chunks32 (b :: bs)).map beVal).length = ((b :: bs).length + 31) / 32 := by
        rw [List.length_map, hlen]; rfl
      rw [if_pos this, hmap]



theorem pushSlice_refines (d bs : List Nat) (hd : d.length ≤ STACK_LIMIT) :
    abs (step d (.pushSlice bs)) = Spec.Stack.pushSlice d.reverse bs := by
  simp only [step, abs, pushSlice_eq d bs hd, Spec.Stack.pushSlice, Spec.Stack.LIMIT, List.length_reverse]
  by_cases h : d.length + Spec.Stack.ceil32 bs.length > STACK_LIMIT
  · have h' : d.length + Spec.Stack.ceil32 bs.length > 1024 := h
    rw [if_pos h, if_pos h']; simp [Out.ofUnit]
  · have h' : ¬ d.length + Spec.Stack.ceil32 bs.length > 1024 := h
    rw [if_neg h, if_neg h']; simp [Out.ofUnit]

theorem pushB256_refines (d bs : List Nat) (hd : d.length ≤ STACK_LIMIT) :
    abs (step d (.pushB256 bs)) = Spec.Stack.push d.reverse (Spec.Stack.beNat bs) := by
  have := push_refines d (beVal bs) hd
  rw [beVal_eq_beNat] at this
  simpa [step, pushB256, beVal_eq_beNat] using this

/-- `k` unchecked pops on a buffer holding at least `k` words: the `k` top words, top first -/
theorem popNUnsafe_rev (k : Nat) : ∀ s : List Nat, k ≤ s.length →
    popNUnsafe k s.reverse = ((s.drop k).reverse, .ok (s.take k)) := by
  induction k with
  | zero => intro s _; simp [popNUnsafe]
  | succ k ih =>
    intro s hk
    cases s with
    | nil => simp at hk
    | cons v s =>
      have := ih s (by simpa using hk)
      simp [popNUnsafe, popUnsafe, this]

theorem popN_refines (d : List Nat) (k : Nat) :
    abs (step d (.popN k)) = Spec.Stack.popN d.reverse k := by
  simp only [abs, step, popMacro, Spec.Stack.popN, List.length_reverse]
  by_cases h : d.length < k
  · simp [h, Out.ofWords]
  · have := popNUnsafe_rev k d.reverse (by simp; omega)
    rw [List.reverse_reverse] at this
    simp [h, this, Out.ofWords]

theorem popTop_refines (d : List Nat) (k v : Nat) (hk : 0 < k) :
    abs (step d (.popTop k v)) = Spec.Stack.popTop d.reverse k v := by
  simp only [abs, step, popTopMacro, Spec.Stack.popTop, List.length_reverse]
  by_cases h : d.length < k
  · simp [h, Out.ofWordsTop]
  · have := popNUnsafe_rev (k - 1) d.reverse (by simp; omega)
    rw [List.reverse_reverse] at this
    rw [if_neg h, if_neg h, this]
    have hlen : (d.reverse.drop (k - 1)).length = d.length - (k - 1) := by simp
    cases hs : d.reverse.drop (k - 1) with
    | nil => rw [hs] at hlen; simp at hlen; omega
    | cons t rest =>
      have e1 : (t :: rest).reverse.length - 1 < (t :: rest).reverse.length := by simp
      have e0 : ¬ (t :: rest).reverse.length = 0 := by simp
      simp only [if_neg e0, List.getElem?_eq_getElem e1]
      simp only [Out.ofWordsTop]
      rw [reverse_set _ _ _ e1]
      simp


theorem step_refines (d : List Nat) (op : Op) (hd : d.length ≤ STACK_LIMIT) (hp : op.pre) :
    abs (step d op) = Spec.Stack.step d.reverse op := by
  cases op with
  | push v => exact push_refines d v hd
  | pushB256 bs => exact pushB256_refines d bs hd
  | pop => exact pop_refines d
  | peek n => exact peek_refines d n
  | dup n => exact dup_refines d n hp
  | swap n => exact swap_refines d n hp.1 hp.2
  | exchange n m => exact exchange_refines d n m hp.1 hp.2
  | set n v => exact set_refines d n v
  | pushSlice bs => exact pushSlice_refines d bs hd
  | popN k => exact popN_refines d k
  | popTop k v => exact popTop_refines d k v hp

/-! ### the Spec keeps the bound and never reports anything but unit / word / overflow / underflow -/

theorem spec_step_len (s : List Nat) (op : Op) (hs : s.length ≤ 1024) :
    (Spec.Stack.step s op).1.length ≤ 1024 := by
  cases op with
  | push v =>
    simp only [Spec.Stack.step, Spec.Stack.push, Spec.Stack.LIMIT]
    by_cases h : s.length < 1024 <;> simp [h] <;> omega
  | pushB256 bs =>
    simp only [Spec.Stack.step, Spec.Stack.push, Spec.Stack.LIMIT]
    by_cases h : s.length < 1024 <;> simp [h] <;> omega
  | pop => cases s with
    | nil => simp [Spec.Stack.step, Spec.Stack.pop]
    | cons a s => simp [Spec.Stack.step, Spec.Stack.pop] at hs ⊢; omega
  | peek n => simp only [Spec.Stack.step, Spec.Stack.peek]; split <;> simpa using hs
  | dup n =>
    simp only [Spec.Stack.step, Spec.Stack.dup, Spec.Stack.LIMIT]
    split
    · simpa using hs
    · by_cases h : s.length < 1024 <;> simp [h] <;> omega
  | swap n =>
    simp only [Spec.Stack.step, Spec.Stack.swap, Spec.Stack.exchange]
    split <;> simpa using hs
  | exchange n m =>
    simp only [Spec.Stack.step, Spec.Stack.exchange]
    split <;> simpa using hs
  | set n v => simp only [Spec.Stack.step, Spec.Stack.set]; split <;> simpa using hs
  | pushSlice bs =>
    simp only [Spec.Stack.step, Spec.Stack.pushSlice, Spec.Stack.LIMIT]
    by_cases h : s.length + Spec.Stack.ceil32 bs.length > 1024
    · simp [h]; omega
    · simp [h, chunks32_length _ bs rfl]; omega
  | popN k =>
    simp only [Spec.Stack.step, Spec.Stack.popN]
    by_cases h : s.length < k <;> simp [h] <;> omega
  | popTop k v =>
    simp only [Spec.Stack.step, Spec.Stack.popTop]
    by_cases h : s.length < k
    · simp [h]; omega
    · rw [if_neg h]
      have hl : (s.drop (k - 1)).length = s.length - (k - 1) := by simp
      cases hdr : s.drop (k - 1) with
      | nil => simpa using hs
      | cons t rest => rw [hdr] at hl; simp at hl ⊢; omega

theorem spec_step_out (s : List Nat) (op : Op) :
    (Spec.Stack.step s op).2 ≠ .panic ∧ (Spec.Stack.step s op).2 ≠ .ub := by
  cases op with
  | push v => simp only [Spec.Stack.step, Spec.Stack.push]; split <;> simp
  | pushB256 bs => simp only [Spec.Stack.step, Spec.Stack.push]; split <;> simp
  | pop => cases s <;> simp [Spec.Stack.step, Spec.Stack.pop]
  | peek n => simp only [Spec.Stack.step, Spec.Stack.peek]; split <;> simp
  | dup n =>
    simp only [Spec.Stack.step, Spec.Stack.dup]
    split
    · simp
    · split <;> simp
  | swap n => simp only [Spec.Stack.step, Spec.Stack.swap, Spec.Stack.exchange]; split <;> simp
  | exchange n m => simp only [Spec.Stack.step, Spec.Stack.exchange]; split <;> simp
  | set n v => simp only [Spec.Stack.step, Spec.Stack.set]; split <;> simp
  | pushSlice bs => simp only [Spec.Stack.step, Spec.Stack.pushSlice]; split <;> simp
  | popN k => simp only [Spec.Stack.step, Spec.Stack.popN]; split <;> simp
  | popTop k v =>
    simp only [Spec.Stack.step, Spec.Stack.popTop]
    split
    · simp
    · split <;> simp

theorem abs_fst_length (p : List Nat × Out) : (abs p).1.length = p.1.length := by simp [abs]

/-- the length bound is preserved by every call that satisfies the API preconditions -/
theorem step_len_le (d : List Nat) (op : Op) (hd : d.length ≤ STACK_LIMIT) (hp : op.pre) :
    (step d op).1.length ≤ STACK_LIMIT := by
  have := spec_step_len d.reverse op (by simpa [STACK_LIMIT] using hd)
  rw [← step_refines d op hd hp, abs_fst_length] at this
  exact this

/-- no bounds-check panic and no out-of-range raw access -/
theorem step_no_panic_ub (d : List Nat) (op : Op) (hd : d.length ≤ STACK_LIMIT) (hp : op.pre) :
    (step d op).2 ≠ .panic ∧ (step d op).2 ≠ .ub := by
  have := spec_step_out d.reverse op
  rw [← step_refines d op hd hp] at this
  exact this

theorem run_refines (ops : List Op) : ∀ (d : List Nat), d.length ≤ STACK_LIMIT → (∀ op ∈ ops, op.pre) →
    ((run d ops).1.reverse, (run d ops).2) = Spec.Stack.run d.reverse ops := by
  induction ops with
  | nil => intro d _ _; rfl
  | cons op ops ih =>
    intro d hd hp
    have h1 := step_refines d op hd (hp op (by simp))
    have h2 := ih (step d op).1 (step_len_le d op hd (hp op (by simp))) (fun o ho => hp o (by simp [ho]))
    simp only [run, Spec.Stack.run]
    rw [← h1]
    simp only [abs]
    rw [← h2]

theorem run_len_le (ops : List Op) : ∀ (d : List Nat), d.length ≤ STACK_LIMIT → (∀ op ∈ ops, op.pre) →
    (run d ops).1.length ≤ STACK_LIMIT := by
  induction ops with
  | nil => intro d hd _; exact hd
  | cons op ops ih =>
    intro d hd hp
    exact ih (step d op).1 (step_len_le d op hd (hp op (by simp))) (fun o ho => hp o (by simp [ho]))

theorem run_no_panic_ub (ops : List Op) : ∀ (d : List Nat), d.length ≤ STACK_LIMIT → (∀ op ∈ ops, op.pre) →
    ∀ o ∈ (run d ops).2, o ≠ .panic ∧ o ≠ .ub := by
  induction ops with
  | nil => intro d _ _ o ho; simp [run] at ho
  | cons op ops ih =>
    intro d hd hp o ho
    simp only [run, List.mem_cons] at ho
    rcases ho with rfl | ho
    · exact step_no_panic_ub d op hd (hp op (by simp))
    · exact ih (step d op).1 (step_len_le d op hd (hp op (by simp))) (fun o ho => hp o (by simp [ho])) o ho



theorem exchange_fail_unchanged (d : List Nat) (n m : Nat) (h : ∀ v, (exchange d n m).2 ≠ .ok v) :
    (exchange d n m).1 = d := by
  simp only [exchange] at h ⊢
  by_cases c0 : m = 0
  · simp [c0]
  · by_cases c1 : n + m ≥ U64
    · simp [c0, c1]
    · by_cases c2 : n + m ≥ d.length
      · simp [c0, c1, c2]
      · cases c3 : d[d.length - 1 - n]? <;> cases c4 : d[d.length - 1 - (n + m)]? <;>
          simp [c0, c1, c2, c3, c4] at h ⊢

theorem ofUnit_not_ok (r : Res Unit) (h : Out.ofUnit r ≠ .unit) : ∀ v, r ≠ .ok v := by
  intro v; cases r <;> simp [Out.ofUnit] at h ⊢

theorem failed_ne (o : Out) (h : o.failed = true) : o ≠ .unit ∧ ∀ v, o ≠ .word v := by
  cases o <;> simp [Out.failed] at h ⊢

/-- whatever is not a success leaves the buffer as it was (no hypothesis at all) -/
theorem step_fail_unchanged (d : List Nat) (op : Op)
    (hf : (step d op).2.failed = true) : (step d op).1 = d := by
  have h := failed_ne _ hf
  cases op with
  | popN k =>
    simp only [step, popMacro] at hf ⊢
    by_cases c : d.length < k
    · simp [c]
    · have := popNUnsafe_rev k d.reverse (by simp; omega)
      rw [List.reverse_reverse] at this
      simp [c, this, Out.ofWords, Out.failed] at hf
  | popTop k v =>
    simp only [step, popTopMacro] at hf ⊢
    by_cases c : d.length < k
    · simp [c]
    · have := popNUnsafe_rev (k - 1) d.reverse (by simp; omega)
      rw [List.reverse_reverse] at this
      rw [if_neg c, this] at hf ⊢
      have hlen : ((d.reverse.drop (k - 1)).reverse).length = d.length - (k - 1) := by simp
      by_cases c0 : ((d.reverse.drop (k - 1)).reverse).length = 0
      · have hk : k - 1 = 0 := by omega
        have hnil : d = [] := List.eq_nil_of_length_eq_zero (by omega)
        subst hnil
        simp [hk]
      · have e1 : ((d.reverse.drop (k - 1)).reverse).length - 1 < ((d.reverse.drop (k - 1)).reverse).length := by omega
        simp only [if_neg c0, List.getElem?_eq_getElem e1, Out.ofWordsTop, Out.failed] at hf
        simp at hf
  | push v =>
    simp only [step, push] at h ⊢
    by_cases c : d.length = STACK_LIMIT <;> simp [c, Out.ofUnit] at h ⊢
  | pushB256 bs =>
    simp only [step, pushB256, push] at h ⊢
    by_cases c : d.length = STACK_LIMIT <;> simp [c, Out.ofUnit] at h ⊢
  | pop =>
    simp only [step, pop] at h ⊢
    cases c : d.getLast? <;> simp [c, Out.ofWord] at h ⊢
  | peek n =>
    simp only [step, peek]
    split
    · split <;> rfl
    · rfl
  | dup n =>
    simp only [step, dup] at h ⊢
    by_cases c0 : n = 0
    · simp [c0]
    · by_cases c1 : d.length < n
      · simp [c0, c1]
      · by_cases c2 : d.length + 1 > STACK_LIMIT
        · simp [c0, c1, c2]
        · cases c3 : d[d.length - n]? <;> simp [c0, c1, c2, c3, Out.ofUnit] at h ⊢
  | swap n => exact exchange_fail_unchanged d 0 n (ofUnit_not_ok _ h.1)
  | exchange n m => exact exchange_fail_unchanged d n m (ofUnit_not_ok _ h.1)
  | set n v =>
    simp only [step, Model.Stack.set] at h ⊢
    by_cases c0 : d.length > n
    · by_cases c1 : d.length - n - 1 < d.length <;> simp [c0, c1, Out.ofUnit] at h ⊢
    · simp [c0]
  | pushSlice bs =>
    simp only [step, pushSlice] at h ⊢
    by_cases c0 : bs.isEmpty
    · simp [c0]
    · by_cases c1 : d.length + (bs.length + 31) / 32 > STACK_LIMIT
      · simp [c0, c1]
      · simp only [c0, c1] at h ⊢
        simp only [Bool.false_eq_true, if_false] at h ⊢
        split
        · rename_i ws hw
          by_cases c2 : ws.length = (bs.length + 31) / 32
          · rw [hw] at h; simp [c2, Out.ofUnit] at h
          · simp [c2]
        · rfl



/-! ### words stay 256-bit -/

theorem beNat_lt (bs : List Nat) (hb : ∀ b ∈ bs, b < 256) : Spec.Stack.beNat bs < 256 ^ bs.length := by
  induction bs with
  | nil => simp [Spec.Stack.beNat]
  | cons b bs ih =>
    have h1 := ih (fun x hx => hb x (by simp [hx]))
    have h2 : b < 256 := hb b (by simp)
    simp only [Spec.Stack.beNat, List.length_cons, Nat.pow_succ]
    have : b * 256 ^ bs.length ≤ 255 * 256 ^ bs.length := Nat.mul_le_mul_right _ (by omega)
    omega

theorem pow32 : 256 ^ 32 = W := by rw [W_val]

theorem beNat_lt_W (bs : List Nat) (hl : bs.length ≤ 32) (hb : ∀ b ∈ bs, b < 256) :
    Spec.Stack.beNat bs < W := by
  have h1 := beNat_lt bs hb
  have h2 : 256 ^ bs.length ≤ 256 ^ 32 := Nat.pow_le_pow_right (by omega) hl
  rw [pow32] at h2; omega

theorem chunks32_mem (n : Nat) : ∀ bs : List Nat, bs.length = n → ∀ c ∈ Spec.Stack.chunks32 bs,
    c.length ≤ 32 ∧ ∀ b ∈ c, b ∈ bs := by
  induction n using Nat.strongRecOn with
  | _ n ih =>
    intro bs hn c hc
    cases bs with
    | nil => simp [chunks32_nil] at hc
    | cons b bs =>
      rw [chunks32_ne _ (by simp)] at hc
      simp only [List.mem_cons] at hc
      rcases hc with rfl | hc
      · exact ⟨by simp; omega, fun x hx => List.mem_of_mem_take hx⟩
      · have hl : ((b :: bs).drop 32).length = (b :: bs).length - 32 := by simp
        have := ih _ (by simp at hn ⊢; omega) _ hl c hc
        exact ⟨this.1, fun x hx => List.mem_of_mem_drop (this.2 x hx)⟩

theorem step_words_lt (d : List Nat) (op : Op) (hd : d.length ≤ STACK_LIMIT) (hw : ∀ w ∈ d, w < W)
    (hop : op.wf) : ∀ w ∈ (step d op).1, w < W := by
  cases op with
  | push v =>
    simp only [step, push]
    by_cases c : d.length = STACK_LIMIT
    · simpa [c] using hw
    · intro w hm; simp [c] at hm; rcases hm with hm | rfl
      · exact hw w hm
      · exact hop
  | pushB256 bs =>
    simp only [step, pushB256, push]
    by_cases c : d.length = STACK_LIMIT
    · simpa [c] using hw
    · intro w hm; simp [c] at hm; rcases hm with hm | rfl
      · exact hw w hm
      · rw [beVal_eq_beNat]; exact beNat_lt_W bs (by rw [hop.1]; omega) hop.2
  | pop =>
    simp only [step, pop]
    cases c : d.getLast? with
    | none => simpa using hw
    | some v => intro w hm; exact hw w (List.dropLast_subset d hm)
  | peek n =>
    simp only [step, peek]
    split
    · split <;> simpa using hw
    · simpa using hw
  | dup n =>
    simp only [step, dup]
    by_cases c0 : n = 0
    · simpa [c0] using hw
    · by_cases c1 : d.length < n
      · simpa [c0, c1] using hw
      · by_cases c2 : d.length + 1 > STACK_LIMIT
        · simpa [c0, c1, c2] using hw
        · cases c3 : d[d.length - n]? with
          | none => simpa [c0, c1, c2, c3] using hw
          | some v =>
            intro w hm; simp [c0, c1, c2, c3] at hm
            rcases hm with hm | rfl
            · exact hw w hm
            · exact hw _ (List.mem_of_getElem? c3)
  | swap n =>
    intro w hm
    simp only [step, swap, exchange] at hm
    split at hm
    · exact hw w hm
    · split at hm
      · exact hw w hm
      · split at hm
        · exact hw w hm
        · split at hm
          · rename_i a b ha hb
            rcases List.mem_or_eq_of_mem_set hm with hm | rfl
            · rcases List.mem_or_eq_of_mem_set hm with hm | rfl
              · exact hw w hm
              · exact hw _ (List.mem_of_getElem? hb)
            · exact hw _ (List.mem_of_getElem? ha)
          · exact hw w hm
  | exchange n m =>
    intro w hm
    simp only [step, exchange] at hm
    split at hm
    · exact hw w hm
    · split at hm
      · exact hw w hm
      · split at hm
        · exact hw w hm
        · split at hm
          · rename_i a b ha hb
            rcases List.mem_or_eq_of_mem_set hm with hm | rfl
            · rcases List.mem_or_eq_of_mem_set hm with hm | rfl
              · exact hw w hm
              · exact hw _ (List.mem_of_getElem? hb)
            · exact hw _ (List.mem_of_getElem? ha)
          · exact hw w hm
  | set n v =>
    intro w hm
    simp only [step, Model.Stack.set] at hm
    split at hm
    · split at hm
      · rcases List.mem_or_eq_of_mem_set hm with hm | rfl
        · exact hw w hm
        · exact hop
      · exact hw w hm
    · exact hw w hm
  | pushSlice bs =>
    intro w hm
    simp only [step, pushSlice_eq d bs hd] at hm
    split at hm
    · exact hw w hm
    · simp only [List.mem_append, List.mem_map] at hm
      rcases hm with hm | ⟨c, hc, rfl⟩
      · exact hw w hm
      · have := chunks32_mem _ bs rfl c hc
        exact beNat_lt_W c this.1 (fun b hb => hop b (this.2 b hb))
  | popN k =>
    intro w hm
    have hr := popN_refines d k
    have hm' : w ∈ (abs (step d (.popN k))).1 := by simpa [abs] using hm
    rw [hr] at hm'
    simp only [Spec.Stack.popN] at hm'
    split at hm'
    · exact hw w (by simpa using hm')
    · exact hw w (by simpa using List.mem_of_mem_drop hm')
  | popTop k v =>
    intro w hm
    by_cases hk : k = 0
    · subst hk
      have e : popNUnsafe (0 - 1) d = (d, .ok []) := by simp [popNUnsafe]
      simp only [step, popTopMacro, e] at hm
      simp only [Nat.not_lt_zero, if_false] at hm
      split at hm
      · exact hw w hm
      · split at hm
        · rcases List.mem_or_eq_of_mem_set hm with hm | rfl
          · exact hw w hm
          · exact hop
        · exact hw w hm
    · have hr := popTop_refines d k v (by omega)
      have hm' : w ∈ (abs (step d (.popTop k v))).1 := by simpa [abs] using hm
      rw [hr] at hm'
      simp only [Spec.Stack.popTop] at hm'
      split at hm'
      · exact hw w (by simpa using hm')
      · split at hm'
        · rename_i t rest hdr
          simp only [List.mem_cons] at hm'
          rcases hm' with rfl | hm'
          · exact hop
          · have : w ∈ d.reverse.drop (k - 1) := by rw [hdr]; simp [hm']
            exact hw w (by simpa using List.mem_of_mem_drop this)
        · exact hw w (by simpa using hm')

theorem run_words_lt (ops : List Op) : ∀ (d : List Nat), d.length ≤ STACK_LIMIT → (∀ w ∈ d, w < W) →
    (∀ op ∈ ops, op.pre ∧ op.wf) → ∀ w ∈ (run d ops).1, w < W := by
  induction ops with
  | nil => intro d _ hw _; exact hw
  | cons op ops ih =>
    intro d hd hw hp
    have h := hp op (by simp)
    exact ih (step d op).1 (step_len_le d op hd h.1) (step_words_lt d op hd hw h.2)
      (fun o ho => hp o (by simp [ho]))

/-! ### LIFO laws stated directly on the code-shaped model -/

theorem pop_push (d : List Nat) (v : Nat) (h : d.length < STACK_LIMIT) :
    pop (push d v).1 = (d, .ok v) := by
  have : ¬ d.length = STACK_LIMIT := by omega
  simp [push, pop, this]

theorem peek_push (d : List Nat) (v : Nat) (h : d.length < STACK_LIMIT) :
    peek (push d v).1 0 = ((push d v).1, .ok v) := by
  have : ¬ d.length = STACK_LIMIT := by omega
  simp [push, peek, this]

theorem push_pop (d : List Nat) (v : Nat) (hd : d.length ≤ STACK_LIMIT) (h : (pop d).2 = .ok v) :
    push (pop d).1 v = (d, .ok ()) := by
  rcases List.eq_nil_or_concat d with rfl | ⟨l, a, rfl⟩
  · simp [pop] at h
  · simp [pop, List.concat_eq_append] at h hd ⊢
    subst h
    have : ¬ l.length = STACK_LIMIT := by omega
    simp [push, this]

/-! ### chunks and overflow -/

theorem chunks32_get (i : Nat) : ∀ bs : List Nat,
    (Spec.Stack.chunks32 bs)[i]? = if 32 * i < bs.length then some ((bs.drop (32 * i)).take 32) else none := by
  induction i with
  | zero =>
    intro bs
    cases bs with
    | nil => simp [chunks32_nil]
    | cons b bs => rw [chunks32_ne _ (by simp)]; simp
  | succ i ih =>
    intro bs
    cases bs with
    | nil => simp [chunks32_nil]
    | cons b bs =>
      rw [chunks32_ne _ (by simp), List.getElem?_cons_succ, ih, List.drop_drop]
      have e : 32 + 32 * i = 32 * (i + 1) := by omega
      rw [e]
      have : (32 * i < ((b :: bs).drop 32).length) ↔ (32 * (i + 1) < (b :: bs).length) := by
        simp only [List.length_drop]; omega
      by_cases c : 32 * (i + 1) < (b :: bs).length
      · rw [if_pos c, if_pos (this.mpr c)]
      · rw [if_neg c, if_neg (fun h => c (this.mp h))]

theorem pushSlice_overflow_iff (d bs : List Nat) (hd : d.length ≤ STACK_LIMIT) :
    (pushSlice d bs).2 = .err .StackOverflow ↔ d.length + (bs.length + 31) / 32 > 1024 := by
  rw [pushSlice_eq d bs hd]
  by_cases h : d.length + Spec.Stack.ceil32 bs.length > STACK_LIMIT
  · rw [if_pos h]; simp; exact h
  · rw [if_neg h]; simp; exact Nat.le_of_not_gt h



/-- what `push_slice` does with a one-byte slice: the *value* 0x2a (PUSH1 0x2a pushes 42) -/
theorem pushSlice_2a : pushSlice [] [0x2a] = ([42], .ok ()) := by
  rw [pushSlice_eq _ _ (by simp [STACK_LIMIT])]
  simp [Spec.Stack.ceil32, STACK_LIMIT, chunks32_ne, chunks32_nil, Spec.Stack.beNat]

/-- a 33-byte slice: one full word and a one-byte last chunk -/
theorem pushSlice_33 :
    pushSlice [7] (List.replicate 31 0 ++ [1] ++ [0xab]) = ([7, 1, 0xab], .ok ()) := by
  rw [pushSlice_eq _ _ (by simp [STACK_LIMIT])]
  simp [Spec.Stack.ceil32, STACK_LIMIT, chunks32_ne, chunks32_nil, Spec.Stack.beNat, List.replicate]

/-- the arguments the opcode handlers of `instructions/stack.rs` compute satisfy the preconditions -/
theorem instrOp_pre (opcode : Nat) (imm : List Nat) (op : Op) (hi : ∀ b ∈ imm, b < 256)
    (h : instrOp opcode imm = some op) : op.pre := by
  unfold instrOp at h
  split at h
  · cases h; trivial
  · split at h
    · cases h; trivial
    · split at h
      · cases h; trivial
      · split at h
        · cases h; simp only [Op.pre]; omega
        · split at h
          · cases h; simp only [Op.pre]; rw [U64_val]; omega
          · split at h
            · cases h; simp [Op.pre]
            · have := hi _ List.mem_cons_self
              cases h; simp only [Op.pre]; rw [U64_val]; omega
            · have := hi _ List.mem_cons_self
              cases h; simp only [Op.pre]; rw [U64_val]; omega
            · cases h


end Revm.Proofs.Stack
