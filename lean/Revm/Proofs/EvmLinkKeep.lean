import Revm.Model.Interp
import Revm.Proofs.Gas
/-! LINK, frame accounting and static mode, part 1: what EVERY handler of `Model.Interp` keeps. A handler never writes
`is_static`, never changes the limit of the frame's gas meter and never gives gas back: `Kept s0 s`. The predicate
`Keep` carries this through the handler monad; this file proves it of the primitives. -/
set_option linter.unusedSimpArgs false
set_option linter.unusedVariables false
namespace Revm.Proofs.EvmLink
open Revm Revm.Model Revm.Model.Interp

/-- `s` comes after `s0` in the same frame: same `is_static`, same gas limit, no more gas -/
structure Kept (s0 s : IState) : Prop where
  st : s.isStatic = s0.isStatic
  lim : s.gas.limit = s0.gas.limit
  rem : s.gas.remaining ≤ s0.gas.remaining

theorem Kept.refl (s : IState) : Kept s s := ⟨rfl, rfl, Nat.le_refl _⟩
theorem Kept.trans {a b c : IState} (h1 : Kept a b) (h2 : Kept b c) : Kept a c :=
  ⟨h2.st.trans h1.st, h2.lim.trans h1.lim, Nat.le_trans h2.rem h1.rem⟩

/-- a handler result whose state (ok or halt) is `Kept` after `s0`; `Q` holds of an ok result -/
inductive Keep (s0 : IState) {α} (Q : α → IState → Prop) : Exec α → Prop
  | ok {a s} (h : Kept s0 s) (hq : Q a s) : Keep s0 Q (.ok a s)
  | halt {r o s} (h : Kept s0 s) : Keep s0 Q (.halt r o s)
  | fault {f} : Keep s0 Q (.fault f)

abbrev T {α} : α → IState → Prop := fun _ _ => True

theorem keep_bind {s0 s : IState} {α β} {m : M α} {f : α → M β} {Q : α → IState → Prop} {Q' : β → IState → Prop}
    (h1 : Keep s0 Q (m s)) (h2 : ∀ a s', Kept s0 s' → Q a s' → Keep s0 Q' (f a s')) : Keep s0 Q' ((m >>= f) s) := by
  show Keep s0 Q' (M.bind m f s)
  unfold M.bind
  cases hm : m s with
  | ok a s' => rw [hm] at h1; cases h1 with | ok h hq => exact h2 a s' h hq
  | halt r o s' => rw [hm] at h1; cases h1 with | halt h => exact .halt h
  | fault f => exact .fault

theorem keep_pure {s0 s : IState} {α} {a : α} {Q : α → IState → Prop} (h : Kept s0 s) (hq : Q a s) :
    Keep s0 Q ((pure a : M α) s) := .ok h hq

theorem keep_mono {s0 : IState} {α} {e : Exec α} {Q Q' : α → IState → Prop} (h : Keep s0 Q e)
    (hq : ∀ a s, Kept s0 s → Q a s → Q' a s) : Keep s0 Q' e := by
  cases h with
  | ok h hq' => exact .ok h (hq _ _ h hq')
  | halt h => exact .halt h
  | fault => exact .fault

/-! ## primitives -/

section prims
variable {s0 s : IState}

theorem keep_haltWith {α} (h : Kept s0 s) (r : IResult) {Q : α → IState → Prop} : Keep s0 Q ((haltWith r : M α) s) :=
  .halt h
theorem keep_haltOut {α} (h : Kept s0 s) (r : IResult) (o : List Nat) {Q : α → IState → Prop} :
    Keep s0 Q ((haltOut r o : M α) s) := .halt h
theorem keep_faultWith {α} (f : Fault) {Q : α → IState → Prop} : Keep s0 Q ((faultWith f : M α) s) := .fault

theorem keep_getS (h : Kept s0 s) : Keep s0 (fun x s' => x = s ∧ s' = s) (getS s) := .ok h ⟨rfl, rfl⟩

theorem keep_modifyS (h : Kept s0 s) (f : IState → IState) (hf : Kept s (f s)) : Keep s0 T (modifyS f s) :=
  .ok (h.trans hf) trivial

theorem keep_check (h : Kept s0 s) (fork : Nat) : Keep s0 T (check fork s) := by
  unfold check; split
  · exact .ok h trivial
  · exact .halt h

theorem keep_requireNonStatic (h : Kept s0 s) : Keep s0 T (requireNonStatic s) := by
  unfold requireNonStatic; split
  · exact .halt h
  · exact .ok h trivial

theorem keep_requireEof (h : Kept s0 s) : Keep s0 T (requireEof s) := by
  unfold requireEof; split
  · exact .halt h
  · exact .ok h trivial

theorem keep_requireInitEof (h : Kept s0 s) : Keep s0 T (requireInitEof s) := by
  unfold requireInitEof; split
  · exact .halt h
  · exact .ok h trivial

theorem keep_requireSome (h : Kept s0 s) (r : HostResp) : Keep s0 T (requireSome r s) := by
  unfold requireSome; split
  · exact .ok h trivial
  · exact .halt h

theorem keep_assumeNotEof (h : Kept s0 s) : Keep s0 T (assumeNotEof s) := by
  unfold assumeNotEof; split
  · exact .fault
  · exact .ok h trivial

/-- wrapping `a - c` when `c ≤ a`: at least `c` less -/
theorem wsub_le' (a c : Nat) (h : c ≤ a) : U64ops.wsub a c + c ≤ a := by
  unfold U64ops.wsub
  generalize U64 = u
  have h1 : c % u ≤ c := Nat.mod_le _ _
  have h2 : a + u - c % u = (a - c) + u * (c / u) + u := by
    have := Nat.div_add_mod c u
    generalize c / u = q at *
    generalize c % u = x at *
    generalize hm : u * q = m at *
    omega
  rw [h2, Nat.add_mod_right, Nat.add_mul_mod_self_left]
  have := Nat.mod_le (a - c) u
  omega

/-- `record_cost`: on success at least `cost` less remains; the limit is never touched -/
theorem recordCost_succ (g : Gas.Gas) (c : Nat) (hlt : ¬ g.remaining < c) :
    Gas.recordCost g c = ({ g with remaining := U64ops.wsub g.remaining c }, true) := by
  simp only [Gas.recordCost, Gas.overflowingSub, hlt, decide_false, Bool.not_false, if_true]
theorem recordCost_spec (g g' : Gas.Gas) (c : Nat) (ok : Bool) (h : Gas.recordCost g c = (g', ok))
    (key : ¬ g.remaining < c → U64ops.wsub g.remaining c + c ≤ g.remaining) :
    g'.limit = g.limit ∧ g'.remaining ≤ g.remaining ∧ (ok = true → g'.remaining + c ≤ g.remaining) := by
  by_cases hlt : g.remaining < c
  · rw [Proofs.Gas.recordCost_fail g c hlt] at h
    obtain ⟨rfl, rfl⟩ := Prod.mk.inj h
    exact ⟨rfl, Nat.le_refl _, fun h => nomatch h⟩
  · rw [recordCost_succ g c hlt] at h
    obtain ⟨rfl, rfl⟩ := Prod.mk.inj h
    have k := key hlt
    dsimp only
    generalize U64ops.wsub g.remaining c = x at k ⊢
    exact ⟨rfl, by omega, fun _ => k⟩

theorem keep_gasCharge (h : Kept s0 s) (c : Nat) :
    Keep s0 (fun _ s' => s'.gas.remaining + c ≤ s.gas.remaining) (gasCharge c s) := by
  unfold gasCharge
  have hsp := fun g' ok e => recordCost_spec s.gas g' c ok e (fun hn => wsub_le' _ _ (by omega))
  generalize Gas.recordCost s.gas c = r at hsp ⊢
  obtain ⟨g', ok⟩ := r
  obtain ⟨h1, h2, h3⟩ := hsp g' ok rfl
  cases ok with
  | true => exact .ok (h.trans ⟨rfl, h1, h2⟩) (h3 rfl)
  | false => exact .halt h

end prims
end Revm.Proofs.EvmLink
