import Revm.Proofs.EvmLinkDepth2
/-! LINK, frame depth (C07), part 3: the invariant of `Evm.runLoop` — journal depth = length of the frame stack —
along every run, stated without fuel on the step relation `Steps`; `CallTooDeep` exactly 1024 levels below the
transaction frame. -/
set_option linter.unusedSimpArgs false
namespace Revm.Proofs.EvmLink
open Revm Revm.Model Revm.Model.Evm
open Revm.Model.Journal (incU64 decU64)
open Revm.Proofs.Frame (dec_inc inc_small dec_pos)

abbrev JFrame := Frame Journal.Checkpoint

/-- while the loop runs: journal depth = number of open frames, between 1 and 1025 -/
def LoopInv (stack : List JFrame) (w : World) : Prop :=
  w.js.depth = stack.length ∧ 1 ≤ stack.length ∧ stack.length ≤ CALL_STACK_LIMIT + 1

/-- the invariant on what the loop does next; when the first frame has returned the depth is 0 -/
inductive NextInv : Next Journal.Checkpoint → Prop
  | run {stack w} (h : LoopInv stack w) : NextInv (.run stack w)
  | ended {top rest r out s w} (h : LoopInv (top :: rest) w) : NextInv (.ended top rest r out s w)
  | done {r w} (h : w.js.depth = 0) : NextInv (.done r w)

theorem deliver_inv {kind : FrameKind} {o : Interp.ChildResult} {parent : JFrame} {rest : List JFrame}
    {mem : Memory.SharedMemory} {w : World} {nx} (hi : LoopInv (parent :: rest) w)
    (h : deliver kind o parent rest mem w = .ok nx) : NextInv nx := by
  unfold deliver at h
  split at h
  · simp only [pure, Except.pure, Except.ok.injEq] at h
    subst h
    exact .run (by simpa [LoopInv] using hi)
  · simp only [pure, Except.pure, Except.ok.injEq] at h
    subst h
    exact .ended hi
  · cases h

theorem frameEnd_inv {cfg : Cfg} {top : JFrame} {rest : List JFrame} {r : Interp.IResult} {out : List Nat}
    {s : Interp.IState} {w : World} {nx} (hi : LoopInv (top :: rest) w)
    (h : frameEnd journalOps cfg top rest r out s w = .ok nx) : NextInv nx := by
  obtain ⟨h1, h2, h3⟩ := hi
  simp only [List.length_cons] at h1 h2 h3
  unfold frameEnd at h
  obtain ⟨mem, _, h⟩ := bind_ok h
  obtain ⟨⟨res, w1⟩, hret, h⟩ := bind_ok h
  have hd : w1.js.depth = rest.length := by
    have : w1.js.depth = decU64 w.js.depth := by
      unfold frameReturn at hret
      split at hret
      · exact callReturn_depth hret
      · exact createReturn_depth hret
    rw [this, h1, dec_pos (by omega)]; omega
  simp only at h
  cases rest with
  | nil =>
    simp only [pure, Except.pure, Except.ok.injEq] at h
    subst h
    exact .done (by simpa using hd)
  | cons parent rest' =>
    simp only at h
    exact deliver_inv ⟨hd, by simp, by simp only [List.length_cons] at h3 ⊢; omega⟩ h

theorem frameAction_inv {cfg : Cfg} {top : JFrame} {rest : List JFrame} {a : Interp.Action}
    {s : Interp.IState} {w : World} {nx} (hi : LoopInv (top :: rest) w)
    (h : frameAction journalOps cfg top rest a s w = .ok nx) : NextInv nx := by
  obtain ⟨h1, h2, h3⟩ := hi
  simp only [List.length_cons] at h1 h2 h3
  have hlim : CALL_STACK_LIMIT = 1024 := rfl
  unfold frameAction at h
  obtain ⟨⟨fr, w1⟩, hmk, h⟩ := bind_ok h
  have hdep : (∀ r, fr = .result r → w1.js.depth = w.js.depth) ∧
      (∀ f, fr = .frame f → w1.js.depth = incU64 w.js.depth ∧ ¬ w.js.depth > CALL_STACK_LIMIT) := by
    cases a with
    | call i =>
      obtain ⟨x, y⟩ := makeCallFrame_depth hmk
      exact ⟨fun r hr => (x r hr).1, y⟩
    | create i =>
      obtain ⟨x, y⟩ := makeCreateFrame_depth hmk
      exact ⟨fun r hr => (x r hr).1, y⟩
    | eofCreate i => cases hmk
  simp only at h
  cases fr with
  | frame f =>
    simp only [pure, Except.pure, Except.ok.injEq] at h
    subst h
    obtain ⟨e1, e2⟩ := hdep.2 f rfl
    refine .run ⟨?_, by simp, ?_⟩
    · rw [e1, inc_small (x := w.js.depth) (by show _ ≤ 1024; omega)]; simp only [List.length_cons]; omega
    · simp only [List.length_cons]; omega
  | result o =>
    simp only at h
    exact deliver_inv ⟨by rw [hdep.1 o rfl, h1]; simp, by simp, by simpa using h3⟩ h

theorem afterStep_inv {cfg : Cfg} {top : JFrame} {rest : List JFrame} {d : Interp.Done} {w : World} {nx}
    (hi : LoopInv (top :: rest) w) (h : afterStep journalOps cfg top rest d w = .ok nx) : NextInv nx := by
  unfold afterStep at h
  cases d with
  | next s =>
    simp only [pure, Except.pure, Except.ok.injEq] at h
    subst h
    exact .run (by simpa [LoopInv] using hi)
  | action a s => exact frameAction_inv hi h
  | halt r out s => exact frameEnd_inv hi h
  | fault f => cases h

/-- one iteration of `run_the_loop` keeps the invariant (C07 `loop_step_invariant` on EvmLoop) -/
theorem iterate_inv {cfg : Cfg} {stack : List JFrame} {w : World} {nx} (hi : LoopInv stack w)
    (h : iterate journalOps cfg stack w = .ok nx) : NextInv nx := by
  unfold iterate at h
  cases stack with
  | nil => cases h
  | cons top rest =>
    simp only at h
    split at h
    · exact afterStep_inv hi h
    · obtain ⟨⟨resp, w1⟩, ha, h⟩ := bind_ok h
      have hd := answer_depth ha
      exact afterStep_inv ⟨by rw [hd]; exact hi.1, hi.2.1, hi.2.2⟩ h

/-! ## runs without fuel -/

/-- the steps of `run_the_loop`: what `runLoop` / `runEnded` do, one unit of fuel at a time, with the fuel forgotten -/
inductive Steps (cfg : Cfg) : Next Journal.Checkpoint → Next Journal.Checkpoint → Prop
  | refl (n) : Steps cfg n n
  | iter {stack w n m} (h : iterate journalOps cfg stack w = .ok n) (t : Steps cfg n m) : Steps cfg (.run stack w) m
  | fend {top rest r out s w n m} (h : frameEnd journalOps cfg top rest r out s w = .ok n) (t : Steps cfg n m) :
      Steps cfg (.ended top rest r out s w) m

/-- **the loop invariant along every run** (C07 `loop_depth_invariant_from` on EvmLoop): every state a run passes
through satisfies `journal depth = length of the frame stack`, and the depth is 0 when the first frame has returned -/
theorem steps_inv {cfg : Cfg} {n m : Next Journal.Checkpoint} (t : Steps cfg n m) (hi : NextInv n) : NextInv m := by
  induction t with
  | refl n => exact hi
  | iter h _ ih =>
    cases hi with
    | run hi => exact ih (iterate_inv hi h)
  | fend h _ ih =>
    cases hi with
    | ended hi => exact ih (frameEnd_inv hi h)

/-- a completed fuel-indexed run is a `Steps` path to `done` -/
theorem runLoop_steps (cfg : Cfg) : ∀ fuel : Nat,
    (∀ stack w r w', runLoop journalOps cfg fuel stack w = .ok (r, w') → Steps cfg (.run stack w) (.done r w')) ∧
    (∀ top rest r0 out s w r w', runEnded journalOps cfg fuel top rest r0 out s w = .ok (r, w') →
      Steps cfg (.ended top rest r0 out s w) (.done r w')) := by
  intro fuel
  induction fuel with
  | zero =>
    constructor
    · intro stack w r w' h; simp [runLoop, throw, throwThe, MonadExceptOf.throw] at h
    · intro top rest r0 out s w r w' h; simp [runEnded, throw, throwThe, MonadExceptOf.throw] at h
  | succ n ih =>
    constructor
    · intro stack w r w' h
      rw [runLoop] at h
      obtain ⟨nx, hit, h⟩ := bind_ok h
      cases nx with
      | run st w1 => exact .iter hit (ih.1 _ _ _ _ h)
      | ended t rr r1 o s1 w1 => exact .iter hit (ih.2 _ _ _ _ _ _ _ _ h)
      | done r1 w1 =>
        simp only [pure, Except.pure, Except.ok.injEq, Prod.mk.injEq] at h
        obtain ⟨rfl, rfl⟩ := h
        exact .iter hit (.refl _)
    · intro top rest r0 out s w r w' h
      rw [runEnded] at h
      obtain ⟨nx, hit, h⟩ := bind_ok h
      cases nx with
      | run st w1 => exact .fend hit (ih.1 _ _ _ _ h)
      | ended t rr r1 o s1 w1 => exact .fend hit (ih.2 _ _ _ _ _ _ _ _ h)
      | done r1 w1 =>
        simp only [pure, Except.pure, Except.ok.injEq, Prod.mk.injEq] at h
        obtain ⟨rfl, rfl⟩ := h
        exact .fend hit (.refl _)

/-- a completed run of `Evm.runLoop` from a state with `depth = stack length` ends at depth 0, for every fuel -/
theorem runLoop_depth_zero {cfg : Cfg} {fuel : Nat} {stack : List JFrame} {w w' : World} {r}
    (hi : LoopInv stack w) (h : runLoop journalOps cfg fuel stack w = .ok (r, w')) : w'.js.depth = 0 := by
  have := steps_inv ((runLoop_steps cfg fuel).1 _ _ _ _ h) (.run hi)
  cases this with
  | done h => exact h

end Revm.Proofs.EvmLink
