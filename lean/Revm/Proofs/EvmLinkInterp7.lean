import Revm.Proofs.EvmLinkInterp6
import Revm.Proofs.EvmLinkLoop2
/-! LINK, the interpreter side of panic-freedom, part 7: the first frame. `prepare` (load_accounts, deduct_caller, the
EIP-7702 list — which adds 23-byte designators to the code store) keeps the stores well-formed, and the frame it opens
satisfies the invariant `SI` of part 2: C25's `init_inv` on `SharedMemory::new()`, measure = its gas limit. -/
set_option linter.unusedSimpArgs false
set_option linter.unusedVariables false
namespace Revm.Proofs.EvmLink
open Revm Revm.Model Revm.Model.Evm
open Revm.Proofs.Memory (WF)

local notation "IInv" => Revm.Proofs.Interp.Inv
local notation "imeas" => Revm.Proofs.Interp.measure
local notation "ISZ" => Memory.ISIZE_MAX

theorem foldl_noteSlot_store (a : Nat) : ∀ (keys : List Nat) (w : World),
    StoreEq w (keys.foldl (fun w k => w.noteSlot a k) w) := by
  intro keys
  induction keys with
  | nil => intro w; exact StoreEq.refl _
  | cons k ks ih => intro w; simp only [List.foldl_cons]; exact (noteSlot_store w a k).trans (ih _)

theorem accessFold_store (e : Evm.Env) : ∀ (w : World), StoreEq w (accessFold e w) := by
  unfold accessFold
  generalize e.tx.accessList = l
  induction l with
  | nil => intro w; exact StoreEq.refl _
  | cons it l ih =>
    intro w
    simp only [List.foldl_cons]
    refine StoreEq.trans ?_ (ih _)
    have h0 : StoreEq w ({ w with js := Journal.initialAccountLoad w.db w.js it.addr it.keys }.noteAddr it.addr) :=
      StoreEq.trans (b := { w with js := Journal.initialAccountLoad w.db w.js it.addr it.keys }) ⟨rfl, rfl⟩
        (noteAddr_store _ _)
    exact h0.trans (foldl_noteSlot_store _ _ _)

theorem loadAccounts_store (e : Evm.Env) (spec : Nat) (w : World) : StoreEq w (loadAccounts e spec w) := by
  rw [loadAccounts_eq]
  have h1 : ∀ (x : World) sp pre, StoreEq x (setMetaW x sp pre) := fun _ _ _ => ⟨rfl, rfl⟩
  exact ((h1 _ _ _).trans (accessFold_store e _)).trans (h1 _ _ _)

theorem deductCaller_store {e : Evm.Env} {spec : Nat} {w w' : World} (h : deductCaller e spec w = .ok w') :
    StoreEq w w' := by
  unfold deductCaller at h
  obtain ⟨⟨w1, cold⟩, h1, h⟩ := bind_ok h
  obtain ⟨acc, h2, h⟩ := bind_ok h
  obtain ⟨d, h3, h⟩ := bind_ok h
  simp only [pure, Except.pure, Except.ok.injEq] at h
  subst h
  exact (w_loadAccount_store h1).trans ⟨rfl, rfl⟩

theorem beBytes_length' (len n : Nat) : (Keccak.beBytes len n).length = len := by
  unfold Keccak.beBytes; rw [List.length_map, List.length_range]

theorem designator_length (a : Nat) : (designator a).length = 23 := by
  show ([0xef, 0x01, 0x00] ++ Keccak.beBytes 20 a).length = 23
  rw [List.length_append, beBytes_length']
  rfl

theorem storeOk_setJs {w : World} (h : StoreOk w) (js : Journal.JState) : StoreOk { w with js := js } := h

theorem applyAuth_store {e : Evm.Env} {w w' : World} {a : Auth} {b : Bool} (h : applyAuth e w a = .ok (w', b))
    (hs : StoreOk w) : StoreOk w' := by
  unfold applyAuth at h
  simp only [pure, Except.pure] at h
  split at h
  · simp only [Except.ok.injEq, Prod.mk.injEq] at h; rw [← h.1]; exact hs
  · split at h
    · simp only [Except.ok.injEq, Prod.mk.injEq] at h; rw [← h.1]; exact hs
    · split at h
      · rename_i authority hau
        obtain ⟨⟨w1, c⟩, h1, h⟩ := bind_ok h
        have d1 := hs.eq (w_loadCode_store h1)
        obtain ⟨acc, _, h⟩ := bind_ok h
        obtain ⟨hh, _, h⟩ := bind_ok h
        obtain ⟨code, _, h⟩ := bind_ok h
        split at h
        · simp only [Except.ok.injEq, Prod.mk.injEq] at h; rw [← h.1]; exact d1
        · split at h
          · simp only [Except.ok.injEq, Prod.mk.injEq] at h; rw [← h.1]; exact d1
          · simp only [Except.ok.injEq, Prod.mk.injEq] at h
            rw [← h.1]
            have hd : (designator a.address).length ≤ ISZ := by
              rw [designator_length]; unfold Memory.ISIZE_MAX; decide
            generalize Keccak.keccak256w (designator a.address) = kh
            generalize designator a.address = bytes at hd ⊢
            by_cases hz : a.address = 0
            · simp only [hz, if_true]; exact storeOk_setJs d1 _
            · simp only [hz, if_false]
              exact storeOk_setJs (addCode_storeOk d1 kh bytes hd) _
      · simp only [Except.ok.injEq, Prod.mk.injEq] at h; rw [← h.1]; exact hs

theorem forIn_keepsP {α σ : Type} (f : α → σ → R (ForInStep σ)) (P : σ → Prop)
    (hf : ∀ a s st, P s → f a s = .ok st → ∃ s', st = .yield s' ∧ P s') :
    ∀ (l : List α) (s r : σ), P s → forIn (m := R) l s f = .ok r → P r := by
  intro l
  induction l with
  | nil =>
    intro s r hp h
    simp only [List.forIn_nil, pure, Except.pure, Except.ok.injEq] at h
    subst h; exact hp
  | cons a l ih =>
    intro s r hp h
    rw [List.forIn_cons] at h
    obtain ⟨st, h1, h2⟩ := bind_ok h
    obtain ⟨s', rfl, hp'⟩ := hf a s st hp h1
    exact ih _ _ hp' h2

theorem applyAuthList_store {e : Evm.Env} {spec : Nat} {w w' : World} {r : Nat}
    (h : applyAuthList e spec w = .ok (w', r)) (hs : StoreOk w) : StoreOk w' := by
  unfold applyAuthList at h
  simp only [bind, Except.bind, pure, Except.pure] at h
  split at h
  · simp only [Except.ok.injEq, Prod.mk.injEq] at h; rw [← h.1]; exact hs
  · cases hal : e.tx.authList with
    | none =>
      rw [hal] at h
      simp only [Except.ok.injEq, Prod.mk.injEq] at h; rw [← h.1]; exact hs
    | some l =>
      rw [hal] at h
      simp only at h
      split at h
      · cases h
      · rename_i v hv
        simp only [Except.ok.injEq, Prod.mk.injEq] at h
        rw [← h.1]
        exact forIn_keepsP _ (fun s : World × Nat => StoreOk s.1) (by
          intro a s st hp hst
          split at hst
          · cases hst
          · rename_i v' hv'
            have := applyAuth_store (w' := v'.1) (b := v'.2) hv' hp
            split at hst
            · simp only [Except.ok.injEq] at hst; subst hst; exact ⟨_, rfl, this⟩
            · simp only [Except.ok.injEq] at hst; subst hst; exact ⟨_, rfl, this⟩) l (w, 0) v hs hv

/-- **the first frame satisfies the invariant of part 2** -/
theorem prepare_si (pco : PcOut) {e : Evm.Env} {spec ig : Nat} {w w2 : World} {f : JFrame} {isCreate k}
    (h : prepare journalOps e spec ig w = .ok (.frame f, w2, isCreate, k)) (hs : StoreOk w)
    (hdata : e.tx.data.length ≤ ISZ) (hgl : e.tx.gasLimit ≤ U64 - 2) (hig : ig ≤ e.tx.gasLimit)
    (henv : Revm.Proofs.Interp.EnvOk (e.toCfg spec).spec (e.toCfg spec).env) : SI [f] w2 := by
  have hU := U64_val
  unfold prepare at h
  obtain ⟨wd, hd, h⟩ := bind_ok h
  obtain ⟨⟨wa, rf⟩, hauth, h⟩ := bind_ok h
  have sa : StoreOk wa := applyAuthList_store hauth ((hs.eq (loadAccounts_store e spec w)).eq (deductCaller_store hd))
  have hg : U64ops.wsub e.tx.gasLimit ig ≤ U64 - 2 := by
    rw [Revm.Proofs.Gas.wsub_of_le _ _ (by omega) hig]; omega
  have hnew : WF Memory.new := Revm.Proofs.Memory.new_wf
  have hnl : Memory.new.buffer.length ≤ 2^62 := by show 0 ≤ _; exact Nat.zero_le _
  have fin : ∀ (a : Interp.Action) (w3 : World), makeFrame journalOps (e.toCfg spec) wa a Memory.new = .ok (.frame f, w3) →
      dataLen a ≤ ISZ → a.gasLimit = U64ops.wsub e.tx.gasLimit ig → SI [f] w3 := by
    intro a w3 hmk hd hgas
    obtain ⟨i1, i2, i3, _⟩ := makeFrame_init pco hmk sa hd (by rw [hgas]; omega) henv hnew hnl
    refine ⟨⟨i1, ?_, trivial, trivial⟩, ?_, sa.eq (makeFrame_out pco hmk sa hd).store⟩
    · rw [i3]; show (0 : Nat) ≤ _; exact Nat.zero_le _
    · simp only [msum]
      rw [i2, hgas, Nat.add_zero]; exact hg
  have finCall : ∀ (i : Interp.CallInputs) (w3 : World),
      makeCallFrame journalOps (e.toCfg spec) wa i Memory.new = .ok (.frame f, w3) →
      i.input.length ≤ ISZ → i.gasLimit = U64ops.wsub e.tx.gasLimit ig → SI [f] w3 :=
    fun i w3 hmk hd hgas => fin (.call i) w3 hmk hd hgas
  have finCreate : ∀ (i : Interp.CreateInputs) (w3 : World),
      makeCreateFrame journalOps (e.toCfg spec) wa i Memory.new = .ok (.frame f, w3) →
      i.initCode.length ≤ ISZ → i.gasLimit = U64ops.wsub e.tx.gasLimit ig → SI [f] w3 :=
    fun i w3 hmk hd hgas => fin (.create i) w3 hmk hd hgas
  clear fin
  simp only at h
  split at h
  · obtain ⟨⟨f', wf⟩, hmk, h⟩ := bind_ok h
    simp only [pure, Except.pure, Except.ok.injEq, Prod.mk.injEq] at h
    obtain ⟨rfl, rfl, _, _⟩ := h
    exact finCall _ _ hmk hdata rfl
  · obtain ⟨⟨f', wf⟩, hmk, h⟩ := bind_ok h
    simp only [pure, Except.pure, Except.ok.injEq, Prod.mk.injEq] at h
    obtain ⟨rfl, rfl, _, _⟩ := h
    exact finCreate _ _ hmk hdata rfl

/-- a validated environment satisfies C25's `EnvOk` -/
theorem envOk_of_validate {e : Evm.Env} {spec : Nat} (h : Evm.validateEnv e spec = .ok true) :
    Revm.Proofs.Interp.EnvOk (e.toCfg spec).spec (e.toCfg spec).env := by
  intro hm
  show e.block.prevrandao ≠ none
  intro hn
  unfold Evm.validateEnv at h
  simp only [hn, Option.isNone_none, and_true] at h
  have hm' : GasCalc.enabled spec GasCalc.SpecId.MERGE = true := hm
  simp only [hm', if_true, pure, Except.pure] at h
  cases h

end Revm.Proofs.EvmLink
