import Revm.Proofs.Ether
/-! Proofs for C08, part 2: every operation of the code-shaped journal model acts on
(observable balances, balance entries of the journal) like the balance machine of `Spec/Ether.lean`. -/
namespace Revm.Proofs.Ether
open Revm Revm.Model.Journal Revm.Spec.JournalAbs Revm.Spec.Ether

def absB (db : Db) (s : JState) : BState := { f := bal db s, j := JB s }

theorem bal_some {db : Db} {s : JState} {a : Addr} {acc : Acct} (h : s.state a = some acc) :
    bal db s a = acc.info.balance := by
  simp only [bal, absAcct, h]

theorem bal_none {db : Db} {s : JState} {a : Addr} (h : s.state a = none) :
    bal db s a = ((db.basic a).getD Info.default).balance := by
  simp only [bal, absAcct, h]

theorem bal_setAcct (db : Db) (s : JState) (a : Addr) (acc : Acct) :
    bal db (setAcct s a acc) = upd (bal db s) a acc.info.balance := by
  funext x
  by_cases hx : x = a
  · subst hx
    rw [upd_same, bal_some (acc := acc)]; simp [setAcct]
  · rw [upd_other _ _ hx]
    have : (setAcct s a acc).state x = s.state x := by simp [setAcct, hx]
    cases hs : s.state x with
    | none => rw [bal_none (this.trans hs), bal_none hs]
    | some ac => rw [bal_some (this.trans hs), bal_some hs]

/-- nothing observable about balances changed, and no balance entry was journaled -/
def Same (db : Db) (s s' : JState) : Prop := bal db s' = bal db s ∧ JB s' = JB s

theorem Same.refl (db : Db) (s : JState) : Same db s s := ⟨rfl, rfl⟩
theorem Same.trans {db : Db} {s s' s'' : JState} (h1 : Same db s s') (h2 : Same db s' s'') : Same db s s'' :=
  ⟨h2.1.trans h1.1, h2.2.trans h1.2⟩
theorem Same.absB {db : Db} {s s' : JState} (h : Same db s s') : absB db s' = absB db s := by
  simp only [Proofs.Ether.absB, h.1, h.2]

/-- rewriting an account without touching its balance -/
theorem same_setAcct {db : Db} {s : JState} {a : Addr} {acc : Acct} (h : acc.info.balance = bal db s a) :
    Same db s (setAcct s a acc) := by
  refine ⟨?_, rfl⟩
  rw [bal_setAcct, h]
  funext x; by_cases hx : x = a
  · subst hx; rw [upd_same]
  · rw [upd_other _ _ hx]

theorem pushEntry_state {s s' : JState} {e : Entry} (h : pushEntry s e = some s') :
    s'.state = s.state ∧ JB s' = if isBal e then e :: JB s else JB s := by
  unfold pushEntry at h
  split at h
  · cases h
  · rename_i l rest hj
    cases h
    refine ⟨rfl, ?_⟩
    simp only [JB, hj, List.flatten_cons, List.cons_append, List.filter_cons]

theorem bal_congr_state {db : Db} {s s' : JState} (h : s'.state = s.state) : bal db s' = bal db s := by
  funext x
  cases hs : s.state x with
  | none => rw [bal_none (h ▸ hs), bal_none hs]
  | some ac => rw [bal_some (h ▸ hs), bal_some hs]

theorem setAcct_at (s : JState) (a : Addr) (acc : Acct) : (setAcct s a acc).state a = some acc := by
  simp [setAcct]
theorem setAcct_ne (s : JState) {a x : Addr} (acc : Acct) (h : x ≠ a) : (setAcct s a acc).state x = s.state x := by
  simp [setAcct, h]

theorem same_pushEntry {db : Db} {s s' : JState} {e : Entry} (h : pushEntry s e = some s') (he : isBal e = false) :
    Same db s s' := by
  obtain ⟨h1, h2⟩ := pushEntry_state h
  exact ⟨bal_congr_state h1, by rw [h2, he]; rfl⟩

theorem touchAccount_same {db : Db} {s s' : JState} {a : Addr} {acc acc' : Acct}
    (hs : s.state a = some acc) (h : touchAccount s a acc = some (s', acc')) :
    Same db s s' ∧ s'.state a = some acc' ∧ acc'.info = acc.info ∧ acc'.created = acc.created ∧
      acc'.selfdestructed = acc.selfdestructed := by
  unfold touchAccount at h
  split at h
  · simp only [bind, Option.bind] at h
    split at h
    · cases h
    · rename_i s1 hp
      cases h
      have h1 := same_pushEntry (db := db) hp rfl
      refine ⟨h1.trans (same_setAcct ?_), setAcct_at _ _ _, rfl, rfl, rfl⟩
      rw [h1.1]; exact (bal_some hs).symm
  · cases h; exact ⟨Same.refl _ _, hs, rfl, rfl, rfl⟩

theorem loadAccount_same {db : Db} {s s' : JState} {a : Addr} {c : Bool}
    (h : loadAccount db s a = some (s', c)) : Same db s s' ∧ ∃ acc, s'.state a = some acc := by
  unfold loadAccount at h
  split at h
  · rename_i acc hs
    have h0 : Same db s (setAcct s a { acc with cold := false }) := same_setAcct (bal_some hs).symm
    simp only [] at h
    split at h
    · cases hp : pushEntry (setAcct s a { acc with cold := false }) (.accountWarmed a) with
      | none => simp [hp] at h
      | some s1 =>
        simp [hp] at h
        obtain ⟨rfl, _⟩ := h
        have h1 := same_pushEntry (db := db) hp rfl
        exact ⟨h0.trans h1, ⟨_, by rw [(pushEntry_state hp).1]; exact setAcct_at _ _ _⟩⟩
    · cases h; exact ⟨h0, ⟨_, setAcct_at _ _ _⟩⟩
  · rename_i hs
    have key : ∀ acc0 : Acct, acc0.info.balance = ((db.basic a).getD Info.default).balance →
        (if (!s.preloaded a) = true then
            Option.map (fun x => (x, true)) (pushEntry (setAcct s a acc0) (Entry.accountWarmed a))
          else some (setAcct s a acc0, false)) = some (s', c) →
        Same db s s' ∧ ∃ acc, s'.state a = some acc := by
      intro acc0 hacc h
      have h0 : Same db s (setAcct s a acc0) := same_setAcct (hacc.trans (bal_none hs).symm)
      split at h
      · cases hp : pushEntry (setAcct s a acc0) (.accountWarmed a) with
        | none => simp [hp] at h
        | some s1 =>
          simp [hp] at h
          obtain ⟨rfl, _⟩ := h
          have h1 := same_pushEntry (db := db) hp rfl
          exact ⟨h0.trans h1, ⟨_, by rw [(pushEntry_state hp).1]; exact setAcct_at _ _ _⟩⟩
      · cases h; exact ⟨h0, ⟨_, setAcct_at _ _ _⟩⟩
    cases hb : db.basic a with
    | none => simp only [hb] at h key; exact key _ rfl h
    | some i => simp only [hb] at h key; exact key _ rfl h

/-! ## transfer -/

def resOf : Option TransferErr → TransferResult
  | none => .ok
  | some .outOfFunds => .outOfFunds
  | some .overflowPayment => .overflowPayment

theorem absB_eq {db : Db} {s : JState} {f : Addr → Nat} {j : List Entry} (h1 : bal db s = f) (h2 : JB s = j) :
    absB db s = { f := f, j := j } := by simp only [absB, h1, h2]

theorem transfer_refines {db : Db} {s s' : JState} {src dst v : Nat} {r : Option TransferErr}
    (hok : FOk (bal db s)) (h : transfer db s src dst v = some (s', r)) :
    absB db s' = (bTransfer (absB db s) src dst v).1 ∧ resOf r = (bTransfer (absB db s) src dst v).2 := by
  unfold transfer at h
  simp only [bind, Option.bind_eq_some_iff] at h
  obtain ⟨⟨s1, c1⟩, h1, ⟨s2, c2⟩, h2, fromAcc, h3, ⟨s3, fromAcc'⟩, h4, h⟩ := h
  simp only [] at h2 h3 h4 h
  obtain ⟨e1, _⟩ := loadAccount_same h1
  obtain ⟨e2, _⟩ := loadAccount_same h2
  obtain ⟨e3, hs3, hi3, _, _⟩ := touchAccount_same (db := db) h3 h4
  have e123 := (e1.trans e2).trans e3
  have hb : fromAcc'.info.balance = bal db s src := by
    rw [hi3, ← bal_some (db := db) h3, e2.1, e1.1]
  unfold bTransfer
  simp only [absB]
  split at h
  · rename_i hlt
    cases h
    rw [hb] at hlt
    simp only [hlt, if_true, resOf, and_true]
    exact e123.absB
  · rename_i hge
    rw [hb] at hge
    simp only [hge, if_false]
    simp only [Option.bind_eq_some_iff] at h
    obtain ⟨toAcc, h5, ⟨s4, toAcc'⟩, h6, h⟩ := h
    simp only [] at h6 h
    -- the debited state
    have hd : bal db (setAcct s3 src { fromAcc' with info := { fromAcc'.info with balance := fromAcc'.info.balance - v } })
        = upd (bal db s) src (bal db s src - v) := by
      rw [bal_setAcct, e123.1, hb]
    have hdj : JB (setAcct s3 src { fromAcc' with info := { fromAcc'.info with balance := fromAcc'.info.balance - v } }) = JB s := e123.2
    obtain ⟨e4, hs4, hi4, _, _⟩ := touchAccount_same (db := db) h5 h6
    have hb4 : toAcc'.info.balance = upd (bal db s) src (bal db s src - v) dst := by
      rw [hi4, ← bal_some (db := db) h5, hd]
    split at h
    · rename_i hov
      rw [hb4] at hov
      simp only [Option.bind_eq_some_iff] at h
      obtain ⟨f, h7, h⟩ := h
      cases h
      simp only [hov, if_true, resOf, and_true]
      apply absB_eq
      · rw [bal_setAcct]
        show upd (bal db s4) src (U256.wadd f.info.balance v) = _
        have hf : f.info.balance = bal db s src - v := by
          rw [← bal_some (db := db) h7, e4.1, hd, upd_same]
        have hs := hok src
        rw [hf, e4.1, hd, wadd_eq (by omega)]
        apply fun_eq2 src src
        · rw [upd_same]; omega
        · rw [upd_same]; omega
        · intro x hx _; rw [upd_other _ _ hx, upd_other _ _ hx]
      · show JB s4 = _
        rw [e4.2, hdj]
    · rename_i hno
      rw [hb4] at hno
      simp only [Option.bind_eq_some_iff] at h
      obtain ⟨s5, h7, h⟩ := h
      cases h
      simp only [hno, if_false, resOf, and_true]
      obtain ⟨hst, hj⟩ := pushEntry_state h7
      apply absB_eq
      · rw [bal_congr_state hst, bal_setAcct, e4.1, hd, hb4]
      · rw [hj, show isBal (.balanceTransfer src dst v) = true from rfl, if_pos rfl]
        show _ :: JB s4 = _
        rw [e4.2, hdj]

/-! ## undo -/

theorem bal_setAcct_same {db : Db} {s : JState} {a : Addr} {acc acc' : Acct}
    (hb : acc'.info.balance = acc.info.balance) (hs : s.state a = some acc) :
    bal db (setAcct s a acc') = bal db s :=
  (same_setAcct (hb.trans (bal_some hs).symm)).1

theorem undoBal_noBal (f : Addr → Nat) {e : Entry} (h : isBal e = false) : undoBal f e = f := by
  cases e <;> first | rfl | cases h

theorem undoAll_filter (f : Addr → Nat) (es : List Entry) : undoAll f (es.filter isBal) = undoAll f es := by
  induction es generalizing f with
  | nil => rfl
  | cons e es ih =>
    by_cases he : isBal e = true
    · rw [List.filter_cons_of_pos he]; simp only [undoAll]; exact ih _
    · have he' : isBal e = false := by simpa using he
      rw [List.filter_cons_of_neg he]; simp only [undoAll]; rw [undoBal_noBal f he']; exact ih _

theorem undoEntry_bal {db : Db} {sd : Bool} {s s' : JState} {e : Entry} (h : undoEntry sd s e = some s') :
    bal db s' = undoBal (bal db s) e ∧ s'.journal = s.journal := by
  cases e
  case balanceTransfer src dst v =>
    simp only [undoEntry] at h
    simp only [bind, Option.bind_eq_some_iff] at h
    obtain ⟨f, h1, t, h2, h⟩ := h
    cases h
    refine ⟨?_, rfl⟩
    simp only [undoBal]
    rw [bal_setAcct, bal_setAcct]
    show upd (upd (bal db s) src (U256.wadd f.info.balance v)) dst (bsub t.info.balance v) = _
    rw [← bal_some (db := db) h2, bal_setAcct]
    show upd (upd (bal db s) src (U256.wadd f.info.balance v)) dst (bsub (upd (bal db s) src (U256.wadd f.info.balance v) dst) v) = _
    rw [← bal_some (db := db) h1]
  case accountDestroyed a t wd had =>
    simp only [undoEntry] at h
    simp only [bind, Option.bind_eq_some_iff] at h
    obtain ⟨acc, h1, h⟩ := h
    simp only [undoBal]
    split at h
    · rename_i hat
      simp only [Option.bind_eq_some_iff] at h
      obtain ⟨tt, h2, h⟩ := h
      cases h
      refine ⟨?_, rfl⟩
      rw [if_pos hat, bal_setAcct]
      show upd (bal db _) t (bsub tt.info.balance had) = _
      rw [← bal_some (db := db) h2, bal_setAcct]
      show upd (upd (bal db s) a (U256.wadd acc.info.balance had)) t _ = _
      rw [← bal_some (db := db) h1]
    · rename_i hat
      cases h
      refine ⟨?_, rfl⟩
      rw [if_neg hat, bal_setAcct]
      show upd (bal db s) a (U256.wadd acc.info.balance had) = _
      rw [← bal_some (db := db) h1]
  case accountWarmed a =>
    simp only [undoEntry] at h
    simp only [bind, Option.bind_eq_some_iff] at h
    obtain ⟨acc, h1, h⟩ := h
    cases h
    refine ⟨?_, rfl⟩
    exact bal_setAcct_same (acc := acc) rfl h1
  case accountTouched a =>
    simp only [undoEntry] at h
    split at h
    · cases h; exact ⟨rfl, rfl⟩
    · simp only [bind, Option.bind_eq_some_iff] at h
      obtain ⟨acc, h1, h⟩ := h
      cases h
      refine ⟨?_, rfl⟩
      exact bal_setAcct_same (acc := acc) rfl h1
  case nonceChange a =>
    simp only [undoEntry] at h
    simp only [bind, Option.bind_eq_some_iff] at h
    obtain ⟨acc, h1, h⟩ := h
    cases h
    refine ⟨?_, rfl⟩
    exact bal_setAcct_same (acc := acc) rfl h1
  case accountCreated a =>
    simp only [undoEntry] at h
    simp only [bind, Option.bind_eq_some_iff] at h
    obtain ⟨acc, h1, h⟩ := h
    cases h
    refine ⟨?_, rfl⟩
    exact bal_setAcct_same (acc := acc) rfl h1
  case codeChange a =>
    simp only [undoEntry] at h
    simp only [bind, Option.bind_eq_some_iff] at h
    obtain ⟨acc, h1, h⟩ := h
    cases h
    refine ⟨?_, rfl⟩
    exact bal_setAcct_same (acc := acc) rfl h1
  case storageWarmed a k =>
    simp only [undoEntry] at h
    simp only [bind, Option.bind_eq_some_iff] at h
    obtain ⟨acc, h1, sl, h2, h⟩ := h
    cases h
    refine ⟨?_, rfl⟩
    exact bal_setAcct_same (acc := acc) rfl h1
  case storageChanged a k had =>
    simp only [undoEntry] at h
    simp only [bind, Option.bind_eq_some_iff] at h
    obtain ⟨acc, h1, sl, h2, h⟩ := h
    cases h
    refine ⟨?_, rfl⟩
    exact bal_setAcct_same (acc := acc) rfl h1
  case transientChange a k had =>
    simp only [undoEntry] at h
    cases h
    exact ⟨bal_congr_state rfl, rfl⟩


theorem undoLevel_bal {db : Db} {sd : Bool} {s s' : JState} {es : List Entry} (h : undoLevel sd s es = some s') :
    bal db s' = undoAll (bal db s) es ∧ s'.journal = s.journal := by
  induction es generalizing s with
  | nil => simp only [undoLevel] at h; cases h; exact ⟨rfl, rfl⟩
  | cons e es ih =>
    simp only [undoLevel, bind, Option.bind_eq_some_iff] at h
    obtain ⟨s1, h1, h2⟩ := h
    obtain ⟨a1, a2⟩ := undoEntry_bal (db := db) h1
    obtain ⟨b1, b2⟩ := ih h2
    exact ⟨by rw [b1, a1]; rfl, b2.trans a2⟩

theorem undoLevels_bal {db : Db} {sd : Bool} {s s' : JState} {ls : List (List Entry)} (h : undoLevels sd s ls = some s') :
    bal db s' = undoAll (bal db s) ls.flatten ∧ s'.journal = s.journal := by
  induction ls generalizing s with
  | nil => simp only [undoLevels] at h; cases h; exact ⟨rfl, rfl⟩
  | cons l ls ih =>
    simp only [undoLevels, bind, Option.bind_eq_some_iff] at h
    obtain ⟨s1, h1, h2⟩ := h
    obtain ⟨a1, a2⟩ := undoLevel_bal (db := db) h1
    obtain ⟨b1, b2⟩ := ih h2
    refine ⟨?_, b2.trans a2⟩
    rw [b1, a1, List.flatten_cons, undoAll_append]

/-- number of balance entries in the `k` innermost journal levels -/
def balCount (s : JState) (k : Nat) : Nat := ((s.journal.take k).flatten.filter isBal).length

theorem revert_refines {db : Db} {s s' : JState} {cp : Checkpoint} (h : revert s cp = some s') :
    absB db s' = bRevert (absB db s) (balCount s (s.journal.length - cp.journalI)) := by
  unfold revert at h
  simp only [] at h
  split at h
  · cases h
  · split at h
    · cases h
    · rename_i s1 h1
      cases h
      obtain ⟨a1, _⟩ := undoLevels_bal (db := db) h1
      generalize s.journal.length - cp.journalI = n at *
      have hsplit : JB s = (s.journal.take n).flatten.filter isBal ++ (s.journal.drop n).flatten.filter isBal := by
        rw [← List.filter_append, ← List.flatten_append, List.take_append_drop]; rfl
      simp only [bRevert, absB, balCount]
      apply absB_eq
      · rw [hsplit, List.take_left, undoAll_filter]
        rw [← a1]; exact bal_congr_state rfl
      · rw [hsplit, List.drop_left]; rfl


/-! ## selfdestruct -/

theorem pushEntry_JB_bal {s s' : JState} {e : Entry} (h : pushEntry s e = some s') (he : isBal e = true) :
    JB s' = e :: JB s := by
  rw [(pushEntry_state h).2, if_pos he]

/-- "created in this transaction" flag of an address (false when the account is not loaded) -/
def crt (s : JState) (a : Addr) : Bool := match s.state a with | some acc => acc.created | none => false

/-- the created flags and the hard fork did not change -/
def SameC (s s' : JState) : Prop := (∀ x, crt s' x = crt s x) ∧ s'.spec = s.spec

theorem SameC.refl (s : JState) : SameC s s := ⟨fun _ => rfl, rfl⟩
theorem SameC.trans {s s' s'' : JState} (h1 : SameC s s') (h2 : SameC s' s'') : SameC s s'' :=
  ⟨fun x => (h2.1 x).trans (h1.1 x), h2.2.trans h1.2⟩

theorem crt_some {s : JState} {a : Addr} {acc : Acct} (h : s.state a = some acc) : crt s a = acc.created := by
  simp only [crt, h]

theorem sameC_setAcct {s : JState} {a : Addr} {acc : Acct} (h : acc.created = crt s a) : SameC s (setAcct s a acc) := by
  refine ⟨fun x => ?_, rfl⟩
  by_cases hx : x = a
  · subst hx; rw [crt_some (setAcct_at _ _ _), h]
  · simp only [crt, setAcct_ne s acc hx]

theorem sameC_pushEntry {s s' : JState} {e : Entry} (h : pushEntry s e = some s') : SameC s s' := by
  unfold pushEntry at h
  split at h
  · cases h
  · cases h; exact ⟨fun _ => rfl, rfl⟩

theorem touchAccount_sameC {s s' : JState} {a : Addr} {acc acc' : Acct}
    (hs : s.state a = some acc) (h : touchAccount s a acc = some (s', acc')) : SameC s s' := by
  unfold touchAccount at h
  split at h
  · simp only [bind, Option.bind_eq_some_iff] at h
    obtain ⟨s1, hp, h⟩ := h
    cases h
    have h1 := sameC_pushEntry hp
    refine h1.trans (sameC_setAcct ?_)
    rw [h1.1, crt_some hs]
  · cases h; exact SameC.refl _

theorem loadAccount_sameC {db : Db} {s s' : JState} {a : Addr} {c : Bool}
    (h : loadAccount db s a = some (s', c)) : SameC s s' := by
  unfold loadAccount at h
  have key : ∀ acc0 : Acct, acc0.created = crt s a → ∀ b : Bool,
      (if b = true then
          Option.map (fun x => (x, true)) (pushEntry (setAcct s a acc0) (Entry.accountWarmed a))
        else some (setAcct s a acc0, false)) = some (s', c) → SameC s s' := by
    intro acc0 hacc b h
    have h0 : SameC s (setAcct s a acc0) := sameC_setAcct hacc
    split at h
    · cases hp : pushEntry (setAcct s a acc0) (.accountWarmed a) with
      | none => simp [hp] at h
      | some s1 =>
        simp [hp] at h
        obtain ⟨rfl, _⟩ := h
        exact h0.trans (sameC_pushEntry hp)
    · cases h; exact h0
  split at h
  · rename_i acc hs
    simp only [] at h
    exact key { acc with cold := false } (crt_some hs).symm acc.cold h
  · rename_i hs
    have hc : crt s a = false := by simp only [crt, hs]
    cases hb : db.basic a with
    | none => simp only [hb] at h; exact key _ (by rw [hc]; rfl) _ h
    | some i => simp only [hb] at h; exact key _ (by rw [hc]; rfl) _ h

/-- `selfdestruct` acts like the balance machine; `created` is the account's created-in-this-
transaction flag, `cancun` whether EIP-6780 is active -/
theorem selfdestruct_refines {db : Db} {s s' : JState} {a t : Addr} {res : Bool × Bool × Bool × Bool}
    (h : selfdestruct db s a t = some (s', res)) :
    ∃ prev, absB db s' = bSelfdestruct (absB db s) a t (crt s a) (decide (s.spec ≥ CANCUN)) prev := by
  unfold selfdestruct at h
  simp only [bind, Option.bind_eq_some_iff] at h
  obtain ⟨⟨s1, c1⟩, h1, tacc, h2, s2, h3, acc, h4, s3, h5, h⟩ := h
  simp only [] at h2 h3 h4 h5 h
  cases h
  obtain ⟨e1, _⟩ := loadAccount_same (db := db) h1
  have c1' := loadAccount_sameC h1
  -- the credit of the target
  have step2 : bal db s2 = (if a ≠ t then upd (bal db s) t (U256.wadd (bal db s t) (bal db s a)) else bal db s) ∧
      JB s2 = JB s ∧ SameC s s2 := by
    split at h3
    · rename_i hat
      simp only [Option.bind_eq_some_iff] at h3
      obtain ⟨acc0, g1, t0, g2, ⟨s1', t1⟩, g3, g4⟩ := h3
      cases g4
      obtain ⟨e2, hs2, hi2, hc2, _⟩ := touchAccount_same (db := db) g2 g3
      have c2 := touchAccount_sameC g2 g3
      refine ⟨?_, ?_, ?_⟩
      · rw [if_pos hat, bal_setAcct]
        show upd (bal db s1') t (U256.wadd t1.info.balance acc0.info.balance) = _
        rw [hi2, ← bal_some (db := db) g2, ← bal_some (db := db) g1, e2.1, e1.1]
      · show JB s1' = _
        rw [e2.2, e1.2]
      · refine (c1'.trans c2).trans (sameC_setAcct ?_)
        show t1.created = _
        rw [hc2, c2.1, crt_some g2]
    · rename_i hat
      cases h3
      rw [if_neg hat]
      exact ⟨e1.1, e1.2, c1'⟩
  obtain ⟨b2, j2, c2⟩ := step2
  have hbal : acc.info.balance = bal db s2 a := (bal_some h4).symm
  have hcr : acc.created = crt s a := by rw [← crt_some h4, c2.1]
  have hsp : s2.spec = s.spec := c2.2
  refine ⟨acc.selfdestructed, ?_⟩
  unfold bSelfdestruct
  simp only [absB]
  rw [← b2, ← hbal, ← hcr, ← hsp]
  split at h5
  · rename_i hc
    rw [if_pos hc]
    obtain ⟨hst, hj⟩ := pushEntry_state h5
    apply absB_eq
    · rw [bal_congr_state hst, bal_setAcct]
    · rw [pushEntry_JB_bal h5 rfl]; show _ :: JB s2 = _; rw [j2]
  · rename_i hc
    rw [if_neg hc]
    split at h5
    · rename_i hat
      rw [if_pos hat]
      obtain ⟨hst, hj⟩ := pushEntry_state h5
      apply absB_eq
      · rw [bal_congr_state hst, bal_setAcct]
      · rw [pushEntry_JB_bal h5 rfl]; show _ :: JB s2 = _; rw [j2]
    · rename_i hat
      rw [if_neg hat]
      cases h5
      exact absB_eq rfl j2


/-! ## create_account_checkpoint -/

/-- the innermost journal level sits on top of `J0` and holds no balance entry -/
def Top (s : JState) (J0 : List (List Entry)) : Prop := ∃ es, s.journal = es :: J0 ∧ es.filter isBal = []

theorem top_push {s s' : JState} {J0} {e : Entry} (ht : Top s J0) (h : pushEntry s e = some s')
    (he : isBal e = false) : Top s' J0 := by
  obtain ⟨es, h1, h2⟩ := ht
  unfold pushEntry at h
  rw [h1] at h
  cases h
  exact ⟨e :: es, rfl, by rw [List.filter_cons_of_neg (by simp [he]), h2]⟩

theorem top_touch {s s' : JState} {J0} {a : Addr} {acc acc' : Acct} (ht : Top s J0)
    (h : touchAccount s a acc = some (s', acc')) : Top s' J0 := by
  unfold touchAccount at h
  split at h
  · simp only [bind, Option.bind_eq_some_iff] at h
    obtain ⟨s1, hp, h⟩ := h
    cases h
    have := top_push (e := .accountTouched a) ht hp rfl
    exact this
  · cases h; exact ht

theorem bRevert_zero (b : BState) : bRevert b 0 = b := by
  cases b; simp [bRevert, undoAll]

theorem revert_top {db : Db} {s s' : JState} {J0} {cp : Checkpoint} (ht : Top s J0)
    (hcp : cp.journalI = J0.length) (h : revert s cp = some s') : absB db s' = absB db s := by
  obtain ⟨es, h1, h2⟩ := ht
  rw [revert_refines h]
  have : balCount s (s.journal.length - cp.journalI) = 0 := by
    rw [h1, hcp]
    simp only [balCount, h1, List.length_cons, Nat.add_sub_cancel_left, List.take_succ_cons, List.take_zero,
      List.flatten_cons, List.flatten_nil, List.append_nil, h2, List.length_nil]
  rw [this, bRevert_zero]

inductive CreateOutcome | ok | collision | overflowPayment deriving DecidableEq, Repr

def createOutcome : Except CreateErr Checkpoint → CreateOutcome
  | .ok _ => .ok
  | .error .collision => .collision
  | .error .overflowPayment => .overflowPayment

theorem create_refines {db : Db} {s s' : JState} {caller a : Addr} {hs : Bool} {v spec : Nat}
    {r : Except CreateErr Checkpoint} (h : createAccountCheckpoint s caller a hs v spec = some (s', r)) :
    (createOutcome r = .ok → bal db s a + v < W ∧ absB db s' = bCreateOk (absB db s) caller a v) ∧
    (createOutcome r ≠ .ok → absB db s' = absB db s) ∧
    (createOutcome r = .overflowPayment → W ≤ bal db s a + v) := by
  unfold createAccountCheckpoint at h
  simp only [checkpoint, bind, Option.bind_eq_some_iff] at h
  obtain ⟨acc, h1, h⟩ := h
  -- the state after `checkpoint`
  generalize hs0 : ({ s with depth := incU64 s.depth, journal := [] :: s.journal } : JState) = s0 at h1 h
  have e0 : Same db s s0 := by
    subst hs0; exact ⟨bal_congr_state rfl, by simp [JB]⟩
  have t0 : Top s0 s.journal := by subst hs0; exact ⟨[], rfl, rfl⟩
  have hba : acc.info.balance = bal db s a := (bal_some h1).symm
  split at h
  · simp only [Option.bind_eq_some_iff] at h
    obtain ⟨s1, h2, h⟩ := h
    cases h
    simp only [createOutcome]
    refine ⟨(fun hh => by cases hh), (fun _ => ?_), (fun hh => by cases hh)⟩
    rw [revert_top t0 rfl h2]; exact e0.absB
  · simp only [Option.bind_eq_some_iff] at h
    obtain ⟨s1, h2, ⟨s2, acc2⟩, h3, h⟩ := h
    simp only [] at h3 h
    have e1 : Same db s0 s1 := (same_setAcct (db := db) (s := s0) (a := a) (acc := { acc with created := true })
      (by rw [e0.1]; exact hba)).trans (same_pushEntry h2 rfl)
    have t1 : Top s1 s.journal := top_push (s := setAcct s0 a { acc with created := true }) t0 h2 rfl
    have hst1 : s1.state a = some { acc with created := true } := by
      rw [(pushEntry_state h2).1]; exact setAcct_at _ _ _
    have e2 : Same db s1 (setAcct s1 a { acc with created := true, info := { acc.info with code := none } }) :=
      same_setAcct (by rw [e1.1, e0.1]; exact hba)
    obtain ⟨e3, hs3, hi3, _, _⟩ := touchAccount_same (db := db) (setAcct_at _ _ _) h3
    have t2 : Top s2 s.journal := top_touch (s := setAcct s1 a _) t1 h3
    have e03 := ((e0.trans e1).trans e2).trans e3
    have hb2 : acc2.info.balance = bal db s a := by rw [hi3]; exact hba
    split at h
    · rename_i hov
      simp only [Option.bind_eq_some_iff] at h
      obtain ⟨s3, h4, h⟩ := h
      cases h
      simp only [createOutcome]
      refine ⟨(fun hh => by cases hh), (fun _ => ?_), (fun _ => by rw [← hb2]; exact hov)⟩
      rw [revert_top t2 rfl h4]; exact e03.absB
    · rename_i hno
      simp only [Option.bind_eq_some_iff] at h
      obtain ⟨c, h4, s3, h5, h⟩ := h
      cases h
      simp only [createOutcome]
      refine ⟨(fun _ => ⟨by rw [← hb2]; omega, ?_⟩), (fun hh => absurd rfl hh), (fun hh => by cases hh)⟩
      generalize hacc3 : (if spec ≥ SPURIOUS_DRAGON then
            ({ acc2 with info := { acc2.info with balance := acc2.info.balance + v, nonce := 1 } } : Acct)
          else { acc2 with info := { acc2.info with balance := acc2.info.balance + v } }) = acc3 at h4 h5
      have hb3 : acc3.info.balance = bal db s a + v := by
        rw [← hacc3, ← hb2]; split <;> rfl
      have hs4 : bal db (setAcct s2 a acc3) = upd (bal db s) a (bal db s a + v) := by
        rw [bal_setAcct, e03.1, hb3]
      have hc : c.info.balance = upd (bal db s) a (bal db s a + v) caller := by
        rw [← bal_some (db := db) h4, hs4]
      obtain ⟨hst, _⟩ := pushEntry_state h5
      unfold bCreateOk
      apply absB_eq
      · rw [bal_congr_state hst, bal_setAcct, hs4]
        show upd _ caller (bsub c.info.balance v) = _
        rw [hc]; rfl
      · rw [pushEntry_JB_bal h5 rfl]
        show _ :: JB s2 = _
        rw [e03.2]; rfl

end Revm.Proofs.Ether
