import Revm.Proofs.BundleInvMap
/-! Per-account invariants of the bundle state machine (DESIGN A.3) and their preservation by one
committed account of `CacheState::apply_account_state` + `TransitionAccount::update`
(accumulation law inside one merge group). Core Lean only.

For one address: `P` = (info, slots) when the bundle was started, `M` = at the last merge, `R` = now.
`CInv` ties the cache account to `R`, `TInv` ties the accumulated transition to `M → R`,
`BInvAcc` (file BundleInvMerge) ties the bundle account to `P → M`. -/
namespace Revm.Proofs.Bundle
open Revm.Model.Bundle Revm.Spec.Bundle

set_option linter.unusedSimpArgs false

abbrev wc := Info.withoutCode

/-- statuses whose cache info is `Some` -/
def hasInfo : Status → Bool
  | .destroyed | .destroyedAgain | .loadedNotExisting => false
  | _ => true

/-- statuses a transition (and hence a bundle account) can carry -/
def st5 : Status → Bool
  | .inMemoryChange | .changed | .destroyed | .destroyedChanged | .destroyedAgain => true
  | _ => false

/-- "has a non-zero nonce or non-empty code" -/
def ncO : Option Info → Bool
  | some i => !i.hasNoCodeAndNonce
  | none => false

theorem ncO_wc (i : Option Info) : ncO (i.map wc) = ncO i := by cases i <;> rfl
theorem isSome_wc (i : Option Info) : (i.map wc).isSome = i.isSome := by cases i <;> rfl
theorem map_wc_none (i : Option Info) : i.map wc = none ↔ i = none := by cases i <;> simp

theorem isEmpty_wc (i : Info) (h : i.isEmpty = true) : wc i = wc Info.dflt := by
  obtain ⟨b, n, c, f⟩ := i
  simp only [Info.isEmpty, Bool.and_eq_true, beq_iff_eq] at h
  obtain ⟨⟨h1, h2⟩, h3⟩ := h
  subst h1; subst h2; subst h3; rfl

theorem isEmpty_nc (i : Info) (h : i.isEmpty = true) : ncO (some i) = false := by
  simp only [Info.isEmpty, Bool.and_eq_true, beq_iff_eq] at h
  simp [ncO, Info.hasNoCodeAndNonce, h.1.1, h.2]

theorem optSame_wc (a b : Option Info) (h : optSame a b = true) : a.map wc = b.map wc := by
  cases a with
  | none => cases b with
    | none => rfl
    | some y => simp [optSame] at h
  | some x => cases b with
    | none => simp [optSame] at h
    | some y =>
      simp only [optSame, Info.same, Bool.and_eq_true, beq_iff_eq] at h
      obtain ⟨⟨h1, h2⟩, h3⟩ := h
      cases x; cases y; simp_all [Info.withoutCode]

/-- status-dependent facts about an (info, slots) pair -/
structure Facts (s : Status) (info : Option Info) (slots : Nat → Nat) : Prop where
  some_iff : info.isSome = hasInfo s
  changed_nc : s = .changed → ncO info = true
  none_zero : info = none → ∀ k, slots k = 0

theorem Facts.wc_iff (s : Status) (info : Option Info) (slots : Nat → Nat) :
    Facts s (info.map wc) slots ↔ Facts s info slots := by
  constructor
  · intro h; exact ⟨by rw [← isSome_wc]; exact h.some_iff, fun hs => by rw [← ncO_wc]; exact h.changed_nc hs,
      fun hn => h.none_zero ((map_wc_none info).mpr hn)⟩
  · intro h; exact ⟨by rw [isSome_wc]; exact h.some_iff, fun hs => by rw [ncO_wc]; exact h.changed_nc hs,
      fun hn => h.none_zero ((map_wc_none info).mp hn)⟩

/-- cache account vs. current reference account -/
structure CInv (c : CacheAcct) (Ri : Option Info) (Rs : Nat → Nat) : Prop where
  info : c.info.map wc = Ri
  facts : Facts c.status c.info Rs
  emptyEIP : c.status = .loadedEmptyEIP161 → ∀ i, c.info = some i → i.isEmpty = true
  loadedNE : c.status = .loaded → ∀ i, c.info = some i → i.isEmpty = false

/-- `st` describes the slots `r` as a delta over `bs` -/
def SlotsRel (st : BMap Slot) (bs r : Nat → Nat) : Prop :=
  WF st ∧ ∀ k, match st.get k with
    | some s => s.present = r k ∧ s.orig = bs k
    | none => r k = bs k

theorem SlotsRel.get_some {st : BMap Slot} {bs r : Nat → Nat} (h : SlotsRel st bs r) {k : Nat} {s : Slot}
    (hg : st.get k = some s) : s.present = r k ∧ s.orig = bs k := by
  have := h.2 k; rw [hg] at this; exact this

theorem SlotsRel.get_none {st : BMap Slot} {bs r : Nat → Nat} (h : SlotsRel st bs r) {k : Nat}
    (hg : st.get k = none) : r k = bs k := by
  have := h.2 k; rw [hg] at this; exact this

theorem SlotsRel.nil (r : Nat → Nat) : SlotsRel [] r r := ⟨WF_nil, fun _ => rfl⟩

/-- (prev status, status, nonce-or-code, was_destroyed flag) of an accumulated transition -/
def trOK (s0 s : Status) (nc wd : Bool) : Bool :=
  inv s0 s nc && st5 s && !(s0.wasDestroyed && s == .destroyed) && (s.wasDestroyed == (wd || s0.wasDestroyed))

/-- the same when there may be no transition yet (`has = false`: status unchanged since the merge) -/
def gOK (has : Bool) (s0 s : Status) (nc wd : Bool) : Bool :=
  if has then trOK s0 s nc wd else (s0 == s && (s != .changed || nc) && !wd)

/-- accumulated transition vs. (state at last merge → current state) -/
structure TInv (t : Transition) (c : CacheAcct) (Mi : Option Info) (Ms Rs : Nat → Nat) : Prop where
  info : t.info = c.info
  status : t.status = c.status
  prev : t.prevInfo.map wc = Mi
  ok : trOK t.prevStatus t.status (ncO c.info) t.wasDestroyed = true
  stor : SlotsRel t.storage (fun k => if t.wasDestroyed then 0 else Ms k) Rs

/-- transition state of one address: `ms` = cache status at the last merge -/
def GInv (t? : Option Transition) (c : CacheAcct) (ms : Status) (Mi : Option Info) (Ms : Nat → Nat)
    (Ri : Option Info) (Rs : Nat → Nat) : Prop :=
  match t? with
  | none => Mi = Ri ∧ Ms = Rs ∧ ms = c.status
  | some t => TInv t c Mi Ms Rs ∧ ms = t.prevStatus

/-- what `add_transitions` leaves for an address that received `tr` -/
def combine (t? : Option Transition) (tr : Option Transition) : Option Transition :=
  match tr with
  | none => t?
  | some x => match t? with
    | some old => some (old.update x)
    | none => some x

def hasT (t? : Option Transition) : Bool := t?.isSome
def wdOf (t? : Option Transition) : Bool := match t? with | some t => t.wasDestroyed | none => false

theorem GInv.to_gOK {t? : Option Transition} {c : CacheAcct} {ms : Status} {Mi Ms Ri Rs}
    (h : GInv t? c ms Mi Ms Ri Rs) (hc : CInv c Ri Rs) :
    gOK (hasT t?) ms c.status (ncO c.info) (wdOf t?) = true := by
  cases t? with
  | none =>
    obtain ⟨_, _, h3⟩ := h
    simp only [gOK, hasT, wdOf, Option.isSome, h3, Bool.false_eq_true, if_false, beq_self_eq_true, Bool.true_and,
      Bool.not_false, Bool.and_true]
    by_cases hs : c.status = .changed
    · simp [hc.facts.changed_nc hs]
    · simp [hs]
  | some t =>
    obtain ⟨h1, h2⟩ := h
    simp only [gOK, hasT, wdOf, Option.isSome, if_true, h2]
    rw [← h1.status]; exact h1.ok

/-! ## status tables (finite checks) -/

theorem T_sd (has : Bool) (s0 s : Status) (nc wd : Bool) :
    (!gOK has s0 s nc wd || s == .loadedNotExisting || trOK s0 s.onSelfdestructed false true) = true := by
  cases has <;> cases s0 <;> cases s <;> cases nc <;> cases wd <;> rfl

theorem T_sd_shape (s : Status) :
    (hasInfo s.onSelfdestructed = false ∧ s.onSelfdestructed ≠ .changed ∧ s.onSelfdestructed ≠ .loadedEmptyEIP161
      ∧ s.onSelfdestructed ≠ .loaded) ∧
    (s ≠ .loadedNotExisting → (s.onSelfdestructed = .destroyed ∨ s.onSelfdestructed = .destroyedAgain)) ∧
    (s = .loadedNotExisting → s.onSelfdestructed = s) := by
  cases s <;> simp [Status.onSelfdestructed, hasInfo]

theorem T_created (has : Bool) (s0 s : Status) (nc' wd : Bool) :
    (!gOK has s0 s false wd || trOK s0 s.onCreated nc' wd) = true := by
  cases has <;> cases s0 <;> cases s <;> cases nc' <;> cases wd <;> rfl

theorem T_created_shape (s : Status) :
    hasInfo s.onCreated = true ∧ s.onCreated ≠ .destroyed ∧ s.onCreated ≠ .destroyedAgain := by
  cases s <;> simp [Status.onCreated, hasInfo]

theorem T_change (has : Bool) (s0 s : Status) (nc nc' wd : Bool) :
    (!gOK has s0 s nc wd || (nc && !nc') || trOK s0 (s.onChanged (hasInfo s && !nc)) nc' wd) = true := by
  cases has <;> cases s0 <;> cases s <;> cases nc <;> cases nc' <;> cases wd <;> rfl

theorem T_change_shape (s : Status) (h : Bool) :
    hasInfo (s.onChanged h) = true ∧ s.onChanged h ≠ .destroyed ∧ s.onChanged h ≠ .destroyedAgain := by
  cases s <;> cases h <;> simp [Status.onChanged, hasInfo]

theorem T_touchPost (has : Bool) (s0 s : Status) (wd : Bool) :
    (!gOK has s0 s false wd || s == .loaded ||
      match s.onTouchedEmptyPostEip161 with
      | none => false
      | some st =>
        if s == .loadedNotExisting || s == .destroyed || s == .destroyedAgain then st == s
        else (st == .destroyed || st == .destroyedAgain) && trOK s0 st false true) = true := by
  cases has <;> cases s0 <;> cases s <;> cases wd <;> rfl

theorem T_touchPre (has : Bool) (s0 s : Status) (h wd : Bool) :
    (!gOK has s0 s false wd || s == .loaded ||
      match s.onTouchedCreatedPreEip161 h with
      | none => false
      | some none => s == .loadedEmptyEIP161 || (s == .destroyedChanged && h)
      | some (some st) => trOK s0 st false wd && hasInfo st && st != .destroyed && st != .destroyedAgain) = true := by
  cases has <;> cases s0 <;> cases s <;> cases h <;> cases wd <;> rfl

theorem trOK_shape (s0 s : Status) (nc wd : Bool) (h : trOK s0 s nc wd = true) :
    st5 s = true ∧ (s = .changed → nc = true) ∧ s ≠ .loadedEmptyEIP161 ∧ s ≠ .loaded ∧ s ≠ .loadedNotExisting := by
  cases s0 <;> cases s <;> cases nc <;> cases wd <;> simp_all [trOK, inv, reach, st5, Status.wasDestroyed]

/-! ## the two kinds of transition-producing events -/

/-- values written by a list of changed slots -/
def writeCh (chg : BMap Slot) (base : Nat → Nat) (k : Nat) : Nat :=
  match chg.get k with
  | some s => s.present
  | none => base k

theorem SlotsRel.fresh (chg : BMap Slot) (Rs : Nat → Nat) (hw : WF chg)
    (ho : ∀ k s, chg.get k = some s → s.orig = Rs k) : SlotsRel chg Rs (writeCh chg Rs) := by
  refine ⟨hw, fun k => ?_⟩
  cases hg : chg.get k with
  | none => simp [writeCh, hg]
  | some s => simp [writeCh, hg, ho k s hg]

theorem SlotsRel.write (st chg : BMap Slot) (bs Rs : Nat → Nat) (h : SlotsRel st bs Rs) (hw : WF chg)
    (ho : ∀ k s, chg.get k = some s → s.orig = Rs k) :
    SlotsRel (chg.foldl upStep st) bs (writeCh chg Rs) := by
  refine ⟨foldl_WF upStep_WF chg st h.1, fun k => ?_⟩
  rw [foldl_get upStep_get chg hw st k]
  cases hg : chg.get k with
  | none =>
    simp only [Option.elim, writeCh, hg]
    exact h.2 k
  | some x =>
    simp only [Option.elim, writeCh, hg, upF]
    cases hs : st.get k with
    | none =>
      simp only [true_and]
      rw [ho k x hg, h.get_none hs]
    | some v =>
      have hv := h.get_some hs
      by_cases he : v.orig = x.present
      · simp only [he, if_true]; rw [← he]; exact hv.2
      · simp only [he, if_false, true_and]; exact hv.2

/-- info-writing event (`newly_created`, `change`, pre-EIP-161 touch): the cache account becomes
`(some ni, st)` and the transition `(some ni, st, old info, old status, chg, false)` is recorded -/
theorem write_event (c : CacheAcct) (t? : Option Transition) (ms : Status) (Mi : Option Info) (Ms : Nat → Nat)
    (Ri : Option Info) (Rs : Nat → Nat) (ni : Info) (st : Status) (chg : BMap Slot)
    (hc : CInv c Ri Rs) (hg : GInv t? c ms Mi Ms Ri Rs)
    (hok : trOK ms st (ncO (some ni)) (wdOf t?) = true)
    (hshape : hasInfo st = true ∧ st ≠ .destroyed ∧ st ≠ .destroyedAgain)
    (hw : WF chg) (ho : ∀ k s, chg.get k = some s → s.orig = Rs k) :
    CInv ⟨some ni, st⟩ (some (wc ni)) (writeCh chg Rs) ∧
    GInv (combine t? (some ⟨some ni, st, c.info, c.status, chg, false⟩)) ⟨some ni, st⟩ ms Mi Ms
      (some (wc ni)) (writeCh chg Rs) := by
  have hsh := trOK_shape _ _ _ _ hok
  refine ⟨⟨rfl, ⟨by simp [hshape.1], fun h => hsh.2.1 h, fun h => by cases h⟩,
    fun h => absurd h hsh.2.2.1, fun h => absurd h hsh.2.2.2.1⟩, ?_⟩
  cases t? with
  | none =>
    obtain ⟨h1, h2, h3⟩ := hg
    subst h2
    refine ⟨⟨rfl, rfl, by rw [h1]; exact hc.info, ?_, ?_⟩, h3⟩
    · simp only [wdOf] at hok; rw [← h3]; exact hok
    · simp only [Bool.false_eq_true, if_false]; exact SlotsRel.fresh chg Ms hw ho
  | some t =>
    obtain ⟨h1, h2⟩ := hg
    have hnd : ¬ (st = .destroyed ∨ st = .destroyedAgain) := fun h => h.elim hshape.2.1 hshape.2.2
    simp only [combine, Transition.update, hnd, if_false]
    refine ⟨⟨rfl, rfl, h1.prev, ?_, ?_⟩, h2⟩
    · simp only [wdOf] at hok; rw [← h2]; exact hok
    · exact SlotsRel.write t.storage chg _ Rs h1.stor hw ho

/-- destroying event (`selfdestruct`, post-EIP-161 touch of an empty account) that records a transition -/
theorem destroy_event (c : CacheAcct) (t? : Option Transition) (ms : Status) (Mi : Option Info) (Ms : Nat → Nat)
    (Ri : Option Info) (Rs : Nat → Nat) (st : Status)
    (hc : CInv c Ri Rs) (hg : GInv t? c ms Mi Ms Ri Rs)
    (hok : trOK ms st false true = true)
    (hst : st = .destroyed ∨ st = .destroyedAgain) :
    CInv ⟨none, st⟩ none (fun _ => 0) ∧
    GInv (combine t? (some ⟨none, st, c.info, c.status, [], true⟩)) ⟨none, st⟩ ms Mi Ms none (fun _ => 0) := by
  have hsh := trOK_shape _ _ _ _ hok
  have hhi : hasInfo st = false := by cases hst with
    | inl h => rw [h]; rfl
    | inr h => rw [h]; rfl
  have hnc : st ≠ .changed := by
    intro h; cases hst with
    | inl h' => rw [h'] at h; cases h
    | inr h' => rw [h'] at h; cases h
  refine ⟨⟨rfl, ⟨by simp [hhi], fun h => absurd h hnc, fun _ _ => rfl⟩,
    fun h => absurd h hsh.2.2.1, fun h => absurd h hsh.2.2.2.1⟩, ?_⟩
  cases t? with
  | none =>
    obtain ⟨h1, h2, h3⟩ := hg
    refine ⟨⟨rfl, rfl, by rw [h1]; exact hc.info, by rw [← h3]; exact hok, ?_⟩, h3⟩
    simp only [if_true]; exact SlotsRel.nil _
  | some t =>
    obtain ⟨h1, h2⟩ := hg
    simp only [combine, Transition.update, hst, if_true]
    refine ⟨⟨rfl, rfl, h1.prev, by rw [← h2]; exact hok, ?_⟩, h2⟩
    simp only [if_true]; exact SlotsRel.nil _

/-! ## one committed account -/

def chgOf (ea : EvmAcct) : BMap Slot := ea.storage.filter (fun e => e.2.isChanged)

/-- reference semantics of one committed account on its (info, slots) (`Spec.applyCommitAcct` at its address) -/
def evInfo (sc : Bool) (Ri : Option Info) (ea : EvmAcct) : Option Info :=
  if !ea.touched then Ri else
  if ea.selfdestructed then none
  else if ea.created then some (wc ea.info)
  else if ea.info.isEmpty then (if sc then none else some (wc Info.dflt))
  else some (wc ea.info)

def evSlots (sc : Bool) (Rs : Nat → Nat) (ea : EvmAcct) : Nat → Nat :=
  if !ea.touched then Rs else
  if ea.selfdestructed then fun _ => 0
  else if ea.created then writeCh (chgOf ea) (fun _ => 0)
  else if ea.info.isEmpty then (if sc then fun _ => 0 else writeCh (chgOf ea) Rs)
  else writeCh (chgOf ea) Rs

/-- `Spec.evmOk` in terms of the (info, slots) of the address -/
structure EvOk (Ri : Option Info) (Rs : Nat → Nat) (e : EvmAcct) : Prop where
  wf : WF e.storage
  orig : ∀ k s, e.storage.get k = some s → s.orig = if e.created then 0 else Rs k
  created : e.selfdestructed = false → e.created = true →
    (Ri = none ∨ ∃ o, Ri = some o ∧ o.nonce = 0 ∧ o.codeHash = 0 ∧ ∀ k, Rs k = 0)
  empty : e.selfdestructed = false → e.created = false → e.info.isEmpty = true →
    (Ri = none ∨ ∃ o, Ri = some o ∧ o.isEmpty = true) ∧ (∀ k s, e.storage.get k = some s → s.isChanged = false)
  change : e.selfdestructed = false → e.created = false → e.info.isEmpty = false →
    ∀ o, Ri = some o → o.nonce ≤ e.info.nonce ∧ (o.codeHash = e.info.codeHash ∨ e.info.nonce ≥ 1)

theorem chgOf_WF (ea : EvmAcct) (hw : WF ea.storage) : WF (chgOf ea) := WF_filter _ _ hw

theorem chgOf_get (ea : EvmAcct) (hw : WF ea.storage) (k : Nat) (s : Slot) (h : (chgOf ea).get k = some s) :
    ea.storage.get k = some s := by
  unfold chgOf at h
  rw [get_filter _ _ _ hw] at h
  cases hg : ea.storage.get k with
  | none => rw [hg] at h; cases h
  | some v =>
    rw [hg] at h
    simp only [Option.bind] at h
    by_cases hc : v.isChanged = true
    · simp only [hc, if_true] at h; exact h
    · simp only [hc] at h; cases h

theorem chgOf_nil (ea : EvmAcct) (hw : WF ea.storage)
    (h : ∀ k s, ea.storage.get k = some s → s.isChanged = false) : chgOf ea = [] := by
  unfold chgOf
  apply List.filter_eq_nil_iff.mpr
  intro e he
  have := h e.1 e.2 (get_some_of_mem _ hw e.1 e.2 he)
  simp [this]

theorem writeCh_nil (Rs : Nat → Nat) : writeCh [] Rs = Rs := by funext k; rfl

theorem info_of_Ri_none {c : CacheAcct} {Ri Rs} (hc : CInv c Ri Rs) (h : Ri = none) : c.info = none := by
  have := hc.info; rw [h] at this; exact (map_wc_none _).mp this

theorem info_of_Ri_some {c : CacheAcct} {Ri Rs} {o : Info} (hc : CInv c Ri Rs) (h : Ri = some o) :
    ∃ i, c.info = some i ∧ wc i = o := by
  have := hc.info; rw [h] at this
  cases hi : c.info with
  | none => rw [hi] at this; cases this
  | some i => rw [hi] at this; exact ⟨i, rfl, by injection this⟩

/-- `CacheAccount::change` with the `has_no_nonce_and_code` argument in table form -/
theorem change_eq {c : CacheAcct} {Ri Rs} (hc : CInv c Ri Rs) (ni : Info) (chg : BMap Slot) :
    c.change ni chg = (⟨some ni, c.status.onChanged (hasInfo c.status && !ncO c.info)⟩,
      ⟨some ni, c.status.onChanged (hasInfo c.status && !ncO c.info), c.info, c.status, chg, false⟩) := by
  have := hc.facts.some_iff
  cases hi : c.info with
  | none => rw [hi] at this; simp [CacheAcct.change, hi, ← this]
  | some i => rw [hi] at this; simp [CacheAcct.change, hi, ← this, ncO]

theorem apply_event (sc : Bool) (c : CacheAcct) (t? : Option Transition) (ms : Status) (Mi : Option Info)
    (Ms : Nat → Nat) (Ri : Option Info) (Rs : Nat → Nat) (ea : EvmAcct)
    (hc : CInv c Ri Rs) (hg : GInv t? c ms Mi Ms Ri Rs) (he' : ea.touched = true → EvOk Ri Rs ea) :
    ∃ c' tr, applyAccountState sc c ea = some (c', tr) ∧
      CInv c' (evInfo sc Ri ea) (evSlots sc Rs ea) ∧
      GInv (combine t? tr) c' ms Mi Ms (evInfo sc Ri ea) (evSlots sc Rs ea) := by
  have g := hg.to_gOK hc
  cases ht : ea.touched with
  | false =>
    refine ⟨c, none, by simp [applyAccountState, ht], ?_, ?_⟩
    · simp only [evInfo, evSlots, ht, Bool.not_false, if_true]; exact hc
    · simp only [evInfo, evSlots, ht, Bool.not_false, if_true, combine]; exact hg
  | true =>
  have he := he' ht
  cases hsd : ea.selfdestructed with
  | true =>
    have hap : applyAccountState sc c ea = some c.selfdestruct := by simp [applyAccountState, ht, hsd]
    have hev : evInfo sc Ri ea = none ∧ evSlots sc Rs ea = fun _ => 0 := by
      simp [evInfo, evSlots, ht, hsd]
    rw [hev.1, hev.2, hap]
    have tb := T_sd (hasT t?) ms c.status (ncO c.info) (wdOf t?)
    rw [g] at tb
    have tsh := T_sd_shape c.status
    by_cases hl : c.status = .loadedNotExisting
    · have hci : c.info = none := by
        have := hc.facts.some_iff; rw [hl] at this
        cases hi : c.info with
        | none => rfl
        | some i => rw [hi] at this; cases this
      have hRi : Ri = none := by rw [← hc.info, hci]; rfl
      have hRs : Rs = fun _ => 0 := funext (hc.facts.none_zero hci)
      have hc' : (⟨none, c.status.onSelfdestructed⟩ : CacheAcct) = c := by
        rw [tsh.2.2 hl]; cases c; simp_all
      have hs' : c.selfdestruct = (c, none) := by
        simp only [CacheAcct.selfdestruct, if_pos hl, hc']
      rw [hs']
      refine ⟨c, none, rfl, ?_, ?_⟩
      · rw [← hRi, ← hRs]; exact hc
      · simp only [combine]; rw [← hRi, ← hRs]; exact hg
    · have hb : (c.status == Status.loadedNotExisting) = false := by simp [hl]
      simp only [Bool.not_true, hb, Bool.false_or] at tb
      have := destroy_event c t? ms Mi Ms Ri Rs c.status.onSelfdestructed hc hg tb (tsh.2.1 hl)
      have hs' : c.selfdestruct = (⟨none, c.status.onSelfdestructed⟩,
          some ⟨none, c.status.onSelfdestructed, c.info, c.status, [], true⟩) := by
        simp only [CacheAcct.selfdestruct, if_neg hl]
      rw [hs']
      exact ⟨_, _, rfl, this.1, this.2⟩
  | false =>
  cases hcr : ea.created with
  | true =>
    have hap : applyAccountState sc c ea = some ((c.newlyCreated ea.info (chgOf ea)).1, some (c.newlyCreated ea.info (chgOf ea)).2) := by
      simp [applyAccountState, ht, hsd, hcr, chgOf]
    have hz : Rs = (fun _ => 0) ∧ ncO c.info = false := by
      cases he.created hsd hcr with
      | inl h =>
        have hci := info_of_Ri_none hc h
        exact ⟨funext (hc.facts.none_zero hci), by rw [hci]; rfl⟩
      | inr h =>
        obtain ⟨o, ho, h1, h2, h3⟩ := h
        obtain ⟨i, hi, hio⟩ := info_of_Ri_some hc ho
        refine ⟨funext h3, ?_⟩
        rw [hi]; subst hio
        simp only [wc, Info.withoutCode] at h1 h2
        simp [ncO, Info.hasNoCodeAndNonce, h1, h2]
    have hev : evInfo sc Ri ea = some (wc ea.info) ∧ evSlots sc Rs ea = writeCh (chgOf ea) Rs := by
      simp only [evInfo, evSlots, ht, hsd, hcr, Bool.not_true, Bool.false_eq_true, if_false, if_true, true_and]
      rw [hz.1]
    rw [hev.1, hev.2, hap]
    have tb := T_created (hasT t?) ms c.status (ncO (some ea.info)) (wdOf t?)
    rw [hz.2] at g
    rw [g] at tb
    simp only [Bool.not_true, Bool.false_or] at tb
    have := write_event c t? ms Mi Ms Ri Rs ea.info c.status.onCreated (chgOf ea) hc hg tb
      (T_created_shape c.status) (chgOf_WF ea he.wf) (fun k s hk => by
        have := he.orig k s (chgOf_get ea he.wf k s hk)
        rw [hcr] at this; simp only [if_true] at this
        rw [this, hz.1])
    exact ⟨_, _, rfl, this.1, this.2⟩
  | false =>
  cases hem : ea.info.isEmpty with
  | true =>
    obtain ⟨hold, hnoch⟩ := he.empty hsd hcr hem
    have hchg : chgOf ea = [] := chgOf_nil ea he.wf hnoch
    have hnc : ncO c.info = false := by
      cases hold with
      | inl h => rw [info_of_Ri_none hc h]; rfl
      | inr h =>
        obtain ⟨o, ho, h1⟩ := h
        obtain ⟨i, hi, hio⟩ := info_of_Ri_some hc ho
        rw [hi]; subst hio
        exact isEmpty_nc i (by simpa [wc, Info.withoutCode, Info.isEmpty] using h1)
    have hnl : c.status ≠ .loaded := by
      intro hl
      cases hold with
      | inl h =>
        have := hc.facts.some_iff; rw [info_of_Ri_none hc h, hl] at this; cases this
      | inr h =>
        obtain ⟨o, ho, h1⟩ := h
        obtain ⟨i, hi, hio⟩ := info_of_Ri_some hc ho
        have h2 := hc.loadedNE hl i hi
        subst hio
        have : i.isEmpty = true := by simpa [wc, Info.withoutCode, Info.isEmpty] using h1
        rw [h2] at this; cases this
    have hnlb : (c.status == Status.loaded) = false := by simp [hnl]
    rw [hnc] at g
    cases sc with
    | true =>
      have hap : applyAccountState true c ea = c.touchEmptyEip161 := by
        simp [applyAccountState, ht, hsd, hcr, hem]
      have hev : evInfo true Ri ea = none ∧ evSlots true Rs ea = fun _ => 0 := by
        simp [evInfo, evSlots, ht, hsd, hcr, hem]
      rw [hev.1, hev.2, hap]
      have tb := T_touchPost (hasT t?) ms c.status (wdOf t?)
      rw [g, hnlb] at tb
      simp only [Bool.not_true, Bool.false_or] at tb
      unfold CacheAcct.touchEmptyEip161
      cases hq : c.status.onTouchedEmptyPostEip161 with
      | none => rw [hq] at tb; cases tb
      | some st =>
        rw [hq] at tb
        simp only at tb
        by_cases h3 : c.status = .loadedNotExisting ∨ c.status = .destroyed ∨ c.status = .destroyedAgain
        · have h3b : (c.status == Status.loadedNotExisting || c.status == Status.destroyed || c.status == Status.destroyedAgain) = true := by
            rcases h3 with h | h | h <;> simp [h]
          simp only [h3b, if_true, beq_iff_eq] at tb
          have hci : c.info = none := by
            have := hc.facts.some_iff
            cases hi : c.info with
            | none => rfl
            | some i => rw [hi] at this; rcases h3 with h | h | h <;> rw [h] at this <;> cases this
          have hRi : Ri = none := by rw [← hc.info, hci]; rfl
          have hRs : Rs = fun _ => 0 := funext (hc.facts.none_zero hci)
          have hc' : (⟨none, st⟩ : CacheAcct) = c := by rw [tb]; cases c; simp_all
          refine ⟨_, _, rfl, ?_, ?_⟩
          · simp only [hc']; rw [← hRi, ← hRs]; exact hc
          · simp only [hc', h3, if_true, combine]; rw [← hRi, ← hRs]; exact hg
        · have h3b : (c.status == Status.loadedNotExisting || c.status == Status.destroyed || c.status == Status.destroyedAgain) = false := by
            simp only [not_or] at h3
            simp [h3.1, h3.2.1, h3.2.2]
          simp only [h3b, Bool.false_eq_true, if_false, Bool.and_eq_true, Bool.or_eq_true, beq_iff_eq] at tb
          have := destroy_event c t? ms Mi Ms Ri Rs st hc hg tb.2 tb.1
          refine ⟨_, _, rfl, this.1, ?_⟩
          simp only [h3, if_false]; exact this.2
    | false =>
      have hap : applyAccountState false c ea = c.touchCreatePreEip161 (chgOf ea) := by
        simp [applyAccountState, ht, hsd, hcr, hem, chgOf]
      have hev : evInfo false Ri ea = some (wc Info.dflt) ∧ evSlots false Rs ea = Rs := by
        simp [evInfo, evSlots, ht, hsd, hcr, hem, hchg, writeCh_nil]
      rw [hev.1, hev.2, hap, hchg]
      have tb := T_touchPre (hasT t?) ms c.status
        (match c.info with | some i => i.isEmpty | none => false) (wdOf t?)
      rw [g, hnlb] at tb
      simp only [Bool.not_true, Bool.false_or] at tb
      unfold CacheAcct.touchCreatePreEip161
      simp only
      cases hq : c.status.onTouchedCreatedPreEip161 (match c.info with | some i => i.isEmpty | none => false) with
      | none => rw [hq] at tb; cases tb
      | some o =>
        rw [hq] at tb
        cases o with
        | none =>
          simp only [Bool.or_eq_true, Bool.and_eq_true, beq_iff_eq] at tb
          have hRi : Ri = some (wc Info.dflt) := by
            have hs := hc.facts.some_iff
            cases hi : c.info with
            | none =>
              rw [hi] at hs tb
              cases tb with
              | inl h => rw [h] at hs; cases hs
              | inr h => cases h.2
            | some i =>
              have hie : i.isEmpty = true := by
                cases tb with
                | inl h => exact hc.emptyEIP h i hi
                | inr h => have := h.2; rw [hi] at this; exact this
              rw [← hc.info, hi]; simp only [Option.map]; rw [isEmpty_wc i hie]
          refine ⟨_, _, rfl, ?_, ?_⟩
          · rw [← hRi]; exact hc
          · simp only [combine]; rw [← hRi]; exact hg
        | some st =>
          simp only [Bool.and_eq_true, bne_iff_ne, ne_eq] at tb
          obtain ⟨⟨⟨h1, h2⟩, h3⟩, h4⟩ := tb
          have := write_event c t? ms Mi Ms Ri Rs Info.dflt st [] hc hg h1 ⟨h2, h3, h4⟩ WF_nil
            (fun k s hk => by cases hk)
          rw [writeCh_nil] at this
          exact ⟨_, _, rfl, this.1, this.2⟩
  | false =>
    have hap : applyAccountState sc c ea = some ((c.change ea.info (chgOf ea)).1, some (c.change ea.info (chgOf ea)).2) := by
      simp [applyAccountState, ht, hsd, hcr, hem, chgOf]
    have hev : evInfo sc Ri ea = some (wc ea.info) ∧ evSlots sc Rs ea = writeCh (chgOf ea) Rs := by
      simp [evInfo, evSlots, ht, hsd, hcr, hem]
    rw [hev.1, hev.2, hap]
    have hncc : (ncO c.info && !ncO (some ea.info)) = false := by
      cases hi : c.info with
      | none => rfl
      | some i =>
        have hRi : Ri = some (wc i) := by rw [← hc.info, hi]; rfl
        have := he.change hsd hcr hem (wc i) hRi
        simp only [wc, Info.withoutCode] at this
        simp only [ncO, Info.hasNoCodeAndNonce]
        by_cases hn : ea.info.nonce = 0
        · have hin : i.nonce = 0 := by omega
          have hcd : i.codeHash = ea.info.codeHash := by
            cases this.2 with
            | inl h => exact h
            | inr h => omega
          simp [hn, hin, hcd]
        · simp [hn]
    have tb := T_change (hasT t?) ms c.status (ncO c.info) (ncO (some ea.info)) (wdOf t?)
    rw [g, hncc] at tb
    simp only [Bool.not_true, Bool.false_or] at tb
    have := write_event c t? ms Mi Ms Ri Rs ea.info (c.status.onChanged (hasInfo c.status && !ncO c.info)) (chgOf ea)
      hc hg tb (T_change_shape _ _) (chgOf_WF ea he.wf) (fun k s hk => by
        have := he.orig k s (chgOf_get ea he.wf k s hk)
        rw [hcr] at this; simpa using this)
    rw [change_eq hc]
    exact ⟨_, _, rfl, this.1, this.2⟩

end Revm.Proofs.Bundle
