import Revm.Model.Evm
/-! Termination of the frame loop from a decreasing measure: the reduction of `FullStatement_transact_total` to (a) an
invariant of loop states under which no iteration stops with a model-level panic and (b) a measure that every iteration
lowers (remaining gas of the frames on the stack, C25 `gas_decreases`, L1 `evm_frame_accounting`). Generic in the
subroutine discipline. -/
namespace Revm.Proofs.EvmTerm
open Revm Revm.Model Revm.Model.Evm

variable {κ : Type}

/-- every iteration from a state that satisfies `I` leads to a state that satisfies `I` with a smaller measure, or stops
with an error that is not `outOfFuel` -/
structure Decreasing (C : CpOps κ) (cfg : Cfg) (I : Next κ → Prop) (μ : Next κ → Nat) : Prop where
  iter : ∀ st w, I (.run st w) → match iterate C cfg st w with
    | .ok n => I n ∧ μ n < μ (.run st w)
    | .error e => e ≠ .outOfFuel
  fend : ∀ t r res out s w, I (.ended t r res out s w) → match frameEnd C cfg t r res out s w with
    | .ok n => I n ∧ μ n < μ (.ended t r res out s w)
    | .error e => e ≠ .outOfFuel

/-- with more fuel than the measure the loop never runs out of fuel -/
theorem runLoop_fuel {C : CpOps κ} {cfg : Cfg} {I : Next κ → Prop} {μ : Next κ → Nat} (D : Decreasing C cfg I μ) :
    ∀ fuel : Nat,
      (∀ st w, I (.run st w) → μ (.run st w) < fuel → runLoop C cfg fuel st w ≠ .error .outOfFuel) ∧
      (∀ t r res out s w, I (.ended t r res out s w) → μ (.ended t r res out s w) < fuel →
        runEnded C cfg fuel t r res out s w ≠ .error .outOfFuel) := by
  intro fuel
  induction fuel with
  | zero => exact ⟨fun _ _ _ h => absurd h (Nat.not_lt_zero _), fun _ _ _ _ _ _ _ h => absurd h (Nat.not_lt_zero _)⟩
  | succ n ih =>
    have next : ∀ (nx : Next κ) (m : Nat), I nx → μ nx < m → m < n + 1 →
        (match nx with
          | .run stack' w' => runLoop C cfg n stack' w'
          | .ended top rest r out s w' => runEnded C cfg n top rest r out s w'
          | .done r w' => pure (r, w')) ≠ .error .outOfFuel := by
      intro nx m hi hm hmn
      cases nx with
      | run st' w' => exact ih.1 st' w' hi (by omega)
      | ended t r res out s w' => exact ih.2 t r res out s w' hi (by omega)
      | done r w' => intro h; cases h
    refine ⟨?_, ?_⟩
    · intro st w hi hm
      unfold runLoop
      have := D.iter st w hi
      cases hit : iterate C cfg st w with
      | error e =>
        rw [hit] at this
        simp only [bind, Except.bind]
        intro h; cases h; exact this rfl
      | ok nx =>
        rw [hit] at this
        simp only [bind, Except.bind]
        exact next nx _ this.1 this.2 hm
    · intro t r res out s w hi hm
      unfold runEnded
      have := D.fend t r res out s w hi
      cases hit : frameEnd C cfg t r res out s w with
      | error e =>
        rw [hit] at this
        simp only [bind, Except.bind]
        intro h; cases h; exact this rfl
      | ok nx =>
        rw [hit] at this
        simp only [bind, Except.bind]
        exact next nx _ this.1 this.2 hm

end Revm.Proofs.EvmTerm
