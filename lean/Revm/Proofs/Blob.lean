import Revm.Model.Blob
import Revm.Spec.Blob
/-! Proofs for C32 (core Lean only), for the repaired `utilities.rs`. -/
set_option linter.unusedSimpArgs false
set_option linter.unusedVariables false
namespace Revm.Proofs.Blob
open Revm Revm.Model.Blob

theorem U128_eq : U128 = 2^128 := rfl
theorem W_eq : W = 2^256 := rfl

/-! ### fuel independence -/

theorem spec_fuel_mono : ∀ fuel i out acc n d r k,
    Spec.Blob.fakeExpLoop fuel i out acc n d = some r →
    Spec.Blob.fakeExpLoop (fuel + k) i out acc n d = some r := by
  intro fuel
  induction fuel with
  | zero => intro i out acc n d r k h; simp [Spec.Blob.fakeExpLoop] at h
  | succ m ih =>
    intro i out acc n d r k h
    rw [show m + 1 + k = (m + k) + 1 by omega]
    unfold Spec.Blob.fakeExpLoop at h ⊢
    by_cases hacc : acc > 0
    · simp only [hacc, if_true] at h ⊢; exact ih _ _ _ _ _ _ _ h
    · simp only [hacc, if_false] at h ⊢; exact h

theorem model_fuel_mono : ∀ fuel i out acc n d r k,
    fakeExpLoop fuel i out acc n d = some r →
    fakeExpLoop (fuel + k) i out acc n d = some r := by
  intro fuel
  induction fuel with
  | zero => intro i out acc n d r k h; simp [fakeExpLoop] at h
  | succ m ih =>
    intro i out acc n d r k h
    rw [show m + 1 + k = (m + k) + 1 by omega]
    unfold fakeExpLoop at h ⊢
    by_cases hacc : acc > 0
    · simp only [hacc, if_true] at h ⊢
      cases h1 : U256.checkedAdd out acc with
      | none => simpa [h1] using h
      | some o' =>
        simp only [h1] at h ⊢
        cases h2 : U256.checkedMul acc n with
        | none => simpa [h2] using h
        | some p =>
          simp only [h2] at h ⊢
          by_cases hdn : U256.wmul d i = 0
          · simpa [hdn] using h
          · simp only [hdn, if_false] at h ⊢
            exact ih _ _ _ _ _ _ _ h
    · simp only [hacc, if_false] at h ⊢; exact h

/-- the EIP value is unique -/
theorem fakeExp_unique (f n d r r' : Nat) (h : Spec.Blob.FakeExp f n d r) (h' : Spec.Blob.FakeExp f n d r') :
    r = r' := by
  obtain ⟨a, ha⟩ := h; obtain ⟨b, hb⟩ := h'
  have h1 := spec_fuel_mono a _ _ _ _ _ _ b ha
  have h2 := spec_fuel_mono b _ _ _ _ _ _ a hb
  unfold Spec.Blob.fakeExpFuel at *
  rw [Nat.add_comm b a] at h2
  rw [h1] at h2; exact Option.some.inj h2

theorem model_top_fuel_mono (fuel k f n d : Nat) (r : Res Nat)
    (h : fakeExponential fuel f n d = some r) : fakeExponential (fuel + k) f n d = some r := by
  unfold fakeExponential at h ⊢
  by_cases hd : d = 0
  · simpa [hd] using h
  · simp only [hd, if_false] at h ⊢
    exact model_fuel_mono _ _ _ _ _ _ _ k h

/-- the model's answer does not depend on the fuel -/
theorem model_top_unique (a b f n d : Nat) (r r' : Res Nat)
    (h : fakeExponential a f n d = some r) (h' : fakeExponential b f n d = some r') : r = r' := by
  have h1 := model_top_fuel_mono a b f n d r h
  have h2 := model_top_fuel_mono b a f n d r' h'
  rw [Nat.add_comm b a, h1] at h2
  exact Option.some.inj h2

/-! ### the EIP loop always terminates -/

theorem div_lt_self_of (acc n d i : Nat) (hacc : 0 < acc) (hni : n < i) : acc * n / (d * i) < acc := by
  by_cases hd : d = 0
  · subst hd; simp; exact hacc
  · apply Nat.div_lt_of_lt_mul
    have h1 : acc * n < acc * i := Nat.mul_lt_mul_of_pos_left hni hacc
    have h2 : acc * i ≤ acc * (d * i) := Nat.mul_le_mul_left _ (Nat.le_mul_of_pos_left _ (by omega))
    calc acc * n < acc * i := h1
      _ ≤ acc * (d * i) := h2
      _ = d * i * acc := Nat.mul_comm _ _

theorem terminates_tail (n d : Nat) : ∀ acc i out, n < i → ∃ fuel, (Spec.Blob.fakeExpLoop fuel i out acc n d).isSome := by
  intro acc
  induction acc using Nat.strongRecOn with
  | _ acc ih =>
    intro i out hi
    by_cases hacc : acc > 0
    · obtain ⟨fuel, hf⟩ := ih (acc * n / (d * i)) (div_lt_self_of acc n d i hacc hi) (i + 1) (out + acc) (by omega)
      refine ⟨fuel + 1, ?_⟩
      unfold Spec.Blob.fakeExpLoop; simp only [hacc, if_true]; exact hf
    · refine ⟨1, ?_⟩
      unfold Spec.Blob.fakeExpLoop; simp [hacc]

theorem terminates_loop (n d : Nat) : ∀ k i acc out, n + 1 - i = k → ∃ fuel, (Spec.Blob.fakeExpLoop fuel i out acc n d).isSome := by
  intro k
  induction k with
  | zero => intro i acc out h; exact terminates_tail n d acc i out (by omega)
  | succ k ih =>
    intro i acc out h
    by_cases hacc : acc > 0
    · obtain ⟨fuel, hf⟩ := ih (i + 1) (acc * n / (d * i)) (out + acc) (by omega)
      refine ⟨fuel + 1, ?_⟩
      unfold Spec.Blob.fakeExpLoop; simp only [hacc, if_true]; exact hf
    · refine ⟨1, ?_⟩
      unfold Spec.Blob.fakeExpLoop; simp [hacc]

/-- the EIP-4844 loop terminates for all arguments: `FakeExp` is a total function -/
theorem fakeExp_total (f n d : Nat) : ∃ r, Spec.Blob.FakeExp f n d r := by
  obtain ⟨fuel, hf⟩ := terminates_loop n d (n + 1 - 1) 1 (f * d) 0 rfl
  obtain ⟨r, hr⟩ := Option.isSome_iff_exists.mp hf
  exact ⟨r, fuel, hr⟩

/-! ### the EIP result dominates every running `output / denominator` -/

theorem spec_result_ge (n d : Nat) : ∀ fuel i out acc r,
    Spec.Blob.fakeExpLoop fuel i out acc n d = some r → out / d ≤ r := by
  intro fuel
  induction fuel with
  | zero => intro i out acc r h; simp [Spec.Blob.fakeExpLoop] at h
  | succ k ih =>
    intro i out acc r h
    unfold Spec.Blob.fakeExpLoop at h
    by_cases hacc : acc > 0
    · simp only [hacc, if_true] at h
      exact Nat.le_trans (Nat.div_le_div_right (Nat.le_add_right _ _)) (ih _ _ _ _ h)
    · simp only [hacc, if_false, Option.some.injEq] at h
      omega

/-! ### the repaired loop = clamped EIP value -/

/-- iteration counter bound used for `denominator * i`: beyond `K = 2^65` the accumulator at least
halves in every round (numerator < 2^64), and it is below 2^256, so the loop cannot pass `K + 256` -/
def K : Nat := 2^65
theorem K_val : K = 36893488147419103232 := by unfold K; rfl

theorem halving (acc n d i e : Nat) (hn : n < U64) (hd0 : 0 < d) (hi : K ≤ i)
    (hacc : acc < 2^(e+1)) : acc * n / (d * i) < 2^e := by
  apply Nat.div_lt_of_lt_mul
  have h1 : acc * n < 2^(e+1) * U64 := by
    by_cases hn0 : n = 0
    · subst hn0
      have : 0 < 2^(e+1) * U64 := Nat.mul_pos (Nat.two_pow_pos (e+1)) (by rw [U64_val]; omega)
      simpa using this
    · exact Nat.mul_lt_mul'' hacc hn
  have h2 : 2^(e+1) * U64 = 2^e * K := by
    rw [Nat.pow_succ, Nat.mul_assoc]; rfl
  have h3 : 2^e * K ≤ 2^e * i := Nat.mul_le_mul_left _ hi
  have h4 : 2^e * i ≤ 2^e * (d * i) := Nat.mul_le_mul_left _ (Nat.le_mul_of_pos_left _ hd0)
  calc acc * n < 2^(e+1) * U64 := h1
    _ = 2^e * K := h2
    _ ≤ 2^e * i := h3
    _ ≤ 2^e * (d * i) := h4
    _ = d * i * 2^e := Nat.mul_comm _ _

theorem big_quot (x d : Nat) (hd0 : 0 < d) (hd : d < U64) (hx : 2^192 ≤ x) : U128 ≤ x / d := by
  rw [Nat.le_div_iff_mul_le hd0]
  have hU := U64_val; have h8 := U128_val
  have : (2:Nat)^192 = 6277101735386680763835789423207666416102355444464034512896 := by decide
  rw [h8]; omega

theorem clamp_big (r : Nat) (h : U128 ≤ r) : min r U128_MAX = U128_MAX := by
  unfold U128_MAX; have := U128_val; omega

theorem loop_sat (n d : Nat) (hn : n < U64) (hd0 : 0 < d) (hd : d < U64) : ∀ fuel i out acc r,
    1 ≤ i → acc < W → (K ≤ i → acc < 2^(K + 256 - i)) →
    Spec.Blob.fakeExpLoop fuel i out acc n d = some r →
    fakeExpLoop fuel i out acc n d = some (.ok (min r U128_MAX)) := by
  intro fuel
  induction fuel with
  | zero => intro i out acc r _ _ _ h; simp [Spec.Blob.fakeExpLoop] at h
  | succ k ih =>
    intro i out acc r hi haccW hK h
    unfold Spec.Blob.fakeExpLoop at h
    unfold fakeExpLoop
    have hW := W_val; have hU := U64_val; have h8 := U128_val; have hKv := K_val
    have h192 : (2:Nat)^192 = 6277101735386680763835789423207666416102355444464034512896 := by decide
    by_cases hacc : acc > 0
    · simp only [hacc, if_true] at h ⊢
      have hge := spec_result_ge n d _ _ _ _ _ h
      by_cases h1 : out + acc < W
      · simp only [U256.checkedAdd, h1, if_true]
        by_cases h2 : acc * n < W
        · simp only [U256.checkedMul, h2, if_true]
          -- the counter is small
          have hib : i < K + 256 := by
            by_cases hki : K ≤ i
            · have := hK hki
              by_cases he : K + 256 - i = 0
              · rw [he] at this; simp at this; omega
              · omega
            · omega
          have hdi : d * i < W := by
            have : d * i < U64 * (K + 256) := Nat.mul_lt_mul'' hd hib
            rw [hU, hKv] at this; omega
          have hdi0 : d * i ≠ 0 := Nat.mul_ne_zero (by omega) (by omega)
          have hwm : U256.wmul d i = d * i := by unfold U256.wmul; exact Nat.mod_eq_of_lt hdi
          have hwa : U256.wadd i 1 = i + 1 := by unfold U256.wadd; exact Nat.mod_eq_of_lt (by omega)
          simp only [hwm, hdi0, if_false, hwa]
          refine ih _ _ _ _ (by omega) ?_ ?_ h
          · exact Nat.lt_of_le_of_lt (Nat.div_le_self _ _) h2
          · intro hk1
            by_cases hki : K ≤ i
            · have hlt := hK hki
              have he : K + 256 - i = (K + 256 - (i + 1)) + 1 := by omega
              rw [he] at hlt
              exact halving acc n d i _ hn hd0 hki hlt
            · have : K + 256 - (i + 1) = 256 := by omega
              rw [this, ← W_eq]
              exact Nat.lt_of_le_of_lt (Nat.div_le_self _ _) h2
        · -- accum * numerator does not fit: accum ≥ 2^192, so the EIP value is ≥ 2^128
          simp only [U256.checkedMul, h2, if_false]
          have hbig : 2^192 ≤ acc := by
            apply Nat.le_of_not_lt
            intro hlt
            have : acc * n < 2^192 * U64 := by
              by_cases hn0 : n = 0
              · subst hn0; rw [hU, h192]; omega
              · exact Nat.mul_lt_mul'' hlt hn
            rw [hU, h192] at this; omega
          have := big_quot (out + acc) d hd0 hd (by omega)
          rw [clamp_big r (Nat.le_trans this hge)]
      · -- output + accum does not fit in 256 bits
        simp only [U256.checkedAdd, h1, if_false]
        have := big_quot (out + acc) d hd0 hd (by omega)
        rw [clamp_big r (Nat.le_trans this hge)]
    · simp only [hacc, if_false, Option.some.injEq] at h ⊢
      have hd1 : d ≠ 0 := by omega
      simp only [hd1, if_false, Option.some.injEq, Res.ok.injEq]
      subst h
      unfold toU128Sat U128_MAX
      by_cases hq : out / d < U128
      · simp only [hq, if_true]; omega
      · simp only [hq, if_false]; omega

/-- headline, with explicit fuel: the repaired `fake_exponential` = EIP value clamped to `u128` -/
theorem fake_exp_eq_fuel (fuel f n d r : Nat) (hf : f < U64) (hn : n < U64) (hd : d < U64) (hd0 : d ≠ 0)
    (h : Spec.Blob.fakeExpFuel fuel f n d = some r) :
    fakeExponential fuel f n d = some (.ok (Spec.Blob.clamp128 r)) := by
  unfold fakeExponential
  unfold Spec.Blob.fakeExpFuel at h
  have hW := W_val; have hU := U64_val; have hKv := K_val
  have hfd : f * d < W := by
    have : f * d < U64 * U64 := Nat.mul_lt_mul'' hf hd
    rw [hU] at this; omega
  have hwm : U256.wmul f d = f * d := by unfold U256.wmul; exact Nat.mod_eq_of_lt hfd
  simp only [hd0, if_false, hwm]
  have := loop_sat n d hn (by omega) hd fuel 1 0 (f * d) r (by omega) hfd (fun hk => absurd hk (by rw [hKv]; omega)) h
  rw [this]; rfl

theorem fake_exp_eq (f n d r : Nat) (hf : f < U64) (hn : n < U64) (hd : d < U64) (hd0 : d ≠ 0)
    (hr : Spec.Blob.FakeExp f n d r) :
    ∃ fuel0, ∀ fuel, fuel0 ≤ fuel → fakeExponential fuel f n d = some (.ok (Spec.Blob.clamp128 r)) := by
  obtain ⟨fuel0, h0⟩ := hr
  refine ⟨fuel0, fun fuel hle => ?_⟩
  obtain ⟨k, rfl⟩ : ∃ k, fuel = fuel0 + k := ⟨fuel - fuel0, by omega⟩
  exact model_top_fuel_mono fuel0 k f n d _ (fake_exp_eq_fuel fuel0 f n d r hf hn hd hd0 h0)

/-! ### the Spec column (`fakeExpSat`) is the clamped EIP value -/

theorem sat_loop_eq (n d : Nat) (hd0 : 0 < d) : ∀ fuel i out acc v fuel' r,
    Spec.Blob.fakeExpSatLoop fuel i out acc n d = some v →
    Spec.Blob.fakeExpLoop fuel' i out acc n d = some r → v = Spec.Blob.clamp128 r := by
  intro fuel
  induction fuel with
  | zero => intro i out acc v fuel' r h; simp [Spec.Blob.fakeExpSatLoop] at h
  | succ k ih =>
    intro i out acc v fuel' r h h'
    unfold Spec.Blob.fakeExpSatLoop at h
    have hge := spec_result_ge n d _ _ _ _ _ h'
    by_cases hbig : out ≥ 2^128 * d
    · simp only [hbig, if_true, Option.some.injEq] at h
      have : 2^128 ≤ out / d := (Nat.le_div_iff_mul_le hd0).mpr hbig
      subst h; unfold Spec.Blob.clamp128; omega
    · simp only [hbig, if_false] at h
      cases fuel' with
      | zero => simp [Spec.Blob.fakeExpLoop] at h'
      | succ m =>
        unfold Spec.Blob.fakeExpLoop at h'
        by_cases hacc : acc > 0
        · simp only [hacc, if_true] at h h'
          exact ih _ _ _ _ _ _ h h'
        · simp only [hacc, if_false, Option.some.injEq] at h h'
          subst h h'
          have : out / d < 2^128 := (Nat.div_lt_iff_lt_mul hd0).mpr (by omega)
          unfold Spec.Blob.clamp128; omega

theorem sat_eq_clamp (fuel f n d v r : Nat) (hd0 : d ≠ 0)
    (h : Spec.Blob.fakeExpSat fuel f n d = some v) (hr : Spec.Blob.FakeExp f n d r) :
    v = Spec.Blob.clamp128 r := by
  obtain ⟨fuel', h'⟩ := hr
  exact sat_loop_eq n d (by omega) fuel 1 0 (f * d) v fuel' r h h'

/-! ### excess blob gas -/

theorem excess_eq (a b t : Nat) (ha : a < U64) (hb : b < U64) (ht : t < U64) :
    (calcExcessBlobGas a b t : Int) = Spec.Blob.excessBlobGasClamped a b t := by
  have hU := U64_val; have h8 := U128_val
  unfold calcExcessBlobGas U64_MAX Spec.Blob.excessBlobGasClamped Spec.Blob.excessBlobGas
  have hs : (a + b) % U128 = a + b := Nat.mod_eq_of_lt (by omega)
  simp only [hs]
  have h64 : ((2:Int)^64 - 1) = 18446744073709551615 := by decide
  rw [h64]
  by_cases h : a + b - t < U64
  · simp only [h, if_true]; rw [hU] at h; omega
  · simp only [h, if_false]; rw [hU] at h ⊢; omega

theorem excess_lt (a b t : Nat) : calcExcessBlobGas a b t < U64 := by
  have hU := U64_val
  unfold calcExcessBlobGas U64_MAX
  by_cases h : (a + b) % U128 - t < U64
  · simp only [h, if_true]
  · simp only [h, if_false]; omega

/-! ### regression points (the witnesses of the former finding) -/

def CANCUN : Nat := 3338477
def PRAGUE : Nat := 5007716

theorem cancun_spec_at : Spec.Blob.fakeExpFuel 400 1 192204553 CANCUN = some 10079296854086811361005191 := by decide +kernel
theorem cancun_model_at : fakeExponential 400 1 192204553 CANCUN = some (.ok 10079296854086811361005191) := by decide +kernel
theorem prague_spec_at : Spec.Blob.fakeExpFuel 400 1 284284039 PRAGUE = some 4513890120847598646169468 := by decide +kernel
theorem prague_model_at : fakeExponential 400 1 284284039 PRAGUE = some (.ok 4513890120847598646169468) := by decide +kernel
theorem small_spec_at : Spec.Blob.fakeExpFuel 400 1 88 1 = some 165162653699637111792770913913821835905 := by decide +kernel
theorem small_model_at : fakeExponential 400 1 88 1 = some (.ok 165162653699637111792770913913821835905) := by decide +kernel
theorem max_model_at : fakeExponential 400 1 18446744073709551615 CANCUN = some (.ok 340282366920938463463374607431768211455) := by decide +kernel

end Revm.Proofs.Blob
