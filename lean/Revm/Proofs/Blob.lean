import Revm.Model.Blob
import Revm.Spec.Blob
/-! Proofs for C32 (core Lean only). -/
set_option linter.unusedSimpArgs false
set_option linter.unusedVariables false
namespace Revm.Proofs.Blob
open Revm Revm.Model.Blob

theorem U128_eq : U128 = 2^128 := rfl

/-! ### model loop = EIP loop when no intermediate value overflows (both profiles) -/

theorem loop_eq (wrap : Bool) : ∀ fuel i out acc n d, 0 < i → 0 < d →
    Spec.Blob.loopFits U128 fuel i out acc n d = true →
    fakeExpLoop wrap fuel i out acc n d = (Spec.Blob.fakeExpLoop fuel i out acc n d).map Res.ok := by
  intro fuel
  induction fuel with
  | zero => intros; rfl
  | succ k ih =>
    intro i out acc n d hi hd hfit
    unfold fakeExpLoop Spec.Blob.fakeExpLoop
    unfold Spec.Blob.loopFits at hfit
    by_cases hacc : acc > 0
    · simp only [hacc, if_true, Bool.and_eq_true, decide_eq_true_eq] at hfit ⊢
      obtain ⟨⟨⟨⟨h1, h2⟩, h3⟩, h4⟩, h5⟩ := hfit
      have hden : d * i ≠ 0 := Nat.mul_ne_zero (by omega) (by omega)
      simp only [add128, mul128, h1, h2, h3, h4, if_true, hden, if_false]
      exact ih _ _ _ _ _ (by omega) hd h5
    · simp only [hacc, if_false, Option.map]

/-- the debug profile returns a value only if no intermediate value overflowed, and then it is the
EIP value -/
theorem debug_ok_imp : ∀ fuel i out acc n d r,
    fakeExpLoop false fuel i out acc n d = some (.ok r) →
    Spec.Blob.fakeExpLoop fuel i out acc n d = some r ∧ Spec.Blob.loopFits U128 fuel i out acc n d = true := by
  intro fuel
  induction fuel with
  | zero => intro i out acc n d r h; simp [fakeExpLoop] at h
  | succ k ih =>
    intro i out acc n d r h
    unfold fakeExpLoop at h
    unfold Spec.Blob.fakeExpLoop Spec.Blob.loopFits
    by_cases hacc : acc > 0
    · simp only [hacc, if_true] at h ⊢
      by_cases h1 : out + acc < U128
      · by_cases h2 : acc * n < U128
        · by_cases h3 : d * i < U128
          · by_cases h4 : i + 1 < U128
            · simp only [add128, mul128, h1, h2, h3, h4, if_true] at h
              by_cases hden : d * i = 0
              · simp [hden] at h
              · simp only [hden, if_false] at h
                have := ih _ _ _ _ _ _ h
                simp only [h1, h2, h3, h4, decide_true, Bool.and_self, Bool.true_and, this, and_self]
            · simp [add128, mul128, h1, h2, h3, h4] at h
          · simp [add128, mul128, h1, h2, h3] at h
        · simp [add128, mul128, h1, h2] at h
      · simp [add128, h1] at h
    · simp only [hacc, if_false] at h ⊢
      simp only [Option.some.injEq, Res.ok.injEq] at h
      simp [h]

/-! ### fuel independence -/

theorem spec_fuel_mono : ∀ fuel i out acc n d r k,
    Spec.Blob.fakeExpLoop fuel i out acc n d = some r →
    Spec.Blob.fakeExpLoop (fuel + k) i out acc n d = some r := by
  intro fuel
  induction fuel with
  | zero => intro i out acc n d r k h; simp [Spec.Blob.fakeExpLoop] at h
  | succ m ih =>
    intro i out acc n d r k h
    rw [show m + 1 + k = (m + k) + 1 by omega]
    unfold Spec.Blob.fakeExpLoop at h ⊢
    by_cases hacc : acc > 0
    · simp only [hacc, if_true] at h ⊢; exact ih _ _ _ _ _ _ _ h
    · simp only [hacc, if_false] at h ⊢; exact h

theorem model_fuel_mono (wrap : Bool) : ∀ fuel i out acc n d r k,
    fakeExpLoop wrap fuel i out acc n d = some r →
    fakeExpLoop wrap (fuel + k) i out acc n d = some r := by
  intro fuel
  induction fuel with
  | zero => intro i out acc n d r k h; simp [fakeExpLoop] at h
  | succ m ih =>
    intro i out acc n d r k h
    rw [show m + 1 + k = (m + k) + 1 by omega]
    unfold fakeExpLoop at h ⊢
    by_cases hacc : acc > 0
    · simp only [hacc, if_true] at h ⊢
      cases h1 : add128 wrap out acc with
      | panic => simpa [h1] using h
      | ok o' =>
        simp only [h1] at h ⊢
        cases h2 : mul128 wrap acc n with
        | panic => simpa [h2] using h
        | ok p =>
          simp only [h2] at h ⊢
          cases h3 : mul128 wrap d i with
          | panic => simpa [h3] using h
          | ok dn =>
            simp only [h3] at h ⊢
            by_cases hdn : dn = 0
            · simpa [hdn] using h
            · simp only [hdn, if_false] at h ⊢
              cases h4 : add128 wrap i 1 with
              | panic => simpa [h4] using h
              | ok i' => simp only [h4] at h ⊢; exact ih _ _ _ _ _ _ _ h
    · simp only [hacc, if_false] at h ⊢; exact h

/-- the EIP value is unique -/
theorem fakeExp_unique (f n d r r' : Nat) (h : Spec.Blob.FakeExp f n d r) (h' : Spec.Blob.FakeExp f n d r') :
    r = r' := by
  obtain ⟨a, ha⟩ := h; obtain ⟨b, hb⟩ := h'
  have h1 := spec_fuel_mono a _ _ _ _ _ _ b ha
  have h2 := spec_fuel_mono b _ _ _ _ _ _ a hb
  unfold Spec.Blob.fakeExpFuel at *
  rw [Nat.add_comm b a] at h2
  rw [h1] at h2; exact Option.some.inj h2

/-! ### the EIP loop always terminates -/

theorem div_lt_self_of (acc n d i : Nat) (hacc : 0 < acc) (hni : n < i) : acc * n / (d * i) < acc := by
  by_cases hd : d = 0
  · subst hd; simp; exact hacc
  · apply Nat.div_lt_of_lt_mul
    have h1 : acc * n < acc * i := Nat.mul_lt_mul_of_pos_left hni hacc
    have h2 : acc * i ≤ acc * (d * i) := Nat.mul_le_mul_left _ (Nat.le_mul_of_pos_left _ (by omega))
    calc acc * n < acc * i := h1
      _ ≤ acc * (d * i) := h2
      _ = d * i * acc := Nat.mul_comm _ _

theorem terminates_tail (n d : Nat) : ∀ acc i out, n < i → ∃ fuel, (Spec.Blob.fakeExpLoop fuel i out acc n d).isSome := by
  intro acc
  induction acc using Nat.strongRecOn with
  | _ acc ih =>
    intro i out hi
    by_cases hacc : acc > 0
    · obtain ⟨fuel, hf⟩ := ih (acc * n / (d * i)) (div_lt_self_of acc n d i hacc hi) (i + 1) (out + acc) (by omega)
      refine ⟨fuel + 1, ?_⟩
      unfold Spec.Blob.fakeExpLoop; simp only [hacc, if_true]; exact hf
    · refine ⟨1, ?_⟩
      unfold Spec.Blob.fakeExpLoop; simp [hacc]

theorem terminates_loop (n d : Nat) : ∀ k i acc out, n + 1 - i = k → ∃ fuel, (Spec.Blob.fakeExpLoop fuel i out acc n d).isSome := by
  intro k
  induction k with
  | zero => intro i acc out h; exact terminates_tail n d acc i out (by omega)
  | succ k ih =>
    intro i acc out h
    by_cases hacc : acc > 0
    · obtain ⟨fuel, hf⟩ := ih (i + 1) (acc * n / (d * i)) (out + acc) (by omega)
      refine ⟨fuel + 1, ?_⟩
      unfold Spec.Blob.fakeExpLoop; simp only [hacc, if_true]; exact hf
    · refine ⟨1, ?_⟩
      unfold Spec.Blob.fakeExpLoop; simp [hacc]

/-- the EIP-4844 loop terminates for all arguments: `FakeExp` is a total function -/
theorem fakeExp_total (f n d : Nat) : ∃ r, Spec.Blob.FakeExp f n d r := by
  obtain ⟨fuel, hf⟩ := terminates_loop n d (n + 1 - 1) 1 (f * d) 0 rfl
  obtain ⟨r, hr⟩ := Option.isSome_iff_exists.mp hf
  exact ⟨r, fuel, hr⟩

/-! ### monotonicity in the numerator: overflow-freedom is downward closed -/

theorem div_mono (a a' n n' m : Nat) (ha : a ≤ a') (hn : n ≤ n') : a * n / m ≤ a' * n' / m :=
  Nat.div_le_div_right (Nat.mul_le_mul ha hn)

theorem fits_mono (B d : Nat) : ∀ fuel i out out' acc acc' n n', out ≤ out' → acc ≤ acc' → n ≤ n' →
    Spec.Blob.loopFits B fuel i out' acc' n' d = true → Spec.Blob.loopFits B fuel i out acc n d = true := by
  intro fuel
  induction fuel with
  | zero => intros; rfl
  | succ k ih =>
    intro i out out' acc acc' n n' ho ha hn h
    unfold Spec.Blob.loopFits at h ⊢
    by_cases hacc : acc > 0
    · have hacc' : acc' > 0 := by omega
      simp only [hacc, hacc', if_true, Bool.and_eq_true, decide_eq_true_eq] at h ⊢
      obtain ⟨⟨⟨⟨h1, h2⟩, h3⟩, h4⟩, h5⟩ := h
      have hm : acc * n ≤ acc' * n' := Nat.mul_le_mul ha hn
      refine ⟨⟨⟨⟨by omega, by omega⟩, h3⟩, h4⟩, ?_⟩
      exact ih _ _ _ _ _ _ _ (by omega) (div_mono _ _ _ _ _ ha hn) hn h5
    · simp [hacc]

theorem term_mono (d : Nat) : ∀ fuel i out out' acc acc' n n', acc ≤ acc' → n ≤ n' →
    (Spec.Blob.fakeExpLoop fuel i out' acc' n' d).isSome = true → (Spec.Blob.fakeExpLoop fuel i out acc n d).isSome = true := by
  intro fuel
  induction fuel with
  | zero => intro i out out' acc acc' n n' ha hn h; simp [Spec.Blob.fakeExpLoop] at h
  | succ k ih =>
    intro i out out' acc acc' n n' ha hn h
    unfold Spec.Blob.fakeExpLoop at h ⊢
    by_cases hacc : acc > 0
    · have hacc' : acc' > 0 := by omega
      simp only [hacc, hacc', if_true] at h ⊢
      exact ih _ _ _ _ _ _ _ (div_mono _ _ _ _ _ ha hn) hn h
    · simp [hacc]

/-! ### headline -/

/-- model (either profile) = EIP value on the no-intermediate-overflow domain, with explicit fuel -/
theorem fake_exp_eq_fuel (wrap : Bool) (fuel f n d : Nat) (hd : d ≠ 0)
    (hfit : Spec.Blob.fitsFuel fuel f n d = true) :
    fakeExponential wrap fuel f n d = (Spec.Blob.fakeExpFuel fuel f n d).map Res.ok := by
  unfold Spec.Blob.fitsFuel at hfit
  simp only [Bool.and_eq_true, decide_eq_true_eq] at hfit
  unfold fakeExponential Spec.Blob.fakeExpFuel
  have h0 : f * d < U128 := hfit.1
  simp only [hd, if_false, mul128, h0, if_true]
  exact loop_eq wrap fuel 1 0 (f * d) n d (by omega) (by omega) hfit.2

theorem fake_exp_eq (wrap : Bool) (f n d r : Nat) (hd : d ≠ 0)
    (hr : Spec.Blob.FakeExp f n d r) (hfit : Spec.Blob.NoIntermediateOverflow f n d) :
    ∃ fuel0, ∀ fuel, fuel0 ≤ fuel → fakeExponential wrap fuel f n d = some (.ok r) := by
  obtain ⟨fuel0, hsome, hfit⟩ := hfit
  obtain ⟨r0, hr0⟩ := Option.isSome_iff_exists.mp hsome
  have : r0 = r := fakeExp_unique f n d r0 r ⟨fuel0, hr0⟩ hr
  subst this
  have h1 := fake_exp_eq_fuel wrap fuel0 f n d hd hfit
  rw [hr0] at h1
  refine ⟨fuel0, fun fuel hle => ?_⟩
  obtain ⟨k, rfl⟩ : ∃ k, fuel = fuel0 + k := ⟨fuel - fuel0, by omega⟩
  unfold fakeExponential at h1 ⊢
  by_cases hd0 : d = 0
  · exact absurd hd0 hd
  · simp only [hd0, if_false] at h1 ⊢
    cases hm : mul128 wrap f d with
    | panic => simp [hm] at h1
    | ok a => simp only [hm] at h1 ⊢; exact model_fuel_mono wrap _ _ _ _ _ _ _ k h1

/-- a value that fits: the result of an overflow-free run is below 2^128 -/
theorem loop_result_lt : ∀ fuel i out acc n d r, out < U128 →
    Spec.Blob.loopFits U128 fuel i out acc n d = true →
    Spec.Blob.fakeExpLoop fuel i out acc n d = some r → r < U128 := by
  intro fuel
  induction fuel with
  | zero => intro i out acc n d r ho hf h; simp [Spec.Blob.fakeExpLoop] at h
  | succ k ih =>
    intro i out acc n d r ho hf h
    unfold Spec.Blob.fakeExpLoop at h
    unfold Spec.Blob.loopFits at hf
    by_cases hacc : acc > 0
    · simp only [hacc, if_true, Bool.and_eq_true, decide_eq_true_eq] at h hf
      exact ih _ _ _ _ _ _ hf.1.1.1.1 hf.2 h
    · simp only [hacc, if_false, Option.some.injEq] at h
      subst h
      exact Nat.lt_of_le_of_lt (Nat.div_le_self _ _) ho

/-- downward closure in the numerator, at fixed fuel -/
theorem fitsFuel_mono (fuel f n n' d : Nat) (hn : n ≤ n')
    (h : Spec.Blob.fitsFuel fuel f n' d = true) : Spec.Blob.fitsFuel fuel f n d = true := by
  unfold Spec.Blob.fitsFuel at h ⊢
  simp only [Bool.and_eq_true] at h ⊢
  exact ⟨h.1, fits_mono _ d fuel 1 0 0 _ _ n n' (Nat.le_refl _) (Nat.le_refl _) hn h.2⟩

theorem isSome_mono (fuel f n n' d : Nat) (hn : n ≤ n')
    (h : (Spec.Blob.fakeExpFuel fuel f n' d).isSome = true) : (Spec.Blob.fakeExpFuel fuel f n d).isSome = true := by
  unfold Spec.Blob.fakeExpFuel at h ⊢
  exact term_mono d fuel 1 0 0 _ _ n n' (Nat.le_refl _) hn h

/-- everything below an overflow-free numerator is computed exactly, in both profiles -/
theorem below_threshold (wrap : Bool) (fuel f n n' d : Nat) (hd : d ≠ 0) (hn : n ≤ n')
    (hsome : (Spec.Blob.fakeExpFuel fuel f n' d).isSome = true)
    (hfit : Spec.Blob.fitsFuel fuel f n' d = true) :
    ∃ r, Spec.Blob.fakeExpFuel fuel f n d = some r ∧ r < U128 ∧ fakeExponential wrap fuel f n d = some (.ok r) := by
  have h1 := fitsFuel_mono fuel f n n' d hn hfit
  obtain ⟨r, hr⟩ := Option.isSome_iff_exists.mp (isSome_mono fuel f n n' d hn hsome)
  refine ⟨r, hr, ?_, ?_⟩
  · unfold Spec.Blob.fitsFuel at h1
    simp only [Bool.and_eq_true, decide_eq_true_eq] at h1
    exact loop_result_lt fuel 1 0 _ n d r (by rw [U128_val]; omega) h1.2 hr
  · rw [fake_exp_eq_fuel wrap fuel f n d hd h1, hr]; rfl

/-! ### excess blob gas -/

theorem excess_eq_iff (a b t : Nat) (ha : a < U64) (hb : b < U64) (ht : t < U64) :
    (∃ v, calcExcessBlobGas true a b t = .ok v ∧ (v : Int) = Spec.Blob.excessBlobGas a b t) ↔ a + b < U64 := by
  have hU := U64_val
  unfold calcExcessBlobGas add64 U64ops.saturatingSub Spec.Blob.excessBlobGas
  by_cases h : a + b < U64
  · simp only [h, if_true, iff_true]
    refine ⟨_, rfl, ?_⟩
    omega
  · simp only [h, if_false, if_true, iff_false]
    rintro ⟨v, hv, hs⟩
    simp only [Res.ok.injEq] at hv
    subst hv
    rw [hU] at h ha hb ht hs
    omega

theorem excess_debug (a b t : Nat) :
    calcExcessBlobGas false a b t = if a + b < U64 then .ok (a + b - t) else .panic := by
  unfold calcExcessBlobGas add64 U64ops.saturatingSub
  by_cases h : a + b < U64 <;> simp [h]


/-! ### lifting to `fakeExponential`, concrete thresholds and witnesses -/

theorem debug_ok_imp_top (fuel f n d r : Nat) (h : fakeExponential false fuel f n d = some (.ok r)) :
    d ≠ 0 ∧ Spec.Blob.fakeExpFuel fuel f n d = some r ∧ Spec.Blob.fitsFuel fuel f n d = true := by
  unfold fakeExponential at h
  by_cases hd : d = 0
  · simp [hd] at h
  · simp only [hd, if_false] at h
    by_cases h0 : f * d < U128
    · simp only [mul128, h0, if_true] at h
      have := debug_ok_imp fuel 1 0 (f * d) n d r h
      refine ⟨hd, this.1, ?_⟩
      unfold Spec.Blob.fitsFuel
      simp only [Bool.and_eq_true, decide_eq_true_eq]
      exact ⟨h0, this.2⟩
    · simp [mul128, h0] at h

theorem model_top_fuel_mono (wrap : Bool) (fuel k f n d : Nat) (r : Res Nat)
    (h : fakeExponential wrap fuel f n d = some r) : fakeExponential wrap (fuel + k) f n d = some r := by
  unfold fakeExponential at h ⊢
  by_cases hd : d = 0
  · simpa [hd] using h
  · simp only [hd, if_false] at h ⊢
    cases hm : mul128 wrap f d with
    | panic => simpa [hm] using h
    | ok a => simp only [hm] at h ⊢; exact model_fuel_mono wrap _ _ _ _ _ _ _ k h

/-- the model's answer does not depend on the fuel -/
theorem model_top_unique (wrap : Bool) (a b f n d : Nat) (r r' : Res Nat)
    (h : fakeExponential wrap a f n d = some r) (h' : fakeExponential wrap b f n d = some r') : r = r' := by
  have h1 := model_top_fuel_mono wrap a b f n d r h
  have h2 := model_top_fuel_mono wrap b a f n d r' h'
  rw [Nat.add_comm b a, h1] at h2
  exact Option.some.inj h2

def CANCUN : Nat := 3338477
def PRAGUE : Nat := 5007716
/-- smallest excess blob gas at which an intermediate product of `fake_exponential` reaches 2^128 -/
def CANCUN_LIMIT : Nat := 192204553
def PRAGUE_LIMIT : Nat := 284284039

theorem cancun_fits : Spec.Blob.fitsFuel 400 1 (CANCUN_LIMIT - 1) CANCUN = true := by decide +kernel
theorem cancun_some : (Spec.Blob.fakeExpFuel 400 1 (CANCUN_LIMIT - 1) CANCUN).isSome = true := by decide +kernel
theorem prague_fits : Spec.Blob.fitsFuel 400 1 (PRAGUE_LIMIT - 1) PRAGUE = true := by decide +kernel
theorem prague_some : (Spec.Blob.fakeExpFuel 400 1 (PRAGUE_LIMIT - 1) PRAGUE).isSome = true := by decide +kernel
theorem small_fits : Spec.Blob.fitsFuel 400 1 87 1 = true := by decide +kernel
theorem small_some : (Spec.Blob.fakeExpFuel 400 1 87 1).isSome = true := by decide +kernel

theorem cancun_spec_at : Spec.Blob.fakeExpFuel 400 1 CANCUN_LIMIT CANCUN = some 10079296854086811361005191 := by decide +kernel
theorem cancun_release_at : fakeExponential true 400 1 CANCUN_LIMIT CANCUN = some (.ok 5089730449835472321748656) := by decide +kernel
theorem cancun_debug_at : fakeExponential false 400 1 CANCUN_LIMIT CANCUN = some .panic := by decide +kernel
theorem prague_spec_at : Spec.Blob.fakeExpFuel 400 1 PRAGUE_LIMIT PRAGUE = some 4513890120847598646169468 := by decide +kernel
theorem prague_release_at : fakeExponential true 400 1 PRAGUE_LIMIT PRAGUE = some (.ok 2232503661301042500055690) := by decide +kernel
theorem prague_debug_at : fakeExponential false 400 1 PRAGUE_LIMIT PRAGUE = some .panic := by decide +kernel

end Revm.Proofs.Blob
