import Revm.Model.GasCalc
import Revm.Model.Arith
/-! LINK, termination: the dynamic gas costs are at least 1 (whenever they are defined). -/
set_option linter.unusedSimpArgs false
set_option linter.unusedVariables false
namespace Revm.Proofs.EvmLink
open Revm Revm.Model

theorem checkedAdd_ge {a c x : Nat} (h : U64ops.checkedAdd a c = some x) : a ≤ x := by
  unfold U64ops.checkedAdd at h
  split at h
  · simp only [Option.some.injEq] at h; omega
  · cases h

theorem add_cost_pos {a : Nat} (ha : 1 ≤ a) {o : Option Nat} {x : Nat}
    (h : (match o with | none => none | some c => U64ops.checkedAdd a c) = some x) : 1 ≤ x := by
  cases o with
  | none => cases h
  | some c => exact Nat.le_trans ha (checkedAdd_ge h)

theorem copyCost_pos (len : Nat) : ∀ x, GasCalc.verylowcopyCost len = some x → 1 ≤ x := fun x h =>
  add_cost_pos (a := GasCalc.VERYLOW) (by decide) h

theorem keccakCost_pos (len : Nat) : ∀ x, GasCalc.keccak256Cost len = some x → 1 ≤ x := fun x h =>
  add_cost_pos (a := GasCalc.KECCAK256) (by decide) h

theorem create2Cost_pos (len : Nat) : ∀ x, GasCalc.create2Cost len = some x → 1 ≤ x := fun x h =>
  add_cost_pos (a := GasCalc.CREATE) (by decide) h

theorem logCost_pos (n len : Nat) : ∀ x, GasCalc.logCost n len = some x → 1 ≤ x := by
  intro x h
  unfold GasCalc.logCost at h
  cases h1 : U64ops.checkedMul GasCalc.LOGDATA len with
  | none => rw [h1] at h; cases h
  | some a =>
    rw [h1] at h
    simp only at h
    cases h2 : U64ops.checkedAdd GasCalc.LOG a with
    | none => rw [h2] at h; cases h
    | some b =>
      rw [h2] at h
      simp only at h
      have e1 := checkedAdd_ge h2
      have e2 := checkedAdd_ge h
      have : (1 : Nat) ≤ GasCalc.LOG := by decide
      omega

theorem expCost_pos (spec power : Nat) : ∀ x, GasCalc.expCost spec power = some x → 1 ≤ x := by
  intro x h
  unfold GasCalc.expCost Arith.expCost at h
  split at h
  · simp only [Option.some.injEq] at h; omega
  · simp only at h
    split at h
    · cases h
    · rename_i m _
      split at h
      · cases h
      · rename_i g hg
        split at h
        · simp only [Option.some.injEq] at h
          unfold U256.checkedAdd at hg
          split at hg
          · simp only [Option.some.injEq] at hg; omega
          · cases hg
        · cases h

theorem warmColdCost_pos (c : Bool) : 1 ≤ GasCalc.warmColdCost c := by cases c <;> decide

theorem extcodecopyCost_pos (spec len : Nat) (c : Bool) : ∀ x, GasCalc.extcodecopyCost spec len c = some x → 1 ≤ x := by
  intro x h
  unfold GasCalc.extcodecopyCost at h
  simp only at h
  refine add_cost_pos ?_ h
  split
  · exact warmColdCost_pos c
  · split <;> decide

theorem sloadCost_pos (spec : Nat) (c : Bool) : 1 ≤ GasCalc.sloadCost spec c := by
  unfold GasCalc.sloadCost
  repeat' split
  all_goals decide

theorem sstoreCost_pos (spec o p n gas : Nat) (c : Bool) : ∀ x, GasCalc.sstoreCost spec o p n gas c = some x → 1 ≤ x := by
  intro x h
  unfold GasCalc.sstoreCost GasCalc.istanbulSstoreCost GasCalc.frontierSstoreCost at h
  have e1 : (1 : Nat) ≤ GasCalc.WARM_STORAGE_READ_COST := by decide
  have e2 : (1 : Nat) ≤ GasCalc.SSTORE_SET := by decide
  have e3 : (1 : Nat) ≤ GasCalc.WARM_SSTORE_RESET := by decide
  have e4 : (1 : Nat) ≤ GasCalc.INSTANBUL_SLOAD_GAS := by decide
  have e5 : (1 : Nat) ≤ GasCalc.SSTORE_RESET := by decide
  repeat' split at h
  all_goals first
    | (cases h; omega)
    | cases h

theorem callCost_pos (spec : Nat) (tv c : Bool) (d : Option Bool) (e : Bool) : 1 ≤ GasCalc.callCost spec tv c d e := by
  unfold GasCalc.callCost GasCalc.warmColdCostWithDelegation
  have := warmColdCost_pos c
  simp only
  repeat' split
  all_goals omega

/-- with a value transfer the surcharge covers the stipend and one more -/
theorem callCost_transfer1 (spec : Nat) (c : Bool) (d : Option Bool) (e : Bool) :
    GasCalc.CALL_STIPEND + 1 ≤ GasCalc.callCost spec true c d e := by
  unfold GasCalc.callCost GasCalc.CALL_STIPEND GasCalc.CALLVALUE GasCalc.NEWACCOUNT
  simp only [if_true]
  repeat' split
  all_goals omega

theorem selfdestructCost_any (spec : Nat) (a b c : Bool) : 0 ≤ GasCalc.selfdestructCost spec a b c := Nat.zero_le _

end Revm.Proofs.EvmLink
