import Revm.Model.Static
import Revm.Spec.Activation
/-! C10 — reading of the generated static-mode table (`Revm.Gen.staticTable`, `Revm.Gen.staticChild`): the
Boolean checks that `decide +kernel` evaluates over the whole table in `Props/C10.lean`, and the lemmas that
turn a successful check into statements about single entries. -/
namespace Revm.Proofs.Static
open Revm Revm.Model.Static

def codeRes (c : Nat) : Nat := c / 100
def codeMut (c : Nat) : Nat := c / 10 % 10
def codeAct (c : Nat) : Nat := c % 10

/-- res code of harness/src/c10.rs -/
def resCode : Res → Nat
  | .stateChange => 1 | .callNotAllowed => 2 | .notActivated => 3 | .opcodeNotFound => 4
  | .eofDisabledInLegacy => 5 | .callOrCreate => 6 | _ => 8

/-- act code of harness/src/c10.rs for an action emitted by the model (always a call with `is_static = true`) -/
def actCode : Option Act → Nat
  | none => 0
  | some a => if !a.childStatic then 5 else if a.valueZero then 1 else if a.scheme = .callCode then 6 else 2

/-- no mutating host call, and no action other than a call with `is_static = true` that moves nothing between
accounts (value 0, or CALLCODE); or the opcode was not executed (999) -/
def safeCode (c : Nat) : Bool :=
  Nat.beq (c % 100) 0 || Nat.beq (c % 100) 1 || Nat.beq (c % 100) 6 || Nat.beq c 999

def guardedOps : List Nat := [0x55, 0x5d, 0xa0, 0xa1, 0xa2, 0xa3, 0xa4, 0xf0, 0xf5, 0xff, 0xec]
def callOps : List Nat := [0xf1, 0xf2, 0xf4, 0xfa, 0xf8, 0xf9, 0xfb]
/-- guarded / value-call opcodes that EOF validation admits: these are executed in EOF mode -/
def eofExecuted : List Nat := [0x55, 0x5d, 0xa0, 0xa1, 0xa2, 0xa3, 0xa4, 0xec, 0xf8, 0xf9, 0xfb]

/-- what the model predicts for a call opcode on the table's probe (17 equal stack words, ample gas) -/
def expectedCall (spec : Nat) (eof : Bool) (fill op : Nat) : Nat :=
  match stepStatic spec eof op 10000000 (List.replicate 17 fill) with
  | some o => resCode o.res * 100 + actCode o.act
  | none => 998

def rowOk (r : Nat × Nat × Nat × List Nat) : Bool :=
  let spec := r.1
  let eof := Nat.beq r.2.1 1
  let fill := r.2.2.1
  let codes := r.2.2.2
  Nat.beq codes.length 256 && codes.all safeCode &&
  guardedOps.all (fun op => Nat.beq (codes.getD op 999) 999 ||
    Nat.beq (codeRes (codes.getD op 999)) (resCode (guardResult spec eof op))) &&
  callOps.all (fun op => Nat.beq (codes.getD op 999) 999 ||
    Nat.beq (codes.getD op 999) (expectedCall spec eof fill op)) &&
  (eof || codes.all (fun c => !Nat.beq c 999)) &&
  (!eof || eofExecuted.all (fun op => !Nat.beq (codes.getD op 999) 999))

theorem nbeq {a b : Nat} : Nat.beq a b = true ↔ a = b :=
  ⟨Nat.eq_of_beq_eq_true, fun h => by subst h; exact Nat.beq_refl a⟩

theorem safeCode_spec {c : Nat} (h : safeCode c = true) :
    c = 999 ∨ (codeMut c = 0 ∧ (codeAct c = 0 ∨ codeAct c = 1 ∨ codeAct c = 6)) := by
  simp only [safeCode, Bool.or_eq_true, nbeq] at h
  unfold codeMut codeAct
  omega

theorem codeAt_mem {l : List Nat} {i : Nat} (h : i < l.length) : l.getD i 999 ∈ l := by
  rw [List.getD_eq_getElem?_getD, List.getElem?_eq_getElem h]
  simp

theorem guarded_mem {op : Nat} (h : guarded op = true) : op ∈ guardedOps := by
  simp only [guarded, isMutatingHostOp, isCreateOp, Bool.or_eq_true, decide_eq_true_eq] at h
  simp only [guardedOps, List.mem_cons, List.mem_nil_iff, or_false]
  omega

/-- what a successful row check says about one opcode of that row -/
theorem row_spec {spec eof fill : Nat} {codes : List Nat} (h : rowOk (spec, eof, fill, codes) = true)
    (op : Nat) (hop : op < 256) :
    (codes.getD op 999 = 999 ∨ (codeMut (codes.getD op 999) = 0 ∧
        (codeAct (codes.getD op 999) = 0 ∨ codeAct (codes.getD op 999) = 1 ∨ codeAct (codes.getD op 999) = 6))) ∧
    (guarded op = true → codes.getD op 999 = 999 ∨
        codeRes (codes.getD op 999) = resCode (guardResult spec (Nat.beq eof 1) op)) ∧
    (op ∈ callOps → codes.getD op 999 = 999 ∨ codes.getD op 999 = expectedCall spec (Nat.beq eof 1) fill op) ∧
    (Nat.beq eof 1 = false → codes.getD op 999 ≠ 999) ∧
    (Nat.beq eof 1 = true → op ∈ eofExecuted → codes.getD op 999 ≠ 999) := by
  simp only [rowOk, Bool.and_eq_true, nbeq] at h
  obtain ⟨⟨⟨⟨⟨hlen, hsafe⟩, hg⟩, hc⟩, hleg⟩, heof⟩ := h
  have hmem : codes.getD op 999 ∈ codes := codeAt_mem (by omega)
  refine ⟨safeCode_spec (List.all_eq_true.mp hsafe _ hmem), fun hgu => ?_, fun hco => ?_, fun he => ?_, fun he hm => ?_⟩
  · have := List.all_eq_true.mp hg op (guarded_mem hgu)
    simpa only [Bool.or_eq_true, nbeq] using this
  · have := List.all_eq_true.mp hc op hco
    simpa only [Bool.or_eq_true, nbeq] using this
  · rw [he] at hleg
    simp only [Bool.false_or] at hleg
    have := List.all_eq_true.mp hleg _ hmem
    intro h9; rw [h9] at this; simp at this
  · rw [he] at heof
    simp only [Bool.not_true, Bool.false_or] at heof
    have := List.all_eq_true.mp heof op hm
    intro h9; rw [h9] at this; simp at this

/-- a guarded opcode that exists for legacy code under `spec` (hand-written EIP table of C05) always reaches
the guard in static mode -/
theorem guardResult_legacy_exists {spec op : Nat} (hg : guarded op = true)
    (hex : Spec.Activation.undefinedIn spec op = false) : guardResult spec false op = .stateChange := by
  by_cases h5 : op = 0x5d
  · subst h5
    simp [Spec.Activation.undefinedIn, Spec.Activation.introducedIn, Spec.Activation.CANCUN] at hex
    have h1 : ¬ spec = 1 := by omega
    have h3 : ¬ spec = 3 := by omega
    have h7 : ¬ spec = 7 := by omega
    have h10 : ¬ spec = 10 := by omega
    have h13 : ¬ (spec = 13 ∨ spec = 14) := by omega
    simp only [guardResult, enabled, canon, CANCUN, h1, h3, h7, h10, h13, if_false, if_true]
    simp; omega
  · by_cases hec : op = 0xec
    · subst hec
      simp [Spec.Activation.undefinedIn, Spec.Activation.introducedIn] at hex
    · simp [guardResult, h5, hec]

/-- under OSAKA every guarded opcode reaches the guard in EOF code -/
theorem guardResult_eof_osaka {spec op : Nat} (hs : OSAKA ≤ spec) : guardResult spec true op = .stateChange := by
  unfold OSAKA at hs
  have h1 : ¬ spec = 1 := by omega
  have h3 : ¬ spec = 3 := by omega
  have h7 : ¬ spec = 7 := by omega
  have h10 : ¬ spec = 10 := by omega
  have h13 : ¬ (spec = 13 ∨ spec = 14) := by omega
  simp only [guardResult, enabled, canon, CANCUN, h1, h3, h7, h10, h13, if_false, if_true]
  by_cases h5 : op = 0x5d
  · simp [h5]; omega
  · simp [h5]

/-- `staticChild` row: (spec, eof, parent flag, call opcode, child flag | 2 = no call emitted) -/
def childOk (r : Nat × Nat × Nat × Nat × Nat) : Bool :=
  let spec := r.1; let eof := r.2.1; let parent := r.2.2.1; let op := r.2.2.2.1; let child := r.2.2.2.2
  (match schemeOfOp op with
   | some s => Nat.beq child 2 || Nat.beq child (childIsStatic s (Nat.beq parent 1)).toNat
   | none => false) &&
  -- coverage: the opcode exists in that mode and fork => an action was emitted and its flag observed
  (if Nat.beq eof 0 then (Spec.Activation.undefinedIn spec op || !Nat.beq child 2)
   else (!(Nat.beq op 0xf8 || Nat.beq op 0xf9 || Nat.beq op 0xfb) || !Nat.beq child 2))

end Revm.Proofs.Static
