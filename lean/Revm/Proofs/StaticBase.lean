import Revm.Model.Static
namespace Revm.Proofs.Static
open Revm Revm.Model.Journal Revm.Spec.JournalAbs Revm.Model.Static

/-- journal entries that the operations of a static frame push: warm marks, touch marks, and transfers that
move nothing (caller = target, or value 0) -/
def benignEntry : Entry → Bool
  | .accountWarmed _ | .accountTouched _ | .storageWarmed _ _ => true
  | .balanceTransfer s d v => decide (v < W) && (decide (s = d) || decide (v = 0))
  | _ => false

def slotView (db : Db) (a : Addr) (acc : Acct) (k : Nat) : Nat × Nat :=
  let v := absSlot db a (some acc) k
  (v.orig, v.present)

/-- the same account up to warm/cold marks, the touch mark and the bytecode cache -/
def AcctSim (db : Db) (a : Addr) (x y : Acct) : Prop :=
  x.info.balance = y.info.balance ∧ x.info.nonce = y.info.nonce ∧ x.info.codeHash = y.info.codeHash ∧
  x.created = y.created ∧ x.selfdestructed = y.selfdestructed ∧ x.notExisting = y.notExisting ∧
  ∀ k, slotView db a x k = slotView db a y k

theorem AcctSim.refl (db : Db) (a : Addr) (x : Acct) : AcctSim db a x x :=
  ⟨rfl, rfl, rfl, rfl, rfl, rfl, fun _ => rfl⟩

theorem AcctSim.trans {db : Db} {a : Addr} {x y z : Acct} (h1 : AcctSim db a x y) (h2 : AcctSim db a y z) :
    AcctSim db a x z := by
  obtain ⟨a1, a2, a3, a4, a5, a6, a7⟩ := h1
  obtain ⟨b1, b2, b3, b4, b5, b6, b7⟩ := h2
  exact ⟨a1.trans b1, a2.trans b2, a3.trans b3, a4.trans b4, a5.trans b5, a6.trans b6, fun k => (a7 k).trans (b7 k)⟩

/-- what `load_account` inserts for an address that is not in the state map -/
def fresh (db : Db) (a : Addr) : Acct :=
  match db.basic a with
  | some i => Acct.ofInfo i
  | none => Acct.newNotExisting

/-- an entry of the state map compared with the entry it had before (vacant = as in the database) -/
def StateSim (db : Db) (a : Addr) : Option Acct → Option Acct → Prop
  | some p, some q => AcctSim db a p q
  | none, some q => AcctSim db a (fresh db a) q
  | none, none => True
  | some _, none => False

theorem StateSim.refl (db : Db) (a : Addr) (x : Option Acct) : StateSim db a x x := by
  cases x with
  | none => trivial
  | some p => exact AcctSim.refl db a p

theorem StateSim.trans {db : Db} {a : Addr} {x y z : Option Acct} (h1 : StateSim db a x y) (h2 : StateSim db a y z) :
    StateSim db a x z := by
  cases x <;> cases y <;> cases z <;> simp only [StateSim] at * <;>
    first | trivial | exact h1.trans h2 | exact h2 | exact h1.elim | exact h2.elim

/-- the journal gained benign entries on its innermost level, nothing else -/
def JournalExt : List (List Entry) → List (List Entry) → Prop
  | [], j' => j' = []
  | l :: rest, j' => ∃ es : List Entry, (∀ e ∈ es, benignEntry e = true) ∧ j' = (es ++ l) :: rest

theorem JournalExt.refl (j : List (List Entry)) : JournalExt j j := by
  cases j with
  | nil => rfl
  | cons l rest => exact ⟨[], by simp, by simp⟩

theorem JournalExt.trans {a b c : List (List Entry)} (h1 : JournalExt a b) (h2 : JournalExt b c) : JournalExt a c := by
  cases a with
  | nil => simp only [JournalExt] at h1; subst h1; exact h2
  | cons l rest =>
    obtain ⟨es, hes, rfl⟩ := h1
    obtain ⟨es2, hes2, rfl⟩ := h2
    refine ⟨es2 ++ es, ?_, by simp⟩
    intro e he
    rcases List.mem_append.mp he with h | h
    · exact hes2 e h
    · exact hes e h

/-- `t` arises from `s` by operations that only set warm/touch marks, cache code, load accounts and slots
from the database, and push benign journal entries -/
structure Benign (db : Db) (s t : JState) : Prop where
  state : ∀ a, StateSim db a (s.state a) (t.state a)
  transient : t.transient = s.transient
  logs : t.logs = s.logs
  spec : t.spec = s.spec
  preloaded : t.preloaded = s.preloaded
  journal : JournalExt s.journal t.journal

theorem Benign.refl (db : Db) (s : JState) : Benign db s s :=
  ⟨fun a => StateSim.refl db a _, rfl, rfl, rfl, rfl, JournalExt.refl _⟩

theorem Benign.trans {db : Db} {s t u : JState} (h1 : Benign db s t) (h2 : Benign db t u) : Benign db s u :=
  ⟨fun a => (h1.state a).trans (h2.state a), h2.transient.trans h1.transient, h2.logs.trans h1.logs,
   h2.spec.trans h1.spec, h2.preloaded.trans h1.preloaded, h1.journal.trans h2.journal⟩

/-! ### world state -/

theorem worldAcct_of_sim {db : Db} {s t : JState} {a : Addr} (hspec : t.spec = s.spec) (hpre : t.preloaded = s.preloaded)
    (h : StateSim db a (s.state a) (t.state a)) : worldAcct db t a = worldAcct db s a := by
  unfold worldAcct absAcct
  cases hs : s.state a with
  | none =>
    cases ht : t.state a with
    | none => simp [hspec, hpre]
    | some q =>
      rw [hs, ht] at h
      obtain ⟨h1, h2, h3, h4, h5, h6, _⟩ := h
      simp only [← h1, ← h2, ← h3, ← h4, ← h5, ← h6]
      unfold fresh
      cases db.basic a <;> simp [Acct.ofInfo, Acct.newNotExisting]
  | some p =>
    cases ht : t.state a with
    | none => rw [hs, ht] at h; exact h.elim
    | some q =>
      rw [hs, ht] at h
      obtain ⟨h1, h2, h3, h4, h5, h6, _⟩ := h
      simp only [h1, h2, h3, h4, h5, h6]

theorem worldSlot_of_sim {db : Db} {s t : JState} {a : Addr} (k : Nat)
    (h : StateSim db a (s.state a) (t.state a)) : worldSlot db t a k = worldSlot db s a k := by
  unfold worldSlot absAcct
  cases hs : s.state a with
  | none =>
    cases ht : t.state a with
    | none => simp
    | some q =>
      rw [hs, ht] at h
      have h7 := h.2.2.2.2.2.2 k
      simp only [slotView] at h7
      simp only
      rw [← h7]
      unfold fresh
      cases db.basic a <;> simp [Acct.ofInfo, Acct.newNotExisting, absSlot]
  | some p =>
    cases ht : t.state a with
    | none => rw [hs, ht] at h; exact h.elim
    | some q =>
      rw [hs, ht] at h
      have h7 := h.2.2.2.2.2.2 k
      simp only [slotView] at h7
      simp only
      exact h7.symm

theorem Benign.world {db : Db} {s t : JState} (h : Benign db s t) : WorldEq db t s :=
  ⟨fun a => worldAcct_of_sim h.spec h.preloaded (h.state a), fun a k => worldSlot_of_sim k (h.state a),
   fun a k => by simp [tload, h.transient], h.logs⟩

end Revm.Proofs.Static
