import Revm.Proofs.InterpStack
/-! Proofs for C25, part 3: every pure instruction handler (no host question) keeps the invariant, never faults,
and consumes at least 1 gas whenever it continues. -/
set_option linter.unusedSimpArgs false
set_option linter.unusedVariables false
namespace Revm.Proofs.Interp
open Revm Revm.Model Revm.Model.Interp
open Revm.Proofs.Memory (WF)

/-- the handler continues, having consumed at least 1 gas, with the instruction pointer where the fetch left it -/
def Done1 (s0 s' : IState) : Prop := ∃ k st ne L, 1 ≤ k ∧ Rel k st ne L s0 s'

/-- what every handler needs of the state it starts in, whatever the code format -/
structure Base (s : IState) : Prop where
  envOk : GasCalc.enabled s.spec GasCalc.SpecId.MERGE = true → s.env.prevrandao ≠ none
  stack : s.stack.length ≤ 1024
  memWF : WF s.mem
  memCk : s.mem.lastCheckpoint ≤ 2^62
  rdLen : s.returnData.length ≤ Memory.ISIZE_MAX
  inLen : s.input.length ≤ Memory.ISIZE_MAX
  meas : measure s ≤ U64 - 1
  safe : measure s < U64 - 1 ∨ s.stack = []

theorem Base.rel {s : IState} (h : Base s) : Rel 0 false false 0 s s :=
  { code := rfl, origLen := rfl, jt := rfl, eofc := rfl, isEof := rfl, isEofInit := rfl, spec := rfl, env := rfl,
    input := rfl, ck := rfl, cks := rfl, stack := h.stack, memWF := h.memWF, memCk := h.memCk,
    memL := Nat.zero_le _, grow := Nat.le_refl _,
    rdLen := h.rdLen, inLen := h.inLen, m0 := h.meas, meas := Nat.le_of_eq (Nat.add_zero _),
    strict := fun e => (by cases e), safe := h.safe, nonempty := fun e => (by cases e), pc := rfl }

/-- the state right after the opcode fetch of `Interpreter::step`, legacy code -/
structure Start (s : IState) : Prop extends Base s where
  codeLen : s.code.length = s.origLen + 33
  jt : ∀ t, Jump.isValid s.jumpTable t = true → t < s.origLen
  legacy : s.isEof = false
  notInit : s.isEofInit = false
  origLe : s.origLen ≤ Memory.ISIZE_MAX
  pc : s.pc ≤ s.origLen

theorem Start.rel {s : IState} (h : Start s) : Rel 0 false false 0 s s := h.toBase.rel

/-- the instruction continues: invariant, at least 1 gas consumed, instruction pointer inside the code -/
structure Next (s0 s' : IState) : Prop where
  core : Core 1 true false 0 s0 s'
  pcOk : s'.pc < s'.code.length

theorem Done1.next {s0 s' : IState} (hs : Start s0) (h : Done1 s0 s') : Next s0 s' := by
  obtain ⟨k, st, ne, L, hk, hr⟩ := h
  refine ⟨(hr.mkStrict hk).toCore.weaken hk (fun e => e) (fun e => by cases e) (Nat.zero_le _), ?_⟩
  rw [hr.pc, hr.code, hs.codeLen]
  have := hs.pc; omega

section instr
variable {s0 s : IState}

theorem done1_of {k : Nat} {st ne : Bool} {L : Nat} {s' : IState} (h : Rel k st ne L s0 s') (hk : 1 ≤ k) :
    Done1 s0 s' := ⟨k, st, ne, L, hk, h⟩

theorem unopI_sat (h : Rel 0 false false 0 s0 s) (g : Nat) (f : Nat → Nat) (hg : 1 ≤ g) :
    Exec.Sat (unopI g f s) (Halt s0) (fun _ s' => Done1 s0 s') := by
  unfold unopI
  refine sat_bind (gasCharge_sat h g) ?_
  intro _ s2 h2
  refine sat_bind (popTop1_sat h2) ?_
  intro a s3 h3
  refine sat_mono (setTop_sat h3 (f a)) ?_
  intro _ s4 h4
  exact done1_of h4 (by omega)

theorem binopI_sat (h : Rel 0 false false 0 s0 s) (g fk : Nat) (f : Nat → Nat → Nat) (hg : 1 ≤ g) :
    Exec.Sat (binopI g fk f s) (Halt s0) (fun _ s' => Done1 s0 s') := by
  unfold binopI
  refine sat_bind (check_sat h fk) ?_
  intro _ s1 e1; subst e1
  refine sat_bind (gasCharge_sat h g) ?_
  intro _ s2 h2
  refine sat_bind (popTop2_sat h2) ?_
  rintro ⟨a, b⟩ s3 h3
  refine sat_mono (setTop_sat h3 (f a b)) ?_
  intro _ s4 h4
  exact done1_of h4 (by omega)

theorem teropI_sat (h : Rel 0 false false 0 s0 s) (g : Nat) (f : Nat → Nat → Nat → Nat) (hg : 1 ≤ g) :
    Exec.Sat (teropI g f s) (Halt s0) (fun _ s' => Done1 s0 s') := by
  unfold teropI
  refine sat_bind (gasCharge_sat h g) ?_
  intro _ s2 h2
  refine sat_bind (popTop3_sat h2) ?_
  rintro ⟨a, b, c⟩ s3 h3
  refine sat_mono (setTop_sat h3 (f a b c)) ?_
  intro _ s4 h4
  exact done1_of h4 (by omega)

theorem expCost_ge {spec b c : Nat} (h : GasCalc.expCost spec b = some c) : 1 ≤ c := by
  unfold GasCalc.expCost Arith.expCost at h
  split at h
  · injection h with h; omega
  · simp only [] at h
    split at h
    · cases h
    · rename_i m hm
      split at h
      · cases h
      · rename_i g hg
        unfold U256.checkedAdd at hg
        split at hg
        · injection hg with hg
          split at h
          · injection h with h; omega
          · cases h
        · cases hg

theorem expI_sat (h : Rel 0 false false 0 s0 s) :
    Exec.Sat (expI s) (Halt s0) (fun _ s' => Done1 s0 s') := by
  unfold expI
  refine sat_bind (popTop2_sat h) ?_
  rintro ⟨a, b⟩ s1 h1
  refine sat_bind (getS_sat h1) ?_
  rintro _ _ ⟨rfl, rfl⟩
  refine sat_bind (gasOrFail_sat h1 _) ?_
  rintro _ s3 ⟨c, hc, h3⟩
  refine sat_mono (setTop_sat h3 _) ?_
  intro _ s4 h4
  exact done1_of h4 (by have := expCost_ge hc; omega)

theorem pushValI_sat (h : Rel 0 false false 0 s0 s) (g fk : Nat) (v : IState → Nat) (hg : 1 ≤ g) :
    Exec.Sat (pushValI g fk v s) (Halt s0) (fun _ s' => Done1 s0 s') := by
  unfold pushValI
  refine sat_bind (check_sat h fk) ?_
  intro _ s1 e1; subst e1
  refine sat_bind (gasCharge_sat h g) ?_
  intro _ s2 h2
  refine sat_bind (getS_sat h2) ?_
  rintro _ _ ⟨rfl, rfl⟩
  have h2' : Rel (0 + g) true false 0 s0 s2 := h2.mkStrict (by omega)
  refine sat_mono (push_sat h2' _) ?_
  intro _ s4 h4
  exact done1_of h4 (by omega)

theorem difficultyI_sat
    (henv : GasCalc.enabled s0.spec GasCalc.SpecId.MERGE = true → s0.env.prevrandao ≠ none)
    (h : Rel 0 false false 0 s0 s) :
    Exec.Sat (difficultyI s) (Halt s0) (fun _ s' => Done1 s0 s') := by
  unfold difficultyI
  refine sat_bind (gasCharge_sat h _) ?_
  intro _ s2 h2
  refine sat_bind (getS_sat h2) ?_
  rintro _ _ ⟨rfl, rfl⟩
  have h2' : Rel (0 + GasCalc.BASE) true false 0 s0 s2 := h2.mkStrict (by decide)
  split
  · rename_i hm
    have hne := henv (by rw [← h2.spec]; exact hm)
    rw [← h2.env] at hne
    cases hp : s2.env.prevrandao with
    | none => exact absurd hp hne
    | some w =>
      simp only []
      exact sat_mono (push_sat h2' w) (fun _ _ h4 => done1_of h4 (by decide))
  · exact sat_mono (push_sat h2' _) (fun _ _ h4 => done1_of h4 (by decide))

theorem calldataloadI_sat (h : Rel 0 false false 0 s0 s) :
    Exec.Sat (calldataloadI s) (Halt s0) (fun _ s' => Done1 s0 s') := by
  unfold calldataloadI
  refine sat_bind (gasCharge_sat h _) ?_
  intro _ s1 h1
  refine sat_bind (popTop1_sat h1) ?_
  intro off s2 h2
  refine sat_bind (getS_sat h2) ?_
  rintro _ _ ⟨rfl, rfl⟩
  refine sat_mono (setTop_sat h2 _) ?_
  intro _ s4 h4
  exact done1_of h4 (by decide)

theorem blobhashI_sat (h : Rel 0 false false 0 s0 s) :
    Exec.Sat (blobhashI s) (Halt s0) (fun _ s' => Done1 s0 s') := by
  unfold blobhashI
  refine sat_bind (check_sat h _) ?_
  intro _ s0' e0; subst e0
  refine sat_bind (gasCharge_sat h _) ?_
  intro _ s1 h1
  refine sat_bind (popTop1_sat h1) ?_
  intro off s2 h2
  refine sat_bind (getS_sat h2) ?_
  rintro _ _ ⟨rfl, rfl⟩
  refine sat_mono (setTop_sat h2 _) ?_
  intro _ s4 h4
  exact done1_of h4 (by decide)

theorem verylowcopyCost_ge {len c : Nat} (h : GasCalc.verylowcopyCost len = some c) : 3 ≤ c := by
  unfold GasCalc.verylowcopyCost at h
  split at h
  · cases h
  · unfold U64ops.checkedAdd at h
    split at h
    · injection h with h; unfold GasCalc.VERYLOW at h; omega
    · cases h

theorem copyToMem_sat (h : Rel 0 false false 0 s0 s) (data : IState → List Nat)
    (hd : ∀ s', s'.input = s0.input → s'.code = s0.code → s'.origLen = s0.origLen →
      (data s').length ≤ Memory.ISIZE_MAX)
    (guard : M Unit)
    (hg : ∀ x, x.isEof = s0.isEof → Exec.Sat (guard x) (Halt s0) (fun _ x' => x = x')) :
    Exec.Sat (copyToMem data guard s) (Halt s0) (fun _ s' => Done1 s0 s') := by
  unfold copyToMem
  refine sat_bind (pop3_sat h) ?_
  rintro ⟨memOff, dataOff, len⟩ s1 h1
  refine sat_bind (asUsizeOrFail_sat h1 len _) ?_
  rintro len' s2 ⟨e2, hlen⟩; subst e2
  refine sat_bind (gasOrFail_sat h1 _) ?_
  rintro _ s3 ⟨c, hc, h3⟩
  have hc3 := verylowcopyCost_ge hc
  split
  · exact sat_pure (done1_of h3 (by omega))
  · refine sat_bind (asUsizeOrFail_sat h3 memOff _) ?_
    rintro memOff' s4 ⟨e4, hmo⟩; subst e4
    refine sat_bind (resizeMem_sat (h3.mkStrict (by omega)) memOff' len' hmo hlen) ?_
    intro _ s5 h5
    refine sat_bind (hg s5 h5.isEof) ?_
    rintro _ _ rfl
    refine sat_bind (getS_sat h5) ?_
    rintro _ _ ⟨rfl, rfl⟩
    refine sat_mono (memSetData_sat h5 memOff' _ len' (data s5)
      (hd s5 h5.input h5.code h5.origLen) (by omega)) ?_
    intro _ s7 h7
    exact done1_of h7 (by omega)

theorem assumeNotEof_sat (hleg : s0.isEof = false) (x : IState) (hx : x.isEof = s0.isEof) :
    Exec.Sat (assumeNotEof x) (Halt s0) (fun _ x' => x = x') := by
  unfold assumeNotEof
  rw [hx, hleg]
  exact sat_ok rfl

theorem codesizeI_sat (hleg : s0.isEof = false) (h : Rel 0 false false 0 s0 s) :
    Exec.Sat (codesizeI s) (Halt s0) (fun _ s' => Done1 s0 s') := by
  unfold codesizeI
  refine sat_bind (gasCharge_sat h _) ?_
  intro _ s1 h1
  refine sat_bind (assumeNotEof_sat hleg s1 h1.isEof) ?_
  rintro _ _ rfl
  refine sat_bind (getS_sat h1) ?_
  rintro _ _ ⟨rfl, rfl⟩
  have h1' : Rel (0 + GasCalc.BASE) true false 0 s0 s1 := h1.mkStrict (by decide)
  exact sat_mono (push_sat h1' _) (fun _ _ h4 => done1_of h4 (by decide))

theorem returndatacopyI_sat (h : Rel 0 false false 0 s0 s) :
    Exec.Sat (returndatacopyI s) (Halt s0) (fun _ s' => Done1 s0 s') := by
  unfold returndatacopyI
  refine sat_bind (check_sat h _) ?_
  intro _ s0' e0; subst e0
  refine sat_bind (pop3_sat h) ?_
  rintro ⟨memOff, off, len⟩ s1 h1
  refine sat_bind (asUsizeOrFail_sat h1 len _) ?_
  rintro len' s2 ⟨e2, hlen⟩; subst e2
  refine sat_bind (gasOrFail_sat h1 _) ?_
  rintro _ s3 ⟨c, hc, h3⟩
  have hc3 := verylowcopyCost_ge hc
  refine sat_bind (getS_sat h3) ?_
  rintro _ _ ⟨rfl, rfl⟩
  split
  · exact haltWith_sat h3 _
  · split
    · exact sat_pure (done1_of h3 (by omega))
    · refine sat_bind (asUsizeOrFail_sat h3 memOff _) ?_
      rintro memOff' s5 ⟨e5, hmo⟩; subst e5
      refine sat_bind (resizeMem_sat (h3.mkStrict (by omega)) memOff' len' hmo hlen) ?_
      intro _ s6 h6
      refine sat_mono (memSetData_sat h6 memOff' _ len' s3.returnData h3.rdLen (by omega)) ?_
      intro _ s7 h7
      exact done1_of h7 (by omega)

theorem popI_sat (h : Rel 0 false false 0 s0 s) :
    Exec.Sat (popI s) (Halt s0) (fun _ s' => Done1 s0 s') := by
  unfold popI
  refine sat_bind (gasCharge_sat h _) ?_
  intro _ s1 h1
  refine sat_mono (stackCall_sat (h1.mkStrict (by decide)) _ .pop trivial ?_) ?_
  · intro d
    refine ⟨rfl, ?_, ?_⟩ <;>
    · intro e
      have e' : resVoid (Stack.pop d).2 = _ := e
      show Stack.Out.ofWord (Stack.pop d).2 = _
      cases hp : (Stack.pop d).2 <;> rw [hp] at e' <;> first | rfl | cases e'
  · intro _ s2 h2; exact done1_of h2 (by decide)

theorem push0I_sat (h : Rel 0 false false 0 s0 s) :
    Exec.Sat (push0I s) (Halt s0) (fun _ s' => Done1 s0 s') := by
  unfold push0I
  refine sat_bind (check_sat h _) ?_
  intro _ s0' e0; subst e0
  refine sat_bind (gasCharge_sat h _) ?_
  intro _ s1 h1
  refine sat_mono (stackCall_sat (h1.mkStrict (by decide)) _ (.push 0) trivial ?_) ?_
  · intro d; exact ⟨rfl, fun e => by show Stack.Out.ofUnit _ = _; rw [e]; rfl, fun e => by show Stack.Out.ofUnit _ = _; rw [e]; rfl⟩
  · intro _ s2 h2; exact done1_of h2 (by decide)

theorem dupI_sat (h : Rel 0 false false 0 s0 s) (n : Nat) (hn : 0 < n) :
    Exec.Sat (dupI n s) (Halt s0) (fun _ s' => Done1 s0 s') := by
  unfold dupI
  refine sat_bind (gasCharge_sat h _) ?_
  intro _ s1 h1
  refine sat_mono (stackCall_sat (h1.mkStrict (by decide)) _ (.dup n) hn ?_) ?_
  · intro d; exact ⟨rfl, fun e => by show Stack.Out.ofUnit _ = _; rw [e]; rfl, fun e => by show Stack.Out.ofUnit _ = _; rw [e]; rfl⟩
  · intro _ s2 h2; exact done1_of h2 (by decide)

theorem swapI_sat (h : Rel 0 false false 0 s0 s) (n : Nat) (hn : 0 < n) (hn2 : n ≤ 16) :
    Exec.Sat (swapI n s) (Halt s0) (fun _ s' => Done1 s0 s') := by
  unfold swapI
  refine sat_bind (gasCharge_sat h _) ?_
  intro _ s1 h1
  refine sat_mono (stackCall_sat (h1.mkStrict (by decide)) _ (.swap n) ⟨hn, by rw [U64_val]; omega⟩ ?_) ?_
  · intro d; exact ⟨rfl, fun e => by show Stack.Out.ofUnit _ = _; rw [e]; rfl, fun e => by show Stack.Out.ofUnit _ = _; rw [e]; rfl⟩
  · intro _ s2 h2; exact done1_of h2 (by decide)

theorem mstoreI_sat (h : Rel 0 false false 0 s0 s) :
    Exec.Sat (mstoreI s) (Halt s0) (fun _ s' => Done1 s0 s') := by
  unfold mstoreI
  refine sat_bind (gasCharge_sat h _) ?_
  intro _ s1 h1
  refine sat_bind (pop2_sat h1) ?_
  rintro ⟨offset, value⟩ s2 h2
  refine sat_bind (asUsizeOrFail_sat h2 offset _) ?_
  rintro off s3 ⟨e3, hoff⟩; subst e3
  refine sat_bind (resizeMem_sat h2 off 32 hoff (by rw [U64_val]; decide)) ?_
  intro _ s4 h4
  refine sat_mono (memSetU256_sat h4 off value (by omega)) ?_
  intro _ s5 h5
  exact done1_of h5 (by decide)

theorem mstore8I_sat (h : Rel 0 false false 0 s0 s) :
    Exec.Sat (mstore8I s) (Halt s0) (fun _ s' => Done1 s0 s') := by
  unfold mstore8I
  refine sat_bind (gasCharge_sat h _) ?_
  intro _ s1 h1
  refine sat_bind (pop2_sat h1) ?_
  rintro ⟨offset, value⟩ s2 h2
  refine sat_bind (asUsizeOrFail_sat h2 offset _) ?_
  rintro off s3 ⟨e3, hoff⟩; subst e3
  refine sat_bind (resizeMem_sat h2 off 1 hoff (by rw [U64_val]; decide)) ?_
  intro _ s4 h4
  refine sat_mono (memSetByte_sat h4 off _ (by omega)) ?_
  intro _ s5 h5
  exact done1_of h5 (by decide)

theorem mloadI_sat (h : Rel 0 false false 0 s0 s) :
    Exec.Sat (mloadI s) (Halt s0) (fun _ s' => Done1 s0 s') := by
  unfold mloadI
  refine sat_bind (gasCharge_sat h _) ?_
  intro _ s1 h1
  refine sat_bind (popTop1_sat h1) ?_
  intro top s2 h2
  refine sat_bind (asUsizeOrFail_sat h2 top _) ?_
  rintro off s3 ⟨e3, hoff⟩; subst e3
  refine sat_bind (resizeMem_sat h2 off 32 hoff (by rw [U64_val]; decide)) ?_
  intro _ s4 h4
  refine sat_bind (memGetU256_sat h4 off (by omega)) ?_
  intro v s5 e5; subst e5
  refine sat_mono (setTop_sat h4 v) ?_
  intro _ s6 h6
  exact done1_of h6 (by decide)

theorem mcopyI_sat (h : Rel 0 false false 0 s0 s) :
    Exec.Sat (mcopyI s) (Halt s0) (fun _ s' => Done1 s0 s') := by
  unfold mcopyI
  refine sat_bind (check_sat h _) ?_
  intro _ s0' e0; subst e0
  refine sat_bind (pop3_sat h) ?_
  rintro ⟨dst, src, len⟩ s1 h1
  refine sat_bind (asUsizeOrFail_sat h1 len _) ?_
  rintro len' s2 ⟨e2, hlen⟩; subst e2
  refine sat_bind (gasOrFail_sat h1 _) ?_
  rintro _ s3 ⟨c, hc, h3⟩
  have hc3 := verylowcopyCost_ge hc
  split
  · exact sat_pure (done1_of h3 (by omega))
  · refine sat_bind (asUsizeOrFail_sat h3 dst _) ?_
    rintro dst' s4 ⟨e4, hd⟩; subst e4
    refine sat_bind (asUsizeOrFail_sat h3 src _) ?_
    rintro src' s5 ⟨e5, hsr⟩; subst e5
    refine sat_bind (resizeMem_sat (h3.mkStrict (by omega)) (max dst' src') len' (by omega) hlen) ?_
    intro _ s6 h6
    refine sat_mono (memCopy_sat h6 dst' src' len' (by omega) (by omega)) ?_
    intro _ s7 h7
    exact done1_of h7 (by omega)

theorem jumpdest_sat (h : Rel 0 false false 0 s0 s) :
    Exec.Sat (gasCharge GasCalc.JUMPDEST s) (Halt s0) (fun _ s' => Done1 s0 s') :=
  sat_mono (gasCharge_sat h _) (fun _ _ h1 => done1_of h1 (by decide))

/-- RETURN / REVERT never continue (any post-condition `Q`) -/
theorem returnInner_sat {Q : Unit → IState → Prop} (h : Rel 0 false false 0 s0 s) (r : IResult) :
    Exec.Sat (returnInner r s) (Halt s0) Q := by
  unfold returnInner
  refine sat_bind (pop2_sat h) ?_
  rintro ⟨offset, len⟩ s1 h1
  refine sat_bind (asUsizeOrFail_sat h1 len _) ?_
  rintro len' s2 ⟨e2, hlen⟩; subst e2
  split
  · refine sat_bind (asUsizeOrFail_sat h1 offset _) ?_
    rintro off s3 ⟨e3, hoff⟩; subst e3
    refine sat_bind (resizeMem_sat h1 off len' hoff hlen) ?_
    intro _ s4 h4
    refine sat_bind (memSlice_sat h4 off len' (by omega)) ?_
    rintro out s5 ⟨e5, _⟩; subst e5
    exact haltOut_sat h4 _ _
  · exact haltOut_sat h1 _ _

theorem revertI_sat {Q : Unit → IState → Prop} (h : Rel 0 false false 0 s0 s) :
    Exec.Sat (revertI s) (Halt s0) Q := by
  unfold revertI
  refine sat_bind (check_sat h _) ?_
  intro _ s0' e0; subst e0
  exact returnInner_sat h _

end instr

end Revm.Proofs.Interp
