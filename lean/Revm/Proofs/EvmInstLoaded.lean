import Revm.Proofs.EvmLinkEther4
/-! C30 instance, the run invariant "the executing contract is in the journal", part 1: frames.

No journal operation removes an account from `JournaledState::state` (`KLe`, `Proofs/EvmLinkKeys.lean`; carried through
every `World` / frame / loop function by `Pres.kle` of `Proofs/EvmLinkEther*.lean`, used here with the empty address
list). This file adds: the frame `make_call_frame` / `make_create_frame` answers with runs at an address that IS in the
journal afterwards - `make_call_frame` loads / touches / credits `target_address` when the call transfers value
(`CallValue::Transfer`: CALL, CALLCODE, STATICCALL); a call with an apparent value (DELEGATECALL) runs at the caller
frame's own address; `make_create_frame` loads the created address before `create_account_checkpoint`. -/
namespace Revm.Proofs.EvmInstLoaded
open Revm Revm.Model Revm.Model.Evm
open Revm.Proofs.EvmLink (KLe bind_ok callTail callPrecompile callValueStep makeCallFrameS makeCallFrame_staged createTail
  makeCreateFrameS makeCreateFrame_staged Pres)

set_option linter.unusedSimpArgs false
set_option linter.unusedVariables false

/-- the account is in the journal's state map -/
def In (w : World) (a : Nat) : Prop := w.js.state a ≠ none

theorem hB0 : Revm.Spec.Ether.sumOver [] (fun _ => 0) < W := by
  show 0 < W
  rw [W_val]; decide

/-- `Pres` with the empty address list: only its `kle` part is used -/
abbrev P0 (w w' : World) : Prop := Pres [] (fun _ => 0) w w'

theorem In.mono {w w' : World} {a : Nat} (h : In w a) (k : KLe w.js w'.js) : In w' a := k a h

theorem init_target (code input : List Nat) (gl : Nat) (st : Bool) (spec target caller value : Nat) (env : Interp.Env)
    (mem : Memory.SharedMemory) : (Interp.IState.init code input gl st spec target caller value env mem).target = target :=
  rfl

/-! ## `make_call_frame` -/

theorem callTail_target {cfg : Cfg} {w w' : World} {cp : Journal.Checkpoint} {i : Interp.CallInputs} {mem}
    {f : Frame Journal.Checkpoint} (h : callTail journalOps cfg w cp i mem = .ok (.frame f, w')) :
    f.interp.target = i.targetAddress ∧ KLe w.js w'.js := by
  have k := (Revm.Proofs.EvmLink.pres_callTail (L := []) (B := fun _ => 0) List.nodup_nil hB0 h).kle
  refine ⟨?_, k⟩
  unfold callTail at h
  obtain ⟨⟨w1, c⟩, _, h⟩ := bind_ok h
  obtain ⟨acc, _, h⟩ := bind_ok h
  obtain ⟨hh, _, h⟩ := bind_ok h
  obtain ⟨bytecode, _, h⟩ := bind_ok h
  split at h
  · simp only [pure, Except.pure, Except.ok.injEq, Prod.mk.injEq] at h
    exact nomatch h.1
  · obtain ⟨⟨w2, code2⟩, _, h⟩ := bind_ok h
    simp only [pure, Except.pure, Except.ok.injEq, Prod.mk.injEq, FrameOrResult.frame.injEq] at h
    rw [← h.1]
    rfl

theorem callPrecompile_target {cfg : Cfg} {w w' : World} {cp : Journal.Checkpoint} {i : Interp.CallInputs} {mem}
    {f : Frame Journal.Checkpoint} (h : callPrecompile journalOps cfg w cp i mem = .ok (.frame f, w')) :
    f.interp.target = i.targetAddress ∧ KLe w.js w'.js := by
  unfold callPrecompile at h
  obtain ⟨pc, _, h⟩ := bind_ok h
  cases pc with
  | none => exact callTail_target h
  | some res =>
    simp only at h
    cases res with
    | ok gasUsed out =>
      simp only at h
      split at h
      · simp only [pure, Except.pure, Except.ok.injEq, Prod.mk.injEq] at h
        exact nomatch h.1
      · obtain ⟨w1, _, h⟩ := bind_ok h
        simp only [pure, Except.pure, Except.ok.injEq, Prod.mk.injEq] at h
        exact nomatch h.1
    | err e =>
      simp only at h
      obtain ⟨w1, _, h⟩ := bind_ok h
      simp only [pure, Except.pure, Except.ok.injEq, Prod.mk.injEq] at h
      exact nomatch h.1
    | panic =>
      simp only at h
      obtain ⟨x, hx, _⟩ := bind_ok h
      cases hx

/-- the value step puts the target into the journal when the call transfers value -/
theorem callValueStep_in {w w1 : World} {i : Interp.CallInputs} {f} (h : callValueStep w i = .ok (w1, f))
    (ht : i.valueTransfer = false → In w i.targetAddress) : In w1 i.targetAddress ∧ KLe w.js w1.js := by
  have k := (Revm.Proofs.EvmLink.pres_callValueStep (L := []) (B := fun _ => 0) List.nodup_nil hB0 h).kle
  refine ⟨?_, k⟩
  unfold callValueStep at h
  split at h
  · split at h
    · obtain ⟨⟨w2, c⟩, h1, h⟩ := bind_ok h
      obtain ⟨w3, h2, h⟩ := bind_ok h
      simp only [pure, Except.pure, Except.ok.injEq, Prod.mk.injEq] at h
      rw [← h.1]
      have p := (Revm.Proofs.EvmLink.pres_loadAccount (L := []) (B := fun _ => 0) List.nodup_nil hB0 h1).2
      exact (Revm.Proofs.EvmLink.pres_touch (L := []) (B := fun _ => 0) List.nodup_nil hB0 h2).kle _ p
    · obtain ⟨⟨w2, e⟩, h1, h⟩ := bind_ok h
      have hin : In w2 i.targetAddress := by
        unfold World.transfer at h1
        obtain ⟨⟨js, e'⟩, h3, h4⟩ := bind_ok h1
        simp only [pure, Except.pure, Except.ok.injEq, Prod.mk.injEq] at h4
        rw [← h4.1]
        show (World.noteAddr _ _).js.state i.targetAddress ≠ none
        rw [Proofs.EvmHost.noteAddr_js, Proofs.EvmHost.noteAddr_js]
        exact (Revm.Proofs.EvmLink.kle_transfer (Proofs.EvmHost.ofOpt_ok h3)).2.2
      simp only at h
      split at h <;> simp only [pure, Except.pure, Except.ok.injEq, Prod.mk.injEq] at h <;> (rw [← h.1]; exact hin)
  · rename_i hv
    simp only [pure, Except.pure, Except.ok.injEq, Prod.mk.injEq] at h
    rw [← h.1]
    exact ht (by simpa using hv)

/-- `make_call_frame` answering with a frame: it runs at `target_address`, which is in the journal afterwards -
provided a call that does not transfer value (DELEGATECALL) names an address that was in the journal -/
theorem makeCallFrame_target {cfg : Cfg} {w w' : World} {i : Interp.CallInputs} {mem}
    {f : Frame Journal.Checkpoint} (h : makeCallFrame journalOps cfg w i mem = .ok (.frame f, w'))
    (ht : i.valueTransfer = false → In w i.targetAddress) :
    f.interp.target = i.targetAddress ∧ In w' i.targetAddress := by
  rw [makeCallFrame_staged] at h
  unfold makeCallFrameS at h
  split at h
  · simp only [pure, Except.pure, Except.ok.injEq, Prod.mk.injEq] at h
    exact nomatch h.1
  · obtain ⟨⟨w1, x⟩, h1, h⟩ := bind_ok h
    have k1 := (Revm.Proofs.EvmLink.pres_loadAccountDelegated (L := []) (B := fun _ => 0) List.nodup_nil hB0 h1).kle
    simp only at h
    obtain ⟨⟨w2, failed⟩, h2, h⟩ := bind_ok h
    have ht1 : i.valueTransfer = false → In (journalOps.checkpoint w1).1 i.targetAddress :=
      fun hv => (Revm.Proofs.EvmLink.kle_checkpoint w1.js) _ (k1 _ (ht hv))
    obtain ⟨hin, _⟩ := callValueStep_in h2 ht1
    cases failed with
    | some r0 =>
      simp only at h
      obtain ⟨w3, h3, h⟩ := bind_ok h
      simp only [pure, Except.pure, Except.ok.injEq, Prod.mk.injEq] at h
      exact nomatch h.1
    | none =>
      simp only at h
      obtain ⟨htg, k3⟩ := callPrecompile_target h
      exact ⟨htg, k3 _ hin⟩

/-! ## `make_create_frame` -/

theorem createTail_target {cfg : Cfg} {w w' : World} {i : Interp.CreateInputs} {mem} {created : Nat}
    {f : Frame Journal.Checkpoint} (h : createTail journalOps cfg w i mem created = .ok (.frame f, w')) :
    f.interp.target = created ∧ In w' created := by
  unfold createTail at h
  simp only [pure, Except.pure] at h
  split at h
  · simp only [Except.ok.injEq, Prod.mk.injEq] at h
    exact nomatch h.1
  · obtain ⟨⟨w3, c3⟩, h3, h⟩ := bind_ok h
    have pa := (Revm.Proofs.EvmLink.pres_loadAccount (L := []) (B := fun _ => 0) List.nodup_nil hB0 h3).2
    obtain ⟨⟨w4, r4⟩, h4, h⟩ := bind_ok h
    have k4 : KLe w3.js w4.js := by
      simp only [journalOps] at h4
      obtain ⟨⟨js, r'⟩, h5, h6⟩ := bind_ok h4
      simp only [pure, Except.pure, Except.ok.injEq, Prod.mk.injEq] at h6
      rw [← h6.1]
      exact (Revm.Proofs.EvmLink.kle_createAccountCheckpoint (Proofs.EvmHost.ofOpt_ok h5)).1
    simp only at h
    split at h <;> simp only [Except.ok.injEq, Prod.mk.injEq, FrameOrResult.frame.injEq] at h
    · exact nomatch h.1
    · exact nomatch h.1
    · rw [← h.1, ← h.2]
      exact ⟨rfl, k4 _ pa⟩

/-- `make_create_frame` answering with a frame: it runs at the created address, which is in the journal afterwards -/
theorem makeCreateFrame_target {cfg : Cfg} {w w' : World} {i : Interp.CreateInputs} {mem}
    {f : Frame Journal.Checkpoint} (h : makeCreateFrame journalOps cfg w i mem = .ok (.frame f, w')) :
    In w' f.interp.target := by
  rw [makeCreateFrame_staged] at h
  unfold makeCreateFrameS at h
  simp only [pure, Except.pure] at h
  split at h
  · simp only [Except.ok.injEq, Prod.mk.injEq] at h
    exact nomatch h.1
  · obtain ⟨⟨w1, c⟩, h1, h⟩ := bind_ok h
    obtain ⟨cacc, hca, h⟩ := bind_ok h
    simp only at h
    split at h
    · simp only [Except.ok.injEq, Prod.mk.injEq] at h
      exact nomatch h.1
    · obtain ⟨⟨js, nn⟩, h2, h⟩ := bind_ok h
      simp only at h
      cases nn with
      | none =>
        simp only [Except.ok.injEq, Prod.mk.injEq] at h
        exact nomatch h.1
      | some newNonce =>
        simp only at h
        obtain ⟨htg, hin⟩ := createTail_target h
        rw [htg]; exact hin

end Revm.Proofs.EvmInstLoaded
