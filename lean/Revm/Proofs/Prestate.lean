import Revm.Proofs.StateDb
import Revm.Spec.Prestate
/-! Proofs for C19: a well-formed bundle account, read through `From<BundleAccount> for CacheAccount`,
satisfies the Appendix-A.2 relation against the merged database. -/
namespace Revm.Proofs.Prestate
open Revm Revm.Model.StateDb Revm.Spec.StateDb Revm.Spec.Prestate Revm.Proofs.StateDb

set_option linter.unusedSimpArgs false
set_option linter.unusedVariables false

theorem merged_code {D : Db} {B BC} {known : Bool} (hw : BundleWf D B BC known) (h : Nat) :
    (merged D B BC known).code h = match BC h with | some c => c | none => D.code h := by
  unfold merged
  simp only
  cases hb : BC h with
  | none => rfl
  | some c =>
    simp only
    by_cases hk : h = KECCAK_EMPTY
    · simp only [hk, if_true]; rw [← hk]; exact hw.2 h c hb hk
    · simp only [hk, if_false]

theorem merged_outside {D : Db} {B BC} {known : Bool} (a : Addr) (hB : B a = none) :
    refOfDb (merged D B BC known) a = refOfDb D a := by
  unfold refOfDb merged
  simp only [hB]

theorem infoEq_sim {T : Nat → Code} {i j : Info} (h : infoEq i j = true)
    (hc : resolveCode T i = resolveCode T j) : Sim T i j := by
  unfold infoEq at h
  simp only [Bool.and_eq_true, beq_iff_eq] at h
  exact ⟨h.1.1, h.1.2, h.2, hc⟩

theorem bundle_rel {D : Db} {B BC} {known : Bool} (hw : BundleWf D B BC known)
    (hz : InMemoryStorageZero D B) (a : Addr) :
    match (B a).map BundleAccount.toCache with
    | some c => CacheRel D (merged D B BC known).code a c (refOfDb (merged D B BC known) a)
    | none => refOfDb (merged D B BC known) a = refOfDb D a := by
  cases hB : B a with
  | none => simp only [Option.map]; exact merged_outside a hB
  | some b =>
    simp only [Option.map]
    obtain ⟨horig, hrest⟩ := hw.1 a b hB
    have hbasic : (merged D B BC known).basic a =
        if !known || !infoOptEq b.info b.originalInfo then b.info.map withoutCode else D.basic a := by
      simp only [merged, hB]
    have hstor : ∀ k, (merged D B BC known).storage a k =
        (match b.storage k with
          | none => if b.status.wasDestroyed then 0 else D.storage a k
          | some op =>
            if !known || (b.status.wasDestroyed && op.2 != 0) || (!b.status.wasDestroyed && op.1 != op.2)
            then op.2 else (if b.status.wasDestroyed then 0 else D.storage a k)) := by
      intro k; simp only [merged, hB]; cases b.storage k <;> rfl
    generalize merged D B BC known = E at *
    unfold BundleAccount.toCache CacheRel
    cases hi : b.info with
    | none =>
      rw [hi] at hrest horig hbasic
      simp only [Option.map] at hrest ⊢
      refine ⟨by rcases hrest with h | h | h <;> simp [h], ?_⟩
      unfold refOfDb
      rw [hbasic]
      by_cases hc : (!known || !infoOptEq none b.originalInfo) = true
      · simp [hc]
      · simp only [hc, Bool.false_eq_true, if_false]
        simp only [Bool.or_eq_true, Bool.not_eq_true', not_or, Bool.not_eq_false] at hc
        have := horig hc.1 hc.2
        cases hd : D.basic a with
        | none => rfl
        | some j => rw [hd] at this; simp [infoOptEq] at this
    | some i =>
      rw [hi] at hrest horig hbasic
      simp only [Option.map] at hrest hbasic ⊢
      obtain ⟨hwf, hst, hch, hcode, hslots⟩ := hrest
      -- the merged database has an entry `j` for `a` that looks like `i`
      have hj : ∃ j, E.basic a = some j ∧ infoEq i j = true := by
        rw [hbasic]
        by_cases hc : (!known || !infoOptEq (some i) b.originalInfo) = true
        · simp only [hc, if_true]
          exact ⟨withoutCode i, rfl, by simp [infoEq, withoutCode]⟩
        · simp only [hc, Bool.false_eq_true, if_false]
          simp only [Bool.or_eq_true, Bool.not_eq_true', not_or, Bool.not_eq_false] at hc
          have := horig hc.1 hc.2
          cases hd : D.basic a with
          | none => rw [hd] at this; simp [infoOptEq] at this
          | some j => rw [hd] at this; exact ⟨j, rfl, this⟩
      obtain ⟨j, hj1, hj2⟩ := hj
      refine ⟨j, E.storage a, by simp [refOfDb, hj1], infoEq_sim hj2 (hcode j hj1), hwf, ?_, ?_⟩
      · intro k
        rw [hstor k]
        have hsl := hslots
        unfold readSlot
        rcases hst with h | h | h <;> rw [h] at hsl ⊢ <;>
          simp only [Status.wasDestroyed, Status.isStorageKnown, forall_const] at hsl ⊢
        · -- InMemoryChange
          have := hsl k
          cases hk : b.storage k with
          | none => simp [hz a b hB h k hk]
          | some op =>
            rw [hk] at this
            simp only [Option.map, Bool.false_eq_true, if_false, Bool.false_and, Bool.or_false,
              Bool.not_false, Bool.true_and]
            by_cases hc : (!known || op.1 != op.2) = true
            · simp [hc]
            · simp only [hc, Bool.false_eq_true, if_false]
              simp only [Bool.or_eq_true, Bool.not_eq_true', not_or, Bool.not_eq_false, bne_iff_ne,
                ne_eq, Decidable.not_not] at hc
              exact this hc.1 hc.2
        · -- Changed
          have := hsl k
          cases hk : b.storage k with
          | none => simp
          | some op =>
            rw [hk] at this
            simp only [Option.map, Bool.false_eq_true, if_false, Bool.false_and, Bool.or_false,
              Bool.not_false, Bool.true_and]
            by_cases hc : (!known || op.1 != op.2) = true
            · simp [hc]
            · simp only [hc, Bool.false_eq_true, if_false]
              simp only [Bool.or_eq_true, Bool.not_eq_true', not_or, Bool.not_eq_false, bne_iff_ne,
                ne_eq, Decidable.not_not] at hc
              exact this hc.1 hc.2
        · -- DestroyedChanged
          cases hk : b.storage k with
          | none => simp
          | some op =>
            simp only [Option.map, if_true, Bool.true_and, Bool.not_true, Bool.false_and, Bool.or_false]
            by_cases hc : (!known || op.2 != 0) = true
            · simp [hc]
            · simp only [hc, Bool.false_eq_true, if_false]
              simp only [Bool.or_eq_true, Bool.not_eq_true', not_or, Bool.not_eq_false, bne_iff_ne,
                ne_eq, Decidable.not_not] at hc
              exact hc.2.symm
      · rcases hst with h | h | h <;> rw [h] <;> simp only [StatusOk]
        exact hch h

/-- C19: reads of a State with the preloaded bundle = reads of the reference over the merged database -/
theorem prestate_reads {D : Db} (sc bu known : Bool) (B : Addr → Option BundleAccount)
    (BC : Nat → Option Code) (ops : List Op) (hw : BundleWf D B BC known)
    (hz : InMemoryStorageZero D B) (hD : DbWf D) (hE : CodelessNoStorage D)
    (hD' : DbWf (merged D B BC known)) (hE' : CodelessNoStorage (merged D B BC known))
    (hx : Excl sc ops) (hr : Reach (merged D B BC known).code sc (St.init (merged D B BC known)) ops) :
    ∃ s', (State.build D sc bu (some (B, BC))).run ops =
      .ok (s', (run (merged D B BC known).code sc (St.init (merged D B BC known)) ops).2) :=
  prestate_reads_ref sc bu B BC ops hD hE hD' hE' (bundle_rel hw hz) (merged_code hw) hx hr

end Revm.Proofs.Prestate
