import Revm.Proofs.FrameDepth
/-! The invariant of `run_the_loop`: journal depth = number of frames on `call_stack` (C07). -/
namespace Revm.Proofs.Frame
open Revm Revm.Model.Journal Revm.Model.Frame

/-- while the interpreter of the top frame runs: depth = number of open frames, between 1 and 1025 -/
def Inv (l : Loop) : Prop :=
  l.js.depth = l.stack.length ∧ 1 ≤ l.stack.length ∧ l.stack.length ≤ CALL_STACK_LIMIT + 1

/-- what the invariant says about the outcome of a step / a run -/
def OutInv : StepOut → Prop
  | .running l => Inv l
  | .done js _ => js.depth = 0
  | .fatal => True

theorem hostStep_depth {db : Db} {s s' : JState} {op : HostOp} (h : hostStep db s op = some s') :
    s'.depth = s.depth := by
  cases op <;> simp only [hostStep, Option.map_eq_some_iff] at h
  · obtain ⟨⟨s1, r⟩, h1, rfl⟩ := h; exact loadAccountDelegated_depth h1
  · obtain ⟨⟨s1, r⟩, h1, rfl⟩ := h; exact loadAccount_depth h1
  · obtain ⟨⟨s1, r⟩, h1, rfl⟩ := h; exact loadCode_depth h1
  · obtain ⟨⟨s1, r⟩, h1, rfl⟩ := h; exact sload_depth h1
  · obtain ⟨⟨s1, r⟩, h1, rfl⟩ := h; exact sstore_depth h1
  · cases h; rfl
  · exact tstore_depth h
  · cases h; rfl
  · obtain ⟨⟨s1, r⟩, h1, rfl⟩ := h; exact selfdestruct_depth h1

/-- a frame is opened only from depth ≤ 1024 -/
theorem frame_depth_le {d d' : Nat} {cp : Checkpoint} (hle : ¬ d > CALL_STACK_LIMIT)
    (h : DepthAfter d (.frame cp) d') : d' = d + 1 := by
  simp only [DepthAfter] at h
  rw [h]; exact inc_small (by omega)

theorem afterFrameOrResult_inv {l : Loop} {s : JState} {mk : Checkpoint → Frame} {r : FrameOrResult}
    (hi : Inv l) (hd : DepthAfter l.js.depth r s.depth)
    (hdeep : l.js.depth > CALL_STACK_LIMIT → ∀ cp, r ≠ .frame cp) :
    OutInv (afterFrameOrResult l.stack s mk r) := by
  obtain ⟨h1, h2, h3⟩ := hi
  cases r with
  | result res =>
    simp only [afterFrameOrResult, OutInv, Inv, DepthAfter] at *
    exact ⟨by omega, h2, h3⟩
  | frame cp =>
    have hle : ¬ l.js.depth > CALL_STACK_LIMIT := fun hgt => hdeep hgt cp rfl
    have := frame_depth_le hle hd
    simp only [afterFrameOrResult, OutInv, Inv, List.length_cons]
    omega
  | fatal => trivial

theorem step_inv {db : Db} {spec : Nat} {l : Loop} {a : Action} {out : StepOut}
    (hi : Inv l) (h : step db spec l a = some out) : OutInv out := by
  cases a with
  | host op =>
    simp only [step, Option.map_eq_some_iff] at h
    obtain ⟨s1, h1, rfl⟩ := h
    have := hostStep_depth h1
    simp only [OutInv, Inv] at *
    omega
  | call inp o =>
    simp only [step, Option.map_eq_some_iff] at h
    obtain ⟨⟨s1, r⟩, h1, rfl⟩ := h
    refine afterFrameOrResult_inv hi (makeCallFrame_depth h1) ?_
    intro hgt cp hr
    have := (makeCallFrame_deep h1 hgt).1
    simp only at hr
    rw [hr] at this; cases this
  | create inp o =>
    simp only [step, Option.map_eq_some_iff] at h
    obtain ⟨⟨s1, r, a⟩, h1, rfl⟩ := h
    refine afterFrameOrResult_inv hi (makeCreateFrame_depth h1) ?_
    intro hgt cp hr
    have := (makeCreateFrame_deep h1 hgt).1
    simp only at hr
    rw [hr] at this; cases this
  | eofcreate inp kind o =>
    simp only [step, Option.map_eq_some_iff] at h
    obtain ⟨⟨s1, r, a⟩, h1, rfl⟩ := h
    refine afterFrameOrResult_inv hi (makeEofCreateFrame_depth h1) ?_
    intro hgt cp hr
    simp only at hr
    subst hr
    have hd := makeEofCreateFrame_depth h1
    -- a frame cannot be opened above the limit: every path to `.frame` passes the depth check
    simp only [makeEofCreateFrame] at h1
    split at h1
    · cases h1
    · cases h1
    · rename_i s0 createdOpt hpre
      have d0 : s0.depth = l.js.depth := by
        split at hpre
        · cases hpre; rfl
        · split at hpre
          · simp only [bind, Option.bind_eq_some_iff] at hpre
            obtain ⟨⟨s2, n⟩, _, h2⟩ := hpre
            cases h2
          · cases hpre; rfl
      split at h1
      · cases h1
      · omega
  | ret r =>
    obtain ⟨h1, h2, h3⟩ := hi
    simp only [step] at h
    split at h
    · cases h
    · rename_i f rest hst
      simp only [Option.map_eq_some_iff] at h
      obtain ⟨⟨s1, res⟩, hr, rfl⟩ := h
      have hd : s1.depth = decU64 l.js.depth := by
        cases f with
        | call cp =>
          simp only [Option.map_eq_some_iff] at hr
          obtain ⟨s2, h4, h5⟩ := hr
          cases h5; exact callReturn_depth h4
        | create cp a => exact createReturn_depth hr
        | eofcreate cp a => exact eofcreateReturn_depth hr
      rw [hst, List.length_cons] at h1 h3
      have hdp := dec_pos (x := l.js.depth) (by omega)
      cases rest with
      | nil =>
        simp only [OutInv]
        simp only [List.length_nil] at h1
        omega
      | cons g rest' =>
        simp only [OutInv, Inv, List.length_cons] at *
        omega

theorem run_inv {db : Db} {spec : Nat} (acts : List Action) : ∀ {l : Loop} {out : StepOut},
    Inv l → run db spec l acts = some out → OutInv out := by
  induction acts with
  | nil => intro l out hi h; simp only [run] at h; cases h; exact hi
  | cons a rest ih =>
    intro l out hi h
    simp only [run] at h
    split at h
    · cases h
    · rename_i l' hs
      exact ih (step_inv hi hs) h
    · rename_i o hne hs
      cases h
      exact step_inv hi hs

theorem firstFrame_inv {db : Db} {spec : Nat} {s : JState} {f : FirstFrame} {out : StepOut}
    (h0 : s.depth = 0) (h : firstFrame db spec s f = some out) : OutInv out := by
  have hle : ¬ s.depth > CALL_STACK_LIMIT := by unfold CALL_STACK_LIMIT; omega
  cases f with
  | call inp o =>
    simp only [firstFrame, Option.map_eq_some_iff] at h
    obtain ⟨⟨s1, r⟩, h1, rfl⟩ := h
    have hd := makeCallFrame_depth h1
    cases r with
    | result res => simp only [OutInv, DepthAfter] at *; omega
    | frame cp =>
      have := frame_depth_le hle hd
      simp only [OutInv, Inv, List.length_cons, List.length_nil, CALL_STACK_LIMIT]; omega
    | fatal => trivial
  | create inp o =>
    simp only [firstFrame, Option.map_eq_some_iff] at h
    obtain ⟨⟨s1, r, a⟩, h1, rfl⟩ := h
    have hd := makeCreateFrame_depth h1
    cases r with
    | result res => simp only [OutInv, DepthAfter] at *; omega
    | frame cp =>
      have := frame_depth_le hle hd
      simp only [OutInv, Inv, List.length_cons, List.length_nil, CALL_STACK_LIMIT]; omega
    | fatal => trivial
  | eofcreate inp kind o =>
    simp only [firstFrame, Option.map_eq_some_iff] at h
    obtain ⟨⟨s1, r, a⟩, h1, rfl⟩ := h
    have hd := makeEofCreateFrame_depth h1
    cases r with
    | result res => simp only [OutInv, DepthAfter] at *; omega
    | frame cp =>
      have := frame_depth_le hle hd
      simp only [OutInv, Inv, List.length_cons, List.length_nil, CALL_STACK_LIMIT]; omega
    | fatal => trivial

theorem transactFrames_inv {db : Db} {spec : Nat} {s : JState} {f : FirstFrame} {prog : List Action} {out : StepOut}
    (h0 : s.depth = 0) (h : transactFrames db spec s f prog = some out) : OutInv out := by
  simp only [transactFrames] at h
  split at h
  · cases h
  · rename_i l hf
    exact run_inv prog (firstFrame_inv h0 hf) h
  · rename_i o hne hf
    cases h
    exact firstFrame_inv h0 hf

/-- the probe's account is loaded, warm, its code is cached and is not an EIP-7702 designator -/
def Warm (db : Db) (s : JState) (a : Addr) : Prop :=
  ∃ acc h, s.state a = some acc ∧ acc.cold = false ∧ acc.info.code = some h ∧ db.delegate h = none

theorem setAcct_same {s : JState} {a : Addr} {acc : Acct} (h : s.state a = some acc) : setAcct s a acc = s := by
  cases s
  simp only [setAcct] at *
  congr
  funext x
  split
  · rename_i hx; subst hx; exact h.symm
  · rfl

theorem loadAccount_warm {db : Db} {s : JState} {a : Addr} {acc : Acct}
    (h : s.state a = some acc) (hc : acc.cold = false) : loadAccount db s a = some (s, false) := by
  have e : ({ acc with cold := false } : Acct) = acc := by cases acc; simp_all
  simp only [loadAccount, h, hc, e, setAcct_same h]
  rfl

theorem loadCode_warm {db : Db} {s : JState} {a : Addr} {acc : Acct} {hh : Nat}
    (h : s.state a = some acc) (hc : acc.cold = false) (hcode : acc.info.code = some hh) :
    loadCode db s a = some (s, false) := by
  simp [loadCode, loadAccount_warm h hc, h, hcode, bind]

/-- plain call: apparent value, not a precompile, non-empty legacy code -/
def plainCall (caller a : Addr) : CallInputs :=
  { caller := caller, target := a, bytecodeAddr := a, value := .apparent 0, isExtDelegate := false }
def plainOracle : CallOracle := { precompile := none, codeIsEof := false, codeIsEmpty := false }

theorem checkpoint_state (s : JState) : (checkpoint s).1.state = s.state := rfl

theorem makeCallFrame_plain {db : Db} {s : JState} {caller a : Addr}
    (hw : Warm db s a) (hd : ¬ s.depth > CALL_STACK_LIMIT) :
    makeCallFrame db s (plainCall caller a) plainOracle = some ((checkpoint s).1, .frame (checkpoint s).2) := by
  obtain ⟨acc, hh, h1, h2, h3, h4⟩ := hw
  have lc := loadCode_warm (db := db) h1 h2 h3
  have lc2 : loadCode db (checkpoint s).1 a = some ((checkpoint s).1, false) :=
    loadCode_warm (db := db) (s := (checkpoint s).1) h1 h2 h3
  have h1' : (checkpoint s).1.state a = some acc := h1
  simp [makeCallFrame, makeCallFrameCore, hd, loadAccountDelegated, lc, h1, h3, h4, bind, plainCall, plainOracle,
    callValueStep, callTail, lc2, h1']

theorem warm_checkpoint {db : Db} {s : JState} {a : Addr} (hw : Warm db s a) : Warm db (checkpoint s).1 a := hw


theorem step_plain {db : Db} {spec : Nat} {l : Loop} {caller a : Addr}
    (hw : Warm db l.js a) (hd : ¬ l.js.depth > CALL_STACK_LIMIT) :
    step db spec l (.call (plainCall caller a) plainOracle) =
      some (.running { js := (checkpoint l.js).1, stack := Frame.call (checkpoint l.js).2 :: l.stack }) := by
  simp [step, makeCallFrame_plain hw hd, afterFrameOrResult]

/-- from any loop state in which the probe's account is warm, `n` nested plain calls open `n` frames, as long
as the limit allows -/
theorem run_nest {db : Db} {spec : Nat} {caller a : Addr} : ∀ (n : Nat) (l : Loop), Inv l → Warm db l.js a →
    l.stack.length + n ≤ CALL_STACK_LIMIT + 1 →
    ∃ l', run db spec l (List.replicate n (.call (plainCall caller a) plainOracle)) = some (.running l') ∧
      l'.stack.length = l.stack.length + n ∧ Warm db l'.js a ∧ Inv l' := by
  intro n
  induction n with
  | zero => intro l hi hw _; exact ⟨l, rfl, rfl, hw, hi⟩
  | succ n ih =>
    intro l hi hw hle
    have hd : ¬ l.js.depth > CALL_STACK_LIMIT := by rw [hi.1]; omega
    have hs := step_plain (spec := spec) (caller := caller) hw hd
    have hi1 := step_inv hi hs
    obtain ⟨l', h1, h2, h3, h4⟩ := ih _ hi1 (warm_checkpoint hw) (by simp only [List.length_cons]; omega)
    refine ⟨l', ?_, ?_, h3, h4⟩
    · simp only [List.replicate_succ, run, hs]; exact h1
    · rw [h2]; simp only [List.length_cons]; omega

theorem run_append {db : Db} {spec : Nat} (p q : List Action) : ∀ (l l' : Loop),
    run db spec l p = some (.running l') → run db spec l (p ++ q) = run db spec l' q := by
  induction p with
  | nil => intro l l' h; simp only [run] at h; cases h; rfl
  | cons a rest ih =>
    intro l l' h
    simp only [run, List.cons_append] at h ⊢
    split at h
    · cases h
    · rename_i l1 hs; exact ih _ _ h
    · rename_i o hne hs
      cases h
      exact absurd rfl (hne l')

end Revm.Proofs.Frame
