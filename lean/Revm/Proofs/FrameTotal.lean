import Revm.Proofs.JournalRefs
import Revm.Proofs.FrameLoop
/-! C07 on top of C06: under journal well-formedness (`Good`: the journal refers to present accounts / slots only,
it has at least the transaction level, balances are 256-bit words) the journal operations used by the frame
machine never hit an `unwrap` on a vacant entry, and they keep `Good`. -/
namespace Revm.Proofs.Frame
open Revm Revm.Model.Journal Revm.Model.Frame Revm.Spec.JournalAbs Revm.Proofs.Journal
set_option linter.unusedSimpArgs false
set_option linter.unusedVariables false

/-- balances kept by the database are 256-bit words -/
def DbBal (db : Db) : Prop := ∀ a, ((db.basic a).getD Info.default).balance < W
/-- balances cached in the state map are 256-bit words -/
def CBal (s : JState) : Prop := ∀ a acc, s.state a = some acc → acc.info.balance < W

/-- journal well-formedness (C06): `JRefs`, a non-empty journal, 256-bit balances -/
structure Good (s : JState) : Prop where
  refs : JRefs s
  ne : s.journal ≠ []
  bal : CBal s

theorem balOk_of {db : Db} {s : JState} (hdb : DbBal db) (h : CBal s) : BalOk (absT db s) := by
  intro a
  show (absAcct db s a).balance < W
  cases hs : s.state a with
  | none => rw [absAcct_none db s hs]; exact hdb a
  | some acc => rw [absAcct_some db s hs]; exact h a acc hs

theorem cbal_of {db : Db} {s : JState} (h : BalOk (absT db s)) : CBal s := by
  intro a acc hs
  have := h a
  change (absAcct db s a).balance < W at this
  rw [absAcct_some db s hs] at this; exact this

theorem wf_iff {db : Db} {s : JState} : WF db s ↔ BalOk (absT db s) := Iff.rfl

theorem good_new (spec : Nat) (pre : Addr → Bool) : Good (JState.new spec pre) :=
  ⟨JRefs.new spec pre, by simp [JState.new], fun a acc h => by simp [JState.new] at h⟩

/-- an operation that pushes entries (C06 `Pushes`) keeps `Good`, the journal length and every present entry -/
theorem Good.of_pushes {db : Db} {s s' : JState} {es : List Entry} (hdb : DbBal db) (g : Good s)
    (p : Pushes db s s' es) : Good s' ∧ Grows s s' ∧ s'.journal.length = s.journal.length := by
  obtain ⟨top, rest, hj⟩ : ∃ top rest, s.journal = top :: rest := by
    cases hj : s.journal with
    | nil => exact absurd hj g.ne
    | cons t r => exact ⟨t, r, rfl⟩
  have hj' := p.journal top rest hj
  exact ⟨⟨g.refs.of_pushes p g.ne, by rw [hj']; simp, cbal_of (p.bal (balOk_of hdb g.bal))⟩, p.grows, by rw [hj', hj]; simp⟩

theorem pushEntry_total {s : JState} (e : Entry) (h : s.journal ≠ []) : ∃ s', pushEntry s e = some s' := by
  unfold pushEntry
  cases hj : s.journal with
  | nil => exact absurd hj h
  | cons t r => exact ⟨_, rfl⟩

theorem pushEntry_ne {s s' : JState} {e : Entry} (h : pushEntry s e = some s') : s'.journal ≠ [] ∧ s'.state = s.state := by
  unfold pushEntry at h
  cases hj : s.journal with
  | nil => simp [hj] at h
  | cons t r => simp [hj] at h; subst h; simp

theorem touchAccount_total {s : JState} (a : Addr) (acc : Acct) (h : s.journal ≠ []) :
    ∃ s' acc', touchAccount s a acc = some (s', acc') := by
  unfold touchAccount
  by_cases ht : acc.touched
  · simp [ht]
  · obtain ⟨s1, h1⟩ := pushEntry_total (.accountTouched a) h
    simp [ht, h1, bind]

theorem loadAccount_total (db : Db) {s : JState} (a : Addr) (h : s.journal ≠ []) :
    ∃ s' c, loadAccount db s a = some (s', c) := by
  unfold loadAccount
  cases hs : s.state a with
  | some acc =>
    simp only
    by_cases hc : acc.cold
    · obtain ⟨s1, h1⟩ := pushEntry_total (s := setAcct s a { acc with cold := false }) (.accountWarmed a) h
      simp [hc, h1]
    · simp [hc]
  | none =>
    simp only
    by_cases hc : (!s.preloaded a) = true
    · obtain ⟨s1, h1⟩ := pushEntry_total (s := setAcct s a (match db.basic a with | some i => Acct.ofInfo i | none => Acct.newNotExisting))
        (.accountWarmed a) h
      simp [hc]
      exact ⟨s1, h1⟩
    · simp [hc]

/-- `load_account`: never panics, keeps `Good`, the account is present afterwards -/
theorem loadAccount_good {db : Db} {s : JState} (hdb : DbBal db) (g : Good s) (a : Addr) :
    ∃ s' c, loadAccount db s a = some (s', c) ∧ Good s' ∧ Grows s s' ∧ s'.journal.length = s.journal.length ∧
      (s'.state a).isSome := by
  obtain ⟨s', c, h⟩ := loadAccount_total db a g.ne
  obtain ⟨p, _, hp⟩ := loadAccount_pushes (db := db) h
  obtain ⟨g', gr, hl⟩ := g.of_pushes hdb p
  exact ⟨s', c, h, g', gr, hl, hp⟩

theorem loadCode_good {db : Db} {s : JState} (hdb : DbBal db) (g : Good s) (a : Addr) :
    ∃ s' c, loadCode db s a = some (s', c) ∧ Good s' ∧ Grows s s' ∧ s'.journal.length = s.journal.length ∧
      (s'.state a).isSome := by
  obtain ⟨s1, c, h1, g1, gr1, hl1, hp1⟩ := loadAccount_good hdb g a
  obtain ⟨acc, hacc⟩ := isSome_cases hp1
  have : ∃ s', loadCode db s a = some (s', c) := by
    simp only [loadCode, h1, bind, Option.bind, hacc]
    split <;> exact ⟨_, rfl⟩
  obtain ⟨s', h⟩ := this
  obtain ⟨p, _, hp⟩ := loadCode_pushes (db := db) h
  obtain ⟨g', gr, hl⟩ := g.of_pushes hdb p
  exact ⟨s', c, h, g', gr, hl, hp⟩

theorem loadAccountDelegated_good {db : Db} {s : JState} (hdb : DbBal db) (g : Good s) (a : Addr) :
    ∃ s' r, loadAccountDelegated db s a = some (s', r) ∧ Good s' ∧ Grows s s' ∧
      s'.journal.length = s.journal.length := by
  obtain ⟨s1, c, h1, g1, gr1, hl1, hp1⟩ := loadCode_good hdb g a
  obtain ⟨acc, hacc⟩ := isSome_cases hp1
  have : ∃ s' r, loadAccountDelegated db s a = some (s', r) := by
    simp only [loadAccountDelegated, h1, bind, Option.bind, hacc]
    split
    · rename_i d hd
      obtain ⟨s2, c2, h2, _⟩ := loadAccount_good hdb g1 d
      simp [h2]
    · exact ⟨_, _, rfl⟩
  obtain ⟨s', ⟨e, c', d⟩, h⟩ := this
  obtain ⟨⟨es, p⟩, _⟩ := loadAccountDelegated_pushes (db := db) h
  obtain ⟨g', gr, hl⟩ := g.of_pushes hdb p
  exact ⟨s', _, h, g', gr, hl⟩

theorem touch_good {db : Db} {s : JState} (hdb : DbBal db) (g : Good s) (a : Addr) :
    ∃ s', touch s a = some s' ∧ Good s' ∧ Grows s s' ∧ s'.journal.length = s.journal.length := by
  have : ∃ s', touch s a = some s' := by
    unfold touch
    cases hs : s.state a with
    | none => exact ⟨_, rfl⟩
    | some acc =>
      obtain ⟨s1, acc1, h1⟩ := touchAccount_total a acc g.ne
      simp [h1]
  obtain ⟨s', h⟩ := this
  obtain ⟨es, p, _⟩ := touch_pushes (db := db) h
  obtain ⟨g', gr, hl⟩ := g.of_pushes hdb p
  exact ⟨s', h, g', gr, hl⟩

/-! ### manual steps (for operations whose C06 `Pushes` lemma needs admissibility) -/

theorem JRefs.mono {s s' : JState} (h : JRefs s) (g : Grows s s') (hj : s'.journal = s.journal) : JRefs s' := by
  intro l hl e he
  rw [hj] at hl
  exact refsOk_mono g (h l hl e he)

/-- rewriting the entry of a present account (storage map kept, balance a word) -/
theorem Good.upd {s : JState} {a : Addr} {acc acc' : Acct} (g : Good s) (hs : s.state a = some acc)
    (hst : acc'.storage = acc.storage) (hb : acc'.info.balance < W) : Good (setAcct s a acc') := by
  refine ⟨JRefs.mono g.refs (Grows.upd hs hst) rfl, g.ne, ?_⟩
  intro b accb hbs
  by_cases e : b = a
  · subst e; rw [setAcct_state_same] at hbs; cases hbs; exact hb
  · rw [setAcct_state_ne _ _ e] at hbs; exact g.bal b accb hbs

theorem Good.push {s s' : JState} {e : Entry} (g : Good s) (hp : pushEntry s e = some s') (hr : refsOk s e) :
    Good s' ∧ s'.state = s.state ∧ s'.journal.length = s.journal.length := by
  have p := pushEntry_some hp
  obtain ⟨top, rest, hj⟩ : ∃ top rest, s.journal = top :: rest := by
    cases hj : s.journal with
    | nil => exact absurd hj g.ne
    | cons t r => exact ⟨t, r, rfl⟩
  have hj' := p.journal top rest hj
  refine ⟨⟨?_, by rw [hj']; simp, fun a acc h => g.bal a acc (by rw [← p.state]; exact h)⟩, p.state, by rw [hj', hj]; simp⟩
  intro l hl e' he'
  rw [hj'] at hl
  rcases List.mem_cons.1 hl with rfl | hl
  · rcases List.mem_cons.1 he' with rfl | he'
    · exact refsOk_congr p.state hr
    · exact refsOk_congr p.state (g.refs top (by rw [hj]; simp) e' he')
  · exact refsOk_congr p.state (g.refs l (by rw [hj]; simp [hl]) e' he')

theorem touchAccount_good {s : JState} {a : Addr} {acc : Acct} (g : Good s) (hs : s.state a = some acc) :
    ∃ s' acc', touchAccount s a acc = some (s', acc') ∧ Good s' ∧ s'.state a = some acc' ∧
      acc' = { acc with touched := true } ∧ (∀ b, ¬ b = a → s'.state b = s.state b) ∧
      s'.journal.length = s.journal.length ∧ Grows s s' := by
  unfold touchAccount
  by_cases ht : acc.touched
  · refine ⟨s, acc, by simp [ht], g, hs, ?_, fun _ _ => rfl, rfl, Grows.refl _⟩
    cases acc; simp_all
  · obtain ⟨s1, h1⟩ := pushEntry_total (.accountTouched a) g.ne
    obtain ⟨g1, hst, hl⟩ := g.push h1 (by simp [refsOk, hs])
    refine ⟨setAcct s1 a { acc with touched := true }, { acc with touched := true }, by simp [ht, h1, bind], ?_,
      setAcct_state_same _ _ _, rfl, fun b hb => by rw [setAcct_state_ne _ _ hb, hst], hl, ?_⟩
    · exact g1.upd (acc := acc) (by rw [hst]; exact hs) rfl (g.bal a acc hs)
    · exact Grows.trans (Grows.of_state_eq hst) (Grows.upd (acc := acc) (by rw [hst]; exact hs) rfl)

/-- `transfer`: never panics, keeps `Good` -/
theorem transfer_good {db : Db} {s : JState} (hdb : DbBal db) (g : Good s) (src dst : Addr) (v : Nat) :
    ∃ s' r, transfer db s src dst v = some (s', r) ∧ Good s' ∧ Grows s s' ∧ s'.journal.length = s.journal.length := by
  obtain ⟨s1, c1, h1, g1, gr1, _, p1⟩ := loadAccount_good hdb g src
  obtain ⟨s2, c2, h2, g2, gr2, _, p2⟩ := loadAccount_good hdb g1 dst
  obtain ⟨fa, hfa⟩ := isSome_cases (gr2.acct src p1)
  obtain ⟨s3, fa', h3, g3, hs3, hfa', hoth3, _, _⟩ := touchAccount_good g2 hfa
  have : ∃ s' r, transfer db s src dst v = some (s', r) := by
    simp only [transfer, h1, h2, bind, Option.bind, hfa, h3]
    by_cases hlt : fa'.info.balance < v
    · simp [hlt]
    · simp only [hlt, if_false]
      -- destination present after the debit
      have hd : ∃ ta, (setAcct s3 src { fa' with info := { fa'.info with balance := fa'.info.balance - v } }).state dst = some ta := by
        by_cases e : dst = src
        · subst e; exact ⟨_, setAcct_state_same _ _ _⟩
        · rw [setAcct_state_ne _ _ e, hoth3 dst e]; exact isSome_cases p2
      obtain ⟨ta, hta⟩ := hd
      have gne : (setAcct s3 src { fa' with info := { fa'.info with balance := fa'.info.balance - v } }).journal ≠ [] := g3.ne
      obtain ⟨s4, ta', h4⟩ := touchAccount_total dst ta gne
      simp only [hta, h4]
      by_cases hov : ta'.info.balance + v ≥ W
      · simp only [hov, if_true]
        -- the sender is still present
        have hsrc : ∃ f, s4.state src = some f := by
          unfold touchAccount at h4
          by_cases htt : ta.touched
          · simp [htt] at h4; obtain ⟨rfl, _⟩ := h4; exact ⟨_, setAcct_state_same _ _ _⟩
          · simp only [htt, Bool.not_false, if_true, bind, Option.bind] at h4
            cases hp : pushEntry (setAcct s3 src { fa' with info := { fa'.info with balance := fa'.info.balance - v } }) (.accountTouched dst) with
            | none => simp [hp] at h4
            | some sp =>
              simp [hp] at h4
              obtain ⟨rfl, _⟩ := h4
              have := (pushEntry_ne hp).2
              by_cases e : src = dst
              · subst e; exact ⟨_, setAcct_state_same _ _ _⟩
              · rw [setAcct_state_ne _ _ e, this]; exact ⟨_, setAcct_state_same _ _ _⟩
        obtain ⟨f, hf⟩ := hsrc
        simp [hf]
      · simp only [hov, if_false]
        have : (setAcct s4 dst { ta' with info := { ta'.info with balance := ta'.info.balance + v } }).journal ≠ [] := by
          unfold touchAccount at h4
          by_cases htt : ta.touched
          · simp [htt] at h4; obtain ⟨rfl, _⟩ := h4; exact gne
          · simp only [htt, Bool.not_false, if_true, bind, Option.bind] at h4
            cases hp : pushEntry (setAcct s3 src { fa' with info := { fa'.info with balance := fa'.info.balance - v } }) (.accountTouched dst) with
            | none => simp [hp] at h4
            | some sp => simp [hp] at h4; obtain ⟨rfl, _⟩ := h4; exact (pushEntry_ne hp).1
        obtain ⟨s5, h5⟩ := pushEntry_total (.balanceTransfer src dst v) this
        simp [h5]
  obtain ⟨s', r, h⟩ := this
  obtain ⟨⟨es, p⟩, _⟩ := transfer_pushes (db := db) (balOk_of hdb g.bal) h
  obtain ⟨g', gr, hl⟩ := g.of_pushes hdb p
  exact ⟨s', r, h, g', gr, hl⟩

theorem incNonce_good {db : Db} {s : JState} (hdb : DbBal db) (g : Good s) {a : Addr} (hp : (s.state a).isSome) :
    ∃ s' r, incNonce s a = some (s', r) ∧ Good s' ∧ Grows s s' ∧ s'.journal.length = s.journal.length := by
  obtain ⟨acc, hacc⟩ := isSome_cases hp
  have : ∃ s' r, incNonce s a = some (s', r) := by
    simp only [incNonce, hacc, bind, Option.bind]
    by_cases hn : acc.info.nonce = U64 - 1
    · simp [hn]
    · obtain ⟨s1, acc1, h1, g1, _⟩ := touchAccount_good g hacc
      obtain ⟨s2, h2⟩ := pushEntry_total (.nonceChange a) g1.ne
      simp [hn, h1, h2]
  obtain ⟨s', r, h⟩ := this
  obtain ⟨es, p, _⟩ := incNonce_pushes (db := db) h
  obtain ⟨g', gr, hl⟩ := g.of_pushes hdb p
  exact ⟨s', r, h, g', gr, hl⟩

/-- `set_code`: on a present account never panics, keeps `Good` (no admissibility needed) -/
theorem setCode_good {s : JState} (g : Good s) {a : Addr} (hash : Nat) (hp : (s.state a).isSome) :
    ∃ s', setCode s a hash = some s' ∧ Good s' ∧ Grows s s' ∧ s'.journal.length = s.journal.length := by
  obtain ⟨acc, hacc⟩ := isSome_cases hp
  obtain ⟨s1, acc1, h1, g1, hs1, hacc1, hoth, hl1, _⟩ := touchAccount_good g hacc
  obtain ⟨s2, h2⟩ := pushEntry_total (.codeChange a) g1.ne
  obtain ⟨g2, hst2, hl2⟩ := g1.push h2 (by simp [refsOk, hs1])
  refine ⟨setAcct s2 a { acc1 with info := { acc1.info with codeHash := hash, code := some hash } },
    by simp [setCode, hacc, h1, h2, bind], ?_, ?_, by show s2.journal.length = _; rw [hl2, hl1]⟩
  · exact g2.upd (acc := acc1) (by rw [hst2]; exact hs1) rfl (by subst hacc1; exact g.bal a acc hacc)
  · refine ⟨fun b hb => ?_, fun b accb k hb hk => ?_⟩
    · by_cases e : b = a
      · subst e; simp [setAcct_state_same]
      · rw [setAcct_state_ne _ _ e, hst2, hoth b e]; exact hb
    · by_cases e : b = a
      · subst e; rw [hacc] at hb; cases hb
        exact ⟨_, setAcct_state_same _ _ _, by subst hacc1; exact hk⟩
      · exact ⟨accb, by rw [setAcct_state_ne _ _ e, hst2, hoth b e]; exact hb, hk⟩

theorem cbal_undoEntry {sd : Bool} {s s' : JState} {e : Entry} (h : undoEntry sd s e = some s') (hb : CBal s) : CBal s' := by
  have hW := W_val
  have key : ∀ (t : JState) (a : Addr) (acc' : Acct), CBal t → acc'.info.balance < W → CBal (setAcct t a acc') := by
    intro t a acc' ht hlt b accb hbs
    by_cases e : b = a
    · subst e; rw [setAcct_state_same] at hbs; cases hbs; exact hlt
    · rw [setAcct_state_ne _ _ e] at hbs; exact ht b accb hbs
  cases e with
  | accountWarmed a =>
    simp only [undoEntry, bind, Option.bind] at h
    cases hs : s.state a with
    | none => simp [hs] at h
    | some acc => simp [hs] at h; subst h; exact key _ _ _ hb (hb a acc hs)
  | accountTouched a =>
    simp only [undoEntry] at h
    split at h
    · cases h; exact hb
    · simp only [bind, Option.bind] at h
      cases hs : s.state a with
      | none => simp [hs] at h
      | some acc => simp [hs] at h; subst h; exact key _ _ _ hb (hb a acc hs)
  | accountDestroyed a t was had =>
    simp only [undoEntry, bind, Option.bind] at h
    cases hs : s.state a with
    | none => simp [hs] at h
    | some acc =>
      simp only [hs] at h
      have k1 := key s a { acc with selfdestructed := was, info := { acc.info with balance := U256.wadd acc.info.balance had } } hb (wadd_lt _ _)
      split at h
      · generalize hs1 : setAcct s a { acc with selfdestructed := was, info := { acc.info with balance := U256.wadd acc.info.balance had } } = s1 at h k1
        cases ht : s1.state t with
        | none => simp [ht] at h
        | some tacc => simp [ht] at h; subst h; exact key _ _ _ k1 (bsub_lt (k1 t tacc ht))
      · cases h; exact k1
  | balanceTransfer a t had =>
    simp only [undoEntry, bind, Option.bind] at h
    cases hs : s.state a with
    | none => simp [hs] at h
    | some acc =>
      simp only [hs] at h
      have k1 := key s a { acc with info := { acc.info with balance := U256.wadd acc.info.balance had } } hb (wadd_lt _ _)
      generalize hs1 : setAcct s a { acc with info := { acc.info with balance := U256.wadd acc.info.balance had } } = s1 at h k1
      cases ht : s1.state t with
      | none => simp [ht] at h
      | some tacc => simp [ht] at h; subst h; exact key _ _ _ k1 (bsub_lt (k1 t tacc ht))
  | nonceChange a =>
    simp only [undoEntry, bind, Option.bind] at h
    cases hs : s.state a with
    | none => simp [hs] at h
    | some acc => simp [hs] at h; subst h; exact key _ _ _ hb (hb a acc hs)
  | accountCreated a =>
    simp only [undoEntry, bind, Option.bind] at h
    cases hs : s.state a with
    | none => simp [hs] at h
    | some acc => simp [hs] at h; subst h; exact key _ _ _ hb (hb a acc hs)
  | codeChange a =>
    simp only [undoEntry, bind, Option.bind] at h
    cases hs : s.state a with
    | none => simp [hs] at h
    | some acc => simp [hs] at h; subst h; exact key _ _ _ hb (hb a acc hs)
  | storageWarmed a k =>
    simp only [undoEntry, bind, Option.bind] at h
    cases hs : s.state a with
    | none => simp [hs] at h
    | some acc =>
      simp only [hs] at h
      cases hk : acc.storage k with
      | none => simp [hk] at h
      | some sl => simp [hk] at h; subst h; exact key _ _ _ hb (hb a acc hs)
  | storageChanged a k had =>
    simp only [undoEntry, bind, Option.bind] at h
    cases hs : s.state a with
    | none => simp [hs] at h
    | some acc =>
      simp only [hs] at h
      cases hk : acc.storage k with
      | none => simp [hk] at h
      | some sl => simp [hk] at h; subst h; exact key _ _ _ hb (hb a acc hs)
  | transientChange a k had =>
    simp only [undoEntry] at h; cases h
    intro b accb hbs; exact hb b accb hbs

theorem cbal_undoLevel {sd : Bool} (l : List Entry) : ∀ {s s' : JState}, undoLevel sd s l = some s' → CBal s → CBal s' := by
  induction l with
  | nil => intro s s' h hb; simp [undoLevel] at h; subst h; exact hb
  | cons e rest ih =>
    intro s s' h hb
    simp only [undoLevel, bind, Option.bind] at h
    cases he : undoEntry sd s e with
    | none => simp [he] at h
    | some s1 => simp [he] at h; exact ih h (cbal_undoEntry he hb)

theorem cbal_undoLevels {sd : Bool} (ls : List (List Entry)) : ∀ {s s' : JState}, undoLevels sd s ls = some s' → CBal s → CBal s' := by
  induction ls with
  | nil => intro s s' h hb; simp [undoLevels] at h; subst h; exact hb
  | cons l rest ih =>
    intro s s' h hb
    simp only [undoLevels, bind, Option.bind] at h
    cases he : undoLevel sd s l with
    | none => simp [he] at h
    | some s1 => simp [he] at h; exact ih h (cbal_undoLevel l he hb)

/-- `checkpoint_revert` of a checkpoint that is not newer than the journal and not the transaction level:
never panics, keeps `Good`, the journal is cut back to the checkpoint -/
theorem revert_good {s : JState} {cp : Checkpoint} (g : Good s) (h1 : 1 ≤ cp.journalI) (hlen : cp.journalI ≤ s.journal.length) :
    ∃ s', revert s cp = some s' ∧ Good s' ∧ Grows s s' ∧ s'.journal.length = cp.journalI := by
  obtain ⟨s', hr, gr, jr⟩ := revert_isSome (cp := cp) g.refs hlen
  have hj : s'.journal = s.journal.drop (s.journal.length - cp.journalI) ∧ CBal s' := by
    have hr' := hr
    unfold revert at hr'
    have hnl : ¬ s.journal.length < cp.journalI := Nat.not_lt.2 hlen
    simp only [hnl, if_false] at hr'
    cases hu : undoLevels (decide (s.spec ≥ SPURIOUS_DRAGON)) s (s.journal.take (s.journal.length - cp.journalI)) with
    | none => simp [hu] at hr'
    | some s1 =>
      simp [hu] at hr'; subst hr'
      exact ⟨rfl, fun a acc ha => cbal_undoLevels _ hu g.bal a acc ha⟩
  have hl : s'.journal.length = cp.journalI := by rw [hj.1, List.length_drop]; omega
  exact ⟨s', hr, ⟨jr, by intro e; rw [e] at hl; simp at hl; omega, hj.2⟩, gr, hl⟩

theorem good_checkpoint {s : JState} (g : Good s) : Good (checkpoint s).1 :=
  ⟨g.refs.checkpoint, by simp [checkpoint], fun a acc h => g.bal a acc h⟩

theorem good_commit {s : JState} (g : Good s) : Good (commit s) :=
  ⟨JRefs.mono g.refs (Grows.of_state_eq rfl) rfl, g.ne, fun a acc h => g.bal a acc h⟩

/-- `create_account_checkpoint` on loaded target and caller: never panics (its internal reverts included), keeps
`Good`; a handed-out checkpoint sits exactly at the old journal length - without any admissibility condition -/
theorem createAccountCheckpoint_good {s : JState} (g : Good s) {caller a : Addr} (hs : Bool) (v spec : Nat)
    (ha : (s.state a).isSome) (hc : (s.state caller).isSome) :
    ∃ s' r, createAccountCheckpoint s caller a hs v spec = some (s', r) ∧ Good s' ∧ Grows s s' ∧
      (match r with
       | .ok cp => cp = (checkpoint s).2 ∧ s'.journal.length = s.journal.length + 1
       | .error _ => s'.journal.length = s.journal.length) := by
  have hW := W_val
  obtain ⟨acc, hacc⟩ := isSome_cases ha
  have gsc := good_checkpoint g
  have hlen1 : 1 ≤ s.journal.length := by
    cases hj : s.journal with
    | nil => exact absurd hj g.ne
    | cons t r => simp
  have hscs : (checkpoint s).1.state = s.state := rfl
  have hscl : (checkpoint s).1.journal.length = s.journal.length + 1 := by simp [checkpoint]
  have hcpj : (checkpoint s).2.journalI = s.journal.length := rfl
  have hsca : (checkpoint s).1.state a = some acc := hacc
  simp only [createAccountCheckpoint, bind, Option.bind, hsca]
  by_cases hcol : acc.info.codeHash ≠ KECCAK_EMPTY ∨ acc.info.nonce ≠ 0 ∨ hs = true
  · obtain ⟨s', hr, g', gr, hl⟩ := revert_good (cp := (checkpoint s).2) gsc (by rw [hcpj]; exact hlen1) (by rw [hcpj, hscl]; omega)
    refine ⟨s', .error .collision, by simp [hcol, hr], g', Grows.congr_left hscs.symm gr, by rw [hl, hcpj]⟩
  · simp only [hcol, if_false]
    -- mark created, journal it
    have g1 := gsc.upd (acc' := { acc with created := true }) hsca rfl (g.bal a acc hacc)
    have gr1 : Grows (checkpoint s).1 (setAcct (checkpoint s).1 a { acc with created := true }) := Grows.upd hsca rfl
    obtain ⟨s2, h2⟩ := pushEntry_total (.accountCreated a) g1.ne
    obtain ⟨g2, hst2, hl2⟩ := g1.push h2 (by simp [refsOk, setAcct_state_same])
    have hs2a : s2.state a = some { acc with created := true } := by rw [hst2]; exact setAcct_state_same _ _ _
    -- code := None
    have g3 := g2.upd (acc' := { { acc with created := true } with info := { acc.info with code := none } }) hs2a rfl (g.bal a acc hacc)
    have gr3 : Grows s2 (setAcct s2 a { { acc with created := true } with info := { acc.info with code := none } }) := Grows.upd hs2a rfl
    obtain ⟨s4, acc4, h4, g4, hs4a, hacc4, hoth4, hl4, gr4⟩ := touchAccount_good g3 (setAcct_state_same _ _ _)
    have hl4' : s4.journal.length = s.journal.length + 1 := by
      rw [hl4]; show s2.journal.length = _; rw [hl2]; exact hscl
    have grs4 : Grows s s4 :=
      Grows.congr_left hscs.symm (Grows.trans gr1 (Grows.trans (Grows.of_state_eq hst2) (Grows.trans gr3 gr4)))
    simp only [h2, h4]
    by_cases hov : acc4.info.balance + v ≥ W
    · obtain ⟨s', hr, g', gr, hl⟩ := revert_good (cp := (checkpoint s).2) g4 (by rw [hcpj]; exact hlen1) (by rw [hcpj, hl4']; omega)
      refine ⟨s', .error .overflowPayment, by simp [hov, hr], g', Grows.trans grs4 gr, by rw [hl, hcpj]⟩
    · simp only [hov, if_false]
      generalize hacc5 : (if spec ≥ SPURIOUS_DRAGON then
          { { acc4 with info := { acc4.info with balance := acc4.info.balance + v } } with
            info := { { acc4.info with balance := acc4.info.balance + v } with nonce := 1 } }
        else { acc4 with info := { acc4.info with balance := acc4.info.balance + v } }) = acc5
      have hacc5s : acc5.storage = acc4.storage ∧ acc5.info.balance = acc4.info.balance + v := by
        subst hacc5; split <;> exact ⟨rfl, rfl⟩
      have g5 := g4.upd (acc' := acc5) hs4a hacc5s.1 (by rw [hacc5s.2]; omega)
      have gr5 : Grows s4 (setAcct s4 a acc5) := Grows.upd hs4a hacc5s.1
      obtain ⟨c, hcs⟩ := isSome_cases ((Grows.trans grs4 gr5).acct caller hc)
      have g6 := g5.upd (acc' := { c with info := { c.info with balance := bsub c.info.balance v } }) hcs rfl
        (bsub_lt (g5.bal caller c hcs))
      have gr6 : Grows (setAcct s4 a acc5) (setAcct (setAcct s4 a acc5) caller { c with info := { c.info with balance := bsub c.info.balance v } }) :=
        Grows.upd hcs rfl
      obtain ⟨s7, h7⟩ := pushEntry_total (.balanceTransfer caller a v) g6.ne
      have hra : refsOk (setAcct (setAcct s4 a acc5) caller { c with info := { c.info with balance := bsub c.info.balance v } })
          (.balanceTransfer caller a v) := by
        simp only [refsOk]
        refine ⟨by simp [setAcct_state_same], gr6.acct a (by simp [setAcct_state_same])⟩
      obtain ⟨g7, hst7, hl7⟩ := g6.push h7 hra
      refine ⟨s7, .ok (checkpoint s).2, ?_, g7, ?_, rfl, ?_⟩
      · simp only [hcs, h7]
      · exact Grows.trans grs4 (Grows.trans gr5 (Grows.trans gr6 (Grows.of_state_eq hst7)))
      · rw [hl7]; exact hl4'

end Revm.Proofs.Frame
