import Revm.Proofs.EvmRefineE7
/-! Where exactly the admissibility hypothesis of the refinement theorem is used, as two named conditions on the world at
the two places of the frame machine that consult them. -/
set_option linter.unusedSimpArgs false
set_option linter.unusedVariables false
namespace Revm.Proofs.EvmRefine
open Revm Revm.Model Revm.Model.Journal
open Revm.Model.Evm
open Revm.Spec.Evm (journalOpsStrict)
open Revm.Proofs.EvmRR

/-- **`CreateTargetFresh`** — at `create_account_checkpoint(caller, a, has_storage, …)`: the target `a` is not an
account already created in this transaction, unless the collision check fires anyway (code, nonce or storage present).
It is what `CREATE` / `CREATE2` address derivation guarantees when `keccak256` does not collide inside a transaction:
the address derived from a live `(sender, nonce)` / `(sender, salt, initcode)` is not that of an account created
earlier in the transaction whose code is still empty and whose nonce is still 0. From Spurious Dragon on `create_account_checkpoint` gives
the created account nonce 1, so there the collision check fires for it (`createTargetFresh_of_nonce`) as long as
`created → nonce ≠ 0` is kept along the run — an invariant of the run that is NOT proved here; Frontier … Tangerine
Whistle need the freshness of derived addresses itself. -/
def CreateTargetFresh (w : World) (a : Addr) (hasStorage : Bool) : Prop :=
  ∀ acc, w.js.state a = some acc → acc.created = true →
    (acc.info.codeHash ≠ Journal.KECCAK_EMPTY ∨ acc.info.nonce ≠ 0 ∨ hasStorage = true)

/-- **`CodeEmptyAt`** — at the `set_code` of `create_return` for the address `a` of the creation that returns: the code
of `a` is still empty. It was empty when the creation started (collision check); it can only have changed by the
`create_return` of ANOTHER creation on the same address `a` that started meanwhile, i.e. by a creation whose derived
address collided with `a` without the collision check firing (again: never from Spurious Dragon on, where `a` has
nonce 1 while it is being created). -/
def CodeEmptyAt (w : World) (a : Addr) : Prop :=
  ∀ acc, w.js.state a = some acc → acc.info.codeHash = Journal.KECCAK_EMPTY

/-- the strict `create_account_checkpoint` is the model's under `CreateTargetFresh`, and stops otherwise -/
theorem strict_create_iff (w : World) (caller a : Addr) (hs : Bool) (v spec : Nat) :
    (CreateTargetFresh w a hs →
      journalOpsStrict.createCheckpoint w caller a hs v spec = journalOps.createCheckpoint w caller a hs v spec) ∧
    (¬ CreateTargetFresh w a hs →
      ∃ e, journalOpsStrict.createCheckpoint w caller a hs v spec = .error e ∧ Esc e) := by
  have hdef : journalOpsStrict.createCheckpoint w caller a hs v spec = (match w.js.state a with
      | some acc =>
        if acc.created ∧ ¬ (acc.info.codeHash ≠ Journal.KECCAK_EMPTY ∨ acc.info.nonce ≠ 0 ∨ hs = true) then
          Except.error (Err.panic "inadmissible: create_account_checkpoint without collision on an account created in this transaction")
        else journalOps.createCheckpoint w caller a hs v spec
      | none => journalOps.createCheckpoint w caller a hs v spec) := rfl
  rw [hdef]
  unfold CreateTargetFresh
  cases hst : w.js.state a with
  | none => exact ⟨fun _ => rfl, fun hn => absurd (fun acc h => by cases h) hn⟩
  | some acc =>
    simp only
    by_cases hc : acc.created = true ∧ ¬ (acc.info.codeHash ≠ Journal.KECCAK_EMPTY ∨ acc.info.nonce ≠ 0 ∨ hs = true)
    · rw [if_pos hc]
      exact ⟨fun hf => absurd (hf acc rfl hc.1) hc.2, fun _ => ⟨_, rfl, .inl rfl⟩⟩
    · rw [if_neg hc]
      refine ⟨fun _ => rfl, fun hn => absurd (fun acc' h hcr => ?_) hn⟩
      cases h
      exact Classical.byContradiction fun hh => hc ⟨hcr, hh⟩

/-- the strict `set_code` is the model's under `CodeEmptyAt`, and stops otherwise -/
theorem strict_setCode_iff (w : World) (a hash : Nat) :
    (CodeEmptyAt w a → journalOpsStrict.setCode w a hash = journalOps.setCode w a hash) ∧
    (¬ CodeEmptyAt w a → ∃ e, journalOpsStrict.setCode w a hash = .error e ∧ Esc e) := by
  have hdef : journalOpsStrict.setCode w a hash = (match w.js.state a with
      | some acc => if acc.info.codeHash = Journal.KECCAK_EMPTY then journalOps.setCode w a hash
          else Except.error (Err.panic "inadmissible: set_code on an account with code")
      | none => journalOps.setCode w a hash) := rfl
  rw [hdef]
  unfold CodeEmptyAt
  cases hst : w.js.state a with
  | none => exact ⟨fun _ => rfl, fun hn => absurd (fun acc h => by cases h) hn⟩
  | some acc =>
    simp only
    by_cases hc : acc.info.codeHash = Journal.KECCAK_EMPTY
    · rw [if_pos hc]
      exact ⟨fun _ => rfl, fun hn => absurd (fun acc' h => by cases h; exact hc) hn⟩
    · rw [if_neg hc]
      exact ⟨fun hf => absurd (hf acc rfl) hc, fun _ => ⟨_, rfl, .inr rfl⟩⟩

/-- from Spurious Dragon on, an account that carries the nonce 1 of its creation passes `CreateTargetFresh` whatever the
address derivation does: the collision check fires -/
theorem createTargetFresh_of_nonce {w : World} {a : Addr} {hs : Bool}
    (h : ∀ acc, w.js.state a = some acc → acc.created = true → acc.info.nonce ≠ 0) : CreateTargetFresh w a hs :=
  fun acc hacc hcr => .inr (.inl (h acc hacc hcr))

end Revm.Proofs.EvmRefine
