import Revm.Proofs.Memory
import Revm.Model.Interp
/-! C11, re-entry of a child's result into the waiting parent: `Interpreter::insert_call_outcome` of the integrated
interpreter model (`Model.Interp.insertCallOutcome`, the function the `mem ico` lines of the C11 stream run against
the real code) touches the parent's memory only through one `SharedMemory::set` of the returned prefix into the
return window; `insert_create_outcome` / `insert_eofcreate_outcome` do not touch it at all. -/
set_option linter.unusedSimpArgs false
set_option linter.unusedVariables false
namespace Revm.Proofs.MemoryOutcome
open Revm Revm.Model Revm.Model.Interp Revm.Proofs.Memory

theorem bind_ok {α β} (m : M α) (f : α → M β) (s s' : IState) (a : α) (h : m s = .ok a s') :
    (m >>= f) s = f a s' := by
  show M.bind m f s = _
  simp only [M.bind, h]

/-- the re-entry completed (`instruction_result = Continue`) or the status word did not fit on the stack
(`push!` sets `StackOverflow` and returns - after the memory write); either way the state is `s'` -/
def Lands (e : Exec Unit) (s' : IState) : Prop :=
  e = .ok () s' ∨ e = .halt .StackOverflow [] s'

/-- `push!`: the word is appended, or the stack is full and the state is as it was -/
theorem push_lands (v : Nat) (s : IState) : ∃ s', Lands (push v s) s' ∧ s'.mem = s.mem := by
  unfold push Stack.push
  by_cases h : s.stack.length = Stack.STACK_LIMIT
  · rw [if_pos h]; exact ⟨s, Or.inr rfl, rfl⟩
  · rw [if_neg h]; exact ⟨_, Or.inl rfl, rfl⟩

/-- `push!` followed by a pure update of the gas meter (the create re-entries) -/
theorem push_then_modify_lands (v : Nat) (f : IState → IState) (hf : ∀ x, (f x).mem = x.mem) (s : IState) :
    ∃ s', Lands ((push v >>= fun _ => modifyS f) s) s' ∧ s'.mem = s.mem := by
  show ∃ s', Lands (M.bind (push v) (fun _ => modifyS f) s) s' ∧ s'.mem = s.mem
  unfold M.bind push Stack.push
  by_cases h : s.stack.length = Stack.STACK_LIMIT
  · rw [if_pos h]; exact ⟨s, Or.inr rfl, rfl⟩
  · rw [if_neg h]; exact ⟨f { s with stack := s.stack ++ [v] }, Or.inl rfl, by rw [hf]⟩

/-- `shared_memory.set(out_offset, value)` cannot fail on an addressable window -/
theorem set_total {m : Memory.SharedMemory} (h : WF m) (off : Nat) (val : List Nat)
    (hin : val ≠ [] → off + val.length ≤ (ctx m).length) : ∃ m', Memory.set m off val = .ok m' := by
  by_cases hv : val = []
  · rw [hv]; exact ⟨m, set_empty m off⟩
  · unfold Memory.set
    have : val.isEmpty = false := by cases val <;> simp_all
    rw [this]
    simp only [Bool.false_eq_true, if_false]
    exact ⟨_, writeSlice_ok h (hin hv)⟩

/-- `set` on any value: window write, nothing else (the empty write included) -/
theorem set_window {m m' : Memory.SharedMemory} {off : Nat} {val : List Nat} (h : WF m)
    (ho : off < U64) (hv : val.length < U64) (hr : Memory.set m off val = .ok m') :
    WF m' ∧ (ctx m').length = (ctx m).length
    ∧ (∀ i, i < off ∨ off + val.length ≤ i → (ctx m')[i]? = (ctx m)[i]?)
    ∧ (∀ i, i < val.length → (ctx m')[off + i]? = val[i]?)
    ∧ abs m' = ctx m' :: (abs m).tail := by
  by_cases hne : val = []
  · rw [hne, set_empty] at hr
    injection hr with hr
    subst hr
    obtain ⟨r, hr⟩ := abs_head h
    refine ⟨h, rfl, fun _ _ => rfl, ?_, by rw [hr]; rfl⟩
    intro i hi; rw [hne] at hi; cases hi
  · obtain ⟨h1, h2, h3, h4⟩ := set_ctx h ho hv hne hr
    refine ⟨h4, ?_, ?_, ?_, h3⟩
    · rw [h2]; exact writeAt_length _ _ _ h1
    · intro i hi; rw [h2]; exact writeAt_getElem_outside _ _ _ i h1 hi
    · intro i hi; rw [h2]; exact writeAt_getElem_inside _ _ _ i h1 hi

/-- the memory effect of `insert_call_outcome`, for every child result: `FatalExternalError` is the `panic!` (nothing
was written); an error-class result leaves the memory object as it is; a result of the `return_ok!` / `return_revert!`
classes performs exactly `set(out_offset, &return_data_buffer[..min(out_len, len)])` -/
theorem insertCallOutcome_mem (retStart retEnd : Nat) (o : ChildResult) (s : IState) :
    (o.result = .FatalExternalError ∧ insertCallOutcome retStart retEnd o s = .fault .panic)
    ∨ (o.result ≠ .FatalExternalError ∧ o.result.isOk = false ∧ o.result.isRevert = false
        ∧ ∃ s', Lands (insertCallOutcome retStart retEnd o s) s' ∧ s'.mem = s.mem)
    ∨ ((o.result.isOk = true ∨ o.result.isRevert = true)
        ∧ match Memory.set s.mem retStart (o.output.take (min (retEnd - retStart) o.output.length)) with
          | .ok m' => ∃ s', Lands (insertCallOutcome retStart retEnd o s) s' ∧ s'.mem = m'
          | .panic => insertCallOutcome retStart retEnd o s = .fault .panic
          | .ub => insertCallOutcome retStart retEnd o s = .fault .oobMemory) := by
  unfold insertCallOutcome
  have h0 : modifyS (fun s => { s with returnData := o.output }) s = .ok () { s with returnData := o.output } := rfl
  rw [bind_ok _ _ _ _ _ h0]
  try simp only []
  have hg : ∀ x : IState, getS x = .ok x x := fun _ => rfl
  rw [bind_ok _ _ _ _ _ (hg _)]
  by_cases hok : o.result.isOk = true
  · rw [if_pos hok]
    refine Or.inr (Or.inr ⟨Or.inl hok, ?_⟩)
    have h1 : modifyS (fun s => { s with gas := Gas.recordRefund (Gas.eraseCost s.gas o.gasRemaining) o.gasRefunded })
        { s with returnData := o.output }
        = .ok () { s with returnData := o.output,
                          gas := Gas.recordRefund (Gas.eraseCost s.gas o.gasRemaining) o.gasRefunded } := rfl
    rw [bind_ok _ _ _ _ _ h1]
    generalize hset : Memory.set s.mem retStart (o.output.take (min (retEnd - retStart) o.output.length)) = r
    cases r with
    | ok m' =>
      have h2 : liftMemWrite (fun m => Memory.set m retStart (o.output.take (min (retEnd - retStart) o.output.length)))
          { s with returnData := o.output,
                   gas := Gas.recordRefund (Gas.eraseCost s.gas o.gasRemaining) o.gasRefunded }
          = .ok () { s with returnData := o.output,
                            gas := Gas.recordRefund (Gas.eraseCost s.gas o.gasRemaining) o.gasRefunded, mem := m' } := by
        unfold liftMemWrite; simp only []; rw [hset]; rfl
      rw [bind_ok _ _ _ _ _ h2]
      exact push_lands _ _
    | panic =>
      show M.bind _ _ _ = _
      unfold M.bind liftMemWrite; simp only []; rw [hset]; rfl
    | ub =>
      show M.bind _ _ _ = _
      unfold M.bind liftMemWrite; simp only []; rw [hset]; rfl
  · rw [if_neg hok]
    by_cases hrev : o.result.isRevert = true
    · rw [if_pos hrev]
      refine Or.inr (Or.inr ⟨Or.inr hrev, ?_⟩)
      have h1 : modifyS (fun s => { s with gas := Gas.eraseCost s.gas o.gasRemaining }) { s with returnData := o.output }
          = .ok () { s with returnData := o.output, gas := Gas.eraseCost s.gas o.gasRemaining } := rfl
      rw [bind_ok _ _ _ _ _ h1]
      generalize hset : Memory.set s.mem retStart (o.output.take (min (retEnd - retStart) o.output.length)) = r
      cases r with
      | ok m' =>
        have h2 : liftMemWrite (fun m => Memory.set m retStart (o.output.take (min (retEnd - retStart) o.output.length)))
            { s with returnData := o.output, gas := Gas.eraseCost s.gas o.gasRemaining }
            = .ok () { s with returnData := o.output, gas := Gas.eraseCost s.gas o.gasRemaining, mem := m' } := by
          unfold liftMemWrite; simp only []; rw [hset]; rfl
        rw [bind_ok _ _ _ _ _ h2]
        exact push_lands _ _
      | panic =>
        show M.bind _ _ _ = _
        unfold M.bind liftMemWrite; simp only []; rw [hset]; rfl
      | ub =>
        show M.bind _ _ _ = _
        unfold M.bind liftMemWrite; simp only []; rw [hset]; rfl
    · rw [if_neg hrev]
      by_cases hfat : o.result = .FatalExternalError
      · rw [if_pos hfat]; exact Or.inl ⟨hfat, rfl⟩
      · rw [if_neg hfat]
        refine Or.inr (Or.inl ⟨hfat, by simpa using hok, by simpa using hrev, ?_⟩)
        exact push_lands _ { s with returnData := o.output }

/-- `insert_create_outcome` never touches the parent's memory -/
theorem insertCreateOutcome_mem (o : ChildResult) (s : IState) :
    (o.result = .FatalExternalError ∧ insertCreateOutcome o s = .fault .panic)
    ∨ ∃ s', Lands (insertCreateOutcome o s) s' ∧ s'.mem = s.mem := by
  unfold insertCreateOutcome
  have h0 : modifyS (fun s => { s with returnData := if o.result.isRevert then o.output else [] }) s
      = .ok () { s with returnData := if o.result.isRevert then o.output else [] } := rfl
  rw [bind_ok _ _ _ _ _ h0]
  by_cases hok : o.result.isOk = true
  · rw [if_pos hok]
    exact Or.inr (by first | (apply push_then_modify_lands; intro x; rfl) | (dsimp only; apply push_then_modify_lands; intro x; rfl))
  · rw [if_neg hok]
    by_cases hrev : o.result.isRevert = true
    · rw [if_pos hrev]
      exact Or.inr (by first | (apply push_then_modify_lands; intro x; rfl) | (dsimp only; apply push_then_modify_lands; intro x; rfl))
    · rw [if_neg hrev]
      by_cases hfat : o.result = .FatalExternalError
      · rw [if_pos hfat]; exact Or.inl ⟨hfat, rfl⟩
      · rw [if_neg hfat]
        exact Or.inr (push_lands _ _)

/-- `insert_eofcreate_outcome` never touches the parent's memory (`expect("EOF Address")` is the other panic) -/
theorem insertEofCreateOutcome_mem (o : ChildResult) (s : IState) :
    insertEofCreateOutcome o s = .fault .panic
    ∨ ∃ s', Lands (insertEofCreateOutcome o s) s' ∧ s'.mem = s.mem := by
  unfold insertEofCreateOutcome
  have h0 : modifyS (fun s => { s with returnData := if o.result = .Revert then o.output else [] }) s
      = .ok () { s with returnData := if o.result = .Revert then o.output else [] } := rfl
  rw [bind_ok _ _ _ _ _ h0]
  by_cases hrc : o.result = .ReturnContract
  · rw [if_pos hrc]
    cases ha : o.address with
    | none => exact Or.inl rfl
    | some a => exact Or.inr (by first | (apply push_then_modify_lands; intro x; rfl) | (dsimp only; apply push_then_modify_lands; intro x; rfl))
  · rw [if_neg hrc]
    by_cases hrev : o.result.isRevert = true
    · rw [if_pos hrev]
      exact Or.inr (by first | (apply push_then_modify_lands; intro x; rfl) | (dsimp only; apply push_then_modify_lands; intro x; rfl))
    · rw [if_neg hrev]
      by_cases hfat : o.result = .FatalExternalError
      · rw [if_pos hfat]; exact Or.inl rfl
      · rw [if_neg hfat]
        exact Or.inr (push_lands _ _)

end Revm.Proofs.MemoryOutcome
