import Revm.Proofs.InspectorWrap
/-! Proofs for C28, part 2: frame handlers, `run_the_loop` (any number of iterations), first frame and
`last_frame_return`. The input stacks of the wrapper are shown never to be popped empty. -/
namespace Revm.Proofs.InspectorWrap
open Revm Revm.Model.InspectorWrap

set_option linter.unusedSimpArgs false
set_option linter.unusedVariables false

variable {T : Ty} {S : Type}

/-! ### simulation of `Res` values -/

inductive RSim {ε α β : Type} (P : α → β → Prop) : Res ε α → Res ε β → Prop where
  | ok {a : α} {b : β} : P a b → RSim P (.ok a) (.ok b)
  | err {e : ε} : RSim P (.err e) (.err e)
  | panic : RSim P .panic .panic

theorem RSim.bind {ε α β α' β' : Type} {P : α → β → Prop} {Q : α' → β' → Prop}
    {x : Res ε α} {y : Res ε β} {f : α → Res ε α'} {g : β → Res ε β'}
    (hxy : RSim P x y) (hfg : ∀ a b, P a b → RSim Q (f a) (g b)) : RSim Q (x.bind f) (y.bind g) := by
  cases hxy with
  | ok hp => exact hfg _ _ hp
  | err => exact .err
  | panic => exact .panic

theorem RSim.mono {ε α β : Type} {P Q : α → β → Prop} {x : Res ε α} {y : Res ε β}
    (hxy : RSim P x y) (hpq : ∀ a b, P a b → Q a b) : RSim Q x y := by
  cases hxy with
  | ok hp => exact .ok (hpq _ _ hp)
  | err => exact .err
  | panic => exact .panic

/-- `liftRes w r` simulates `r` with the wrapper state `w` -/
theorem rsim_liftRes {ε α : Type} (w : WState T S) (r : Res ε (α × T.E)) :
    RSim (fun a b => b = (a.1, (a.2, w))) r (liftRes w r) := by
  cases r with
  | ok a => exact .ok rfl
  | err e => exact .err
  | panic => exact .panic

/-! ### the input stacks -/

def kindOf : FrameResult → Kind
  | .call _ => .call
  | .create _ => .create
  | .eofcreate _ => .eofcreate

def wlen (k : Kind) (w : WState T S) : Nat :=
  match k with
  | .call => w.callStack.length
  | .create => w.createStack.length
  | .eofcreate => w.eofStack.length

def kcount (k : Kind) : List (Frame T) → Nat
  | [] => 0
  | f :: fs => (if f.kind = k then 1 else 0) + kcount k fs

/-- every open frame still has its inputs on the stack of its kind -/
def Inv (fs : List (Frame T)) (w : WState T S) : Prop := ∀ k, kcount k fs ≤ wlen k w

/-- `Inv` for the frames plus one pending result of kind `k0` -/
def InvPlus (k0 : Kind) (fs : List (Frame T)) (w : WState T S) : Prop :=
  ∀ k, kcount k fs + (if k = k0 then 1 else 0) ≤ wlen k w

@[simp] theorem wlen_withObs (k : Kind) (w : WState T S) (s : S) : wlen k (withObs w s) = wlen k w := by
  cases k <;> rfl

theorem Inv.withObs {fs : List (Frame T)} {w : WState T S} (h : Inv fs w) (s : S) : Inv fs (withObs w s) := by
  intro k; rw [wlen_withObs]; exact h k

theorem InvPlus.withObs {k0 : Kind} {fs : List (Frame T)} {w : WState T S} (h : InvPlus k0 fs w) (s : S) :
    InvPlus k0 fs (withObs w s) := by
  intro k; rw [wlen_withObs]; exact h k

theorem kcount_setInterp (k : Kind) (top : Frame T) (st : IState T) (rest : List (Frame T)) :
    kcount k ({ top with interp := st } :: rest) = kcount k (top :: rest) := rfl

/-! ### call / create / eofcreate -/

theorem initFrame_eq {O : Type} {rel : ORel} {obs : Observer T S} (h : Observing obs rel) (w : WState T S)
    (r : Res T.Err (FrameOr T O × T.E)) : ∃ s', initFrame obs w r = liftRes (withObs w s') r := by
  cases r with
  | err e => exact ⟨w.obs, rfl⟩
  | panic => exact ⟨w.obs, rfl⟩
  | ok a =>
    obtain ⟨x, e⟩ := a
    cases x with
    | result o => exact ⟨w.obs, rfl⟩
    | frame interp data =>
      have hi := h.initializeInterp w.obs interp e
      refine ⟨(obs.initializeInterp w.obs interp e).1, ?_⟩
      simp only [initFrame, hi, liftRes]

def pushCall (w : WState T S) (i : T.CallIn) : WState T S := { w with callStack := i :: w.callStack }
def pushCreate (w : WState T S) (i : T.CreateIn) : WState T S := { w with createStack := i :: w.createStack }
def pushEof (w : WState T S) (i : T.EofIn) : WState T S := { w with eofStack := i :: w.eofStack }

theorem wrap_call {rel : ORel} {obs : Observer T S} (h : Observing obs rel) (ops : EnvOps T) (m : Machine T T.E)
    (c : T.E × WState T S) (i : T.CallIn) :
    ∃ s', (wrap ops obs m).call c i = liftRes (withObs (pushCall c.2 i) s') (m.call c.1 i) := by
  have hc := h.call c.2.obs c.1 i
  obtain ⟨s2, h2⟩ := initFrame_eq h
    ({ c.2 with obs := (obs.call c.2.obs c.1 i).1, callStack := i :: c.2.callStack } : WState T S) (m.call c.1 i)
  refine ⟨s2, ?_⟩
  show (match (obs.call c.2.obs c.1 i).2.2.2 with
    | some outcome => _
    | none => initFrame obs _ (m.call (obs.call c.2.obs c.1 i).2.1 (obs.call c.2.obs c.1 i).2.2.1)) = _
  simp only [hc]
  exact h2

theorem wrap_create {rel : ORel} {obs : Observer T S} (h : Observing obs rel) (ops : EnvOps T) (m : Machine T T.E)
    (c : T.E × WState T S) (i : T.CreateIn) :
    ∃ s', (wrap ops obs m).create c i = liftRes (withObs (pushCreate c.2 i) s') (m.create c.1 i) := by
  have hc := h.create c.2.obs c.1 i
  obtain ⟨s2, h2⟩ := initFrame_eq h
    ({ c.2 with obs := (obs.create c.2.obs c.1 i).1, createStack := i :: c.2.createStack } : WState T S) (m.create c.1 i)
  refine ⟨s2, ?_⟩
  show (match (obs.create c.2.obs c.1 i).2.2.2 with
    | some outcome => _
    | none => initFrame obs _ (m.create (obs.create c.2.obs c.1 i).2.1 (obs.create c.2.obs c.1 i).2.2.1)) = _
  simp only [hc]
  exact h2

theorem wrap_eofcreate {rel : ORel} {obs : Observer T S} (h : Observing obs rel) (ops : EnvOps T) (m : Machine T T.E)
    (c : T.E × WState T S) (i : T.EofIn) :
    ∃ s', (wrap ops obs m).eofcreate c i = liftRes (withObs (pushEof c.2 i) s') (m.eofcreate c.1 i) := by
  have hc := h.eofcreate c.2.obs c.1 i
  obtain ⟨s2, h2⟩ := initFrame_eq h
    ({ c.2 with obs := (obs.eofcreate c.2.obs c.1 i).1, eofStack := i :: c.2.eofStack } : WState T S) (m.eofcreate c.1 i)
  refine ⟨s2, ?_⟩
  show (match (obs.eofcreate c.2.obs c.1 i).2.2.2 with
    | some outcome => _
    | none => initFrame obs _ (m.eofcreate (obs.eofcreate c.2.obs c.1 i).2.1 (obs.eofcreate c.2.obs c.1 i).2.2.1)) = _
  simp only [hc]
  exact h2

/-! ### insert_*_outcome and last_frame_return -/

theorem wrap_insertCall {rel : ORel} {obs : Observer T S} (h : Observing obs rel) (ops : EnvOps T)
    (m : Machine T T.E) (hr : Respects m rel) (c : T.E × WState T S) (f : Frame T) (sh : T.Mem)
    (o : CallOutcome) (x : T.CallIn) (rest : List T.CallIn) (hst : c.2.callStack = x :: rest) :
    ∃ s', RSim (fun a b => b = (a.1, a.2.1, (a.2.2, ({ c.2 with obs := s', callStack := rest } : WState T S))))
      (m.insertCallOutcome c.1 f sh o) ((wrap ops obs m).insertCallOutcome c f sh o) := by
  have he := h.callEnd c.2.obs c.1 x o
  refine ⟨(obs.callEnd c.2.obs c.1 x o).1, ?_⟩
  have hw : (wrap ops obs m).insertCallOutcome c f sh o =
      (match m.insertCallOutcome (obs.callEnd c.2.obs c.1 x o).2.1 f sh (obs.callEnd c.2.obs c.1 x o).2.2 with
        | .ok (st, sh, e) => .ok (st, sh, (e, ({ c.2 with obs := (obs.callEnd c.2.obs c.1 x o).1, callStack := rest } : WState T S)))
        | .err e => .err e
        | .panic => .panic) := by
    show (match c.2.callStack with | [] => _ | callInputs :: restStack => _) = _
    (rw [hst]) <;> try rfl
  rw [hw, he.1, hr.insertCall c.1 f sh o _ he.2]
  cases m.insertCallOutcome c.1 f sh o with
  | ok a => exact .ok rfl
  | err e => exact .err
  | panic => exact .panic

theorem wrap_insertCreate {rel : ORel} {obs : Observer T S} (h : Observing obs rel) (ops : EnvOps T)
    (m : Machine T T.E) (hr : Respects m rel) (c : T.E × WState T S) (f : Frame T)
    (o : CreateOutcome) (x : T.CreateIn) (rest : List T.CreateIn) (hst : c.2.createStack = x :: rest) :
    ∃ s', RSim (fun a b => b = (a.1, (a.2, ({ c.2 with obs := s', createStack := rest } : WState T S))))
      (m.insertCreateOutcome c.1 f o) ((wrap ops obs m).insertCreateOutcome c f o) := by
  have he := h.createEnd c.2.obs c.1 x o
  refine ⟨(obs.createEnd c.2.obs c.1 x o).1, ?_⟩
  have hw : (wrap ops obs m).insertCreateOutcome c f o =
      liftRes ({ c.2 with obs := (obs.createEnd c.2.obs c.1 x o).1, createStack := rest } : WState T S)
        (m.insertCreateOutcome (obs.createEnd c.2.obs c.1 x o).2.1 f (obs.createEnd c.2.obs c.1 x o).2.2) := by
    show (match c.2.createStack with | [] => _ | createInputs :: restStack => _) = _
    (rw [hst]) <;> try rfl
  rw [hw, he.1, hr.insertCreate c.1 f o _ he.2]
  exact rsim_liftRes _ _

theorem wrap_insertEofcreate {rel : ORel} {obs : Observer T S} (h : Observing obs rel) (ops : EnvOps T)
    (m : Machine T T.E) (hr : Respects m rel) (c : T.E × WState T S) (f : Frame T)
    (o : CreateOutcome) (x : T.EofIn) (rest : List T.EofIn) (hst : c.2.eofStack = x :: rest) :
    ∃ s', RSim (fun a b => b = (a.1, (a.2, ({ c.2 with obs := s', eofStack := rest } : WState T S))))
      (m.insertEofcreateOutcome c.1 f o) ((wrap ops obs m).insertEofcreateOutcome c f o) := by
  have he := h.eofcreateEnd c.2.obs c.1 x o
  refine ⟨(obs.eofcreateEnd c.2.obs c.1 x o).1, ?_⟩
  have hw : (wrap ops obs m).insertEofcreateOutcome c f o =
      liftRes ({ c.2 with obs := (obs.eofcreateEnd c.2.obs c.1 x o).1, eofStack := rest } : WState T S)
        (m.insertEofcreateOutcome (obs.eofcreateEnd c.2.obs c.1 x o).2.1 f (obs.eofcreateEnd c.2.obs c.1 x o).2.2) := by
    show (match c.2.eofStack with | [] => _ | createInputs :: restStack => _) = _
    (rw [hst]) <;> try rfl
  rw [hw, he.1, hr.insertEofcreate c.1 f o _ he.2]
  exact rsim_liftRes _ _

/-- `last_frame_return` of the wrapper, given the inputs of the first frame are still on their stack -/
theorem wrap_lastFrameReturn {rel : ORel} {obs : Observer T S} (h : Observing obs rel) (ops : EnvOps T)
    (m : Machine T T.E) (hr : Respects m rel) (c : T.E × WState T S) (r : FrameResult)
    (hlen : 1 ≤ wlen (kindOf r) c.2) :
    RSim (fun a b => b.1 = a.1 ∧ b.2.1 = a.2) (m.lastFrameReturn c.1 r) ((wrap ops obs m).lastFrameReturn c r) := by
  cases r with
  | call o =>
    cases hst : c.2.callStack with
    | nil => simp [wlen, kindOf, hst] at hlen
    | cons x rest =>
      have he := h.callEnd c.2.obs c.1 x o
      have hw : (wrap ops obs m).lastFrameReturn c (.call o) =
          liftRes ({ c.2 with obs := (obs.callEnd c.2.obs c.1 x o).1, callStack := rest } : WState T S)
            (m.lastFrameReturn (obs.callEnd c.2.obs c.1 x o).2.1 (.call (obs.callEnd c.2.obs c.1 x o).2.2)) := by
        show (match c.2.callStack with | [] => _ | callInputs :: restStack => _) = _
        (rw [hst]) <;> try rfl
      rw [hw, he.1, hr.lastCall c.1 o _ he.2]
      exact (rsim_liftRes _ _).mono (fun a b hb => by subst hb; exact ⟨rfl, rfl⟩)
  | create o =>
    cases hst : c.2.createStack with
    | nil => simp [wlen, kindOf, hst] at hlen
    | cons x rest =>
      have he := h.createEnd c.2.obs c.1 x o
      have hw : (wrap ops obs m).lastFrameReturn c (.create o) =
          liftRes ({ c.2 with obs := (obs.createEnd c.2.obs c.1 x o).1, createStack := rest } : WState T S)
            (m.lastFrameReturn (obs.createEnd c.2.obs c.1 x o).2.1 (.create (obs.createEnd c.2.obs c.1 x o).2.2)) := by
        show (match c.2.createStack with | [] => _ | createInputs :: restStack => _) = _
        (rw [hst]) <;> try rfl
      rw [hw, he.1, hr.lastCreate c.1 o _ he.2]
      exact (rsim_liftRes _ _).mono (fun a b hb => by subst hb; exact ⟨rfl, rfl⟩)
  | eofcreate o =>
    cases hst : c.2.eofStack with
    | nil => simp [wlen, kindOf, hst] at hlen
    | cons x rest =>
      have he := h.eofcreateEnd c.2.obs c.1 x o
      have hw : (wrap ops obs m).lastFrameReturn c (.eofcreate o) =
          liftRes ({ c.2 with obs := (obs.eofcreateEnd c.2.obs c.1 x o).1, eofStack := rest } : WState T S)
            (m.lastFrameReturn (obs.eofcreateEnd c.2.obs c.1 x o).2.1 (.eofcreate (obs.eofcreateEnd c.2.obs c.1 x o).2.2)) := by
        show (match c.2.eofStack with | [] => _ | eofInputs :: restStack => _) = _
        (rw [hst]) <;> try rfl
      rw [hw, he.1, hr.lastEofcreate c.1 o _ he.2]
      exact (rsim_liftRes _ _).mono (fun a b hb => by subst hb; exact ⟨rfl, rfl⟩)

/-! ### one pass of the loop body -/

/-- relation between the plain and the wrapped continuation of the loop -/
def NextSim : LoopNext T T.E → LoopNext T (T.E × WState T S) → Prop
  | .done r e, .done r' c' => r' = r ∧ c'.1 = e ∧ 1 ≤ wlen (kindOf r) c'.2
  | .continue fs sh e, .continue fs' sh' c' => fs' = fs ∧ sh' = sh ∧ c'.1 = e ∧ Inv fs c'.2
  | _, _ => False

theorem sim_insertResult {rel : ORel} {obs : Observer T S} (h : Observing obs rel) (ops : EnvOps T)
    (m : Machine T T.E) (hr : Respects m rel) (r : FrameResult) (fs : List (Frame T)) (sh : T.Mem)
    (c : T.E × WState T S) (hinv : InvPlus (kindOf r) fs c.2) :
    RSim NextSim (m.insertResult r fs sh c.1) ((wrap ops obs m).insertResult r fs sh c) := by
  cases fs with
  | nil =>
    refine .ok ⟨rfl, rfl, ?_⟩
    have := hinv (kindOf r); simp [kcount] at this; exact this
  | cons top rest =>
    cases r with
    | call o =>
      have h1 := hinv .call
      cases hst : c.2.callStack with
      | nil => simp [wlen, kindOf, hst] at h1
      | cons x restS =>
        obtain ⟨s', hs⟩ := wrap_insertCall h ops m hr c top sh o x restS hst
        refine RSim.bind hs ?_
        intro a b hab; subst hab
        refine .ok ⟨rfl, rfl, rfl, ?_⟩
        intro k
        have hk := hinv k
        rw [kcount_setInterp]
        cases k <;> simp [wlen, kindOf, hst] at hk ⊢ <;> omega
    | create o =>
      have h1 := hinv .create
      cases hst : c.2.createStack with
      | nil => simp [wlen, kindOf, hst] at h1
      | cons x restS =>
        obtain ⟨s', hs⟩ := wrap_insertCreate h ops m hr c top o x restS hst
        refine RSim.bind hs ?_
        intro a b hab; subst hab
        refine .ok ⟨rfl, rfl, rfl, ?_⟩
        intro k
        have hk := hinv k
        rw [kcount_setInterp]
        cases k <;> simp [wlen, kindOf, hst] at hk ⊢ <;> omega
    | eofcreate o =>
      have h1 := hinv .eofcreate
      cases hst : c.2.eofStack with
      | nil => simp [wlen, kindOf, hst] at h1
      | cons x restS =>
        obtain ⟨s', hs⟩ := wrap_insertEofcreate h ops m hr c top o x restS hst
        refine RSim.bind hs ?_
        intro a b hab; subst hab
        refine .ok ⟨rfl, rfl, rfl, ?_⟩
        intro k
        have hk := hinv k
        rw [kcount_setInterp]
        cases k <;> simp [wlen, kindOf, hst] at hk ⊢ <;> omega

theorem invPlus_push_call {fs : List (Frame T)} {w : WState T S} (hinv : Inv fs w) (i : T.CallIn) (s : S) :
    InvPlus .call fs (withObs (pushCall w i) s) := by
  intro k; have := hinv k
  cases k <;> simp [wlen, pushCall] at this ⊢ <;> omega

theorem invPlus_push_create {fs : List (Frame T)} {w : WState T S} (hinv : Inv fs w) (i : T.CreateIn) (s : S) :
    InvPlus .create fs (withObs (pushCreate w i) s) := by
  intro k; have := hinv k
  cases k <;> simp [wlen, pushCreate] at this ⊢ <;> omega

theorem invPlus_push_eof {fs : List (Frame T)} {w : WState T S} (hinv : Inv fs w) (i : T.EofIn) (s : S) :
    InvPlus .eofcreate fs (withObs (pushEof w i) s) := by
  intro k; have := hinv k
  cases k <;> simp [wlen, pushEof] at this ⊢ <;> omega

theorem inv_of_invPlus_frame {k0 : Kind} {fs : List (Frame T)} {w : WState T S} (hinv : InvPlus k0 fs w)
    (f : Frame T) (hk : f.kind = k0) : Inv (f :: fs) w := by
  intro k; have := hinv k
  simp only [kcount, hk]
  by_cases hkk : k = k0
  · subst hkk; simp at this ⊢; omega
  · have hkk' : ¬ k0 = k := fun h => hkk h.symm
    simp [hkk, hkk'] at this ⊢; omega

theorem invPlus_of_inv_pop {f : Frame T} {fs : List (Frame T)} {w : WState T S} (hinv : Inv (f :: fs) w) :
    InvPlus f.kind fs w := by
  intro k; have := hinv k
  simp only [kcount] at this
  by_cases hkk : k = f.kind
  · subst hkk; simp at this ⊢; omega
  · have hkk' : ¬ f.kind = k := fun h => hkk h.symm
    simp [hkk, hkk'] at this ⊢; omega

theorem sim_handleAction {rel : ORel} {obs : Observer T S} (h : Observing obs rel) (ops : EnvOps T)
    (m : Machine T T.E) (hr : Respects m rel) (a : Action T) (f : Frame T) (rest : List (Frame T))
    (sh : T.Mem) (c : T.E × WState T S) (hinv : Inv (f :: rest) c.2) :
    RSim NextSim (m.handleAction a f rest sh c.1) ((wrap ops obs m).handleAction a f rest sh c) := by
  cases a with
  | none => exact .panic
  | call i =>
    obtain ⟨s', hs⟩ := wrap_call h ops m c i
    show RSim NextSim ((m.call c.1 i).bind _) (((wrap ops obs m).call c i).bind _)
    rw [hs]
    refine RSim.bind (rsim_liftRes _ _) ?_
    intro x y hxy; subst hxy
    obtain ⟨x, e⟩ := x
    cases x with
    | frame interp data =>
      exact .ok ⟨rfl, rfl, rfl, inv_of_invPlus_frame (invPlus_push_call hinv i s') _ rfl⟩
    | result o =>
      exact sim_insertResult h ops m hr (.call o) (f :: rest) sh (e, withObs (pushCall c.2 i) s')
        (invPlus_push_call hinv i s')
  | create i =>
    obtain ⟨s', hs⟩ := wrap_create h ops m c i
    show RSim NextSim ((m.create c.1 i).bind _) (((wrap ops obs m).create c i).bind _)
    rw [hs]
    refine RSim.bind (rsim_liftRes _ _) ?_
    intro x y hxy; subst hxy
    obtain ⟨x, e⟩ := x
    cases x with
    | frame interp data =>
      exact .ok ⟨rfl, rfl, rfl, inv_of_invPlus_frame (invPlus_push_create hinv i s') _ rfl⟩
    | result o =>
      exact sim_insertResult h ops m hr (.create o) (f :: rest) sh (e, withObs (pushCreate c.2 i) s')
        (invPlus_push_create hinv i s')
  | eofcreate i =>
    obtain ⟨s', hs⟩ := wrap_eofcreate h ops m c i
    show RSim NextSim ((m.eofcreate c.1 i).bind _) (((wrap ops obs m).eofcreate c i).bind _)
    rw [hs]
    refine RSim.bind (rsim_liftRes _ _) ?_
    intro x y hxy; subst hxy
    obtain ⟨x, e⟩ := x
    cases x with
    | frame interp data =>
      exact .ok ⟨rfl, rfl, rfl, inv_of_invPlus_frame (invPlus_push_eof hinv i s') _ rfl⟩
    | result o =>
      exact sim_insertResult h ops m hr (.eofcreate o) (f :: rest) sh (e, withObs (pushEof c.2 i) s')
        (invPlus_push_eof hinv i s')
  | ret r =>
    have hp := invPlus_of_inv_pop hinv
    cases hk : f.kind with
    | call =>
      rw [hk] at hp
      show RSim NextSim (match f.kind with | .call => _ | .create => _ | .eofcreate => _)
        (match f.kind with | .call => _ | .create => _ | .eofcreate => _)
      rw [hk]
      refine RSim.bind (rsim_liftRes c.2 (m.callReturn c.1 f r)) ?_
      intro x y hxy; subst hxy
      exact sim_insertResult h ops m hr (.call x.1) rest (m.freeContext sh) (x.2, c.2) hp
    | create =>
      rw [hk] at hp
      show RSim NextSim (match f.kind with | .call => _ | .create => _ | .eofcreate => _)
        (match f.kind with | .call => _ | .create => _ | .eofcreate => _)
      rw [hk]
      refine RSim.bind (rsim_liftRes c.2 (m.createReturn c.1 f r)) ?_
      intro x y hxy; subst hxy
      exact sim_insertResult h ops m hr (.create x.1) rest (m.freeContext sh) (x.2, c.2) hp
    | eofcreate =>
      rw [hk] at hp
      show RSim NextSim (match f.kind with | .call => _ | .create => _ | .eofcreate => _)
        (match f.kind with | .call => _ | .create => _ | .eofcreate => _)
      rw [hk]
      refine RSim.bind (rsim_liftRes c.2 (m.eofcreateReturn c.1 f r)) ?_
      intro x y hxy; subst hxy
      exact sim_insertResult h ops m hr (.eofcreate x.1) rest (m.freeContext sh) (x.2, c.2) hp

/-! ### `run_the_loop`, any number of iterations -/

/-- relation between the plain and the wrapped result of the loop -/
def LoopSim : Option (Res T.Err (FrameResult × T.E)) → Option (Res T.Err (FrameResult × (T.E × WState T S))) → Prop
  | none, none => True
  | some x, some y => RSim (fun a b => b.1 = a.1 ∧ b.2.1 = a.2 ∧ 1 ≤ wlen (kindOf a.1) b.2.2) x y
  | _, _ => False

theorem wrap_takeError (ops : EnvOps T) (obs : Observer T S) (m : Machine T T.E) (c : T.E × WState T S) :
    RSim (fun a b => b = (a, c.2)) (m.takeError c.1) ((wrap ops obs m).takeError c) := by
  show RSim _ _ (Res.map _ (liftRes c.2 (Res.map _ (m.takeError c.1))))
  cases m.takeError c.1 with
  | ok a => exact .ok rfl
  | err e => exact .err
  | panic => exact .panic

theorem sim_loop {rel : ORel} {obs : Observer T S} (h : Observing obs rel) (ops : EnvOps T)
    (m : Machine T T.E) (hr : Respects m rel) : ∀ (n : Nat) (fs : List (Frame T)) (sh : T.Mem)
    (c : T.E × WState T S), Inv fs c.2 → LoopSim (m.loop n fs sh c.1) ((wrap ops obs m).loop n fs sh c) := by
  intro n
  induction n with
  | zero => intro fs sh c _; exact True.intro
  | succ n ih =>
    intro fs sh c hinv
    cases fs with
    | nil => exact RSim.panic
    | cons f rest =>
      obtain ⟨s1, h1⟩ := wrap_executeFrame h ops m n f sh c
      unfold Machine.loop
      rw [h1]
      cases hx : m.executeFrame n f sh c.1 with
      | none => exact True.intro
      | some x =>
        obtain ⟨a, f', sh', e'⟩ := x
        simp only [liftExec]
        have ht := wrap_takeError ops obs m (e', withObs c.2 s1)
        dsimp only at ht
        generalize hp : m.takeError e' = p at ht ⊢
        generalize hq : (wrap ops obs m).takeError (e', withObs c.2 s1) = q at ht ⊢
        cases ht with
        | err => exact RSim.err
        | panic => exact RSim.panic
        | @ok e2 c2 hc2 =>
          subst hc2
          dsimp only
          have hinv' : Inv (f' :: rest) (withObs c.2 s1) := by
            have : Inv (f :: rest) (withObs c.2 s1) := hinv.withObs s1
            have hf : f'.kind = f.kind := by
              unfold Machine.executeFrame at hx
              cases hrun : m.run n f.interp sh c.1 with
              | none => rw [hrun] at hx; simp at hx
              | some y => rw [hrun] at hx; simp at hx; rw [← hx.2.1]
            intro k; have hk := this k
            simp only [kcount, hf] at hk ⊢; exact hk
          have hh := sim_handleAction h ops m hr a f' rest sh' (e2, withObs c.2 s1) hinv'
          dsimp only at hh
          generalize hp2 : m.handleAction a f' rest sh' e2 = p2 at hh ⊢
          generalize hq2 : (wrap ops obs m).handleAction a f' rest sh' (e2, withObs c.2 s1) = q2 at hh ⊢
          cases hh with
          | err => exact RSim.err
          | panic => exact RSim.panic
          | @ok x y hxy =>
            cases x with
            | done r e3 =>
              cases y with
              | done r' c3 =>
                obtain ⟨hr1, hr2, hr3⟩ := hxy
                subst hr1
                exact RSim.ok ⟨rfl, hr2, hr3⟩
              | «continue» _ _ _ => exact hxy.elim
            | «continue» fs2 sh2 e3 =>
              cases y with
              | done _ _ => exact hxy.elim
              | «continue» fs3 sh3 c3 =>
                obtain ⟨hf1, hf2, hf3, hf4⟩ := hxy
                subst hf1; subst hf2; subst hf3
                exact ih fs3 sh3 c3 hf4

end Revm.Proofs.InspectorWrap
