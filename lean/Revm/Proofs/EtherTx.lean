import Revm.Model.TxFeeLegs
import Revm.Proofs.EtherHistory
/-! Proofs for C08, part 4: the fee legs of the transaction handler and `make_create_frame`. -/
namespace Revm.Proofs.Ether
open Revm Revm.Model.Journal Revm.Model.TxFeeLegs Revm.Spec.JournalAbs Revm.Spec.Ether

theorem deductCaller_bal {db : Db} {s s' : JState} {spec : Nat} {e : FeeEnv}
    (h : deductCaller db s spec e = some s') :
    ∃ c, gasCost spec e = some c ∧
      bal db s' = upd (bal db s) e.caller (U256.saturatingSub (bal db s e.caller) c) ∧ JB s' = JB s := by
  unfold deductCaller at h
  simp only [bind, Option.bind_eq_some_iff] at h
  obtain ⟨⟨s1, c1⟩, h1, acc, h2, acc', h3, h⟩ := h
  simp only [] at h2 h
  cases h
  obtain ⟨e1, _⟩ := loadAccount_same (db := db) h1
  unfold deductCallerInner at h3
  simp only [Option.map_eq_some_iff] at h3
  obtain ⟨c, hc, h3⟩ := h3
  refine ⟨c, hc, ?_, e1.2⟩
  rw [bal_setAcct, e1.1, ← h3]
  have : acc.info.balance = bal db s e.caller := by rw [← e1.1]; exact (bal_some h2).symm
  rw [← this]
  split <;> rfl

theorem reimburseCaller_bal {db : Db} {s s' : JState} {e : FeeEnv} {remaining refunded : Nat}
    (h : reimburseCaller db s e remaining refunded = some s') :
    bal db s' = upd (bal db s) e.caller
      (U256.saturatingAdd (bal db s e.caller) (reimbursement e remaining refunded)) ∧ JB s' = JB s := by
  unfold reimburseCaller at h
  simp only [bind, Option.bind_eq_some_iff] at h
  obtain ⟨⟨s1, c1⟩, h1, acc, h2, h⟩ := h
  simp only [] at h2 h
  cases h
  obtain ⟨e1, _⟩ := loadAccount_same (db := db) h1
  refine ⟨?_, e1.2⟩
  rw [bal_setAcct, e1.1]
  have : acc.info.balance = bal db s e.caller := by rw [← e1.1]; exact (bal_some h2).symm
  rw [← this]

theorem rewardBeneficiary_bal {db : Db} {s s' : JState} {spec : Nat} {e : FeeEnv} {spent refunded : Nat}
    (h : rewardBeneficiary db s spec e spent refunded = some s') :
    bal db s' = upd (bal db s) e.coinbase
      (U256.saturatingAdd (bal db s e.coinbase) (reward spec e spent refunded)) ∧ JB s' = JB s := by
  unfold rewardBeneficiary at h
  simp only [bind, Option.bind_eq_some_iff] at h
  obtain ⟨⟨s1, c1⟩, h1, acc, h2, h⟩ := h
  simp only [] at h2 h
  cases h
  obtain ⟨e1, _⟩ := loadAccount_same (db := db) h1
  refine ⟨?_, e1.2⟩
  rw [bal_setAcct, e1.1]
  have : acc.info.balance = bal db s e.coinbase := by rw [← e1.1]; exact (bal_some h2).symm
  rw [← this]

/-! ## arithmetic of the three legs under the validated-balance hypothesis -/

theorem satMul_eq {a b : Nat} (h : a * b < W) : U256.saturatingMul a b = a * b := by
  unfold U256.saturatingMul; rw [if_pos h]
theorem satAdd_eq {a b : Nat} (h : a + b < W) : U256.saturatingAdd a b = a + b := by
  unfold U256.saturatingAdd; rw [if_pos h]
theorem wmul_eq {a b : Nat} (h : a * b < W) : U256.wmul a b = a * b := by
  unfold U256.wmul; exact Nat.mod_eq_of_lt h
theorem wadd64_eq {a b : Nat} (h : a + b < U64) : U64ops.wadd a b = a + b := by
  unfold U64ops.wadd; exact Nat.mod_eq_of_lt h
theorem wsub64_eq {a b : Nat} (ha : a < U64) (h : b ≤ a) : U64ops.wsub a b = a - b := by
  unfold U64ops.wsub
  have hb : b % U64 = b := Nat.mod_eq_of_lt (by omega)
  rw [hb]
  have : a + U64 - b = (a - b) + U64 := by omega
  rw [this, Nat.add_mod_right]; exact Nat.mod_eq_of_lt (by omega)

theorem coinbaseGasPrice_le (spec : Nat) (e : FeeEnv) : coinbaseGasPrice spec e ≤ effectiveGasPrice e := by
  unfold coinbaseGasPrice U256.saturatingSub; split <;> omega

theorem burntPerGas_london {spec : Nat} {e : FeeEnv} (h : spec ≥ LONDON) :
    burntPerGas spec e = min (effectiveGasPrice e) e.basefee := by
  unfold burntPerGas coinbaseGasPrice U256.saturatingSub; rw [if_pos h]; omega

theorem burntPerGas_pre_london {spec : Nat} {e : FeeEnv} (h : ¬ spec ≥ LONDON) : burntPerGas spec e = 0 := by
  unfold burntPerGas coinbaseGasPrice; rw [if_neg h]; omega

theorem dataFee_pre_cancun {spec : Nat} {e : FeeEnv} (h : ¬ spec ≥ CANCUN) : dataFee spec e = 0 := by
  unfold dataFee; rw [if_neg h]

theorem gasCost_validated {db : Db} {s : JState} {spec : Nat} {e : FeeEnv} (hok : BalOk db s)
    (hv : Validated db s spec e) {c : Nat} (hc : gasCost spec e = some c) :
    c = e.gasLimit * effectiveGasPrice e + dataFee spec e := by
  obtain ⟨h1, h2⟩ := hv
  have hb := hok e.caller
  unfold gasCost at hc
  simp only [] at hc
  unfold dataFee at h1 ⊢
  split at hc
  · rename_i hcan
    rw [if_pos hcan] at h1 ⊢
    simp only [Option.map_eq_some_iff] at hc
    obtain ⟨d, hd, hc⟩ := hc
    rw [hd] at h1 ⊢
    simp only [Option.getD_some] at h1 ⊢
    rw [satMul_eq (by omega), satAdd_eq (by omega)] at hc
    exact hc.symm
  · rename_i hcan
    rw [if_neg hcan] at h1 ⊢
    cases hc
    rw [satMul_eq (by omega)]; omega


/-- **the transaction-level conservation law.** `s0` is the state when `deduct_caller` runs, `s2` the
state when the first frame has returned; whatever happened in between is only required to conserve
(`hexec`, the result of part 1: `burntExec` is what self-destructs naming themselves destroyed). -/
theorem tx_conserves {db : Db} {L : List Addr} {s0 s1 s2 s3 : JState} {spec : Nat} {e : FeeEnv}
    {rewards : Bool} {remaining spent refunded burntExec : Nat}
    (hn : L.Nodup) (hcL : e.caller ∈ L) (hbL : e.coinbase ∈ L)
    (hok0 : BalOk db s0) (hSum : total L db s0 < W)
    (hval : Validated db s0 spec e) (hgas : GasOk e remaining spent refunded)
    (hded : deductCaller db s0 spec e = some s1)
    (hexec : total L db s2 + burntExec = total L db s1)
    (hpost : postExecution db s2 spec e rewards remaining spent refunded = some s3) :
    total L db s3 + burntPerGas spec e * (spent - refunded) + dataFee spec e + burntExec
      + (if rewards then 0 else coinbaseGasPrice spec e * (spent - refunded)) = total L db s0 := by
  obtain ⟨hg1, hg2, hg3⟩ := hgas
  -- the debit
  obtain ⟨c, hc, b1, _⟩ := deductCaller_bal hded
  have hceq := gasCost_validated hok0 hval hc
  have hcle : c ≤ bal db s0 e.caller := by rw [hceq]; exact hval.1
  have t1 : total L db s1 + c = total L db s0 := by
    have := sumOver_upd (bal db s0) (U256.saturatingSub (bal db s0 e.caller) c) hn hcL
    simp only [total, b1]; unfold U256.saturatingSub at this ⊢; omega
  -- products
  have hE := coinbaseGasPrice_le spec e
  generalize hEd : effectiveGasPrice e = E at *
  generalize hCd : coinbaseGasPrice spec e = C at *
  generalize hDd : dataFee spec e = D at *
  have hbp : burntPerGas spec e = E - C := by unfold burntPerGas; rw [hEd, hCd]
  rw [hbp]
  have p1 : E * (remaining + refunded) + E * (spent - refunded) = e.gasLimit * E := by
    rw [← Nat.mul_add, Nat.mul_comm]; congr 1; omega
  have p2 : C * (spent - refunded) + (E - C) * (spent - refunded) = E * (spent - refunded) := by
    rw [← Nat.add_mul]; congr 1; omega
  have hSum' : sumOver L (bal db s0) < W := hSum
  have hc0 := le_sumOver (bal db s0) hcL
  have hc2 := le_sumOver (bal db s2) hcL
  simp only [total] at t1 hexec hSum ⊢
  -- reimbursement
  unfold postExecution at hpost
  simp only [bind, Option.bind_eq_some_iff] at hpost
  obtain ⟨s2', hr, hpost⟩ := hpost
  obtain ⟨b2, _⟩ := reimburseCaller_bal hr
  have hR : reimbursement e remaining refunded = E * (remaining + refunded) := by
    unfold reimbursement
    rw [hEd, wadd64_eq (by omega), wmul_eq]
    generalize E * (remaining + refunded) = P1 at *
    generalize E * (spent - refunded) = P2 at *
    generalize e.gasLimit * E = P0 at *
    omega
  rw [hR] at b2
  generalize hP1 : E * (remaining + refunded) = P1 at *
  generalize hP2 : E * (spent - refunded) = P2 at *
  generalize hP3 : C * (spent - refunded) = P3 at *
  generalize hP4 : (E - C) * (spent - refunded) = P4 at *
  generalize hP0 : e.gasLimit * E = P0 at *
  have t2 : sumOver L (bal db s2') = sumOver L (bal db s2) + P1 := by
    have := sumOver_upd (bal db s2) (U256.saturatingAdd (bal db s2 e.caller) P1) hn hcL
    rw [satAdd_eq (by omega)] at this
    rw [b2, satAdd_eq (by omega)]; omega
  split at hpost
  · -- rewards enabled
    rename_i hrw
    obtain ⟨b3, _⟩ := rewardBeneficiary_bal hpost
    have hRw : reward spec e spent refunded = P3 := by
      unfold reward
      rw [hCd, wsub64_eq (by omega) hg2, wmul_eq (by omega), hP3]
    rw [hRw] at b3
    have hb2' := le_sumOver (bal db s2') hbL
    have := sumOver_upd (bal db s2') (U256.saturatingAdd (bal db s2' e.coinbase) P3) hn hbL
    rw [satAdd_eq (by omega)] at this
    rw [b3, satAdd_eq (by omega)]
    rw [if_pos hrw]
    omega
  · rename_i hrw
    cases hpost
    rw [if_neg hrw]
    omega


/-- the transaction-level law with the *local* no-saturation conditions instead of the bound on the
total (what the driver evaluates on the observed balances): the two credits fit in 256 bits -/
theorem tx_conserves_local {db : Db} {L : List Addr} {s0 s1 s2 s3 : JState} {spec : Nat} {e : FeeEnv}
    {rewards : Bool} {remaining spent refunded burntExec : Nat}
    (hn : L.Nodup) (hcL : e.caller ∈ L) (hbL : e.coinbase ∈ L)
    (hok0 : BalOk db s0)
    (hfitR : bal db s2 e.caller + specReimbursement e remaining refunded < W)
    (hfitC : bal db s2 e.coinbase + (if e.coinbase = e.caller then specReimbursement e remaining refunded else 0)
      + specReward spec e spent refunded < W)
    (hval : Validated db s0 spec e) (hgas : GasOk e remaining spent refunded)
    (hded : deductCaller db s0 spec e = some s1)
    (hexec : total L db s2 + burntExec = total L db s1)
    (hpost : postExecution db s2 spec e rewards remaining spent refunded = some s3) :
    total L db s3 + burntPerGas spec e * (spent - refunded) + dataFee spec e + burntExec
      + (if rewards then 0 else coinbaseGasPrice spec e * (spent - refunded)) = total L db s0 := by
  obtain ⟨hg1, hg2, hg3⟩ := hgas
  obtain ⟨c, hc, b1, _⟩ := deductCaller_bal hded
  have hceq := gasCost_validated hok0 hval hc
  have hcle : c ≤ bal db s0 e.caller := by rw [hceq]; exact hval.1
  have hb0 := hok0 e.caller
  have t1 : total L db s1 + c = total L db s0 := by
    have := sumOver_upd (bal db s0) (U256.saturatingSub (bal db s0 e.caller) c) hn hcL
    simp only [total, b1]; unfold U256.saturatingSub at this ⊢; omega
  have hE := coinbaseGasPrice_le spec e
  unfold specReimbursement at hfitR hfitC
  unfold specReward at hfitC
  generalize hEd : effectiveGasPrice e = E at *
  generalize hCd : coinbaseGasPrice spec e = C at *
  generalize hDd : dataFee spec e = D at *
  have hbp : burntPerGas spec e = E - C := by unfold burntPerGas; rw [hEd, hCd]
  rw [hbp]
  have p1 : E * (remaining + refunded) + E * (spent - refunded) = e.gasLimit * E := by
    rw [← Nat.mul_add, Nat.mul_comm]; congr 1; omega
  have p2 : C * (spent - refunded) + (E - C) * (spent - refunded) = E * (spent - refunded) := by
    rw [← Nat.add_mul]; congr 1; omega
  simp only [total] at t1 hexec ⊢
  unfold postExecution at hpost
  simp only [bind, Option.bind_eq_some_iff] at hpost
  obtain ⟨s2', hr, hpost⟩ := hpost
  obtain ⟨b2, _⟩ := reimburseCaller_bal hr
  have hR : reimbursement e remaining refunded = E * (remaining + refunded) := by
    unfold reimbursement
    rw [hEd, wadd64_eq (by omega), wmul_eq]
    generalize E * (remaining + refunded) = P1 at *
    generalize E * (spent - refunded) = P2 at *
    generalize e.gasLimit * E = P0 at *
    omega
  rw [hR] at b2
  generalize hP1 : E * (remaining + refunded) = P1 at *
  generalize hP2 : E * (spent - refunded) = P2 at *
  generalize hP3 : C * (spent - refunded) = P3 at *
  generalize hP4 : (E - C) * (spent - refunded) = P4 at *
  generalize hP0 : e.gasLimit * E = P0 at *
  have t2 : sumOver L (bal db s2') = sumOver L (bal db s2) + P1 := by
    have := sumOver_upd (bal db s2) (U256.saturatingAdd (bal db s2 e.caller) P1) hn hcL
    rw [satAdd_eq hfitR] at this
    rw [b2, satAdd_eq hfitR]; omega
  split at hpost
  · rename_i hrw
    obtain ⟨b3, _⟩ := rewardBeneficiary_bal hpost
    have hRw : reward spec e spent refunded = P3 := by
      unfold reward
      rw [hCd, wsub64_eq (by omega) hg2, wmul_eq (by omega), hP3]
    rw [hRw] at b3
    have hcb : bal db s2' e.coinbase + P3 < W := by
      rw [b2]
      by_cases h : e.coinbase = e.caller
      · rw [if_pos h] at hfitC
        rw [h] at hfitC ⊢
        rw [upd_same, satAdd_eq hfitR]; omega
      · rw [if_neg h] at hfitC
        rw [upd_other _ _ h]; omega
    have := sumOver_upd (bal db s2') (U256.saturatingAdd (bal db s2' e.coinbase) P3) hn hbL
    rw [satAdd_eq hcb] at this
    rw [b3, satAdd_eq hcb]
    rw [if_pos hrw]
    omega
  · rename_i hrw
    cases hpost
    rw [if_neg hrw]
    omega

theorem total_of_same {db : Db} {L : List Addr} {s s' : JState} (h : Same db s s') : total L db s' = total L db s := by
  simp only [total, h.1]

theorem total_of_absB {db : Db} {L : List Addr} {s s' : JState} (h : absB db s' = absB db s) :
    total L db s' = total L db s := by
  have : bal db s' = bal db s := congrArg BState.f h
  simp only [total, this]

/-- `make_create_frame` conserves on every path and needs no hypothesis about the endowment: its own
balance check is what makes the wrapping subtraction in `create_account_checkpoint` exact -/
theorem makeCreateFrame_conserves {db : Db} {L : List Addr} {s s' : JState} {caller created : Addr}
    {hs : Bool} {v spec : Nat} {r : CreateFrame} (hn : L.Nodup) (hc : caller ∈ L) (ha : created ∈ L)
    (h : makeCreateFrame db s caller created hs v spec = some (s', r)) : total L db s' = total L db s := by
  unfold makeCreateFrame at h
  simp only [bind, Option.bind_eq_some_iff] at h
  obtain ⟨⟨s1, c1⟩, h1, c, h2, h⟩ := h
  simp only [] at h2 h
  obtain ⟨e1, _⟩ := loadAccount_same (db := db) h1
  split at h
  · cases h; exact total_of_same e1
  · rename_i hfund
    simp only [Option.bind_eq_some_iff] at h
    obtain ⟨⟨s2, n⟩, h3, h⟩ := h
    simp only [] at h
    have e2 := incNonce_same (db := db) h3
    split at h
    · cases h; exact total_of_same (e1.trans e2)
    · simp only [Option.bind_eq_some_iff] at h
      obtain ⟨⟨s3, c3⟩, h4, ⟨s4, r4⟩, h5, h⟩ := h
      simp only [] at h5 h
      obtain ⟨e3, _⟩ := loadAccount_same (db := db) h4
      have e13 := (e1.trans e2).trans e3
      have hb : v ≤ bal db s3 caller := by
        rw [e13.1, ← e1.1, bal_some h2]; omega
      obtain ⟨k1, k2, _⟩ := create_refines (db := db) h5
      have hs4 : total L db s4 = total L db s := by
        cases r4 with
        | ok cp =>
          obtain ⟨_, e⟩ := k1 rfl
          have : bal db s4 = (bCreateOk (absB db s3) caller created v).f := congrArg BState.f e
          simp only [total, this]
          rw [bCreateOk_sum hn (absB db s3) hc ha (Or.inr hb)]
          exact total_of_same e13
        | error er =>
          rw [total_of_absB (k2 (by cases er <;> simp [createOutcome]))]
          exact total_of_same e13
      cases r4 with
      | ok cp => cases h; exact hs4
      | error er => cases er <;> (cases h; exact hs4)

end Revm.Proofs.Ether
