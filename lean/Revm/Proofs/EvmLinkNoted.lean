import Revm.Proofs.EvmLinkKeys
import Revm.Proofs.EvmLinkPay
/-! LINK, ether conservation (C08), the address list: every journal operation adds to the journal's state map at most
the accounts it names (`Keys`), and the `World` operations of EvmHost note exactly those in `World.addrs` — so the
accounts present in the journal are always among `World.addrs` (`Noted`), the finite list over which the conservation
law of the whole transaction can be stated. -/
set_option linter.unusedSimpArgs false
set_option linter.unusedVariables false
namespace Revm.Proofs.EvmLink
open Revm Revm.Model Revm.Model.Journal

/-- the accounts present in `s'` were present in `s` or are in `l` -/
def Keys (s s' : JState) (l : List Addr) : Prop := ∀ x, s'.state x ≠ none → s.state x ≠ none ∨ x ∈ l

theorem Keys.refl (s : JState) : Keys s s [] := fun _ h => Or.inl h
theorem Keys.mono {s s' : JState} {l l' : List Addr} (h : Keys s s' l) (hl : ∀ x ∈ l, x ∈ l') : Keys s s' l' :=
  fun x hx => (h x hx).imp id (hl x)
theorem Keys.trans {a b c : JState} {l1 l2 : List Addr} (h1 : Keys a b l1) (h2 : Keys b c l2) : Keys a c (l1 ++ l2) :=
  fun x hx => by
    rcases h2 x hx with h | h
    · exact (h1 x h).imp id (fun m => List.mem_append_left _ m)
    · exact Or.inr (List.mem_append_right _ h)
/-- composing with a step that adds nothing -/
theorem Keys.trans0 {a b c : JState} {l : List Addr} (h1 : Keys a b l) (h2 : Keys b c []) : Keys a c l :=
  (h1.trans h2).mono (by simp)
theorem Keys.of_state_eq {s s' : JState} (h : s'.state = s.state) : Keys s s' [] := fun x hx => Or.inl (by rw [← h]; exact hx)

theorem Keys.setAcct (s : JState) (a : Addr) (acc : Acct) : Keys s (setAcct s a acc) [a] := by
  intro x hx
  by_cases h : x = a
  · exact Or.inr (by rw [h]; exact List.mem_singleton.mpr rfl)
  · left; simpa [Journal.setAcct, h] using hx

theorem Keys.setAcct_present {s : JState} {a : Addr} (acc : Acct) (hp : s.state a ≠ none) :
    Keys s (Journal.setAcct s a acc) [] := by
  intro x hx
  by_cases h : x = a
  · left; rw [h]; exact hp
  · left; simpa [Journal.setAcct, h] using hx

theorem keys_pushEntry {s s' : JState} {e : Entry} (h : pushEntry s e = some s') : Keys s s' [] := by
  unfold pushEntry at h
  split at h
  · cases h
  · simp only [Option.some.injEq] at h; rw [← h]; exact Keys.of_state_eq rfl

theorem keys_touchAccount {s s' : JState} {a : Addr} {acc acc' : Acct} (hp : s.state a ≠ none)
    (h : touchAccount s a acc = some (s', acc')) : Keys s s' [] := by
  unfold touchAccount at h
  split at h
  · simp only [bind, Option.bind_eq_some_iff] at h
    obtain ⟨s1, h1, h2⟩ := h
    simp only [Option.some.injEq, Prod.mk.injEq] at h2
    rw [← h2.1]
    exact (keys_pushEntry h1).trans0 (Keys.setAcct_present _ (kle_pushEntry h1 _ hp))
  · simp only [Option.some.injEq, Prod.mk.injEq] at h
    rw [← h.1]; exact Keys.refl _

theorem keys_loadAccount {db : Db} {s s' : JState} {a : Addr} {c : Bool} (h : loadAccount db s a = some (s', c)) :
    Keys s s' [a] := by
  have key : ∀ acc0 : Acct, ∀ b : Bool,
      (if b = true then Option.map (fun x => (x, true)) (pushEntry (Journal.setAcct s a acc0) (Entry.accountWarmed a))
        else some (Journal.setAcct s a acc0, false)) = some (s', c) → Keys s s' [a] := by
    intro acc0 b h
    split at h
    · simp only [Option.map_eq_some_iff, Prod.mk.injEq] at h
      obtain ⟨s2, hp, rfl, _⟩ := h
      exact (Keys.setAcct s a acc0).trans0 (keys_pushEntry hp)
    · simp only [Option.some.injEq, Prod.mk.injEq] at h
      rw [← h.1]; exact Keys.setAcct s a acc0
  unfold loadAccount at h
  split at h
  · exact key _ _ h
  · exact key _ _ h

theorem keys_loadCode {db : Db} {s s' : JState} {a : Addr} {c : Bool} (h : loadCode db s a = some (s', c)) :
    Keys s s' [a] := by
  unfold loadCode at h
  simp only [bind, Option.bind_eq_some_iff] at h
  obtain ⟨⟨s1, c1⟩, h1, acc, h2, h⟩ := h
  simp only [] at h2 h
  have k1 := keys_loadAccount h1
  split at h
  · simp only [Option.some.injEq, Prod.mk.injEq] at h
    rw [← h.1]; exact k1.trans0 (Keys.setAcct_present _ (present_of_some h2))
  · simp only [Option.some.injEq, Prod.mk.injEq] at h
    rw [← h.1]; exact k1

/-- `load_account_delegated`: the account, and the delegate its code names -/
theorem keys_loadAccountDelegated {db : Db} {s s' : JState} {a : Addr} {e c : Bool} {d : Option Bool}
    (h : loadAccountDelegated db s a = some (s', e, c, d)) :
    Keys s s' (a :: (match (s'.state a).bind (fun acc => acc.info.code.bind db.delegate) with
      | some t => [t] | none => [])) := by
  unfold loadAccountDelegated at h
  simp only [bind, Option.bind_eq_some_iff] at h
  obtain ⟨⟨s1, c1⟩, h1, acc, h2, h⟩ := h
  simp only [] at h2 h
  have k1 := keys_loadCode h1
  cases hd : Option.bind acc.info.code db.delegate with
  | none =>
    rw [hd] at h
    simp only [Option.some.injEq, Prod.mk.injEq] at h
    rw [← h.1]
    exact k1.mono (fun x hx => List.mem_cons.mpr (Or.inl (List.mem_singleton.mp hx)))
  | some t =>
    rw [hd] at h
    simp only [Option.bind_eq_some_iff] at h
    obtain ⟨⟨s2, c2⟩, h3, h⟩ := h
    simp only [Option.some.injEq, Prod.mk.injEq] at h
    rw [← h.1]
    have hinfo : HasInfo s2 a acc.info := by
      by_cases hat : a = t
      · subst hat; exact loadAccount_info (info := acc.info) h3 ⟨acc, h2, rfl⟩
      · exact ⟨acc, by rw [loadAccount_state_ne h3 a hat]; exact h2, rfl⟩
    obtain ⟨acc2, hs2, hi2⟩ := hinfo
    have : (s2.state a).bind (fun acc => acc.info.code.bind db.delegate) = some t := by
      rw [hs2]; show acc2.info.code.bind db.delegate = some t; rw [hi2]; exact hd
    rw [this]
    exact (k1.trans (keys_loadAccount h3)).mono (by simp)

theorem keys_touch {s s' : JState} {a : Addr} (h : touch s a = some s') : Keys s s' [] := by
  unfold touch at h
  split at h
  · rename_i acc hs
    simp only [Option.map_eq_some_iff] at h
    obtain ⟨⟨s1, acc1⟩, h1, rfl⟩ := h
    exact keys_touchAccount (present_of_some hs) h1
  · simp only [Option.some.injEq] at h; rw [← h]; exact Keys.refl _

theorem keys_transfer {db : Db} {s s' : JState} {src dst v : Nat} {r} (h : transfer db s src dst v = some (s', r)) :
    Keys s s' [src, dst] := by
  simp only [transfer, bind, Option.bind_eq_some_iff] at h
  obtain ⟨⟨s1, c1⟩, h1, ⟨s2, c2⟩, h2, fa, h3, ⟨s3, fa'⟩, h4, h5⟩ := h
  obtain ⟨kl1, p1⟩ := kle_loadAccount h1
  obtain ⟨kl2, p2⟩ := kle_loadAccount h2
  have k02 : Keys s s2 [src, dst] := ((keys_loadAccount h1).trans (keys_loadAccount h2)).mono (by simp)
  have ps2 : s2.state src ≠ none := present_of_some h3
  have k03 : Keys s s3 [src, dst] := k02.trans0 (keys_touchAccount ps2 h4)
  have kl3 := kle_touchAccount h4
  have ps : s3.state src ≠ none := kl3 _ ps2
  have pd : s3.state dst ≠ none := kl3 _ p2
  split at h5
  · simp only [Option.some.injEq, Prod.mk.injEq] at h5
    rw [← h5.1]; exact k03
  · simp only [Option.bind_eq_some_iff] at h5
    obtain ⟨ta, h6, ⟨s4, ta'⟩, h7, h8⟩ := h5
    have k34 : Keys s3 s4 [] :=
      ((Keys.setAcct_present _ ps).trans0 (keys_touchAccount (present_of_some h6) h7))
    have kl4 : KLe s3 s4 := (KLe.setAcct _ _ _).trans (kle_touchAccount h7)
    split at h8
    · simp only [Option.bind_eq_some_iff] at h8
      obtain ⟨f, hf, h9⟩ := h8
      simp only [Option.some.injEq, Prod.mk.injEq] at h9
      rw [← h9.1]
      exact (k03.trans0 k34).trans0 (Keys.setAcct_present _ (present_of_some hf))
    · simp only [Option.bind_eq_some_iff] at h8
      obtain ⟨s5, h9, h10⟩ := h8
      simp only [Option.some.injEq, Prod.mk.injEq] at h10
      rw [← h10.1]
      exact ((k03.trans0 k34).trans0 (Keys.setAcct_present _ (kl4 _ pd))).trans0 (keys_pushEntry h9)

theorem keys_incNonce {s s' : JState} {a : Addr} {r : Option Nat} (h : incNonce s a = some (s', r)) : Keys s s' [] := by
  simp only [incNonce, bind, Option.bind_eq_some_iff] at h
  obtain ⟨acc, h1, h⟩ := h
  split at h
  · simp only [Option.some.injEq, Prod.mk.injEq] at h; rw [← h.1]; exact Keys.refl _
  · simp only [Option.bind_eq_some_iff] at h
    obtain ⟨⟨s1, acc1⟩, h2, s2, h3, h4⟩ := h
    simp only [Option.some.injEq, Prod.mk.injEq] at h4
    rw [← h4.1]
    have p := present_of_some h1
    exact ((keys_touchAccount p h2).trans0 (keys_pushEntry h3)).trans0
      (Keys.setAcct_present _ (kle_pushEntry h3 _ (kle_touchAccount h2 _ p)))

theorem keys_setCode {s s' : JState} {a : Addr} {hash : Nat} (h : setCode s a hash = some s') : Keys s s' [] := by
  simp only [setCode, bind, Option.bind_eq_some_iff] at h
  obtain ⟨acc, h1, ⟨s1, acc1⟩, h3, s2, h4, h5⟩ := h
  simp only [Option.some.injEq] at h5
  rw [← h5]
  have p := present_of_some h1
  exact ((keys_touchAccount p h3).trans0 (keys_pushEntry h4)).trans0
    (Keys.setAcct_present _ (kle_pushEntry h4 _ (kle_touchAccount h3 _ p)))

theorem keys_sload {db : Db} {s s' : JState} {a k v : Nat} {c : Bool} (h : sload db s a k = some (s', v, c)) :
    Keys s s' [] := by
  simp only [sload, bind, Option.bind_eq_some_iff] at h
  obtain ⟨acc, h1, h⟩ := h
  have p := present_of_some h1
  split at h
  · split at h
    · simp only [Option.map_eq_some_iff, Prod.mk.injEq] at h
      obtain ⟨s2, hp, rfl, _⟩ := h
      exact (Keys.setAcct_present _ p).trans0 (keys_pushEntry hp)
    · simp only [Option.some.injEq, Prod.mk.injEq] at h
      rw [← h.1]; exact Keys.setAcct_present _ p
  · simp only [Option.map_eq_some_iff, Prod.mk.injEq] at h
    obtain ⟨s2, hp, rfl, _⟩ := h
    exact (Keys.setAcct_present _ p).trans0 (keys_pushEntry hp)

theorem keys_sstore {db : Db} {s s' : JState} {a k new o p n : Nat} {c : Bool}
    (h : sstore db s a k new = some (s', o, p, n, c)) : Keys s s' [] := by
  simp only [sstore, bind, Option.bind_eq_some_iff] at h
  obtain ⟨⟨s1, pr, ic⟩, h1, acc, h2, sl, h3, h⟩ := h
  have k1 := keys_sload h1
  split at h
  · simp only [Option.some.injEq, Prod.mk.injEq] at h
    rw [← h.1]; exact k1
  · simp only [Option.bind_eq_some_iff] at h
    obtain ⟨s2, h4, h5⟩ := h
    simp only [Option.some.injEq, Prod.mk.injEq] at h5
    rw [← h5.1]
    exact (k1.trans0 (keys_pushEntry h4)).trans0
      (Keys.setAcct_present _ (kle_pushEntry h4 _ (present_of_some h2)))

theorem keys_tstore {s s' : JState} {a k v : Nat} (h : tstore s a k v = some s') : Keys s s' [] := by
  unfold tstore at h
  split at h
  · split at h
    · exact (Keys.of_state_eq (s := s) (s' := setTransient s a k none) rfl).trans0 (keys_pushEntry h)
    · simp only [Option.some.injEq] at h; rw [← h]; exact Keys.refl _
  · simp only at h
    split at h
    · exact (Keys.of_state_eq (s := s) (s' := setTransient s a k (some v)) rfl).trans0 (keys_pushEntry h)
    · simp only [Option.some.injEq] at h; rw [← h]; exact Keys.of_state_eq rfl

theorem keys_selfdestruct {db : Db} {s s' : JState} {a t : Nat} {r} (h : selfdestruct db s a t = some (s', r)) :
    Keys s s' [t] := by
  simp only [selfdestruct, bind, Option.bind_eq_some_iff] at h
  obtain ⟨⟨s1, c1⟩, h1, tacc, h2, s2, h3, acc, h4, s3, h5, h6⟩ := h
  have k1 := keys_loadAccount h1
  have k2 : Keys s1 s2 [] := by
    split at h3
    · simp only [Option.bind_eq_some_iff] at h3
      obtain ⟨acc0, _, t0, ht0, ⟨s4, t1⟩, h7, h8⟩ := h3
      simp only [Option.some.injEq] at h8
      rw [← h8]
      have p := present_of_some ht0
      exact (keys_touchAccount p h7).trans0 (Keys.setAcct_present _ (kle_touchAccount h7 _ p))
    · simp only [Option.some.injEq] at h3; rw [← h3]; exact Keys.refl _
  have pa : s2.state a ≠ none := present_of_some h4
  have k3 : Keys s2 s3 [] := by
    split at h5
    · exact (Keys.setAcct_present _ pa).trans0 (keys_pushEntry h5)
    · split at h5
      · exact (Keys.setAcct_present _ pa).trans0 (keys_pushEntry h5)
      · simp only [Option.some.injEq] at h5; rw [← h5]; exact Keys.refl _
  simp only [Option.some.injEq, Prod.mk.injEq] at h6
  rw [← h6.1]
  exact (k1.trans0 k2).trans0 k3

/-! ## undo -/

theorem keys_undoEntry {sd : Bool} {s s' : JState} {e : Entry} (h : undoEntry sd s e = some s') : Keys s s' [] := by
  cases e <;> simp only [undoEntry, bind, Option.bind_eq_some_iff] at h
  case accountWarmed a =>
    obtain ⟨acc, h1, h2⟩ := h
    simp only [Option.some.injEq] at h2; rw [← h2]; exact Keys.setAcct_present _ (present_of_some h1)
  case accountTouched a =>
    split at h
    · simp only [Option.some.injEq] at h; rw [← h]; exact Keys.refl _
    · simp only [Option.bind_eq_some_iff] at h
      obtain ⟨acc, h1, h2⟩ := h
      simp only [Option.some.injEq] at h2; rw [← h2]; exact Keys.setAcct_present _ (present_of_some h1)
  case accountDestroyed a target wd had =>
    obtain ⟨acc, h1, h2⟩ := h
    have k1 := Keys.setAcct_present (s := s) (a := a)
      { acc with selfdestructed := wd, info := { acc.info with balance := U256.wadd acc.info.balance had } }
      (present_of_some h1)
    split at h2
    · simp only [Option.bind_eq_some_iff] at h2
      obtain ⟨t, h3, h4⟩ := h2
      simp only [Option.some.injEq] at h4; rw [← h4]
      exact k1.trans0 (Keys.setAcct_present _ (present_of_some h3))
    · simp only [Option.some.injEq] at h2; rw [← h2]; exact k1
  case balanceTransfer src dst b =>
    obtain ⟨f, h1, t, h3, h4⟩ := h
    simp only [Option.some.injEq] at h4; rw [← h4]
    exact (Keys.setAcct_present _ (present_of_some h1)).trans0 (Keys.setAcct_present _ (present_of_some h3))
  case nonceChange a =>
    obtain ⟨acc, h1, h2⟩ := h
    simp only [Option.some.injEq] at h2; rw [← h2]; exact Keys.setAcct_present _ (present_of_some h1)
  case accountCreated a =>
    obtain ⟨acc, h1, h2⟩ := h
    simp only [Option.some.injEq] at h2; rw [← h2]; exact Keys.setAcct_present _ (present_of_some h1)
  case storageWarmed a k =>
    obtain ⟨acc, h1, sl, _, h2⟩ := h
    simp only [Option.some.injEq] at h2; rw [← h2]; exact Keys.setAcct_present _ (present_of_some h1)
  case storageChanged a k had =>
    obtain ⟨acc, h1, sl, _, h2⟩ := h
    simp only [Option.some.injEq] at h2; rw [← h2]; exact Keys.setAcct_present _ (present_of_some h1)
  case transientChange a k had =>
    simp only [Option.some.injEq] at h; rw [← h]; exact Keys.of_state_eq rfl
  case codeChange a =>
    obtain ⟨acc, h1, h2⟩ := h
    simp only [Option.some.injEq] at h2; rw [← h2]; exact Keys.setAcct_present _ (present_of_some h1)

theorem keys_undoLevel {sd : Bool} : ∀ (es : List Entry) {s s' : JState}, undoLevel sd s es = some s' → Keys s s' []
  | [], s, s', h => by simp only [undoLevel, Option.some.injEq] at h; rw [← h]; exact Keys.refl _
  | e :: es, s, s', h => by
    simp only [undoLevel, bind, Option.bind_eq_some_iff] at h
    obtain ⟨s1, h1, h2⟩ := h
    exact (keys_undoEntry h1).trans0 (keys_undoLevel es h2)

theorem keys_undoLevels {sd : Bool} : ∀ (ls : List (List Entry)) {s s' : JState},
    undoLevels sd s ls = some s' → Keys s s' []
  | [], s, s', h => by simp only [undoLevels, Option.some.injEq] at h; rw [← h]; exact Keys.refl _
  | l :: ls, s, s', h => by
    simp only [undoLevels, bind, Option.bind_eq_some_iff] at h
    obtain ⟨s1, h1, h2⟩ := h
    exact (keys_undoLevel l h1).trans0 (keys_undoLevels ls h2)

theorem keys_revert {s s' : JState} {cp : Checkpoint} (h : revert s cp = some s') : Keys s s' [] := by
  unfold revert at h
  simp only at h
  split at h
  · cases h
  · split at h
    · cases h
    · rename_i s1 hu
      simp only [Option.some.injEq] at h
      rw [← h]
      exact (keys_undoLevels _ hu).trans0 (Keys.of_state_eq rfl)

theorem keys_createAccountCheckpoint {s s' : JState} {caller a : Nat} {hs : Bool} {v spec : Nat} {r}
    (h : createAccountCheckpoint s caller a hs v spec = some (s', r)) : Keys s s' [] := by
  simp only [createAccountCheckpoint, bind, Option.bind_eq_some_iff] at h
  obtain ⟨acc, h1, h⟩ := h
  have k0 : Keys s (checkpoint s).1 [] := Keys.of_state_eq rfl
  have p0 : (checkpoint s).1.state a ≠ none := present_of_some h1
  split at h
  · simp only [Option.bind_eq_some_iff] at h
    obtain ⟨s1, hr, h2⟩ := h
    simp only [Option.some.injEq, Prod.mk.injEq] at h2
    rw [← h2.1]; exact k0.trans0 (keys_revert hr)
  · simp only [Option.bind_eq_some_iff] at h
    obtain ⟨s1, hp1, ⟨s2, acc2⟩, ht, h⟩ := h
    have k1 : Keys (checkpoint s).1 s1 [] := (Keys.setAcct_present _ p0).trans0 (keys_pushEntry hp1)
    have kl1 : KLe (checkpoint s).1 s1 := (KLe.setAcct _ _ _).trans (kle_pushEntry hp1)
    have p1 : s1.state a ≠ none := kl1 _ p0
    have p1' := present_setAcct s1 a { acc with created := true, info := { acc.info with code := none } }
    have k2 : Keys s1 s2 [] := (Keys.setAcct_present _ p1).trans0 (keys_touchAccount p1' ht)
    have kl2 : KLe s1 s2 := (KLe.setAcct _ _ _).trans (kle_touchAccount ht)
    split at h
    · simp only [Option.bind_eq_some_iff] at h
      obtain ⟨s3, hr, h2⟩ := h
      simp only [Option.some.injEq, Prod.mk.injEq] at h2
      rw [← h2.1]; exact ((k0.trans0 k1).trans0 k2).trans0 (keys_revert hr)
    · simp only [Option.bind_eq_some_iff] at h
      obtain ⟨c, hc, s4, hp4, h2⟩ := h
      simp only [Option.some.injEq, Prod.mk.injEq] at h2
      rw [← h2.1]
      have p2 : s2.state a ≠ none := kl2 _ p1
      refine ((((k0.trans0 k1).trans0 k2).trans0 (Keys.setAcct_present _ p2)).trans0
        (Keys.setAcct_present _ (present_of_some hc))).trans0 (keys_pushEntry hp4)

theorem keys_initialAccountLoad (db : Db) (s : JState) (a : Addr) (ks : List Nat) :
    Keys s (initialAccountLoad db s a ks) [a] := by
  unfold initialAccountLoad; exact Keys.setAcct _ _ _

end Revm.Proofs.EvmLink

namespace Revm.Proofs.EvmLink
open Revm Revm.Model Revm.Model.Evm

/-! ## the world's address list -/

/-- every account present in the journal has been noted -/
def Noted (w : World) : Prop := ∀ a, w.js.state a ≠ none → a ∈ w.addrs

/-- from `w` to `w'` the address list only grows, and every account that became present was noted -/
structure NGrow (w w' : World) : Prop where
  addrs : ∀ a ∈ w.addrs, a ∈ w'.addrs
  keys : ∀ x, w'.js.state x ≠ none → w.js.state x ≠ none ∨ x ∈ w'.addrs

theorem NGrow.refl (w : World) : NGrow w w := ⟨fun _ h => h, fun _ h => Or.inl h⟩
theorem NGrow.trans {a b c : World} (h1 : NGrow a b) (h2 : NGrow b c) : NGrow a c :=
  ⟨fun x hx => h2.addrs x (h1.addrs x hx), fun x hx => by
    rcases h2.keys x hx with h | h
    · exact (h1.keys x h).imp id (h2.addrs x)
    · exact Or.inr h⟩
theorem NGrow.noted {w w' : World} (h : NGrow w w') (hn : Noted w) : Noted w' := fun a ha => by
  rcases h.keys a ha with h1 | h1
  · exact h.addrs a (hn a h1)
  · exact h1

theorem NGrow.of_keys {w w' : World} {l : List Nat} (hk : Keys w.js w'.js l) (ha : ∀ a ∈ w.addrs, a ∈ w'.addrs)
    (hl : ∀ x ∈ l, x ∈ w'.addrs) : NGrow w w' :=
  ⟨ha, fun x hx => (hk x hx).imp id (hl x)⟩

/-- only the journal changed, and it got no new account -/
theorem NGrow.of_js {w : World} {js : Journal.JState} (hk : Keys w.js js []) : NGrow w { w with js := js } :=
  NGrow.of_keys hk (fun _ h => h) (fun x hx => nomatch hx)

theorem mem_noteAddr_self (w : World) (a : Nat) : a ∈ (w.noteAddr a).addrs := by
  unfold World.noteAddr
  split
  · rename_i h; exact List.contains_iff_mem.mp h
  · exact List.mem_cons_self ..

theorem mem_noteAddr_of_mem (w : World) (a : Nat) {x : Nat} (h : x ∈ w.addrs) : x ∈ (w.noteAddr a).addrs := by
  unfold World.noteAddr
  split
  · exact h
  · exact List.mem_cons_of_mem _ h

theorem noteSlot_addrs (w : World) (a k : Nat) : (w.noteSlot a k).addrs = w.addrs := by
  unfold World.noteSlot; split <;> rfl

theorem addCode_addrs (w : World) (h : Nat) (c : List Nat) : (w.addCode h c).addrs = w.addrs := by
  unfold World.addCode
  split
  · rfl
  · split <;> rfl

theorem NGrow.noteAddr {w w' : World} (h : NGrow w w') (a : Nat) : NGrow w (w'.noteAddr a) :=
  ⟨fun x hx => mem_noteAddr_of_mem _ _ (h.addrs x hx), fun x hx => by
    rw [Proofs.EvmHost.noteAddr_js] at hx
    exact (h.keys x hx).imp id (mem_noteAddr_of_mem _ _)⟩

theorem NGrow.noteSlot {w w' : World} (h : NGrow w w') (a k : Nat) : NGrow w (w'.noteSlot a k) :=
  ⟨fun x hx => by rw [noteSlot_addrs]; exact h.addrs x hx, fun x hx => by
    rw [Proofs.EvmHost.noteSlot_js] at hx
    rw [noteSlot_addrs]; exact h.keys x hx⟩

/-- a journal step that adds at most `a`, followed by noting `a` -/
theorem NGrow.of_js_note {w : World} {js : Journal.JState} {a : Nat} (hk : Keys w.js js [a]) :
    NGrow w ({ w with js := js }.noteAddr a) :=
  NGrow.of_keys (by rw [Proofs.EvmHost.noteAddr_js]; exact hk) (fun x hx => mem_noteAddr_of_mem _ _ hx)
    (fun x hx => by rw [List.mem_singleton.mp hx]; exact mem_noteAddr_self _ _)

theorem ng_loadAccount {w w1 : World} {a : Nat} {c : Bool} (h : w.loadAccount a = .ok (w1, c)) : NGrow w w1 := by
  unfold World.loadAccount at h
  obtain ⟨⟨js, c'⟩, h1, h2⟩ := bind_ok h
  simp only [pure, Except.pure, Except.ok.injEq, Prod.mk.injEq] at h2
  rw [← h2.1]
  exact NGrow.of_js_note (keys_loadAccount (Proofs.EvmHost.ofOpt_ok h1))

theorem ng_loadCode {w w1 : World} {a : Nat} {c : Bool} (h : w.loadCode a = .ok (w1, c)) : NGrow w w1 := by
  unfold World.loadCode at h
  obtain ⟨⟨js, c'⟩, h1, h2⟩ := bind_ok h
  simp only [pure, Except.pure, Except.ok.injEq, Prod.mk.injEq] at h2
  rw [← h2.1]
  exact NGrow.of_js_note (keys_loadCode (Proofs.EvmHost.ofOpt_ok h1))

theorem ng_loadAccountDelegated {w w1 : World} {a : Nat} {r} (h : w.loadAccountDelegated a = .ok (w1, r)) :
    NGrow w w1 := by
  unfold World.loadAccountDelegated at h
  obtain ⟨⟨js, ie, c, dc⟩, h1, h2⟩ := bind_ok h
  simp only [pure, Except.pure, Except.ok.injEq, Prod.mk.injEq] at h2
  rw [← h2.1]
  have hk := keys_loadAccountDelegated (Proofs.EvmHost.ofOpt_ok h1)
  have hdb : ({ w with js := js }.noteAddr a).db = w.db := by rw [Proofs.EvmHost.noteAddr_db]; rfl
  rw [hdb]
  cases hd : (js.state a).bind (fun acc => acc.info.code.bind w.db.delegate) with
  | none =>
    rw [hd] at hk
    simp only
    exact NGrow.of_js_note hk
  | some d =>
    rw [hd] at hk
    simp only
    refine NGrow.of_keys (by rw [Proofs.EvmHost.noteAddr_js, Proofs.EvmHost.noteAddr_js]; exact hk)
      (fun x hx => mem_noteAddr_of_mem _ _ (mem_noteAddr_of_mem _ _ hx)) (fun x hx => ?_)
    simp only [List.mem_cons, List.mem_singleton, List.not_mem_nil, or_false] at hx
    rcases hx with rfl | rfl
    · exact mem_noteAddr_of_mem _ _ (mem_noteAddr_self _ _)
    · exact mem_noteAddr_self _ _

theorem ng_touch {w w1 : World} {a : Nat} (h : w.touch a = .ok w1) : NGrow w w1 := by
  unfold World.touch at h
  obtain ⟨js, h1, h2⟩ := bind_ok h
  simp only [pure, Except.pure, Except.ok.injEq] at h2
  subst h2
  exact NGrow.of_js (keys_touch (Proofs.EvmHost.ofOpt_ok h1))

theorem ng_transfer {w w1 : World} {src dst v : Nat} {r} (h : w.transfer src dst v = .ok (w1, r)) : NGrow w w1 := by
  unfold World.transfer at h
  obtain ⟨⟨js, e⟩, h1, h2⟩ := bind_ok h
  simp only [pure, Except.pure, Except.ok.injEq, Prod.mk.injEq] at h2
  rw [← h2.1]
  refine NGrow.of_keys (by rw [Proofs.EvmHost.noteAddr_js, Proofs.EvmHost.noteAddr_js]
                           exact keys_transfer (Proofs.EvmHost.ofOpt_ok h1))
    (fun x hx => mem_noteAddr_of_mem _ _ (mem_noteAddr_of_mem _ _ hx)) (fun x hx => ?_)
  simp only [List.mem_cons, List.mem_singleton, List.not_mem_nil, or_false] at hx
  rcases hx with rfl | rfl
  · exact mem_noteAddr_of_mem _ _ (mem_noteAddr_self _ _)
  · exact mem_noteAddr_self _ _

theorem ng_checkpoint (w : World) : NGrow w w.checkpoint.1 := NGrow.of_js (Keys.of_state_eq rfl)
theorem ng_commit (w : World) : NGrow w w.commit := NGrow.of_js (Keys.of_state_eq rfl)

theorem ng_revert {w w1 : World} {cp : Journal.Checkpoint} (h : w.revert cp = .ok w1) : NGrow w w1 := by
  unfold World.revert at h
  obtain ⟨js, h1, h2⟩ := bind_ok h
  simp only [pure, Except.pure, Except.ok.injEq] at h2
  subst h2
  exact NGrow.of_js (keys_revert (Proofs.EvmHost.ofOpt_ok h1))

theorem ng_addCode (w : World) (h : Nat) (c : List Nat) : NGrow w (w.addCode h c) :=
  ⟨fun x hx => by rw [addCode_addrs]; exact hx, fun x hx => by rw [addCode_js] at hx; exact Or.inl hx⟩

/-- rewriting a present account -/
theorem ng_setAcct {w : World} {a : Nat} (acc : Journal.Acct) (hp : w.js.state a ≠ none) :
    NGrow w { w with js := Journal.setAcct w.js a acc } := NGrow.of_js (Keys.setAcct_present _ hp)

end Revm.Proofs.EvmLink
