import Revm.Proofs.EvmRefineHost
import Revm.Proofs.EvmSim
/-! The `callFrame` obligation of the simulation: `make_call_frame` of the journal machine vs the snapshot machine. -/
set_option linter.unusedSimpArgs false
set_option linter.unusedVariables false
namespace Revm.Proofs.EvmRefine
open Revm Revm.Model Revm.Model.Journal Revm.Spec.JournalAbs Revm.Proofs.Journal Revm.Proofs.Frame
open Revm.Model.Evm
open Revm.Spec.Evm (Snap snapshotOps)
open Revm.Proofs.EvmSim (ForRel FrameRel)

/-- the value step of `make_call_frame` -/
def callValueStep (w : World) (i : Interp.CallInputs) : R (World × Option Interp.IResult) :=
  if i.valueTransfer then
    if i.value = 0 then do
      let (w, _) ← w.loadAccount i.targetAddress
      let w ← w.touch i.targetAddress
      pure (w, none)
    else do
      let (w, e) ← w.transfer i.caller i.targetAddress i.value
      match e with
      | none => pure (w, none)
      | some .outOfFunds => pure (w, some .OutOfFunds)
      | some .overflowPayment => pure (w, some .OverflowPayment)
  else pure (w, none)

/-- `make_call_frame` after the precompile dispatch: load the code, build the interpreter -/
def callCode {κ : Type} (C : CpOps κ) (cfg : Cfg) (w : World) (cp : κ) (i : Interp.CallInputs)
    (mem : Memory.SharedMemory) : R (FrameOrResult κ × World) := do
  let (w, _) ← w.loadCode i.bytecodeAddress
  let acc ← w.acct i.bytecodeAddress
  let h ← ofOpt "code not cached" acc.info.code
  let bytecode ← ofOpt "code_by_hash" (w.codeOf h)
  if bytecode.isEmpty then
    return (.result (earlyResult .Stop i.gasLimit), C.commit w)
  let (w, bytecode) ← (match delegateOf bytecode with
    | some d => do
      let (w, _) ← w.loadCode d
      let dacc ← w.acct d
      let dh ← ofOpt "code not cached" dacc.info.code
      let dcode ← ofOpt "code_by_hash" (w.codeOf dh)
      pure (w, dcode)
    | none => pure (w, bytecode) : R (World × List Nat))
  let interp := Interp.IState.init bytecode i.input i.gasLimit i.isStatic cfg.spec i.targetAddress i.caller i.value
    cfg.env (Memory.newContext mem)
  pure (.frame { kind := .call i.retStart i.retEnd, checkpoint := cp, interp := interp }, w)

/-- the precompile dispatch of `make_call_frame` -/
def callPrecompile {κ : Type} (C : CpOps κ) (cfg : Cfg) (w : World) (cp : κ) (i : Interp.CallInputs)
    (mem : Memory.SharedMemory) : R (FrameOrResult κ × World) := do
  if let some res ← runPrecompile w cfg.spec i.bytecodeAddress i.input i.gasLimit then
    match res with
    | .ok gasUsed out =>
      if gasUsed ≤ i.gasLimit then
        return (.result { result := .Return, output := out, gasRemaining := i.gasLimit - gasUsed, gasRefunded := 0 },
                C.commit w)
      else
        let w ← C.revert w cp
        return (.result (earlyResult .PrecompileOOG i.gasLimit), w)
    | .err e =>
      let w ← C.revert w cp
      return (.result (earlyResult (if e = .OutOfGas then .PrecompileOOG else .PrecompileError) i.gasLimit), w)
    | .panic => throw (.panic "precompile")
  callCode C cfg w cp i mem

theorem makeCallFrame_eq {κ : Type} (C : CpOps κ) (cfg : Cfg) (w : World) (i : Interp.CallInputs)
    (mem : Memory.SharedMemory) :
    makeCallFrame C cfg w i mem = (do
      if w.js.depth > CALL_STACK_LIMIT then return (.result (earlyResult .CallTooDeep i.gasLimit), w)
      let (w, _) ← w.loadAccountDelegated i.bytecodeAddress
      let (w, cp) := C.checkpoint w
      let (w, failed) ← callValueStep w i
      if let some r := failed then
        let w ← C.revert w cp
        return (.result (earlyResult r i.gasLimit), w)
      callPrecompile C cfg w cp i mem) := rfl

variable {ks1 : List Checkpoint} {ks2 : List Snap} {w1 w2 : World}

/-- a subroutine opens -/
theorem checkpoint_rel (h : CfgRel ks1 w1 ks2 w2) :
    CfgRel ((World.checkpoint w1).2 :: ks1) (World.checkpoint w1).1 ((Spec.Evm.checkpoint w2).2 :: ks2)
      (Spec.Evm.checkpoint w2).1 := by
  obtain ⟨hw, hlen, ⟨cps, hch⟩, hsn⟩ := h
  refine ⟨?_, by simpa using hlen, ⟨cps ++ [(Journal.checkpoint w1.js).2], ?_⟩, ?_⟩
  · refine ⟨?_, hw.pre, hw.codes, hw.logs, hw.pc, hw.hs1, hw.hs2, hw.pres, hw.bal⟩
    show JRel (dbPre w1.pre) (Journal.checkpoint w1.js).1 { w2.js with depth := incU64 w2.js.depth }
    refine ⟨hw.rel.ent, hw.rel.tr, hw.rel.logs, ?_, hw.rel.spec, hw.rel.pre, by simp [Journal.checkpoint], hw.rel.sne,
      hw.rel.cj, hw.rel.cs⟩
    show incU64 w1.js.depth = incU64 w2.js.depth
    rw [hw.rel.depth]
  · exact hch.open_ w2.js hw.rel
  · exact ⟨rfl, rfl, rfl, fun a ha => ha, hsn⟩

/-- a subroutine ends successfully -/
theorem commit_rel {k1 : Checkpoint} {k2 : Snap} (hR : CfgRel (k1 :: ks1) w1 (k2 :: ks2) w2) :
    CfgRel ks1 (World.commit w1) ks2 (Spec.Evm.commit w2) := by
  have := callRet_rel k1 ks1 w1 k2 ks2 w2 { result := .Stop, output := [], gasRemaining := 0, gasRefunded := 0 }
    { result := .Stop, output := [], gasRemaining := 0, gasRefunded := 0 } (World.commit w1) hR rfl
  obtain ⟨w2', h1, h2⟩ := this
  simp only [callReturn, Interp.IResult.isOk, if_true, pure, Except.pure, Except.ok.injEq, Prod.mk.injEq, true_and] at h1
  rw [← h1] at h2
  exact h2

/-- a subroutine fails: neither machine panics, and the results are related -/
theorem revert_cfg {k1 : Checkpoint} {k2 : Snap} (hR : CfgRel (k1 :: ks1) w1 (k2 :: ks2) w2) :
    ∃ w1' w2', journalOps.revert w1 k1 = .ok w1' ∧ snapshotOps.revert w2 k2 = .ok w2' ∧ CfgRel ks1 w1' ks2 w2' := by
  obtain ⟨cps, hch⟩ := hR.chain
  simp only [List.map_cons, List.zip_cons_cons] at hch
  obtain ⟨j', jpre, hrev, _⟩ := hch.close_revert (dbOk_pre _) hR.w.dbBal
  have hrw : journalOps.revert w1 k1 = .ok { w1 with js := j' } := by
    show World.revert w1 k1 = _
    unfold World.revert
    simp only [hrev, Evm.ofOpt, bind, Except.bind, pure, Except.pure]
  have hcr : callReturn journalOps w1 k1 { result := .Revert, output := [], gasRemaining := 0, gasRefunded := 0 } =
      .ok ({ result := .Revert, output := [], gasRemaining := 0, gasRefunded := 0 }, { w1 with js := j' }) := by
    simp only [callReturn, Interp.IResult.isOk, Bool.false_eq_true, if_false, bind, Except.bind, hrw, pure, Except.pure]
  obtain ⟨w2', h1, h2⟩ := callRet_rel k1 ks1 w1 k2 ks2 w2 _ _ _ hR hcr
  simp only [callReturn, Interp.IResult.isOk, Bool.false_eq_true, if_false, bind, Except.bind] at h1
  cases hs : snapshotOps.revert w2 k2 with
  | error e => rw [hs] at h1; simp at h1
  | ok wb =>
    rw [hs] at h1
    simp only [pure, Except.pure, Except.ok.injEq, Prod.mk.injEq, true_and] at h1
    subst h1
    exact ⟨_, _, hrw, rfl, h2⟩

theorem callValueStep_rel (h : CfgRel ks1 w1 ks2 w2) (i : Interp.CallInputs) {w1' : World} {f : Option Interp.IResult}
    (hl : callValueStep w1 i = .ok (w1', f)) :
    ∃ w2', callValueStep w2 i = .ok (w2', f) ∧ CfgRel ks1 w1' ks2 w2' := by
  unfold callValueStep at hl ⊢
  by_cases hv : i.valueTransfer = true
  · rw [if_pos hv] at hl ⊢
    by_cases hz : i.value = 0
    · rw [if_pos hz] at hl ⊢
      simp only [bind, Except.bind] at hl ⊢
      cases h1 : w1.loadAccount i.targetAddress with
      | error e => rw [h1] at hl; simp at hl
      | ok p =>
        obtain ⟨wa, c⟩ := p
        rw [h1] at hl
        obtain ⟨wb, h2, hr⟩ := wLoadAccount_rel h h1
        rw [h2]
        simp only at hl ⊢
        cases h3 : wa.touch i.targetAddress with
        | error e => rw [h3] at hl; simp at hl
        | ok wc =>
          rw [h3] at hl
          obtain ⟨wd, h4, hr2⟩ := wTouch_rel hr h3
          rw [h4]
          simp only [pure, Except.pure, Except.ok.injEq, Prod.mk.injEq] at hl ⊢
          obtain ⟨hl1, hl2⟩ := hl
          subst hl1; subst hl2
          exact ⟨wd, ⟨rfl, rfl⟩, hr2⟩
    · rw [if_neg hz] at hl ⊢
      simp only [bind, Except.bind] at hl ⊢
      cases h1 : w1.transfer i.caller i.targetAddress i.value with
      | error e => rw [h1] at hl; simp at hl
      | ok p =>
        obtain ⟨wa, e⟩ := p
        rw [h1] at hl
        obtain ⟨wb, h2, hr⟩ := wTransfer_rel h h1
        rw [h2]
        simp only at hl ⊢
        cases e with
        | none =>
          simp only [pure, Except.pure, Except.ok.injEq, Prod.mk.injEq] at hl ⊢
          obtain ⟨hl1, hl2⟩ := hl
          subst hl1; subst hl2
          exact ⟨wb, ⟨rfl, rfl⟩, hr⟩
        | some e =>
          cases e <;>
          · simp only [pure, Except.pure, Except.ok.injEq, Prod.mk.injEq] at hl ⊢
            obtain ⟨hl1, hl2⟩ := hl
            subst hl1; subst hl2
            exact ⟨wb, ⟨rfl, rfl⟩, hr⟩
  · rw [if_neg hv] at hl ⊢
    simp only [pure, Except.pure, Except.ok.injEq, Prod.mk.injEq] at hl ⊢
    obtain ⟨hl1, hl2⟩ := hl
    subst hl1; subst hl2
    exact ⟨w2, ⟨rfl, rfl⟩, h⟩

/-- fetching the code of an account: `load_code`, the cached hash, the bytes of the code store -/
theorem fetch_rel (h : CfgRel ks1 w1 ks2 w2) {a : Addr} {wa : World} {c : Bool} {x : Acct} {hh : Nat}
    (h1 : w1.loadCode a = .ok (wa, c)) (hx : wa.acct a = .ok x) (hc : ofOpt "code not cached" x.info.code = .ok hh) :
    ∃ wb y, w2.loadCode a = .ok (wb, c) ∧ wb.acct a = .ok y ∧ ofOpt "code not cached" y.info.code = .ok hh ∧
      wb.codeOf hh = wa.codeOf hh ∧ CfgRel ks1 wa ks2 wb := by
  obtain ⟨wb, h2, hr⟩ := wLoadCode_rel h h1
  obtain ⟨y, hy, ar, hxs, hys⟩ := hr.acct hx
  have hcx := ofOpt_ok hc
  have h2' := h2
  unfold World.loadCode at h2
  simp only [bind, Except.bind] at h2
  cases ho : ofOpt "load_code" (Journal.loadCode w2.db w2.js a) with
  | error e => rw [ho] at h2; simp at h2
  | ok q =>
    obtain ⟨s', c'⟩ := q
    rw [ho] at h2
    simp only [pure, Except.pure, Except.ok.injEq, Prod.mk.injEq] at h2
    obtain ⟨y', hh', hy', hcy'⟩ := loadCode_cached (ofOpt_ok ho)
    have hwb : wb.js = s' := by rw [← h2.1]; exact (noteAddr_fields _ a).1
    rw [hwb, hy'] at hys
    simp only [Option.some.injEq] at hys
    subst hys
    have e3 : x.info.codeHash = y'.info.codeHash := ar.2.2.1
    have hhx : hh = x.info.codeHash := hr.w.rel.cj a x hxs hh hcx
    have hhy : hh' = y'.info.codeHash := hr.w.rel.cs a y' (by rw [hwb]; exact hy') hh' hcy'
    have hcy : ofOpt "code not cached" y'.info.code = .ok hh := by rw [hcy', hhy, ← e3, ← hhx]; rfl
    exact ⟨wb, y', h2', hy, hcy, hr.codeOf hh, hr⟩

theorem callCode_rel {k1 : Checkpoint} {k2 : Snap} (cfg : Cfg) (i : Interp.CallInputs) (mem : Memory.SharedMemory)
    (h : CfgRel (k1 :: ks1) w1 (k2 :: ks2) w2) {x1 : FrameOrResult Checkpoint × World}
    (hl : callCode journalOps cfg w1 k1 i mem = .ok x1) :
    ∃ x2, callCode snapshotOps cfg w2 k2 i mem = .ok x2 ∧ ForRel CfgRel ks1 ks2 x1 x2 := by
  unfold callCode at hl ⊢
  simp only [bind, Except.bind] at hl ⊢
  cases h1 : w1.loadCode i.bytecodeAddress with
  | error e => rw [h1] at hl; simp at hl
  | ok p =>
    obtain ⟨wa, c⟩ := p
    rw [h1] at hl
    simp only at hl
    cases hx : wa.acct i.bytecodeAddress with
    | error e => rw [hx] at hl; simp at hl
    | ok x =>
      rw [hx] at hl
      simp only at hl
      cases hc : ofOpt "code not cached" x.info.code with
      | error e => rw [hc] at hl; simp at hl
      | ok hh =>
        rw [hc] at hl
        simp only at hl
        obtain ⟨wb, y, h2, hy, hcy, hco, hr⟩ := fetch_rel h h1 hx hc
        rw [h2]
        simp only
        rw [hy]
        simp only
        rw [hcy]
        simp only
        rw [hco]
        cases hb : ofOpt "code_by_hash" (wa.codeOf hh) with
        | error e => rw [hb] at hl; simp at hl
        | ok bytecode =>
          rw [hb] at hl
          simp only at hl ⊢
          by_cases hem : bytecode.isEmpty = true
          · rw [if_pos hem] at hl ⊢
            simp only [pure, Except.pure, Except.ok.injEq] at hl ⊢
            subst hl
            exact ⟨_, rfl, rfl, commit_rel hr⟩
          · rw [if_neg hem] at hl ⊢
            cases hd : delegateOf bytecode with
            | none =>
              rw [hd] at hl
              simp only [pure, Except.pure, Except.ok.injEq] at hl ⊢
              subst hl
              exact ⟨_, rfl, ⟨rfl, rfl⟩, hr⟩
            | some d =>
              rw [hd] at hl
              simp only at hl ⊢
              cases h3 : wa.loadCode d with
              | error e => rw [h3] at hl; simp at hl
              | ok p3 =>
                obtain ⟨wc, c3⟩ := p3
                rw [h3] at hl
                simp only at hl
                cases hx3 : wc.acct d with
                | error e => rw [hx3] at hl; simp at hl
                | ok x3 =>
                  rw [hx3] at hl
                  simp only at hl
                  cases hc3 : ofOpt "code not cached" x3.info.code with
                  | error e => rw [hc3] at hl; simp at hl
                  | ok hh3 =>
                    rw [hc3] at hl
                    simp only at hl
                    obtain ⟨wd, y3, h4, hy3, hcy3, hco3, hr3⟩ := fetch_rel hr h3 hx3 hc3
                    rw [h4]
                    simp only
                    rw [hy3]
                    simp only
                    rw [hcy3]
                    simp only
                    rw [hco3]
                    cases hb3 : ofOpt "code_by_hash" (wc.codeOf hh3) with
                    | error e => rw [hb3] at hl; simp at hl
                    | ok dcode =>
                      rw [hb3] at hl
                      simp only [pure, Except.pure, Except.ok.injEq] at hl ⊢
                      subst hl
                      exact ⟨_, rfl, ⟨rfl, rfl⟩, hr3⟩

theorem runPrecompile_eq (h : CfgRel ks1 w1 ks2 w2) (spec a : Nat) (input : List Nat) (g : Nat) :
    runPrecompile w2 spec a input g = runPrecompile w1 spec a input g := by
  unfold runPrecompile; rw [h.w.pc]

theorem callPrecompile_rel {k1 : Checkpoint} {k2 : Snap} (cfg : Cfg) (i : Interp.CallInputs) (mem : Memory.SharedMemory)
    (h : CfgRel (k1 :: ks1) w1 (k2 :: ks2) w2) {x1 : FrameOrResult Checkpoint × World}
    (hl : callPrecompile journalOps cfg w1 k1 i mem = .ok x1) :
    ∃ x2, callPrecompile snapshotOps cfg w2 k2 i mem = .ok x2 ∧ ForRel CfgRel ks1 ks2 x1 x2 := by
  unfold callPrecompile at hl ⊢
  simp only [bind, Except.bind] at hl ⊢
  rw [runPrecompile_eq h]
  cases hp : runPrecompile w1 cfg.spec i.bytecodeAddress i.input i.gasLimit with
  | error e => rw [hp] at hl; simp at hl
  | ok o =>
    rw [hp] at hl
    simp only at hl ⊢
    cases o with
    | none => simp only at hl ⊢; exact callCode_rel cfg i mem h hl
    | some res =>
      simp only at hl ⊢
      obtain ⟨wr1, wr2, hr1, hr2, hrr⟩ := revert_cfg h
      cases res with
      | ok gasUsed out =>
        simp only at hl ⊢
        by_cases hg : gasUsed ≤ i.gasLimit
        · rw [if_pos hg] at hl ⊢
          simp only [pure, Except.pure, Except.ok.injEq] at hl ⊢
          subst hl
          exact ⟨_, rfl, rfl, commit_rel h⟩
        · rw [if_neg hg] at hl ⊢
          rw [hr1] at hl
          rw [hr2]
          simp only [pure, Except.pure, Except.ok.injEq] at hl ⊢
          subst hl
          exact ⟨_, rfl, rfl, hrr⟩
      | err e =>
        simp only at hl ⊢
        rw [hr1] at hl
        rw [hr2]
        simp only [pure, Except.pure, Except.ok.injEq] at hl ⊢
        subst hl
        exact ⟨_, rfl, rfl, hrr⟩
      | panic => simp [throw, throwThe, MonadExceptOf.throw] at hl

/-- the `callFrame` obligation -/
theorem makeCallFrame_rel (cfg : Cfg) (i : Interp.CallInputs) (mem : Memory.SharedMemory)
    (h : CfgRel ks1 w1 ks2 w2) {x1 : FrameOrResult Checkpoint × World}
    (hl : makeCallFrame journalOps cfg w1 i mem = .ok x1) :
    ∃ x2, makeCallFrame snapshotOps cfg w2 i mem = .ok x2 ∧ ForRel CfgRel ks1 ks2 x1 x2 := by
  rw [makeCallFrame_eq] at hl ⊢
  simp only [bind, Except.bind] at hl ⊢
  rw [← h.w.rel.depth]
  by_cases hd : w1.js.depth > CALL_STACK_LIMIT
  · rw [if_pos hd] at hl ⊢
    simp only [pure, Except.pure, Except.ok.injEq] at hl ⊢
    subst hl
    exact ⟨_, rfl, rfl, h⟩
  · rw [if_neg hd] at hl ⊢
    cases h1 : w1.loadAccountDelegated i.bytecodeAddress with
    | error e => rw [h1] at hl; simp at hl
    | ok p =>
      obtain ⟨wa, r⟩ := p
      rw [h1] at hl
      obtain ⟨wb, h2, hr⟩ := wLoadAccountDelegated_rel h h1
      rw [h2]
      simp only at hl ⊢
      have hcp := checkpoint_rel hr
      cases h3 : callValueStep (journalOps.checkpoint wa).1 i with
      | error e => rw [h3] at hl; simp at hl
      | ok q =>
        obtain ⟨wc, f⟩ := q
        have h3' : callValueStep (World.checkpoint wa).1 i = .ok (wc, f) := h3
        obtain ⟨wd, h4, hr2⟩ := callValueStep_rel hcp i h3'
        have h4' : callValueStep (snapshotOps.checkpoint wb).1 i = .ok (wd, f) := h4
        have hl' := hl
        rw [h3] at hl'
        rw [h4']
        simp only at hl' ⊢
        have hr2' : CfgRel ((journalOps.checkpoint wa).2 :: ks1) wc ((snapshotOps.checkpoint wb).2 :: ks2) wd := hr2
        cases f with
        | none =>
          simp only at hl' ⊢
          exact callPrecompile_rel cfg i mem hr2' hl'
        | some r =>
          simp only at hl' ⊢
          obtain ⟨wr1, wr2, hr1, hrr2, hrr⟩ := revert_cfg hr2'
          rw [hr1] at hl'
          rw [hrr2]
          simp only [pure, Except.pure, Except.ok.injEq] at hl' ⊢
          subst hl'
          exact ⟨_, rfl, rfl, hrr⟩

end Revm.Proofs.EvmRefine
