import Revm.Proofs.FrameTotal3
import Revm.Proofs.EvmLinkNoted
import Revm.Proofs.EvmLinkHost
/-! LINK, panic-freedom, part 1 (C07 `*_total` on EvmHost): under journal well-formedness (C07 `Good`: the journal
refers to present accounts only, it has at least the transaction level, cached balances are 256-bit words) and 256-bit
balances in the database, no `World` operation and no `Host` answer hits an `unwrap` on a vacant entry, and
well-formedness is kept. The only failures left are "soft": the code store does not know a hash (`code_by_hash`, a
database miss), a precompile that panics (C23: MODEXP on a huge length with a huge gas limit does), a missing oracle
answer, a fatal database error. -/
set_option linter.unusedSimpArgs false
set_option linter.unusedVariables false
namespace Revm.Proofs.EvmLink
open Revm Revm.Model Revm.Model.Evm
open Revm.Proofs.Frame (Good DbBal)
open Revm.Proofs.Journal (Grows)

/-- failures that are not Rust panics of the journal / frame / interpreter code: the code store (database) does not
know a hash, an executable precompile panics (C23 `modexp` witness), the precompile / authority oracle has no answer,
the database reports a fatal error -/
def Soft (e : Err) : Prop :=
  e = .panic "code_by_hash" ∨ e = .panic "precompile" ∨ (∃ m, e = .oracleMiss m) ∨ (∃ m, e = .fatal m)

/-- `x` succeeds with a value satisfying `P`, or fails softly -/
def Tot {α} (x : R α) (P : α → Prop) : Prop :=
  match x with
  | .ok a => P a
  | .error e => Soft e

theorem tot_ok {α} {a : α} {P : α → Prop} (h : P a) : Tot (.ok a : R α) P := h
theorem tot_pure {α} {a : α} {P : α → Prop} (h : P a) : Tot (pure a : R α) P := h
theorem tot_bind {α β} {x : R α} {f : α → R β} {P : α → Prop} {Q : β → Prop} (h1 : Tot x P)
    (h2 : ∀ a, P a → Tot (f a) Q) : Tot (x >>= f) Q := by
  cases x with
  | error e => exact h1
  | ok a => exact h2 a h1
theorem tot_mono {α} {x : R α} {P Q : α → Prop} (h : Tot x P) (hq : ∀ a, P a → Q a) : Tot x Q := by
  cases x with
  | error e => exact h
  | ok a => exact hq a h
theorem tot_ofOpt {α} {msg : String} {o : Option α} {a : α} {P : α → Prop} (h : o = some a) (hp : P a) :
    Tot (ofOpt msg o) P := by subst h; exact hp
/-- the code store may not know the hash: a database miss -/
theorem tot_codeOf {α} (o : Option α) : Tot (ofOpt "code_by_hash" o) (fun _ => True) := by
  cases o with
  | some a => exact trivial
  | none => exact Or.inl rfl
theorem Tot.ok_inv {α} {x : R α} {P : α → Prop} (h : Tot x P) {a : α} (hx : x = .ok a) : P a := by
  subst hx; exact h
/-- a total result is never a panic other than the code-store miss and the precompile panic -/
theorem Tot.no_panic {α} {x : R α} {P : α → Prop} (h : Tot x P) (m : String) (hx : x = .error (.panic m)) :
    m = "code_by_hash" ∨ m = "precompile" := by
  subst hx
  rcases h with h | h | ⟨m', h⟩ | ⟨m', h⟩
  · cases h; exact Or.inl rfl
  · cases h; exact Or.inr rfl
  · cases h
  · cases h

/-- world well-formedness for totality -/
structure WOk (w : World) : Prop where
  good : Good w.js
  dbal : DbBal w.db

/-- a step that keeps well-formedness, never removes an account and keeps the number of journal levels -/
structure WS (w w1 : World) : Prop where
  ok : WOk w1
  grows : Grows w.js w1.js
  len : w1.js.journal.length = w.js.journal.length

theorem WS.refl {w : World} (h : WOk w) : WS w w := ⟨h, Grows.refl _, rfl⟩
theorem WS.trans {a b c : World} (h1 : WS a b) (h2 : WS b c) : WS a c :=
  ⟨h2.ok, h1.grows.trans h2.grows, h2.len.trans h1.len⟩

theorem wok_js {w : World} (h : WOk w) {js : Journal.JState} (g : Good js) : WOk { w with js := js } := ⟨g, h.dbal⟩
theorem wok_noteAddr {w : World} (h : WOk w) (a : Nat) : WOk (w.noteAddr a) :=
  ⟨by rw [Proofs.EvmHost.noteAddr_js]; exact h.good, by rw [Proofs.EvmHost.noteAddr_db]; exact h.dbal⟩
theorem wok_noteSlot {w : World} (h : WOk w) (a k : Nat) : WOk (w.noteSlot a k) :=
  ⟨by rw [Proofs.EvmHost.noteSlot_js]; exact h.good, by rw [noteSlot_db]; exact h.dbal⟩

theorem tot_loadAccount {w : World} (h : WOk w) (a : Nat) :
    Tot (w.loadAccount a) (fun r => WS w r.1 ∧ (r.1.js.state a).isSome) := by
  obtain ⟨s', c, h1, g', gr, hl, hp⟩ := Proofs.Frame.loadAccount_good h.dbal h.good a
  unfold World.loadAccount
  rw [h1]
  show WS w ({ w with js := s' }.noteAddr a) ∧ _
  rw [Proofs.EvmHost.noteAddr_js]
  exact ⟨⟨wok_noteAddr (wok_js h g') a, by rw [Proofs.EvmHost.noteAddr_js]; exact gr,
    by rw [Proofs.EvmHost.noteAddr_js]; exact hl⟩, hp⟩

theorem tot_loadCode {w : World} (h : WOk w) (a : Nat) :
    Tot (w.loadCode a) (fun r => WS w r.1 ∧ (r.1.js.state a).isSome) := by
  obtain ⟨s', c, h1, g', gr, hl, hp⟩ := Proofs.Frame.loadCode_good h.dbal h.good a
  unfold World.loadCode
  rw [h1]
  show WS w ({ w with js := s' }.noteAddr a) ∧ _
  rw [Proofs.EvmHost.noteAddr_js]
  exact ⟨⟨wok_noteAddr (wok_js h g') a, by rw [Proofs.EvmHost.noteAddr_js]; exact gr,
    by rw [Proofs.EvmHost.noteAddr_js]; exact hl⟩, hp⟩

theorem tot_loadAccountDelegated {w : World} (h : WOk w) (a : Nat) :
    Tot (w.loadAccountDelegated a) (fun r => WS w r.1) := by
  obtain ⟨s', r, h1, g', gr, hl⟩ := Proofs.Frame.loadAccountDelegated_good h.dbal h.good a
  obtain ⟨ie, c, dc⟩ := r
  have key : ∀ (W0 : World) (mm : Option Nat), WS w W0 →
      WS w (match mm with | some d => W0.noteAddr d | none => W0) := by
    intro W0 mm h0
    cases mm with
    | none => exact h0
    | some d => exact ⟨wok_noteAddr h0.ok _, by rw [Proofs.EvmHost.noteAddr_js]; exact h0.grows,
        by rw [Proofs.EvmHost.noteAddr_js]; exact h0.len⟩
  have h0 : WS w ({ w with js := s' }.noteAddr a) :=
    ⟨wok_noteAddr (wok_js h g') a, by rw [Proofs.EvmHost.noteAddr_js]; exact gr,
      by rw [Proofs.EvmHost.noteAddr_js]; exact hl⟩
  unfold World.loadAccountDelegated
  rw [h1]
  exact key _ _ h0

theorem tot_touch {w : World} (h : WOk w) (a : Nat) : Tot (w.touch a) (fun w1 => WS w w1) := by
  obtain ⟨s', h1, g', gr, hl⟩ := Proofs.Frame.touch_good h.dbal h.good a
  unfold World.touch
  rw [h1]
  exact ⟨wok_js h g', gr, hl⟩

theorem isSome_of_ne_none {α} {o : Option α} (h : o ≠ none) : o.isSome = true := by
  cases o with
  | none => exact absurd rfl h
  | some a => rfl

theorem tot_transfer {w : World} (h : WOk w) (src dst v : Nat) :
    Tot (w.transfer src dst v) (fun r => WS w r.1 ∧ (r.1.js.state src).isSome ∧ (r.1.js.state dst).isSome) := by
  obtain ⟨s', r, h1, g', gr, hl⟩ := Proofs.Frame.transfer_good h.dbal h.good src dst v
  obtain ⟨_, ps, pd⟩ := kle_transfer h1
  unfold World.transfer
  rw [h1]
  show WS w (({ w with js := s' }.noteAddr src).noteAddr dst) ∧ _
  rw [Proofs.EvmHost.noteAddr_js, Proofs.EvmHost.noteAddr_js]
  exact ⟨⟨wok_noteAddr (wok_noteAddr (wok_js h g') _) _,
    by rw [Proofs.EvmHost.noteAddr_js, Proofs.EvmHost.noteAddr_js]; exact gr,
    by rw [Proofs.EvmHost.noteAddr_js, Proofs.EvmHost.noteAddr_js]; exact hl⟩, isSome_of_ne_none ps, isSome_of_ne_none pd⟩

/-- `checkpoint_revert` to a checkpoint of the journal -/
theorem tot_revert {w : World} (h : WOk w) (cp : Journal.Checkpoint) (h1 : 1 ≤ cp.journalI)
    (hlen : cp.journalI ≤ w.js.journal.length) :
    Tot (w.revert cp) (fun w1 => WOk w1 ∧ Grows w.js w1.js ∧ w1.js.journal.length = cp.journalI) := by
  obtain ⟨s', hr, g', gr, hl⟩ := Proofs.Frame.revert_good h.good h1 hlen
  unfold World.revert
  rw [hr]
  exact ⟨wok_js h g', gr, hl⟩

theorem tot_acct {w : World} {a : Nat} (hp : (w.js.state a).isSome) :
    Tot (w.acct a) (fun acc => w.js.state a = some acc) := by
  obtain ⟨acc, hacc⟩ := Proofs.Journal.isSome_cases hp
  unfold World.acct
  rw [hacc]
  exact rfl

/-- what a `Host` request needs: the account whose storage is read / written, or which is destroyed, is loaded (it is
the running frame's own) -/
def HOk (js : Journal.JState) : Interp.HostOp → Prop
  | .sload a _ => (js.state a).isSome
  | .sstore a _ _ => (js.state a).isSome
  | .selfdestruct a _ => (js.state a).isSome
  | _ => True

/-- after `load_code` the account's code is cached -/
theorem loadCode_cached {db : Journal.Db} {s s' : Journal.JState} {a : Nat} {c : Bool}
    (h : Journal.loadCode db s a = some (s', c)) : ∀ acc, s'.state a = some acc → acc.info.code.isSome := by
  unfold Journal.loadCode at h
  simp only [bind, Option.bind_eq_some_iff] at h
  obtain ⟨⟨s1, c1⟩, h1, acc, h2, h⟩ := h
  simp only [] at h2 h
  intro acc' hacc'
  split at h
  · simp only [Option.some.injEq, Prod.mk.injEq] at h
    rw [← h.1] at hacc'
    simp only [Journal.setAcct, if_true, Option.some.injEq] at hacc'
    rw [← hacc']; rfl
  · rename_i hn
    simp only [Option.some.injEq, Prod.mk.injEq] at h
    rw [← h.1, h2] at hacc'
    cases hacc'
    cases hc : acc.info.code with
    | none => rw [hc] at hn; exact absurd rfl hn
    | some x => rfl

theorem w_loadCode_cached {w w1 : World} {a : Nat} {c : Bool} (h : w.loadCode a = .ok (w1, c)) :
    ∀ acc, w1.js.state a = some acc → acc.info.code.isSome :=
  loadCode_cached (w_loadCode_tr h).1

/-- **every `Host` answer is total** (C07 `hostStep_total` on EvmHost): under well-formedness, with the frame's own
account loaded, the answer is a value — or the code store does not know a code hash -/
theorem tot_answer {w : World} (h : WOk w) (he : HostEnv) (op : Interp.HostOp) (hok : HOk w.js op) :
    Tot (answer he w op) (fun r => WS w r.2) := by
  cases op with
  | keccak d => exact WS.refl h
  | blockHash n => exact WS.refl h
  | tload a k => exact WS.refl h
  | create2Address d sl c => exact WS.refl h
  | balance a =>
    simp only [answer]
    refine tot_bind (tot_loadAccount h a) (fun r hr => ?_)
    exact tot_bind (tot_acct hr.2) (fun acc _ => tot_pure hr.1)
  | code a =>
    simp only [answer]
    cases hl : w.loadCode a with
    | error e => have := tot_loadCode h a; rw [hl] at this; exact this
    | ok r =>
      have hr := (tot_loadCode h a).ok_inv hl
      obtain ⟨w1, c⟩ := r
      show Tot (w1.acct a >>= _) _
      refine tot_bind (tot_acct hr.2) (fun acc hacc => ?_)
      obtain ⟨hh, hhh⟩ := Proofs.Journal.isSome_cases (w_loadCode_cached hl acc hacc)
      refine tot_bind (tot_ofOpt (P := fun _ => True) hhh trivial) (fun _ _ => ?_)
      exact tot_bind (tot_codeOf _) (fun _ _ => tot_pure hr.1)
  | codeHash a =>
    simp only [answer]
    refine tot_bind (tot_loadCode h a) (fun r hr => ?_)
    refine tot_bind (tot_acct hr.2) (fun acc _ => ?_)
    split <;> exact tot_pure hr.1
  | loadAccountDelegated a =>
    simp only [answer]
    exact tot_bind (tot_loadAccountDelegated h a) (fun r hr => tot_pure hr)
  | sload a k =>
    obtain ⟨s', hs, g', gr, hl⟩ := Proofs.Frame.hostStep_total h.dbal h.good (.sload a k) hok
    simp only [Frame.hostStep, Option.map_eq_some_iff] at hs
    obtain ⟨⟨s'', v, c⟩, hs, rfl⟩ := hs
    simp only [answer]
    rw [hs]
    show WS w ({ w with js := s'' }.noteSlot a k)
    exact ⟨wok_noteSlot (wok_js h g') _ _, by rw [Proofs.EvmHost.noteSlot_js]; exact gr,
      by rw [Proofs.EvmHost.noteSlot_js]; exact hl⟩
  | sstore a k v =>
    obtain ⟨s', hs, g', gr, hl⟩ := Proofs.Frame.hostStep_total h.dbal h.good (.sstore a k v) hok
    simp only [Frame.hostStep, Option.map_eq_some_iff] at hs
    obtain ⟨⟨s'', o, p, n, c⟩, hs, rfl⟩ := hs
    simp only [answer]
    rw [hs]
    show WS w ({ w with js := s'' }.noteSlot a k)
    exact ⟨wok_noteSlot (wok_js h g') _ _, by rw [Proofs.EvmHost.noteSlot_js]; exact gr,
      by rw [Proofs.EvmHost.noteSlot_js]; exact hl⟩
  | tstore a k v =>
    obtain ⟨s', hs, g', gr, hl⟩ := Proofs.Frame.hostStep_total h.dbal h.good (.tstore a k v) trivial
    simp only [Frame.hostStep] at hs
    simp only [answer]
    rw [hs]
    exact ⟨wok_js h g', gr, hl⟩
  | log a t d =>
    obtain ⟨s', hs, g', gr, hl⟩ := Proofs.Frame.hostStep_total h.dbal h.good (.log w.logs.length) trivial
    simp only [Frame.hostStep, Option.some.injEq] at hs
    subst hs
    simp only [answer]
    exact ⟨⟨g', h.dbal⟩, gr, hl⟩
  | selfdestruct a t =>
    obtain ⟨s', hs, g', gr, hl⟩ := Proofs.Frame.hostStep_total h.dbal h.good (.selfdestruct a t) hok
    simp only [Frame.hostStep, Option.map_eq_some_iff] at hs
    obtain ⟨⟨s'', hv, te, pd, c⟩, hs, rfl⟩ := hs
    simp only [answer]
    rw [hs]
    show WS w ({ w with js := s'' }.noteAddr t)
    exact ⟨wok_noteAddr (wok_js h g') _, by rw [Proofs.EvmHost.noteAddr_js]; exact gr,
      by rw [Proofs.EvmHost.noteAddr_js]; exact hl⟩

end Revm.Proofs.EvmLink
