import Revm.Model.Eof
/-! Proofs about the EOF codec model: `decode bs = ok e → encode e = bs`, totality (no panic),
header size arithmetic. Core Lean only. -/
namespace Revm.Proofs.Eof
open Revm.Model.Eof

set_option linter.unusedSimpArgs false
set_option linter.unusedVariables false

/-! ## the result monad -/
section monad
variable {ε α β : Type}

theorem bind_def (x : R ε α) (f : α → R ε β) : (x >>= f) = R.bind x f := rfl
theorem pure_def (a : α) : (pure a : R ε α) = .ok a := rfl

theorem bind_eq_ok {x : R ε α} {f : α → R ε β} {b : β} :
    (x >>= f) = .ok b ↔ ∃ a, x = .ok a ∧ f a = .ok b := by
  cases x <;> simp [bind_def, R.bind]

theorem bind_eq_panic {x : R ε α} {f : α → R ε β} :
    (x >>= f) = .panic ↔ x = .panic ∨ ∃ a, x = .ok a ∧ f a = .panic := by
  cases x <;> simp [bind_def, R.bind]
theorem bind_ne_panic {x : R ε α} {f : α → R ε β} (hx : x ≠ .panic)
    (hf : ∀ a, x = .ok a → f a ≠ .panic) : (x >>= f) ≠ .panic := by
  cases x with
  | ok a => exact hf a rfl
  | err e => simp [bind_def, R.bind]
  | panic => exact absurd rfl hx
theorem ite_err_eq_ok {c : Prop} [Decidable c] {e : ε} {x : R ε α} {b : α}
    (h : (if c then R.err e else x) = R.ok b) : ¬c ∧ x = .ok b := by
  by_cases hc : c
  · rw [if_pos hc] at h; cases h
  · rw [if_neg hc] at h; exact ⟨hc, h⟩
theorem ite_err_ne_panic {c : Prop} [Decidable c] {e : ε} {x : R ε α}
    (h : x ≠ .panic) : (if c then R.err e else x) ≠ .panic := by
  by_cases hc : c
  · rw [if_pos hc]; exact fun h => by cases h
  · rw [if_neg hc]; exact h
end monad

/-! ## bytes -/

theorem be16_join (a b : Nat) (ha : a < 256) (hb : b < 256) : be16 (a * 256 + b) = [a, b] := by
  unfold be16
  have h1 : (a * 256 + b) / 256 % 256 = a := by omega
  have h2 : (a * 256 + b) % 256 = b := by omega
  rw [h1, h2]

theorem be16_length (v : Nat) : (be16 v).length = 2 := rfl

theorem isBytes_cons {a : Nat} {l : List Nat} : IsBytes (a :: l) ↔ a < 256 ∧ IsBytes l := by
  simp [IsBytes]

theorem isBytes_drop {l : List Nat} (h : IsBytes l) (n : Nat) : IsBytes (l.drop n) :=
  fun b hb => h b (List.mem_of_mem_drop hb)

theorem isBytes_take {l : List Nat} (h : IsBytes l) (n : Nat) : IsBytes (l.take n) :=
  fun b hb => h b (List.mem_of_mem_take hb)

theorem isBytes_append {l m : List Nat} : IsBytes (l ++ m) ↔ IsBytes l ∧ IsBytes m := by
  simp only [IsBytes, List.mem_append]
  constructor
  · intro h; exact ⟨fun b hb => h b (Or.inl hb), fun b hb => h b (Or.inr hb)⟩
  · rintro ⟨h1, h2⟩ b (hb | hb); exact h1 b hb; exact h2 b hb

/-! ## decode helpers -/

theorem consumeU8_ok {input rest : List Nat} {b : Nat} :
    consumeU8 input = .ok (rest, b) ↔ input = b :: rest := by
  cases input with
  | nil => simp [consumeU8]
  | cons x xs => simp [consumeU8]; constructor <;> (rintro ⟨h1, h2⟩; exact ⟨h2, h1⟩)

theorem consumeU16_ok {input rest : List Nat} {v : Nat} :
    consumeU16 input = .ok (rest, v) ↔ ∃ a b, input = a :: b :: rest ∧ v = a * 256 + b := by
  match input with
  | [] => simp [consumeU16]
  | [x] => simp [consumeU16]
  | x :: y :: xs =>
    simp only [consumeU16, R.ok.injEq, Prod.mk.injEq, List.cons.injEq]
    constructor
    · rintro ⟨h1, h2⟩; exact ⟨x, y, ⟨rfl, rfl, h1⟩, h2.symm⟩
    · rintro ⟨a, b, ⟨h1, h2, h3⟩, h4⟩; subst h1 h2; exact ⟨h3, h4.symm⟩

theorem consumeU8_ne_panic (input : List Nat) : consumeU8 input ≠ .panic := by
  cases input <;> simp [consumeU8]

theorem consumeU16_ne_panic (input : List Nat) : consumeU16 input ≠ .panic := by
  match input with
  | [] => simp [consumeU16]
  | [x] => simp [consumeU16]
  | x :: y :: xs => simp [consumeU16]

/-! ## types section -/

/-- what `TypesSection::validate` accepts -/
def TypesOk (t : TypesSection) : Prop :=
  t.inputs ≤ 0x7f ∧ t.outputs ≤ 0x80 ∧ t.maxStackSize ≤ 0x3ff ∧ t.inputs ≤ t.maxStackSize

theorem validate_ok {t : TypesSection} : t.validate = .ok () ↔ TypesOk t := by
  unfold TypesSection.validate TypesOk
  split
  · simp; omega
  · split
    · simp; omega
    · simp; omega

theorem validate_ne_panic (t : TypesSection) : t.validate ≠ .panic := by
  unfold TypesSection.validate; split; simp; split <;> simp

theorem typesDecode_ok {input rest : List Nat} {t : TypesSection}
    (h : TypesSection.decode input = .ok (t, rest)) (hb : IsBytes input) :
    input = t.encode ++ rest ∧ TypesOk t := by
  unfold TypesSection.decode at h
  simp only [bind_eq_ok, pure_def] at h
  obtain ⟨⟨r1, i⟩, h1, ⟨r2, o⟩, h2, ⟨r3, m⟩, h3, u, h4, h5⟩ := h
  rw [consumeU8_ok] at h1 h2
  rw [consumeU16_ok] at h3
  obtain ⟨a, b, h3, hm⟩ := h3
  cases u
  rw [validate_ok] at h4
  simp only [R.ok.injEq, Prod.mk.injEq] at h5
  obtain ⟨h5, h6⟩ := h5
  subst h5 h6 h1 h2 h3
  simp only [isBytes_cons] at hb
  refine ⟨?_, h4⟩
  simp only [TypesSection.encode, hm, be16_join a b hb.2.2.1 hb.2.2.2.1, List.cons_append,
    List.nil_append]

theorem typesDecode_ne_panic (input : List Nat) : TypesSection.decode input ≠ .panic := by
  unfold TypesSection.decode
  refine bind_ne_panic (consumeU8_ne_panic _) fun _ _ => ?_
  refine bind_ne_panic (consumeU8_ne_panic _) fun _ _ => ?_
  refine bind_ne_panic (consumeU16_ne_panic _) fun _ _ => ?_
  refine bind_ne_panic (validate_ne_panic _) fun _ _ => ?_
  simp [pure_def]

theorem typesEncode_length (t : TypesSection) : t.encode.length = 4 := rfl

theorem decodeTypes_ok : ∀ (n : Nat) (input : List Nat) (acc ts : List TypesSection),
    decodeTypes n input acc = .ok ts → IsBytes input →
    ∃ new, ts = acc.reverse ++ new ∧ new.length = n ∧
      (new.map TypesSection.encode).flatten = input.take (4 * n) ∧ 4 * n ≤ input.length ∧
      ∀ t ∈ new, TypesOk t
  | 0, input, acc, ts, h, _ => by
    simp only [decodeTypes, R.ok.injEq] at h
    exact ⟨[], by simp [h]⟩
  | n + 1, input, acc, ts, h, hb => by
    simp only [decodeTypes, bind_eq_ok] at h
    obtain ⟨⟨t, rest⟩, h1, h2⟩ := h
    obtain ⟨hin, hok⟩ := typesDecode_ok h1 hb
    have hb' : IsBytes rest := by rw [hin] at hb; exact (isBytes_append.1 hb).2
    obtain ⟨new, e1, e2, e3, e4, e5⟩ := decodeTypes_ok n rest (t :: acc) ts h2 hb'
    refine ⟨t :: new, by simp [e1], by simp [e2], ?_, ?_, ?_⟩
    · have hl : t.encode.length = 4 := rfl
      rw [hin, List.map_cons, List.flatten_cons, e3]
      rw [show 4 * (n + 1) = t.encode.length + 4 * n by omega, List.take_length_add_append]
    · rw [hin, List.length_append, typesEncode_length]; omega
    · intro x hx
      rcases List.mem_cons.1 hx with rfl | hx
      · exact hok
      · exact e5 x hx

theorem decodeTypes_ne_panic : ∀ (n : Nat) (input : List Nat) (acc : List TypesSection),
    decodeTypes n input acc ≠ .panic
  | 0, _, _ => by simp [decodeTypes]
  | n + 1, input, acc => by
    simp only [decodeTypes]
    exact bind_ne_panic (typesDecode_ne_panic _) fun a _ => decodeTypes_ne_panic n _ _

/-! ## header -/

theorem readSizes_ok : ∀ (n : Nat) (input acc : List Nat) (sum : Nat) (sizes : List Nat) (s : Nat),
    readSizes n input acc sum = .ok (sizes, s) → IsBytes input →
    ∃ new, sizes = acc.reverse ++ new ∧ new.length = n ∧
      (new.map be16).flatten = input.take (n * 2) ∧ s = sum + new.sum ∧
      (∀ x ∈ new, 0 < x ∧ x < 65536)
  | 0, input, acc, sum, sizes, s, h, _ => by
    simp only [readSizes, R.ok.injEq, Prod.mk.injEq] at h
    exact ⟨[], by simp [h.1, h.2]⟩
  | n + 1, [], acc, sum, sizes, s, h, _ => by simp [readSizes] at h
  | n + 1, [a], acc, sum, sizes, s, h, _ => by simp [readSizes] at h
  | n + 1, a :: b :: rest, acc, sum, sizes, s, h, hb => by
    simp only [readSizes] at h
    split at h
    · simp at h
    · rename_i hz
      simp only [isBytes_cons] at hb
      obtain ⟨new, e1, e2, e3, e4, e5⟩ := readSizes_ok n rest _ _ sizes s h hb.2.2
      refine ⟨(a * 256 + b) :: new, by simp [e1], by simp [e2], ?_, ?_, ?_⟩
      · rw [List.map_cons, List.flatten_cons, e3, be16_join a b hb.1 hb.2.1,
          show (n + 1) * 2 = n * 2 + 2 by omega]
        simp [List.take_succ_cons]
      · simp [e4]; omega
      · intro x hx
        rcases List.mem_cons.1 hx with rfl | hx
        · omega
        · exact e5 x hx

theorem readSizes_ne_panic : ∀ (n : Nat) (input acc : List Nat) (sum : Nat),
    n * 2 ≤ input.length → readSizes n input acc sum ≠ .panic
  | 0, _, _, _, _ => by simp [readSizes]
  | n + 1, [], _, _, h => by simp at h
  | n + 1, [a], _, _, h => by simp at h; omega
  | n + 1, a :: b :: rest, acc, sum, h => by
    simp only [readSizes]
    split
    · simp
    · apply readSizes_ne_panic; simp at h; omega

/-- sizes as produced by `consume_header_section_size` -/
def SizesOk (sizes : List Nat) (sum : Nat) : Prop :=
  0 < sizes.length ∧ sizes.length < 65536 ∧ sum = sizes.sum ∧ ∀ x ∈ sizes, 0 < x ∧ x < 65536

theorem consumeSizes_ok {input rest sizes : List Nat} {sum : Nat}
    (h : consumeHeaderSectionSize input = .ok (rest, sizes, sum)) (hb : IsBytes input) :
    input = be16 sizes.length ++ (sizes.map be16).flatten ++ rest ∧ SizesOk sizes sum := by
  unfold consumeHeaderSectionSize at h
  simp only [bind_eq_ok] at h
  obtain ⟨⟨r1, num⟩, h1, h2⟩ := h
  rw [consumeU16_ok] at h1
  obtain ⟨a, b, h1, hnum⟩ := h1
  subst h1
  simp only [isBytes_cons] at hb
  split at h2
  · simp at h2
  · rename_i hnz
    split at h2
    · simp at h2
    · rename_i hlen
      simp only [bind_eq_ok] at h2
      obtain ⟨⟨sz, sm⟩, h3, h4⟩ := h2
      obtain ⟨new, e1, e2, e3, e4, e5⟩ := readSizes_ok _ _ _ _ _ _ h3 hb.2.2
      simp only [List.reverse_nil, List.nil_append] at e1
      subst e1
      split at h4
      · simp only [pure_def, R.ok.injEq, Prod.mk.injEq] at h4
        obtain ⟨h5, h6, h7⟩ := h4
        subst h6 h7
        refine ⟨?_, ?_⟩
        · rw [e3, e2, hnum, be16_join a b hb.1 hb.2.1, ← h5]
          subst hnum
          simp
        · refine ⟨by omega, by omega, by omega, e5⟩
      · simp at h4

theorem consumeSizes_ne_panic (input : List Nat) : consumeHeaderSectionSize input ≠ .panic := by
  unfold consumeHeaderSectionSize
  refine bind_ne_panic (consumeU16_ne_panic _) fun p _ => ?_
  obtain ⟨r, num⟩ := p
  dsimp only
  split
  · simp
  · split
    · simp
    · rename_i hlen
      refine bind_ne_panic (readSizes_ne_panic _ _ _ _ (by omega)) fun p _ => ?_
      obtain ⟨sz, sm⟩ := p
      dsimp only
      split
      · simp [pure_def]
      · omega

/-- the invariants of a header produced by `EofHeader::decode` -/
structure HeaderWf (h : Header) : Prop where
  types_lt : h.typesSize < 65536
  types_mod : h.typesSize % 4 = 0
  code_count : h.codeSizes.length = h.typesSize / 4
  code_pos : 0 < h.codeSizes.length
  code_le : h.codeSizes.length ≤ 1024
  cont_le : h.containerSizes.length ≤ 256
  code_sizes : ∀ x ∈ h.codeSizes, 0 < x ∧ x < 65536
  cont_sizes : ∀ x ∈ h.containerSizes, 0 < x ∧ x < 65536
  sum_code : h.sumCodeSizes = h.codeSizes.sum
  sum_cont : h.sumContainerSizes = h.containerSizes.sum
  data_lt : h.dataSize < 65536

theorem decodeTail_ok {h0 h : Header} {input rest : List Nat}
    (hd : Header.decodeTail h0 input = .ok (h, rest)) (hb : IsBytes input) :
    input = be16 h.dataSize ++ [KIND_TERMINAL] ++ rest ∧ h = { h0 with dataSize := h.dataSize } ∧
      h.dataSize < 65536 := by
  unfold Header.decodeTail at hd
  simp only [bind_eq_ok] at hd
  obtain ⟨⟨r1, ds⟩, h1, ⟨r2, t⟩, h2, h3⟩ := hd
  rw [consumeU16_ok] at h1
  rw [consumeU8_ok] at h2
  obtain ⟨a, b, h1, hds⟩ := h1
  subst h1 h2
  simp only [isBytes_cons] at hb
  split at h3
  · simp at h3
  · rename_i ht
    simp only [pure_def, R.ok.injEq, Prod.mk.injEq, Decidable.not_not] at h3 ht
    obtain ⟨h3, h4⟩ := h3
    subst h3 h4 ht
    refine ⟨?_, rfl, ?_⟩
    · simp only [hds, be16_join a b hb.1 hb.2.1]; simp
    · simp only [hds]; omega

theorem decodeTail_ne_panic (h0 : Header) (input : List Nat) :
    Header.decodeTail h0 input ≠ .panic := by
  unfold Header.decodeTail
  refine bind_ne_panic (consumeU16_ne_panic _) fun p _ => ?_
  obtain ⟨r1, ds⟩ := p
  dsimp only
  refine bind_ne_panic (consumeU8_ne_panic _) fun p _ => ?_
  obtain ⟨r2, t⟩ := p
  dsimp only
  split <;> simp [pure_def]

theorem headerDecode_ok {input rest : List Nat} {h : Header}
    (hd : Header.decode input = .ok (h, rest)) (hb : IsBytes input) :
    input = h.encode ++ rest ∧ HeaderWf h := by
  unfold Header.decode at hd
  rw [bind_eq_ok] at hd
  obtain ⟨⟨r1, kind⟩, h1, hd⟩ := hd
  dsimp only at hd
  rw [consumeU16_ok] at h1
  obtain ⟨m1, m2, h1, hkind⟩ := h1
  subst h1
  simp only [isBytes_cons] at hb
  have hx := ite_err_eq_ok hd; clear hd; obtain ⟨hmagic, hd⟩ := hx
  rw [bind_eq_ok] at hd
  obtain ⟨⟨r2, version⟩, h2, hd⟩ := hd
  dsimp only at hd
  rw [consumeU8_ok] at h2
  subst h2
  simp only [isBytes_cons] at hb
  have hx := ite_err_eq_ok hd; clear hd; obtain ⟨hver, hd⟩ := hx
  rw [bind_eq_ok] at hd
  obtain ⟨⟨r3, kt⟩, h3, hd⟩ := hd
  dsimp only at hd
  rw [consumeU8_ok] at h3
  subst h3
  simp only [isBytes_cons] at hb
  have hx := ite_err_eq_ok hd; clear hd; obtain ⟨hkt, hd⟩ := hx
  rw [bind_eq_ok] at hd
  obtain ⟨⟨r4, ts⟩, h4, hd⟩ := hd
  dsimp only at hd
  rw [consumeU16_ok] at h4
  obtain ⟨t1, t2, h4, hts⟩ := h4
  subst h4
  simp only [isBytes_cons] at hb
  have hx := ite_err_eq_ok hd; clear hd; obtain ⟨hmod, hd⟩ := hx
  rw [bind_eq_ok] at hd
  obtain ⟨⟨r5, kc⟩, h5, hd⟩ := hd
  dsimp only at hd
  rw [consumeU8_ok] at h5
  subst h5
  simp only [isBytes_cons] at hb
  have hx := ite_err_eq_ok hd; clear hd; obtain ⟨hkc, hd⟩ := hx
  rw [bind_eq_ok] at hd
  obtain ⟨⟨r6, sizes, sum⟩, h6, hd⟩ := hd
  dsimp only at hd
  obtain ⟨h6, hsz⟩ := consumeSizes_ok h6 hb.2.2.2.2.2.2.2
  have hx := ite_err_eq_ok hd; clear hd; obtain ⟨hmany, hd⟩ := hx
  have hx := ite_err_eq_ok hd; clear hd; obtain ⟨hempty, hd⟩ := hx
  have hx := ite_err_eq_ok hd; clear hd; obtain ⟨hcount, hd⟩ := hx
  rw [bind_eq_ok] at hd
  obtain ⟨⟨r7, k⟩, h7, hd⟩ := hd
  dsimp only at hd
  rw [consumeU8_ok] at h7
  simp only [Decidable.not_not] at hmagic hver hkt hmod hkc hcount
  have hm1 : m1 = 0xEF := by omega
  have hm2 : m2 = 0 := by omega
  have hbr6 : IsBytes r6 := by
    have := hb.2.2.2.2.2.2.2
    rw [h6] at this
    exact (isBytes_append.1 this).2
  have htsb : be16 ts = [t1, t2] := by rw [hts]; exact be16_join t1 t2 hb.2.2.2.2.1 hb.2.2.2.2.2.1
  have htslt : ts < 65536 := by omega
  have hlenmod : sizes.length % 65536 = sizes.length := Nat.mod_eq_of_lt hsz.2.1
  subst h7
  simp only [isBytes_cons] at hbr6
  split at hd
  · -- container kind
    rename_i hk
    rw [bind_eq_ok] at hd
    obtain ⟨⟨r8, csizes, csum⟩, h8, hd⟩ := hd
    dsimp only at hd
    obtain ⟨h8, hcsz⟩ := consumeSizes_ok h8 hbr6.2
    have hx := ite_err_eq_ok hd; clear hd; obtain ⟨hcmany, hd⟩ := hx
    rw [bind_eq_ok] at hd
    obtain ⟨⟨r9, kd⟩, h9, hd⟩ := hd
    dsimp only at hd
    rw [consumeU8_ok] at h9
    have hx := ite_err_eq_ok hd; clear hd; obtain ⟨hkd, hd⟩ := hx
    simp only [Decidable.not_not] at hkd
    have hbr8 : IsBytes r8 := by
      have := hbr6.2
      rw [h8] at this
      exact (isBytes_append.1 this).2
    subst h9
    simp only [isBytes_cons] at hbr8
    obtain ⟨e1, e2, e3⟩ := decodeTail_ok hd hbr8.2
    have hne : csizes.isEmpty = false := by
      cases csizes with
      | nil => have := hcsz.1; simp at this
      | cons _ _ => rfl
    have hclenmod : csizes.length % 65536 = csizes.length := Nat.mod_eq_of_lt hcsz.2.1
    refine ⟨?_, ?_⟩
    · rw [e2]
      simp only [Header.encode, hne, hlenmod, hclenmod, htsb]
      rw [h6, h8, e1, hm1, hm2, hver, hkt, hkc, hk, hkd]
      simp [be16, KIND_TYPES, KIND_CODE, KIND_CONTAINER, KIND_DATA, KIND_TERMINAL]
    · rw [e2]
      exact ⟨htslt, hmod, hcount, hsz.1, by simpa using hmany, by simpa using hcmany, hsz.2.2.2,
        hcsz.2.2.2, hsz.2.2.1, hcsz.2.2.1, e3⟩
  · rename_i hk
    split at hd
    · rename_i hk2
      obtain ⟨e1, e2, e3⟩ := decodeTail_ok hd hbr6.2
      refine ⟨?_, ?_⟩
      · rw [e2]
        simp only [Header.encode, hlenmod, htsb, List.isEmpty_nil, if_true]
        rw [h6, e1, hm1, hm2, hver, hkt, hkc, hk2]
        simp [be16, KIND_TYPES, KIND_CODE, KIND_CONTAINER, KIND_DATA, KIND_TERMINAL]
      · rw [e2]
        exact ⟨htslt, hmod, hcount, hsz.1, by simpa using hmany, by simp, hsz.2.2.2,
          by simp, hsz.2.2.1, by simp, e3⟩
    · simp at hd

theorem headerDecode_ne_panic (input : List Nat) : Header.decode input ≠ .panic := by
  unfold Header.decode
  refine bind_ne_panic (consumeU16_ne_panic _) fun p _ => ?_
  obtain ⟨r1, kind⟩ := p
  dsimp only
  refine ite_err_ne_panic ?_
  refine bind_ne_panic (consumeU8_ne_panic _) fun p _ => ?_
  obtain ⟨r2, v2⟩ := p
  dsimp only
  refine ite_err_ne_panic ?_
  refine bind_ne_panic (consumeU8_ne_panic _) fun p _ => ?_
  obtain ⟨r3, v3⟩ := p
  dsimp only
  refine ite_err_ne_panic ?_
  refine bind_ne_panic (consumeU16_ne_panic _) fun p _ => ?_
  obtain ⟨r4, v4⟩ := p
  dsimp only
  refine ite_err_ne_panic ?_
  refine bind_ne_panic (consumeU8_ne_panic _) fun p _ => ?_
  obtain ⟨r5, v5⟩ := p
  dsimp only
  refine ite_err_ne_panic ?_
  refine bind_ne_panic (consumeSizes_ne_panic _) fun p _ => ?_
  obtain ⟨r6, s6, v6⟩ := p
  dsimp only
  refine ite_err_ne_panic ?_
  refine ite_err_ne_panic ?_
  refine ite_err_ne_panic ?_
  refine bind_ne_panic (consumeU8_ne_panic _) fun p _ => ?_
  obtain ⟨r7, v7⟩ := p
  dsimp only
  split
  · refine bind_ne_panic (consumeSizes_ne_panic _) fun ⟨r8, s8, v8⟩ _ => ?_
    refine ite_err_ne_panic ?_
    refine bind_ne_panic (consumeU8_ne_panic _) fun p _ => ?_
    obtain ⟨r9, v9⟩ := p
    dsimp only
    refine ite_err_ne_panic ?_
    exact decodeTail_ne_panic _ _
  · split
    · exact decodeTail_ne_panic _ _
    · simp

/-! ## header size arithmetic -/

theorem flatten_be16_length (l : List Nat) : (l.map be16).flatten.length = 2 * l.length := by
  induction l with
  | nil => rfl
  | cons a t ih => simp only [List.map_cons, List.flatten_cons, List.length_append, ih,
      be16_length, List.length_cons]; omega

/-- `EofHeader::size` is the length of `EofHeader::encode` (for every header, well-formed or not) -/
theorem encode_length (h : Header) : h.encode.length = h.size := by
  unfold Header.encode Header.size
  by_cases he : h.containerSizes.isEmpty = true
  · simp only [he, if_true, List.length_append, be16_length, flatten_be16_length,
      List.length_cons, List.length_nil]
  · simp only [he, if_false, List.length_append, be16_length, flatten_be16_length,
      List.length_cons, List.length_nil, Bool.false_eq_true]; omega

theorem size_ge (h : Header) : 13 + 2 * h.codeSizes.length ≤ h.size := by
  unfold Header.size; split <;> omega

/-- `data_size_raw_i` points at the two bytes that hold `data_size` -/
theorem dataSizeRawI_spec (h : Header) :
    (h.encode.drop h.dataSizeRawI).take 2 = be16 h.dataSize := by
  have hl := encode_length h
  have hs := size_ge h
  unfold Header.dataSizeRawI
  unfold Header.encode at hl ⊢
  generalize hp : be16 0xEF00 ++ [0x01] ++ [KIND_TYPES] ++ be16 h.typesSize ++ [KIND_CODE] ++
    be16 (h.codeSizes.length % 65536) ++ (h.codeSizes.map be16).flatten ++
    (if h.containerSizes.isEmpty then [KIND_DATA]
     else [KIND_CONTAINER] ++ be16 (h.containerSizes.length % 65536) ++
          (h.containerSizes.map be16).flatten ++ [KIND_DATA]) = pre at hl ⊢
  simp only [List.length_append, be16_length, List.length_cons, List.length_nil] at hl
  have : h.size - 3 = pre.length := by omega
  rw [this, List.append_assoc, List.drop_left]
  simp [be16]

/-! ## body -/

theorem slice_ok {input s : List Nat} {a b : Nat} (h : slice input a b = .ok s) :
    a ≤ b ∧ b ≤ input.length ∧ s = (input.drop a).take (b - a) := by
  unfold slice at h
  split at h
  · rename_i hc; simp only [R.ok.injEq] at h; exact ⟨hc.1, hc.2, h.symm⟩
  · simp at h

theorem sliceFrom_ok {input s : List Nat} {a : Nat} (h : sliceFrom input a = .ok s) :
    a ≤ input.length ∧ s = input.drop a := by
  unfold sliceFrom at h
  split at h
  · rename_i hc; simp only [R.ok.injEq] at h; exact ⟨hc, h.symm⟩
  · simp at h

theorem sliceSections_ok (input : List Nat) : ∀ (sizes : List Nat) (start : Nat)
    (acc secs : List (List Nat)) (start' : Nat),
    sliceSections input sizes start acc = .ok (secs, start') → start ≤ input.length →
    ∃ new, secs = acc.reverse ++ new ∧ new.map List.length = sizes ∧ start' = start + sizes.sum ∧
      new.flatten = (input.drop start).take sizes.sum ∧ start' ≤ input.length
  | [], start, acc, secs, start', h, hs => by
    simp only [sliceSections, R.ok.injEq, Prod.mk.injEq] at h
    exact ⟨[], by simp [h.1, ← h.2, hs]⟩
  | size :: sizes, start, acc, secs, start', h, hs => by
    simp only [sliceSections] at h
    rw [bind_eq_ok] at h
    obtain ⟨s, h1, h2⟩ := h
    obtain ⟨_, hle, hs1⟩ := slice_ok h1
    obtain ⟨new, e1, e2, e3, e4, e5⟩ := sliceSections_ok input sizes _ _ _ _ h2 hle
    refine ⟨s :: new, by simp [e1], ?_, by simp [e3, Nat.add_assoc], ?_, e5⟩
    · simp only [List.map_cons, e2, List.cons.injEq, and_true, hs1, List.length_take,
        List.length_drop]; omega
    · rw [List.flatten_cons, e4, hs1, List.sum_cons, List.take_add, List.drop_drop]
      congr 2
      omega

theorem sliceSections_ne_panic (input : List Nat) : ∀ (sizes : List Nat) (start : Nat)
    (acc : List (List Nat)), start + sizes.sum ≤ input.length →
    sliceSections input sizes start acc ≠ .panic
  | [], _, _, _ => by simp [sliceSections]
  | size :: sizes, start, acc, h => by
    simp only [sliceSections]
    simp only [List.sum_cons] at h
    refine bind_ne_panic ?_ fun s _ => sliceSections_ne_panic input sizes _ _ (by omega)
    unfold slice
    rw [if_pos ⟨by omega, by omega⟩]
    simp

theorem split5 (l : List Nat) (a b c d : Nat) :
    l = l.take a ++ ((l.drop a).take b ++ ((l.drop (a + b)).take c ++
      ((l.drop (a + b + c)).take d ++ l.drop (a + b + c + d)))) := by
  have h1 : l.drop (a + b) = (l.drop a).drop b := by rw [List.drop_drop]
  have h2 : l.drop (a + b + c) = (l.drop (a + b)).drop c := by rw [List.drop_drop]
  have h3 : l.drop (a + b + c + d) = (l.drop (a + b + c)).drop d := by rw [List.drop_drop]
  rw [h3, List.take_append_drop, h2, List.take_append_drop, h1, List.take_append_drop,
    List.take_append_drop]

/-- facts about a decoded body, relative to its header -/
structure BodyWf (h : Header) (b : Body) : Prop where
  types_len : b.typesSection.length = h.codeSizes.length
  types_ok : ∀ t ∈ b.typesSection, TypesOk t
  code_len : b.codeSection.map List.length = h.codeSizes
  cont_len : b.containerSection.map List.length = h.containerSizes
  data_le : b.dataSection.length ≤ h.dataSize
  filled : b.isDataFilled = (b.dataSection.length == h.dataSize)

theorem bodyDecode_ok {input : List Nat} {h : Header} {b : Body}
    (hd : Body.decode input h = .ok b) (hw : HeaderWf h) (hb : IsBytes input) :
    input = input.take h.size ++ b.encode ∧ BodyWf h b ∧
      input.length = h.size + h.typesSize + h.sumCodeSizes + h.sumContainerSizes +
        b.dataSection.length := by
  unfold Body.decode at hd
  dsimp only at hd
  have hx := ite_err_eq_ok hd; clear hd; obtain ⟨hlo, hd⟩ := hx
  have hx := ite_err_eq_ok hd; clear hd; obtain ⟨hhi, hd⟩ := hx
  rw [bind_eq_ok] at hd
  obtain ⟨ti, h1, hd⟩ := hd
  obtain ⟨hle1, hti⟩ := sliceFrom_ok h1
  rw [bind_eq_ok] at hd
  obtain ⟨types, h2, hd⟩ := hd
  have hbti : IsBytes ti := by rw [hti]; exact isBytes_drop hb _
  obtain ⟨tnew, t1, t2, t3, t4, t5⟩ := decodeTypes_ok _ _ _ _ h2 hbti
  simp only [List.reverse_nil, List.nil_append] at t1
  subst t1
  rw [bind_eq_ok] at hd
  obtain ⟨⟨codes, st1⟩, h3, hd⟩ := hd
  dsimp only at hd
  have hT : 4 * h.typesCount = h.typesSize := by
    have := hw.types_mod; unfold Header.typesCount; omega
  obtain ⟨cnew, c1, c2, c3, c4, c5⟩ := sliceSections_ok input _ _ _ _ _ h3 (by omega)
  simp only [List.reverse_nil, List.nil_append] at c1
  subst c1
  rw [bind_eq_ok] at hd
  obtain ⟨⟨conts, st2⟩, h4, hd⟩ := hd
  dsimp only at hd
  obtain ⟨knew, k1, k2, k3, k4, k5⟩ := sliceSections_ok input _ _ _ _ _ h4 c5
  simp only [List.reverse_nil, List.nil_append] at k1
  subst k1
  rw [bind_eq_ok] at hd
  obtain ⟨data, h5, hd⟩ := hd
  obtain ⟨hle5, hdata⟩ := sliceFrom_ok h5
  simp only [pure_def, R.ok.injEq] at hd
  subst hd
  have hsc := hw.sum_code
  have hsk := hw.sum_cont
  have hdl : data.length = input.length - st2 := by rw [hdata, List.length_drop]
  refine ⟨?_, ⟨?_, t5, c2, k2, ?_, rfl⟩, ?_⟩
  · simp only [Body.encode]
    rw [t3, c4, k4, hdata, hti, hT, k3, c3, ← hsc, ← hsk, List.append_assoc, List.append_assoc]
    exact split5 input h.size h.typesSize h.sumCodeSizes h.sumContainerSizes
  · rw [t2, hw.code_count]; rfl
  · simp only []; omega
  · simp only []; omega

theorem bodyDecode_ne_panic {input : List Nat} {h : Header} (hw : HeaderWf h) :
    Body.decode input h ≠ .panic := by
  unfold Body.decode
  dsimp only
  by_cases hlo : input.length < h.size + (h.sumCodeSizes + h.sumContainerSizes + h.typesSize)
  · rw [if_pos hlo]; simp
  rw [if_neg hlo]
  refine ite_err_ne_panic ?_
  have hsc := hw.sum_code
  have hsk := hw.sum_cont
  refine bind_ne_panic (by unfold sliceFrom; rw [if_pos (by omega)]; simp) fun ti _ => ?_
  refine bind_ne_panic (decodeTypes_ne_panic _ _ _) fun types _ => ?_
  refine bind_ne_panic (sliceSections_ne_panic _ _ _ _ (by omega)) fun p hp => ?_
  obtain ⟨codes, st1⟩ := p
  dsimp only
  obtain ⟨_, _, _, c3, _, _⟩ := sliceSections_ok input _ _ _ _ _ hp (by omega)
  refine bind_ne_panic (sliceSections_ne_panic _ _ _ _ (by omega)) fun p hp2 => ?_
  obtain ⟨conts, st2⟩ := p
  dsimp only
  obtain ⟨_, _, _, k3, _, k5⟩ := sliceSections_ok input _ _ _ _ _ hp2 (by omega)
  refine bind_ne_panic (by unfold sliceFrom; rw [if_pos k5]; simp) fun data _ => ?_
  simp [pure_def]

/-! ## whole container -/

theorem take_encode {h : Header} {rest : List Nat} : (h.encode ++ rest).take h.size = h.encode := by
  rw [← encode_length h, List.take_left]

theorem decode_ok {bs : List Nat} {e : Eof} (hd : Eof.decode bs = .ok e) (hb : IsBytes bs) :
    e.encodeSlow = bs ∧ e.raw = bs ∧ HeaderWf e.header ∧ BodyWf e.header e.body ∧
      bs.length = e.header.size + e.header.typesSize + e.header.sumCodeSizes +
        e.header.sumContainerSizes + e.body.dataSection.length := by
  unfold Eof.decode at hd
  rw [bind_eq_ok] at hd
  obtain ⟨⟨h, rest⟩, h1, hd⟩ := hd
  dsimp only at hd
  rw [bind_eq_ok] at hd
  obtain ⟨b, h2, hd⟩ := hd
  simp only [pure_def, R.ok.injEq] at hd
  subst hd
  obtain ⟨hin, hw⟩ := headerDecode_ok h1 hb
  obtain ⟨e1, e2, e3⟩ := bodyDecode_ok h2 hw hb
  refine ⟨?_, rfl, hw, e2, e3⟩
  simp only [Eof.encodeSlow]
  have : bs.take h.size = h.encode := by rw [hin]; exact take_encode
  rw [← this]; exact e1.symm

theorem decode_ne_panic {bs : List Nat} (hb : IsBytes bs) : Eof.decode bs ≠ .panic := by
  unfold Eof.decode
  refine bind_ne_panic (headerDecode_ne_panic _) fun p hp => ?_
  obtain ⟨h, rest⟩ := p
  dsimp only
  obtain ⟨_, hw⟩ := headerDecode_ok hp hb
  refine bind_ne_panic (bodyDecode_ne_panic hw) fun b _ => ?_
  simp [pure_def]

theorem decodeDangling_ok {bs d : List Nat} {e : Eof}
    (hd : Eof.decodeDangling bs = .ok (e, d)) (hb : IsBytes bs) :
    e.encodeSlow ++ d = bs ∧ e.raw = e.encodeSlow ∧ e.body.isDataFilled = true ∧
      HeaderWf e.header ∧ BodyWf e.header e.body := by
  unfold Eof.decodeDangling at hd
  rw [bind_eq_ok] at hd
  obtain ⟨⟨h, rest⟩, h1, hd⟩ := hd
  dsimp only at hd
  obtain ⟨hin, hw⟩ := headerDecode_ok h1 hb
  have hx := ite_err_eq_ok hd; clear hd; obtain ⟨hsz, hd⟩ := hx
  rw [if_pos (by omega)] at hd
  rw [bind_eq_ok] at hd
  obtain ⟨b, h2, hd⟩ := hd
  simp only [pure_def, R.ok.injEq, Prod.mk.injEq] at hd
  obtain ⟨hd1, hd2⟩ := hd
  subst hd1 hd2
  obtain ⟨e1, e2, e3⟩ := bodyDecode_ok h2 hw (isBytes_take hb _)
  have htk : (bs.take (h.bodySize + h.size)).take h.size = h.encode := by
    rw [List.take_take, Nat.min_eq_left (by omega), hin]; exact take_encode
  have henc : h.encode ++ b.encode = bs.take (h.bodySize + h.size) := by
    rw [← htk]; exact e1.symm
  refine ⟨?_, ?_, ?_, hw, e2⟩
  · simp only [Eof.encodeSlow, henc, List.take_append_drop]
  · simp only [Eof.encodeSlow, henc]
  · rw [e2.filled]
    simp only [List.length_take] at e3
    simp only [beq_iff_eq]
    rw [Nat.min_eq_left (by omega)] at e3
    unfold Header.bodySize at e3
    omega

theorem decodeDangling_ne_panic {bs : List Nat} (hb : IsBytes bs) :
    Eof.decodeDangling bs ≠ .panic := by
  unfold Eof.decodeDangling
  refine bind_ne_panic (headerDecode_ne_panic _) fun p hp => ?_
  obtain ⟨h, rest⟩ := p
  dsimp only
  obtain ⟨_, hw⟩ := headerDecode_ok hp hb
  by_cases hc : h.bodySize + h.size > bs.length
  · rw [if_pos hc]; simp
  · rw [if_neg hc, if_pos (by omega)]
    refine bind_ne_panic (bodyDecode_ne_panic hw) fun b _ => ?_
    simp [pure_def]

theorem sum_le_of_lt {l : List Nat} {b : Nat} (h : ∀ x ∈ l, 0 < x ∧ x < b) :
    l.sum ≤ l.length * b := by
  induction l with
  | nil => simp
  | cons a t ih =>
    have ha := (h a (List.mem_cons_self ..)).2
    have := ih (fun x hx => h x (List.mem_cons_of_mem _ hx))
    simp only [List.sum_cons, List.length_cons, Nat.add_mul]
    omega

theorem decoded_sizes {bs : List Nat} {e : Eof} (h : Eof.decode bs = .ok e) (hb : IsBytes bs) :
    bs.length = e.header.size + e.header.typesSize + e.header.sumCodeSizes +
        e.header.sumContainerSizes + e.body.dataSection.length ∧
    bs.length ≤ e.header.eofSize ∧
    (e.body.isDataFilled = true ↔ bs.length = e.header.eofSize) ∧
    e.body.typesSection.length = e.body.codeSection.length ∧
    4 * e.body.typesSection.length = e.header.typesSize ∧
    1 ≤ e.body.codeSection.length ∧ e.body.codeSection.length ≤ 1024 ∧
    e.body.containerSection.length ≤ 256 ∧
    e.body.codeSection.map List.length = e.header.codeSizes ∧
    e.body.containerSection.map List.length = e.header.containerSizes ∧
    (∀ c ∈ e.body.codeSection, 0 < c.length ∧ c.length < 65536) ∧
    e.header.sumCodeSizes = e.header.codeSizes.sum ∧
    e.header.sumContainerSizes = e.header.containerSizes.sum ∧
    e.header.eofSize < 2 ^ 32 := by
  obtain ⟨_, _, hw, bw, hlen⟩ := decode_ok h hb
  have hcl : e.body.codeSection.length = e.header.codeSizes.length := by
    rw [← bw.code_len, List.length_map]
  have hkl : e.body.containerSection.length = e.header.containerSizes.length := by
    rw [← bw.cont_len, List.length_map]
  have hdl := bw.data_le
  have h1 := hw.code_count
  have h2 := hw.types_mod
  have h3 := hw.code_pos
  have h4 := hw.code_le
  have h5 := hw.cont_le
  have h6 := hw.types_lt
  have h7 := hw.data_lt
  have hs1 := sum_le_of_lt hw.code_sizes
  have hs2 := sum_le_of_lt hw.cont_sizes
  have hsc := hw.sum_code
  have hsk := hw.sum_cont
  have hsz : e.header.size ≤ 13 + 2 * e.header.codeSizes.length + 3 + 2 * e.header.containerSizes.length := by
    unfold Header.size; split <;> omega
  refine ⟨hlen, ?_, ?_, ?_, ?_, ?_, ?_, ?_, bw.code_len, bw.cont_len, ?_, hsc, hsk, ?_⟩
  · unfold Header.eofSize Header.bodySize; omega
  · rw [bw.filled, beq_iff_eq]; unfold Header.eofSize Header.bodySize; omega
  · rw [bw.types_len, hcl]
  · rw [bw.types_len]; omega
  · omega
  · omega
  · omega
  · intro c hc
    have : c.length ∈ e.header.codeSizes := by
      rw [← bw.code_len]; exact List.mem_map_of_mem hc
    exact hw.code_sizes _ this
  · unfold Header.eofSize Header.bodySize; omega

end Revm.Proofs.Eof
