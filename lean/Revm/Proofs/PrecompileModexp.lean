import Revm.Proofs.Precompile
/-! C23, modexp: the code refines EIP-198 / EIP-2565 on the region without `u64` effects, the exact
characterisation of the length-overflow errors, and the witnesses outside the region. -/
set_option linter.unusedSimpArgs false
set_option linter.unusedVariables false
namespace Revm.Proofs.Precompile
open Revm Revm.Model.Precompile Revm.Model.PrecompileHash
open Revm.Spec.Precompile (highBit adjExpLen multComplexity198 eip198Gas eip2565Gas ceilDiv slice num byteAt ModexpPost modexpFields modexpValue)

/-- a byte string: every element below 256 -/
def ValidBytes (bs : Bytes) : Prop := ∀ b ∈ bs, b < 256

theorem rightPad_valid (n : Nat) (d : Bytes) (h : ValidBytes d) : ValidBytes (rightPad n d) := by
  intro b hb
  unfold rightPad at hb
  rcases List.mem_append.mp hb with h1 | h1
  · exact h b (List.mem_of_mem_take h1)
  · have := (List.mem_replicate.mp h1).2; omega

theorem drop_valid (n : Nat) (d : Bytes) (h : ValidBytes d) : ValidBytes (d.drop n) :=
  fun b hb => h b (List.mem_of_mem_drop hb)
theorem take_valid (n : Nat) (d : Bytes) (h : ValidBytes d) : ValidBytes (d.take n) :=
  fun b hb => h b (List.mem_of_mem_take hb)

theorem num_eq (input : Bytes) (off n : Nat) : num input off n = beNat (rightPad n (input.drop off)) := by
  unfold num; rw [slice_eq]

theorem num_lt (input : Bytes) (off n : Nat) (hv : ValidBytes input) : num input off n < 256 ^ n := by
  rw [num_eq]
  have := beNat_lt _ (rightPad_valid n _ (drop_valid off _ hv))
  rwa [rightPad_length] at this

theorem head_eq (input : Bytes) (bl el : Nat) :
    beNat (leftPad 32 ((rightPadOff 32 (input.drop 96) bl).take (min el 32))) = num input (96 + bl) (min el 32) := by
  unfold rightPadOff
  rw [take_rightPad _ _ _ (Nat.min_le_right _ _), beNat_leftPad _ _ (by rw [rightPad_length]; exact Nat.min_le_right _ _)]
  rw [num_eq, List.drop_drop]

theorem pow256_32 : (256 : Nat) ^ 32 = W := by unfold W; decide

theorem eip2565Gas_ge (bl el ml hp : Nat) : 200 ≤ eip2565Gas bl el ml hp := by
  unfold eip2565Gas; omega

/-- In the region without `u64` effects the code does what EIP-198 / EIP-2565 demand. -/
theorem modexpRun_post (berlin : Bool) (input : Bytes) (gas : Nat) (hv : ValidBytes input)
    (hlen : num input 0 32 + num input 32 32 + num input 64 32 < 2 ^ 61) (hgas : gas < U64 - 1) :
    ModexpPost berlin input gas (modexpRun berlin input gas) := by
  have e0 : beNat (rightPadOff 32 input 0) = num input 0 32 := by unfold rightPadOff; rw [num_eq]
  have e1 : beNat (rightPadOff 32 input 32) = num input 32 32 := by unfold rightPadOff; rw [num_eq]
  have e2 : beNat (rightPadOff 32 input 64) = num input 64 32 := by unfold rightPadOff; rw [num_eq]
  unfold ModexpPost modexpFields modexpRun
  simp only [e0, e1, e2, head_eq]
  have hhp : num input (96 + num input 0 32) (min (num input 32 32) 32) < W := by
    have h1 := num_lt input (96 + num input 0 32) (min (num input 32 32) 32) hv
    have h2 : (256 : Nat) ^ (min (num input 32 32) 32) ≤ 256 ^ 32 := Nat.pow_le_pow_right (by omega) (Nat.min_le_right _ _)
    rw [pow256_32] at h2; omega
  generalize num input (96 + num input 0 32) (min (num input 32 32) 32) = hp at *
  have hm := num_lt input (96 + num input 0 32 + num input 32 32) (num input 64 32) hv
  have hU := U64_val
  have hns : NoIterSat (num input 32 32) := by unfold NoIterSat; omega
  have hbyz := byzantiumGasCalc_eq (num input 0 32) (num input 32 32) (num input 64 32) hp (by omega) (by omega) hhp hns
  have hber := berlinGasCalc_eq (num input 0 32) (num input 32 32) (num input 64 32) hp (by omega) (by omega) hhp hns
  have hge := eip2565Gas_ge (num input 0 32) (num input 32 32) (num input 64 32) hp
  generalize num input 0 32 = bl at *
  generalize num input 32 32 = el at *
  generalize num input 64 32 = ml at *
  have hsat : U64ops.saturatingAdd (U64ops.saturatingAdd bl el) ml = bl + el + ml := by
    unfold U64ops.saturatingAdd; rw [hU]
    have a1 : bl + el < 18446744073709551616 := by omega
    simp only [a1, if_true]
    have a2 : bl + el + ml < 18446744073709551616 := by omega
    simp only [a2, if_true]
  have hisz : ¬ (bl + el + ml > isizeMax) := by unfold isizeMax; omega
  have hbase : List.take bl (rightPad (bl + el + ml) (List.drop 96 input)) = rightPad bl (List.drop 96 input) :=
    take_rightPad _ _ _ (by omega)
  have hexp : List.take el (List.drop bl (rightPad (bl + el + ml) (List.drop 96 input))) =
      rightPad el (List.drop (96 + bl) input) := by
    rw [Nat.add_assoc, drop_rightPad, take_rightPad _ _ _ (by omega), List.drop_drop]
  have hmod : List.drop el (List.drop bl (rightPad (bl + el + ml) (List.drop 96 input))) =
      rightPad ml (List.drop (96 + bl + el) input) := by
    rw [Nat.add_assoc, drop_rightPad, drop_rightPad, List.drop_drop, List.drop_drop, Nat.add_assoc]
  have hb1 : ¬ bl ≥ U64 := by omega
  have hb2 : ¬ ml ≥ U64 := by omega
  have hb3 : ¬ el ≥ U64 := by omega
  simp only [hsat, hisz, and_false, if_false, hbase, hexp, hmod, hb1, hb2, hb3]
  have hlib := modexpLib_padded (rightPad bl (List.drop 96 input)) (rightPad el (List.drop (96 + bl) input))
    (rightPad ml (List.drop (96 + bl + el) input)) ml (by rw [← num_eq]; exact hm)
  rw [← num_eq, ← num_eq, ← num_eq] at hlib
  have hz198 : bl = 0 ∧ ml = 0 → eip198Gas bl el ml hp = 0 := by
    intro ⟨h1, h2⟩; subst h1; subst h2; simp [eip198Gas, multComplexity198]
  have hz2565 : bl = 0 ∧ ml = 0 → eip2565Gas bl el ml hp = 200 := by
    intro ⟨h1, h2⟩; subst h1; subst h2; simp [eip2565Gas, ceilDiv]
  have hnum0 : ml = 0 → num input (96 + bl + el) ml = 0 := by
    intro h; subst h; simp [num, slice, beNat]
  cases berlin
  · simp only [Bool.false_eq_true, if_false]
    rw [hbyz]
    by_cases hc : eip198Gas bl el ml hp > gas
    · simp only [hc, if_true]
      by_cases hz : bl = 0 ∧ ml = 0
      · have := hz198 hz; omega
      · have h0 : ¬ (0 > gas) := by omega
        have hmin : min (eip198Gas bl el ml hp) (U64 - 1) > gas := by omega
        simp only [h0, hz, hmin, if_false, if_true]
    · simp only [hc, if_false]
      have h0 : ¬ (0 > gas) := by omega
      simp only [h0, if_false]
      by_cases hz : bl = 0 ∧ ml = 0
      · obtain ⟨h1, h2⟩ := hz
        subst h1; subst h2
        simp only [and_self, if_true]
        refine ⟨[], ?_, rfl, ?_⟩
        · simp [eip198Gas, multComplexity198]
        · simp [num, slice, beNat, modexpValue]
      · have hmin : ¬ (min (eip198Gas bl el ml hp) (U64 - 1) > gas) := by omega
        have hmin2 : min (eip198Gas bl el ml hp) (U64 - 1) = eip198Gas bl el ml hp := by omega
        simp only [hz, hmin, if_false, hmin2]
        exact ⟨_, if_neg hc, hlib.1, hlib.2⟩
  · simp only [if_true]
    rw [hber]
    by_cases hc : eip2565Gas bl el ml hp > gas
    · simp only [hc, if_true]
      by_cases h0 : 200 > gas
      · simp only [h0, if_true]
      · by_cases hz : bl = 0 ∧ ml = 0
        · have := hz2565 hz; omega
        · have hmin : min (eip2565Gas bl el ml hp) (U64 - 1) > gas := by omega
          simp only [h0, hz, hmin, if_false, if_true]
    · simp only [hc, if_false]
      have h0 : ¬ (200 > gas) := by omega
      simp only [h0, if_false]
      by_cases hz : bl = 0 ∧ ml = 0
      · obtain ⟨h1, h2⟩ := hz
        subst h1; subst h2
        simp only [and_self, if_true]
        refine ⟨[], ?_, rfl, ?_⟩
        · simp [eip2565Gas, ceilDiv]
        · simp [num, slice, beNat, modexpValue]
      · have hmin : ¬ (min (eip2565Gas bl el ml hp) (U64 - 1) > gas) := by omega
        have hmin2 : min (eip2565Gas bl el ml hp) (U64 - 1) = eip2565Gas bl el ml hp := by omega
        simp only [hz, hmin, if_false, hmin2]
        exact ⟨_, if_neg hc, hlib.1, hlib.2⟩

/-- a length ≥ 2^64 makes the EIP-198 price exceed every `u64` gas limit -/
theorem eip198Gas_huge (bl el ml hp : Nat) (h : bl ≥ U64 ∨ ml ≥ U64) : eip198Gas bl el ml hp ≥ U64 := by
  unfold eip198Gas multComplexity198
  have hx : max ml bl ≥ U64 := by omega
  generalize max ml bl = x at *
  rw [U64_val] at *
  have h1 : ¬ x ≤ 64 := by omega
  have h2 : ¬ x ≤ 1024 := by omega
  simp only [h1, h2, if_false, Nat.pow_two]
  have hs : 18446744073709551616 * 18446744073709551616 ≤ x * x := Nat.mul_le_mul hx hx
  have hi : 1 ≤ max (adjExpLen el hp) 1 := by omega
  have hp' : (x * x / 16 + 480 * x - 199680) * 1 ≤ (x * x / 16 + 480 * x - 199680) * max (adjExpLen el hp) 1 :=
    Nat.mul_le_mul (Nat.le_refl _) hi
  generalize (x * x / 16 + 480 * x - 199680) * max (adjExpLen el hp) 1 = p at *
  generalize x * x = s at *
  omega

theorem eip2565Gas_huge (bl el ml hp : Nat) (h : bl ≥ U64 ∨ ml ≥ U64) : eip2565Gas bl el ml hp ≥ U64 := by
  unfold eip2565Gas ceilDiv
  have hx : max bl ml ≥ U64 := by omega
  generalize max bl ml = x at *
  rw [U64_val] at *
  have hw : 2305843009213693952 ≤ (x + 8 - 1) / 8 := by omega
  generalize (x + 8 - 1) / 8 = w at *
  rw [Nat.pow_two]
  have hs : 2305843009213693952 * 2305843009213693952 ≤ w * w := Nat.mul_le_mul hw hw
  have hi : 1 ≤ max (adjExpLen el hp) 1 := by omega
  have hp' : w * w * 1 ≤ w * w * max (adjExpLen el hp) 1 := Nat.mul_le_mul (Nat.le_refl _) hi
  generalize w * w * max (adjExpLen el hp) 1 = p at *
  generalize w * w = s at *
  omega

/-- the header lengths as the code reads them -/
def hdr (input : Bytes) (off : Nat) : Nat := beNat (rightPadOff 32 input off)
theorem hdr_eq_num (input : Bytes) (off : Nat) : hdr input off = num input off 32 := by
  unfold hdr rightPadOff; rw [num_eq]

/-- exactly when `ModexpBaseOverflow` is returned -/
theorem modexp_base_overflow_iff (berlin : Bool) (input : Bytes) (gas : Nat) :
    modexpRun berlin input gas = .err .ModexpBaseOverflow ↔
      ((if berlin then 200 else 0) ≤ gas ∧ num input 0 32 ≥ U64) := by
  rw [← hdr_eq_num]
  unfold modexpRun hdr
  simp only []
  by_cases h0 : (if berlin then 200 else 0) > gas
  · simp only [h0, if_true]; constructor
    · intro h; cases h
    · intro ⟨a, _⟩; omega
  · simp only [h0, if_false]
    by_cases h1 : beNat (rightPadOff 32 input 0) ≥ U64
    · simp only [h1, if_true, true_iff, and_true]; omega
    · simp only [h1, if_false, and_false, iff_false]
      intro h
      repeat' split at h
      all_goals cases h

/-- exactly when `ModexpModOverflow` is returned (also used for the exponent length, as coded) -/
theorem modexp_mod_overflow_iff (berlin : Bool) (input : Bytes) (gas : Nat) :
    modexpRun berlin input gas = .err .ModexpModOverflow ↔
      ((if berlin then 200 else 0) ≤ gas ∧ num input 0 32 < U64 ∧
        (num input 64 32 ≥ U64 ∨ (¬ (num input 0 32 = 0 ∧ num input 64 32 = 0) ∧ num input 32 32 ≥ U64))) := by
  rw [← hdr_eq_num, ← hdr_eq_num, ← hdr_eq_num]
  unfold modexpRun hdr
  simp only []
  by_cases h0 : (if berlin then 200 else 0) > gas
  · simp only [h0, if_true]; constructor
    · intro h; cases h
    · intro ⟨a, _⟩; omega
  · simp only [h0, if_false]
    by_cases h1 : beNat (rightPadOff 32 input 0) ≥ U64
    · simp only [h1, if_true]; constructor
      · intro h; cases h
      · intro ⟨_, b, _⟩; omega
    · simp only [h1, if_false]
      by_cases h2 : beNat (rightPadOff 32 input 64) ≥ U64
      · simp only [h2, if_true, true_iff, true_or, and_true]; omega
      · simp only [h2, if_false, false_or]
        by_cases h3 : beNat (rightPadOff 32 input 0) = 0 ∧ beNat (rightPadOff 32 input 64) = 0
        · simp only [h3, and_self, if_true, not_true_eq_false, false_and, and_false, iff_false]
          intro h; cases h
        · simp only [h3, if_false, not_false_eq_true, true_and]
          by_cases h4 : beNat (rightPadOff 32 input 32) ≥ U64
          · simp only [h4, if_true, true_iff, and_true]; omega
          · simp only [h4, if_false, and_false, iff_false]
            intro h
            repeat' split at h
            all_goals cases h

/-! ### outside the region: the code's price differs from the EIP's (findings) -/

/-- exp_len = 2^63: the `u64` iteration count saturates at 2^64 - 1, the EIP's is 2^66 - 256 -/
theorem iterCount_saturates :
    calculateIterationCount (2 ^ 63) 0 = 2 ^ 64 - 1 ∧ max (adjExpLen (2 ^ 63) 0) 1 = 2 ^ 66 - 256 := by
  decide +kernel

/-- header `base_len = 0, exp_len = 2^63, mod_len = 1` and nothing else -/
def witnessInput : Bytes := toBE 32 0 ++ toBE 32 (2 ^ 63) ++ toBE 32 1

/-- Byzantium pricing, gas limit 922337203685477580 = ⌊(2^64 - 1) / 20⌋: EIP-198 demands
3689348814741910310 (out of gas); the code charges the saturated price and then panics while allocating
2^63 + 1 bytes -/
theorem modexp_byzantium_counterexample :
    modexpRun false witnessInput 922337203685477580 = .panic ∧
    modexpRun false witnessInput 922337203685477579 = .err .OutOfGas ∧
    (modexpFields false witnessInput).cost = 3689348814741910310 ∧
    ¬ ModexpPost false witnessInput 922337203685477580 (modexpRun false witnessInput 922337203685477580) := by
  have h1 : modexpRun false witnessInput 922337203685477580 = .panic := by decide +kernel
  have h2 : modexpRun false witnessInput 922337203685477579 = .err .OutOfGas := by decide +kernel
  have h3 : (modexpFields false witnessInput).cost = 3689348814741910310 := by decide +kernel
  refine ⟨h1, h2, h3, ?_⟩
  unfold ModexpPost
  simp only [h3, h1]
  rw [if_pos (by omega)]
  intro h; cases h

/-- Berlin pricing, gas limit 6148914691236517205 = ⌊(2^64 - 1) / 3⌋: EIP-2565 demands 24595658764946068736 -/
theorem modexp_berlin_counterexample :
    modexpRun true witnessInput 6148914691236517205 = .panic ∧
    modexpRun true witnessInput 6148914691236517204 = .err .OutOfGas ∧
    (modexpFields true witnessInput).cost = 24595658764946068736 ∧
    ¬ ModexpPost true witnessInput 6148914691236517205 (modexpRun true witnessInput 6148914691236517205) := by
  have h1 : modexpRun true witnessInput 6148914691236517205 = .panic := by decide +kernel
  have h2 : modexpRun true witnessInput 6148914691236517204 = .err .OutOfGas := by decide +kernel
  have h3 : (modexpFields true witnessInput).cost = 24595658764946068736 := by decide +kernel
  refine ⟨h1, h2, h3, ?_⟩
  unfold ModexpPost
  simp only [h3, h1]
  rw [if_pos (by omega)]
  intro h; cases h
theorem witnessInput_valid : ValidBytes witnessInput := by
  have h : witnessInput.all (fun b => decide (b < 256)) = true := by decide +kernel
  intro b hb; exact of_decide_eq_true (List.all_eq_true.mp h b hb)
end Revm.Proofs.Precompile
