import Revm.Proofs.EvmRefineRel
import Revm.Proofs.Frame
/-! Congruence of the forward journal operations with respect to `JRel` (part 1: loads, touch), and how each changes
the domain of the state map (`Dom`). -/
set_option linter.unusedSimpArgs false
set_option linter.unusedVariables false
namespace Revm.Proofs.EvmRefine
open Revm Revm.Model Revm.Model.Journal Revm.Spec.JournalAbs Revm.Proofs.Journal

/-- the domain of the state map grows by exactly the addresses of `l` -/
def Dom (s s' : JState) (l : List Addr) : Prop := ∀ b, (s'.state b).isSome = ((s.state b).isSome || l.contains b)

theorem Dom.refl (s : JState) : Dom s s [] := fun b => by simp

theorem Dom.trans {s s1 s2 : JState} {l1 l2 : List Addr} (h1 : Dom s s1 l1) (h2 : Dom s1 s2 l2) : Dom s s2 (l1 ++ l2) := by
  intro b; rw [h2 b, h1 b]; simp [Bool.or_assoc]

theorem Dom.of_state_eq {s s' : JState} (h : s'.state = s.state) : Dom s s' [] := fun b => by rw [h]; simp

theorem Dom.upd {s : JState} {a : Addr} {x y : Acct} (h : s.state a = some x) : Dom s (setAcct s a y) [] := by
  intro b
  by_cases hb : b = a
  · subst hb; simp [setAcct, h]
  · simp [setAcct, hb]

theorem Dom.ins (s : JState) (a : Addr) (y : Acct) : Dom s (setAcct s a y) [a] := by
  intro b
  by_cases hb : b = a
  · subst hb; simp [setAcct]
  · simp [setAcct, hb]

theorem Dom.push {s s' : JState} {e : Entry} (h : pushEntry s e = some s') : Dom s s' [] :=
  Dom.of_state_eq (pushEntry_some h).1

/-- a present address may be added to the list -/
theorem Dom.absorb {s s' : JState} {l : List Addr} {a : Addr} (h : Dom s s' l) (ha : (s.state a).isSome) :
    Dom s s' (a :: l) := by
  intro b
  rw [h b]
  by_cases hb : b = a
  · subst hb; simp [ha]
  · simp [hb]

theorem Dom.perm {s s' : JState} {l l' : List Addr} (h : Dom s s' l) (hl : ∀ b, l.contains b = l'.contains b) :
    Dom s s' l' := fun b => by rw [h b, hl b]

/-- related present accounts -/
abbrev ARel (db : Db) (a : Addr) (x y : Acct) : Prop := EntryRel db a (some x) (some y)

theorem JRel.get {db : Db} {j s : JState} (h : JRel db j s) {a : Addr} {x : Acct} (hx : j.state a = some x) :
    ∃ y, s.state a = some y ∧ ARel db a x y := by
  have := h.ent a
  rw [hx] at this
  cases hs : s.state a with
  | none => rw [hs] at this; exact this.elim
  | some y => rw [hs] at this; exact ⟨y, rfl, this⟩

theorem JRel.get_none {db : Db} {j s : JState} (h : JRel db j s) {a : Addr} (hx : j.state a = none) :
    s.state a = none := by
  have := h.ent a
  rw [hx] at this
  cases hs : s.state a with
  | none => rfl
  | some y => rw [hs] at this; exact this.elim

/-- `load_account`, with the domain -/
theorem loadAccount_dom {db : Db} {s s' : JState} {a : Addr} {c : Bool} (h : loadAccount db s a = some (s', c)) :
    Dom s s' [a] := by
  unfold loadAccount at h
  cases hs : s.state a with
  | some x =>
    rw [hs] at h
    simp only at h
    have d0 : Dom s (setAcct s a { x with cold := false }) [a] := (Dom.upd hs).absorb (by rw [hs]; rfl)
    by_cases hc : x.cold
    · rw [if_pos hc] at h
      cases hp : pushEntry (setAcct s a { x with cold := false }) (.accountWarmed a) with
      | none => rw [hp] at h; simp at h
      | some s1 =>
        rw [hp] at h
        simp only [Option.map_some, Option.some.injEq, Prod.mk.injEq] at h
        rw [← h.1]
        exact (d0.trans (Dom.push hp)).perm (by simp)
    · rw [if_neg hc] at h
      simp only [Option.some.injEq, Prod.mk.injEq] at h
      rw [← h.1]; exact d0
  | none =>
    rw [hs] at h
    change (if (!s.preloaded a) = true then
        (pushEntry (setAcct s a (dbAcct db a)) (.accountWarmed a)).map (·, true)
      else some (setAcct s a (dbAcct db a), false)) = some (s', c) at h
    by_cases hc : (!s.preloaded a) = true
    · rw [if_pos hc] at h
      cases hp : pushEntry (setAcct s a (dbAcct db a)) (.accountWarmed a) with
      | none => rw [hp] at h; simp at h
      | some s1 =>
        rw [hp] at h
        simp only [Option.map_some, Option.some.injEq, Prod.mk.injEq] at h
        rw [← h.1]
        exact ((Dom.ins s a _).trans (Dom.push hp)).perm (by simp)
    · rw [if_neg hc] at h
      simp only [Option.some.injEq, Prod.mk.injEq] at h
      rw [← h.1]; exact Dom.ins s a _

/-- `touch_account` on related accounts -/
theorem touchAccount_rel {db : Db} {j s j' : JState} {a : Addr} {x y x' : Acct} (h : JRel db j s)
    (hx : j.state a = some x) (hy : s.state a = some y) (ht : touchAccount j a x = some (j', x')) :
    ∃ s' y', touchAccount s a y = some (s', y') ∧ JRel db j' s' ∧ j'.state a = some x' ∧ s'.state a = some y' ∧
      ARel db a x' y' ∧ Dom s s' [] := by
  have he : ARel db a x y := by have := h.ent a; rw [hx, hy] at this; exact this
  obtain ⟨e1, e2, e3, e4, e5, e6, e7, e8, e9⟩ := he
  unfold touchAccount at ht ⊢
  rw [← e6]
  by_cases hc : (!x.touched) = true
  · rw [if_pos hc] at ht ⊢
    simp only [bind, Option.bind] at ht ⊢
    cases hp : pushEntry j (.accountTouched a) with
    | none => rw [hp] at ht; simp at ht
    | some j1 =>
      rw [hp] at ht
      simp only [Option.some.injEq, Prod.mk.injEq] at ht
      obtain ⟨h1, h2⟩ := ht
      subst h1; subst h2
      obtain ⟨s1, hps, hs1⟩ := pushEntry_ne (s := s) (e := .accountTouched a) h.sne
      rw [hps]
      have r1 : JRel db j1 s1 := h.of_same (pushEntry_some hp) hs1
      have ar : ARel db a { x with touched := true } { y with touched := true } := ⟨e1, e2, e3, e4, e5, rfl, e7, e8, e9⟩
      refine ⟨_, _, rfl, r1.setAcct a _ _ ar (h.cj a x hx) (h.cs a y hy), by simp [setAcct], by simp [setAcct], ar, ?_⟩
      have hy1 : s1.state a = some y := by rw [hs1.1]; exact hy
      exact ((Dom.push hps).trans (Dom.upd hy1)).perm (by simp)
  · rw [if_neg hc] at ht ⊢
    simp only [Option.some.injEq, Prod.mk.injEq] at ht
    obtain ⟨h1, h2⟩ := ht
    subst h1; subst h2
    exact ⟨s, y, rfl, h, hx, hy, ⟨e1, e2, e3, e4, e5, e6, e7, e8, e9⟩, Dom.refl s⟩

/-- `touch` -/
theorem touch_rel {db : Db} {j s j' : JState} {a : Addr} (h : JRel db j s) (ht : touch j a = some j') :
    ∃ s', touch s a = some s' ∧ JRel db j' s' ∧ Dom s s' [] := by
  unfold touch at ht ⊢
  cases hx : j.state a with
  | none =>
    rw [hx] at ht
    simp only [Option.some.injEq] at ht
    subst ht
    rw [h.get_none hx]
    exact ⟨s, rfl, h, Dom.refl s⟩
  | some x =>
    rw [hx] at ht
    obtain ⟨y, hy, _⟩ := h.get hx
    rw [hy]
    simp only at ht ⊢
    cases hta : touchAccount j a x with
    | none => rw [hta] at ht; simp at ht
    | some p =>
      obtain ⟨j1, x1⟩ := p
      rw [hta] at ht
      simp only [Option.map_some, Option.some.injEq] at ht
      subst ht
      obtain ⟨s', y', hts, hr, _, _, _, hd⟩ := touchAccount_rel h hx hy hta
      rw [hts]
      exact ⟨s', rfl, hr, hd⟩

/-- `load_account` with the domain -/
theorem loadAccount_rel' {db : Db} {j s j' : JState} {a : Addr} {c : Bool} (h : JRel db j s)
    (hdb : ∀ b i, db.basic b = some i → ∀ hh, i.code = some hh → hh = i.codeHash)
    (hl : loadAccount db j a = some (j', c)) :
    ∃ s', loadAccount db s a = some (s', c) ∧ JRel db j' s' ∧ Dom s s' [a] := by
  obtain ⟨s', h1, h2⟩ := loadAccount_rel h hdb hl
  exact ⟨s', h1, h2, loadAccount_dom h1⟩

/-- `load_code` -/
theorem loadCode_rel {db : Db} {j s j' : JState} {a : Addr} {c : Bool} (h : JRel db j s)
    (hdb : ∀ b i, db.basic b = some i → ∀ hh, i.code = some hh → hh = i.codeHash)
    (hl : loadCode db j a = some (j', c)) :
    ∃ s', loadCode db s a = some (s', c) ∧ JRel db j' s' ∧ Dom s s' [a] := by
  simp only [loadCode, bind, Option.bind] at hl ⊢
  cases hla : loadAccount db j a with
  | none => rw [hla] at hl; simp at hl
  | some p =>
    obtain ⟨j1, c1⟩ := p
    rw [hla] at hl
    obtain ⟨s1, hls, r1, d1⟩ := loadAccount_rel' h hdb hla
    rw [hls]
    simp only at hl ⊢
    cases hx : j1.state a with
    | none => rw [hx] at hl; simp at hl
    | some x =>
      rw [hx] at hl
      obtain ⟨y, hy, ar⟩ := r1.get hx
      rw [hy]
      simp only at hl ⊢
      obtain ⟨e1, e2, e3, e4, e5, e6, e7, e8, e9⟩ := ar
      by_cases hcx : x.info.code.isNone = true
      · rw [if_pos hcx] at hl
        simp only [Option.some.injEq, Prod.mk.injEq] at hl
        obtain ⟨hl1, hl2⟩ := hl
        subst hl1; subst hl2
        by_cases hcy : y.info.code.isNone = true
        · rw [if_pos hcy]
          refine ⟨_, rfl, r1.setAcct a _ _ ⟨e1, e2, e3, e4, e5, e6, e7, e8, e9⟩ ?_ ?_, ?_⟩
          · intro c hc; simp at hc; exact hc.symm
          · intro c hc; simp at hc; exact hc.symm
          · exact (d1.trans (Dom.upd hy)).perm (by simp)
        · rw [if_neg hcy]
          refine ⟨_, rfl, ?_, d1⟩
          have := r1.setAcct a { x with info := { x.info with code := some x.info.codeHash } } y
            ⟨e1, e2, e3, e4, e5, e6, e7, e8, e9⟩ (by intro c hc; simp at hc; exact hc.symm) (r1.cs a y hy)
          have hs1 : setAcct s1 a y = s1 := by
            cases s1; simp only [setAcct, JState.mk.injEq, true_and, and_true]
            funext b; by_cases hb : b = a
            · subst hb; simp; exact hy.symm
            · simp [hb]
          rw [hs1] at this; exact this
      · rw [if_neg hcx] at hl
        simp only [Option.some.injEq, Prod.mk.injEq] at hl
        obtain ⟨hl1, hl2⟩ := hl
        subst hl1; subst hl2
        by_cases hcy : y.info.code.isNone = true
        · rw [if_pos hcy]
          refine ⟨_, rfl, ?_, (d1.trans (Dom.upd hy)).perm (by simp)⟩
          have := r1.setAcct a x { y with info := { y.info with code := some y.info.codeHash } }
            ⟨e1, e2, e3, e4, e5, e6, e7, e8, e9⟩ (r1.cj a x hx) (by intro c hc; simp at hc; exact hc.symm)
          have hj1 : setAcct j1 a x = j1 := by
            cases j1; simp only [setAcct, JState.mk.injEq, true_and, and_true]
            funext b; by_cases hb : b = a
            · subst hb; simp; exact hx.symm
            · simp [hb]
          rw [hj1] at this; exact this
        · rw [if_neg hcy]
          exact ⟨_, rfl, r1, d1⟩

end Revm.Proofs.EvmRefine
