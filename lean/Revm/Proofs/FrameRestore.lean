import Revm.Proofs.FrameTotal3
/-! C07 tied to C06: a frame that fails leaves the observable journal state (`AbsEq`) as it was when the frame
was created, up to the documented effects that happen BEFORE the checkpoint. The frame functions are read as
C06 histories (`Spec.JournalAbs.run` over `Op`s) and `revert_restores(_total)` is applied. -/
namespace Revm.Proofs.Frame
open Revm Revm.Model.Journal Revm.Model.Frame Revm.Spec.JournalAbs Revm.Proofs.Journal
set_option linter.unusedSimpArgs false
set_option linter.unusedVariables false

abbrev jrun := Spec.JournalAbs.run
abbrev jstep := Spec.JournalAbs.step

theorem jrun_append {db : Db} (p q : List Op) : ∀ {r r1 : Run}, jrun db r p = some r1 → jrun db r (p ++ q) = jrun db r1 q := by
  induction p with
  | nil => intro r r1 h; simp [jrun, Spec.JournalAbs.run] at h; subst h; rfl
  | cons op rest ih =>
    intro r r1 h
    simp only [jrun, Spec.JournalAbs.run, List.cons_append] at h ⊢
    cases hs : Spec.JournalAbs.step db r op with
    | none => simp [hs] at h
    | some r' => simp only [hs] at h ⊢; exact ih h

theorem adm_append {db : Db} {hs : Addr → Bool} {b : Nat} (p q : List Op) : ∀ {r r1 : Run},
    admissibleRun db hs b r p = true → jrun db r p = some r1 → admissibleRun db hs b r1 q = true →
    admissibleRun db hs b r (p ++ q) = true := by
  induction p with
  | nil => intro r r1 _ h hq; simp [jrun, Spec.JournalAbs.run] at h; subst h; exact hq
  | cons op rest ih =>
    intro r r1 hp h hq
    simp only [jrun, Spec.JournalAbs.run, List.cons_append, admissibleRun, Bool.and_eq_true] at h hp ⊢
    cases hst : Spec.JournalAbs.step db r op with
    | none => simp [hst] at h
    | some r' =>
      simp only [hst] at h hp ⊢
      exact ⟨hp.1, ih hp.2 h hq⟩

theorem adm_single {db : Db} {hs : Addr → Bool} {b : Nat} {r : Run} {op : Op} (h : admissible db hs b r op = true) :
    admissibleRun db hs b r [op] = true := by
  simp only [admissibleRun, h, Bool.true_and]
  cases Spec.JournalAbs.step db r op <;> rfl

/-- the journal operations of the value step of `make_call_frame` -/
def valueOps (inp : CallInputs) : List Op :=
  match inp.value with
  | .transfer v => if v = 0 then [.load inp.target, .touch inp.target] else [.transfer inp.caller inp.target v]
  | .apparent _ => []

theorem callValueStep_run {db : Db} {hs : Addr → Bool} {b : Nat} {s s' : JState} {inp : CallInputs} {e}
    (h : callValueStep db s inp = some (s', e)) (cps : List Checkpoint) :
    jrun db { js := s, cps := cps } (valueOps inp) = some { js := s', cps := cps } ∧
    admissibleRun db hs b { js := s, cps := cps } (valueOps inp) = true := by
  unfold callValueStep at h
  unfold valueOps
  cases hv : inp.value with
  | transfer v =>
    simp only [hv] at h ⊢
    by_cases h0 : v = 0
    · simp only [h0, if_true, bind, Option.bind_eq_some_iff] at h ⊢
      obtain ⟨⟨s1, c⟩, h1, s2, h2, h3⟩ := h
      cases h3
      simp [jrun, Spec.JournalAbs.run, Spec.JournalAbs.step, h1, h2, admissibleRun, admissible]
    · simp only [h0, if_false] at h ⊢
      simp [jrun, Spec.JournalAbs.run, Spec.JournalAbs.step, h, admissibleRun, admissible]
  | apparent v =>
    simp only [hv] at h ⊢
    cases h
    simp [jrun, Spec.JournalAbs.run, admissibleRun]

/-- a call frame that opens: the pre-checkpoint state, and the history inside the checkpoint up to the frame -/
theorem call_frame_path {db : Db} {hs : Addr → Bool} {s s1 : JState} {inp : CallInputs} {o : CallOracle} {cp : Checkpoint}
    (h : makeCallFrame db s inp o = some (s1, .frame cp)) :
    ∃ s0 x pre, loadAccountDelegated db s inp.bytecodeAddr = some (s0, x) ∧ cp = (checkpoint s0).2 ∧
      jrun db { js := (checkpoint s0).1, cps := [cp] } pre = some { js := s1, cps := [cp] } ∧
      admissibleRun db hs 1 { js := (checkpoint s0).1, cps := [cp] } pre = true := by
  simp only [makeCallFrame, makeCallFrameCore] at h
  split at h
  · cases h
  · simp only [bind, Option.bind_eq_some_iff] at h
    obtain ⟨⟨s0, x⟩, h0, ⟨sv, terr⟩, hv, h3⟩ := h
    refine ⟨s0, x, ?_⟩
    split at h3
    · simp only [Option.bind_eq_some_iff] at h3
      obtain ⟨s3, _, h5⟩ := h3; cases h5
    · split at h3
      · split at h3
        · cases h3
        · split at h3
          · cases h3
          · simp only [Option.bind_eq_some_iff] at h3
            obtain ⟨s3, _, h5⟩ := h3; cases h5
      · simp only [callTail, bind, Option.bind_eq_some_iff] at h3
        obtain ⟨⟨s4, c4⟩, h4, acc, hacc, h6⟩ := h3
        obtain ⟨rv, av⟩ := callValueStep_run (hs := hs) (b := 1) hv [(checkpoint s0).2]
        have r4 : jrun db { js := sv, cps := [(checkpoint s0).2] } [.loadCode inp.bytecodeAddr] =
            some { js := s4, cps := [(checkpoint s0).2] } := by
          simp [jrun, Spec.JournalAbs.run, Spec.JournalAbs.step, h4]
        have a4 : admissibleRun db hs 1 { js := sv, cps := [(checkpoint s0).2] } [.loadCode inp.bytecodeAddr] = true :=
          adm_single rfl
        split at h6
        · simp only [if_true, Option.bind_eq_some_iff] at h6
          obtain ⟨s5, _, h8⟩ := h6; cases h8
        · split at h6
          · cases h6
          · split at h6
            · rename_i d hd
              simp only [Option.bind_eq_some_iff] at h6
              obtain ⟨⟨s5, c5⟩, h7, h8⟩ := h6
              cases h8
              have r5 : jrun db { js := s4, cps := [(checkpoint s0).2] } [.loadCode d] =
                  some { js := s5, cps := [(checkpoint s0).2] } := by
                simp [jrun, Spec.JournalAbs.run, Spec.JournalAbs.step, h7]
              have a5 : admissibleRun db hs 1 { js := s4, cps := [(checkpoint s0).2] } [.loadCode d] = true :=
                adm_single rfl
              refine ⟨valueOps inp ++ ([.loadCode inp.bytecodeAddr] ++ [.loadCode d]), h0, rfl, ?_, ?_⟩
              · rw [jrun_append _ _ rv, jrun_append _ _ r4]; exact r5
              · exact adm_append _ _ av rv (adm_append _ _ a4 r4 a5)
            · cases h6
              refine ⟨valueOps inp ++ [.loadCode inp.bytecodeAddr], h0, rfl, ?_, ?_⟩
              · rw [jrun_append _ _ rv]; exact r4
              · exact adm_append _ _ av rv a4

/-- a call that is rejected after its checkpoint was taken (value transfer failure, precompile failure,
EXTDELEGATECALL to a non-EOF target): the history inside the checkpoint, and the revert -/
theorem call_rejected_path {db : Db} {hs : Addr → Bool} {s s1 : JState} {inp : CallInputs} {o : CallOracle} {res : IRes}
    (h : makeCallFrame db s inp o = some (s1, .result res)) (hnok : res.isOk = false) (hnd : res ≠ .callTooDeep) :
    ∃ s0 x pre sMid, loadAccountDelegated db s inp.bytecodeAddr = some (s0, x) ∧
      jrun db { js := (checkpoint s0).1, cps := [(checkpoint s0).2] } pre = some { js := sMid, cps := [(checkpoint s0).2] } ∧
      admissibleRun db hs 1 { js := (checkpoint s0).1, cps := [(checkpoint s0).2] } pre = true ∧
      revert sMid (checkpoint s0).2 = some s1 := by
  simp only [makeCallFrame, makeCallFrameCore] at h
  split at h
  · cases h; exact absurd rfl hnd
  · simp only [bind, Option.bind_eq_some_iff] at h
    obtain ⟨⟨s0, x⟩, h0, ⟨sv, terr⟩, hv, h3⟩ := h
    obtain ⟨rv, av⟩ := callValueStep_run (hs := hs) (b := 1) hv [(checkpoint s0).2]
    refine ⟨s0, x, ?_⟩
    split at h3
    · simp only [Option.bind_eq_some_iff] at h3
      obtain ⟨s3, h4, h5⟩ := h3; cases h5
      exact ⟨valueOps inp, sv, h0, rv, av, h4⟩
    · split at h3
      · split at h3
        · cases h3
        · split at h3
          · rename_i hok
            cases h3; rw [hok] at hnok; cases hnok
          · simp only [Option.bind_eq_some_iff] at h3
            obtain ⟨s3, h4, h5⟩ := h3; cases h5
            exact ⟨valueOps inp, sv, h0, rv, av, h4⟩
      · simp only [callTail, bind, Option.bind_eq_some_iff] at h3
        obtain ⟨⟨s4, c4⟩, h4, acc, hacc, h6⟩ := h3
        have r4 : jrun db { js := sv, cps := [(checkpoint s0).2] } [.loadCode inp.bytecodeAddr] =
            some { js := s4, cps := [(checkpoint s0).2] } := by
          simp [jrun, Spec.JournalAbs.run, Spec.JournalAbs.step, h4]
        have a4 : admissibleRun db hs 1 { js := sv, cps := [(checkpoint s0).2] } [.loadCode inp.bytecodeAddr] = true :=
          adm_single rfl
        split at h6
        · simp only [if_true, Option.bind_eq_some_iff] at h6
          obtain ⟨s5, h7, h8⟩ := h6; cases h8
          exact ⟨valueOps inp ++ [.loadCode inp.bytecodeAddr], s4, h0, by rw [jrun_append _ _ rv]; exact r4,
            adm_append _ _ av rv a4, h7⟩
        · split at h6
          · cases h6; cases hnok
          · split at h6
            · simp only [Option.bind_eq_some_iff] at h6
              obtain ⟨⟨s5, c5⟩, h7, h8⟩ := h6; cases h8
            · cases h6

theorem good_loadAccountDelegated {db : Db} {s s0 : JState} {a : Addr} {x} (hdb : DbBal db) (g : Good s)
    (h0 : loadAccountDelegated db s a = some (s0, x)) : Good s0 := by
  obtain ⟨x1, x2, x3⟩ := x
  obtain ⟨⟨es, p⟩, _⟩ := loadAccountDelegated_pushes (db := db) h0
  exact (g.of_pushes hdb p).1

theorem dbOk_trivial (db : Db) : DbOk db (fun _ => true) := by intro a h; cases h

/-- **an opened call frame that ends with a non-ok result** leaves the observable state as it was right after
the pre-checkpoint `load_account_delegated`, whatever admissible history ran in the frame (nested frames are
`checkpoint` / `commit` / `revert` operations of the history); and `call_return` does not panic -/
theorem call_frame_restored {db : Db} {hasStorage : Addr → Bool} {s s1 : JState} {inp : CallInputs} {o : CallOracle}
    {cp : Checkpoint} (hdb : DbBal db) (hok : DbOk db hasStorage) (g : Good s)
    (h : makeCallFrame db s inp o = some (s1, .frame cp)) (body : List Op) (r : Run)
    (hadm : admissibleRun db hasStorage 1 { js := s1, cps := [cp] } body = true)
    (hrun : jrun db { js := s1, cps := [cp] } body = some r) :
    ∃ s0 x s3, loadAccountDelegated db s inp.bytecodeAddr = some (s0, x) ∧ callReturn r.js cp false = some s3 ∧
      AbsEq db s3 s0 := by
  obtain ⟨s0, x, pre, h0, rfl, rp, ap⟩ := call_frame_path (hs := hasStorage) h
  have g0 := good_loadAccountDelegated hdb g h0
  have := Proofs.Journal.revert_restores_total (db := db) hok (rpre := { js := s0, cps := [] }) (op := .checkpoint)
    (r0 := { js := (checkpoint s0).1, cps := [(checkpoint s0).2] }) (cp := (checkpoint s0).2) (ops := pre ++ body) (r := r)
    (balOk_of hdb g0.bal) g0.refs g0.ne rfl rfl rfl (adm_append _ _ ap rp hadm) ((jrun_append pre body rp).trans hrun)
  obtain ⟨s3, h3, he⟩ := this
  exact ⟨s0, x, s3, h0, by simp [callReturn, h3], he⟩

/-- **a call rejected after its checkpoint** (OutOfFunds / OverflowPayment, PrecompileOOG / PrecompileError,
InvalidExtDelegateCallTarget) leaves the observable state as it was right after `load_account_delegated` -/
theorem call_rejected_restored {db : Db} {s s1 : JState} {inp : CallInputs} {o : CallOracle} {res : IRes}
    (hdb : DbBal db) (g : Good s)
    (h : makeCallFrame db s inp o = some (s1, .result res)) (hnok : res.isOk = false) (hnd : res ≠ .callTooDeep) :
    ∃ s0 x, loadAccountDelegated db s inp.bytecodeAddr = some (s0, x) ∧ AbsEq db s1 s0 := by
  obtain ⟨s0, x, pre, sMid, h0, rp, ap, hr⟩ := call_rejected_path (hs := fun _ => true) h hnok hnd
  have g0 := good_loadAccountDelegated hdb g h0
  refine ⟨s0, x, h0, ?_⟩
  exact Proofs.Journal.revert_restores_core (db := db) (dbOk_trivial db) (rpre := { js := s0, cps := [] }) (op := .checkpoint)
    (r0 := { js := (checkpoint s0).1, cps := [(checkpoint s0).2] }) (cp := (checkpoint s0).2) (ops := pre)
    (r := { js := sMid, cps := [(checkpoint s0).2] })
    (balOk_of hdb g0.bal) rfl rfl rfl ap rp hr

/-! ### create frames -/

/-- the effects of `make_create_frame` / `make_eofcreate_frame` BEFORE the checkpoint: the caller is loaded
(warm), its nonce is bumped, the created address is loaded (warm) -/
def PreCreate (db : Db) (s : JState) (caller created : Addr) (sPre : JState) : Prop :=
  ∃ s1 c n s2 c3, loadAccount db s caller = some (s1, c) ∧ incNonce s1 caller = some (s2, some n) ∧
    loadAccount db s2 created = some (sPre, c3)

theorem loadAccount_info {db : Db} {s s' : JState} {a : Addr} {c : Bool} (h : loadAccount db s a = some (s', c)) :
    ∀ b acc, s.state b = some acc → ∃ acc', s'.state b = some acc' ∧ acc'.info = acc.info := by
  intro b acc hb
  unfold loadAccount at h
  cases hs : s.state a with
  | some acca =>
    simp only [hs] at h
    have key : ∃ acc', (setAcct s a { acca with cold := false }).state b = some acc' ∧ acc'.info = acc.info := by
      by_cases e : b = a
      · subst e; rw [hs] at hb; cases hb; exact ⟨_, setAcct_state_same _ _ _, rfl⟩
      · exact ⟨acc, by rw [setAcct_state_ne _ _ e]; exact hb, rfl⟩
    split at h
    · simp only [Option.map_eq_some_iff] at h
      obtain ⟨sp, hp, he⟩ := h; cases he
      rw [(pushEntry_ne hp).2]; exact key
    · cases h; exact key
  | none =>
    simp only [hs] at h
    have hne : ¬ b = a := by intro e; subst e; rw [hs] at hb; cases hb
    split at h
    · simp only [Option.map_eq_some_iff] at h
      obtain ⟨sp, hp, he⟩ := h; cases he
      rw [(pushEntry_ne hp).2]; exact ⟨acc, by rw [setAcct_state_ne _ _ hne]; exact hb, rfl⟩
    · cases h; exact ⟨acc, by rw [setAcct_state_ne _ _ hne]; exact hb, rfl⟩

theorem incNonce_balance {db : Db} {s s' : JState} {a : Addr} {r} (h : incNonce s a = some (s', r)) {acc : Acct}
    (ha : s.state a = some acc) : ∃ acc', s'.state a = some acc' ∧ acc'.info.balance = acc.info.balance := by
  simp only [incNonce, ha, bind, Option.bind_some] at h
  split at h
  · cases h; exact ⟨acc, ha, rfl⟩
  · simp only [Option.bind_eq_some_iff] at h
    obtain ⟨⟨s1, acc1⟩, h1, s2, h2, h3⟩ := h
    obtain ⟨_, _, hacc1, _⟩ := touchAccount_pushes (db := db) ha h1
    cases h3
    exact ⟨_, setAcct_state_same _ _ _, by subst hacc1; rfl⟩

theorem preCreate_funded {db : Db} {s1 s2 s3 : JState} {caller created : Addr} {cacc : Acct} {v : Nat} {r} {c3 : Bool}
    (hc : s1.state caller = some cacc) (hb : ¬ cacc.info.balance < v)
    (hn : incNonce s1 caller = some (s2, r)) (hl : loadAccount db s2 created = some (s3, c3)) :
    ∀ acc, s3.state caller = some acc → v ≤ acc.info.balance := by
  intro acc hacc
  obtain ⟨acc2, h2, hb2⟩ := incNonce_balance (db := db) hn hc
  obtain ⟨acc3, h3, hi3⟩ := loadAccount_info hl caller acc2 h2
  rw [hacc] at h3; cases h3
  rw [hi3, hb2]; omega

/-- `create_tail` that opens a frame: the created address is loaded, then `create_account_checkpoint` succeeds -/
theorem createTail_frame {db : Db} {s2 s1 : JState} {spec caller v created : Nat} {ip hs : Addr → Bool} {cp : Checkpoint} {a : Addr}
    (h : createTail db s2 spec caller v created ip hs = some (s1, .frame cp, a)) :
    a = created ∧ ∃ s3 c, loadAccount db s2 created = some (s3, c) ∧
      createAccountCheckpoint s3 caller created (hs created) v spec = some (s1, .ok cp) := by
  simp only [createTail] at h
  split at h
  · cases h
  · simp only [bind, Option.bind_eq_some_iff] at h
    obtain ⟨⟨s3, c⟩, h1, ⟨s4, r⟩, h2, h3⟩ := h
    cases r with
    | ok cp' => simp only at h3; cases h3; exact ⟨rfl, s3, c, h1, h2⟩
    | error e => simp only at h3; cases h3

/-- `create_tail` rejected inside `create_account_checkpoint` (collision found there, or balance overflow) -/
theorem createTail_rejected {db : Db} {s2 s1 : JState} {spec caller v created : Nat} {ip hs : Addr → Bool} {res : IRes} {a : Addr}
    (h : createTail db s2 spec caller v created ip hs = some (s1, .result res, a)) (hip : ip created = false) :
    ∃ s3 c e, loadAccount db s2 created = some (s3, c) ∧
      createAccountCheckpoint s3 caller created (hs created) v spec = some (s1, .error e) := by
  simp only [createTail, hip, Bool.false_eq_true, if_false] at h
  simp only [bind, Option.bind_eq_some_iff] at h
  obtain ⟨⟨s3, c⟩, h1, ⟨s4, r⟩, h2, h3⟩ := h
  cases r with
  | ok cp' => simp only at h3; cases h3
  | error e => simp only at h3; cases h3; exact ⟨s3, c, e, h1, h2⟩

/-- what C06 asks of a creation (`admissible`): the target is not already marked created in this transaction and
the `has_storage` answer is faithful; that the caller covers the endowment is established by the frame function -/
structure CreateAdm (hasStorage : Addr → Bool) (sPre : JState) (created : Addr) (hsAns : Bool) : Prop where
  fresh : ∀ acc, sPre.state created = some acc → acc.created = false
  faithful : hsAns = true ∨ hasStorage created = false

theorem create_admissible {db : Db} {hasStorage : Addr → Bool} {sPre : JState} {caller created : Addr} {hsAns : Bool} {v spec : Nat}
    (ca : CreateAdm hasStorage sPre created hsAns)
    (hf : ∀ acc, sPre.state caller = some acc → v ≤ acc.info.balance) (cps : List Checkpoint) :
    admissible db hasStorage 0 { js := sPre, cps := cps } (.create caller created hsAns v spec) = true := by
  simp only [admissible, Bool.and_eq_true, Bool.or_eq_true, Bool.not_eq_true']
  refine ⟨⟨?_, ca.faithful⟩, ?_⟩
  · cases hs : sPre.state created with
    | none => rfl
    | some acc => simp [ca.fresh acc hs]
  · cases hs : sPre.state caller with
    | none => rfl
    | some acc => simp [hf acc hs]

/-- core: after a successful `create_account_checkpoint` from `sPre`, any admissible history, then a revert of
its checkpoint: the observable state is `sPre` again, and the revert does not panic -/
theorem created_then_reverted {db : Db} {hasStorage : Addr → Bool} {sPre s1 : JState} {caller created : Addr} {hsAns : Bool}
    {v spec : Nat} {cp : Checkpoint} (hdb : DbBal db) (hok : DbOk db hasStorage) (g : Good sPre)
    (ca : CreateAdm hasStorage sPre created hsAns)
    (hf : ∀ acc, sPre.state caller = some acc → v ≤ acc.info.balance)
    (hc : createAccountCheckpoint sPre caller created hsAns v spec = some (s1, .ok cp))
    (body : List Op) (r : Run)
    (hadm : admissibleRun db hasStorage 1 { js := s1, cps := [cp] } body = true)
    (hrun : jrun db { js := s1, cps := [cp] } body = some r) :
    ∃ sR, revert r.js cp = some sR ∧ AbsEq db sR sPre := by
  exact Proofs.Journal.revert_restores_total (db := db) hok (rpre := { js := sPre, cps := [] })
    (op := .create caller created hsAns v spec) (r0 := { js := s1, cps := [cp] }) (cp := cp) (ops := body) (r := r)
    (balOk_of hdb g.bal) g.refs g.ne (create_admissible ca hf []) (by simp [Spec.JournalAbs.step, hc]) rfl hadm hrun

theorem good_preCreate {db : Db} {s sPre : JState} {caller created : Addr} (hdb : DbBal db) (g : Good s)
    (hp : PreCreate db s caller created sPre) : Good sPre := by
  obtain ⟨s1, c, n, s2, c3, h1, h2, h3⟩ := hp
  obtain ⟨p1, _⟩ := loadAccount_pushes (db := db) h1
  have g1 := (g.of_pushes hdb p1).1
  obtain ⟨es, p2, _⟩ := incNonce_pushes (db := db) h2
  have g2 := (g1.of_pushes hdb p2).1
  obtain ⟨p3, _⟩ := loadAccount_pushes (db := db) h3
  exact (g2.of_pushes hdb p3).1

/-- `make_create_frame` that opens a frame, as pre-checkpoint effects + `create_account_checkpoint` -/
theorem makeCreateFrame_frame {db : Db} {s s1 : JState} {spec : Nat} {inp : CreateInputs} {o : CreateOracle} {cp : Checkpoint} {a : Addr}
    (h : makeCreateFrame db s spec inp o = some (s1, .frame cp, a)) :
    ∃ sPre, PreCreate db s inp.caller a sPre ∧
      createAccountCheckpoint sPre inp.caller a (o.hasStorage a) inp.value spec = some (s1, .ok cp) ∧
      (∀ acc, sPre.state inp.caller = some acc → inp.value ≤ acc.info.balance) := by
  simp only [makeCreateFrame] at h
  split at h
  · cases h
  · split at h
    · cases h
    · simp only [bind, Option.bind_eq_some_iff] at h
      obtain ⟨⟨s1', c⟩, h1, cacc, h2, h3⟩ := h
      split at h3
      · cases h3
      · rename_i hb
        simp only [Option.bind_eq_some_iff] at h3
        obtain ⟨⟨s2, n⟩, h4, h5⟩ := h3
        cases n with
        | none => simp only at h5; cases h5
        | some nonce =>
          simp only at h5
          obtain ⟨rfl, s3, c3, h6, h7⟩ := createTail_frame h5
          exact ⟨s3, ⟨s1', c, nonce, s2, c3, h1, h4, h6⟩, h7, preCreate_funded h2 hb h4 h6⟩

/-- **a create frame that ends without deploying code** (init code reverted / halted, EF first byte, size limit,
deposit failure): the observable state is the one right before `create_account_checkpoint` - i.e. the state at the
CREATE up to the caller being warm with its nonce bumped and the created address being warm -, whatever admissible
history ran in the frame -/
theorem create_frame_restored {db : Db} {hasStorage : Addr → Bool} {s s1 : JState} {spec : Nat} {inp : CreateInputs}
    {o : CreateOracle} {cp : Checkpoint} {a : Addr} (hdb : DbBal db) (hok : DbOk db hasStorage) (g : Good s)
    (h : makeCreateFrame db s spec inp o = some (s1, .frame cp, a))
    (hadmc : ∀ sPre, PreCreate db s inp.caller a sPre → CreateAdm hasStorage sPre a (o.hasStorage a))
    (body : List Op) (r : Run)
    (hadm : admissibleRun db hasStorage 1 { js := s1, cps := [cp] } body = true)
    (hrun : jrun db { js := s1, cps := [cp] } body = some r) :
    ∃ sPre sR, PreCreate db s inp.caller a sPre ∧ revert r.js cp = some sR ∧ AbsEq db sR sPre ∧
      ∀ ret s3 res, createReturn r.js spec cp a ret = some (s3, res) → res ≠ .ret → s3 = sR := by
  obtain ⟨sPre, hp, hc, hf⟩ := makeCreateFrame_frame h
  obtain ⟨sR, hr, he⟩ := created_then_reverted hdb hok (good_preCreate hdb g hp) (hadmc sPre hp) hf hc body r hadm hrun
  refine ⟨sPre, sR, hp, hr, he, ?_⟩
  intro ret s3 res h3 hne
  simp only [createReturn, hr] at h3
  repeat' split at h3
  all_goals first
    | (simp only [Option.map_some, Option.some.injEq, Prod.mk.injEq] at h3; exact h3.1.symm)
    | (simp only [bind, Option.bind_eq_some_iff] at h3
       obtain ⟨_, _, h5⟩ := h3
       cases h5; exact absurd rfl hne)

/-- `make_eofcreate_frame` that opens a frame (EOFCREATE, or a create transaction with a valid container) -/
theorem makeEofCreateFrame_frame {db : Db} {s s1 : JState} {spec : Nat} {inp : CreateInputs} {kind : EofCreateKind}
    {o : CreateOracle} {cp : Checkpoint} {a : Addr}
    (h : makeEofCreateFrame db s spec inp kind o = some (s1, .frame cp, a)) :
    ∃ sPre, PreCreate db s inp.caller a sPre ∧
      createAccountCheckpoint sPre inp.caller a (o.hasStorage a) inp.value spec = some (s1, .ok cp) ∧
      (∀ acc, sPre.state inp.caller = some acc → inp.value ≤ acc.info.balance) := by
  simp only [makeEofCreateFrame] at h
  split at h
  · cases h
  · cases h
  · rename_i s0 createdOpt hpre
    have e0 : s0 = s := by
      split at hpre
      · cases hpre; rfl
      · split at hpre
        · simp only [bind, Option.bind_eq_some_iff] at hpre
          obtain ⟨⟨s2, n⟩, _, h2⟩ := hpre
          cases h2
        · cases hpre; rfl
    subst e0
    split at h
    · cases h
    · simp only [bind, Option.bind_eq_some_iff] at h
      obtain ⟨⟨s1', c⟩, h1, cacc, h2, h3⟩ := h
      split at h3
      · cases h3
      · rename_i hb
        simp only [Option.bind_eq_some_iff] at h3
        obtain ⟨⟨s2, n⟩, h4, h5⟩ := h3
        cases n with
        | none => simp only at h5; cases h5
        | some nonce =>
          simp only at h5
          obtain ⟨rfl, s3, c3, h6, h7⟩ := createTail_frame h5
          exact ⟨s3, ⟨s1', c, nonce, s2, c3, h1, h4, h6⟩, h7, preCreate_funded h2 hb h4 h6⟩

/-- **an EOF create frame that does not end with RETURNCONTRACT / fails the size or deposit check** -/
theorem eofcreate_frame_restored {db : Db} {hasStorage : Addr → Bool} {s s1 : JState} {spec : Nat} {inp : CreateInputs}
    {kind : EofCreateKind} {o : CreateOracle} {cp : Checkpoint} {a : Addr} (hdb : DbBal db) (hok : DbOk db hasStorage) (g : Good s)
    (h : makeEofCreateFrame db s spec inp kind o = some (s1, .frame cp, a))
    (hadmc : ∀ sPre, PreCreate db s inp.caller a sPre → CreateAdm hasStorage sPre a (o.hasStorage a))
    (body : List Op) (r : Run)
    (hadm : admissibleRun db hasStorage 1 { js := s1, cps := [cp] } body = true)
    (hrun : jrun db { js := s1, cps := [cp] } body = some r) :
    ∃ sPre sR, PreCreate db s inp.caller a sPre ∧ revert r.js cp = some sR ∧ AbsEq db sR sPre ∧
      ∀ ret s3 res, eofcreateReturn r.js cp a ret = some (s3, res) → res ≠ .returnContract → s3 = sR := by
  obtain ⟨sPre, hp, hc, hf⟩ := makeEofCreateFrame_frame h
  obtain ⟨sR, hr, he⟩ := created_then_reverted hdb hok (good_preCreate hdb g hp) (hadmc sPre hp) hf hc body r hadm hrun
  refine ⟨sPre, sR, hp, hr, he, ?_⟩
  intro ret s3 res h3 hne
  simp only [eofcreateReturn, hr] at h3
  repeat' split at h3
  all_goals first
    | (simp only [Option.map_some, Option.some.injEq, Prod.mk.injEq] at h3; exact h3.1.symm)
    | (cases h3; done)
    | (simp only [bind, Option.bind_eq_some_iff] at h3
       obtain ⟨_, _, h5⟩ := h3
       cases h5; exact absurd rfl hne)

/-- **a creation rejected inside `create_account_checkpoint`** (collision with an existing account, endowment
overflow): the checkpoint it took is reverted, the observable state is the one right before it -/
theorem create_rejected_restored {db : Db} {hasStorage : Addr → Bool} {sPre s1 : JState} {caller created : Addr} {hsAns : Bool}
    {v spec : Nat} {e : CreateErr} (hdb : DbBal db) (hok : DbOk db hasStorage) (g : Good sPre)
    (ca : CreateAdm hasStorage sPre created hsAns)
    (hf : ∀ acc, sPre.state caller = some acc → v ≤ acc.info.balance)
    (hc : createAccountCheckpoint sPre caller created hsAns v spec = some (s1, .error e)) : AbsEq db s1 sPre := by
  have p := create_pushes (db := db) hok (balOk_of hdb g.bal) ca.fresh ca.faithful hf hc
  simp only at p
  have hu := p.undo
  simp only [undoTs] at hu
  exact absEq_of_absT hu p.logs

end Revm.Proofs.Frame
