import Revm.Proofs.EvmInstWrapPrep
import Revm.Proofs.EvmInstWrapLoop
/-! Instantiating C28 with the whole-EVM model, part 4c: the simulation relation between the concrete frame loop
(`Evm.runLoop` / `Evm.runEnded`: a stack of `Evm.Frame κ`, the shared memory inside the TOP frame's `interp.mem`) and the
abstract one (`Machine.loop`: a stack of abstract frames whose interpreters own `EMPTY_SHARED_MEMORY`, plus the shared
memory as a separate value), and the simulation of the frame handlers: outcome delivery, frame return, frame creation. -/
namespace Revm.Proofs.EvmInstWrap
open Revm Revm.Model Revm.Model.Evm
open Revm.Model.InspectorWrap (Machine LoopNext FrameResult)

variable {κ : Type}

/-! ## the relation -/

def kindOf : FrameKind → InspectorWrap.Kind
  | .call _ _ => .call
  | .create _ => .create

/-- the abstract frame carries the concrete frame's kind and checkpoint -/
structure KindRel (a : AFrame κ) (cf : Frame κ) : Prop where
  kind : a.kind = kindOf cf.kind
  data : a.data = (cf.kind, cf.checkpoint)

/-- … and its interpreter, read on the concrete frame's memory, is the concrete interpreter -/
structure FrameRel (a : AFrame κ) (cf : Frame κ) : Prop extends KindRel a cf where
  interp : sync a.interp cf.interp.mem = cf.interp

def StackRel : List (AFrame κ) → List (Frame κ) → Prop
  | [], [] => True
  | a :: as, c :: cs => FrameRel a c ∧ StackRel as cs
  | _, _ => False

/-- the kind of the first frame of the transaction (the bottom of the stack) -/
def bottomKind : Frame κ → List (Frame κ) → FrameKind
  | top, [] => top.kind
  | _, p :: rest => bottomKind p rest

def nextBottom : Next κ → Option FrameKind
  | .run (top :: rest) _ => some (bottomKind top rest)
  | .run [] _ => none
  | .ended top rest _ _ _ _ => some (bottomKind top rest)
  | .done _ _ => none

theorem bottomKind_interp (top : Frame κ) (rest : List (Frame κ)) (s : Interp.IState) :
    bottomKind { top with interp := s } rest = bottomKind top rest := by
  cases rest <;> rfl

/-- the `FrameResult` a frame of kind `k` returns (`l`: the `gas.limit` of its interpreter) -/
def frOfKind (k : FrameKind) (l : Nat) (res : Interp.ChildResult) : FrameResult :=
  match k with
  | .call rs re => .call (callOutcomeOf l res rs re)
  | .create _ => .create (createOutcomeOf l res)

/-- a state of the concrete loop against a state of the abstract loop. The abstract top frame's `mem` and `next_action`
are irrelevant (`run` overwrites both); its mirrored fields read on the shared memory give the concrete interpreter.
A concrete `.ended` state (an insertion's `push!` failed) is an abstract top frame whose `instruction_result` is set. -/
inductive Rel : Next κ → List (AFrame κ) → Memory.SharedMemory → ECtx → Prop
  | run {f : AFrame κ} {arest : List (AFrame κ)} {top : Frame κ} {crest : List (Frame κ)}
      {shared : Memory.SharedMemory} {w : World} (hk : KindRel f top) (hs : sync f.interp shared = top.interp)
      (hc : f.interp.instructionResult = .Continue) (hr : StackRel arest crest) :
      Rel (.run (top :: crest) w) (f :: arest) shared { w := w, err := none }
  | ended {f : AFrame κ} {arest : List (AFrame κ)} {top : Frame κ} {crest : List (Frame κ)}
      {r : Interp.IResult} {s : Interp.IState} {shared : Memory.SharedMemory} {w : World} (hk : KindRel f top)
      (hs : sync f.interp shared = s) (hc : f.interp.instructionResult = toIR r) (hne : r ≠ .Continue)
      (hr : StackRel arest crest) :
      Rel (.ended top crest r [] s w) (f :: arest) shared { w := w, err := none }

/-- what `handle_action` answers when the concrete loop goes to `next'`: the first frame returned (`done`), or the loop
continues in a related state -/
def HandleOK (h : ARes (LoopNext (evmTy κ) ECtx)) (next' : Next κ) (bk : FrameKind) : Prop :=
  (∃ res w1 l, next' = .done res w1 ∧ h = .ok (.done (frOfKind bk l res) { w := w1, err := none })) ∨
  (∃ astack' shared' c', h = .ok (.continue astack' shared' c') ∧ Rel next' astack' shared' c' ∧
    nextBottom next' = some bk)

variable (C : CpOps κ) (cfg : Cfg) (lim : Nat)

/-! ## delivering an outcome to the waiting frame -/

theorem deliver_sim (kind : FrameKind) (res : Interp.ChildResult) (l : Nat) (parent : Frame κ)
    (crest : List (Frame κ)) (mem : Memory.SharedMemory) (w : World) (p : AFrame κ) (arest : List (AFrame κ))
    (hp : FrameRel p parent) (hr : StackRel arest crest) (next' : Next κ)
    (h : deliver kind res parent crest mem w = .ok next') :
    ∃ astack' shared' c',
      (evmMachine C cfg lim).insertResult (frOfKind kind l res) (p :: arest) mem { w := w, err := none } =
        .ok (.continue astack' shared' c') ∧
      Rel next' astack' shared' c' ∧ nextBottom next' = some (bottomKind parent crest) := by
  have hsync : sync p.interp mem = { parent.interp with mem := mem } := by rw [← hp.interp]; rfl
  unfold deliver at h
  cases kind with
  | call rs re =>
    have habs : (evmMachine C cfg lim).insertResult (frOfKind (.call rs re) l res) (p :: arest) mem
        { w := w, err := none } =
        (ofInsertCall { w := w, err := none } p
          (Interp.insertCallOutcome rs re res { parent.interp with mem := mem })).bind
          (fun x => .ok (.continue ({ p with interp := x.1 } :: arest) x.2.1 x.2.2)) := by
      simp only [Machine.insertResult, frOfKind, evmMachine]
      unfold evmInsertCall
      simp only [callOutcomeOf, insertCall_childOf, hsync]
      rfl
    rw [habs]
    have hins : insertBy (.call rs re) res { parent.interp with mem := mem } =
        Interp.insertCallOutcome rs re res { parent.interp with mem := mem } := rfl
    rw [hins] at h
    cases hi : Interp.insertCallOutcome rs re res { parent.interp with mem := mem } with
    | ok u s =>
      rw [hi] at h
      simp only [pure, Except.pure, Except.ok.injEq] at h
      subst h
      refine ⟨_, _, _, rfl, ?_, ?_⟩
      · exact Rel.run ⟨hp.kind, hp.data⟩ rfl rfl hr
      · show some (bottomKind { parent with interp := s } crest) = _
        rw [bottomKind_interp]
    | halt r out s =>
      rw [hi] at h
      simp only [pure, Except.pure, Except.ok.injEq] at h
      subst h
      obtain ⟨ho, hne⟩ := insertBy_halt (kind := .call rs re) (hins.trans hi)
      subst ho
      refine ⟨_, _, _, rfl, ?_, rfl⟩
      exact Rel.ended ⟨hp.kind, hp.data⟩ rfl rfl hne hr
    | fault fl =>
      rw [hi] at h
      simp [throw, throwThe, MonadExceptOf.throw] at h
  | create a =>
    have hpar : Interp.insertCreateOutcome res { parent.interp with mem := mem } =
        withMem mem (Interp.insertCreateOutcome res (sync p.interp p.interp.mem)) := by
      rw [← insertCreate_mem]
      show Interp.insertCreateOutcome res _ = Interp.insertCreateOutcome res (sync p.interp mem)
      rw [hsync]
    have habs : (evmMachine C cfg lim).insertResult (frOfKind (.create a) l res) (p :: arest) mem
        { w := w, err := none } =
        (ofInsertCreate { w := w, err := none } p
          (Interp.insertCreateOutcome res (sync p.interp p.interp.mem))).bind
          (fun x => .ok (.continue ({ p with interp := x.1 } :: arest) mem x.2)) := by
      simp only [Machine.insertResult, frOfKind, evmMachine]
      unfold evmInsertCreate
      simp only [createOutcomeOf, childOf_resOfChild]
      rfl
    rw [habs]
    have hins : insertBy (.create a) res { parent.interp with mem := mem } =
        Interp.insertCreateOutcome res { parent.interp with mem := mem } := rfl
    rw [hins, hpar] at h
    have hhalt := fun r out s => insertBy_halt (kind := .create a) (o := res)
      (s0 := { parent.interp with mem := mem }) (s := s) (r := r) (out := out)
    rw [hins, hpar] at hhalt
    cases hi : Interp.insertCreateOutcome res (sync p.interp p.interp.mem) with
    | ok u s =>
      rw [hi] at h
      simp only [withMem, pure, Except.pure, Except.ok.injEq] at h
      subst h
      refine ⟨_, _, _, rfl, ?_, ?_⟩
      · exact Rel.run ⟨hp.kind, hp.data⟩ rfl rfl hr
      · show some (bottomKind { parent with interp := _ } crest) = _
        rw [bottomKind_interp]
    | halt r out s =>
      rw [hi] at h hhalt
      simp only [withMem, pure, Except.pure, Except.ok.injEq] at h
      subst h
      obtain ⟨ho, hne⟩ := hhalt r out _ rfl
      subst ho
      refine ⟨_, _, _, rfl, ?_, rfl⟩
      exact Rel.ended ⟨hp.kind, hp.data⟩ rfl rfl hne hr
    | fault fl =>
      rw [hi] at h
      simp [withMem, throw, throwThe, MonadExceptOf.throw] at h

/-! ## a frame returns -/

/-- `call_return` / `create_return` of the abstract machine on a related frame -/
theorem frameReturn_sim (f' : AFrame κ) (top : Frame κ) (hk : KindRel f' top) (arest : List (AFrame κ))
    (sh : Memory.SharedMemory) (r : Interp.IResult) (out : List Nat) (s : Interp.IState) (w w1 : World)
    (res : Interp.ChildResult) (hc : frameReturn C cfg top w (resultOf r out s) = .ok (res, w1)) :
    (evmMachine C cfg lim).handleAction (.ret { result := toIR r, output := out, gas := s.gas }) f' arest sh
        { w := w, err := none } =
      (evmMachine C cfg lim).insertResult (frOfKind top.kind s.gas.limit res) arest (freeContextT sh)
        { w := w1, err := none } := by
  unfold frameReturn at hc
  have hkind := hk.kind
  have hdata := hk.data
  cases hkd : top.kind with
  | call rs re =>
    rw [hkd] at hc hkind hdata
    simp only [Machine.handleAction, kindOf] at hkind ⊢
    rw [hkind]
    simp only [evmMachine, evmCallReturn, hdata, childOf_ret, hc, ofCallReturn, InspectorWrap.Res.bind, frOfKind]
  | create a =>
    rw [hkd] at hc hkind hdata
    simp only [Machine.handleAction, kindOf] at hkind ⊢
    rw [hkind]
    simp only [evmMachine, evmCreateReturn, hdata, childOf_ret, hc, ofCreateReturn, InspectorWrap.Res.bind, frOfKind]

theorem stackRel_nil_left {crest : List (Frame κ)} (h : StackRel ([] : List (AFrame κ)) crest) : crest = [] := by
  cases crest with
  | nil => rfl
  | cons a b => exact absurd h (by simp [StackRel])

theorem frameEnd_sim (f' : AFrame κ) (top : Frame κ) (crest : List (Frame κ)) (arest : List (AFrame κ))
    (r : Interp.IResult) (out : List Nat) (s : Interp.IState) (w : World) (hk : KindRel f' top)
    (hr : StackRel arest crest) (next' : Next κ) (h : frameEnd C cfg top crest r out s w = .ok next') :
    HandleOK ((evmMachine C cfg lim).handleAction (.ret { result := toIR r, output := out, gas := s.gas }) f' arest
      s.mem { w := w, err := none }) next' (bottomKind top crest) := by
  unfold frameEnd at h
  simp only [bind, Except.bind] at h
  cases hm : freeCtx s.mem with
  | error e => rw [hm] at h; simp at h
  | ok mem =>
    rw [hm] at h
    simp only at h
    cases hc : frameReturn C cfg top w (resultOf r out s) with
    | error e => rw [hc] at h; simp at h
    | ok p =>
      obtain ⟨res, w1⟩ := p
      rw [hc] at h
      simp only at h
      rw [frameReturn_sim C cfg lim f' top hk arest s.mem r out s w w1 res hc, freeCtx_ok hm]
      cases crest with
      | nil =>
        cases arest with
        | nil =>
          simp only [pure, Except.pure, Except.ok.injEq] at h
          subst h
          exact .inl ⟨res, w1, s.gas.limit, rfl, rfl⟩
        | cons a b => exact absurd hr (by simp [StackRel])
      | cons parent crest' =>
        cases arest with
        | nil => exact absurd hr (by simp [StackRel])
        | cons p arest' =>
          simp only at h
          obtain ⟨as', sh', c', e1, e2, e3⟩ :=
            deliver_sim C cfg lim top.kind res s.gas.limit parent crest' mem w1 p arest' hr.1 hr.2 next' h
          exact .inr ⟨as', sh', c', e1, e2, e3⟩

/-! ## the running frame hands out a call / create -/

theorem frFix_frame_eq {k : FrameKind} {m : Memory.SharedMemory} {nf : Frame κ}
    (h : frFix k m (.frame nf) = .frame nf) : nf.kind = k ∧ nf.interp.mem = m := by
  simp only [frFix, FrameOrResult.frame.injEq] at h
  constructor
  · exact (congrArg Frame.kind h).symm
  · exact (congrArg (fun f : Frame κ => f.interp.mem) h).symm

theorem frameAction_sim (f' : AFrame κ) (top : Frame κ) (crest : List (Frame κ)) (arest : List (AFrame κ))
    (a : Interp.Action) (s : Interp.IState) (w : World) (hk : KindRel f' top)
    (hs : ∀ X, sync f'.interp X = { s with mem := X }) (hr : StackRel arest crest) (next' : Next κ)
    (h : frameAction C cfg top crest a s w = .ok next') :
    HandleOK ((evmMachine C cfg lim).handleAction (actionOf a) f' arest s.mem { w := w, err := none }) next'
      (bottomKind top crest) := by
  unfold frameAction at h
  simp only [bind, Except.bind] at h
  have hf' : FrameRel f' { top with interp := s } := ⟨⟨hk.kind, hk.data⟩, hs s.mem⟩
  have hbot : bottomKind { top with interp := s } crest = bottomKind top crest := bottomKind_interp top crest s
  cases hm : makeFrame C cfg w a s.mem with
  | error e => rw [hm] at h; simp at h
  | ok x =>
    obtain ⟨fr, w1⟩ := x
    rw [hm] at h
    simp only at h
    unfold makeFrame at hm
    cases a with
    | call i =>
      simp only at hm
      obtain ⟨h1, h2⟩ := makeCallFrame_ok hm
      have habs : (evmMachine C cfg lim).call { w := w, err := none } i =
          ofCallFrame { w := w, err := none } i
            (.ok (frFix (.call i.retStart i.retEnd) (Memory.newContext Memory.new) fr, w1)) := by
        show evmCall C cfg _ i = _
        unfold evmCall
        rw [h1]
      simp only [actionOf, Machine.handleAction, habs]
      cases fr with
      | frame nf =>
        obtain ⟨hkind, hmem⟩ := frFix_frame_eq h2
        simp only [pure, Except.pure, Except.ok.injEq] at h
        subst h
        refine .inr ⟨_, _, _, rfl, ?_, ?_⟩
        · refine Rel.run ⟨?_, ?_⟩ ?_ rfl ⟨hf', hr⟩
          · show InspectorWrap.Kind.call = kindOf nf.kind
            rw [hkind]; rfl
          · show (FrameKind.call i.retStart i.retEnd, nf.checkpoint) = (nf.kind, nf.checkpoint)
            rw [hkind]
          · show ({ nf.interp with mem := Memory.newContext s.mem } : Interp.IState) = nf.interp
            rw [← hmem]
        · show some (bottomKind nf ({ top with interp := s } :: crest)) = _
          show some (bottomKind { top with interp := s } crest) = _
          rw [hbot]
      | result o =>
        simp only [kindOfAction] at h
        obtain ⟨as', sh', c', e1, e2, e3⟩ :=
          deliver_sim C cfg lim (.call i.retStart i.retEnd) o i.gasLimit { top with interp := s } crest s.mem w1 f'
            arest hf' hr next' h
        rw [hbot] at e3
        exact .inr ⟨as', sh', c', e1, e2, e3⟩
    | create i =>
      simp only at hm
      obtain ⟨ca, h1, h2⟩ := makeCreateFrame_ok hm
      have habs : (evmMachine C cfg lim).create { w := w, err := none } i =
          ofCreateFrame { w := w, err := none } i
            (.ok (frFix (.create ca) (Memory.newContext Memory.new) fr, w1)) := by
        show evmCreate C cfg _ i = _
        unfold evmCreate
        rw [h1]
      simp only [actionOf, Machine.handleAction, habs]
      cases fr with
      | frame nf =>
        obtain ⟨hkind, hmem⟩ := frFix_frame_eq h2
        simp only [pure, Except.pure, Except.ok.injEq] at h
        subst h
        refine .inr ⟨_, _, _, rfl, ?_, ?_⟩
        · refine Rel.run ⟨?_, ?_⟩ ?_ rfl ⟨hf', hr⟩
          · show InspectorWrap.Kind.create = kindOf nf.kind
            rw [hkind]; rfl
          · show (FrameKind.create ca, nf.checkpoint) = (nf.kind, nf.checkpoint)
            rw [hkind]
          · show ({ nf.interp with mem := Memory.newContext s.mem } : Interp.IState) = nf.interp
            rw [← hmem]
        · show some (bottomKind nf ({ top with interp := s } :: crest)) = _
          show some (bottomKind { top with interp := s } crest) = _
          rw [hbot]
      | result o =>
        simp only [kindOfAction] at h
        obtain ⟨as', sh', c', e1, e2, e3⟩ :=
          deliver_sim C cfg lim (.create 0) o i.gasLimit { top with interp := s } crest s.mem w1 f'
            arest hf' hr next' h
        rw [hbot] at e3
        exact .inr ⟨as', sh', c', e1, e2, e3⟩
    | eofCreate i => simp [throw, throwThe, MonadExceptOf.throw] at hm

end Revm.Proofs.EvmInstWrap
