import Revm.Proofs.EvmLinkFees
import Revm.Proofs.JournalOps3
/-! LINK, ether conservation (C08), part 1: no journal operation and no `World` operation ever removes an account from
the journal's state map (`KLe`). The accounts present in the final state therefore include every account any earlier
operation named — the finite address list over which the conservation law of the whole transaction is stated. -/
set_option linter.unusedSimpArgs false
set_option linter.unusedVariables false
namespace Revm.Proofs.EvmLink
open Revm Revm.Model Revm.Model.Journal

/-- the accounts present in `s` are present in `s'` -/
def KLe (s s' : JState) : Prop := ∀ x, s.state x ≠ none → s'.state x ≠ none

theorem KLe.refl (s : JState) : KLe s s := fun _ h => h
theorem KLe.trans {a b c : JState} (h1 : KLe a b) (h2 : KLe b c) : KLe a c := fun x h => h2 x (h1 x h)
theorem KLe.of_state_eq {s s' : JState} (h : s'.state = s.state) : KLe s s' := fun x hx => by rw [h]; exact hx

theorem KLe.setAcct (s : JState) (a : Addr) (acc : Acct) : KLe s (setAcct s a acc) := by
  intro x hx
  simp only [Journal.setAcct]
  split
  · exact fun h => nomatch h
  · exact hx

theorem KLe.of_grows {s s' : JState} (g : Proofs.Journal.Grows s s') : KLe s s' := by
  intro x hx
  have := g.acct x (by cases h : s.state x with | none => exact absurd h hx | some _ => rfl)
  intro h; rw [h] at this; cases this

theorem kle_pushEntry {s s' : JState} {e : Entry} (h : pushEntry s e = some s') : KLe s s' := by
  unfold pushEntry at h
  split at h
  · cases h
  · cases h; exact KLe.refl _

theorem kle_loadAccount {db : Db} {s s' : JState} {a : Addr} {c : Bool} (h : loadAccount db s a = some (s', c)) :
    KLe s s' ∧ s'.state a ≠ none := by
  obtain ⟨p, _, hs⟩ := Proofs.Journal.loadAccount_pushes (db := db) h
  exact ⟨KLe.of_grows p.grows, fun e => by rw [e] at hs; cases hs⟩

theorem kle_loadCode {db : Db} {s s' : JState} {a : Addr} {c : Bool} (h : loadCode db s a = some (s', c)) :
    KLe s s' ∧ s'.state a ≠ none := by
  obtain ⟨p, _, hs⟩ := Proofs.Journal.loadCode_pushes (db := db) h
  exact ⟨KLe.of_grows p.grows, fun e => by rw [e] at hs; cases hs⟩

theorem kle_loadAccountDelegated {db : Db} {s s' : JState} {a : Addr} {e c : Bool} {d : Option Bool}
    (h : loadAccountDelegated db s a = some (s', e, c, d)) : KLe s s' := by
  obtain ⟨⟨es, p⟩, _⟩ := Proofs.Journal.loadAccountDelegated_pushes (db := db) h
  exact KLe.of_grows p.grows

theorem kle_touch {s s' : JState} {a : Addr} (h : touch s a = some s') : KLe s s' := by
  obtain ⟨es, p, _⟩ := Proofs.Journal.touch_pushes (db := ⟨fun _ => none, fun _ _ => 0, fun _ => none⟩) h
  exact KLe.of_grows p.grows

theorem kle_incNonce {s s' : JState} {a : Addr} {r : Option Nat} (h : incNonce s a = some (s', r)) : KLe s s' := by
  obtain ⟨es, p, _⟩ := Proofs.Journal.incNonce_pushes (db := ⟨fun _ => none, fun _ _ => 0, fun _ => none⟩) h
  exact KLe.of_grows p.grows

theorem kle_sload {db : Db} {s s' : JState} {a k v : Nat} {c : Bool} (h : sload db s a k = some (s', v, c)) :
    KLe s s' := KLe.of_grows (Proofs.Journal.sload_pushes h).1.grows

theorem kle_sstore {db : Db} {s s' : JState} {a k new o p n : Nat} {c : Bool}
    (h : sstore db s a k new = some (s', o, p, n, c)) : KLe s s' := by
  obtain ⟨⟨es, p⟩, _⟩ := Proofs.Journal.sstore_pushes h
  exact KLe.of_grows p.grows

theorem kle_tstore {s s' : JState} {a k v : Nat} (h : tstore s a k v = some s') : KLe s s' := by
  obtain ⟨es, p, _⟩ := Proofs.Journal.tstore_pushes (db := ⟨fun _ => none, fun _ _ => 0, fun _ => none⟩) h
  exact KLe.of_grows p.grows

theorem kle_revert {s s' : JState} {cp : Checkpoint} (h : revert s cp = some s') : KLe s s' :=
  KLe.of_grows (Proofs.Journal.revert_grows h)

end Revm.Proofs.EvmLink

namespace Revm.Proofs.EvmLink
open Revm Revm.Model Revm.Model.Journal

theorem kle_touchAccount {s s' : JState} {a : Addr} {acc acc' : Acct} (h : touchAccount s a acc = some (s', acc')) :
    KLe s s' := by
  unfold touchAccount at h
  split at h
  · simp only [bind, Option.bind_eq_some_iff] at h
    obtain ⟨s1, h1, h2⟩ := h
    simp only [Option.some.injEq, Prod.mk.injEq] at h2
    rw [← h2.1]
    exact (kle_pushEntry h1).trans (KLe.setAcct _ _ _)
  · simp only [Option.some.injEq, Prod.mk.injEq] at h
    rw [← h.1]; exact KLe.refl _

theorem present_setAcct (s : JState) (a : Addr) (acc : Acct) : (setAcct s a acc).state a ≠ none := by
  simp only [Journal.setAcct, if_true]; exact fun h => nomatch h

theorem present_of_some {s : JState} {a : Addr} {acc : Acct} (h : s.state a = some acc) : s.state a ≠ none := by
  rw [h]; exact fun e => nomatch e

/-- `transfer`: nothing is removed, both parties are present afterwards -/
theorem kle_transfer {db : Db} {s s' : JState} {src dst v : Nat} {r} (h : transfer db s src dst v = some (s', r)) :
    KLe s s' ∧ s'.state src ≠ none ∧ s'.state dst ≠ none := by
  simp only [transfer, bind, Option.bind_eq_some_iff] at h
  obtain ⟨⟨s1, c1⟩, h1, ⟨s2, c2⟩, h2, fa, h3, ⟨s3, fa'⟩, h4, h5⟩ := h
  obtain ⟨k1, p1⟩ := kle_loadAccount h1
  obtain ⟨k2, p2⟩ := kle_loadAccount h2
  have k3 := kle_touchAccount h4
  have k02 : KLe s s3 := (k1.trans k2).trans k3
  have ps : s3.state src ≠ none := k3 _ (k2 _ p1)
  have pd : s3.state dst ≠ none := k3 _ p2
  split at h5
  · simp only [Option.some.injEq, Prod.mk.injEq] at h5
    rw [← h5.1]; exact ⟨k02, ps, pd⟩
  · simp only [Option.bind_eq_some_iff] at h5
    obtain ⟨ta, h6, ⟨s4, ta'⟩, h7, h8⟩ := h5
    have k45 : KLe s3 s4 := (KLe.setAcct _ _ _).trans (kle_touchAccount h7)
    split at h8
    · simp only [Option.bind_eq_some_iff] at h8
      obtain ⟨f, _, h9⟩ := h8
      simp only [Option.some.injEq, Prod.mk.injEq] at h9
      rw [← h9.1]
      have k6 := KLe.setAcct s4 src { f with info := { f.info with balance := U256.wadd f.info.balance v } }
      exact ⟨(k02.trans k45).trans k6, k6 _ (k45 _ ps), k6 _ (k45 _ pd)⟩
    · simp only [Option.bind_eq_some_iff] at h8
      obtain ⟨s5, h9, h10⟩ := h8
      simp only [Option.some.injEq, Prod.mk.injEq] at h10
      rw [← h10.1]
      have k67 : KLe s4 s5 := (KLe.setAcct _ _ _).trans (kle_pushEntry h9)
      exact ⟨(k02.trans k45).trans k67, k67 _ (k45 _ ps), k67 _ (k45 _ pd)⟩

theorem kle_setCode {s s' : JState} {a : Addr} {hash : Nat} (h : setCode s a hash = some s') : KLe s s' := by
  simp only [setCode, bind, Option.bind_eq_some_iff] at h
  obtain ⟨acc, _, ⟨s1, acc1⟩, h3, s2, h4, h5⟩ := h
  simp only [Option.some.injEq] at h5
  rw [← h5]
  exact ((kle_touchAccount h3).trans (kle_pushEntry h4)).trans (KLe.setAcct _ _ _)

end Revm.Proofs.EvmLink

namespace Revm.Proofs.EvmLink
open Revm Revm.Model Revm.Model.Journal

/-- `selfdestruct`: nothing is removed, the destroyed account and the target are present afterwards -/
theorem kle_selfdestruct {db : Db} {s s' : JState} {a t : Nat} {r} (h : selfdestruct db s a t = some (s', r)) :
    KLe s s' ∧ s'.state a ≠ none ∧ s'.state t ≠ none := by
  simp only [selfdestruct, bind, Option.bind_eq_some_iff] at h
  obtain ⟨⟨s1, c1⟩, h1, tacc, h2, s2, h3, acc, h4, s3, h5, h6⟩ := h
  obtain ⟨k1, p1⟩ := kle_loadAccount h1
  have k2 : KLe s1 s2 := by
    split at h3
    · simp only [Option.bind_eq_some_iff] at h3
      obtain ⟨acc0, _, t0, _, ⟨s4, t1⟩, h7, h8⟩ := h3
      simp only [Option.some.injEq] at h8
      rw [← h8]
      exact (kle_touchAccount h7).trans (KLe.setAcct _ _ _)
    · simp only [Option.some.injEq] at h3; rw [← h3]; exact KLe.refl _
  have pa : s2.state a ≠ none := present_of_some h4
  have k3 : KLe s2 s3 := by
    split at h5
    · exact (KLe.setAcct _ _ _).trans (kle_pushEntry h5)
    · split at h5
      · exact (KLe.setAcct _ _ _).trans (kle_pushEntry h5)
      · simp only [Option.some.injEq] at h5; rw [← h5]; exact KLe.refl _
  simp only [Option.some.injEq, Prod.mk.injEq] at h6
  rw [← h6.1]
  exact ⟨(k1.trans k2).trans k3, k3 _ pa, k3 _ (k2 _ p1)⟩

theorem kle_checkpoint (s : JState) : KLe s (checkpoint s).1 := KLe.of_state_eq rfl
theorem kle_commit (s : JState) : KLe s (commit s) := KLe.of_state_eq rfl

/-- `create_account_checkpoint`: nothing is removed; on success the caller and the new account are present -/
theorem kle_createAccountCheckpoint {s s' : JState} {caller a : Nat} {hs : Bool} {v spec : Nat} {r}
    (h : createAccountCheckpoint s caller a hs v spec = some (s', r)) :
    KLe s s' ∧ (∀ cp, r = .ok cp → s'.state caller ≠ none ∧ s'.state a ≠ none) := by
  simp only [createAccountCheckpoint, bind, Option.bind_eq_some_iff] at h
  obtain ⟨acc, h1, h2⟩ := h
  have k0 := kle_checkpoint s
  split at h2
  · simp only [Option.bind_eq_some_iff] at h2
    obtain ⟨s1, h3, h4⟩ := h2
    simp only [Option.some.injEq, Prod.mk.injEq] at h4
    rw [← h4.1, ← h4.2]
    exact ⟨k0.trans (kle_revert h3), fun cp hcp => nomatch hcp⟩
  · simp only [Option.bind_eq_some_iff] at h2
    obtain ⟨s1, h3, ⟨s2, acc2⟩, h4, h5⟩ := h2
    have k1 : KLe (checkpoint s).1 s2 :=
      (((KLe.setAcct _ _ _).trans (kle_pushEntry h3)).trans (KLe.setAcct _ _ _)).trans (kle_touchAccount h4)
    split at h5
    · simp only [Option.bind_eq_some_iff] at h5
      obtain ⟨s3, h6, h7⟩ := h5
      simp only [Option.some.injEq, Prod.mk.injEq] at h7
      rw [← h7.1, ← h7.2]
      exact ⟨(k0.trans k1).trans (kle_revert h6), fun cp hcp => nomatch hcp⟩
    · simp only [Option.bind_eq_some_iff] at h5
      obtain ⟨c, h6, s3, h7, h8⟩ := h5
      simp only [Option.some.injEq, Prod.mk.injEq] at h8
      rw [← h8.1]
      have k2 : KLe s2 s3 := ((KLe.setAcct _ _ _).trans (KLe.setAcct _ _ _)).trans (kle_pushEntry h7)
      refine ⟨(k0.trans k1).trans k2, fun cp _ => ⟨?_, ?_⟩⟩
      · exact (kle_pushEntry h7) _ (present_setAcct _ _ _)
      · exact (kle_pushEntry h7) _ ((KLe.setAcct _ _ _) _ (present_setAcct _ _ _))

end Revm.Proofs.EvmLink
