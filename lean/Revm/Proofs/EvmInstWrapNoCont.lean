import Lean.Elab.Tactic
import Revm.Proofs.EvmInstWrapPrep
/-! Instantiating C28 with the whole-EVM model, part 4f: NO INSTRUCTION HANDLER STOPS A FRAME WITH
`instruction_result = Continue` (`InstrNC`, the one fact about the instruction set the simulation uses).

Every halt of a handler comes from a primitive of the handler monad with a constant result (`check!` → `NotActivated`,
`gas!` → `OutOfGas`, `pop!` / `push!` → `StackUnderflow` / `StackOverflow`, `resize_memory!` → `MemoryOOG`,
`as_usize_or_fail!` → its reason, …) or from `haltWith r` / `haltOut r out` with a literal `r`; the tactic `nc` walks a
handler down to these primitives. Part 1: the primitives, the tactic, the pure instructions. -/
namespace Revm.Proofs.EvmInstWrap
open Revm Revm.Model
open Revm.Model.Interp

/-- the halt does not carry `Continue` -/
abbrev NCP (r : IResult) (_ : List Nat) : Prop := r ≠ .Continue

abbrev NC {α : Type} (e : Exec α) : Prop := HaltP NCP e

variable {α β : Type}

theorem nc_bind {m : M α} {f : α → M β} {s : IState} (h1 : NC (m s)) (h2 : ∀ a s', NC (f a s')) :
    NC ((m >>= f) s) := haltP_bind h1 h2

theorem nc_pure (a : α) (s : IState) : NC ((pure a : M α) s) := .ok a s
theorem nc_getS (s : IState) : NC (getS s) := .ok _ _
theorem nc_modifyS (f : IState → IState) (s : IState) : NC (modifyS f s) := .ok () _
theorem nc_faultWith (f : Fault) (s : IState) : NC ((faultWith f : M α) s) := .fault f
theorem nc_haltWith (r : IResult) (s : IState) (h : r ≠ .Continue) : NC ((haltWith r : M α) s) := .halt h s
theorem nc_haltOut (r : IResult) (o : List Nat) (s : IState) (h : r ≠ .Continue) : NC ((haltOut r o : M α) s) :=
  .halt h s

theorem nc_stackErr (e : Stack.Err) : stackErr e ≠ .Continue := by cases e <;> decide

theorem nc_check (fork : Nat) (s : IState) : NC (check fork s) := by
  unfold check; split
  · exact .ok () s
  · exact .halt (by decide) s

theorem nc_requireNonStatic (s : IState) : NC (requireNonStatic s) := by
  unfold requireNonStatic; split
  · exact .halt (by decide) s
  · exact .ok () s

theorem nc_requireEof (s : IState) : NC (requireEof s) := by
  unfold requireEof; split
  · exact .halt (by decide) s
  · exact .ok () s

theorem nc_requireInitEof (s : IState) : NC (requireInitEof s) := by
  unfold requireInitEof; split
  · exact .halt (by decide) s
  · exact .ok () s

theorem nc_requireSome (r : HostResp) (s : IState) : NC (requireSome r s) := by
  unfold requireSome; split
  · exact .ok () s
  · exact .halt (by decide) s

theorem nc_gasCharge (cost : Nat) (s : IState) : NC (gasCharge cost s) := by
  unfold gasCharge
  generalize Gas.recordCost s.gas cost = r
  obtain ⟨g, b⟩ := r
  cases b
  · exact .halt (by decide) s
  · exact .ok () _

theorem nc_gasOrFail (cost : Option Nat) (s : IState) : NC (gasOrFail cost s) := by
  unfold gasOrFail
  cases cost with
  | none => exact nc_haltWith _ _ (by decide)
  | some c => exact nc_gasCharge c s

theorem nc_refund (r : Int) (s : IState) : NC (refund r s) := nc_modifyS _ _

theorem nc_popN (k : Nat) (s : IState) : NC (popN k s) := by
  unfold popN
  generalize Stack.popMacro s.stack k = p
  obtain ⟨d, r⟩ := p
  cases r with
  | ok vs => exact .ok _ _
  | err e => exact .halt (nc_stackErr e) s
  | panic => exact .fault _
  | ub => exact .fault _

theorem nc_push (v : Nat) (s : IState) : NC (push v s) := haltP_push v s (fun e => nc_stackErr e)

theorem nc_stackCall (f : List Nat → List Nat × Stack.Res Unit) (s : IState) : NC (stackCall f s) := by
  unfold stackCall
  generalize f s.stack = p
  obtain ⟨d, r⟩ := p
  cases r with
  | ok vs => exact .ok _ _
  | err e => exact .halt (nc_stackErr e) s
  | panic => exact .fault _
  | ub => exact .fault _

theorem nc_stackCallAdv (f : List Nat → List Nat × Stack.Res Unit) (n : Nat) (s : IState) :
    NC (stackCallAdv f n s) := by
  unfold stackCallAdv
  generalize f s.stack = p
  obtain ⟨d, r⟩ := p
  cases r with
  | ok vs => exact .ok _ _
  | err e => exact .halt (nc_stackErr e) _
  | panic => exact .fault _
  | ub => exact .fault _

theorem nc_setTop (v : Nat) (s : IState) : NC (setTop v s) := by
  unfold setTop
  generalize Stack.set s.stack 0 v = p
  obtain ⟨d, r⟩ := p
  cases r <;> first | exact .ok _ _ | exact .fault _

theorem nc_popTop (k : Nat) (s : IState) : NC (popTop k s) := by
  unfold popTop
  split
  · exact .halt (by decide) s
  · generalize Stack.popNUnsafe (k - 1) s.stack = p
    obtain ⟨d, r⟩ := p
    cases r with
    | ok vs =>
      simp only []
      generalize Stack.peek d 0 = q
      obtain ⟨d', r'⟩ := q
      cases r' <;> first | exact .ok _ _ | exact .fault _
    | err e => exact .fault _
    | panic => exact .fault _
    | ub => exact .fault _

theorem nc_asUsizeOrFail (v : Nat) (reason : IResult) (s : IState) (h : reason ≠ .Continue) :
    NC (asUsizeOrFail v reason s) := by
  unfold asUsizeOrFail
  cases Jump.asUsizeOrFail v with
  | none => exact nc_haltWith _ _ h
  | some x => exact nc_pure _ _

theorem nc_memRes {γ : Type} (r : Memory.Res γ) (k : γ → Exec β) (h : ∀ a, NC (k a)) : NC (memRes r k) :=
  haltP_memRes r k h

theorem nc_resizeMem (offset len : Nat) (s : IState) : NC (resizeMem offset len s) := by
  unfold resizeMem
  refine nc_memRes _ _ (fun r => ?_)
  split
  · exact .ok () _
  · exact .halt (by decide) s

theorem nc_liftMemWrite (f : Memory.SharedMemory → Memory.Res Memory.SharedMemory) (s : IState) :
    NC (liftMemWrite f s) := haltP_liftMemWrite f s

theorem nc_memSlice (o l : Nat) (s : IState) : NC (memSlice o l s) := by
  unfold memSlice; exact nc_memRes _ _ (fun a => .ok a s)
theorem nc_memSliceRange (a b : Nat) (s : IState) : NC (memSliceRange a b s) := by
  unfold memSliceRange; exact nc_memRes _ _ (fun a => .ok a s)
theorem nc_memGetU256 (o : Nat) (s : IState) : NC (memGetU256 o s) := by
  unfold memGetU256; exact nc_memRes _ _ (fun a => .ok a s)
theorem nc_memSetU256 (o v : Nat) (s : IState) : NC (memSetU256 o v s) := nc_liftMemWrite _ _
theorem nc_memSetByte (o v : Nat) (s : IState) : NC (memSetByte o v s) := nc_liftMemWrite _ _
theorem nc_memSetData (a b c : Nat) (d : List Nat) (s : IState) : NC (memSetData a b c d s) := nc_liftMemWrite _ _
theorem nc_memCopy (a b c : Nat) (s : IState) : NC (memCopy a b c s) := nc_liftMemWrite _ _

theorem nc_codeSlice (n : Nat) (s : IState) : NC (codeSlice n s) := by
  unfold codeSlice; split
  · exact .ok _ _
  · exact .fault _
theorem nc_advancePc (n : Nat) (s : IState) : NC (advancePc n s) := nc_modifyS _ _
theorem nc_assumeNotEof (s : IState) : NC (assumeNotEof s) := by
  unfold assumeNotEof; split
  · exact .fault _
  · exact .ok _ _
theorem nc_codeByte (off : Nat) (s : IState) : NC (codeByte off s) := by
  unfold codeByte; split
  · exact .ok _ _
  · exact .fault _
theorem nc_jumpRel (d : Int) (s : IState) : NC (jumpRel d s) := by
  unfold jumpRel
  simp only []
  split
  · exact .fault _
  · exact .ok _ _
theorem nc_getEof (s : IState) : NC (getEof s) := by
  unfold getEof; split
  · exact .ok _ _
  · exact .fault _
theorem nc_loadEofCode (i p : Nat) (s : IState) : NC (loadEofCode i p s) := by
  unfold loadEofCode; split
  · exact .fault _
  · split
    · exact .fault _
    · exact .ok _ _
theorem nc_setEof (f : EofCtx → EofCtx) (s : IState) : NC (setEof f s) := nc_modifyS _ _

/-! ## the tactic -/

open Lean Elab Tactic Meta in
/-- generalize the first non-variable discriminant of a `match` in the goal (`split` cannot treat a `match` that is
applied to a further argument unless its discriminants are variables) -/
elab "gen_discr" : tactic => withMainContext do
  let g ← getMainGoal
  let t ← instantiateMVars (← g.getType)
  let env ← getEnv
  let some e := t.find? (fun e => e.isApp && isMatcherAppCore env e && !e.hasLooseBVars)
    | throwError "gen_discr: no match"
  let some app ← matchMatcherApp? e | throwError "gen_discr: not a matcher"
  let some d := app.discrs.find? (fun d => !d.isFVar && !d.hasLooseBVars)
    | throwError "gen_discr: all discriminants are variables"
  let (_, g') ← g.generalize #[{ expr := d }]
  replaceMainGoal [g']

syntax "nc_prim" : tactic
macro_rules | `(tactic| nc_prim) => `(tactic| with_reducible first
  | exact nc_pure _ _ | exact nc_getS _ | exact nc_modifyS _ _ | exact nc_faultWith _ _
  | exact nc_haltWith _ _ (by decide) | exact nc_haltOut _ _ _ (by decide)
  | exact nc_check _ _ | exact nc_requireNonStatic _ | exact nc_requireEof _ | exact nc_requireInitEof _
  | exact nc_requireSome _ _ | exact nc_gasCharge _ _ | exact nc_gasOrFail _ _ | exact nc_refund _ _
  | exact nc_popN _ _ | exact nc_push _ _ | exact nc_stackCall _ _ | exact nc_stackCallAdv _ _ _
  | exact nc_setTop _ _ | exact nc_popTop _ _ | exact nc_asUsizeOrFail _ _ _ (by decide)
  | exact nc_resizeMem _ _ _ | exact nc_liftMemWrite _ _ | exact nc_memSlice _ _ _ | exact nc_memSliceRange _ _ _
  | exact nc_memGetU256 _ _ | exact nc_memSetU256 _ _ _ | exact nc_memSetByte _ _ _ | exact nc_memSetData _ _ _ _ _
  | exact nc_memCopy _ _ _ _ | exact nc_codeSlice _ _ | exact nc_advancePc _ _ | exact nc_assumeNotEof _
  | exact nc_codeByte _ _ | exact nc_jumpRel _ _ | exact nc_getEof _ | exact nc_loadEofCode _ _ _
  | exact nc_setEof _ _)

/-- decompose a handler of the monad `M` into its primitives -/
macro "nc" : tactic =>
  `(tactic| repeat' (first | nc_prim | (with_reducible refine nc_bind ?_ ?_) | intro _ | split | gen_discr))

theorem nc_pop1 (s : IState) : NC (pop1 s) := by unfold pop1; nc
theorem nc_pop2 (s : IState) : NC (pop2 s) := by unfold pop2; nc
theorem nc_pop3 (s : IState) : NC (pop3 s) := by unfold pop3; nc
theorem nc_pop4 (s : IState) : NC (pop4 s) := by unfold pop4; nc
macro_rules | `(tactic| nc_prim) => `(tactic| with_reducible first
  | exact nc_pop1 _ | exact nc_pop2 _ | exact nc_pop3 _ | exact nc_pop4 _)
theorem nc_popAddress (s : IState) : NC (popAddress s) := by unfold popAddress; nc
theorem nc_popTop1 (s : IState) : NC (popTop1 s) := by unfold popTop1; nc
theorem nc_popTop2 (s : IState) : NC (popTop2 s) := by unfold popTop2; nc
theorem nc_popTop3 (s : IState) : NC (popTop3 s) := by unfold popTop3; nc
theorem nc_readU16 (o : Nat) (s : IState) : NC (readU16 o s) := by unfold readU16; nc
macro_rules | `(tactic| nc_prim) => `(tactic| with_reducible first
  | exact nc_popAddress _ | exact nc_popTop1 _ | exact nc_popTop2 _ | exact nc_popTop3 _ | exact nc_readU16 _ _)
theorem nc_readI16 (o : Nat) (s : IState) : NC (readI16 o s) := by unfold readI16; nc
macro_rules | `(tactic| nc_prim) => `(tactic| with_reducible exact nc_readI16 _ _)

/-! ## the pure instructions -/

theorem nc_unopI (g : Nat) (f : Nat → Nat) (s : IState) : NC (unopI g f s) := by unfold unopI; nc
theorem nc_binopI (g k : Nat) (f : Nat → Nat → Nat) (s : IState) : NC (binopI g k f s) := by unfold binopI; nc
theorem nc_teropI (g : Nat) (f : Nat → Nat → Nat → Nat) (s : IState) : NC (teropI g f s) := by unfold teropI; nc
theorem nc_expI (s : IState) : NC (expI s) := by unfold expI; nc
theorem nc_pushValI (g k : Nat) (v : IState → Nat) (s : IState) : NC (pushValI g k v s) := by unfold pushValI; nc
theorem nc_difficultyI (s : IState) : NC (difficultyI s) := by unfold difficultyI; nc
theorem nc_calldataloadI (s : IState) : NC (calldataloadI s) := by unfold calldataloadI; nc
theorem nc_codesizeI (s : IState) : NC (codesizeI s) := by unfold codesizeI; nc
theorem nc_copyToMem (d : IState → List Nat) (g : M Unit) (hg : ∀ s, NC (g s)) (s : IState) :
    NC (copyToMem d g s) := by
  unfold copyToMem; nc
  exact hg _
theorem nc_returndatacopyI (s : IState) : NC (returndatacopyI s) := by unfold returndatacopyI; nc
theorem nc_blobhashI (s : IState) : NC (blobhashI s) := by unfold blobhashI; nc
theorem nc_popI (s : IState) : NC (popI s) := by unfold popI; nc
theorem nc_push0I (s : IState) : NC (push0I s) := by unfold push0I; nc
theorem nc_pushI (n : Nat) (s : IState) : NC (pushI n s) := by unfold pushI; nc
theorem nc_dupI (n : Nat) (s : IState) : NC (dupI n s) := by unfold dupI; nc
theorem nc_swapI (n : Nat) (s : IState) : NC (swapI n s) := by unfold swapI; nc
theorem nc_mloadI (s : IState) : NC (mloadI s) := by unfold mloadI; nc
theorem nc_mstoreI (s : IState) : NC (mstoreI s) := by unfold mstoreI; nc
theorem nc_mstore8I (s : IState) : NC (mstore8I s) := by unfold mstore8I; nc
theorem nc_mcopyI (s : IState) : NC (mcopyI s) := by unfold mcopyI; nc
theorem nc_jumpInner (t : Nat) (s : IState) : NC (jumpInner t s) := by unfold jumpInner; nc
macro_rules | `(tactic| nc_prim) => `(tactic| with_reducible exact nc_jumpInner _ _)
theorem nc_jumpI (s : IState) : NC (jumpI s) := by unfold jumpI; nc
theorem nc_jumpiI (s : IState) : NC (jumpiI s) := by unfold jumpiI; nc
theorem nc_returnInner (r : IResult) (h : r ≠ .Continue) (s : IState) : NC (returnInner r s) := by
  unfold returnInner; nc
  all_goals exact nc_haltOut _ _ _ h
theorem nc_revertI (s : IState) : NC (revertI s) := by
  unfold revertI
  refine nc_bind (nc_check _ _) (fun _ s' => nc_returnInner _ (by decide) s')
theorem nc_rjumpI (s : IState) : NC (rjumpI s) := by unfold rjumpI; nc
theorem nc_rjumpiI (s : IState) : NC (rjumpiI s) := by unfold rjumpiI; nc
theorem nc_rjumpvI (s : IState) : NC (rjumpvI s) := by unfold rjumpvI; nc
theorem nc_callfI (s : IState) : NC (callfI s) := by unfold callfI; nc
theorem nc_retfI (s : IState) : NC (retfI s) := by unfold retfI; nc
theorem nc_jumpfI (s : IState) : NC (jumpfI s) := by unfold jumpfI; nc
theorem nc_dupnI (s : IState) : NC (dupnI s) := by unfold dupnI; nc
theorem nc_swapnI (s : IState) : NC (swapnI s) := by unfold swapnI; nc
theorem nc_exchangeI (s : IState) : NC (exchangeI s) := by unfold exchangeI; nc
theorem nc_dataloadI (s : IState) : NC (dataloadI s) := by unfold dataloadI; nc
theorem nc_dataloadnI (s : IState) : NC (dataloadnI s) := by unfold dataloadnI; nc
theorem nc_datasizeI (s : IState) : NC (datasizeI s) := by unfold datasizeI; nc
theorem nc_datacopyI (s : IState) : NC (datacopyI s) := by unfold datacopyI; nc
theorem nc_returndataloadI (s : IState) : NC (returndataloadI s) := by unfold returndataloadI; nc
theorem nc_returnContractI (s : IState) : NC (returnContractI s) := by unfold returnContractI; nc

/-- every pure instruction -/
theorem nc_execPure (i : Instr) (m : M Unit) (h : execPure i = some m) (s : IState) : NC (m s) := by
  cases i <;> simp only [execPure, Option.some.injEq, reduceCtorEq] at h <;> subst h
  case stop => exact nc_haltWith _ _ (by decide)
  case invalid => exact nc_haltWith _ _ (by decide)
  case unknown => exact nc_haltWith _ _ (by decide)
  case returnContract => exact nc_returnContractI s
  case rjump => exact nc_rjumpI s
  case rjumpi => exact nc_rjumpiI s
  case rjumpv => exact nc_rjumpvI s
  case callf => exact nc_callfI s
  case retf => exact nc_retfI s
  case jumpf => exact nc_jumpfI s
  case dupn => exact nc_dupnI s
  case swapn => exact nc_swapnI s
  case exchange => exact nc_exchangeI s
  case dataload => exact nc_dataloadI s
  case dataloadn => exact nc_dataloadnI s
  case datasize => exact nc_datasizeI s
  case datacopy => exact nc_datacopyI s
  case returndataload => exact nc_returndataloadI s
  case unop => exact nc_unopI _ _ s
  case binop => exact nc_binopI _ _ _ s
  case terop => exact nc_teropI _ _ s
  case exp => exact nc_expI s
  case pushVal => exact nc_pushValI _ _ _ s
  case difficulty => exact nc_difficultyI s
  case calldataload => exact nc_calldataloadI s
  case calldatacopy => exact nc_copyToMem _ _ (fun s => nc_pure _ s) s
  case codecopy => exact nc_copyToMem _ _ (fun s => nc_assumeNotEof s) s
  case codesize => exact nc_codesizeI s
  case returndatacopy => exact nc_returndatacopyI s
  case blobhash => exact nc_blobhashI s
  case pop => exact nc_popI s
  case push0 => exact nc_push0I s
  case push => exact nc_pushI _ s
  case dup => exact nc_dupI _ s
  case swap => exact nc_swapI _ s
  case mload => exact nc_mloadI s
  case mstore => exact nc_mstoreI s
  case mstore8 => exact nc_mstore8I s
  case mcopy => exact nc_mcopyI s
  case jump => exact nc_jumpI s
  case jumpi => exact nc_jumpiI s
  case jumpdest => exact nc_gasCharge _ s
  case ret => exact nc_returnInner _ (by decide) s
  case revert => exact nc_revertI s

end Revm.Proofs.EvmInstWrap
