import Revm.Model.Interp
import Revm.Proofs.Memory
/-! Memory lemmas for C25: every `SharedMemory` access the interpreter makes after a successful
`resize_memory!` is inside the running context, and `resize_memory!` itself cannot reach the `Vec` capacity
panic while the gas meter and the memory cost together stay below `u64::MAX`. -/
set_option linter.unusedSimpArgs false
set_option linter.unusedVariables false
namespace Revm.Proofs.Interp
open Revm Revm.Model Revm.Model.Memory
open Revm.Proofs.Memory (WF ctx WFc top WF_le ctx_length len_eq isize_lt_u64)

/-- length of the running context -/
def clen (m : SharedMemory) : Nat := m.buffer.length - m.lastCheckpoint

/-- same checkpoints, same buffer length: everything the representation invariant and the gas formulas see -/
def Shape (m m' : SharedMemory) : Prop :=
  m'.lastCheckpoint = m.lastCheckpoint ∧ m'.checkpoints = m.checkpoints ∧ m'.buffer.length = m.buffer.length

theorem Shape.refl (m : SharedMemory) : Shape m m := ⟨rfl, rfl, rfl⟩
theorem Shape.trans {a b c : SharedMemory} (h1 : Shape a b) (h2 : Shape b c) : Shape a c :=
  ⟨h2.1.trans h1.1, h2.2.1.trans h1.2.1, h2.2.2.trans h1.2.2⟩

theorem WF_shape {m m' : SharedMemory} (h : WF m) (hs : Shape m m') : WF m' := by
  obtain ⟨h1, h2, h3⟩ := h
  obtain ⟨s1, s2, s3⟩ := hs
  refine ⟨?_, ?_, ?_⟩
  · rw [s2, s3]; exact h1
  · rw [s1, s2]; exact h2
  · rw [s3]; exact h3

theorem clen_shape {m m' : SharedMemory} (hs : Shape m m') : clen m' = clen m := by
  unfold clen; rw [hs.1, hs.2.2]

theorem len_shape {m m' : SharedMemory} (hs : Shape m m') : len m' = len m := by
  unfold len; rw [hs.1, hs.2.2]

theorem cost_shape {m m' : SharedMemory} (hs : Shape m m') :
    currentExpansionCost m' = currentExpansionCost m := by
  unfold currentExpansionCost; rw [len_shape hs]

theorem len_clen {m : SharedMemory} (h : WF m) : len m = clen m := by
  rw [len_eq h, ctx_length]; rfl

theorem clen_lt {m : SharedMemory} (h : WF m) : clen m ≤ ISIZE_MAX := by
  have := h.2.2; unfold clen; omega

theorem writeAt_len (c : List Nat) (off : Nat) (val : List Nat) (h : off + val.length ≤ c.length) :
    (writeAt c off val).length = c.length := Proofs.Memory.writeAt_length c off val h

/-! ### writes -/

theorem writeSlice_ok' {m : SharedMemory} {off : Nat} {val : List Nat} (h : WF m)
    (hin : off + val.length ≤ clen m) :
    ∃ m', writeSlice m off val = .ok m' ∧ Shape m m' := by
  have hle := WF_le h
  have h3 := h.2.2
  have hI := isize_lt_u64
  unfold clen at hin
  have hnw : off + val.length < U64 := by omega
  refine ⟨{ m with buffer := writeAt m.buffer (m.lastCheckpoint + off) val }, ?_, rfl, rfl, ?_⟩
  · unfold writeSlice
    simp only []
    rw [if_pos hle, Nat.mod_eq_of_lt hnw, if_pos (by omega)]
  · exact writeAt_len _ _ _ (by omega)

theorem set_ok {m : SharedMemory} {off : Nat} {val : List Nat} (h : WF m)
    (hin : val = [] ∨ off + val.length ≤ clen m) :
    ∃ m', Memory.set m off val = .ok m' ∧ Shape m m' := by
  unfold Memory.set
  cases val with
  | nil => exact ⟨m, by simp, Shape.refl m⟩
  | cons v vs =>
    have : off + (v :: vs).length ≤ clen m := by
      cases hin with
      | inl h0 => cases h0
      | inr h1 => exact h1
    simp only [List.isEmpty_cons, Bool.false_eq_true, if_false]
    exact writeSlice_ok' h this

theorem natToBe_len (k v : Nat) : (natToBe k v).length = k := Proofs.Memory.natToBe_length k v

theorem setU256_ok {m : SharedMemory} {off v : Nat} (h : WF m) (hin : off + 32 ≤ clen m) :
    ∃ m', setU256 m off v = .ok m' ∧ Shape m m' := by
  unfold setU256
  exact set_ok h (Or.inr (by rw [natToBe_len]; exact hin))

theorem setByte_ok {m : SharedMemory} {off b : Nat} (h : WF m) (hin : off + 1 ≤ clen m) :
    ∃ m', setByte m off b = .ok m' ∧ Shape m m' := by
  unfold setByte
  exact set_ok h (Or.inr (by simpa using hin))

theorem readAt_len (buf : List Nat) (pos n : Nat) (h : pos + n ≤ buf.length) : (readAt buf pos n).length = n := by
  unfold readAt
  simp only [List.length_take, List.length_drop]
  omega

theorem setData_ok {m : SharedMemory} {moff dOff len : Nat} {data : List Nat} (h : WF m)
    (hdl : data.length ≤ ISIZE_MAX) (hin : moff + len ≤ clen m) :
    ∃ m', setData m moff dOff len data = .ok m' ∧ Shape m m' := by
  have hI := isize_lt_u64
  have hcl := clen_lt h
  have hU := U64_val
  unfold setData
  by_cases hb : dOff ≥ data.length
  · rw [if_pos hb]
    exact writeSlice_ok' h (by simpa using hin)
  · rw [if_neg hb]
    simp only []
    have hlen : len < U64 := by unfold ISIZE_MAX at hcl; omega
    -- `data_end = min(data_offset + len, data.len())`, no wrap possible where it matters
    by_cases hw : dOff + len < U64
    · rw [Nat.mod_eq_of_lt hw]
      have hge : ¬ min (dOff + len) data.length < dOff := by omega
      rw [if_neg hge]
      have hdl2 : min (dOff + len) data.length - dOff ≤ len := by omega
      have hr : (readAt data dOff (min (dOff + len) data.length - dOff)).length
          = min (dOff + len) data.length - dOff := readAt_len _ _ _ (by omega)
      obtain ⟨m1, hm1, hs1⟩ := writeSlice_ok' (val := readAt data dOff (min (dOff + len) data.length - dOff)) h
        (off := moff) (by rw [hr]; omega)
      rw [hm1]
      simp only []
      have hwf1 := WF_shape h hs1
      have hmo : (moff + (min (dOff + len) data.length - dOff)) % U64
          = moff + (min (dOff + len) data.length - dOff) := Nat.mod_eq_of_lt (by unfold ISIZE_MAX at hcl; omega)
      rw [hmo]
      obtain ⟨m2, hm2, hs2⟩ := writeSlice_ok'
        (val := List.replicate (len - (min (dOff + len) data.length - dOff)) 0) hwf1
        (off := moff + (min (dOff + len) data.length - dOff))
        (by rw [clen_shape hs1]; simp only [List.length_replicate]; omega)
      exact ⟨m2, hm2, hs1.trans hs2⟩
    · -- `data_offset + len` cannot wrap: both are below 2^63 (`data` is a Rust slice, `len ≤ clen m ≤ isize::MAX`)
      exfalso; unfold ISIZE_MAX at hcl hdl; omega

theorem copy_ok {m : SharedMemory} {dst src len : Nat} (h : WF m)
    (h1 : src + len ≤ clen m) (h2 : dst + len ≤ clen m) :
    ∃ m', copy m dst src len = .ok m' ∧ Shape m m' := by
  have hle := WF_le h
  have h3 := h.2.2
  have hI := isize_lt_u64
  unfold clen at h1 h2
  have hnw : src + len < U64 := by omega
  refine ⟨{ m with buffer := writeAt m.buffer (m.lastCheckpoint + dst) (readAt m.buffer (m.lastCheckpoint + src) len) }, ?_, rfl, rfl, ?_⟩
  · unfold copy
    simp only []
    rw [if_pos hle, Nat.mod_eq_of_lt hnw, if_neg (by omega), if_neg (by omega)]
    have : src + len - src = len := by omega
    rw [this, if_neg (by omega)]
  · exact writeAt_len _ _ _ (by rw [readAt_len _ _ _ (by omega)]; omega)

/-! ### reads -/

theorem sliceRange_ok {m : SharedMemory} {start stop : Nat} (h : WF m)
    (h1 : start ≤ stop) (h2 : stop ≤ clen m) :
    ∃ bs, sliceRange m start stop = .ok bs ∧ bs.length = stop - start := by
  have hle := WF_le h
  unfold clen at h2
  refine ⟨readAt m.buffer (m.lastCheckpoint + start) (stop - start), ?_, readAt_len _ _ _ (by omega)⟩
  unfold sliceRange
  rw [if_pos hle, if_pos ⟨h1, h2⟩]

theorem slice_ok {m : SharedMemory} {off size : Nat} (h : WF m) (hin : off + size ≤ clen m) :
    ∃ bs, slice m off size = .ok bs ∧ bs.length = size := by
  have h3 := h.2.2
  have hI := isize_lt_u64
  have hc := hin
  unfold clen at hc
  unfold slice
  rw [Nat.mod_eq_of_lt (by omega)]
  obtain ⟨bs, hb, hl⟩ := sliceRange_ok (start := off) (stop := off + size) h (by omega) hin
  exact ⟨bs, hb, by rw [hl]; omega⟩

theorem getU256_ok {m : SharedMemory} {off : Nat} (h : WF m) (hin : off + 32 ≤ clen m) :
    ∃ v, getU256 m off = .ok v := by
  obtain ⟨bs, hb, _⟩ := slice_ok (size := 32) h hin
  unfold getU256 getWord
  rw [hb]; exact ⟨_, rfl⟩

/-! ### `resize_memory!` -/

theorem satAdd_le (a b : Nat) : U64ops.saturatingAdd a b ≤ U64 - 1 := by
  unfold U64ops.saturatingAdd; split <;> omega

theorem numWords_mono {a b : Nat} (h : a ≤ b) : numWords a ≤ numWords b := by
  unfold numWords U64ops.saturatingAdd
  have hU := U64_val
  split <;> split <;> omega

theorem memGas_mono' {a b : Nat} (h : a ≤ b) : memoryGas a ≤ memoryGas b := by
  rw [Proofs.Memory.memoryGas_full, Proofs.Memory.memoryGas_full]
  have := Proofs.Memory.memGas_mono h
  omega

theorem memoryGas_le (w : Nat) : memoryGas w ≤ U64 - 1 := by
  rw [Proofs.Memory.memoryGas_full]; omega

/-- a word count whose (unsaturated) cost fits below `u64::MAX` is small -/
theorem words_small_of_cost {w : Nat} (h : memoryGas w < U64 - 1) :
    w < 2^37 ∧ memoryGas w = Spec.Memory.memGas w := by
  rw [Proofs.Memory.memoryGas_full] at h
  have hU := U64_val
  have hg : Spec.Memory.memGas w < U64 - 1 := by omega
  refine ⟨?_, by rw [Proofs.Memory.memoryGas_full]; omega⟩
  unfold Spec.Memory.memGas at hg
  by_cases hw : w < 2^37
  · exact hw
  · exfalso
    have h1 : 2^37 * 2^37 ≤ w * w := Nat.mul_le_mul (by omega) (by omega)
    have h2 : 2^37 * 2^37 / 512 ≤ w * w / 512 := Nat.div_le_div_right h1
    have h3 : (2:Nat)^37 * 2^37 / 512 = 36893488147419103232 := by decide
    omega

/-- what `resize_memory!(interp, off, len)` does while `remaining + C_mem(current) < u64::MAX`:
either `MemoryOOG` with nothing changed, or the context covers `off + len`, the old bytes stay, and
`remaining + C_mem` is exactly preserved (the charge is the difference of the two costs). Never the `Vec`
capacity panic. -/
theorem resizeMacro_spec {m : SharedMemory} {rem off len_ : Nat} (h : WF m)
    (hck : m.lastCheckpoint ≤ 2^62) (ho : off < U64) (hl : len_ < U64)
    (hm : rem + currentExpansionCost m < U64 - 1) :
    resizeMemoryMacro m rem off len_ = .ok (false, m, rem) ∨
    ∃ m' rem', resizeMemoryMacro m rem off len_ = .ok (true, m', rem') ∧ WF m'
      ∧ m'.lastCheckpoint = m.lastCheckpoint ∧ m'.checkpoints = m.checkpoints
      ∧ off + len_ ≤ clen m' ∧ clen m ≤ clen m'
      ∧ rem' + currentExpansionCost m' = rem + currentExpansionCost m := by
  have hU := U64_val
  have hI := isize_lt_u64
  have hcl := clen_lt h
  have hlen := len_clen h
  unfold resizeMemoryMacro
  simp only []
  by_cases hg : U64ops.saturatingAdd off len_ > len m
  · rw [if_pos hg]
    -- growth: `resize_memory`
    unfold resizeMemory
    simp only []
    have hmono : currentExpansionCost m ≤ memoryGas (numWords (U64ops.saturatingAdd off len_)) := by
      unfold currentExpansionCost
      exact memGas_mono' (numWords_mono (by omega))
    have hnc := memoryGas_le (numWords (U64ops.saturatingAdd off len_))
    have hws : U64ops.wsub (memoryGas (numWords (U64ops.saturatingAdd off len_))) (currentExpansionCost m)
        = memoryGas (numWords (U64ops.saturatingAdd off len_)) - currentExpansionCost m := by
      unfold U64ops.wsub
      exact Proofs.Memory.wsub_eq _ _ _ hmono (by omega)
    rw [hws]
    by_cases hc : memoryGas (numWords (U64ops.saturatingAdd off len_)) - currentExpansionCost m ≤ rem
    · rw [if_pos hc]
      right
      have hlt : memoryGas (numWords (U64ops.saturatingAdd off len_)) < U64 - 1 := by omega
      obtain ⟨hw37, _⟩ := words_small_of_cost hlt
      -- the size did not saturate
      have hns : U64ops.saturatingAdd off len_ + 31 < U64 := by
        by_cases hx : U64ops.saturatingAdd off len_ + 31 < U64
        · exact hx
        · exfalso
          have : numWords (U64ops.saturatingAdd off len_) = (U64 - 1) / 32 := by
            unfold numWords
            have hs := satAdd_le off len_
            have : U64ops.saturatingAdd (U64ops.saturatingAdd off len_) 31 = U64 - 1 := by
              generalize U64ops.saturatingAdd off len_ = n at *
              unfold U64ops.saturatingAdd; rw [if_neg hx]
            rw [this]
          rw [this, hU] at hw37
          omega
      have hsum : U64ops.saturatingAdd off len_ = off + len_ := by
        unfold U64ops.saturatingAdd at hns ⊢
        split
        · rfl
        · rename_i hh; rw [if_neg hh] at hns; omega
      rw [hsum] at hns hw37 hg hc hlt hmono ⊢
      have hnw : numWords (off + len_) = (off + len_ + 31) / 32 := by
        unfold numWords U64ops.saturatingAdd; rw [if_pos hns]
      have hmul : U64ops.wmul (numWords (off + len_)) 32 = numWords (off + len_) * 32 := by
        unfold U64ops.wmul; exact Nat.mod_eq_of_lt (by omega)
      rw [hmul]
      have hcov : off + len_ ≤ numWords (off + len_) * 32 := by rw [hnw]; omega
      have hgrow : (ctx m).length ≤ numWords (off + len_) * 32 := by
        rw [ctx_length]; unfold clen at hlen; omega
      have hx : m.lastCheckpoint + numWords (off + len_) * 32 ≤ ISIZE_MAX := by
        have h42 : numWords (off + len_) * 32 < 2^42 := by
          clear hnw hcov hgrow hmul hc hlt hmono hws hnc hg; omega
        clear hnw hcov hgrow hmul hc hlt hmono hws hnc hg hcl
        unfold ISIZE_MAX; omega
      rw [Proofs.Memory.resize_grow_ok h hgrow hx]
      simp only []
      have hwf' := Proofs.Memory.replaceCtx_wf h
        (ctx m ++ List.replicate (numWords (off + len_) * 32 - (ctx m).length) 0)
        (by simp only [List.length_append, List.length_replicate]; omega)
      have hctx := Proofs.Memory.replaceCtx_ctx h
        (ctx m ++ List.replicate (numWords (off + len_) * 32 - (ctx m).length) 0)
      have hcl' : clen (Proofs.Memory.replaceCtx m
          (ctx m ++ List.replicate (numWords (off + len_) * 32 - (ctx m).length) 0))
          = numWords (off + len_) * 32 := by
        have := @ctx_length (Proofs.Memory.replaceCtx m
          (ctx m ++ List.replicate (numWords (off + len_) * 32 - (ctx m).length) 0))
        rw [hctx] at this
        simp only [List.length_append, List.length_replicate] at this
        unfold clen; omega
      refine ⟨_, _, rfl, hwf', rfl, rfl, by rw [hcl']; exact hcov, ?_, ?_⟩
      · rw [hcl']; rw [ctx_length] at hgrow; unfold clen; exact hgrow
      · -- the new cost is the cost of the new length
        have hnew : currentExpansionCost (Proofs.Memory.replaceCtx m
            (ctx m ++ List.replicate (numWords (off + len_) * 32 - (ctx m).length) 0))
            = memoryGas (numWords (off + len_)) := by
          unfold currentExpansionCost
          rw [len_clen hwf', hcl']
          congr 1
          have h37 := hw37
          clear hnw hcov hgrow hmul hc hlt hmono hws hnc hg hx hwf' hctx hcl'
          generalize numWords (off + len_) = w at *
          unfold numWords U64ops.saturatingAdd
          rw [if_pos (by omega)]
          omega
        rw [hnew]; omega
    · rw [if_neg hc]; left; rfl
  · rw [if_neg hg]
    right
    have hs := satAdd_le off len_
    have hsum : U64ops.saturatingAdd off len_ = off + len_ := by
      unfold U64ops.saturatingAdd at hg ⊢
      split
      · rfl
      · rename_i hh; rw [if_neg hh] at hg; unfold ISIZE_MAX at hcl; omega
    rw [hsum] at hg
    exact ⟨m, rem, rfl, h, rfl, rfl, by omega, Nat.le_refl _, rfl⟩

end Revm.Proofs.Interp
