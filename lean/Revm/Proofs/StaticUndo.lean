import Revm.Proofs.StaticTransfer
namespace Revm.Proofs.Static
open Revm Revm.Model.Journal Revm.Spec.JournalAbs Revm.Model.Static

theorem WorldEq.refl (db : Db) (s : JState) : WorldEq db s s := ⟨fun _ => rfl, fun _ _ => rfl, fun _ _ => rfl, rfl⟩

theorem WorldEq.trans {db : Db} {a b c : JState} (h1 : WorldEq db a b) (h2 : WorldEq db b c) : WorldEq db a c :=
  ⟨fun x => (h1.1 x).trans (h2.1 x), fun x k => (h1.2.1 x k).trans (h2.2.1 x k),
   fun x k => (h1.2.2.1 x k).trans (h2.2.2.1 x k), h1.2.2.2.trans h2.2.2.2⟩

theorem bsub_wadd {b v : Nat} (hb : b < W) (hv : v < W) : bsub (U256.wadd b v) v = b := by
  unfold U256.wadd bsub
  by_cases h : b + v < W
  · rw [Nat.mod_eq_of_lt h]; split <;> omega
  · have h2 : (b + v) % W = b + v - W := by
      rw [Nat.mod_eq_sub_mod (by omega)]; exact Nat.mod_eq_of_lt (by omega)
    rw [h2]; split <;> omega

theorem wadd_zero {b : Nat} (hb : b < W) : U256.wadd b 0 = b := by
  unfold U256.wadd; simpa using Nat.mod_eq_of_lt hb

theorem bsub_zero (b : Nat) : bsub b 0 = b := by simp [bsub]

/-- undoing a benign journal entry only resets warm/touch marks or undoes a transfer that moved nothing -/
theorem undoEntry_benign {db : Db} {sd : Bool} {s : JState} {e : Entry} {s' : JState} (hb : BalOk db s)
    (he : benignEntry e = true) (h : undoEntry sd s e = some s') : Benign db s s' := by
  cases e with
  | accountWarmed a =>
    simp only [undoEntry] at h
    cases hacc : s.state a with
    | none => simp [hacc] at h
    | some acc =>
      simp [hacc] at h; subst h
      exact benign_setAcct_upd hacc ⟨rfl, rfl, rfl, rfl, rfl, rfl, fun _ => rfl⟩
  | accountTouched a =>
    simp only [undoEntry] at h
    by_cases hc : sd = true ∧ a = PRECOMPILE3
    · rw [if_pos hc] at h; simp at h; subst h; exact Benign.refl _ _
    · rw [if_neg hc] at h
      cases hacc : s.state a with
      | none => simp [hacc] at h
      | some acc =>
        simp [hacc] at h; subst h
        exact benign_setAcct_upd hacc ⟨rfl, rfl, rfl, rfl, rfl, rfl, fun _ => rfl⟩
  | storageWarmed a k =>
    simp only [undoEntry] at h
    cases hacc : s.state a with
    | none => simp [hacc] at h
    | some acc =>
      cases hsl : acc.storage k with
      | none => simp [hacc, hsl] at h
      | some sl =>
        simp [hacc, hsl] at h; subst h
        exact benign_setAcct_upd hacc (sim_setSlot_mark true hsl)
  | balanceTransfer src dst bal =>
    simp only [benignEntry, Bool.and_eq_true, Bool.or_eq_true, decide_eq_true_eq] at he
    obtain ⟨hbal, hcase⟩ := he
    simp only [undoEntry] at h
    cases hf : s.state src with
    | none => simp [hf] at h
    | some f =>
      have hfb : f.info.balance < W := balOk_acc hb hf
      rcases hcase with hsd | h0
      · subst hsd
        have hto : (setAcct s src { f with info := { f.info with balance := U256.wadd f.info.balance bal } }).state src =
            some { f with info := { f.info with balance := U256.wadd f.info.balance bal } } := by simp [setAcct]
        simp only [hf, hto, Option.bind_eq_bind, Option.bind_some, Option.some.injEq] at h
        subst h
        refine benign_setAcct2 hf ⟨?_, rfl, rfl, rfl, rfl, rfl, fun _ => rfl⟩
        show f.info.balance = bsub (U256.wadd f.info.balance bal) bal
        exact (bsub_wadd hfb hbal).symm
      · have B1 : Benign db s (setAcct s src { f with info := { f.info with balance := U256.wadd f.info.balance bal } }) := by
          refine benign_setAcct_upd hf ⟨?_, rfl, rfl, rfl, rfl, rfl, fun _ => rfl⟩
          show f.info.balance = U256.wadd f.info.balance bal
          rw [h0]; exact (wadd_zero hfb).symm
        cases hto : (setAcct s src { f with info := { f.info with balance := U256.wadd f.info.balance bal } }).state dst with
        | none => simp [hf, hto] at h
        | some t =>
          simp only [hf, hto, Option.bind_eq_bind, Option.bind_some, Option.some.injEq] at h
          subst h
          refine B1.trans (benign_setAcct_upd hto ⟨?_, rfl, rfl, rfl, rfl, rfl, fun _ => rfl⟩)
          show t.info.balance = bsub t.info.balance bal
          rw [h0]; exact (bsub_zero _).symm
  | accountDestroyed _ _ _ _ => simp [benignEntry] at he
  | nonceChange _ => simp [benignEntry] at he
  | accountCreated _ => simp [benignEntry] at he
  | storageChanged _ _ _ => simp [benignEntry] at he
  | transientChange _ _ _ => simp [benignEntry] at he
  | codeChange _ => simp [benignEntry] at he

theorem undoLevel_benign {db : Db} {sd : Bool} : ∀ (l : List Entry) (s s' : JState), BalOk db s →
    (∀ e ∈ l, benignEntry e = true) → undoLevel sd s l = some s' → Benign db s s'
  | [], s, s', _, _, h => by
    simp [undoLevel] at h; subst h; exact Benign.refl _ _
  | e :: rest, s, s', hb, hl, h => by
    unfold undoLevel at h
    cases h1 : undoEntry sd s e with
    | none => simp [h1] at h
    | some s1 =>
      simp only [h1, Option.bind_eq_bind, Option.bind_some] at h
      have B1 := undoEntry_benign hb (hl e (by simp)) h1
      exact B1.trans (undoLevel_benign rest s1 s' (balOk_of_world hb B1.world) (fun e he => hl e (by simp [he])) h)

/-- every journal level above the first `L` (oldest) ones holds only benign entries -/
def RegionOk (L : Nat) : List (List Entry) → Prop
  | [] => True
  | l :: rest => rest.length + 1 ≤ L ∨ ((∀ e ∈ l, benignEntry e = true) ∧ RegionOk L rest)

theorem regionOk_of_short {L : Nat} : ∀ (j : List (List Entry)), j.length ≤ L → RegionOk L j
  | [], _ => trivial
  | _ :: rest, h => Or.inl (by simpa using h)

theorem regionOk_tail {L : Nat} {l : List Entry} {rest : List (List Entry)} (h : RegionOk L (l :: rest)) : RegionOk L rest := by
  rcases h with h | h
  · exact regionOk_of_short rest (by omega)
  · exact h.2

theorem regionOk_drop {L : Nat} : ∀ (n : Nat) (j : List (List Entry)), RegionOk L j → RegionOk L (j.drop n)
  | 0, j, h => by simpa using h
  | _ + 1, [], _ => by simp [RegionOk]
  | n + 1, _ :: rest, h => by simpa using regionOk_drop n rest (regionOk_tail h)

theorem regionOk_ext {L : Nat} {j j' : List (List Entry)} (he : JournalExt j j') (h : RegionOk L j) : RegionOk L j' := by
  cases j with
  | nil => simp only [JournalExt] at he; subst he; trivial
  | cons l rest =>
    obtain ⟨es, hes, rfl⟩ := he
    rcases h with h | h
    · exact Or.inl h
    · refine Or.inr ⟨fun e hm => ?_, h.2⟩
      rcases List.mem_append.mp hm with hm | hm
      · exact hes e hm
      · exact h.1 e hm

theorem journalExt_length {j j' : List (List Entry)} (he : JournalExt j j') : j'.length = j.length := by
  cases j with
  | nil => simp only [JournalExt] at he; subst he; rfl
  | cons l rest => obtain ⟨es, _, rfl⟩ := he; rfl

theorem undoLevels_benign {db : Db} {sd : Bool} {L : Nat} : ∀ (j : List (List Entry)) (n : Nat) (s s' : JState),
    RegionOk L j → n + L ≤ j.length → BalOk db s → undoLevels sd s (j.take n) = some s' → Benign db s s'
  | [], n, s, s', _, _, _, h => by
    simp [undoLevels] at h; subst h; exact Benign.refl _ _
  | _ :: _, 0, s, s', _, _, _, h => by
    simp [undoLevels] at h; subst h; exact Benign.refl _ _
  | l :: rest, n + 1, s, s', hr, hn, hb, h => by
    have hn' : n + L ≤ rest.length := by simp at hn; omega
    rcases hr with hr | hr
    · omega
    · simp only [List.take_succ_cons, undoLevels] at h
      cases h1 : undoLevel sd s l with
      | none => simp [h1] at h
      | some s1 =>
        simp only [h1, Option.bind_eq_bind, Option.bind_some] at h
        have B1 := undoLevel_benign l s s1 hb hr.1 h1
        exact B1.trans (undoLevels_benign rest n s1 s' hr.2 hn' (balOk_of_world hb B1.world) h)

end Revm.Proofs.Static
