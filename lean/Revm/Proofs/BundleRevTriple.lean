import Revm.Proofs.BundleRevPath
/-! C17, second sentence, per address of one merge group: `RevTriple` — the revert recorded for the address (or
none), applied as `revert_latest` does, maps a reverted entry matching the forward entry after the group to one
matching the forward entry before the group. Core Lean only. -/
namespace Revm.Proofs.Bundle
open Revm.Model.Bundle Revm.Spec.Bundle

set_option linter.unusedSimpArgs false
set_option linter.unusedVariables false

/-- the account `revert_latest` starts from when the address is not in the bundle -/
def freshAcct : BAcct := ⟨none, none, [], .loadedNotExisting⟩

/-- what `revert_latest` does to the bundle entry of one address (`none` = not in the bundle) -/
def revApply (b? : Option BAcct) (r : ARevert) : Option BAcct :=
  if ((b?.getD freshAcct).revert r).2 then none else some ((b?.getD freshAcct).revert r).1

def revApplyO (b? : Option BAcct) (rev : Option ARevert) : Option BAcct :=
  match rev with | none => b? | some r => revApply b? r

def wipeOkO (b? : Option BAcct) (rev : Option ARevert) : Bool :=
  match rev with | none => true | some r => wipeOk b? r

/-- what the pre-state `P'` of the bundle the revert is applied to must share with the pre-state `P` of the bundle
that recorded it (`P' = P` for `revert` on the recording bundle itself; differs after `extend`) -/
def RevCompat (rev : Option ARevert) (b0? : Option BAcct) (Ps : Nat → Nat) (Pi' : Option Info) (Ps' : Nat → Nat)
    (Mi : Option Info) : Prop :=
  ∀ r, rev = some r → (b0? = none → Mi = none → Pi' = none) ∧ (Pi' = none → ∀ k, Ps' k = 0) ∧
    (r.wipe = true → ∀ k, Ps' k = Ps k)

/-- `rev` leads from (a reverted entry matching) `b1?` / reference `R` back to `b0?` / reference `M` -/
def RevTriple (rev : Option ARevert) (b0? b1? : Option BAcct) (Ps : Nat → Nat)
    (Mi : Option Info) (Ms : Nat → Nat) (Ri : Option Info) (Rs : Nat → Nat) : Prop :=
  ∀ (Pi' : Option Info) (Ps' : Nat → Nat) b'?, RevCompat rev b0? Ps Pi' Ps' Mi → RInv b'? b1? Pi' Ps' Ri Rs →
    wipeOkO b'? rev = true → RInv (revApplyO b'? rev) b0? Pi' Ps' Mi Ms

theorem RInv.congr {b'? b? : Option BAcct} {Pi : Option Info} {Ps : Nat → Nat} {Mi Ri : Option Info}
    {Ms Rs : Nat → Nat} (h : RInv b'? b? Pi Ps Ri Rs) (hi : Mi = Ri) (hs : ∀ k, Ms k = Rs k) :
    RInv b'? b? Pi Ps Mi Ms := by
  have : Ms = Rs := funext hs
  subst hi; subst this; exact h

/-- an address without a transition in the group -/
theorem revTriple_same (b? : Option BAcct) (Ps : Nat → Nat) (Mi : Option Info) (Ms : Nat → Nat)
    (Ri : Option Info) (Rs : Nat → Nat) (hi : Mi = Ri) (hs : ∀ k, Ms k = Rs k) :
    RevTriple none b? b? Ps Mi Ms Ri Rs :=
  fun _ _ _ _ hR _ => hR.congr hi hs

/-- conclusion of `rev_core_some`, for every account the revert may be applied to -/
def CoreSome (acc : BAcct) (t : Transition) (r : ARevert) (Pi : Option Info) (Ps : Nat → Nat) (Mi : Option Info)
    (Ms : Nat → Nat) (Ri : Option Info) (Rs : Nat → Nat) : Prop :=
  ∀ b' : BAcct, OKAcc b' Pi Ps Ri Rs → b'.status.wasDestroyed = t.status.wasDestroyed →
    (t.status.wasDestroyed = false → ∀ k, ((acc.storage.get k).isSome = true ∨ (t.storage.get k).isSome = true) →
      (b'.storage.get k).isSome = true) →
    wipeOk (some b') r = true →
    ((b'.revert r).2 = true → Pi = none ∧ Mi = none ∧ ∀ k, Ms k = 0) ∧
    ((b'.revert r).2 = false → OKAcc (b'.revert r).1 Pi Ps Mi Ms ∧
      (b'.revert r).1.status.wasDestroyed = acc.status.wasDestroyed ∧
      (acc.status.wasDestroyed = false → keysSub acc.storage (b'.revert r).1.storage))

/-- from accounts to bundle entries: the reverted entry may be absent (then `revert_latest` starts from a fresh
account) -/
theorem lift_some (acc : BAcct) (t : Transition) (r : ARevert) (Pi : Option Info) (Ps : Nat → Nat)
    (Mi : Option Info) (Ms : Nat → Nat) (Ri : Option Info) (Rs : Nat → Nat)
    (hcore : CoreSome acc t r Pi Ps Mi Ms Ri Rs) (b1 : BAcct)
    (hb1s : b1.status.wasDestroyed = t.status.wasDestroyed)
    (hb1k : t.status.wasDestroyed = false → ∀ k, ((acc.storage.get k).isSome = true ∨ (t.storage.get k).isSome = true) →
      (b1.storage.get k).isSome = true)
    (b'? : Option BAcct) (hR : RInv b'? (some b1) Pi Ps Ri Rs) (hwo : wipeOk b'? r = true) :
    match revApply b'? r with
    | none => Pi = none ∧ Mi = none ∧ ∀ k, Ms k = 0
    | some b'' => OKAcc b'' Pi Ps Mi Ms ∧ b''.status.wasDestroyed = acc.status.wasDestroyed ∧
        (acc.status.wasDestroyed = false → keysSub acc.storage b''.storage) := by
  cases b'? with
  | some b' =>
    obtain ⟨hOK, hwd, hks⟩ := hR
    obtain ⟨g1, g2⟩ := hcore b' hOK (hwd.trans hb1s)
      (fun htn k hk => hks (by rw [hb1s]; exact htn) k (hb1k htn k hk)) hwo
    simp only [revApply, Option.getD]
    by_cases hf : (b'.revert r).2 = true
    · simp only [hf, if_true]; exact g1 hf
    · have hf' : (b'.revert r).2 = false := by simpa using hf
      simp only [hf', Bool.false_eq_true, if_false]; exact g2 hf'
  | none =>
    obtain ⟨hwd, hPi, hRi, hRs, hPs⟩ := hR
    have hb0 : OKAcc ⟨none, none, [], b1.status⟩ Pi Ps Ri Rs :=
      ⟨by rw [hRi]; rfl, by rw [hPi]; rfl,
        (storageInv_d ⟨none, none, [], b1.status⟩ Ps Rs hwd).mpr (DRel_nil Rs hRs)⟩
    have hwo' : wipeOk (some ⟨none, none, [], b1.status⟩) r = true := by
      simp only [wipeOk] at hwo ⊢
      simpa using hwo
    obtain ⟨g1, g2⟩ := hcore ⟨none, none, [], b1.status⟩ hb0 hb1s
      (fun htn => by rw [← hb1s, hwd] at htn; cases htn) hwo'
    have hrs : (⟨none, none, [], b1.status⟩ : BAcct).revert r = freshAcct.revert r :=
      revert_status freshAcct b1.status r
    rw [hrs] at g1 g2
    simp only [revApply, Option.getD]
    by_cases hf : (freshAcct.revert r).2 = true
    · simp only [hf, if_true]; exact g1 hf
    · have hf' : (freshAcct.revert r).2 = false := by simpa using hf
      simp only [hf', Bool.false_eq_true, if_false]; exact g2 hf'

/-- the `original_bundle_account` of a transition satisfies the bundle invariant w.r.t. the state at the last merge -/
theorem orig_binv (t : Transition) (c : CacheAcct) (Mi : Option Info) (Ms Rs : Nat → Nat)
    (hm : Facts t.prevStatus Mi Ms) (ht : TInv t c Mi Ms Rs) (hndc : t.prevStatus ≠ .destroyedChanged) :
    BInvAcc t.originalBundleAccount t.prevStatus Mi Ms Mi Ms := by
  have hstor0 : StorageInv t.originalBundleAccount Ms Ms := by
    cases hwd : t.prevStatus.wasDestroyed with
    | false => exact (storageInv_nd _ _ _ hwd).mpr (SlotsRel.nil Ms)
    | true =>
      have hhi : hasInfo t.prevStatus = false := by
        revert hwd hndc; cases t.prevStatus <;> simp [Status.wasDestroyed, hasInfo]
      have hMn : Mi = none := by
        have := hm.some_iff; rw [hhi] at this
        cases hMi : Mi with
        | none => rfl
        | some i => rw [hMi] at this; cases this
      exact (storageInv_d _ _ _ hwd).mpr (DRel_nil Ms (hm.none_zero hMn))
  exact ⟨rfl, ht.prev, ht.prev, hstor0, fun _ => rfl⟩

/-- **per address**: the revert recorded by one iteration of the merge loop leads back from the entry after
the group to the entry before the group -/
theorem rev_acct (b? : Option BAcct) (t : Transition) (c : CacheAcct) (Pi : Option Info) (Ps : Nat → Nat)
    (Mi : Option Info) (Ms : Nat → Nat) (Ri : Option Info) (Rs : Nat → Nat)
    (hb : BInv b? t.prevStatus Pi Ps Mi Ms) (hm : Facts t.prevStatus Mi Ms)
    (ht : TInv t c Mi Ms Rs) (hc : CInv c Ri Rs)
    (b?' : Option BAcct) (rev : Option ARevert) (h1 : oneAcct b? t = some (b?', rev)) :
    RevTriple rev b? b?' Ps Mi Ms Ri Rs := by
  intro Pi' Ps' b'? hcmp hR hwo
  cases b? with
  | some acc =>
    obtain ⟨hb1, hb2⟩ := hb
    simp only [oneAcct] at h1
    cases hu : updateAndCreateRevert acc t with
    | none => rw [hu] at h1; cases h1
    | some x =>
      obtain ⟨acc', rv⟩ := x
      rw [hu] at h1
      simp only [Option.map, Option.some.injEq, Prod.mk.injEq] at h1
      obtain ⟨q1, q2⟩ := h1
      subst q1; subst q2
      have h5 : st5 acc.status = true := by rw [hb1.status]; exact hb2
      obtain ⟨a2, r2, e1, _, hbi⟩ := merge_core acc t c Pi Ps Mi Ms Ri Rs hb1 hm ht hc
      rw [hu] at e1
      simp only [Option.some.injEq, Prod.mk.injEq] at e1
      have hst' : acc'.status = t.status := by
        have := (hbi h5).status; rw [← e1.1] at this; rw [this, ht.status]
      have hkeys : t.status.wasDestroyed = false → ∀ k,
          ((acc.storage.get k).isSome = true ∨ (t.storage.get k).isSome = true) → (acc'.storage.get k).isSome = true := by
        intro htn k hk
        obtain ⟨X, ir, e2, _, _, hX⟩ := nd_paths acc t c Pi Ps Mi Ms Ri Rs hb1 hm ht hc htn
        rw [hu] at e2
        simp only [Option.some.injEq, Prod.mk.injEq] at e2
        rw [e2.1]; exact hX k hk
      cases rv with
      | none =>
        obtain ⟨g1, g2, g3⟩ := rev_core_none acc t c Pi Ps Mi Ms Ri Rs hb1 hm ht hc acc' hu
        have hfam : acc'.status.wasDestroyed = acc.status.wasDestroyed := by rw [hst']; exact g3 h5
        simp only [revApplyO]
        cases b'? with
        | none =>
          obtain ⟨w1, w2, w3, w4, w5⟩ := hR
          exact ⟨by rw [← hfam]; exact w1, w2, by rw [g1]; exact w3, fun k => by rw [g2]; exact w4 k, w5⟩
        | some b' =>
          obtain ⟨w1, w2, w3⟩ := hR
          refine ⟨w1.congr g1 g2, by rw [w2]; exact hfam, fun hwa => ?_⟩
          have htn : t.status.wasDestroyed = false := by rw [← hst', hfam]; exact hwa
          exact keysSub_trans (fun k hk => hkeys htn k (Or.inl hk)) (w3 (by rw [hfam]; exact hwa))
      | some r =>
        obtain ⟨_, hPz', hwP⟩ := hcmp r rfl
        have hdelP : t.prevStatus = .loadedNotExisting → Pi' = none := by
          intro hl; rw [hl] at hb2; cases hb2
        have hcore : CoreSome acc t r Pi' Ps' Mi Ms Ri Rs := fun b' a1 a2 a3 a4 =>
          rev_core_some acc t c Pi Ps Mi Ms Ri Rs hb1 hm ht hc Pi' Ps' hdelP acc' r hu hwP b' a1 a2 a3 a4
        have := lift_some acc t r Pi' Ps' Mi Ms Ri Rs hcore acc' (by rw [hst']) hkeys b'? hR hwo
        simp only [revApplyO]
        cases hx : revApply b'? r with
        | none =>
          rw [hx] at this
          obtain ⟨w1, w2, w3⟩ := this
          have hhi : hasInfo t.prevStatus = false := by
            have := hm.some_iff; rw [w2] at this; exact this.symm
          exact ⟨by rw [hb1.status]; exact hasInfo_false_st5 _ hhi hb2, w1, w2, w3, hPz' w1⟩
        | some b'' => rw [hx] at this; exact this
  | none =>
    obtain ⟨hMP, hMsP, hndc⟩ := hb
    subst hMP; subst hMsP
    have hb0 := orig_binv t c Mi Ms Rs hm ht hndc
    simp only [oneAcct] at h1
    cases hu : updateAndCreateRevert t.originalBundleAccount t with
    | none => rw [hu] at h1; cases h1
    | some x =>
      obtain ⟨acc', rv⟩ := x
      rw [hu] at h1
      cases rv with
      | none =>
        simp only [Option.map, Option.some.injEq, Prod.mk.injEq] at h1
        obtain ⟨q1, q2⟩ := h1
        subst q1; subst q2
        obtain ⟨g1, g2, _⟩ := rev_core_none _ t c Mi Ms Mi Ms Ri Rs hb0 hm ht hc acc' hu
        exact hR.congr g1 g2
      | some r =>
        simp only [Option.map, Option.some.injEq, Prod.mk.injEq] at h1
        obtain ⟨q1, q2⟩ := h1
        subst q1; subst q2
        obtain ⟨hc1, hPz', hwP⟩ := hcmp r rfl
        have hdelP : t.prevStatus = .loadedNotExisting → Pi' = none := by
          intro hl
          have hMn : Mi = none := by
            have := hm.some_iff; rw [hl] at this
            cases hMi : Mi with
            | none => rfl
            | some i => rw [hMi] at this; cases this
          exact hc1 rfl hMn
        have hcore : CoreSome t.originalBundleAccount t r Pi' Ps' Mi Ms Ri Rs := fun b' a1 a2 a3 a4 =>
          rev_core_some _ t c Mi Ms Mi Ms Ri Rs hb0 hm ht hc Pi' Ps' hdelP acc' r hu hwP b' a1 a2 a3 a4
        have := lift_some _ t r Pi' Ps' Mi Ms Ri Rs hcore t.presentBundleAccount rfl
          (fun _ k hk => by
            cases hk with
            | inl h => simp [Transition.originalBundleAccount, BMap.get] at h
            | inr h => exact h) b'? hR hwo
        simp only [revApplyO]
        cases hx : revApply b'? r with
        | none =>
          rw [hx] at this
          obtain ⟨w1, w2, w3⟩ := this
          exact ⟨by rw [w1, w2], fun k => by rw [w3, hPz' w1]⟩
        | some b'' => rw [hx] at this; exact this.1

/-- entries are never removed by a merge, and an address with a revert is in the bundle afterwards -/
theorem oneAcct_pres (b? : Option BAcct) (t : Transition) (b?' : Option BAcct) (rev : Option ARevert)
    (h : oneAcct b? t = some (b?', rev)) :
    (b?.isSome = true → b?'.isSome = true) ∧ (rev.isSome = true → b?'.isSome = true) := by
  cases b? with
  | some acc =>
    simp only [oneAcct] at h
    cases hu : updateAndCreateRevert acc t with
    | none => rw [hu] at h; cases h
    | some x =>
      rw [hu] at h
      simp only [Option.map, Option.some.injEq, Prod.mk.injEq] at h
      rw [← h.1]; exact ⟨fun _ => rfl, fun _ => rfl⟩
  | none =>
    simp only [oneAcct] at h
    cases hu : updateAndCreateRevert t.originalBundleAccount t with
    | none => rw [hu] at h; cases h
    | some x =>
      obtain ⟨a', rv⟩ := x
      rw [hu] at h
      cases rv with
      | none =>
        simp only [Option.map, Option.some.injEq, Prod.mk.injEq] at h
        rw [← h.2]; exact ⟨fun hh => (by cases hh), fun hh => (by cases hh)⟩
      | some r =>
        simp only [Option.map, Option.some.injEq, Prod.mk.injEq] at h
        rw [← h.1]; exact ⟨fun _ => rfl, fun _ => rfl⟩

end Revm.Proofs.Bundle
