import Revm.Model.Evm
import Revm.Spec.Evm
import Revm.Proofs.Journal
/-! The relation between the journal state of the model and the state of the snapshot specification, and the
congruence of the forward journal operations with respect to it. -/
set_option linter.unusedSimpArgs false
namespace Revm.Proofs.EvmRefine
open Revm Revm.Model Revm.Model.Journal Revm.Spec.JournalAbs Revm.Proofs.Journal

/-- entries of the two maps at one address: both absent, or both present with the same observable content -/
def EntryRel (db : Db) (a : Addr) : Option Acct → Option Acct → Prop
  | none, none => True
  | some x, some y =>
    x.info.balance = y.info.balance ∧ x.info.nonce = y.info.nonce ∧ x.info.codeHash = y.info.codeHash ∧
    x.created = y.created ∧ x.selfdestructed = y.selfdestructed ∧ x.touched = y.touched ∧
    x.notExisting = y.notExisting ∧ x.cold = y.cold ∧
    slotsOf db a x.created x.storage = slotsOf db a y.created y.storage
  | _, _ => False

/-- the code cache, when filled, holds the code of the hash -/
def CodeOk (s : JState) : Prop := ∀ a acc, s.state a = some acc → ∀ h, acc.info.code = some h → h = acc.info.codeHash

/-- the journal state of the model and the state of the specification: same domain, same observable content
(unmasked: also the touched mark of 0x03), same transient storage, logs, depth, fork, pre-warmed set -/
structure JRel (db : Db) (j s : JState) : Prop where
  ent : ∀ a, EntryRel db a (j.state a) (s.state a)
  tr : ∀ a k, tload j a k = tload s a k
  logs : j.logs = s.logs
  depth : j.depth = s.depth
  spec : j.spec = s.spec
  pre : j.preloaded = s.preloaded
  jne : j.journal ≠ []
  sne : s.journal ≠ []
  cj : CodeOk j
  cs : CodeOk s

theorem pushEntry_ne {s : JState} {e : Entry} (h : s.journal ≠ []) :
    ∃ s', pushEntry s e = some s' ∧ s'.state = s.state ∧ s'.transient = s.transient ∧ s'.logs = s.logs ∧
      s'.depth = s.depth ∧ s'.spec = s.spec ∧ s'.preloaded = s.preloaded ∧ s'.journal ≠ [] := by
  unfold pushEntry
  cases hj : s.journal with
  | nil => exact absurd hj h
  | cons l rest => exact ⟨_, rfl, rfl, rfl, rfl, rfl, rfl, rfl, by simp⟩

/-- a change of the journal field only -/
def SameButJournal (s s' : JState) : Prop :=
  s'.state = s.state ∧ s'.transient = s.transient ∧ s'.logs = s.logs ∧ s'.depth = s.depth ∧ s'.spec = s.spec ∧
  s'.preloaded = s.preloaded ∧ s'.journal ≠ []

theorem pushEntry_some {s s' : JState} {e : Entry} (h : pushEntry s e = some s') : SameButJournal s s' := by
  unfold pushEntry at h
  cases hj : s.journal with
  | nil => rw [hj] at h; simp at h
  | cons l rest =>
    rw [hj] at h
    simp only [Option.some.injEq] at h
    subst h
    exact ⟨rfl, rfl, rfl, rfl, rfl, rfl, by simp⟩

theorem JRel.of_same {db : Db} {j s j' s' : JState} (h : JRel db j s) (hj : SameButJournal j j')
    (hs : SameButJournal s s') : JRel db j' s' := by
  obtain ⟨a1, a2, a3, a4, a5, a6, a7⟩ := hj
  obtain ⟨b1, b2, b3, b4, b5, b6, b7⟩ := hs
  refine ⟨?_, ?_, ?_, ?_, ?_, ?_, a7, b7, ?_, ?_⟩
  · intro a; rw [a1, b1]; exact h.ent a
  · intro a k; simp only [tload, a2, b2]; exact h.tr a k
  · rw [a3, b3]; exact h.logs
  · rw [a4, b4]; exact h.depth
  · rw [a5, b5]; exact h.spec
  · rw [a6, b6]; exact h.pre
  · intro a acc hacc; rw [a1] at hacc; exact h.cj a acc hacc
  · intro a acc hacc; rw [b1] at hacc; exact h.cs a acc hacc

/-- replacing the entries at one address by related ones -/
theorem JRel.setAcct {db : Db} {j s : JState} (h : JRel db j s) (a : Addr) (x y : Acct)
    (hxy : EntryRel db a (some x) (some y))
    (hx : ∀ c, x.info.code = some c → c = x.info.codeHash) (hy : ∀ c, y.info.code = some c → c = y.info.codeHash) :
    JRel db (Journal.setAcct j a x) (Journal.setAcct s a y) := by
  refine ⟨?_, h.tr, h.logs, h.depth, h.spec, h.pre, h.jne, h.sne, ?_, ?_⟩
  · intro b
    by_cases hb : b = a
    · subst hb; simpa [Journal.setAcct] using hxy
    · simpa [Journal.setAcct, hb] using h.ent b
  · intro b acc hacc
    by_cases hb : b = a
    · subst hb; simp [Journal.setAcct] at hacc; subst hacc; exact hx
    · simp [Journal.setAcct, hb] at hacc; exact h.cj b acc hacc
  · intro b acc hacc
    by_cases hb : b = a
    · subst hb; simp [Journal.setAcct] at hacc; subst hacc; exact hy
    · simp [Journal.setAcct, hb] at hacc; exact h.cs b acc hacc

/-- the account the database holds -/
def dbAcct (db : Db) (a : Addr) : Acct :=
  match db.basic a with
  | some i => Acct.ofInfo i
  | none => Acct.newNotExisting

/-- `load_account` -/
theorem loadAccount_rel {db : Db} {j s j' : JState} {a : Addr} {c : Bool} (h : JRel db j s)
    (hdb : ∀ b i, db.basic b = some i → ∀ hh, i.code = some hh → hh = i.codeHash)
    (hl : loadAccount db j a = some (j', c)) :
    ∃ s', loadAccount db s a = some (s', c) ∧ JRel db j' s' := by
  have he := h.ent a
  unfold loadAccount at hl ⊢
  cases hja : j.state a with
  | some x =>
    cases hsa : s.state a with
    | none => rw [hja, hsa] at he; exact he.elim
    | some y =>
      rw [hja, hsa] at he
      rw [hja] at hl
      simp only at hl ⊢
      obtain ⟨e1, e2, e3, e4, e5, e6, e7, e8, e9⟩ := he
      have hrel : JRel db (Journal.setAcct j a { x with cold := false }) (Journal.setAcct s a { y with cold := false }) :=
        h.setAcct a _ _ ⟨e1, e2, e3, e4, e5, e6, e7, rfl, e9⟩ (h.cj a x hja) (h.cs a y hsa)
      rw [← e8]
      by_cases hc : x.cold
      · rw [if_pos hc] at hl ⊢
        obtain ⟨s1, hp, hs1⟩ := pushEntry_ne (s := Journal.setAcct s a { y with cold := false })
          (e := .accountWarmed a) (by simpa [Journal.setAcct] using h.sne)
        cases hpj : pushEntry (Journal.setAcct j a { x with cold := false }) (.accountWarmed a) with
        | none => rw [hpj] at hl; simp at hl
        | some j1 =>
          rw [hpj] at hl
          simp only [Option.map_some, Option.some.injEq, Prod.mk.injEq] at hl
          obtain ⟨hl1, hl2⟩ := hl
          subst hl1; subst hl2
          rw [hp]
          exact ⟨s1, rfl, hrel.of_same (pushEntry_some hpj) hs1⟩
      · rw [if_neg hc] at hl ⊢
        simp only [Option.some.injEq, Prod.mk.injEq] at hl
        obtain ⟨hl1, hl2⟩ := hl
        subst hl1; subst hl2
        exact ⟨_, rfl, hrel⟩
  | none =>
    cases hsa : s.state a with
    | some y => rw [hja, hsa] at he; exact he.elim
    | none =>
      rw [hja] at hl
      change (if (!j.preloaded a) = true then
          (pushEntry (Journal.setAcct j a (dbAcct db a)) (.accountWarmed a)).map (·, true)
        else some (Journal.setAcct j a (dbAcct db a), false)) = some (j', c) at hl
      show ∃ s', (if (!s.preloaded a) = true then
          (pushEntry (Journal.setAcct s a (dbAcct db a)) (.accountWarmed a)).map (·, true)
        else some (Journal.setAcct s a (dbAcct db a), false)) = some (s', c) ∧ JRel db j' s'
      have hcode : ∀ c, (dbAcct db a).info.code = some c → c = (dbAcct db a).info.codeHash := by
        unfold dbAcct
        cases hb : db.basic a with
        | none => intro c hc; simp [Acct.newNotExisting, Info.default] at hc ⊢; exact hc.symm
        | some i => intro c hc; exact hdb a i hb c hc
      have hrel : JRel db (Journal.setAcct j a (dbAcct db a)) (Journal.setAcct s a (dbAcct db a)) :=
        h.setAcct a _ _ ⟨rfl, rfl, rfl, rfl, rfl, rfl, rfl, rfl, rfl⟩ hcode hcode
      rw [← h.pre]
      by_cases hc : (!j.preloaded a) = true
      · rw [if_pos hc] at hl ⊢
        obtain ⟨s1, hp, hs1⟩ := pushEntry_ne (s := Journal.setAcct s a (dbAcct db a))
          (e := .accountWarmed a) (by simpa [Journal.setAcct] using h.sne)
        cases hpj : pushEntry (Journal.setAcct j a (dbAcct db a)) (.accountWarmed a) with
        | none => rw [hpj] at hl; simp at hl
        | some j1 =>
          rw [hpj] at hl
          simp only [Option.map_some, Option.some.injEq, Prod.mk.injEq] at hl
          obtain ⟨hl1, hl2⟩ := hl
          subst hl1; subst hl2
          rw [hp]
          exact ⟨s1, rfl, hrel.of_same (pushEntry_some hpj) hs1⟩
      · rw [if_neg hc] at hl ⊢
        simp only [Option.some.injEq, Prod.mk.injEq] at hl
        obtain ⟨hl1, hl2⟩ := hl
        subst hl1; subst hl2
        exact ⟨_, rfl, hrel⟩

end Revm.Proofs.EvmRefine
