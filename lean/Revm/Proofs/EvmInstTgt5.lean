import Revm.Proofs.EvmInstTgt4
/-! Frame condition, part 5: CALL / CALLCODE / DELEGATECALL / STATICCALL / CREATE / CREATE2 / EOFCREATE keep `target`,
`caller`, `spec`; the DELEGATECALL action targets the frame's own `target`. -/
set_option linter.unusedSimpArgs false
set_option linter.unusedVariables false
namespace Revm.Proofs.EvmInstTgt
open Revm Revm.Model Revm.Model.Interp

attribute [local irreducible] gasCharge getS check requireNonStatic requireEof requireInitEof requireSome assumeNotEof
  gasOrFail refund advancePc setEof popN popTop setTop push stackCall stackCallAdv asUsizeOrFail resizeMem memSlice
  memSliceRange memGetU256 memSetU256 memSetByte memSetData memCopy codeSlice codeByte jumpRel getEof loadEofCode
  haltWith haltOut faultWith modifyS liftMemWrite pop1 pop2 pop3 pop4 popAddress popTop1 popTop2 popTop3 readU16 readI16

section
variable {s0 s : IState}

theorem keepT_resizeMemRange (h : KeptT s0 s) (o l : Nat) : KeepT s0 T (resizeMemRange o l s) := by
  unfold resizeMemRange; tgt_auto
macro_rules | `(tactic| tgt_prim) => `(tactic| exact keepT_resizeMemRange ‹_› _ _)
attribute [local irreducible] resizeMemRange

theorem keepT_getMemoryInputAndOutRanges (h : KeptT s0 s) : KeepT s0 T (getMemoryInputAndOutRanges s) := by
  unfold getMemoryInputAndOutRanges; tgt_auto
theorem keepT_popExtcallTarget (h : KeptT s0 s) : KeepT s0 T (popExtcallTarget s) := by
  unfold popExtcallTarget; tgt_auto
theorem keepT_extcallInput (h : KeptT s0 s) : KeepT s0 T (extcallInput s) := by
  unfold extcallInput; tgt_auto
theorem keepT_checkWhen (h : KeptT s0 s) (b : Bool) (k : Nat) : KeepT s0 T (checkWhen b k s) := by
  unfold checkWhen; tgt_auto
theorem keepT_initcodeCharge (h : KeptT s0 s) (l : Nat) : KeepT s0 T (initcodeCharge l s) := by
  unfold initcodeCharge
  refine keepT_bind (keepT_getS h) (fun x s' hk _ => ?_)
  split
  · split
    · tgt_auto
    · cases GasCalc.initcodeCost l with
      | some c => (try dsimp only); tgt_auto
      | none => (try dsimp only); tgt_auto
  · tgt_auto
macro_rules | `(tactic| tgt_prim) => `(tactic| first
  | exact keepT_getMemoryInputAndOutRanges ‹_› | exact keepT_popExtcallTarget ‹_› | exact keepT_extcallInput ‹_›
  | exact keepT_checkWhen ‹_› _ _ | exact keepT_initcodeCharge ‹_› _)
attribute [local irreducible] getMemoryInputAndOutRanges popExtcallTarget extcallInput checkWhen initcodeCharge

theorem keepT_createCode (h : KeptT s0 s) (o l : Nat) : KeepT s0 T (createCode o l s) := by
  unfold createCode; tgt_auto
theorem keepT_createScheme (h : KeptT s0 s) (b : Bool) (l : Nat) : KeepT s0 T (createScheme b l s) := by
  unfold createScheme; tgt_auto
macro_rules | `(tactic| tgt_prim) => `(tactic| first | exact keepT_createCode ‹_› _ _ | exact keepT_createScheme ‹_› _ _)
attribute [local irreducible] createCode createScheme

theorem keepT_calcCallGas (h : KeptT s0 s) (r : HostResp) (ie ht : Bool) (l : Nat) :
    KeepT s0 T (calcCallGas r ie ht l s) := by
  unfold calcCallGas; tgt_auto
macro_rules | `(tactic| tgt_prim) => `(tactic| exact keepT_calcCallGas ‹_› _ _ _ _)
attribute [local irreducible] calcCallGas

theorem callI_target (s : IState) : TOutcome s (callI s) := by
  unfold callI
  have h := KeptT.refl s
  refine hostCallAction_target ?_ (fun b r s' h => ?_)
  · tgt_auto
  · obtain ⟨lgl, to, value, input, rs, re⟩ := b
    dsimp only
    refine keepT_bind (keepT_requireSome h r) (fun _ s1 h1 _ => ?_)
    refine keepT_bind (keepT_calcCallGas h1 r _ (decide (value ≠ 0)) _) (fun gl s2 h2 _ => ?_)
    refine keepT_bind (keepT_gasCharge h2 gl) (fun _ s3 h3 _ => ?_)
    refine keepT_bind (keepT_getS h3) (fun y s4 h4 hy => ?_)
    obtain ⟨rfl, rfl⟩ := hy
    refine keepT_pure h4 (fun i hi hv => ?_)
    cases hi; cases hv

theorem callcodeI_target (s : IState) : TOutcome s (callcodeI s) := by
  unfold callcodeI
  have h := KeptT.refl s
  refine hostCallAction_target ?_ (fun b r s' h => ?_)
  · tgt_auto
  · obtain ⟨lgl, to, value, input, rs, re⟩ := b
    dsimp only
    refine keepT_bind (keepT_requireSome h r) (fun _ s1 h1 _ => ?_)
    refine keepT_bind (keepT_calcCallGas h1 r _ (decide (value ≠ 0)) _) (fun gl s2 h2 _ => ?_)
    refine keepT_bind (keepT_gasCharge h2 gl) (fun _ s3 h3 _ => ?_)
    refine keepT_bind (keepT_getS h3) (fun y s4 h4 hy => ?_)
    obtain ⟨rfl, rfl⟩ := hy
    refine keepT_pure h4 (fun i hi hv => ?_)
    cases hi; cases hv

theorem delegatecallI_target (s : IState) : TOutcome s (delegatecallI s) := by
  unfold delegatecallI
  have h := KeptT.refl s
  refine hostCallAction_target ?_ (fun b r s' h => ?_)
  · tgt_auto
  · obtain ⟨lgl, to, input, rs, re⟩ := b
    dsimp only
    refine keepT_bind (keepT_requireSome h r) (fun _ s1 h1 _ => ?_)
    refine keepT_bind (keepT_calcCallGas h1 r _ _ _) (fun gl s2 h2 _ => ?_)
    refine keepT_bind (keepT_gasCharge h2 gl) (fun _ s3 h3 _ => ?_)
    refine keepT_bind (keepT_getS h3) (fun y s4 h4 hy => ?_)
    obtain ⟨rfl, rfl⟩ := hy
    refine keepT_pure h4 (fun i hi hv => ?_)
    cases hi
    exact h4.tgt

theorem staticcallI_target (s : IState) : TOutcome s (staticcallI s) := by
  unfold staticcallI
  have h := KeptT.refl s
  refine hostCallAction_target ?_ (fun b r s' h => ?_)
  · tgt_auto
  · obtain ⟨lgl, to, input, rs, re⟩ := b
    dsimp only
    refine keepT_bind (keepT_requireSome h r) (fun _ s1 h1 _ => ?_)
    refine keepT_bind (keepT_calcCallGas h1 r _ _ _) (fun gl s2 h2 _ => ?_)
    refine keepT_bind (keepT_gasCharge h2 gl) (fun _ s3 h3 _ => ?_)
    refine keepT_bind (keepT_getS h3) (fun y s4 h4 hy => ?_)
    obtain ⟨rfl, rfl⟩ := hy
    refine keepT_pure h4 (fun i hi hv => ?_)
    cases hi; cases hv

theorem createI_target (c2 : Bool) (s : IState) : TOutcome s (.pure (createI c2 s).toDoneAction) := by
  refine .pure (toDoneAction_target ?_)
  unfold createI
  have h := KeptT.refl s
  refine keepT_bind (by tgt_prim) (fun _ _ _ _ => ?_)
  refine keepT_bind (by tgt_prim) (fun _ _ _ _ => ?_)
  refine keepT_bind (by tgt_prim) (fun p _ _ _ => ?_)
  obtain ⟨value, codeOffset, len⟩ := p
  dsimp only
  refine keepT_bind (by tgt_prim) (fun len' _ _ _ => ?_)
  refine keepT_bind (by tgt_prim) (fun code _ _ _ => ?_)
  refine keepT_bind (by tgt_prim) (fun salt s1 h1 _ => ?_)
  refine keepT_bind (keepT_getS h1) (fun x s2 h2 hx => ?_)
  obtain ⟨rfl, rfl⟩ := hx
  (try dsimp only)
  refine keepT_bind (keepT_gasCharge h2 _) (fun _ s3 h3 _ => ?_)
  refine keepT_bind (keepT_getS h3) (fun y s4 h4 hy => ?_)
  obtain ⟨rfl, rfl⟩ := hy
  exact keepT_pure h4 (fun i hi => nomatch hi)

theorem eofcreateI_target (s : IState) : TOutcome s (eofcreateI s) := by
  unfold eofcreateI
  have h := KeptT.refl s
  refine hostCallAction_target ?_ (fun b r s' h => ?_)
  · unfold eofcreatePre
    refine keepT_bind (by tgt_prim) (fun _ _ _ _ => ?_)
    refine keepT_bind (by tgt_prim) (fun _ _ _ _ => ?_)
    refine keepT_bind (by tgt_prim) (fun _ _ _ _ => ?_)
    refine keepT_bind (by tgt_prim) (fun idx _ _ _ => ?_)
    refine keepT_bind (by tgt_prim) (fun p _ _ _ => ?_)
    obtain ⟨value, salt, dataOff, dataSize⟩ := p
    dsimp only
    refine keepT_bind (by tgt_prim) (fun c s1 h1 _ => ?_)
    cases c.containers[idx]? with
    | none => exact keepT_faultWith _
    | some sub =>
      (try dsimp only)
      generalize subcontainerOk sub = okb
      refine keepT_bind (by tgt_prim) (fun q s2 h2 _ => ?_)
      obtain ⟨a, b⟩ := q
      (try dsimp only)
      refine keepT_bind (Q := T) (by split <;> tgt_prim) (fun input s3 h3 _ => ?_)
      cases okb with
      | false => exact keepT_faultWith _
      | true =>
        simp only [Bool.not_true, Bool.false_eq_true, if_false]
        refine keepT_bind (by tgt_prim) (fun _ s4 h4 _ => ?_)
        refine keepT_bind (keepT_getS h4) (fun x s5 h5 _ => ?_)
        exact keepT_pure h5 trivial
  · obtain ⟨value, sub, input⟩ := b
    refine keepT_bind (keepT_getS h) (fun x s1 h1 hx => ?_)
    obtain ⟨rfl, rfl⟩ := hx
    refine keepT_bind (keepT_gasCharge h1 _) (fun _ s2 h2 _ => ?_)
    refine keepT_bind (keepT_advancePc h2 1) (fun _ s3 h3 _ => ?_)
    exact keepT_pure h3 (fun i hi => nomatch hi)

end
end Revm.Proofs.EvmInstTgt
