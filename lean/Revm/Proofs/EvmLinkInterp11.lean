import Revm.Proofs.EvmLinkInterp10
/-! LINK, the interpreter side of panic-freedom, part 11: **`OutB` holds** — assembled from the halt-output sweep over
`execPure`, the host instructions and the calls (parts 9, 10). -/
set_option linter.unusedSimpArgs false
set_option linter.unusedVariables false
namespace Revm.Proofs.EvmLink
open Revm Revm.Model Revm.Model.Interp

attribute [local irreducible] gasCharge getS check requireNonStatic requireEof requireInitEof requireSome assumeNotEof gasOrFail refund advancePc setEof popN popTop setTop push stackCall stackCallAdv asUsizeOrFail resizeMem memSlice memSliceRange memGetU256 memSetU256 memSetByte memSetData memCopy codeSlice codeByte jumpRel getEof loadEofCode haltWith haltOut faultWith modifyS liftMemWrite pop1 pop2 pop3 pop4 popAddress popTop1 popTop2 popTop3 readU16 readI16 jumpInner checkWhen

set_option maxHeartbeats 1000000 in
theorem execPure_hl (i : Instr) (m : M Unit) (hp : execPure i = some m) (s : IState) (h1 : s.isEofInit = false) :
    ∀ r o s', m s = .halt r o s' → o.length ≤ s'.mem.buffer.length := by
  cases i <;> simp only [execPure, Option.some.injEq] at hp <;> (try subst hp)
  all_goals first
    | (exact nomatch hp)
    | (exact hl_returnInner _ s)
    | (exact hl_revertI s)
    | (exact returnContract_hl s h1)
    | (exact HE.hl (he_copyToMem _ _ (by he_auto3)) s)
    | (exact HE.hl (by he_auto3) s)

theorem ol_fault (f : Fault) : OL (.fault f) :=
  ⟨fun r out s' heq => (nomatch heq), fun op k resp r out s' heq => (nomatch heq)⟩

set_option maxHeartbeats 1000000 in
theorem ol_execInstr (i : Instr) (s : IState) (h1 : s.isEofInit = false) : OL (execInstr i s) := by
  unfold execInstr
  cases hp : execPure i with
  | some m => exact ol_pure_toDone (execPure_hl i m hp s h1)
  | none =>
    dsimp only
    cases i
    all_goals first
      | exact ol_fault _
      | exact ol_keccak256I s | exact ol_balanceI s | exact ol_selfbalanceI s | exact ol_extcodesizeI s
      | exact ol_extcodehashI s | exact ol_extcodecopyI s | exact ol_blockhashI s | exact ol_sloadI s
      | exact ol_sstoreI s | exact ol_tloadI s | exact ol_tstoreI s | exact ol_logI _ s | exact ol_selfdestructI s
      | exact ol_callI s | exact ol_callcodeI s | exact ol_delegatecallI s | exact ol_staticcallI s
      | exact ol_eofcreateI s | exact ol_extcallI s | exact ol_extdelegatecallI s | exact ol_extstaticcallI s
      | exact ol_pure_toDoneAction (HE.hl (he_createI _) s)

/-- **`OutB`: the output of a halting instruction is within the memory buffer of the halting state** -/
theorem outB : OutB := by
  intro s d r out s' hi hstep hd
  subst hd
  have hpc := hi.pc
  rw [Revm.Proofs.Interp.step_eq hpc] at hstep
  have hol := ol_execInstr (decode s.code[s.pc]) { s with pc := s.pc + 1 } hi.notInit
  rcases hstep with h | ⟨op, k, resp, h, hk⟩
  · exact hol.1 _ _ _ h
  · exact hol.2 _ _ _ _ _ _ h hk.symm

end Revm.Proofs.EvmLink
