import Revm.Proofs.InterpEofRun
import Revm.Proofs.InterpTop
/-! C25, EOF part 6: the initial state of a frame that runs a well-formed container, and what `InvE` says about
the function stack. -/
set_option linter.unusedSimpArgs false
set_option linter.unusedVariables false
namespace Revm.Proofs.Interp
open Revm Revm.Model Revm.Model.Interp
open Revm.Proofs.Memory (WF)

theorem initE_inv (ctx : EofCtx) (input : List Nat) (gasLimit : Nat) (isStatic : Bool)
    (spec target caller callValue : Nat) (env : Env) (mem : Memory.SharedMemory) (isInit : Bool)
    (hwf : WfCtx ctx) (hil : input.length ≤ Memory.ISIZE_MAX)
    (hgas : gasLimit < U64) (henv : EnvOk spec env) (hmem : FreshMem mem) :
    InvE ctx (IState.initEof ctx input gasLimit isStatic spec target caller callValue env mem isInit)
      ∧ measure (IState.initEof ctx input gasLimit isStatic spec target caller callValue env mem isInit)
          = gasLimit := by
  have hmeas : measure (IState.initEof ctx input gasLimit isStatic spec target caller callValue env mem isInit)
      = gasLimit := by
    show gasLimit + Memory.currentExpansionCost mem = gasLimit
    rw [mcost_fresh hmem]; rfl
  have hne := hwf.nonempty
  have hsec : ctx.sections[0]? = some (ctx.sections.headD []) := by
    cases hs : ctx.sections with
    | nil => rw [hs] at hne; cases hne
    | cons a l => rfl
  refine ⟨?_, hmeas⟩
  exact
    { envOk := henv
      stack := by show ([] : List Nat).length ≤ 1024; simp
      memWF := hmem.wf
      memCk := hmem.ck
      rdLen := by show ([] : List Nat).length ≤ _; simp
      inLen := hil
      meas := by rw [hmeas]; omega
      safe := Or.inr rfl
      isEof := rfl
      jt := rfl
      ctx := ⟨{ ctx with curIdx := 0, retStack := [] }, ctx.sections.headD [], rfl,
        { wf := hwf, cur := hne, depth := Nat.zero_le _, frames := hwf.first }, hsec, rfl,
        (hwf.secs 0 _ hsec).2.1⟩
      static := by
        intro c1 h1
        have h1' : some ({ ctx with curIdx := 0, retStack := [] } : EofCtx) = some c1 := h1
        injection h1' with h1'
        subst h1'
        exact ⟨rfl, rfl, rfl, rfl⟩ }

/-- the function stack in a state satisfying `InvE`: the current section exists, the return stack has at most
1024 frames and each frame points at an instruction boundary of an existing section -/
theorem InvE.retStack_le {K : EofCtx} {s : IState} (h : InvE K s) :
    ∃ c, s.eof = some c ∧ c.curIdx < c.sections.length ∧ c.retStack.length ≤ 1024 := by
  obtain ⟨c, sec, he, hok, _, _, _⟩ := h.ctx
  exact ⟨c, he, hok.cur, hok.depth⟩

/-- the running code is the current code section of the container -/
theorem InvE.code_eq {K : EofCtx} {s : IState} (h : InvE K s) :
    ∃ c, s.eof = some c ∧ K.sections[c.curIdx]? = some s.code := by
  obtain ⟨c, sec, he, hok, hsec, hcode, _⟩ := h.ctx
  exact ⟨c, he, by rw [hcode, ← (h.static c he).sections]; exact hsec⟩

end Revm.Proofs.Interp
