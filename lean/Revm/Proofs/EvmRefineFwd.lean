import Revm.Proofs.EvmRefineCfg
import Revm.Proofs.EvmRefineOps3
/-! The forward journal operations as admissible C06 history steps of the open checkpoints (`Fwd`), and the forward
step of the configuration relation. -/
set_option linter.unusedSimpArgs false
set_option linter.unusedVariables false
namespace Revm.Proofs.EvmRefine
open Revm Revm.Model Revm.Model.Journal Revm.Spec.JournalAbs Revm.Proofs.Journal Revm.Proofs.Frame
open Revm.Model.Evm (World PreAcct CpOps journalOps R)
open Revm.Spec.Evm (Snap snapshotOps)

/-- a forward operation of the journal machine: a history transition for every list of checkpoints, which keeps the
depth, the fork and the pre-warmed set, and journal well-formedness -/
structure Fwd (db : Db) (hs : Addr → Bool) (j j' : JState) : Prop where
  tr : Trans db hs j j'
  depth : j'.depth = j.depth
  spec : j'.spec = j.spec
  pre : j'.preloaded = j.preloaded
  good : Good j'

theorem Fwd.refl (db : Db) (hs : Addr → Bool) {j : JState} (g : Good j) : Fwd db hs j j :=
  ⟨Trans.refl db hs j, rfl, rfl, rfl, g⟩

theorem Fwd.trans {db : Db} {hs : Addr → Bool} {j1 j2 j3 : JState} (h1 : Fwd db hs j1 j2) (h2 : Fwd db hs j2 j3) :
    Fwd db hs j1 j3 :=
  ⟨h1.tr.trans h2.tr, h2.depth.trans h1.depth, h2.spec.trans h1.spec, h2.pre.trans h1.pre, h2.good⟩

/-- one history operation that pushes entries (C06 `Pushes`) -/
theorem Fwd.of_pushes {db : Db} {hs : Addr → Bool} {j j' : JState} {es : List Entry} (hbal : DbBal db) (g : Good j)
    (op : Op) (hst : ∀ cps, step db ⟨j, cps⟩ op = some ⟨j', cps⟩)
    (hadm : ∀ base cps, admissible db hs base ⟨j, cps⟩ op = true)
    (p : Pushes db j j' es) (hd : j'.depth = j.depth) : Fwd db hs j j' := by
  have g' := (Good.of_pushes hbal g p).1
  exact ⟨fun cps => TransAt.single (hst cps) (fun base => hadm base cps) (fun _ => g'), hd, p.spec, p.pre, g'⟩

variable {db : Db} {hs : Addr → Bool}

theorem loadAccount_fwd (hbal : DbBal db) {j j' : JState} {a : Addr} {c : Bool} (g : Good j)
    (h : loadAccount db j a = some (j', c)) : Fwd db hs j j' :=
  Fwd.of_pushes hbal g (.load a) (fun cps => by simp [step, h]) (fun _ _ => rfl) (loadAccount_pushes h).1
    (loadAccount_depth h)

theorem loadCode_fwd (hbal : DbBal db) {j j' : JState} {a : Addr} {c : Bool} (g : Good j)
    (h : loadCode db j a = some (j', c)) : Fwd db hs j j' :=
  Fwd.of_pushes hbal g (.loadCode a) (fun cps => by simp [step, h]) (fun _ _ => rfl) (loadCode_pushes h).1
    (loadCode_depth h)

theorem touch_fwd (hbal : DbBal db) {j j' : JState} {a : Addr} (g : Good j)
    (h : touch j a = some j') : Fwd db hs j j' := by
  obtain ⟨es, p, _⟩ := touch_pushes (db := db) h
  exact Fwd.of_pushes hbal g (.touch a) (fun cps => by simp [step, h]) (fun _ _ => rfl) p (touch_depth h)

theorem transfer_fwd (hbal : DbBal db) {j j' : JState} {a b : Addr} {v : Nat} {r} (g : Good j)
    (h : transfer db j a b v = some (j', r)) : Fwd db hs j j' := by
  obtain ⟨⟨es, p⟩, _⟩ := transfer_pushes (balOk_of hbal g.bal) h
  exact Fwd.of_pushes hbal g (.transfer a b v) (fun cps => by simp [step, h]) (fun _ _ => rfl) p (transfer_depth h)

theorem incNonce_fwd (hbal : DbBal db) {j j' : JState} {a : Addr} {r} (g : Good j)
    (h : incNonce j a = some (j', r)) : Fwd db hs j j' := by
  obtain ⟨es, p, _⟩ := incNonce_pushes (db := db) h
  exact Fwd.of_pushes hbal g (.incNonce a) (fun cps => by simp [step, h]) (fun _ _ => rfl) p (incNonce_depth h)

theorem sload_fwd (hbal : DbBal db) {j j' : JState} {a k : Nat} {v : Nat} {c : Bool} (g : Good j)
    (h : sload db j a k = some (j', v, c)) : Fwd db hs j j' :=
  Fwd.of_pushes hbal g (.sload a k) (fun cps => by simp [step, h]) (fun _ _ => rfl) (sload_pushes h).1 (sload_depth h)

theorem sstore_fwd (hbal : DbBal db) {j j' : JState} {a k v : Nat} {r} (g : Good j)
    (h : sstore db j a k v = some (j', r)) : Fwd db hs j j' := by
  obtain ⟨o, p, n, c⟩ := r
  obtain ⟨⟨es, pp⟩, _⟩ := sstore_pushes h
  exact Fwd.of_pushes hbal g (.sstore a k v) (fun cps => by simp [step, h]) (fun _ _ => rfl) pp (sstore_depth h)

theorem tstore_fwd (hbal : DbBal db) {j j' : JState} {a k v : Nat} (g : Good j)
    (h : tstore j a k v = some j') : Fwd db hs j j' := by
  obtain ⟨es, p, _⟩ := tstore_pushes (db := db) h
  exact Fwd.of_pushes hbal g (.tstore a k v) (fun cps => by simp [step, h]) (fun _ _ => rfl) p (tstore_depth h)

theorem selfdestruct_fwd (hbal : DbBal db) {j j' : JState} {a t : Nat} {r} (g : Good j)
    (h : selfdestruct db j a t = some (j', r)) : Fwd db hs j j' := by
  obtain ⟨⟨es, p⟩, _⟩ := selfdestruct_pushes (balOk_of hbal g.bal) h
  exact Fwd.of_pushes hbal g (.selfdestruct a t) (fun cps => by simp [step, h]) (fun _ _ => rfl) p (selfdestruct_depth h)

theorem log_fwd {j : JState} (l : Nat) (g : Good j) : Fwd db hs j (Journal.log j l) := by
  have g' : Good (Journal.log j l) :=
    ⟨Revm.Proofs.Frame.JRefs.mono g.refs (Grows.of_state_eq rfl) rfl, g.ne, fun a acc h => g.bal a acc h⟩
  exact ⟨fun cps => TransAt.single (op := .log l) rfl (fun _ => rfl) (fun _ => g'), rfl, rfl, rfl, g'⟩

/-- `load_account_delegated` against a database that agrees on `basic`: `load_code`, then possibly a `load_account` -/
theorem loadAccountDelegated_fwd (hbal : DbBal db) {dbw : Db} (hb : dbw.basic = db.basic) {j j' : JState} {a : Addr} {r}
    (g : Good j) (h : loadAccountDelegated dbw j a = some (j', r)) : Fwd db hs j j' := by
  simp only [loadAccountDelegated, bind, Option.bind] at h
  cases h1 : loadCode dbw j a with
  | none => rw [h1] at h; simp at h
  | some p1 =>
    obtain ⟨j1, c1⟩ := p1
    rw [h1] at h
    have h1' : loadCode db j a = some (j1, c1) := by rw [← loadCode_congr hb]; exact h1
    have f1 : Fwd db hs j j1 := loadCode_fwd hbal g h1'
    simp only at h
    cases hx : j1.state a with
    | none => rw [hx] at h; simp at h
    | some x =>
      rw [hx] at h
      simp only at h
      cases hd : Option.bind x.info.code dbw.delegate with
      | none =>
        simp only [bind, Option.bind] at hd
        rw [hd] at h
        simp only [Option.some.injEq, Prod.mk.injEq] at h
        rw [← h.1]; exact f1
      | some d =>
        simp only [bind, Option.bind] at hd
        rw [hd] at h
        simp only at h
        cases h2 : loadAccount dbw j1 d with
        | none => rw [h2] at h; simp at h
        | some p2 =>
          obtain ⟨j2, c2⟩ := p2
          rw [h2] at h
          simp only [Option.some.injEq, Prod.mk.injEq] at h
          rw [← h.1]
          have h2' : loadAccount db j1 d = some (j2, c2) := by rw [← loadAccount_congr hb]; exact h2
          exact f1.trans (loadAccount_fwd hbal f1.good h2')

/-! ## the forward step of the configuration relation -/

theorem noteAddr_contains (w : World) (a b : Addr) :
    (w.noteAddr a).addrs.contains b = (w.addrs.contains b || b == a) := by
  unfold World.noteAddr
  by_cases h : w.addrs.contains a = true
  · rw [if_pos h]
    by_cases hb : b = a
    · subst hb; rw [h]; simp
    · simp [hb]
  · rw [if_neg h]
    simp only [List.contains_cons]
    rw [Bool.or_comm]

theorem noteAddr_fields (w : World) (a : Addr) :
    (w.noteAddr a).js = w.js ∧ (w.noteAddr a).pre = w.pre ∧ (w.noteAddr a).codes = w.codes ∧
    (w.noteAddr a).logs = w.logs ∧ (w.noteAddr a).pcOracle = w.pcOracle ∧
    (w.noteAddr a).dbHasStorage = w.dbHasStorage ∧ (w.noteAddr a).slots = w.slots := by
  unfold World.noteAddr
  by_cases h : w.addrs.contains a = true
  · rw [if_pos h]; exact ⟨rfl, rfl, rfl, rfl, rfl, rfl, rfl⟩
  · rw [if_neg h]; exact ⟨rfl, rfl, rfl, rfl, rfl, rfl, rfl⟩

theorem noteSlot_fields (w : World) (a k : Nat) :
    (w.noteSlot a k).js = w.js ∧ (w.noteSlot a k).pre = w.pre ∧ (w.noteSlot a k).codes = w.codes ∧
    (w.noteSlot a k).logs = w.logs ∧ (w.noteSlot a k).pcOracle = w.pcOracle ∧
    (w.noteSlot a k).dbHasStorage = w.dbHasStorage ∧ (w.noteSlot a k).addrs = w.addrs := by
  unfold World.noteSlot
  by_cases h : w.slots.contains (a, k) = true
  · rw [if_pos h]; exact ⟨rfl, rfl, rfl, rfl, rfl, rfl, rfl⟩
  · rw [if_neg h]; exact ⟨rfl, rfl, rfl, rfl, rfl, rfl, rfl⟩

/-- a forward step of both machines keeps the configuration relation -/
theorem CfgRel.fwd {ks1 : List Checkpoint} {w1 w1' : World} {ks2 : List Snap} {w2 w2' : World} {l : List Addr}
    (h : CfgRel ks1 w1 ks2 w2)
    (hp1 : w1'.pre = w1.pre) (hp2 : w2'.pre = w2.pre) (hc : w2'.codes = w1'.codes) (hlg : w2'.logs = w1'.logs)
    (hpc : w2'.pcOracle = w1'.pcOracle) (hs1 : w1'.dbHasStorage = true) (hs2 : w2'.dbHasStorage = true)
    (hrel : JRel (dbPre w1.pre) w1'.js w2'.js) (hf : Fwd (dbPre w1.pre) (hsPre w1.pre) w1.js w1'.js)
    (hdom : Dom w2.js w2'.js l) (haddrs : ∀ a, w2'.addrs.contains a = (w2.addrs.contains a || l.contains a)) :
    CfgRel ks1 w1' ks2 w2' := by
  obtain ⟨hw, hlen, ⟨cps, hch⟩, hsn⟩ := h
  refine ⟨⟨by rw [hp1]; exact hrel, by rw [hp1, hp2, hw.pre], hc, hlg, hpc, hs1, hs2, ?_, by rw [hp1]; exact hw.bal⟩,
    hlen, ⟨cps, by rw [hp1]; exact hch.fwd (hf.tr cps)⟩, ?_⟩
  · intro a; rw [haddrs a, hw.pres a, hdom a]
  · refine hsn.fwd ?_ ?_ ?_ ?_
    · rw [← hrel.depth, hf.depth, hw.rel.depth]
    · rw [← hrel.spec, hf.spec, hw.rel.spec]
    · rw [← hrel.pre, hf.pre, hw.rel.pre]
    · intro a ha; rw [hdom a, ha]; rfl

theorem CfgRel.good {ks1 : List Checkpoint} {w1 : World} {ks2 : List Snap} {w2 : World} (h : CfgRel ks1 w1 ks2 w2) :
    Good w1.js := by
  obtain ⟨cps, hch⟩ := h.chain
  exact hch.good (dbOk_pre _) h.w.dbBal

end Revm.Proofs.EvmRefine
