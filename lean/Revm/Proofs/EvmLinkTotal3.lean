import Revm.Proofs.EvmLinkTotal2
import Revm.Proofs.EvmLinkLoop
import Revm.Proofs.EvmLinkHostAddr
import Revm.Proofs.EvmInstLoaded2
import Revm.Proofs.EvmLinkResult
/-! LINK, panic-freedom, part 3 (C07 `run_total` on EvmLoop): along `run_the_loop`, from a well-formed world whose open
frames hold nested checkpoints inside the journal, no journal / frame-machine `unwrap` is ever hit. What can still
stop the loop: a soft failure (`Soft`), or a RESIDUAL failure of the interpreter side (`Resid`: an interpreter fault,
a fault while inserting an outcome, `free_context`, an EOFCREATE action), or the fuel. No frame ends with an internal
result flag (`RGood`, `Proofs/EvmLinkResult.lean`), so `output` never panics.
`sload` / `sstore` / `selfdestruct` never fail: the request carries the frame's own address (`step_addr`), which is
loaded (L3 `EvmInstLoaded.Inv`). -/
set_option linter.unusedSimpArgs false
set_option linter.unusedVariables false
namespace Revm.Proofs.EvmLink
open Revm Revm.Model Revm.Model.Evm
open Revm.Proofs.Frame (Good DbBal)
open Revm.Proofs.Journal (Grows)

/-- the failures that are NOT excluded here: they concern the interpreter (C25: its per-frame invariant has to be
threaded through `makeFrame` / `insert_*_outcome`), and the fuel -/
def Resid (e : Err) : Prop :=
  (∃ f : Interp.Fault, e = .panic s!"interpreter: {f.name}") ∨
  (∃ f : Interp.Fault, e = .panic s!"insert outcome: {f.name}") ∨
  e = .panic "free_context" ∨
  e = .panic "unsupported: Action.eofCreate (EOF frames are not modelled)" ∨
  e = .outOfFuel

/-- `x` succeeds with a value satisfying `P`, or fails softly, or with a residual failure -/
def Tot2 {α} (x : R α) (P : α → Prop) : Prop :=
  match x with
  | .ok a => P a
  | .error e => Soft e ∨ Resid e

theorem tot2_of_tot {α} {x : R α} {P : α → Prop} (h : Tot x P) : Tot2 x P := by
  cases x with
  | ok a => exact h
  | error e => exact Or.inl h
theorem tot2_pure {α} {a : α} {P : α → Prop} (h : P a) : Tot2 (pure a : R α) P := h
theorem tot2_bind {α β} {x : R α} {f : α → R β} {P : α → Prop} {Q : β → Prop} (h1 : Tot2 x P)
    (h2 : ∀ a, P a → Tot2 (f a) Q) : Tot2 (x >>= f) Q := by
  cases x with
  | error e => exact h1
  | ok a => exact h2 a h1
theorem tot2_mono {α} {x : R α} {P Q : α → Prop} (h : Tot2 x P) (hq : ∀ a, P a → Q a) : Tot2 x Q := by
  cases x with
  | error e => exact h
  | ok a => exact hq a h
theorem tot2_resid {α} {e : Err} {P : α → Prop} (h : Resid e) : Tot2 (.error e : R α) P := Or.inr h

theorem tot2_bind' {α β} {x : R α} {f : α → R β} {P : α → Prop} {Q : β → Prop} (h1 : Tot2 x P)
    (h2 : ∀ a, x = .ok a → P a → Tot2 (f a) Q) : Tot2 (x >>= f) Q := by
  cases x with
  | error e => exact h1
  | ok a => exact h2 a rfl h1

/-! ## the invariant of the loop (C07 `LInv`) -/

/-- checkpoints of the open frames: journal indices strictly increasing inwards, at least 1, the innermost below `n` -/
def ChainJ : List JFrame → Nat → Prop
  | [], _ => True
  | f :: rest, n => 1 ≤ f.checkpoint.journalI ∧ f.checkpoint.journalI < n ∧ ChainJ rest f.checkpoint.journalI

theorem ChainJ.mono {st : List JFrame} {n m : Nat} (h : ChainJ st n) (hnm : n ≤ m) : ChainJ st m := by
  cases st with
  | nil => trivial
  | cons f rest => exact ⟨h.1, by have := h.2.1; omega, h.2.2⟩

/-- the created address of a create frame is loaded (`set_code` dereferences it) -/
def AddrsOk (js : Journal.JState) (stack : List JFrame) : Prop :=
  ∀ f ∈ stack, ∀ a, f.kind = .create a → (js.state a).isSome

structure LI (stack : List JFrame) (w : World) : Prop where
  ok : WOk w
  chain : ChainJ stack w.js.journal.length
  addrs : AddrsOk w.js stack

theorem AddrsOk.mono {js js' : Journal.JState} {stack : List JFrame} (h : AddrsOk js stack) (g : Grows js js') :
    AddrsOk js' stack := fun f hf a ha => g.acct _ (h f hf a ha)

theorem LI.step {stack : List JFrame} {w w1 : World} (h : LI stack w) (hs : WS w w1) : LI stack w1 :=
  ⟨hs.ok, by rw [hs.len]; exact h.chain, h.addrs.mono hs.grows⟩

/-- the top frame gets another interpreter state -/
theorem LI.updTop {top : JFrame} {rest : List JFrame} {w : World} (h : LI (top :: rest) w) (s : Interp.IState) :
    LI ({ top with interp := s } :: rest) w :=
  ⟨h.ok, h.chain, fun f hf a ha => by
    cases hf with
    | head => exact h.addrs top (List.mem_cons_self ..) a ha
    | tail _ hf => exact h.addrs f (List.mem_cons_of_mem _ hf) a ha⟩

def NInv : Next Journal.Checkpoint → Prop
  | .run stack w => stack ≠ [] ∧ LI stack w
  | .ended top rest r _ _ w => LI (top :: rest) w ∧ RGood r
  | .done r w => WOk w ∧ RGood r.result

theorem tot2_deliver {kind : FrameKind} {o : Interp.ChildResult} {parent : JFrame} {rest : List JFrame}
    {mem : Memory.SharedMemory} {w : World} (h : LI (parent :: rest) w) :
    Tot2 (deliver kind o parent rest mem w) NInv := by
  unfold deliver
  split
  · exact tot2_pure ⟨List.cons_ne_nil _ _, h.updTop _⟩
  · rename_i r out s heq
    exact tot2_pure ⟨h, hg_insertBy kind o _ _ _ _ heq⟩
  · exact tot2_resid (Or.inr (Or.inl ⟨_, rfl⟩))

theorem tot2_freeCtx (m : Memory.SharedMemory) : Tot2 (freeCtx m) (fun _ => True) := by
  unfold freeCtx
  split
  · exact tot2_pure trivial
  · exact tot2_resid (Or.inr (Or.inr (Or.inl rfl)))

theorem tot2_frameEnd {cfg : Cfg} {top : JFrame} {rest : List JFrame} {r : Interp.IResult} {out : List Nat}
    {s : Interp.IState} {w : World} (h : LI (top :: rest) w) (hrg : RGood r) :
    Tot2 (frameEnd journalOps cfg top rest r out s w) NInv := by
  unfold frameEnd
  refine tot2_bind (tot2_freeCtx _) (fun mem _ => ?_)
  obtain ⟨c1, c2, c3⟩ := h.chain
  have hret : Tot2 (frameReturn journalOps cfg top w (resultOf r out s)) (fun p => LI rest p.2) := by
    unfold frameReturn
    split
    · refine tot2_of_tot (tot_mono (tot_callReturn h.ok top.checkpoint _ c1 c2) (fun p hp => ?_))
      exact ⟨hp.1, c3.mono hp.2.2.1, fun f hf a ha => hp.2.1.acct _ (h.addrs f (List.mem_cons_of_mem _ hf) a ha)⟩
    · rename_i a hk
      refine tot2_of_tot (tot_mono (tot_createReturn h.ok cfg top.checkpoint a _ c1 c2
        (h.addrs top (List.mem_cons_self ..) a hk)) (fun p hp => ?_))
      exact ⟨hp.1, c3.mono hp.2.2.1, fun f hf a ha => hp.2.1.acct _ (h.addrs f (List.mem_cons_of_mem _ hf) a ha)⟩
  refine tot2_bind' hret (fun p heq hp => ?_)
  obtain ⟨res, w1⟩ := p
  have hres : RGood res.result := frameReturn_rgood (res := resultOf r out s) hrg heq
  dsimp only at hp ⊢
  cases rest with
  | nil => exact tot2_pure ⟨hp.ok, hres⟩
  | cons parent rest' => exact tot2_deliver hp

/-- the created address of a new create frame is loaded -/
def FrAddr (w1 : World) (fr : FrameOrResult Journal.Checkpoint) : Prop :=
  ∀ f, fr = .frame f → ∀ a, f.kind = .create a → (w1.js.state a).isSome

theorem tot2_makeFrame {cfg : Cfg} {w : World} (h : WOk w) (a : Interp.Action) (mem : Memory.SharedMemory) :
    Tot2 (makeFrame journalOps cfg w a mem) (fun p => FOut w p.2 p.1 ∧ FrAddr p.2 p.1) := by
  unfold makeFrame
  cases a with
  | call i =>
    refine tot2_of_tot (tot_mono (tot_makeCallFrame h cfg i mem) (fun p hp => ⟨hp.1, fun f hf a ha => ?_⟩))
    obtain ⟨⟨rs, re, hk⟩, _⟩ := hp.2 f hf
    rw [hk] at ha; cases ha
  | create i =>
    refine tot2_of_tot (tot_mono (tot_makeCreateFrame h cfg i mem) (fun p hp => ⟨hp.1, fun f hf a ha => ?_⟩))
    obtain ⟨a', hk, _, hl⟩ := hp.2 f hf
    rw [hk] at ha; cases ha; exact hl
  | eofCreate i => exact tot2_resid (Or.inr (Or.inr (Or.inr (Or.inl rfl))))

theorem tot2_frameAction {cfg : Cfg} {top : JFrame} {rest : List JFrame} {a : Interp.Action} {s : Interp.IState}
    {w : World} (h : LI (top :: rest) w) : Tot2 (frameAction journalOps cfg top rest a s w) NInv := by
  unfold frameAction
  have h' := h.updTop s
  have hpos := wok_len_pos h.ok
  refine tot2_bind (tot2_makeFrame h.ok a s.mem) (fun p hp => ?_)
  obtain ⟨fr, w1⟩ := p
  obtain ⟨fo, fa⟩ := hp
  dsimp only at fo fa ⊢
  have hli : LI ({ top with interp := s } :: rest) w1 :=
    ⟨fo.ok, h'.chain.mono fo.len, h'.addrs.mono fo.grows⟩
  cases fr with
  | frame f =>
    obtain ⟨k1, k2⟩ := fo.cp f rfl
    refine tot2_pure ⟨List.cons_ne_nil _ _, fo.ok, ⟨by omega, k2, h'.chain.mono k1⟩, fun g hg a ha => ?_⟩
    cases hg with
    | head => exact fa f rfl a ha
    | tail _ hg => exact hli.addrs g hg a ha
  | result o => exact tot2_deliver hli

theorem tot2_afterStep {cfg : Cfg} {top : JFrame} {rest : List JFrame} {d : Interp.Done} {w : World} {s0 : Interp.IState}
    (h : LI (top :: rest) w) (hd : SDone s0 d) : Tot2 (afterStep journalOps cfg top rest d w) NInv := by
  unfold afterStep
  cases hd with
  | next _ _ => exact tot2_pure ⟨List.cons_ne_nil _ _, h.updTop _⟩
  | action _ _ => exact tot2_frameAction h
  | halt _ hr => exact tot2_frameEnd h hr
  | fault => exact tot2_resid (Or.inl ⟨_, rfl⟩)

/-- **one iteration of `run_the_loop` hits no journal / frame-machine `unwrap`** and keeps the invariant -/
theorem tot2_iterate {cfg : Cfg} {stack : List JFrame} {w : World} (hne : stack ≠ []) (h : LI stack w)
    (hi : Proofs.EvmInstLoaded.Inv stack w) : Tot2 (iterate journalOps cfg stack w) NInv := by
  unfold iterate
  cases stack with
  | nil => exact absurd rfl hne
  | cons top rest =>
    dsimp only
    have hst := step_strict top.interp
    split
    · rename_i d heq0
      rw [heq0] at hst
      cases hst with
      | pure hd => exact tot2_afterStep h hd
    · rename_i op k heq
      rw [heq] at hst
      have hk : ∀ r : Interp.HostResp, r.ok = true → SDone top.interp (k r) := by
        cases hst with
        | host hk => exact hk
      have haddr := step_addr top.interp heq
      have hin : (w.js.state top.interp.target).isSome := isSome_of_ne_none (hi top (List.mem_cons_self ..))
      have hok : HOk w.js op := by
        cases op <;> first | trivial | (show (w.js.state _).isSome = true; rw [show _ = top.interp.target from haddr]; exact hin)
      refine tot2_bind' (tot2_of_tot (tot_answer h.ok cfg.he _ hok)) (fun p hans hp => ?_)
      obtain ⟨resp, w1⟩ := p
      exact tot2_afterStep (h.step hp) (hk resp (answer_ok hans))

/-- **`run_the_loop` hits no journal / frame-machine `unwrap`** (C07 `run_total` on EvmLoop): for every fuel -/
theorem tot2_runLoop (cfg : Cfg) : ∀ fuel : Nat,
    (∀ stack w, stack ≠ [] → LI stack w → Proofs.EvmInstLoaded.Inv stack w →
      Tot2 (runLoop journalOps cfg fuel stack w) (fun p => WOk p.2 ∧ RGood p.1.result)) ∧
    (∀ top rest r out s w, LI (top :: rest) w → RGood r → Proofs.EvmInstLoaded.Inv rest w →
      Tot2 (runEnded journalOps cfg fuel top rest r out s w) (fun p => WOk p.2 ∧ RGood p.1.result)) := by
  intro fuel
  induction fuel with
  | zero =>
    refine ⟨fun stack w _ _ _ => ?_, fun top rest r out s w _ _ _ => ?_⟩
    · unfold runLoop; exact tot2_resid (by unfold Resid; simp)
    · unfold runEnded; exact tot2_resid (by unfold Resid; simp)
  | succ n ih =>
    refine ⟨fun stack w hne h hi => ?_, fun top rest r out s w h hrg hi => ?_⟩
    · unfold runLoop
      refine tot2_bind' (tot2_iterate hne h hi) (fun nx heq hnx => ?_)
      have hin := Proofs.EvmInstLoaded.iterate_inv heq hi
      cases nx with
      | run st w' => exact ih.1 st w' hnx.1 hnx.2 hin
      | ended t rest r out s w' => exact ih.2 t rest r out s w' hnx.1 hnx.2 hin
      | done r w' => exact tot2_pure hnx
    · unfold runEnded
      refine tot2_bind' (tot2_frameEnd h hrg) (fun nx heq hnx => ?_)
      have hin := Proofs.EvmInstLoaded.frameEnd_inv heq hi
      cases nx with
      | run st w' => exact ih.1 st w' hnx.1 hnx.2 hin
      | ended t rest r out s w' => exact ih.2 t rest r out s w' hnx.1 hnx.2 hin
      | done r w' => exact tot2_pure hnx

end Revm.Proofs.EvmLink
