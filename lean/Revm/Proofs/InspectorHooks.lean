import Revm.Spec.InspectorHooks
/-! Proofs for C29: the scanner decides `Balanced`; the one-stack reference machine emits words whose scan
is its stack of open notifications; the three-`Vec` handler model refines the reference machine over ANY
leftover stacks (so leftovers of an aborted transaction are never popped). -/
namespace Revm.Proofs.InspectorHooks
open Revm.Model.InspectorHooks Revm.Spec.InspectorHooks

set_option linter.unusedSimpArgs false
set_option linter.unusedVariables false

/-! ### scanner -/

theorem scan_append (u v : List Ev) : ∀ st, scan st (u ++ v) = (scan st u).bind (fun s => scan s v) := by
  induction u with
  | nil => intro st; simp [scan]
  | cons e u ih =>
    intro st
    cases e with
    | opn k i => simp [scan, ih]
    | cls k i o =>
      cases st with
      | nil => simp [scan]
      | cons p st' =>
        obtain ⟨k', i'⟩ := p
        by_cases h : k' = k ∧ i' = i
        · simp [scan, h, ih]
        · simp [scan, h]
    | initInterp => simp [scan, ih]
    | step => simp [scan, ih]
    | stepEnd => simp [scan, ih]
    | log l => simp [scan, ih]
    | selfdestruct a t v => simp [scan, ih]

theorem scan_neutral_cons (e : Ev) (w : List Ev) (st : List (Kind × Nat)) (h : Ev.neutral e = true) :
    scan st (e :: w) = scan st w := by
  cases e <;> simp_all [scan, Ev.neutral]

theorem scan_of_balanced {w : List Ev} (h : Balanced w) : ∀ st, scan st w = some st := by
  induction h with
  | nil => intro st; rfl
  | neutral e w hn _ ih => intro st; rw [scan_neutral_cons e w st hn]; exact ih st
  | bracket k i o u v _ _ ihu ihv =>
    intro st
    show scan ((k, i) :: st) (u ++ Ev.cls k i o :: v) = some st
    rw [scan_append, ihu]
    simp [scan, ihv]

/-- `st` = the notifications still open (innermost first); the word closes them in that order and is
balanced in between and afterwards -/
inductive Closes : List (Kind × Nat) → List Ev → Prop
  | done (w : List Ev) : Balanced w → Closes [] w
  | close (k : Kind) (i o : Nat) (st : List (Kind × Nat)) (u w : List Ev) :
      Balanced u → Closes st w → Closes ((k, i) :: st) (u ++ Ev.cls k i o :: w)

theorem closes_neutral {st : List (Kind × Nat)} {w : List Ev} (e : Ev) (hn : Ev.neutral e = true)
    (h : Closes st w) : Closes st (e :: w) := by
  cases h with
  | done w hb => exact .done _ (.neutral e w hn hb)
  | close k i o st u w hb hc =>
    have : e :: (u ++ Ev.cls k i o :: w) = (e :: u) ++ Ev.cls k i o :: w := by simp
    rw [this]
    exact .close k i o st (e :: u) w (.neutral e u hn hb) hc

theorem closes_open {st : List (Kind × Nat)} {w : List Ev} {k : Kind} {i : Nat}
    (h : Closes ((k, i) :: st) w) : Closes st (Ev.opn k i :: w) := by
  cases h with
  | close _ _ o _ u w' hb hc =>
    cases hc with
    | done _ hb' => exact .done _ (.bracket k i o u w' hb hb')
    | close k2 i2 o2 st2 u2 w2 hb2 hc2 =>
      have : Ev.opn k i :: (u ++ Ev.cls k i o :: (u2 ++ Ev.cls k2 i2 o2 :: w2))
          = (Ev.opn k i :: (u ++ Ev.cls k i o :: u2)) ++ Ev.cls k2 i2 o2 :: w2 := by simp
      rw [this]
      exact .close k2 i2 o2 st2 _ w2 (.bracket k i o u u2 hb hb2) hc2

theorem closes_of_scan : ∀ (w : List Ev) (st : List (Kind × Nat)), scan st w = some [] → Closes st w := by
  intro w
  induction w with
  | nil =>
    intro st h
    simp [scan] at h
    subst h
    exact .done _ .nil
  | cons e w ih =>
    intro st h
    cases e with
    | opn k i => exact closes_open (ih _ (by simpa [scan] using h))
    | cls k i o =>
      cases st with
      | nil => simp [scan] at h
      | cons p st' =>
        obtain ⟨k', i'⟩ := p
        by_cases hk : k' = k ∧ i' = i
        · obtain ⟨rfl, rfl⟩ := hk
          have h' : scan st' w = some [] := by simpa [scan] using h
          have := Closes.close k' i' o st' [] w .nil (ih _ h')
          simpa using this
        · simp [scan, hk] at h
    | initInterp => exact closes_neutral _ rfl (ih _ (by simpa [scan] using h))
    | step => exact closes_neutral _ rfl (ih _ (by simpa [scan] using h))
    | stepEnd => exact closes_neutral _ rfl (ih _ (by simpa [scan] using h))
    | log l => exact closes_neutral _ rfl (ih _ (by simpa [scan] using h))
    | selfdestruct a t v => exact closes_neutral _ rfl (ih _ (by simpa [scan] using h))

theorem balanced_of_scan {w : List Ev} (h : scan [] w = some []) : Balanced w := by
  have := closes_of_scan w [] h
  cases this with
  | done _ hb => exact hb

theorem check_iff (w : List Ev) : check w = true ↔ Balanced w := by
  constructor
  · intro h
    apply balanced_of_scan
    simpa [check] using h
  · intro h
    simp [check, scan_of_balanced h []]

theorem balanced_append {u v : List Ev} (hu : Balanced u) (hv : Balanced v) : Balanced (u ++ v) := by
  apply balanced_of_scan
  rw [scan_append, scan_of_balanced hu]
  simp [scan_of_balanced hv]

/-- per kind there are as many `*_end` as opening callbacks -/
theorem balanced_counts {w : List Ev} (h : Balanced w) (k : Kind) :
    w.countP (isOpn k) = w.countP (isCls k) := by
  induction h with
  | nil => rfl
  | neutral e w hn _ ih =>
    cases e <;> simp_all [isOpn, isCls, Ev.neutral, List.countP_cons]
  | bracket k' i o u v _ _ ihu ihv =>
    simp only [List.countP_cons, List.countP_append, ihu, ihv, isOpn, isCls]
    by_cases hk : k' = k <;> simp [hk] <;> omega

/-- the `*_end` callbacks that would close `st`, innermost first -/
def closers (st : List (Kind × Nat)) : List Ev := st.map fun p => Ev.cls p.1 p.2 0

theorem scan_closers : ∀ (st rest : List (Kind × Nat)), scan (st ++ rest) (closers st) = some rest := by
  intro st
  induction st with
  | nil => intro rest; simp [closers, scan]
  | cons p st ih =>
    intro rest
    obtain ⟨k, i⟩ := p
    have := ih rest
    simp [closers] at this
    simp [closers, scan, this]

/-- a word whose scan succeeds is a prefix of a balanced word: nothing is closed wrongly so far -/
theorem prefix_of_scan {w : List Ev} {st : List (Kind × Nat)} (h : scan [] w = some st) :
    Balanced (w ++ closers st) := by
  apply balanced_of_scan
  rw [scan_append, h]
  have := scan_closers st []
  simpa using this

/-- the `*_end` matching an opening callback repeats its kind and inputs -/
theorem end_matches {k k' : Kind} {i i' o : Nat} {u v : List Ev} (hu : Balanced u)
    (h : Balanced (Ev.opn k i :: (u ++ Ev.cls k' i' o :: v))) : k = k' ∧ i = i' := by
  have h1 := scan_of_balanced h []
  have h2 : scan [(k, i)] (u ++ Ev.cls k' i' o :: v) = some [] := by simpa [scan] using h1
  rw [scan_append, scan_of_balanced hu] at h2
  by_cases hk : k = k' ∧ i = i'
  · exact hk
  · simp [scan, hk] at h2

/-! ### neutral stretches -/

theorem postEvents_neutral (x : Insn) : ∀ e ∈ postEvents x, Ev.neutral e = true := by
  intro e he
  cases x with
  | plain => simp [postEvents] at he
  | logOp p a =>
    simp only [postEvents] at he
    split at he
    · split at he
      · simp at he; subst he; rfl
      · simp at he
    · simp at he
  | sdOp n =>
    cases n with
    | none => simp [postEvents] at he
    | some t =>
      obtain ⟨a, t, v⟩ := t
      simp [postEvents] at he; subst he; rfl

theorem scan_all_neutral (w : List Ev) (h : ∀ e ∈ w, Ev.neutral e = true) (st : List (Kind × Nat)) :
    scan st w = some st := by
  induction w with
  | nil => rfl
  | cons e w ih =>
    rw [scan_neutral_cons e w st (h e (by simp))]
    exact ih (fun e he => h e (by simp [he]))

theorem insnEvents_neutral (x : Insn) : ∀ e ∈ insnEvents x, Ev.neutral e = true := by
  intro e he
  simp only [insnEvents, List.mem_append, List.mem_cons] at he
  rcases he with (rfl | rfl | h) | h
  · rfl
  · rfl
  · simp at h
  · exact postEvents_neutral x e h

theorem haltEvents_neutral (x : Option Insn) : ∀ e ∈ haltEvents x, Ev.neutral e = true := by
  intro e he
  cases x with
  | none => simp [haltEvents] at he
  | some x =>
    simp only [haltEvents, List.mem_append, List.mem_cons] at he
    rcases he with (rfl | h) | h
    · rfl
    · simp at h
    · exact postEvents_neutral x e h

theorem turnEvents_neutral (t : Turn) : ∀ e ∈ turnEvents t, Ev.neutral e = true := by
  intro e he
  unfold turnEvents at he
  simp only [List.mem_append, List.mem_flatMap] at he
  rcases he with ⟨x, _, hx⟩ | h
  · exact insnEvents_neutral x e hx
  · exact haltEvents_neutral _ e h

/-! ### the reference machine -/

/-- what holds of every result of the reference machine -/
structure AGood (r : Status × ASt) : Prop where
  noPanic : r.1 ≠ .panicked
  scanned : scan [] r.2.word = some r.2.opened
  fin : r.1 = .finished → r.2.opened = []
  run : r.1 = .running → r.2.opened ≠ []

theorem aDeliver_good (a : ASt) (o : Nat) (ie : Bool) (hs : scan [] a.word = some a.opened)
    (hne : a.opened ≠ []) : AGood (aDeliver a o ie) := by
  obtain ⟨opened, word⟩ := a
  cases opened with
  | nil => exact absurd rfl hne
  | cons p rest =>
    obtain ⟨k, i⟩ := p
    have hs' : scan [] (word ++ [Ev.cls k i o]) = some rest := by
      simp only [] at hs
      rw [scan_append, hs]; simp [scan]
    cases rest with
    | nil => exact ⟨by simp [aDeliver], by simpa [aDeliver] using hs', by simp [aDeliver], by simp [aDeliver]⟩
    | cons q rest' =>
      cases ie
      · exact ⟨by simp [aDeliver], by simpa [aDeliver] using hs', by simp [aDeliver], by simp [aDeliver]⟩
      · exact ⟨by simp [aDeliver], by simpa [aDeliver] using hs', by simp [aDeliver], by simp [aDeliver]⟩

theorem aSpawn_good (a : ASt) (s : Spawn) (ie : Bool) (hs : scan [] a.word = some a.opened) :
    AGood (aSpawn a s ie) := by
  have hs' : scan [] (a.word ++ [Ev.opn s.k s.i]) = some ((s.k, s.i) :: a.opened) := by
    rw [scan_append, hs]; simp [scan]
  obtain ⟨k, i, insp, h⟩ := s
  cases insp with
  | some o =>
    simp only [aSpawn]
    exact aDeliver_good _ o ie hs' (by simp)
  | none =>
    cases h with
    | err => exact ⟨by simp [aSpawn], by simpa [aSpawn] using hs', by simp [aSpawn], by simp [aSpawn]⟩
    | result o =>
      simp only [aSpawn]
      exact aDeliver_good _ o ie hs' (by simp)
    | frame =>
      refine ⟨by simp [aSpawn], ?_, by simp [aSpawn], by simp [aSpawn]⟩
      simp only [aSpawn]
      rw [scan_append, hs']; simp [scan]

theorem aTurn_good (a : ASt) (t : Turn) (hs : scan [] a.word = some a.opened) (hne : a.opened ≠ []) :
    AGood (aTurn a t) := by
  have hs' : scan [] (a.word ++ turnEvents t) = some a.opened := by
    rw [scan_append, hs]
    simp [scan_all_neutral _ (turnEvents_neutral t)]
  obtain ⟨ins, halt, next⟩ := t
  cases next with
  | fatal => exact ⟨by simp [aTurn], by simpa [aTurn] using hs', by simp [aTurn], by simp [aTurn]⟩
  | spawn s ie =>
    simp only [aTurn]
    exact aSpawn_good _ s ie hs'
  | ret o ie =>
    cases o with
    | none => exact ⟨by simp [aTurn], by simpa [aTurn] using hs', by simp [aTurn], by simp [aTurn]⟩
    | some o =>
      simp only [aTurn]
      exact aDeliver_good _ o ie hs' hne

theorem aRunTurns_good : ∀ (ts : List Turn) (a : ASt), scan [] a.word = some a.opened → a.opened ≠ [] →
    AGood (aRunTurns a ts) := by
  intro ts
  induction ts with
  | nil => intro a hs hne; exact ⟨by simp [aRunTurns], by simpa [aRunTurns] using hs, by simp [aRunTurns], by simpa [aRunTurns] using hne⟩
  | cons t ts ih =>
    intro a hs hne
    have hg := aTurn_good a t hs hne
    simp only [aRunTurns]
    cases h : aTurn a t with
    | mk status a' =>
      rw [h] at hg
      cases status with
      | running => exact ih a' hg.scanned (hg.run rfl)
      | finished => exact hg
      | aborted => exact hg
      | panicked => exact hg

theorem aRunTx_good (first : Spawn) (ts : List Turn) : AGood (aRunTx first ts) := by
  have hg := aSpawn_good { opened := [], word := [] } first false rfl
  simp only [aRunTx]
  cases h : aSpawn { opened := [], word := [] } first false with
  | mk status a' =>
    rw [h] at hg
    cases status with
    | running => exact aRunTurns_good ts a' hg.scanned (hg.run rfl)
    | finished => exact hg
    | aborted => exact hg
    | panicked => exact hg

/-! ### the three stacks refine the one stack, over any leftovers -/

theorem pop_push (s : Stacks) (k : Kind) (i : Nat) : (s.push k i).pop k = some (i, s) := by
  cases s; cases k <;> rfl

/-- the handler model's result and the reference machine's result describe the same run -/
structure Rel (b : Stacks) (r : Status × St) (ra : Status × ASt) : Prop where
  status : r.1 = ra.1
  word : r.2.word = ra.2.word
  stk : r.2.stk = stacksOf ra.2.opened b
  frames : r.1 = .running → r.2.frames = ra.2.opened.map Prod.fst

theorem deliver_rel (b : Stacks) (st : St) (a : ASt) (k : Kind) (i o : Nat) (ie : Bool) (rest : List (Kind × Nat))
    (hw : st.word = a.word) (ho : a.opened = (k, i) :: rest) (hstk : st.stk = stacksOf a.opened b)
    (hf : st.frames = rest.map Prod.fst) : Rel b (deliver st k o ie) (aDeliver a o ie) := by
  obtain ⟨frames, stk, word⟩ := st
  obtain ⟨opened, aword⟩ := a
  simp only [] at hw ho hstk hf
  subst hw ho hstk hf
  have hp : (stacksOf ((k, i) :: rest) b).pop k = some (i, stacksOf rest b) := by
    simp [stacksOf, pop_push]
  cases rest with
  | nil => exact ⟨by simp [deliver, aDeliver, hp], by simp [deliver, aDeliver, hp], by simp [deliver, aDeliver, hp], by simp [deliver, aDeliver, hp]⟩
  | cons q rest' =>
    cases ie
    · exact ⟨by simp [deliver, aDeliver, hp], by simp [deliver, aDeliver, hp], by simp [deliver, aDeliver, hp], by simp [deliver, aDeliver, hp]⟩
    · exact ⟨by simp [deliver, aDeliver, hp], by simp [deliver, aDeliver, hp], by simp [deliver, aDeliver, hp], by simp [deliver, aDeliver, hp]⟩

theorem spawn_rel (b : Stacks) (st : St) (a : ASt) (s : Spawn) (ie : Bool)
    (hw : st.word = a.word) (hstk : st.stk = stacksOf a.opened b)
    (hf : st.frames = a.opened.map Prod.fst) : Rel b (spawn st s ie) (aSpawn a s ie) := by
  obtain ⟨k, i, insp, h⟩ := s
  cases insp with
  | some o =>
    simp only [spawn, aSpawn]
    exact deliver_rel b _ _ k i o ie a.opened (by simp [hw]) rfl (by simp [stacksOf, hstk]) hf
  | none =>
    cases h with
    | err => exact ⟨by simp [spawn, aSpawn], by simp [spawn, aSpawn, hw], by simp [spawn, aSpawn, stacksOf, hstk], by simp [spawn, aSpawn]⟩
    | result o =>
      simp only [spawn, aSpawn]
      exact deliver_rel b _ _ k i o ie a.opened (by simp [hw]) rfl (by simp [stacksOf, hstk]) hf
    | frame =>
      exact ⟨by simp [spawn, aSpawn], by simp [spawn, aSpawn, hw], by simp [spawn, aSpawn, stacksOf, hstk], by simp [spawn, aSpawn, hf]⟩

theorem turn_rel (b : Stacks) (st : St) (a : ASt) (t : Turn)
    (hw : st.word = a.word) (hstk : st.stk = stacksOf a.opened b)
    (hf : st.frames = a.opened.map Prod.fst) (hne : a.opened ≠ []) : Rel b (turn st t) (aTurn a t) := by
  obtain ⟨ins, halt, next⟩ := t
  cases next with
  | fatal => exact ⟨by simp [turn, aTurn], by simp [turn, aTurn, hw], by simp [turn, aTurn, hstk], by simp [turn, aTurn]⟩
  | spawn s ie =>
    simp only [turn, aTurn]
    exact spawn_rel b _ _ s ie (by simp [hw]) hstk hf
  | ret o ie =>
    obtain ⟨frames, stk, word⟩ := st
    obtain ⟨opened, aword⟩ := a
    simp only [] at hw hstk hf hne
    cases opened with
    | nil => exact absurd rfl hne
    | cons p rest =>
      obtain ⟨k, i⟩ := p
      subst hw hstk hf
      cases o with
      | none => exact ⟨by simp [turn, aTurn], by simp [turn, aTurn], by simp [turn, aTurn], by simp [turn, aTurn]⟩
      | some o =>
        simp only [turn, aTurn, List.map_cons]
        exact deliver_rel b _ _ k i o ie rest rfl rfl rfl rfl

theorem runTurns_rel (b : Stacks) : ∀ (ts : List Turn) (st : St) (a : ASt),
    st.word = a.word → st.stk = stacksOf a.opened b → st.frames = a.opened.map Prod.fst →
    scan [] a.word = some a.opened → a.opened ≠ [] → Rel b (runTurns st ts) (aRunTurns a ts) := by
  intro ts
  induction ts with
  | nil => intro st a hw hstk hf _ _; exact ⟨rfl, hw, hstk, fun _ => hf⟩
  | cons t ts ih =>
    intro st a hw hstk hf hs hne
    have hr := turn_rel b st a t hw hstk hf hne
    have hg := aTurn_good a t hs hne
    simp only [runTurns, aRunTurns]
    cases h : turn st t with
    | mk status st' =>
      cases h' : aTurn a t with
      | mk status' a' =>
        rw [h, h'] at hr
        rw [h'] at hg
        have hst : status = status' := hr.status
        subst hst
        cases status with
        | running => exact ih st' a' hr.word hr.stk (hr.frames rfl) hg.scanned (hg.run rfl)
        | finished => exact hr
        | aborted => exact hr
        | panicked => exact hr

theorem runTx_rel (b : Stacks) (first : Spawn) (ts : List Turn) :
    Rel b (runTx b first ts) (aRunTx first ts) := by
  have hr := spawn_rel b { frames := [], stk := b, word := [] } { opened := [], word := [] } first false rfl rfl rfl
  have hg := aSpawn_good { opened := [], word := [] } first false rfl
  simp only [runTx, aRunTx]
  cases h : spawn { frames := [], stk := b, word := [] } first false with
  | mk status st' =>
    cases h' : aSpawn { opened := [], word := [] } first false with
    | mk status' a' =>
      rw [h, h'] at hr
      rw [h'] at hg
      have hst : status = status' := hr.status
      subst hst
      cases status with
      | running => exact runTurns_rel b ts st' a' hr.word hr.stk (hr.frames rfl) hg.scanned (hg.run rfl)
      | finished => exact hr
      | aborted => exact hr
      | panicked => exact hr

/-! ### callbacks that are not brackets: projections of the word -/

/-- a projection that ignores the bracket callbacks and `initialize_interp` -/
structure BracketFree {α : Type} (f : Ev → Option α) : Prop where
  opn : ∀ k i, f (Ev.opn k i) = none
  cls : ∀ k i o, f (Ev.cls k i o) = none
  init : f Ev.initInterp = none

theorem filterMap_deliver {α : Type} (f : Ev → Option α) (hf : BracketFree f) (st : St) (k : Kind) (o : Nat) (ie : Bool) :
    (deliver st k o ie).2.word.filterMap f = st.word.filterMap f := by
  unfold deliver
  cases hp : st.stk.pop k with
  | none => rfl
  | some p =>
    obtain ⟨i, stk⟩ := p
    cases hfr : st.frames with
    | nil => simp [hfr, hf.cls]
    | cons q r => cases ie <;> simp [hfr, hf.cls]

theorem filterMap_spawn {α : Type} (f : Ev → Option α) (hf : BracketFree f) (st : St) (s : Spawn) (ie : Bool) :
    (spawn st s ie).2.word.filterMap f = st.word.filterMap f := by
  obtain ⟨k, i, insp, h⟩ := s
  cases insp with
  | some o => simp [spawn, filterMap_deliver f hf, hf.opn]
  | none =>
    cases h with
    | err => simp [spawn, hf.opn]
    | result o => simp [spawn, filterMap_deliver f hf, hf.opn]
    | frame => simp [spawn, hf.opn, hf.init]

theorem filterMap_turn {α : Type} (f : Ev → Option α) (hf : BracketFree f) (st : St) (t : Turn) :
    (turn st t).2.word.filterMap f = st.word.filterMap f ++ (turnEvents t).filterMap f := by
  obtain ⟨ins, halt, next⟩ := t
  cases next with
  | fatal => simp [turn]
  | spawn s ie => simp [turn, filterMap_spawn f hf]
  | ret o ie =>
    cases hfr : st.frames with
    | nil => simp [turn, hfr]
    | cons k fs =>
      cases o with
      | none => simp [turn, hfr]
      | some o => simp [turn, hfr, filterMap_deliver f hf]

theorem filterMap_runTurns {α : Type} (f : Ev → Option α) (hf : BracketFree f) : ∀ (ts : List Turn) (st : St),
    (runTurns st ts).2.word.filterMap f =
      st.word.filterMap f ++ (ts.take (usedTurns st ts)).flatMap (fun t => (turnEvents t).filterMap f) := by
  intro ts
  induction ts with
  | nil => intro st; simp [runTurns, usedTurns]
  | cons t ts ih =>
    intro st
    have ht := filterMap_turn f hf st t
    simp only [runTurns, usedTurns]
    cases h : turn st t with
    | mk status st' =>
      rw [h] at ht
      cases status with
      | running => simp [ih st', ht]
      | finished => simpa using ht
      | aborted => simpa using ht
      | panicked => simpa using ht

theorem filterMap_runTx {α : Type} (f : Ev → Option α) (hf : BracketFree f) (b : Stacks) (first : Spawn) (ts : List Turn) :
    (runTx b first ts).2.word.filterMap f =
      (ts.take (usedTx b first ts)).flatMap (fun t => (turnEvents t).filterMap f) := by
  have hsp := filterMap_spawn f hf { frames := [], stk := b, word := [] } first false
  simp only [runTx, usedTx]
  cases h : spawn { frames := [], stk := b, word := [] } first false with
  | mk status st' =>
    rw [h] at hsp
    cases status with
    | running => simp [filterMap_runTurns f hf ts st', hsp]
    | finished => simpa using hsp
    | aborted => simpa using hsp
    | panicked => simpa using hsp

theorem logProj_free : BracketFree logProj := ⟨fun _ _ => rfl, fun _ _ _ => rfl, rfl⟩
theorem sdProj_free : BracketFree sdProj := ⟨fun _ _ => rfl, fun _ _ _ => rfl, rfl⟩
theorem stepProj_free : BracketFree stepProj := ⟨fun _ _ => rfl, fun _ _ _ => rfl, rfl⟩

theorem logs_postEvents (x : Insn) : (postEvents x).filterMap logProj = (insnLog x).toList := by
  cases x with
  | plain => rfl
  | logOp p a =>
    simp only [postEvents, insnLog]
    split
    · cases a.getLast? <;> simp [logProj]
    · rfl
  | sdOp n =>
    cases n with
    | none => rfl
    | some t => obtain ⟨a, t, v⟩ := t; rfl

theorem sds_postEvents (x : Insn) : (postEvents x).filterMap sdProj = (insnSd x).toList := by
  cases x with
  | plain => rfl
  | logOp p a =>
    simp only [postEvents, insnSd]
    split
    · cases a.getLast? <;> simp [sdProj]
    · rfl
  | sdOp n =>
    cases n with
    | none => rfl
    | some t => obtain ⟨a, t, v⟩ := t; rfl

theorem steps_postEvents (x : Insn) : (postEvents x).filterMap stepProj = [] := by
  cases x with
  | plain => rfl
  | logOp p a =>
    simp only [postEvents]
    split
    · cases a.getLast? <;> simp [stepProj]
    · rfl
  | sdOp n =>
    cases n with
    | none => rfl
    | some t => obtain ⟨a, t, v⟩ := t; rfl

theorem logs_turnEvents (t : Turn) : logsOf (turnEvents t) = (turnInsns t).filterMap insnLog := by
  obtain ⟨ins, halt, next⟩ := t
  simp only [logsOf, turnEvents, turnInsns, List.filterMap_append]
  congr 1
  · induction ins with
    | nil => rfl
    | cons x xs ih =>
      simp only [List.flatMap_cons, List.filterMap_append, List.filterMap_cons, ih, insnEvents]
      have := logs_postEvents x
      cases h : insnLog x <;> simp_all [logProj]
  · cases halt with
    | none => rfl
    | some x =>
      have := logs_postEvents x
      simp only [haltEvents, Option.toList, List.filterMap_append, this]
      rfl

theorem sds_turnEvents (t : Turn) : sdsOf (turnEvents t) = (turnInsns t).filterMap insnSd := by
  obtain ⟨ins, halt, next⟩ := t
  simp only [sdsOf, turnEvents, turnInsns, List.filterMap_append]
  congr 1
  · induction ins with
    | nil => rfl
    | cons x xs ih =>
      simp only [List.flatMap_cons, List.filterMap_append, List.filterMap_cons, ih, insnEvents]
      have := sds_postEvents x
      cases h : insnSd x <;> simp_all [sdProj]
  · cases halt with
    | none => rfl
    | some x =>
      have := sds_postEvents x
      simp only [haltEvents, Option.toList, List.filterMap_append, this]
      rfl

theorem steps_turnEvents (t : Turn) :
    stepsOf (turnEvents t) = t.ins.flatMap (fun _ => [Ev.step, Ev.stepEnd]) ++ t.halt.toList.map (fun _ => Ev.step) := by
  obtain ⟨ins, halt, next⟩ := t
  simp only [stepsOf, turnEvents, List.filterMap_append]
  congr 1
  · induction ins with
    | nil => rfl
    | cons x xs ih =>
      simp only [List.flatMap_cons, List.filterMap_append, ih, insnEvents]
      simp [steps_postEvents x, stepProj]
  · cases halt with
    | none => rfl
    | some x => simp [haltEvents, steps_postEvents x, stepProj]

/-! ### `step` / `step_end` adjacency -/

theorem stepsPaired_append : ∀ (u v : List Ev), stepsPaired u = true → stepsPaired (u ++ v) = stepsPaired v := by
  intro u
  induction u using stepsPaired.induct with
  | case1 => intro v _; rfl
  | case2 w ih => intro v h; simp only [stepsPaired] at h; simpa [stepsPaired] using ih v h
  | case3 rest hne => intro v h; simp [stepsPaired] at h
  | case4 rest => intro v h; simp [stepsPaired] at h
  | case5 e w h1 h2 h3 ih =>
    intro v h
    cases e <;> simp_all [stepsPaired]

theorem stepsPaired_postEvents (x : Insn) : stepsPaired (postEvents x) = true := by
  cases x with
  | plain => rfl
  | logOp p a =>
    simp only [postEvents]
    split
    · cases a.getLast? <;> simp [stepsPaired]
    · rfl
  | sdOp n =>
    cases n with
    | none => rfl
    | some t => obtain ⟨a, t, v⟩ := t; rfl

theorem stepsPaired_turnEvents (t : Turn) (h : t.halt = none) : stepsPaired (turnEvents t) = true := by
  obtain ⟨ins, halt, next⟩ := t
  simp only [] at h
  subst h
  simp only [turnEvents, haltEvents, List.append_nil]
  induction ins with
  | nil => rfl
  | cons x xs ih =>
    simp only [List.flatMap_cons, insnEvents, List.cons_append, List.nil_append, stepsPaired]
    rw [stepsPaired_append _ _ (stepsPaired_postEvents x)]
    exact ih

theorem stepsPaired_deliver (st : St) (k : Kind) (o : Nat) (ie : Bool) (h : stepsPaired st.word = true) :
    stepsPaired (deliver st k o ie).2.word = true := by
  unfold deliver
  cases hp : st.stk.pop k with
  | none => exact h
  | some p =>
    obtain ⟨i, stk⟩ := p
    cases hfr : st.frames with
    | nil => simp [hfr, stepsPaired_append _ _ h, stepsPaired]
    | cons q r => cases ie <;> simp [hfr, stepsPaired_append _ _ h, stepsPaired]

theorem stepsPaired_spawn (st : St) (s : Spawn) (ie : Bool) (h : stepsPaired st.word = true) :
    stepsPaired (spawn st s ie).2.word = true := by
  have h1 : stepsPaired (st.word ++ [Ev.opn s.k s.i]) = true := by simp [stepsPaired_append _ _ h, stepsPaired]
  obtain ⟨k, i, insp, hd⟩ := s
  cases insp with
  | some o => simp only [spawn]; exact stepsPaired_deliver _ _ _ _ h1
  | none =>
    cases hd with
    | err => simpa [spawn] using h1
    | result o => simp only [spawn]; exact stepsPaired_deliver _ _ _ _ h1
    | frame =>
      simp only [spawn]
      rw [stepsPaired_append _ _ h1]; rfl

theorem stepsPaired_turn (st : St) (t : Turn) (h : stepsPaired st.word = true) (hh : t.halt = none) :
    stepsPaired (turn st t).2.word = true := by
  have h1 : stepsPaired (st.word ++ turnEvents t) = true := by
    rw [stepsPaired_append _ _ h]; exact stepsPaired_turnEvents t hh
  obtain ⟨ins, halt, next⟩ := t
  cases next with
  | fatal => simpa [turn] using h1
  | spawn s ie => simp only [turn]; exact stepsPaired_spawn _ _ _ h1
  | ret o ie =>
    cases hfr : st.frames with
    | nil => simpa [turn, hfr] using h1
    | cons k fs =>
      cases o with
      | none => simpa [turn, hfr] using h1
      | some o => simp only [turn, hfr]; exact stepsPaired_deliver _ _ _ _ h1

theorem stepsPaired_runTurns : ∀ (ts : List Turn) (st : St), stepsPaired st.word = true →
    (∀ t ∈ ts, t.halt = none) → stepsPaired (runTurns st ts).2.word = true := by
  intro ts
  induction ts with
  | nil => intro st h _; exact h
  | cons t ts ih =>
    intro st h hh
    have ht := stepsPaired_turn st t h (hh t (by simp))
    simp only [runTurns]
    cases hq : turn st t with
    | mk status st' =>
      rw [hq] at ht
      cases status with
      | running => exact ih st' ht (fun t' ht' => hh t' (by simp [ht']))
      | finished => exact ht
      | aborted => exact ht
      | panicked => exact ht

theorem stepsPaired_runTx (b : Stacks) (first : Spawn) (ts : List Turn) (hh : ∀ t ∈ ts, t.halt = none) :
    stepsPaired (runTx b first ts).2.word = true := by
  have hsp := stepsPaired_spawn { frames := [], stk := b, word := [] } first false rfl
  simp only [runTx]
  cases h : spawn { frames := [], stk := b, word := [] } first false with
  | mk status st' =>
    rw [h] at hsp
    cases status with
    | running => exact stepsPaired_runTurns ts st' hsp hh
    | finished => exact hsp
    | aborted => exact hsp
    | panicked => exact hsp

/-! ### the whole transaction is ONE bracket: the first notification is closed last -/

/-- the word is the first notification followed by `u`; scanning `u` from nothing gives what is open above
the first notification -/
def Top (k0 : Kind) (i0 : Nat) (a : ASt) : Prop :=
  ∃ u pre, a.word = Ev.opn k0 i0 :: u ∧ a.opened = pre ++ [(k0, i0)] ∧ scan [] u = some pre

def TopRes (k0 : Kind) (i0 : Nat) (r : Status × ASt) : Prop :=
  match r.1 with
  | .finished => ∃ u o, r.2.word = Ev.opn k0 i0 :: (u ++ [Ev.cls k0 i0 o]) ∧ Balanced u
  | .running => Top k0 i0 r.2
  | _ => True

theorem aDeliver_top {k0 : Kind} {i0 : Nat} (a : ASt) (o : Nat) (ie : Bool) (h : Top k0 i0 a) :
    TopRes k0 i0 (aDeliver a o ie) := by
  obtain ⟨u, pre, hw, ho, hs⟩ := h
  obtain ⟨opened, word⟩ := a
  simp only [] at hw ho
  subst hw ho
  cases pre with
  | nil =>
    simp only [aDeliver, List.nil_append, TopRes]
    exact ⟨u, o, by simp, balanced_of_scan hs⟩
  | cons p pre' =>
    obtain ⟨k, i⟩ := p
    have hs' : scan [] (u ++ [Ev.cls k i o]) = some pre' := by
      rw [scan_append, hs]; simp [scan]
    cases pre' with
    | nil =>
      cases ie
      · simp only [aDeliver, List.cons_append, List.nil_append, TopRes, Bool.false_eq_true, if_false]
        exact ⟨u ++ [Ev.cls k i o], [], by simp, by simp, hs'⟩
      · simp [aDeliver, TopRes]
    | cons q pre'' =>
      cases ie
      · simp only [aDeliver, List.cons_append, TopRes, Bool.false_eq_true, if_false]
        exact ⟨u ++ [Ev.cls k i o], q :: pre'', by simp, by simp, hs'⟩
      · simp [aDeliver, TopRes]

theorem aSpawn_cont_top {k0 : Kind} {i0 : Nat} (a1 : ASt) (s : Spawn) (ie : Bool) (h : Top k0 i0 a1) :
    TopRes k0 i0 (match s.insp with
      | some o => aDeliver a1 o ie
      | none =>
        match s.h with
        | .err => (.aborted, a1)
        | .result o => aDeliver a1 o ie
        | .frame => (.running, { a1 with word := a1.word ++ [Ev.initInterp] })) := by
  obtain ⟨k, i, insp, hd⟩ := s
  cases insp with
  | some o => exact aDeliver_top a1 o ie h
  | none =>
    cases hd with
    | err => simp [TopRes]
    | result o => exact aDeliver_top a1 o ie h
    | frame =>
      obtain ⟨u, pre, hw, ho, hs⟩ := h
      simp only [TopRes]
      refine ⟨u ++ [Ev.initInterp], pre, by simp [hw], ho, ?_⟩
      rw [scan_append, hs]; simp [scan]

theorem aSpawn_top {k0 : Kind} {i0 : Nat} (a : ASt) (s : Spawn) (ie : Bool) (h : Top k0 i0 a) :
    TopRes k0 i0 (aSpawn a s ie) := by
  obtain ⟨u, pre, hw, ho, hs⟩ := h
  have h1 : Top k0 i0 { opened := (s.k, s.i) :: a.opened, word := a.word ++ [Ev.opn s.k s.i] } := by
    refine ⟨u ++ [Ev.opn s.k s.i], (s.k, s.i) :: pre, by simp [hw], by simp [ho], ?_⟩
    rw [scan_append, hs]; simp [scan]
  exact aSpawn_cont_top _ s ie h1

theorem aTurn_top {k0 : Kind} {i0 : Nat} (a : ASt) (t : Turn) (h : Top k0 i0 a) : TopRes k0 i0 (aTurn a t) := by
  obtain ⟨u, pre, hw, ho, hs⟩ := h
  have h1 : Top k0 i0 { a with word := a.word ++ turnEvents t } := by
    refine ⟨u ++ turnEvents t, pre, by simp [hw], ho, ?_⟩
    rw [scan_append, hs]
    simp [scan_all_neutral _ (turnEvents_neutral t)]
  obtain ⟨ins, halt, next⟩ := t
  cases next with
  | fatal => simp [aTurn, TopRes]
  | spawn s ie => simp only [aTurn]; exact aSpawn_top _ s ie h1
  | ret o ie =>
    cases o with
    | none => simp [aTurn, TopRes]
    | some o => simp only [aTurn]; exact aDeliver_top _ o ie h1

theorem aRunTurns_top {k0 : Kind} {i0 : Nat} : ∀ (ts : List Turn) (a : ASt), Top k0 i0 a → TopRes k0 i0 (aRunTurns a ts) := by
  intro ts
  induction ts with
  | nil => intro a h; exact h
  | cons t ts ih =>
    intro a h
    have ht := aTurn_top a t h
    simp only [aRunTurns]
    cases hq : aTurn a t with
    | mk status a' =>
      rw [hq] at ht
      cases status with
      | running => exact ih a' ht
      | finished => exact ht
      | aborted => exact ht
      | panicked => exact ht

theorem aSpawn_first_top (first : Spawn) :
    TopRes first.k first.i (aSpawn { opened := [], word := [] } first false) := by
  have h1 : Top first.k first.i { opened := [(first.k, first.i)], word := [Ev.opn first.k first.i] } :=
    ⟨[], [], rfl, rfl, rfl⟩
  have hs := aSpawn_cont_top _ first false h1
  obtain ⟨k, i, insp, hd⟩ := first
  cases insp with
  | some o => simpa [aSpawn] using hs
  | none => cases hd <;> simpa [aSpawn] using hs

theorem aRunTx_top (first : Spawn) (ts : List Turn) : TopRes first.k first.i (aRunTx first ts) := by
  have hs := aSpawn_first_top first
  simp only [aRunTx]
  cases hq : aSpawn { opened := [], word := [] } first false with
  | mk status a' =>
    rw [hq] at hs
    cases status with
    | running => exact aRunTurns_top ts a' hs
    | finished => exact hs
    | aborted => exact hs
    | panicked => exact hs

end Revm.Proofs.InspectorHooks
