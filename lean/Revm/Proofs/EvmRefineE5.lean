import Revm.Proofs.EvmRefineE4
/-! `make_create_frame` on the two machines, errors included. -/
set_option linter.unusedSimpArgs false
set_option linter.unusedVariables false
namespace Revm.Proofs.EvmRefine
open Revm Revm.Model Revm.Model.Journal Revm.Spec.JournalAbs Revm.Proofs.Journal Revm.Proofs.Frame
open Revm.Model.Evm
open Revm.Spec.Evm (Snap snapshotOps journalOpsStrict)
open Revm.Proofs.EvmRR Revm.Proofs.EvmSim

variable {ks1 : List Checkpoint} {ks2 : List Snap} {w1 w2 : World}

theorem createCheckpoint_rr (h : CfgRel ks1 w1 ks2 w2) {caller a : Addr} {v spec : Nat}
    (h3 : a ≠ PRECOMPILE3) (hfund : ∀ acc, w1.js.state caller = some acc → v ≤ acc.info.balance) :
    RR (fun p1 p2 => CpRes ks1 p1.1 ks2 p2.1 p1.2 p2.2)
      (journalOpsStrict.createCheckpoint w1 caller a (w1.hasStorage a) v spec)
      (snapshotOps.createCheckpoint w2 caller a (w2.hasStorage a) v spec) := by
  refine RR.of (fun p hp => ?_) (fun e hE => ?_)
  · obtain ⟨w1', r⟩ := p
    obtain ⟨w2', r', h2, hres⟩ := createCheckpoint_rel h h3 hfund hp
    exact ⟨(w2', r'), h2, hres⟩
  · have hhs1 : w1.hasStorage a = hsPre w1.pre a := hasStorage_eq w1 h.w.hs1 a
    have hhs2 : w2.hasStorage a = hsPre w1.pre a := by rw [hasStorage_eq w2 h.w.hs2 a, h.w.pre]
    rw [hhs1] at hE
    rw [hhs2]
    have plain : (∀ x, w1.js.state a = some x → x.created = false ∨
          (x.info.codeHash ≠ Journal.KECCAK_EMPTY ∨ x.info.nonce ≠ 0 ∨ hsPre w1.pre a = true)) →
        ∀ e, journalOps.createCheckpoint w1 caller a (hsPre w1.pre a) v spec = .error e →
        Esc e ∨ ∃ e', snapshotOps.createCheckpoint w2 caller a (hsPre w1.pre a) v spec = .error e' ∧ Kind e e' := by
      intro hcr e he
      change (ofOpt "create_account_checkpoint" (Journal.createAccountCheckpoint w1.js caller a (hsPre w1.pre a) v spec) >>=
        fun p => pure ({ w1 with js := p.1 }, p.2)) = .error e at he
      show Esc e ∨ ∃ e', (ofOpt "create_account_checkpoint"
          (Journal.createAccountCheckpoint w2.js caller a (hsPre w1.pre a) v spec) >>= fun p =>
          (match p.2 with
            | .ok _ => pure ({ w2 with js := p.1 }, Except.ok (⟨w2.js⟩ : Snap))
            | .error e => pure ({ w2 with js := w2.js }, Except.error e) : R (World × Except CreateErr Snap))) = .error e' ∧ _
      refine world_err (fun p => ⟨_, rfl⟩) (fun hn => ?_) he
      refine none_of_symm (fun b hb => ?_) hn
      obtain ⟨s', r'⟩ := b
      have hcrs : ∀ y, w2.js.state a = some y → y.created = false ∨
          (y.info.codeHash ≠ Journal.KECCAK_EMPTY ∨ y.info.nonce ≠ 0 ∨ hsPre w1.pre a = true) := by
        intro y hy
        obtain ⟨x, hx, ar⟩ := h.w.rel.symm.get hy
        obtain ⟨e1, e2, e3, e4, _⟩ := ar
        rw [e4, e3, e2]; exact hcr x hx
      obtain ⟨j', r0, hj, _⟩ := create_rel h.w.rel.symm hcrs (fun hh => dbOk_pre w1.pre a hh) h3 hb
      exact ⟨_, hj⟩
    change (match w1.js.state a with
      | some acc =>
        if acc.created ∧ ¬ (acc.info.codeHash ≠ Journal.KECCAK_EMPTY ∨ acc.info.nonce ≠ 0 ∨ hsPre w1.pre a = true) then
          Except.error (Err.panic "inadmissible: create_account_checkpoint without collision on an account created in this transaction")
        else journalOps.createCheckpoint w1 caller a (hsPre w1.pre a) v spec
      | none => journalOps.createCheckpoint w1 caller a (hsPre w1.pre a) v spec) = .error e at hE
    cases hs : w1.js.state a with
    | none => rw [hs] at hE; exact plain (fun x hx => by rw [hs] at hx; cases hx) e hE
    | some acc =>
      rw [hs] at hE
      simp only at hE
      by_cases hc : acc.created = true ∧ ¬ (acc.info.codeHash ≠ Journal.KECCAK_EMPTY ∨ acc.info.nonce ≠ 0 ∨ hsPre w1.pre a = true)
      · rw [if_pos hc] at hE
        simp only [Except.error.injEq] at hE
        subst hE
        exact .inl (.inl rfl)
      · rw [if_neg hc] at hE
        refine plain (fun x hx => ?_) e hE
        rw [hs] at hx; cases hx
        by_cases hcc : acc.created = true
        · exact .inr (Classical.byContradiction fun hn => hc ⟨hcc, hn⟩)
        · left; cases hb : acc.created
          · rfl
          · exact absurd hb hcc

theorem createTail_rr (cfg : Cfg) (i : Interp.CreateInputs) (mem : Memory.SharedMemory) (created : Nat)
    (h : CfgRel ks1 w1 ks2 w2) {acc0 : Acct} (hc : w1.js.state i.caller = some acc0) (hv : i.value ≤ acc0.info.balance) :
    RR (ForRel CfgRel ks1 ks2) (createTail journalOpsStrict cfg w1 i mem created)
      (createTail snapshotOps cfg w2 i mem created) := by
  unfold createTail
  by_cases hpc : isPrecompile cfg.spec created = true
  · simp only [hpc, if_true]; exact RR.pure ⟨rfl, h⟩
  · simp only [hpc, Bool.false_eq_true, if_false]
    have hpc' : isPrecompile cfg.spec created = false := by
      cases hh : isPrecompile cfg.spec created <;> simp_all
    refine RR.bind (RR.withEq (wLoadAccount_rr h created)) ?_
    rintro ⟨wc, c3⟩ ⟨wd, c3'⟩ ⟨⟨_, hr3⟩, h3, _⟩
    simp only at hr3
    have hfund : ∀ acc, wc.js.state i.caller = some acc → i.value ≤ acc.info.balance := by
      unfold World.loadAccount at h3
      simp only [bind, Except.bind] at h3
      cases ho3 : ofOpt "load_account" (Journal.loadAccount w1.db w1.js created) with
      | error e => rw [ho3] at h3; simp at h3
      | ok q3 =>
        rw [ho3] at h3
        simp only [pure, Except.pure, Except.ok.injEq, Prod.mk.injEq] at h3
        have hwc : wc.js = q3.1 := by rw [← h3.1]; exact (noteAddr_fields _ created).1
        rw [hwc]
        intro acc hacc
        obtain ⟨acc3, h3a, hi3⟩ := loadAccount_info (s' := q3.1) (c := q3.2) (ofOpt_ok ho3) i.caller acc0 hc
        rw [hacc] at h3a
        cases h3a
        rw [hi3]; exact hv
    refine RR.bind (createCheckpoint_rr hr3 (isPrecompile_ne3 hpc') hfund) ?_
    rintro ⟨we, r⟩ ⟨wf, r'⟩ hres
    simp only at hres
    cases r with
    | error e =>
      cases r' with
      | ok _ => exact hres.elim
      | error e' =>
        obtain ⟨he, hrr⟩ := hres
        subst he
        cases e <;> exact RR.pure ⟨rfl, hrr⟩
    | ok cp =>
      cases r' with
      | error _ => exact hres.elim
      | ok snap => exact RR.pure ⟨⟨rfl, rfl⟩, hres⟩

/-- the `createFrame` obligation, errors included -/
theorem makeCreateFrame_rr (cfg : Cfg) (i : Interp.CreateInputs) (mem : Memory.SharedMemory) (h : CfgRel ks1 w1 ks2 w2) :
    RR (ForRel CfgRel ks1 ks2) (makeCreateFrame journalOpsStrict cfg w1 i mem)
      (makeCreateFrame snapshotOps cfg w2 i mem) := by
  rw [makeCreateFrame_eq, makeCreateFrame_eq]
  rw [← h.w.rel.depth]
  by_cases hd : w1.js.depth > CALL_STACK_LIMIT
  · simp only [hd, if_true]; exact RR.pure ⟨rfl, h⟩
  · simp only [hd, if_false]
    refine RR.bind (wLoadAccount_rr h _) ?_
    rintro ⟨wa, c⟩ ⟨wb, c'⟩ ⟨_, hr⟩
    simp only at hr
    refine RR.bind (acct_rr hr _) ?_
    rintro x y ⟨ar, hxs, hys⟩
    have eb : x.info.balance = y.info.balance := ar.1
    simp only
    rw [← eb]
    by_cases hf : x.info.balance < i.value
    · simp only [hf, if_true]; exact RR.pure ⟨rfl, hr⟩
    · simp only [hf, if_false]
      have hinc : RR (fun p1 p2 => p1.2 = p2.2 ∧ Journal.incNonce wa.js i.caller = some p1 ∧
            CfgRel ks1 { wa with js := p1.1 } ks2 { wb with js := p2.1 })
          (ofOpt "inc_nonce" (Journal.incNonce wa.js i.caller)) (ofOpt "inc_nonce" (Journal.incNonce wb.js i.caller)) := by
        refine RR.ofOpt _ (fun p hp => ?_) (fun hn => ?_)
        · obtain ⟨j2, nn⟩ := p
          obtain ⟨s2, hs2, hr2⟩ := wIncNonce_rel hr hp
          exact ⟨(s2, nn), hs2, rfl, hp, hr2⟩
        · refine none_of_symm (fun b hb => ?_) hn
          obtain ⟨s', r⟩ := b
          obtain ⟨j', hj, _⟩ := incNonce_rel (db := dbPre wa.pre) hr.w.rel.symm hb
          exact ⟨_, hj⟩
      refine RR.bind hinc ?_
      rintro ⟨j2, nn⟩ ⟨s2, nn'⟩ ⟨hnn, hj, hr2⟩
      simp only at hnn hj hr2
      subst hnn
      cases nn with
      | none => exact RR.pure ⟨rfl, hr2⟩
      | some newNonce =>
        obtain ⟨acc2, hacc2, hb2⟩ := incNonce_balance (db := dbPre wa.pre) hj hxs
        exact createTail_rr cfg i mem _ hr2 hacc2 (by rw [hb2]; omega)

end Revm.Proofs.EvmRefine
