import Revm.Proofs.EvmLinkGasInv2
/-! LINK, frame accounting, part 9: THE LOOP INVARIANT of `Evm.runLoop` — the running frame has at most its gas limit
left, every waiting frame has paid for the limit of the frame above it — along every run (no fuel in the statement),
and its consequence: the first frame's result gives back at most the first frame's gas limit. Also: every frame keeps
its `is_static` for its whole life. -/
set_option linter.unusedSimpArgs false
set_option linter.unusedVariables false
namespace Revm.Proofs.EvmLink
open Revm Revm.Model Revm.Model.Evm

theorem createReturn_gas {κ : Type} {C : CpOps κ} {cfg : Cfg} {w w' : World} {cp : κ} {a : Nat}
    {r r' : Interp.ChildResult} (h : createReturn C cfg w cp a r = .ok (r', w')) :
    r'.gasRemaining ≤ r.gasRemaining := by
  have tail : ∀ (c : Prop) [Decidable c] (x y : Interp.ChildResult) (hash : Nat) (out : List Nat),
      x.gasRemaining ≤ r.gasRemaining → y.gasRemaining ≤ r.gasRemaining →
      (if c then (do
          let w ← C.revert w cp
          Except.ok (x, w) : R (Interp.ChildResult × World))
        else do
          let w2 ← C.setCode (C.commit w) a hash
          Except.ok (y, w2.addCode hash out)) = .ok (r', w') →
      r'.gasRemaining ≤ r.gasRemaining := by
    intro c _ x y hash out hx hy h
    split at h
    · obtain ⟨w1, _, h⟩ := bind_ok h
      simp only [Except.ok.injEq, Prod.mk.injEq] at h
      rw [← h.1]; exact hx
    · obtain ⟨w2, _, h⟩ := bind_ok h
      simp only [Except.ok.injEq, Prod.mk.injEq] at h
      rw [← h.1]; exact hy
  unfold createReturn at h
  simp only [pure, Except.pure] at h
  split at h
  · obtain ⟨w1, _, h⟩ := bind_ok h
    simp only [Except.ok.injEq, Prod.mk.injEq] at h
    rw [← h.1]; exact Nat.le_refl _
  · split at h
    · obtain ⟨w1, _, h⟩ := bind_ok h
      simp only [Except.ok.injEq, Prod.mk.injEq] at h
      rw [← h.1]; exact Nat.le_refl _
    · split at h
      · obtain ⟨w1, _, h⟩ := bind_ok h
        simp only [Except.ok.injEq, Prod.mk.injEq] at h
        rw [← h.1]; exact Nat.le_refl _
      · by_cases hg : U64ops.wmul r.output.length CODEDEPOSIT ≤ r.gasRemaining
        · simp only [hg, if_true] at h
          exact tail _ _ _ _ _ (by exact Nat.sub_le _ _) (by exact Nat.sub_le _ _) h
        · simp only [hg, if_false, if_true] at h
          exact tail _ _ _ _ _ (by exact Nat.le_refl _) (by exact Nat.le_refl _) h

/-! ## the invariant -/

abbrev remOf (f : JFrame) : Nat := f.interp.gas.remaining
abbrev limOf (f : JFrame) : Nat := f.interp.gas.limit

/-- the waiting frames below a frame whose gas limit is `L`: each has paid for the limit of the frame above it; the
bottom frame's limit is `L0` -/
def Waiting : List JFrame → Nat → Nat → Prop
  | [], L, L0 => L = L0
  | p :: rest, L, L0 => remOf p + L ≤ limOf p ∧ Waiting rest (limOf p) L0

/-- the gas invariant of a loop state, for a first frame with gas limit `L0` -/
inductive GasNext (L0 : Nat) : Next Journal.Checkpoint → Prop
  | run {top rest w} (h1 : remOf top ≤ limOf top) (h2 : Waiting rest (limOf top) L0) : GasNext L0 (.run (top :: rest) w)
  | ended {top rest r out s w} (h1 : s.gas.remaining ≤ s.gas.limit) (h2 : Waiting rest s.gas.limit L0) :
      GasNext L0 (.ended top rest r out s w)
  | done {r w} (h : r.gasRemaining ≤ L0) : GasNext L0 (.done r w)

/-- deliver a result that gives back at most `g`, to a parent that has paid for `g` -/
theorem deliver_gas {L0 : Nat} {kind : FrameKind} {o : Interp.ChildResult} {parent : JFrame} {rest : List JFrame}
    {mem : Memory.SharedMemory} {w : World} {nx} {g : Nat} (ho : o.gasRemaining ≤ g)
    (hp : remOf parent + g ≤ limOf parent) (hw : Waiting rest (limOf parent) L0)
    (h : deliver kind o parent rest mem w = .ok nx) : GasNext L0 nx := by
  unfold deliver at h
  have hk : Keep (plusGas { parent.interp with mem := mem } o.gasRemaining) T
      (insertBy kind o { parent.interp with mem := mem }) := by
    unfold insertBy
    cases kind with
    | call rs re => exact insertCall_kept rs re o _
    | create a => exact insertCreate_kept o _
  generalize insertBy kind o { parent.interp with mem := mem } = e at hk h
  cases hk with
  | @ok _ s hs _ =>
    simp only [pure, Except.pure, Except.ok.injEq] at h
    subst h
    have e1 : s.gas.limit = limOf parent := hs.lim
    have e2 : s.gas.remaining ≤ remOf parent + o.gasRemaining := hs.rem
    refine .run ?_ ?_
    · show s.gas.remaining ≤ s.gas.limit; omega
    · show Waiting rest s.gas.limit L0; rw [e1]; exact hw
  | @halt r out s hs =>
    simp only [pure, Except.pure, Except.ok.injEq] at h
    subst h
    have e1 : s.gas.limit = limOf parent := hs.lim
    have e2 : s.gas.remaining ≤ remOf parent + o.gasRemaining := hs.rem
    refine .ended (by omega) ?_
    rw [e1]; exact hw
  | fault => cases h

theorem frameEnd_gas {L0 : Nat} {cfg : Cfg} {top : JFrame} {rest : List JFrame} {r : Interp.IResult} {out : List Nat}
    {s : Interp.IState} {w : World} {nx} (h1 : s.gas.remaining ≤ s.gas.limit) (h2 : Waiting rest s.gas.limit L0)
    (h : frameEnd journalOps cfg top rest r out s w = .ok nx) : GasNext L0 nx := by
  unfold frameEnd at h
  obtain ⟨mem, _, h⟩ := bind_ok h
  obtain ⟨⟨res, w1⟩, hret, h⟩ := bind_ok h
  have hres : res.gasRemaining ≤ s.gas.remaining := by
    unfold frameReturn at hret
    split at hret
    · rw [callReturn_res hret]; exact Nat.le_refl _
    · exact createReturn_gas hret
  simp only at h
  cases rest with
  | nil =>
    simp only [pure, Except.pure, Except.ok.injEq] at h
    subst h
    have : s.gas.limit = L0 := h2
    exact .done (by omega)
  | cons parent rest' =>
    simp only at h
    obtain ⟨hp, hw⟩ := h2
    exact deliver_gas (g := s.gas.limit) (by omega) hp hw h

theorem frameAction_gas {L0 : Nat} {cfg : Cfg} {top : JFrame} {rest : List JFrame} {a : Interp.Action}
    {s : Interp.IState} {w : World} {nx} (hlim : s.gas.limit = limOf top)
    (hpaid : s.gas.remaining + a.gasLimit ≤ limOf top) (hw : Waiting rest (limOf top) L0)
    (h : frameAction journalOps cfg top rest a s w = .ok nx) : GasNext L0 nx := by
  unfold frameAction at h
  obtain ⟨⟨fr, w1⟩, hmk, h⟩ := bind_ok h
  have hfr : (∀ r, fr = .result r → r.gasRemaining ≤ a.gasLimit) ∧
      (∀ f, fr = .frame f → f.interp.gas = Gas.new a.gasLimit) := by
    unfold makeFrame at hmk
    cases a with
    | call i =>
      obtain ⟨x, y⟩ := makeCallFrame_gas hmk
      exact ⟨x, fun f hf => (y f hf).1⟩
    | create i =>
      obtain ⟨x, y⟩ := makeCreateFrame_gas hmk
      exact ⟨x, fun f hf => (y f hf).1⟩
    | eofCreate i => cases hmk
  simp only at h
  cases fr with
  | frame f =>
    simp only [pure, Except.pure, Except.ok.injEq] at h
    subst h
    have hg := hfr.2 f rfl
    refine .run ?_ ⟨?_, ?_⟩
    · show f.interp.gas.remaining ≤ f.interp.gas.limit; rw [hg]; exact Nat.le_refl _
    · show s.gas.remaining + f.interp.gas.limit ≤ s.gas.limit
      rw [hg, hlim]; exact hpaid
    · show Waiting rest s.gas.limit L0; rw [hlim]; exact hw
  | result o =>
    simp only at h
    refine deliver_gas (parent := { top with interp := s }) (g := a.gasLimit) (hfr.1 o rfl) ?_ ?_ h
    · show s.gas.remaining + a.gasLimit ≤ s.gas.limit; rw [hlim]; exact hpaid
    · show Waiting rest s.gas.limit L0; rw [hlim]; exact hw

theorem afterStep_gas {L0 : Nat} {cfg : Cfg} {top : JFrame} {rest : List JFrame} {d : Interp.Done} {w : World} {nx}
    (h1 : remOf top ≤ limOf top) (hw : Waiting rest (limOf top) L0) (hd : KDone top.interp d)
    (h : afterStep journalOps cfg top rest d w = .ok nx) : GasNext L0 nx := by
  unfold afterStep at h
  have h1' : top.interp.gas.remaining ≤ top.interp.gas.limit := h1
  cases hd with
  | @next s' hk =>
    simp only [pure, Except.pure, Except.ok.injEq] at h
    subst h
    refine .run ?_ ?_
    · show s'.gas.remaining ≤ s'.gas.limit; have := hk.rem; have := hk.lim; omega
    · show Waiting rest s'.gas.limit L0; rw [hk.lim]; exact hw
  | @halt r o s' hk =>
    exact frameEnd_gas (by have := hk.rem; have := hk.lim; omega) (by rw [hk.lim]; exact hw) h
  | fault => cases h
  | @action a s' hk hg =>
    exact frameAction_gas hk.lim (by show s'.gas.remaining + a.gasLimit ≤ top.interp.gas.limit; omega) hw h

/-- one iteration keeps the gas invariant -/
theorem iterate_gas {L0 : Nat} {cfg : Cfg} {top : JFrame} {rest : List JFrame} {w : World} {nx}
    (h1 : remOf top ≤ limOf top) (hw : Waiting rest (limOf top) L0)
    (h : iterate journalOps cfg (top :: rest) w = .ok nx) : GasNext L0 nx := by
  unfold iterate at h
  simp only at h
  have hk := step_kept top.interp
  generalize Interp.step top.interp = o at hk h
  cases hk with
  | pure hd => exact afterStep_gas h1 hw hd h
  | host hk' =>
    simp only at h
    obtain ⟨⟨resp, w1⟩, _, h⟩ := bind_ok h
    exact afterStep_gas h1 hw (hk' resp) h

/-- **the gas invariant along every run** (no fuel) -/
theorem steps_gas {L0 : Nat} {cfg : Cfg} {n m : Next Journal.Checkpoint} (t : Steps cfg n m) (hi : GasNext L0 n) :
    GasNext L0 m := by
  induction t with
  | refl n => exact hi
  | @iter stack w n m h _ ih =>
    cases hi with
    | run h1 h2 => exact ih (iterate_gas h1 h2 h)
  | fend h _ ih =>
    cases hi with
    | ended h1 h2 => exact ih (frameEnd_gas h1 h2 h)

/-- the result of a completed run of `Evm.runLoop` on one frame gives back at most that frame's gas limit -/
theorem runLoop_gas {cfg : Cfg} {fuel : Nat} {f : JFrame} {w w' : World} {res : Interp.ChildResult}
    (hf : remOf f ≤ limOf f) (h : runLoop journalOps cfg fuel [f] w = .ok (res, w')) :
    res.gasRemaining ≤ limOf f := by
  have := steps_gas (L0 := limOf f) ((runLoop_steps cfg fuel).1 _ _ _ _ h) (.run hf rfl)
  cases this with
  | done h => exact h

end Revm.Proofs.EvmLink
