import Revm.Proofs.EvmLinkFees
import Revm.Proofs.FrameLoop
/-! LINK, frame depth (C07) on the whole-EVM frame machine: `EvmFrame.makeCallFrame` / `makeCreateFrame` /
`callReturn` / `createReturn` and every `Host` answer of `EvmHost` move the journal depth exactly as the checkpoint
discipline of `Model.Frame` says (the journal-level depth lemmas of C07 are reused); hence along ANY run of
`Evm.runLoop` — stated without fuel, as the step relation `Steps` — journal depth = length of the frame stack, and a
call is refused with `CallTooDeep` exactly 1024 levels below the transaction frame. -/
set_option linter.unusedSimpArgs false
namespace Revm.Proofs.EvmLink
open Revm Revm.Model Revm.Model.Evm
open Revm.Model.Journal (incU64 decU64)
open Revm.Proofs.Frame (dec_inc inc_small dec_pos)

/-! ## the journal operations lifted to the world -/

theorem w_loadAccount_depth {w w1 : World} {a : Nat} {c : Bool} (h : w.loadAccount a = .ok (w1, c)) :
    w1.js.depth = w.js.depth :=
  Proofs.Frame.loadAccount_depth (world_loadAccount_inv h)

theorem w_loadCode_depth {w w1 : World} {a : Nat} {c : Bool} (h : w.loadCode a = .ok (w1, c)) :
    w1.js.depth = w.js.depth := by
  unfold World.loadCode at h
  obtain ⟨⟨js, c'⟩, h1, h2⟩ := bind_ok h
  simp only [pure, Except.pure, Except.ok.injEq, Prod.mk.injEq] at h2
  obtain ⟨rfl, rfl⟩ := h2
  rw [Proofs.EvmHost.noteAddr_js]
  exact Proofs.Frame.loadCode_depth (Proofs.EvmHost.ofOpt_ok h1)

theorem w_loadAccountDelegated_depth {w w1 : World} {a : Nat} {r} (h : w.loadAccountDelegated a = .ok (w1, r)) :
    w1.js.depth = w.js.depth := by
  unfold World.loadAccountDelegated at h
  obtain ⟨⟨js, ie, c, dc⟩, h1, h2⟩ := bind_ok h
  simp only [pure, Except.pure, Except.ok.injEq, Prod.mk.injEq] at h2
  obtain ⟨rfl, _⟩ := h2
  have hd := Proofs.Frame.loadAccountDelegated_depth (Proofs.EvmHost.ofOpt_ok h1)
  split
  · rw [Proofs.EvmHost.noteAddr_js, Proofs.EvmHost.noteAddr_js]; exact hd
  · rw [Proofs.EvmHost.noteAddr_js]; exact hd

theorem w_touch_depth {w w1 : World} {a : Nat} (h : w.touch a = .ok w1) : w1.js.depth = w.js.depth := by
  unfold World.touch at h
  obtain ⟨js, h1, h2⟩ := bind_ok h
  simp only [pure, Except.pure, Except.ok.injEq] at h2
  subst h2
  exact Proofs.Frame.touch_depth (Proofs.EvmHost.ofOpt_ok h1)

theorem w_transfer_depth {w w1 : World} {a b v : Nat} {r} (h : w.transfer a b v = .ok (w1, r)) :
    w1.js.depth = w.js.depth := by
  unfold World.transfer at h
  obtain ⟨⟨js, e⟩, h1, h2⟩ := bind_ok h
  simp only [pure, Except.pure, Except.ok.injEq, Prod.mk.injEq] at h2
  obtain ⟨rfl, _⟩ := h2
  rw [Proofs.EvmHost.noteAddr_js, Proofs.EvmHost.noteAddr_js]
  exact Proofs.Frame.transfer_depth (Proofs.EvmHost.ofOpt_ok h1)

theorem w_checkpoint_depth (w : World) : w.checkpoint.1.js.depth = incU64 w.js.depth := rfl
theorem w_commit_depth (w : World) : w.commit.js.depth = decU64 w.js.depth := rfl

theorem w_revert_depth {w w1 : World} {cp : Journal.Checkpoint} (h : w.revert cp = .ok w1) :
    w1.js.depth = decU64 w.js.depth := by
  unfold World.revert at h
  obtain ⟨js, h1, h2⟩ := bind_ok h
  simp only [pure, Except.pure, Except.ok.injEq] at h2
  subst h2
  exact Proofs.Frame.revert_depth (Proofs.EvmHost.ofOpt_ok h1)

theorem addCode_js (w : World) (h : Nat) (c : List Nat) : (w.addCode h c).js = w.js := by
  unfold World.addCode; split
  · rfl
  · split <;> rfl

/-- `create_account_checkpoint`: a handed-out checkpoint leaves the depth one higher, an error leaves it -/
theorem w_createCheckpoint_depth {w w1 : World} {caller a : Nat} {hs : Bool} {v spec : Nat}
    {r : Except Journal.CreateErr Journal.Checkpoint}
    (h : journalOps.createCheckpoint w caller a hs v spec = .ok (w1, r)) :
    (∀ cp, r = .ok cp → w1.js.depth = incU64 w.js.depth) ∧ (∀ err, r = .error err → w1.js.depth = w.js.depth) := by
  simp only [journalOps] at h
  obtain ⟨⟨js, r'⟩, h1, h2⟩ := bind_ok h
  simp only [pure, Except.pure, Except.ok.injEq, Prod.mk.injEq] at h2
  obtain ⟨rfl, rfl⟩ := h2
  have hd := Proofs.Frame.createAccountCheckpoint_depth (Proofs.EvmHost.ofOpt_ok h1)
  constructor
  · intro cp hr; subst hr; exact hd
  · intro err hr; subst hr; exact hd

/-! ## the `Host` -/

/-- nothing the interpreter asks the host moves the journal depth -/
theorem answer_depth {he : HostEnv} {w w1 : World} {op : Interp.HostOp} {resp : Interp.HostResp}
    (h : answer he w op = .ok (resp, w1)) : w1.js.depth = w.js.depth := by
  cases op with
  | keccak d => simp only [answer, pure, Except.pure, Except.ok.injEq, Prod.mk.injEq] at h; rw [← h.2]
  | balance a =>
    simp only [answer] at h
    obtain ⟨⟨w2, c⟩, h1, h⟩ := bind_ok h
    obtain ⟨acc, _, h⟩ := bind_ok h
    simp only [pure, Except.pure, Except.ok.injEq, Prod.mk.injEq] at h
    rw [← h.2]; exact w_loadAccount_depth h1
  | code a =>
    simp only [answer] at h
    obtain ⟨⟨w2, c⟩, h1, h⟩ := bind_ok h
    obtain ⟨acc, _, h⟩ := bind_ok h
    obtain ⟨hh, _, h⟩ := bind_ok h
    obtain ⟨bytes, _, h⟩ := bind_ok h
    simp only [pure, Except.pure, Except.ok.injEq, Prod.mk.injEq] at h
    rw [← h.2]; exact w_loadCode_depth h1
  | codeHash a =>
    simp only [answer] at h
    obtain ⟨⟨w2, c⟩, h1, h⟩ := bind_ok h
    obtain ⟨acc, _, h⟩ := bind_ok h
    split at h <;> simp only [pure, Except.pure, Except.ok.injEq, Prod.mk.injEq] at h <;>
      (rw [← h.2]; exact w_loadCode_depth h1)
  | blockHash n => simp only [answer, pure, Except.pure, Except.ok.injEq, Prod.mk.injEq] at h; rw [← h.2]
  | sload a k =>
    simp only [answer] at h
    obtain ⟨⟨js, v, c⟩, h1, h⟩ := bind_ok h
    simp only [pure, Except.pure, Except.ok.injEq, Prod.mk.injEq] at h
    rw [← h.2, Proofs.EvmHost.noteSlot_js]
    exact Proofs.Frame.sload_depth (Proofs.EvmHost.ofOpt_ok h1)
  | sstore a k v =>
    simp only [answer] at h
    obtain ⟨⟨js, o, p, n, c⟩, h1, h⟩ := bind_ok h
    simp only [pure, Except.pure, Except.ok.injEq, Prod.mk.injEq] at h
    rw [← h.2, Proofs.EvmHost.noteSlot_js]
    exact Proofs.Frame.sstore_depth (Proofs.EvmHost.ofOpt_ok h1)
  | tload a k => simp only [answer, pure, Except.pure, Except.ok.injEq, Prod.mk.injEq] at h; rw [← h.2]
  | tstore a k v =>
    simp only [answer] at h
    obtain ⟨js, h1, h⟩ := bind_ok h
    simp only [pure, Except.pure, Except.ok.injEq, Prod.mk.injEq] at h
    rw [← h.2]
    exact Proofs.Frame.tstore_depth (Proofs.EvmHost.ofOpt_ok h1)
  | log a t d =>
    simp only [answer, pure, Except.pure, Except.ok.injEq, Prod.mk.injEq] at h; rw [← h.2]; rfl
  | selfdestruct a t =>
    simp only [answer] at h
    obtain ⟨⟨js, x⟩, h1, h⟩ := bind_ok h
    simp only [pure, Except.pure, Except.ok.injEq, Prod.mk.injEq] at h
    rw [← h.2, Proofs.EvmHost.noteAddr_js]
    exact Proofs.Frame.selfdestruct_depth (Proofs.EvmHost.ofOpt_ok h1)
  | loadAccountDelegated a =>
    simp only [answer] at h
    obtain ⟨⟨w2, x⟩, h1, h⟩ := bind_ok h
    simp only [pure, Except.pure, Except.ok.injEq, Prod.mk.injEq] at h
    rw [← h.2]; exact w_loadAccountDelegated_depth h1

/-- the value part of `make_call_frame`, run inside the fresh checkpoint -/
def callValueStep (w : World) (i : Interp.CallInputs) : R (World × Option Interp.IResult) :=
  if i.valueTransfer then
    if i.value = 0 then do
      let (w, _) ← w.loadAccount i.targetAddress
      let w ← w.touch i.targetAddress
      pure (w, none)
    else do
      let (w, e) ← w.transfer i.caller i.targetAddress i.value
      match e with
      | none => pure (w, none)
      | some .outOfFunds => pure (w, some .OutOfFunds)
      | some .overflowPayment => pure (w, some .OverflowPayment)
  else pure (w, none)

/-- `make_call_frame` from `load_code` on -/
def callTail {κ : Type} (C : CpOps κ) (cfg : Cfg) (w : World) (cp : κ) (i : Interp.CallInputs)
    (mem : Memory.SharedMemory) : R (FrameOrResult κ × World) := do
  let (w, _) ← w.loadCode i.bytecodeAddress
  let acc ← w.acct i.bytecodeAddress
  let h ← ofOpt "code not cached" acc.info.code
  let bytecode ← ofOpt "code_by_hash" (w.codeOf h)
  if bytecode.isEmpty then
    return (.result (earlyResult .Stop i.gasLimit), C.commit w)
  let (w, bytecode) ← (match delegateOf bytecode with
    | some d => do
      let (w, _) ← w.loadCode d
      let dacc ← w.acct d
      let dh ← ofOpt "code not cached" dacc.info.code
      let dcode ← ofOpt "code_by_hash" (w.codeOf dh)
      pure (w, dcode)
    | none => pure (w, bytecode) : R (World × List Nat))
  let interp := Interp.IState.init bytecode i.input i.gasLimit i.isStatic cfg.spec i.targetAddress i.caller i.value
    cfg.env (Memory.newContext mem)
  pure (.frame { kind := .call i.retStart i.retEnd, checkpoint := cp, interp := interp }, w)

/-- the precompile part, then `callTail` -/
def callPrecompile {κ : Type} (C : CpOps κ) (cfg : Cfg) (w : World) (cp : κ) (i : Interp.CallInputs)
    (mem : Memory.SharedMemory) : R (FrameOrResult κ × World) := do
  if let some res ← runPrecompile w cfg.spec i.bytecodeAddress i.input i.gasLimit then
    match res with
    | .ok gasUsed out =>
      if gasUsed ≤ i.gasLimit then
        return (.result { result := .Return, output := out, gasRemaining := i.gasLimit - gasUsed, gasRefunded := 0 },
                C.commit w)
      else
        let w ← C.revert w cp
        return (.result (earlyResult .PrecompileOOG i.gasLimit), w)
    | .err e =>
      let w ← C.revert w cp
      return (.result (earlyResult (if e = .OutOfGas then .PrecompileOOG else .PrecompileError) i.gasLimit), w)
    | .panic => throw (.panic "precompile")
  callTail C cfg w cp i mem

/-- `make_call_frame` in stages -/
def makeCallFrameS {κ : Type} (C : CpOps κ) (cfg : Cfg) (w : World) (i : Interp.CallInputs)
    (mem : Memory.SharedMemory) : R (FrameOrResult κ × World) := do
  if w.js.depth > CALL_STACK_LIMIT then return (.result (earlyResult .CallTooDeep i.gasLimit), w)
  let (w, _) ← w.loadAccountDelegated i.bytecodeAddress
  let (w, cp) := C.checkpoint w
  let (w, failed) ← callValueStep w i
  if let some r := failed then
    let w ← C.revert w cp
    return (.result (earlyResult r i.gasLimit), w)
  callPrecompile C cfg w cp i mem

theorem makeCallFrame_staged {κ : Type} (C : CpOps κ) (cfg : Cfg) (w : World) (i : Interp.CallInputs)
    (mem : Memory.SharedMemory) : makeCallFrame C cfg w i mem = makeCallFrameS C cfg w i mem := by
  unfold makeCallFrame makeCallFrameS callPrecompile callTail callValueStep
  rfl

/-! ## depth of `make_call_frame` -/

theorem callValueStep_depth {w w1 : World} {i : Interp.CallInputs} {f} (h : callValueStep w i = .ok (w1, f)) :
    w1.js.depth = w.js.depth ∧ (∀ r, f = some r → r ≠ .CallTooDeep) := by
  unfold callValueStep at h
  split at h
  · split at h
    · obtain ⟨⟨w2, c⟩, h1, h⟩ := bind_ok h
      obtain ⟨w3, h2, h⟩ := bind_ok h
      simp only [pure, Except.pure, Except.ok.injEq, Prod.mk.injEq] at h
      obtain ⟨rfl, rfl⟩ := h
      exact ⟨by rw [w_touch_depth h2, w_loadAccount_depth h1], fun r hr => nomatch hr⟩
    · obtain ⟨⟨w2, e⟩, h1, h⟩ := bind_ok h
      have d := w_transfer_depth h1
      simp only at h
      split at h <;> simp only [pure, Except.pure, Except.ok.injEq, Prod.mk.injEq] at h <;> obtain ⟨rfl, rfl⟩ := h
      · exact ⟨d, fun r hr => nomatch hr⟩
      · exact ⟨d, fun r hr => by cases hr; decide⟩
      · exact ⟨d, fun r hr => by cases hr; decide⟩
  · simp only [pure, Except.pure, Except.ok.injEq, Prod.mk.injEq] at h
    obtain ⟨rfl, rfl⟩ := h
    exact ⟨rfl, fun r hr => nomatch hr⟩

/-- what a frame function leaves, from inside an open checkpoint at depth `d`: an immediate result closed the
checkpoint (and is not `CallTooDeep`), a frame keeps it open -/
def InnerOk (d : Nat) (fr : FrameOrResult Journal.Checkpoint) (d' : Nat) : Prop :=
  (∀ r, fr = .result r → d' = decU64 d ∧ r.result ≠ .CallTooDeep) ∧ (∀ f, fr = .frame f → d' = d)

theorem callTail_depth {cfg : Cfg} {w w' : World} {cp : Journal.Checkpoint} {i : Interp.CallInputs} {mem fr}
    (h : callTail journalOps cfg w cp i mem = .ok (fr, w')) : InnerOk w.js.depth fr w'.js.depth := by
  unfold callTail at h
  obtain ⟨⟨w1, c⟩, h1, h⟩ := bind_ok h
  have d1 := w_loadCode_depth h1
  obtain ⟨acc, _, h⟩ := bind_ok h
  obtain ⟨hh, _, h⟩ := bind_ok h
  obtain ⟨bytecode, _, h⟩ := bind_ok h
  split at h
  · simp only [pure, Except.pure, Except.ok.injEq, Prod.mk.injEq] at h
    obtain ⟨rfl, rfl⟩ := h
    refine ⟨fun r hr => ?_, fun f hf => nomatch hf⟩
    cases hr
    exact ⟨by show decU64 w1.js.depth = _; rw [d1], by show Interp.IResult.Stop ≠ _; decide⟩
  · obtain ⟨⟨w2, code2⟩, h2, h⟩ := bind_ok h
    simp only [pure, Except.pure, Except.ok.injEq, Prod.mk.injEq] at h
    obtain ⟨rfl, rfl⟩ := h
    refine ⟨fun r hr => (by cases hr), fun f _ => ?_⟩
    split at h2
    · obtain ⟨⟨w3, c3⟩, h3, h2⟩ := bind_ok h2
      obtain ⟨dacc, _, h2⟩ := bind_ok h2
      obtain ⟨dh, _, h2⟩ := bind_ok h2
      obtain ⟨dcode, _, h2⟩ := bind_ok h2
      simp only [pure, Except.pure, Except.ok.injEq, Prod.mk.injEq] at h2
      rw [← h2.1, w_loadCode_depth h3, d1]
    · simp only [pure, Except.pure, Except.ok.injEq, Prod.mk.injEq] at h2
      rw [← h2.1, d1]

theorem callPrecompile_depth {cfg : Cfg} {w w' : World} {cp : Journal.Checkpoint} {i : Interp.CallInputs} {mem fr}
    (h : callPrecompile journalOps cfg w cp i mem = .ok (fr, w')) : InnerOk w.js.depth fr w'.js.depth := by
  unfold callPrecompile at h
  obtain ⟨pc, _, h⟩ := bind_ok h
  cases pc with
  | none => exact callTail_depth h
  | some res =>
    simp only at h
    cases res with
    | ok gasUsed out =>
      simp only at h
      split at h
      · simp only [pure, Except.pure, Except.ok.injEq, Prod.mk.injEq] at h
        obtain ⟨rfl, rfl⟩ := h
        refine ⟨fun r hr => ?_, fun f hf => nomatch hf⟩
        cases hr; exact ⟨rfl, by show Interp.IResult.Return ≠ _; decide⟩
      · obtain ⟨w1, h1, h⟩ := bind_ok h
        simp only [pure, Except.pure, Except.ok.injEq, Prod.mk.injEq] at h
        obtain ⟨rfl, rfl⟩ := h
        refine ⟨fun r hr => ?_, fun f hf => nomatch hf⟩
        cases hr; exact ⟨w_revert_depth h1, by show Interp.IResult.PrecompileOOG ≠ _; decide⟩
    | err e =>
      simp only at h
      obtain ⟨w1, h1, h⟩ := bind_ok h
      simp only [pure, Except.pure, Except.ok.injEq, Prod.mk.injEq] at h
      obtain ⟨rfl, rfl⟩ := h
      refine ⟨fun r hr => ?_, fun f hf => nomatch hf⟩
      cases hr
      refine ⟨w_revert_depth h1, ?_⟩
      show (if e = Precompile.Err.OutOfGas then Interp.IResult.PrecompileOOG else .PrecompileError) ≠ .CallTooDeep
      split <;> decide
    | panic =>
      simp only at h
      obtain ⟨x, hx, _⟩ := bind_ok h
      cases hx

/-- **`make_call_frame` and the depth** (C07 `frame_depth_neutral_call`, `max_depth` on EvmFrame): an immediate result
leaves the journal depth as it was, and is `CallTooDeep` exactly when the depth exceeds `CALL_STACK_LIMIT`; an opened
frame leaves it one higher, and is opened only at depth ≤ `CALL_STACK_LIMIT` -/
theorem makeCallFrame_depth {cfg : Cfg} {w w' : World} {i : Interp.CallInputs} {mem fr}
    (h : makeCallFrame journalOps cfg w i mem = .ok (fr, w')) :
    (∀ r, fr = .result r → w'.js.depth = w.js.depth ∧ (r.result = .CallTooDeep ↔ w.js.depth > CALL_STACK_LIMIT)) ∧
    (∀ f, fr = .frame f → w'.js.depth = incU64 w.js.depth ∧ ¬ w.js.depth > CALL_STACK_LIMIT) := by
  rw [makeCallFrame_staged] at h
  unfold makeCallFrameS at h
  split at h
  · rename_i hd
    simp only [pure, Except.pure, Except.ok.injEq, Prod.mk.injEq] at h
    obtain ⟨rfl, rfl⟩ := h
    refine ⟨fun r hr => ?_, fun f hf => nomatch hf⟩
    cases hr
    exact ⟨rfl, fun _ => hd, fun _ => rfl⟩
  · rename_i hd
    obtain ⟨⟨w1, x⟩, h1, h⟩ := bind_ok h
    have d1 := w_loadAccountDelegated_depth h1
    simp only at h
    obtain ⟨⟨w2, failed⟩, h2, h⟩ := bind_ok h
    obtain ⟨d2, hne⟩ := callValueStep_depth h2
    have d2' : w2.js.depth = incU64 w.js.depth := by rw [d2, ← d1]; rfl
    have hdi := dec_inc w.js.depth
    cases failed with
    | some r0 =>
      simp only at h
      obtain ⟨w3, h3, h⟩ := bind_ok h
      simp only [pure, Except.pure, Except.ok.injEq, Prod.mk.injEq] at h
      obtain ⟨rfl, rfl⟩ := h
      refine ⟨fun r hr => ?_, fun f hf => nomatch hf⟩
      cases hr
      refine ⟨by rw [w_revert_depth h3, d2', hdi], fun hx => absurd hx (hne r0 rfl), fun hx => absurd hx hd⟩
    | none =>
      simp only at h
      obtain ⟨hr, hf⟩ := callPrecompile_depth h
      refine ⟨fun r hr' => ?_, fun f hf' => ?_⟩
      · obtain ⟨e1, e2⟩ := hr r hr'
        exact ⟨by rw [e1, d2', hdi], fun hx => absurd hx e2, fun hx => absurd hx hd⟩
      · exact ⟨by rw [hf f hf', d2'], hd⟩

end Revm.Proofs.EvmLink
