import Revm.Spec.Ether
/-! Proofs for C08 (ether conservation), part 1: the journal operations.
Pure lemmas about sums and the balance machine first, then the refinement
`Model/Journal.lean` operation ⊑ balance machine, then histories. -/
namespace Revm.Proofs.Ether
open Revm Revm.Model.Journal Revm.Spec.JournalAbs Revm.Spec.Ether

/-! ## sums -/

theorem upd_same (f : Addr → Nat) (a v) : upd f a v a = v := by simp [upd]
theorem upd_other (f : Addr → Nat) {a x : Addr} (v) (h : x ≠ a) : upd f a v x = f x := by simp [upd, h]

theorem sumOver_congr {L : List Addr} {f g : Addr → Nat} (h : ∀ a ∈ L, f a = g a) :
    sumOver L f = sumOver L g := by
  induction L with
  | nil => rfl
  | cons a L ih =>
    simp only [sumOver]
    rw [h a (List.mem_cons_self), ih (fun x hx => h x (List.mem_cons_of_mem _ hx))]

theorem sumOver_upd_notin {L : List Addr} (f : Addr → Nat) {a : Addr} (v) (h : a ∉ L) :
    sumOver L (upd f a v) = sumOver L f :=
  sumOver_congr (fun _ hx => upd_other f v (fun e => h (e ▸ hx)))

/-- changing one address of a duplicate-free list changes the sum by exactly that change -/
theorem sumOver_upd {L : List Addr} (f : Addr → Nat) {a : Addr} (v) (hn : L.Nodup) (h : a ∈ L) :
    sumOver L (upd f a v) + f a = sumOver L f + v := by
  induction L with
  | nil => cases h
  | cons b L ih =>
    have hb : b ∉ L := (List.nodup_cons.mp hn).1
    have hL : L.Nodup := (List.nodup_cons.mp hn).2
    simp only [sumOver]
    by_cases hab : a = b
    · subst hab
      rw [upd_same, sumOver_upd_notin f v hb]; omega
    · have : a ∈ L := by
        cases h with
        | head => exact absurd rfl hab
        | tail _ h => exact h
      have := ih hL this
      rw [upd_other f v (fun e => hab e.symm)]; omega

theorem le_sumOver {L : List Addr} (f : Addr → Nat) {a : Addr} (h : a ∈ L) : f a ≤ sumOver L f := by
  induction L with
  | nil => cases h
  | cons b L ih =>
    simp only [sumOver]
    cases h with
    | head => omega
    | tail _ h => have := ih h; omega

/-- two different members of a duplicate-free list together hold at most the sum -/
theorem two_le_sumOver {L : List Addr} (f : Addr → Nat) {a b : Addr} (hn : L.Nodup)
    (ha : a ∈ L) (hb : b ∈ L) (hab : a ≠ b) : f a + f b ≤ sumOver L f := by
  have h := sumOver_upd f 0 hn ha
  have h2 := le_sumOver (upd f a 0) hb
  rw [upd_other f 0 (fun e => hab e.symm)] at h2
  omega

/-! ## word arithmetic of the undo -/

theorem wadd_lt (a b : Nat) : U256.wadd a b < W := by
  unfold U256.wadd; exact Nat.mod_lt _ (by rw [W_val]; decide)

theorem wadd_eq {a b : Nat} (h : a + b < W) : U256.wadd a b = a + b := by
  unfold U256.wadd; exact Nat.mod_eq_of_lt h

theorem wadd_wrap {a b : Nat} (ha : a < W) (hb : b < W) (h : W ≤ a + b) : U256.wadd a b = a + b - W := by
  unfold U256.wadd
  rw [Nat.mod_eq_sub_mod h]; exact Nat.mod_eq_of_lt (by omega)

theorem bsub_lt {a b : Nat} (ha : a < W) : bsub a b < W := by
  unfold bsub; split <;> omega

theorem bsub_eq {a b : Nat} (h : b ≤ a) : bsub a b = a - b := by
  unfold bsub; simp [h]

theorem bsub_wadd_cancel {a v : Nat} (ha : a < W) (hv : v < W) : bsub (U256.wadd a v) v = a := by
  by_cases h : a + v < W
  · rw [wadd_eq h]; unfold bsub; split <;> omega
  · rw [wadd_wrap ha hv (by omega)]; unfold bsub; split <;> omega

theorem wadd_bsub_cancel {a v : Nat} (ha : a < W) (hv : v < W) : U256.wadd (bsub a v) v = a := by
  unfold bsub; split
  · rw [wadd_eq (by omega)]; omega
  · rw [wadd_wrap (by omega) hv (by omega)]; omega


/-! ## the balance machine: ledger of an undo -/

def FOk (f : Addr → Nat) : Prop := ∀ x, f x < W

theorem upd_ok {f : Addr → Nat} (hf : FOk f) (a) {v} (hv : v < W) : FOk (upd f a v) := by
  intro x; unfold upd; split
  · exact hv
  · exact hf x

theorem undoBal_ok {f : Addr → Nat} (hf : FOk f) (e : Entry) : FOk (undoBal f e) := by
  cases e <;> try exact hf
  case accountDestroyed a t wd had =>
    simp only [undoBal]
    have h1 : FOk (upd f a (U256.wadd (f a) had)) := upd_ok hf a (wadd_lt _ _)
    split
    · exact upd_ok h1 t (bsub_lt (h1 t))
    · exact h1
  case balanceTransfer src dst v =>
    simp only [undoBal]
    have h1 : FOk (upd f src (U256.wadd (f src) v)) := upd_ok hf src (wadd_lt _ _)
    exact upd_ok h1 dst (bsub_lt (h1 dst))

theorem undoAll_ok {f : Addr → Nat} (hf : FOk f) (es : List Entry) : FOk (undoAll f es) := by
  induction es generalizing f with
  | nil => exact hf
  | cons e es ih => exact ih (undoBal_ok hf e)

theorem undoAll_append (f : Addr → Nat) (xs ys : List Entry) :
    undoAll f (xs ++ ys) = undoAll (undoAll f xs) ys := by
  induction xs generalizing f with
  | nil => rfl
  | cons e es ih => exact ih _

theorem good_append {f : Addr → Nat} {xs ys : List Entry} :
    Good f (xs ++ ys) ↔ Good f xs ∧ Good (undoAll f xs) ys := by
  induction xs generalizing f with
  | nil => simp [Good, undoAll]
  | cons e es ih => simp only [List.cons_append, Good, undoAll, ih, and_assoc]

theorem burntJ_append (xs ys : List Entry) : burntJ (xs ++ ys) = burntJ xs + burntJ ys := by
  induction xs with
  | nil => simp [burntJ]
  | cons e es ih => simp only [List.cons_append, burntJ, ih]; omega

/-- the entries' values are words (they are balances or checked transfer values) -/
def ValOk : Entry → Prop
  | .balanceTransfer _ _ v => v < W
  | .accountDestroyed _ _ _ had => had < W
  | _ => True

/-- undoing an entry that does not wrap gives back exactly what the entry burnt -/
theorem noWrap_ledger {L : List Addr} (hn : L.Nodup) {f : Addr → Nat} (hf : FOk f) {e : Entry}
    (hin : ∀ a ∈ entryAddrs e, a ∈ L) (hv : ValOk e) (h : NoWrap f e) :
    sumOver L (undoBal f e) = sumOver L f + burntEntry e := by
  cases e
  case balanceTransfer src dst v =>
    simp only [undoBal, burntEntry]
    have hs : src ∈ L := hin src (by simp [entryAddrs])
    have hd : dst ∈ L := hin dst (by simp [entryAddrs])
    have e1 := sumOver_upd f (U256.wadd (f src) v) hn hs
    have e2 := sumOver_upd (upd f src (U256.wadd (f src) v)) (bsub (upd f src (U256.wadd (f src) v) dst) v) hn hd
    by_cases hsd : src = dst
    · subst hsd
      rw [upd_same] at e2 ⊢
      rw [bsub_wadd_cancel (hf src) hv] at e2 ⊢
      omega
    · rcases h with h | ⟨h1, h2⟩
      · exact absurd h hsd
      · rw [upd_other _ _ (fun e => hsd e.symm)] at e2 ⊢
        rw [wadd_eq h1] at e1 e2 ⊢
        rw [bsub_eq h2] at e2 ⊢
        omega
  case accountDestroyed a t wd had =>
    simp only [undoBal, burntEntry]
    have ha : a ∈ L := hin a (by simp [entryAddrs])
    have ht : t ∈ L := hin t (by simp [entryAddrs])
    obtain ⟨h1, h2⟩ := h
    have e1 := sumOver_upd f (U256.wadd (f a) had) hn ha
    rw [wadd_eq h1] at e1 ⊢
    by_cases hat : a = t
    · subst hat; simp only [ne_eq, not_true_eq_false, if_false, if_true]; omega
    · have e2 := sumOver_upd (upd f a (f a + had)) (bsub (upd f a (f a + had) t) had) hn ht
      simp only [ne_eq, hat, not_false_eq_true, if_true, if_false]
      rw [upd_other _ _ (fun e => hat e.symm)] at e2 ⊢
      rw [bsub_eq (h2 hat)] at e2 ⊢
      have := h2 hat
      omega
  all_goals simp [undoBal, burntEntry]

def ValsOk (es : List Entry) : Prop := ∀ e ∈ es, ValOk e

/-- ledger: what is left plus what the remaining entries burnt is what undoing everything restores -/
theorem good_ledger {L : List Addr} (hn : L.Nodup) {f : Addr → Nat} (hf : FOk f) {es : List Entry}
    (hin : EntriesIn L es) (hv : ValsOk es) (hg : Good f es) :
    sumOver L (undoAll f es) = sumOver L f + burntJ es := by
  induction es generalizing f with
  | nil => simp [undoAll, burntJ]
  | cons e es ih =>
    simp only [undoAll, burntJ]
    have h1 := noWrap_ledger hn hf (hin e (List.mem_cons_self)) (hv e (List.mem_cons_self)) hg.1
    have h2 := ih (undoBal_ok hf e) (fun x hx => hin x (List.mem_cons_of_mem _ hx))
      (fun x hx => hv x (List.mem_cons_of_mem _ hx)) hg.2
    omega

/-- invariant of the balance machine: `B` is the balance function that undoing the whole journal
restores (the state of the world when the journal was empty) -/
structure BInv (L : List Addr) (B : Addr → Nat) (b : BState) : Prop where
  ok : FOk b.f
  ein : EntriesIn L b.j
  vok : ValsOk b.j
  good : Good b.f b.j
  base : undoAll b.f b.j = B

/-- the conservation law in ledger form -/
theorem BInv.ledger {L B b} (hn : L.Nodup) (h : BInv L B b) : sumOver L b.f + burntJ b.j = sumOver L B := by
  have := good_ledger hn h.ok h.ein h.vok h.good
  rw [h.base] at this; omega

theorem BInv.push {L B b} (h : BInv L B b) {f' : Addr → Nat} {e : Entry} (hok : FOk f')
    (hin : ∀ a ∈ entryAddrs e, a ∈ L) (hv : ValOk e) (hnw : NoWrap f' e) (hrt : undoBal f' e = b.f) :
    BInv L B { f := f', j := e :: b.j } where
  ok := hok
  ein := fun x hx => by
    cases hx with
    | head => exact hin
    | tail _ hx => exact h.ein x hx
  vok := fun x hx => by
    cases hx with
    | head => exact hv
    | tail _ hx => exact h.vok x hx
  good := ⟨hnw, by rw [hrt]; exact h.good⟩
  base := by simp only [undoAll]; rw [hrt]; exact h.base

/-- a revert keeps the invariant, whatever is reverted -/
theorem BInv.revert {L B b} (h : BInv L B b) (n : Nat) : BInv L B (bRevert b n) where
  ok := undoAll_ok h.ok _
  ein := fun x hx => h.ein x (List.mem_of_mem_drop hx)
  vok := fun x hx => h.vok x (List.mem_of_mem_drop hx)
  good := by
    have := h.good
    rw [← List.take_append_drop n b.j, good_append] at this
    exact this.2
  base := by
    have := h.base
    rw [← List.take_append_drop n b.j, undoAll_append] at this
    exact this


/-! ## the operations of the balance machine keep the invariant -/

theorem bTransfer_ok_roundtrip {f : Addr → Nat} (hf : FOk f) {src dst v : Nat} (h1 : v ≤ f src)
    (h2 : upd f src (f src - v) dst + v < W) :
    let f1 := upd f src (f src - v)
    let f' := upd f1 dst (f1 dst + v)
    undoBal f' (.balanceTransfer src dst v) = f ∧ NoWrap f' (.balanceTransfer src dst v) ∧ FOk f' := by
  intro f1 f'
  have hs := hf src
  have hv : v < W := by omega
  by_cases hsd : src = dst
  · subst hsd
    have e1 : f' src = f src := by simp only [f', f1, upd_same]; omega
    refine ⟨?_, Or.inl rfl, ?_⟩
    · funext x
      simp only [undoBal, upd_same, e1, bsub_wadd_cancel hs hv]
      by_cases hx : x = src
      · subst hx; simp [upd]
      · simp [upd, hx, f', f1]
    · exact upd_ok (upd_ok hf _ (by omega)) _ (by simp only [f1, upd_same]; omega)
  · have e0 : f1 dst = f dst := upd_other _ _ (fun e => hsd e.symm)
    have e1 : f' src = f src - v := by simp only [f', f1]; rw [upd_other _ _ hsd, upd_same]
    have e2 : f' dst = f dst + v := by simp only [f']; rw [upd_same, e0]
    have h2' : f dst + v < W := by
      have := h2; rw [upd_other _ _ (fun e => hsd e.symm)] at this; exact this
    refine ⟨?_, Or.inr ⟨by omega, by omega⟩, ?_⟩
    · funext x
      simp only [undoBal]
      rw [upd_other _ _ (fun e => hsd e.symm), e1, e2, wadd_eq (by omega), bsub_eq (by omega)]
      by_cases hx : x = dst
      · subst hx; simp [upd]
      · by_cases hx2 : x = src
        · subst hx2; simp [upd, hx]; omega
        · simp [upd, hx, hx2, f', f1]
    · exact upd_ok (upd_ok hf _ (by omega)) _ (by rw [e0]; omega)

theorem fun_eq2 {f g : Addr → Nat} (a b : Addr) (ha : g a = f a) (hb : g b = f b)
    (h : ∀ x, x ≠ a → x ≠ b → g x = f x) : g = f := by
  funext x
  by_cases h1 : x = a
  · subst h1; exact ha
  · by_cases h2 : x = b
    · subst h2; exact hb
    · exact h x h1 h2

theorem wadd_zero_left {a : Nat} (h : a < W) : U256.wadd 0 a = a := by
  rw [wadd_eq (by omega)]; omega

/-- `selfdestruct`, target different from the destroyed account -/
theorem bSelfdestruct_other {L B b} (h : BInv L B b) {a t : Addr} (created cancun prev : Bool)
    (ha : a ∈ L) (ht : t ∈ L) (hat : a ≠ t) (hno : b.f t + b.f a < W) :
    BInv L B (bSelfdestruct b a t created cancun prev) := by
  have hfa := h.ok a
  have hta : t ≠ a := fun e => hat e.symm
  obtain ⟨f', hf'⟩ : ∃ f', f' = upd (upd b.f t (U256.wadd (b.f t) (b.f a))) a 0 := ⟨_, rfl⟩
  have e1 : f' a = 0 := by rw [hf']; exact upd_same _ _ _
  have e2 : f' t = b.f t + b.f a := by
    rw [hf', upd_other _ _ hta, upd_same, wadd_eq hno]
  have eo : ∀ x, x ≠ a → x ≠ t → f' x = b.f x := fun x h1 h2 => by
    rw [hf', upd_other _ _ h1, upd_other _ _ h2]
  have hok : FOk f' := hf' ▸ upd_ok (upd_ok h.ok _ (wadd_lt _ _)) _ (by rw [W_val]; decide)
  have hb1 : (upd b.f t (U256.wadd (b.f t) (b.f a))) a = b.f a := upd_other _ _ hat
  unfold bSelfdestruct
  simp only [ne_eq, hat, not_false_eq_true, if_true, hb1, ← hf']
  split
  · refine h.push hok ?_ hfa ⟨by rw [e1]; omega, fun _ => by rw [e2]; omega⟩ ?_
    · intro x hx; simp [entryAddrs] at hx; rcases hx with rfl | rfl <;> assumption
    · simp only [undoBal, ne_eq, hat, not_false_eq_true, if_true]
      apply fun_eq2 a t
      · rw [upd_other _ _ hat, upd_same, e1, wadd_zero_left hfa]
      · rw [upd_same, upd_other _ _ hta, e2, bsub_eq (by omega)]; omega
      · intro x h1 h2; rw [upd_other _ _ h2, upd_other _ _ h1, eo x h1 h2]
  · refine h.push hok ?_ hfa (Or.inr ⟨by rw [e1]; omega, by rw [e2]; omega⟩) ?_
    · intro x hx; simp [entryAddrs] at hx; rcases hx with rfl | rfl <;> assumption
    · simp only [undoBal]
      apply fun_eq2 a t
      · rw [upd_other _ _ hat, upd_same, e1, wadd_zero_left hfa]
      · rw [upd_same, upd_other _ _ hta, e2, bsub_eq (by omega)]; omega
      · intro x h1 h2; rw [upd_other _ _ h2, upd_other _ _ h1, eo x h1 h2]


/-- `transfer` keeps the invariant on every path -/
theorem bTransfer_inv {L B b} (h : BInv L B b) {src dst : Addr} (v : Nat) (hs : src ∈ L) (hd : dst ∈ L) :
    BInv L B (bTransfer b src dst v).1 := by
  unfold bTransfer
  split
  · exact h
  · rename_i h1
    simp only []
    split
    · exact h
    · rename_i h2
      have hv : v < W := by have := h.ok src; omega
      obtain ⟨r1, r2, r3⟩ := bTransfer_ok_roundtrip h.ok (src := src) (dst := dst) (v := v) (by omega) (by omega)
      refine h.push r3 ?_ hv r2 r1
      intro x hx; simp [entryAddrs] at hx; rcases hx with rfl | rfl <;> assumption

/-- a failing `transfer` changes nothing at all -/
theorem bTransfer_fail {b : BState} {src dst v : Nat} (h : (bTransfer b src dst v).2 ≠ .ok) :
    (bTransfer b src dst v).1 = b := by
  unfold bTransfer at h ⊢
  split
  · rfl
  · simp only [] at h ⊢
    split
    · rfl
    · rename_i h1 h2; simp [h1, h2] at h

/-- `selfdestruct` naming itself -/
theorem bSelfdestruct_self {L B b} (h : BInv L B b) {a : Addr} (created cancun prev : Bool) (ha : a ∈ L) :
    BInv L B (bSelfdestruct b a a created cancun prev) := by
  have hfa := h.ok a
  unfold bSelfdestruct
  simp only [ne_eq, not_true_eq_false, if_false]
  split
  · refine h.push (upd_ok h.ok _ (by rw [W_val]; decide)) ?_ hfa ⟨by rw [upd_same]; omega, fun hh => absurd rfl hh⟩ ?_
    · intro x hx; simp [entryAddrs] at hx; rcases hx with rfl; assumption
    · simp only [undoBal, ne_eq, not_true_eq_false, if_false]
      apply fun_eq2 a a
      · rw [upd_same, upd_same, wadd_zero_left hfa]
      · rw [upd_same, upd_same, wadd_zero_left hfa]
      · intro x h1 _; rw [upd_other _ _ h1, upd_other _ _ h1]
  · exact h

theorem bSelfdestruct_inv {L B b} (h : BInv L B b) {a t : Addr} (created cancun prev : Bool)
    (ha : a ∈ L) (ht : t ∈ L) (hno : a ≠ t → b.f t + b.f a < W) :
    BInv L B (bSelfdestruct b a t created cancun prev) := by
  by_cases hat : a = t
  · subst hat; exact bSelfdestruct_self h created cancun prev ha
  · exact bSelfdestruct_other h created cancun prev ha ht hat (hno hat)

/-- what `selfdestruct` does to the sum, exactly: the self-naming burn of a real destruction, and
2^256 wei lost when the wrapping `+=` on the target overflows -/
theorem bSelfdestruct_sum {L : List Addr} (hn : L.Nodup) {b : BState} (hok : FOk b.f) {a t : Addr}
    (created cancun prev : Bool) (ha : a ∈ L) (ht : t ∈ L) :
    sumOver L (bSelfdestruct b a t created cancun prev).f
      + (if a = t ∧ (created ∨ !cancun) then b.f a else 0)
      + (if a ≠ t ∧ W ≤ b.f t + b.f a then W else 0) = sumOver L b.f := by
  have hfa := hok a
  have hft := hok t
  by_cases hat : a = t
  · subst hat
    unfold bSelfdestruct
    simp only [ne_eq, not_true_eq_false, if_false, false_and, true_and]
    split
    · have := sumOver_upd b.f 0 hn ha
      simp only []; omega
    · simp
  · have hta : t ≠ a := fun e => hat e.symm
    have e1 := sumOver_upd b.f (U256.wadd (b.f t) (b.f a)) hn ht
    have e2 := sumOver_upd (upd b.f t (U256.wadd (b.f t) (b.f a))) 0 hn ha
    rw [upd_other _ _ hat] at e2
    have hf' : ∀ c : Bool, (bSelfdestruct b a t created cancun prev).f = upd (upd b.f t (U256.wadd (b.f t) (b.f a))) a 0 := by
      intro _; unfold bSelfdestruct
      simp only [ne_eq, hat, not_false_eq_true, if_true]
      split <;> rfl
    rw [hf' true]
    simp only [hat, false_and, if_false, ne_eq, not_false_eq_true, true_and]
    by_cases hov : W ≤ b.f t + b.f a
    · rw [wadd_wrap hft hfa hov] at e1 e2 ⊢; simp only [hov, if_true]; omega
    · rw [wadd_eq (by omega)] at e1 e2 ⊢; simp only [hov, if_false]; omega

/-- `create_account_checkpoint`, success path, funded caller -/
theorem bCreateOk_inv {L B b} (h : BInv L B b) {caller a : Addr} {v : Nat} (hc : caller ∈ L) (ha : a ∈ L)
    (hnew : b.f a + v < W) (hfund : caller = a ∨ v ≤ b.f caller) : BInv L B (bCreateOk b caller a v) := by
  have hfa := h.ok a
  have hfc := h.ok caller
  have hv : v < W := by omega
  unfold bCreateOk
  show BInv L B { f := upd (upd b.f a (b.f a + v)) caller (bsub (upd b.f a (b.f a + v) caller) v),
                  j := .balanceTransfer caller a v :: b.j }
  have hin : ∀ x ∈ entryAddrs (.balanceTransfer caller a v), x ∈ L := by
    intro x hx; simp [entryAddrs] at hx; rcases hx with rfl | rfl <;> assumption
  by_cases hca : caller = a
  · subst hca
    simp only [upd_same]
    have hb : bsub (b.f caller + v) v = b.f caller := by rw [bsub_eq (by omega)]; omega
    rw [hb]
    refine h.push (upd_ok (upd_ok h.ok _ hnew) _ hfc) hin hv (Or.inl rfl) ?_
    simp only [undoBal, upd_same]
    rw [bsub_wadd_cancel hfc hv]
    apply fun_eq2 caller caller (upd_same _ _ _) (upd_same _ _ _)
    intro x h1 _; rw [upd_other _ _ h1, upd_other _ _ h1, upd_other _ _ h1, upd_other _ _ h1]
  · have hac : a ≠ caller := fun e => hca e.symm
    have hle : v ≤ b.f caller := by rcases hfund with h1 | h1; exact absurd h1 hca; exact h1
    rw [upd_other _ _ hca, bsub_eq hle]
    refine h.push (upd_ok (upd_ok h.ok _ hnew) _ (by omega)) hin hv
      (Or.inr ⟨by rw [upd_same]; omega, by rw [upd_other _ _ hac, upd_same]; omega⟩) ?_
    simp only [undoBal, upd_same]
    rw [upd_other _ _ hac, upd_other _ _ hac, upd_same, wadd_eq (by omega), bsub_eq (by omega)]
    apply fun_eq2 caller a
    · rw [upd_other _ _ hca, upd_same]; omega
    · rw [upd_same]; omega
    · intro x h1 h2; rw [upd_other _ _ h2, upd_other _ _ h1, upd_other _ _ h1, upd_other _ _ h2]

/-- the wrapping subtraction on the caller: an endowment the caller cannot pay *mints* 2^256 wei.
This is why `make_create_frame` checks the caller's balance first. -/
theorem bCreateOk_unfunded_mints {L : List Addr} (hn : L.Nodup) {b : BState} {caller a : Addr} {v : Nat}
    (hc : caller ∈ L) (ha : a ∈ L) (hca : caller ≠ a) (hv : v < W) (hlt : b.f caller < v) :
    sumOver L (bCreateOk b caller a v).f = sumOver L b.f + W := by
  unfold bCreateOk
  simp only []
  have e1 := sumOver_upd b.f (b.f a + v) hn ha
  have e2 := sumOver_upd (upd b.f a (b.f a + v)) (bsub (upd b.f a (b.f a + v) caller) v) hn hc
  rw [upd_other _ _ hca] at e2 ⊢
  have : bsub (b.f caller) v = W - (v - b.f caller) := by unfold bsub; rw [if_neg (by omega)]
  rw [this] at e2 ⊢
  omega

end Revm.Proofs.Ether
