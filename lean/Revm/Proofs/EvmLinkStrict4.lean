import Revm.Proofs.EvmLinkStrict3
import Revm.Proofs.EvmLinkKeep4
/-! LINK, frame accounting and static mode, part 4: the instructions that ask the host, the call / create family with
its gas accounting (`remaining + child's gas limit ≤ remaining before the instruction`, the CALL stipend included), and
`Interp.step`. -/
set_option linter.unusedSimpArgs false
set_option linter.unusedVariables false
namespace Revm.Proofs.EvmLink
open Revm Revm.Model Revm.Model.Interp

attribute [local irreducible] gasCharge getS check requireNonStatic requireEof requireInitEof requireSome assumeNotEof
  gasOrFail refund advancePc setEof popN popTop setTop push stackCall stackCallAdv asUsizeOrFail resizeMem memSlice
  memSliceRange memGetU256 memSetU256 memSetByte memSetData memCopy codeSlice codeByte jumpRel getEof loadEofCode
  haltWith haltOut faultWith modifyS liftMemWrite pop1 pop2 pop3 pop4 popAddress popTop1 popTop2 popTop3 readU16 readI16

/-- what one resolved instruction does to its frame: `is_static` and the gas limit stay, gas is only spent, and an
action has paid for the gas it gives the child -/
inductive SDone (s : IState) : Done → Prop
  | next {s'} (h : Kept s s') (hg : s'.gas.remaining + 1 ≤ s.gas.remaining) : SDone s (.next s')
  | halt {r o s'} (h : Kept s s') (hr : RGood r) : SDone s (.halt r o s')
  | fault {f} : SDone s (.fault f)
  | action {a s'} (h : Kept s s') (hg : s'.gas.remaining + a.gasLimit + 1 ≤ s.gas.remaining) : SDone s (.action a s')

inductive SOutcome (s : IState) : Outcome → Prop
  | pure {d} (h : SDone s d) : SOutcome s (.pure d)
  | host {op k} (h : ∀ r : HostResp, r.ok = true → SDone s (k r)) : SOutcome s (.host op k)

section
variable {fl : Bool} {s0 s : IState}

theorem toDone_strict {e : Exec Unit} (h : SKeep true s0 T e) : SDone s0 e.toDone := by
  cases h with
  | ok h _ => exact .next h.toKept (h.strict rfl)
  | halt h hr => exact .halt h.toKept hr
  | fault => exact .fault

/-- the postcondition of a handler that hands out an action -/
abbrev SPaid (s0 : IState) : Action → IState → Prop := fun a s' => s'.gas.remaining + a.gasLimit + 1 ≤ s0.gas.remaining
abbrev SPaidOpt (s0 : IState) : Option Action → IState → Prop :=
  fun a s' => ∀ x, a = some x → s'.gas.remaining + x.gasLimit + 1 ≤ s0.gas.remaining

theorem toDoneAction_strict {e : Exec Action} (h : SKeep fl s0 (SPaid s0) e) : SDone s0 e.toDoneAction := by
  cases h with
  | ok h hq => exact .action h.toKept hq
  | halt h hr => exact .halt h.toKept hr
  | fault => exact .fault

theorem toDoneOptAction_strict {e : Exec (Option Action)} (h : SKeep true s0 (SPaidOpt s0) e) :
    SDone s0 e.toDoneOptAction := by
  cases h with
  | @ok a s' h hq =>
    cases a with
    | none => exact .next h.toKept (h.strict rfl)
    | some x => exact .action h.toKept (hq x rfl)
  | halt h hr => exact .halt h.toKept hr
  | fault => exact .fault

theorem hostCall_strict {β} {pre : M (HostOp × β)} {post : β → HostResp → M Unit}
    (hpre : SKeep fl s0 T (pre s0)) (hpost : ∀ b (r : HostResp) s', r.ok = true → KeptB fl s0 s' → SKeep true s0 T (post b r s')) :
    SOutcome s0 (hostCall pre post s0) := by
  unfold hostCall
  cases hp : pre s0 with
  | ok p s' =>
    obtain ⟨op, b⟩ := p
    rw [hp] at hpre
    cases hpre with
    | ok hk _ => exact .host (fun r hr => toDone_strict (hpost b r s' hr hk))
  | halt r o s' => rw [hp] at hpre; cases hpre with | halt hk hr => exact .pure (.halt hk.toKept hr)
  | fault f => exact .pure .fault

theorem hostCallAction_strict {β} {pre : M (HostOp × β)} {post : β → HostResp → M Action}
    {fl' : Bool} (hpre : SKeep fl s0 T (pre s0)) (hpost : ∀ b (r : HostResp) s', r.ok = true → KeptB fl s0 s' → SKeep fl' s0 (SPaid s0) (post b r s')) :
    SOutcome s0 (hostCallAction pre post s0) := by
  unfold hostCallAction
  cases hp : pre s0 with
  | ok p s' =>
    obtain ⟨op, b⟩ := p
    rw [hp] at hpre
    cases hpre with
    | ok hk _ => exact .host (fun r hr => toDoneAction_strict (hpost b r s' hr hk))
  | halt r o s' => rw [hp] at hpre; cases hpre with | halt hk hr => exact .pure (.halt hk.toKept hr)
  | fault f => exact .pure .fault

theorem hostCallOptAction_strict {β} {pre : M (HostOp × β)} {post : β → HostResp → M (Option Action)}
    (hpre : SKeep fl s0 T (pre s0)) (hpost : ∀ b (r : HostResp) s', r.ok = true → KeptB fl s0 s' → SKeep true s0 (SPaidOpt s0) (post b r s')) :
    SOutcome s0 (hostCallOptAction pre post s0) := by
  unfold hostCallOptAction
  cases hp : pre s0 with
  | ok p s' =>
    obtain ⟨op, b⟩ := p
    rw [hp] at hpre
    cases hpre with
    | ok hk _ => exact .host (fun r hr => toDoneOptAction_strict (hpost b r s' hr hk))
  | halt r o s' => rw [hp] at hpre; cases hpre with | halt hk hr => exact .pure (.halt hk.toKept hr)
  | fault f => exact .pure .fault

/-! ## the reading / writing host instructions -/

theorem sk_keccakPre (h : KeptB fl s0 s) : SKeep true s0 T (keccakPre s) := by unfold keccakPre; sk_auto

theorem keccak256I_strict (s : IState) : SOutcome s (keccak256I s) := by
  unfold keccak256I
  have hk := sk_keccakPre (KeptB.refl s)
  generalize keccakPre s = e at hk
  cases hk with
  | @ok d s' hk' _ =>
    cases d with
    | none => exact .pure (toDone_strict (sk_setTop hk' _))
    | some data => exact .host (fun r _ => toDone_strict (sk_setTop hk' _))
  | halt hk' hr => exact .pure (.halt hk'.toKept hr)
  | fault => exact .pure .fault

theorem balanceI_strict (s : IState) : SOutcome s (balanceI s) := by
  unfold balanceI
  have h := KeptB.refl s
  refine hostCall_strict (fl := ?fl) ?_ (fun b r s' hrok h => ?_) <;> sk_auto
theorem selfbalanceI_strict (s : IState) : SOutcome s (selfbalanceI s) := by
  unfold selfbalanceI
  have h := KeptB.refl s
  refine hostCall_strict (fl := ?fl) ?_ (fun b r s' hrok h => ?_) <;> sk_auto
theorem extcodesizeI_strict (s : IState) : SOutcome s (extcodesizeI s) := by
  unfold extcodesizeI
  have h := KeptB.refl s
  refine hostCall_strict (fl := ?fl) ?_ (fun b r s' hrok h => ?_) <;> sk_auto
theorem extcodehashI_strict (s : IState) : SOutcome s (extcodehashI s) := by
  unfold extcodehashI
  have h := KeptB.refl s
  refine hostCall_strict (fl := ?fl) ?_ (fun b r s' hrok h => ?_) <;> sk_auto
theorem extcodecopyI_strict (s : IState) : SOutcome s (extcodecopyI s) := by
  unfold extcodecopyI
  have h := KeptB.refl s
  refine hostCall_strict (fl := ?fl) ?_ (fun b r s' hrok h => ?_) <;> sk_auto
theorem blockhashI_strict (s : IState) : SOutcome s (blockhashI s) := by
  unfold blockhashI
  have h := KeptB.refl s
  refine hostCall_strict (fl := ?fl) ?_ (fun b r s' hrok h => ?_) <;> sk_auto
theorem sloadI_strict (s : IState) : SOutcome s (sloadI s) := by
  unfold sloadI
  have h := KeptB.refl s
  refine hostCall_strict (fl := ?fl) ?_ (fun b r s' hrok h => ?_) <;> sk_auto
theorem sstoreI_strict (s : IState) : SOutcome s (sstoreI s) := by
  unfold sstoreI
  have h := KeptB.refl s
  refine hostCall_strict (fl := ?fl) ?_ (fun b r s' hrok h => ?_) <;> sk_auto
theorem tstoreI_strict (s : IState) : SOutcome s (tstoreI s) := by
  unfold tstoreI
  have h := KeptB.refl s
  refine hostCall_strict (fl := ?fl) ?_ (fun b r s' hrok h => ?_) <;> sk_auto
theorem tloadI_strict (s : IState) : SOutcome s (tloadI s) := by
  unfold tloadI
  have h := KeptB.refl s
  refine hostCall_strict (fl := ?fl) ?_ (fun b r s' hrok h => ?_) <;> sk_auto
theorem logI_strict (n : Nat) (s : IState) : SOutcome s (logI n s) := by
  unfold logI
  have h := KeptB.refl s
  refine hostCall_strict (fl := ?fl) ?_ (fun b r s' hrok h => ?_) <;> sk_auto
theorem selfdestructI_strict (s : IState) : SOutcome s (selfdestructI s) := by
  unfold selfdestructI
  have h := KeptB.refl s
  refine hostCall_strict (fl := ?fl) ?_ (fun b r s' hrok h => ?_) <;> sk_auto

end
end Revm.Proofs.EvmLink
