import Revm.Model.OpFees
import Revm.Spec.OpFees
import Revm.Proofs.Gas
/-! Lemmas for C33 (core Lean only): word arithmetic without saturation, the operator fee (monotone,
rounding), the L1 cost cache, the gas pipeline `last_frame_return → refund → floor`. -/
set_option linter.unusedSimpArgs false
set_option linter.unusedVariables false
namespace Revm.Proofs.OpFees
open Revm Revm.U256 Revm.Model.Gas Revm.Model.OpFees
open Revm.Proofs.Gas (wsub_of_le wadd_of_lt)

/-! ### word operations where nothing overflows -/

theorem wadd_eq (a b : Nat) (h : a + b < W) : wadd a b = a + b := by
  unfold wadd; exact Nat.mod_eq_of_lt h
theorem wmul_eq (a b : Nat) (h : a * b < W) : wmul a b = a * b := by
  unfold wmul; exact Nat.mod_eq_of_lt h
theorem satAdd_eq (a b : Nat) (h : a + b < W) : saturatingAdd a b = a + b := by
  unfold saturatingAdd; simp [h]
theorem satMul_eq (a b : Nat) (h : a * b < W) : saturatingMul a b = a * b := by
  unfold saturatingMul; simp [h]
theorem satSub_eq (a b : Nat) : saturatingSub a b = a - b := rfl

theorem satMul_le (a b : Nat) : saturatingMul a b ≤ a * b ∨ saturatingMul a b = W - 1 := by
  unfold saturatingMul; split <;> simp

theorem satMul_mono (a b c : Nat) (h : a ≤ b) : saturatingMul a c ≤ saturatingMul b c := by
  have hm : a * c ≤ b * c := Nat.mul_le_mul_right c h
  unfold saturatingMul
  by_cases h1 : b * c < W
  · have h2 : a * c < W := Nat.lt_of_le_of_lt hm h1
    simp [h1, h2, hm]
  · by_cases h2 : a * c < W
    · simp [h1, h2]; omega
    · simp [h1, h2]

theorem satAdd_mono (a b c : Nat) (h : a ≤ b) : saturatingAdd a c ≤ saturatingAdd b c := by
  unfold saturatingAdd
  by_cases h1 : b + c < W
  · have h2 : a + c < W := by omega
    simp [h1, h2]; omega
  · by_cases h2 : a + c < W
    · simp [h1, h2]; omega
    · simp [h1, h2]

/-! ### operator fee -/

/-- the charge is monotone in the gas amount, saturation included -/
theorem opCharge_mono (s c g1 g2 : Nat) (h : g1 ≤ g2) : opCharge s c g1 ≤ opCharge s c g2 := by
  unfold opCharge wdiv
  apply satAdd_mono
  exact Nat.div_le_div_right (satMul_mono g1 g2 s h)

theorem opCharge_exact (s c g : Nat) (h1 : g * s < W) (h2 : g * s / 1000000 + c < W) :
    opCharge s c g = g * s / 1000000 + c := by
  unfold opCharge wdiv
  rw [satMul_eq _ _ h1, satAdd_eq _ _ h2]

theorem operatorFeeCharge_cache (info : L1Info) (x : Option Nat) (g spec : Nat) :
    operatorFeeCharge { info with txL1Cost := x } g spec = operatorFeeCharge info g spec := rfl

theorem operatorFeeCharge_mono (info : L1Info) (g1 g2 spec a b : Nat) (h : g1 ≤ g2)
    (h1 : operatorFeeCharge info g1 spec = some a) (h2 : operatorFeeCharge info g2 spec = some b) : a ≤ b := by
  unfold operatorFeeCharge at h1 h2
  by_cases hi : enabled spec ISTHMUS = true
  · simp only [hi, Bool.not_true] at h1 h2
    cases hs : info.operatorFeeScalar <;> cases hc : info.operatorFeeConstant <;> simp_all
    subst h1 h2; exact opCharge_mono _ _ _ _ h
  · simp only [hi] at h1 h2; simp_all

/-- once it is defined for one gas amount it is defined for every gas amount -/
theorem operatorFeeCharge_total (info : L1Info) (g1 g2 spec a : Nat)
    (h1 : operatorFeeCharge info g1 spec = some a) : ∃ b, operatorFeeCharge info g2 spec = some b := by
  unfold operatorFeeCharge at h1 ⊢
  by_cases hi : enabled spec ISTHMUS = true
  · simp only [hi, Bool.not_true] at h1 ⊢
    cases hs : info.operatorFeeScalar <;> cases hc : info.operatorFeeConstant <;> simp_all
  · simp only [hi]; simp

/-! ### the L1 cost cache -/

theorem calculateTxL1Cost_idem (info : L1Info) (env : List Nat) (spec : Nat) :
    calculateTxL1Cost (calculateTxL1Cost info env spec).2 env spec = calculateTxL1Cost info env spec := by
  unfold calculateTxL1Cost
  cases h : info.txL1Cost with
  | some c => simp [h]
  | none =>
    by_cases he : zeroCostEnvelope env = true
    · simp [h, he]
    · simp [h, he]

theorem calculateTxL1Cost_op (info : L1Info) (env : List Nat) (spec g : Nat) :
    operatorFeeCharge (calculateTxL1Cost info env spec).2 g spec = operatorFeeCharge info g spec := by
  unfold calculateTxL1Cost
  cases h : info.txL1Cost with
  | some c => simp [h]
  | none =>
    by_cases he : zeroCostEnvelope env = true
    · simp [h, he]
    · simp [h, he]; rfl

/-- with an empty cache (what `try_fetch` returns and `clear` restores) the cost is a function of the
envelope, the fork and the L1 parameters only -/
theorem calculateTxL1Cost_fresh (info : L1Info) (env : List Nat) (spec : Nat) (h : info.txL1Cost = none) :
    (calculateTxL1Cost info env spec).1 =
      if zeroCostEnvelope env then 0 else l1CostFresh info env spec := by
  unfold calculateTxL1Cost
  by_cases he : zeroCostEnvelope env = true
  · simp [h, he]
  · simp [h, he]

theorem tryFetch_cache (s : Slots) (spec : Nat) : (tryFetch s spec).txL1Cost = none := by
  unfold tryFetch
  by_cases h1 : (!enabled spec ECOTONE) = true
  · simp only [h1, if_true]; rfl
  · by_cases h2 : enabled spec ISTHMUS = true
    · simp [h1, h2]
    · simp [h1, h2]

/-! ### gas -/

/-- what the handler's balance steps need to know about the final `Gas` -/
structure GoodGas (g : Gas) : Prop where
  lim : g.limit < U64
  ref0 : 0 ≤ g.refunded
  sum : g.refunded.toNat + g.remaining ≤ g.limit

theorem i64AsU64_of_nonneg (x : Int) (h0 : 0 ≤ x) (h1 : x < (U64 : Int)) : i64AsU64 x = x.toNat := by
  unfold i64AsU64
  rw [Int.emod_eq_of_lt h0 h1]

theorem GoodGas.refU64 {g : Gas} (h : GoodGas g) : i64AsU64 g.refunded = g.refunded.toNat := by
  have := h.lim; have := h.sum; have := h.ref0
  apply i64AsU64_of_nonneg _ h.ref0
  omega

theorem GoodGas.spent {g : Gas} (h : GoodGas g) : spent g = g.limit - g.remaining := by
  have := h.sum
  unfold Revm.Model.Gas.spent
  exact wsub_of_le _ _ h.lim (by omega)

theorem GoodGas.used {g : Gas} (h : GoodGas g) : usedGas g = g.limit - g.remaining - g.refunded.toNat := by
  have := h.sum; have := h.lim
  unfold usedGas
  rw [h.spent, h.refU64]
  exact wsub_of_le _ _ (by omega) (by omega)

theorem GoodGas.back {g : Gas} (h : GoodGas g) :
    U64ops.wadd g.remaining (i64AsU64 g.refunded) = g.remaining + g.refunded.toNat := by
  have := h.sum; have := h.lim
  rw [h.refU64]
  exact wadd_of_lt _ _ (by omega)

theorem GoodGas.split {g : Gas} (h : GoodGas g) :
    g.limit = usedGas g + (g.remaining + g.refunded.toNat) := by
  have := h.sum
  rw [h.used]; omega


/-! ### the gas pipeline produces a `GoodGas` for every frame result -/

theorem wadd_zero_left (r : Nat) (h : r < U64) : U64ops.wadd 0 r = r := by
  unfold U64ops.wadd; simp; exact Nat.mod_eq_of_lt h

theorem i64WrapAdd_zero_zero : i64WrapAdd 0 0 = 0 := by decide

theorem lastFrameReturn_limit (tx : Tx) (fr : Frame) : (lastFrameReturn tx fr).limit = tx.gasLimit := by
  unfold lastFrameReturn
  cases fr.cls <;> simp only [] <;> (repeat' split) <;> rfl

theorem lastFrameReturn_remaining (tx : Tx) (fr : Frame) (hl : tx.gasLimit < U64)
    (hr : fr.remaining ≤ tx.gasLimit) : (lastFrameReturn tx fr).remaining ≤ tx.gasLimit := by
  have h1 : U64ops.wadd 0 fr.remaining = fr.remaining := wadd_zero_left _ (by omega)
  have h2 : U64ops.wadd 0 tx.gasLimit = tx.gasLimit := wadd_zero_left _ hl
  unfold lastFrameReturn
  cases fr.cls <;> simp only [] <;> (repeat' split) <;>
    simp only [eraseCost, recordRefund, newSpent, h1, h2] <;> omega

theorem lastFrameReturn_refunded (tx : Tx) (fr : Frame)
    (h : (tx.isDeposit && !enabled tx.spec REGOLITH) = true) : (lastFrameReturn tx fr).refunded = 0 := by
  have hd : tx.isDeposit = true := by revert h; cases tx.isDeposit <;> simp
  have hr : enabled tx.spec REGOLITH = false := by revert h; cases enabled tx.spec REGOLITH <;> simp [hd]
  unfold lastFrameReturn
  cases fr.cls <;> simp only [hd, hr] <;> (repeat' split) <;> first | rfl | simp_all

theorem finalGas_good (tx : Tx) (fr : Frame) (hl : tx.gasLimit < U64) (hr : fr.remaining ≤ tx.gasLimit) :
    GoodGas (finalGas tx fr) ∧ (finalGas tx fr).limit = tx.gasLimit := by
  have hlim := lastFrameReturn_limit tx fr
  have hrem := lastFrameReturn_remaining tx fr hl hr
  -- after `refund`
  have h2 : GoodGas (refundStep tx (lastFrameReturn tx fr) 0) ∧
      (refundStep tx (lastFrameReturn tx fr) 0).limit = tx.gasLimit := by
    unfold refundStep
    by_cases hb : (tx.isDeposit && !enabled tx.spec REGOLITH) = true
    · have h0 := lastFrameReturn_refunded tx fr hb
      simp only [hb, Bool.not_true, Bool.false_eq_true, if_false]
      refine ⟨⟨?_, ?_, ?_⟩, ?_⟩
      · show (lastFrameReturn tx fr).limit < U64; omega
      · show 0 ≤ i64WrapAdd (lastFrameReturn tx fr).refunded 0
        rw [h0, i64WrapAdd_zero_zero]; exact Int.le_refl _
      · show (i64WrapAdd (lastFrameReturn tx fr).refunded 0).toNat + (lastFrameReturn tx fr).remaining ≤ (lastFrameReturn tx fr).limit
        rw [h0, i64WrapAdd_zero_zero]; simp; omega
      · exact hlim
    · simp only [hb, Bool.not_false, if_true]
      generalize hg : recordRefund (lastFrameReturn tx fr) 0 = g1
      have hl1 : g1.limit = tx.gasLimit := by rw [← hg]; exact hlim
      have hr1 : g1.remaining ≤ tx.gasLimit := by rw [← hg]; exact hrem
      have hb := Revm.Proofs.Gas.setFinalRefund_bounds g1 (enabled tx.spec LONDON)
      have hs : spent g1 = g1.limit - g1.remaining := Revm.Proofs.Gas.spent_eq g1 (by omega) (by unfold MeterInv; omega)
      refine ⟨⟨?_, hb.1, ?_⟩, ?_⟩
      · show g1.limit < U64; omega
      · show (setFinalRefund g1 (enabled tx.spec LONDON)).refunded.toNat + g1.remaining ≤ g1.limit
        have h3 := hb.2
        rw [hs] at h3
        have h4 : (g1.limit - g1.remaining) / (if enabled tx.spec LONDON = true then 5 else 2) ≤ g1.limit - g1.remaining :=
          Nat.div_le_self _ _
        generalize (g1.limit - g1.remaining) / (if enabled tx.spec LONDON = true then 5 else 2) = q at h3 h4
        have := hb.1
        omega
      · show g1.limit = tx.gasLimit; exact hl1
  unfold finalGas floorStep
  split
  · refine ⟨⟨?_, ?_, ?_⟩, ?_⟩
    · show (refundStep tx (lastFrameReturn tx fr) 0).limit < U64; omega
    · exact Int.le_refl _
    · show (0 : Int).toNat + U64ops.saturatingSub (refundStep tx (lastFrameReturn tx fr) 0).limit _ ≤
        (refundStep tx (lastFrameReturn tx fr) 0).limit
      unfold U64ops.saturatingSub; simp
    · exact h2.2
  · exact h2

end Revm.Proofs.OpFees
