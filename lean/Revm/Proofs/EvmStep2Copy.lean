import Revm.Proofs.EvmStep2Prim
/-! (b) CALLDATALOAD, CALLDATACOPY, CODECOPY, RETURNDATACOPY: `Interp.step` is the rule of `Spec/EvmRules2.lean`. -/
set_option linter.unusedSimpArgs false
set_option linter.unusedVariables false
namespace Revm.Proofs.EvmStep2
open Revm Revm.Model Revm.Model.Interp
open Revm.Model.GasCalc (enabled)
open Revm.Spec.EvmRules Revm.Spec.EvmRules2
open Revm.Spec.GasCalc (ceil32 memCost)
open Revm.Proofs.EvmStep

/-- `as_usize_saturated!` on the data offset reads the same bytes as the unbounded offset: both lie behind the end of any
Rust slice once they differ -/
theorem paddedSlice_sat (data : List Nat) (d len : Nat) (hd : data.length ≤ Memory.ISIZE_MAX) :
    Spec.Memory.paddedSlice data (asUsizeSat d) len = Spec.Memory.paddedSlice data d len := by
  have hI := Proofs.Memory.isize_lt_u64
  unfold asUsizeSat U256.asU64Sat
  by_cases h : d < U64
  · rw [if_pos h]
  · rw [if_neg h]
    unfold Spec.Memory.paddedSlice
    rw [List.drop_of_length_le (by omega), List.drop_of_length_le (by omega)]

theorem asUsizeSat_lt (v : Nat) : asUsizeSat v < U64 := by
  unfold asUsizeSat U256.asU64Sat
  have hU := U64_val
  split <;> omega

theorem copyToMem_eq (data : IState → List Nat) (guard : M Unit) (s : IState) (h : MemOK s)
    (hw : ∀ w ∈ s.stack, w < W) (hd : (data s).length ≤ Memory.ISIZE_MAX)
    (hinv : ∀ a b : IState, a.input = b.input → a.code = b.code → a.origLen = b.origLen → data a = data b)
    (hguard : ∀ s' : IState, s'.isEof = s.isEof → guard s' = .ok () s') :
    (copyToMem data guard s).toDone =
      match s.stack.reverse with
      | memOff :: dataOff :: len :: rest =>
        let s1 := { s with stack := rest.reverse }
        if U64 ≤ len then .halt .InvalidOperandOOG [] s1
        else needGas s1 (Spec.GasCalc.copyCost len) fun s2 =>
          if len = 0 then .next s2
          else if U64 ≤ memOff then .halt .InvalidOperandOOG [] s2
          else memAccess s2 memOff len fun s3 =>
            .next (setMem s3 (store (memOf s3) memOff (Spec.Memory.paddedSlice (data s) dataOff len)))
      | _ => .halt .StackUnderflow [] s := by
  unfold copyToMem
  rcases hrev : s.stack.reverse with _ | ⟨memOff, _ | ⟨dataOff, _ | ⟨len, rest⟩⟩⟩
  · have : s.stack.length < 3 := by rw [← List.length_reverse, hrev]; decide
    rw [bind_halt _ _ _ _ _ _ (pop3_underflow s this)]; rfl
  · have : s.stack.length < 3 := by rw [← List.length_reverse, hrev]; simp
    rw [bind_halt _ _ _ _ _ _ (pop3_underflow s this)]; rfl
  · have : s.stack.length < 3 := by rw [← List.length_reverse, hrev]; simp
    rw [bind_halt _ _ _ _ _ _ (pop3_underflow s this)]; rfl
  · have hs : s.stack = rest.reverse ++ [len, dataOff, memOff] :=
      stack_of_reverse (pre := [memOff, dataOff, len]) hrev
    have hmo : memOff < W := lt_W_of_mem hw (pre := [memOff, dataOff, len]) hrev (by simp)
    have hlen : len < W := lt_W_of_mem hw (pre := [memOff, dataOff, len]) hrev (by simp)
    rw [bind_ok _ _ _ _ _ (pop3_ok s _ memOff dataOff len hs)]
    simp only []
    have h1 : MemOK { s with stack := rest.reverse } := h.stack _
    have hd1 : data { s with stack := rest.reverse } = data s := hinv _ _ rfl rfl rfl
    have he1 : ({ s with stack := rest.reverse } : IState).isEof = s.isEof := rfl
    generalize ({ s with stack := rest.reverse } : IState) = s1 at h1 hd1 he1 ⊢
    by_cases hl : U64 ≤ len
    · rw [bind_halt _ _ _ _ _ _ (asUsizeOrFail_fail len _ s1 hl hlen), if_pos hl]; rfl
    · rw [bind_ok _ _ _ _ _ (asUsizeOrFail_ok len _ s1 (by omega)), if_neg hl]
      unfold needGas
      have hcc := copyCharge_eq s1 len (by omega) h1.bound
      by_cases hg : s1.gas.remaining < Spec.GasCalc.copyCost len
      · rw [if_pos hg] at hcc
        rw [bind_halt _ _ _ _ _ _ hcc, if_pos hg]; rfl
      · rw [if_neg hg] at hcc
        rw [bind_ok _ _ _ _ _ hcc, if_neg hg]
        have h2 : MemOK (charge s1 (Spec.GasCalc.copyCost len)) := h1.charge _
        have hd2 : data (charge s1 (Spec.GasCalc.copyCost len)) = data s := by
          rw [← hd1]; exact hinv _ _ rfl rfl rfl
        have he2 : (charge s1 (Spec.GasCalc.copyCost len)).isEof = s.isEof := he1
        generalize charge s1 (Spec.GasCalc.copyCost len) = s2 at h2 hd2 he2 ⊢
        by_cases hz : len = 0
        · simp only [hz, if_true]; rfl
        · simp only [hz, if_false]
          by_cases hm : U64 ≤ memOff
          · rw [bind_halt _ _ _ _ _ _ (asUsizeOrFail_fail memOff _ s2 hm hmo), if_pos hm]; rfl
          · rw [bind_ok _ _ _ _ _ (asUsizeOrFail_ok memOff _ s2 (by omega)), if_neg hm]
            unfold memAccess
            by_cases hc : s2.gas.remaining < touchCost (memOf s2) memOff len
            · rw [bind_halt _ _ _ _ _ _ (resizeMem_fail s2 _ len h2 (by omega) (by omega) hc), if_pos hc]; rfl
            · rw [bind_ok _ _ _ _ _ (resizeMem_ok s2 _ len h2 (by omega) (by omega) hc), if_neg hc]
              have h3 := h2.touch memOff len hc
              have hcov := touch_covers (memOf s2) memOff len
              have hm3 : memOf (setMem (charge s2 (touchCost (memOf s2) memOff len))
                  (touch (memOf s2) memOff len)) = touch (memOf s2) memOff len := memOf_setMem h2.mem _
              have hd3 : data (setMem (charge s2 (touchCost (memOf s2) memOff len))
                  (touch (memOf s2) memOff len)) = data s := by
                rw [← hd2]; exact hinv _ _ rfl rfl rfl
              have he3 : (setMem (charge s2 (touchCost (memOf s2) memOff len))
                  (touch (memOf s2) memOff len)).isEof = s.isEof := he2
              generalize setMem (charge s2 (touchCost (memOf s2) memOff len))
                (touch (memOf s2) memOff len) = s3 at h3 hm3 hd3 he3 ⊢
              have hget : getS s3 = .ok s3 s3 := rfl
              rw [bind_ok _ _ _ _ _ (hguard s3 he3), bind_ok _ _ _ _ _ hget, hd3,
                memSetData_eq s3 memOff (asUsizeSat dataOff) len (data s) h3.mem hd (asUsizeSat_lt _)
                  (by rw [hm3]; exact hcov),
                paddedSlice_sat _ _ _ hd]
              rfl

theorem step_calldatacopy (s : IState) (hcode : s.code[s.pc]? = some 0x37) (hwf : WFM s) :
    step s = .pure (calldatacopyRule s) := by
  unfold step
  rw [hcode]
  have hdec : decode 0x37 = .calldatacopy := rfl
  simp only [hdec, execInstr, execPure]
  show Outcome.pure (copyToMem (fun s => s.input) (pure ()) (adv s)).toDone = _
  rw [copyToMem_eq (fun s => s.input) (pure ()) (adv s) hwf.memOK.adv hwf.words hwf.inputLen (fun a b h _ _ => h)
    (fun _ _ => rfl)]
  rfl

theorem step_codecopy (s : IState) (hcode : s.code[s.pc]? = some 0x39) (hwf : WFM s) (hleg : s.isEof = false) :
    step s = .pure (codecopyRule s) := by
  unfold step
  rw [hcode]
  have hdec : decode 0x39 = .codecopy := rfl
  simp only [hdec, execInstr, execPure]
  show Outcome.pure (copyToMem (fun s => s.code.take s.origLen) assumeNotEof (adv s)).toDone = _
  have hl : ((adv s).code.take (adv s).origLen).length ≤ Memory.ISIZE_MAX := by
    have := hwf.codeLen
    show (s.code.take s.origLen).length ≤ _
    rw [List.length_take]; omega
  rw [copyToMem_eq (fun s => s.code.take s.origLen) assumeNotEof (adv s) hwf.memOK.adv hwf.words hl
    (fun a b _ h1 h2 => by simp only [h1, h2])
    (fun s' he => by
      have : s'.isEof = false := he.trans hleg
      simp [assumeNotEof, this])]
  rfl

/-- the bounds check of RETURNDATACOPY on saturated 64-bit values is the check on the unbounded sum -/
theorem oob_iff (rdLen off len : Nat) (h : rdLen ≤ Memory.ISIZE_MAX) :
    U64ops.saturatingAdd (asUsizeSat off) len > rdLen ↔ rdLen < off + len := by
  have hI : Memory.ISIZE_MAX = 9223372036854775807 := by unfold Memory.ISIZE_MAX; rfl
  have hU := U64_val
  unfold U64ops.saturatingAdd asUsizeSat U256.asU64Sat
  rw [hU]; rw [hI] at h
  constructor
  · intro hh; split at hh <;> split at hh <;> omega
  · intro hh; split <;> split <;> omega

theorem returndatacopyI_eq (s : IState) (h : MemOK s) (hw : ∀ w ∈ s.stack, w < W)
    (hd : s.returnData.length ≤ Memory.ISIZE_MAX) :
    (returndatacopyI s).toDone =
      if !enabled s.spec GasCalc.SpecId.BYZANTIUM then .halt .NotActivated [] s
      else match s.stack.reverse with
        | memOff :: off :: len :: rest =>
          let s1 := { s with stack := rest.reverse }
          if U64 ≤ len then .halt .InvalidOperandOOG [] s1
          else needGas s1 (Spec.GasCalc.copyCost len) fun s2 =>
            if s.returnData.length < off + len ∧ !s.isEof then .halt .OutOfOffset [] s2
            else if len = 0 then .next s2
            else if U64 ≤ memOff then .halt .InvalidOperandOOG [] s2
            else memAccess s2 memOff len fun s3 =>
              .next (setMem s3 (store (memOf s3) memOff (Spec.Memory.paddedSlice s.returnData off len)))
        | _ => .halt .StackUnderflow [] s := by
  unfold returndatacopyI
  by_cases hen : enabled s.spec GasCalc.SpecId.BYZANTIUM
  · have hc : check GasCalc.SpecId.BYZANTIUM s = .ok () s := by simp [check, hen]
    rw [bind_ok _ _ _ _ _ hc]
    simp only [hen, Bool.not_true, Bool.false_eq_true, if_false]
    rcases hrev : s.stack.reverse with _ | ⟨memOff, _ | ⟨off, _ | ⟨len, rest⟩⟩⟩
    · have : s.stack.length < 3 := by rw [← List.length_reverse, hrev]; decide
      rw [bind_halt _ _ _ _ _ _ (pop3_underflow s this)]; rfl
    · have : s.stack.length < 3 := by rw [← List.length_reverse, hrev]; simp
      rw [bind_halt _ _ _ _ _ _ (pop3_underflow s this)]; rfl
    · have : s.stack.length < 3 := by rw [← List.length_reverse, hrev]; simp
      rw [bind_halt _ _ _ _ _ _ (pop3_underflow s this)]; rfl
    · have hs : s.stack = rest.reverse ++ [len, off, memOff] :=
        stack_of_reverse (pre := [memOff, off, len]) hrev
      have hmo : memOff < W := lt_W_of_mem hw (pre := [memOff, off, len]) hrev (by simp)
      have hlen : len < W := lt_W_of_mem hw (pre := [memOff, off, len]) hrev (by simp)
      rw [bind_ok _ _ _ _ _ (pop3_ok s _ memOff off len hs)]
      simp only []
      have h1 : MemOK { s with stack := rest.reverse } := h.stack _
      have hrd1 : ({ s with stack := rest.reverse } : IState).returnData = s.returnData := rfl
      have hef1 : ({ s with stack := rest.reverse } : IState).isEof = s.isEof := rfl
      generalize ({ s with stack := rest.reverse } : IState) = s1 at h1 hrd1 hef1 ⊢
      by_cases hl : U64 ≤ len
      · rw [bind_halt _ _ _ _ _ _ (asUsizeOrFail_fail len _ s1 hl hlen), if_pos hl]; rfl
      · rw [bind_ok _ _ _ _ _ (asUsizeOrFail_ok len _ s1 (by omega)), if_neg hl]
        unfold needGas
        have hcc := copyCharge_eq s1 len (by omega) h1.bound
        by_cases hg : s1.gas.remaining < Spec.GasCalc.copyCost len
        · rw [if_pos hg] at hcc
          rw [bind_halt _ _ _ _ _ _ hcc, if_pos hg]; rfl
        · rw [if_neg hg] at hcc
          rw [bind_ok _ _ _ _ _ hcc, if_neg hg]
          have h2 : MemOK (charge s1 (Spec.GasCalc.copyCost len)) := h1.charge _
          have hrd2 : (charge s1 (Spec.GasCalc.copyCost len)).returnData = s.returnData := hrd1
          have hef2 : (charge s1 (Spec.GasCalc.copyCost len)).isEof = s.isEof := hef1
          generalize charge s1 (Spec.GasCalc.copyCost len) = s2 at h2 hrd2 hef2 ⊢
          have hget : getS s2 = .ok s2 s2 := rfl
          rw [bind_ok _ _ _ _ _ hget]
          simp only [hrd2, hef2]
          by_cases hoo : s.returnData.length < off + len ∧ (!s.isEof) = true
          · rw [if_pos hoo, if_pos ⟨(oob_iff _ off len hd).mpr hoo.1, hoo.2⟩]; rfl
          · rw [if_neg hoo, if_neg (fun hx => hoo ⟨(oob_iff _ off len hd).mp hx.1, hx.2⟩)]
            by_cases hz : len = 0
            · simp only [hz, if_true]; rfl
            · simp only [hz, if_false]
              by_cases hm : U64 ≤ memOff
              · rw [bind_halt _ _ _ _ _ _ (asUsizeOrFail_fail memOff _ s2 hm hmo), if_pos hm]; rfl
              · rw [bind_ok _ _ _ _ _ (asUsizeOrFail_ok memOff _ s2 (by omega)), if_neg hm]
                unfold memAccess
                by_cases hc : s2.gas.remaining < touchCost (memOf s2) memOff len
                · rw [bind_halt _ _ _ _ _ _ (resizeMem_fail s2 _ len h2 (by omega) (by omega) hc), if_pos hc]; rfl
                · rw [bind_ok _ _ _ _ _ (resizeMem_ok s2 _ len h2 (by omega) (by omega) hc), if_neg hc]
                  have h3 := h2.touch memOff len hc
                  have hcov := touch_covers (memOf s2) memOff len
                  have hm3 : memOf (setMem (charge s2 (touchCost (memOf s2) memOff len))
                      (touch (memOf s2) memOff len)) = touch (memOf s2) memOff len := memOf_setMem h2.mem _
                  generalize setMem (charge s2 (touchCost (memOf s2) memOff len))
                    (touch (memOf s2) memOff len) = s3 at h3 hm3 ⊢
                  rw [memSetData_eq s3 memOff (asUsizeSat off) len s.returnData h3.mem hd (asUsizeSat_lt _)
                      (by rw [hm3]; exact hcov),
                    paddedSlice_sat _ _ _ hd]
                  rfl
  · have hc : check GasCalc.SpecId.BYZANTIUM s = .halt .NotActivated [] s := by simp [check, hen]
    rw [bind_halt _ _ _ _ _ _ hc]
    simp [hen, Exec.toDone]

theorem step_returndatacopy (s : IState) (hcode : s.code[s.pc]? = some 0x3e) (hwf : WFM s) :
    step s = .pure (returndatacopyRule s) := by
  unfold step
  rw [hcode]
  have hdec : decode 0x3e = .returndatacopy := rfl
  simp only [hdec, execInstr, execPure]
  show Outcome.pure (returndatacopyI (adv s)).toDone = _
  rw [returndatacopyI_eq (adv s) hwf.memOK.adv hwf.words hwf.returnLen]
  rfl

/-! ## CALLDATALOAD -/

theorem beNat_zeros (n : Nat) : beNat (List.replicate n 0) = 0 := by
  induction n with
  | zero => rfl
  | succ n ih => simp [List.replicate_succ, Spec.Stack.beNat, ih]

theorem cdl_word (input : List Nat) (off : Nat) (h : input.length ≤ Memory.ISIZE_MAX) :
    (if asUsizeSat off < input.length then
       wordOfBytesPadded ((input.drop (asUsizeSat off)).take (min 32 (input.length - asUsizeSat off)))
     else 0) = beNat (Spec.Memory.paddedSlice input off 32) := by
  rw [← paddedSlice_sat input off 32 h]
  generalize asUsizeSat off = o
  unfold Spec.Memory.paddedSlice
  simp only []
  by_cases ho : o < input.length
  · rw [if_pos ho]
    have e : (input.drop o).take (min 32 (input.length - o)) = (input.drop o).take 32 := by
      rw [Proofs.Memory.take_min_length (input.drop o) 32, List.length_drop]
    rw [e]
    unfold wordOfBytesPadded
    exact beToNat_eq _
  · rw [if_neg ho, List.drop_of_length_le (by omega)]
    simp only [List.take_nil, List.length_nil, List.nil_append]
    exact (beNat_zeros _).symm

theorem calldataloadI_eq (s : IState) (hwf : s.gas.remaining < U64) (hin : s.input.length ≤ Memory.ISIZE_MAX) :
    (calldataloadI s).toDone =
      (if s.gas.remaining < GasCalc.VERYLOW then Done.halt .OutOfGas [] s
       else match s.stack.reverse with
         | a :: rest => .next { charge s GasCalc.VERYLOW with
                                stack := (beNat (Spec.Memory.paddedSlice s.input a 32) :: rest).reverse }
         | _ => .halt .StackUnderflow [] (charge s GasCalc.VERYLOW)) := by
  unfold calldataloadI
  by_cases hg : s.gas.remaining < GasCalc.VERYLOW
  · rw [bind_halt _ _ _ _ _ _ (gasCharge_fail s _ hg), if_pos hg]; rfl
  · rw [bind_ok _ _ _ _ _ (gasCharge_ok s _ hwf (by omega)), if_neg hg]
    generalize hs2 : ({ s with gas := { s.gas with remaining := s.gas.remaining - GasCalc.VERYLOW } } : IState) = s2
    have hst : s2.stack = s.stack := by rw [← hs2]
    have hinp : s2.input = s.input := by rw [← hs2]
    have hch : charge s GasCalc.VERYLOW = s2 := hs2
    rw [hch]
    rcases hrev : s.stack.reverse with _ | ⟨a, rest⟩
    · have : s2.stack.length < 1 := by rw [hst, ← List.length_reverse, hrev]; decide
      rw [bind_halt _ _ _ _ _ _ (popTop1_underflow s2 this)]; rfl
    · have hs : s2.stack = rest.reverse ++ [a] := by
        rw [hst]; exact stack_of_reverse (pre := [a]) hrev
      rw [bind_ok _ _ _ _ _ (popTop1_ok s2 _ a hs)]
      have hget : getS s2 = .ok s2 s2 := rfl
      rw [bind_ok _ _ _ _ _ hget]
      simp only [hinp]
      rw [cdl_word s.input a hin]
      have := setTop_ok s2 rest.reverse a (beNat (Spec.Memory.paddedSlice s.input a 32)) hs
      simp only [this, Exec.toDone, List.reverse_cons, hinp]

theorem step_calldataload (s : IState) (hcode : s.code[s.pc]? = some 0x35) (hwf : WFM s) :
    step s = .pure (calldataloadRule s) := by
  unfold step
  rw [hcode]
  have hdec : decode 0x35 = .calldataload := rfl
  simp only [hdec, execInstr, execPure]
  show Outcome.pure (calldataloadI (adv s)).toDone = _
  rw [calldataloadI_eq (adv s) hwf.gas hwf.inputLen]
  rfl

end Revm.Proofs.EvmStep2
