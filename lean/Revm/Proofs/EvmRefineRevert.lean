import Revm.Proofs.EvmRefineRel
import Revm.Proofs.EvmRefineUndo
/-! Undo = restore: the state `checkpoint_revert` produces from the journal and the state the snapshot specification
restores are related again (given C06's `AbsEq` of the reverted state with the state at the checkpoint). -/
set_option linter.unusedSimpArgs false
namespace Revm.Proofs.EvmRefine
open Revm Revm.Model Revm.Model.Journal Revm.Spec.JournalAbs Revm.Proofs.Journal
open Revm.Model.Evm (World)

theorem entryRel_some_iff {db : Db} {a : Addr} {p q : Option Acct} (h : EntryRel db a p q) : p.isSome = q.isSome := by
  cases p <;> cases q <;> simp_all [EntryRel]

theorem keeps_some {sd : Bool} {s s' : JState} (k : Keeps sd s s') (a : Addr) : (s'.state a).isSome = (s.state a).isSome := by
  have := k a
  cases hs : s.state a <;> cases hs' : s'.state a <;> simp_all

/-- the observable content of a present account, from `absAcct` (the touched mark only where it is not masked) -/
theorem absAcct_fields {db : Db} {s : JState} {a : Addr} {x : Acct} (h : s.state a = some x) :
    (absAcct db s a).balance = x.info.balance ∧ (absAcct db s a).nonce = x.info.nonce ∧
    (absAcct db s a).codeHash = x.info.codeHash ∧ (absAcct db s a).created = x.created ∧
    (absAcct db s a).selfdestructed = x.selfdestructed ∧ (absAcct db s a).notExisting = x.notExisting ∧
    (absAcct db s a).warm = !x.cold ∧ (absAcct db s a).slot = slotsOf db a x.created x.storage ∧
    (¬ (decide (s.spec ≥ SPURIOUS_DRAGON) = true ∧ a = PRECOMPILE3) → (absAcct db s a).touched = x.touched) := by
  rw [Proofs.Journal.absAcct_some db s h]
  refine ⟨rfl, rfl, rfl, rfl, rfl, rfl, rfl, absSlot_some db a x, ?_⟩
  intro hn
  show maskT (sdOf s) a x.touched = x.touched
  unfold maskT sdOf
  rw [if_neg hn]

theorem absAcct_fields_none {db : Db} {s : JState} {a : Addr} (h : s.state a = none) :
    (absAcct db s a).balance = ((db.basic a).getD Info.default).balance ∧
    (absAcct db s a).nonce = ((db.basic a).getD Info.default).nonce ∧
    (absAcct db s a).codeHash = ((db.basic a).getD Info.default).codeHash ∧ (absAcct db s a).created = false ∧
    (absAcct db s a).selfdestructed = false ∧ (absAcct db s a).notExisting = (db.basic a).isNone ∧
    (absAcct db s a).warm = s.preloaded a ∧ (absAcct db s a).slot = slotsOf db a false (fun _ => none) ∧
    (absAcct db s a).touched = false := by
  rw [Proofs.Journal.absAcct_none db s h]
  exact ⟨rfl, rfl, rfl, rfl, rfl, rfl, rfl, absSlot_none db a, rfl⟩


/-- an entry with the touched mark cleared -/
def clr (x : Acct) : Acct := { x with touched := false }

theorem entryRel_of_clr {db : Db} {a : Addr} {p q : Option Acct} (h : EntryRel db a (p.map clr) (q.map clr))
    (ht : ∀ x y, p = some x → q = some y → x.touched = y.touched) : EntryRel db a p q := by
  cases p with
  | none => cases q with
    | none => trivial
    | some y => exact h.elim
  | some x => cases q with
    | none => exact h.elim
    | some y =>
      obtain ⟨e1, e2, e3, e4, e5, _, e7, e8, e9⟩ := h
      exact ⟨e1, e2, e3, e4, e5, ht x y rfl rfl, e7, e8, e9⟩

theorem bool_not_inj {a b : Bool} (h : (!a) = (!b)) : a = b := by cases a <;> cases b <;> simp_all
theorem bool_not_eq {a b : Bool} (h : (!a) = b) : a = !b := by cases a <;> cases b <;> simp_all

theorem decU64_incU64 (x : Nat) : decU64 (incU64 x) = x := by
  unfold decU64 incU64
  have hU : U64 = 18446744073709551616 := U64_val
  by_cases h : x = U64 - 1
  · simp [h]
  · simp only [h, if_false]
    have : x + 1 ≠ 0 := by omega
    simp [this]

/-- the database account as `Spec.Evm.pristine` builds it -/
theorem pristine_eq (w : World) (a : Addr) :
    Spec.Evm.pristine w a = { dbAcct w.db a with cold := !w.js.preloaded a } := by
  unfold Spec.Evm.pristine dbAcct
  cases w.db.basic a <;> rfl

/-- **undo = restore.** `j'` is what `checkpoint_revert` makes of the journal state `j`; C06 says it is observably the
state `rpre` the checkpoint was taken in; `snap` is the state the specification saved then (related to `rpre`), `s` the
specification's current state (related to `j`). Then `j'` and the specification's restored state are related again. -/
theorem revert_rel {db : Db} {j j' s rpre snap : JState} {cp : Checkpoint} (w : World)
    (hw : w.js = s) (hbasic : w.db.basic = db.basic)
    (hdbcode : ∀ b i, db.basic b = some i → ∀ hh, i.code = some hh → hh = i.codeHash)
    (hcur : JRel db j s) (hsnap : JRel db rpre snap) (habs : AbsEq db j' rpre)
    (hrev : Journal.revert j cp = some j')
    (hdom : ∀ a, (snap.state a).isSome → (s.state a).isSome)
    (hpres : ∀ a, w.addrs.contains a = (s.state a).isSome)
    (hdepth : s.depth = incU64 snap.depth) (hspec : snap.spec = s.spec) (hpre : snap.preloaded = s.preloaded)
    (hjne : j'.journal ≠ []) :
    JRel db j' { snap with state := Spec.Evm.restoredState w snap (Spec.Evm.restored3 w snap) } := by
  obtain ⟨hkeep, hdep, hsp, hpr, _⟩ := revert_keeps hrev
  have hspec' : j'.spec = rpre.spec := by rw [hsp, hcur.spec, ← hspec, hsnap.spec]
  have hpre' : j'.preloaded = rpre.preloaded := by rw [hpr, hcur.pre, ← hpre, hsnap.pre]
  have hsd : decide (j'.spec ≥ SPURIOUS_DRAGON) = decide (w.js.spec ≥ SPURIOUS_DRAGON) := by
    rw [hw, hsp, hcur.spec]
  have hsdj : decide (j.spec ≥ SPURIOUS_DRAGON) = decide (j'.spec ≥ SPURIOUS_DRAGON) := by rw [hsp]
  -- the generic entry: saved account, or placeholder
  have generic : ∀ a,
      EntryRel db a ((j'.state a).map clr)
        ((Spec.Evm.restoredBase w snap a).map clr) ∧
      (¬ (decide (j'.spec ≥ SPURIOUS_DRAGON) = true ∧ a = PRECOMPILE3) → ∀ x y, j'.state a = some x →
        (Spec.Evm.restoredBase w snap a) = some y →
        x.touched = y.touched) := by
    intro a
    unfold Spec.Evm.restoredBase
    rw [hpres a]
    have hk := hkeep a
    have he := hcur.ent a
    have hs := hsnap.ent a
    obtain ⟨e1, e2, e3, e4, e5, e6, e7, e8, e9⟩ := habs.1 a
    have hm' : ¬ (decide (j'.spec ≥ SPURIOUS_DRAGON) = true ∧ a = PRECOMPILE3) →
        ¬ (decide (rpre.spec ≥ SPURIOUS_DRAGON) = true ∧ a = PRECOMPILE3) := by rw [← hspec']; exact id
    cases hsn : snap.state a with
    | some y =>
      have hsa : (s.state a).isSome := hdom a (by rw [hsn]; rfl)
      cases hrp : rpre.state a with
      | none => rw [hrp, hsn] at hs; exact hs.elim
      | some xr =>
        rw [hrp, hsn] at hs
        cases hja : j.state a with
        | none => rw [hja] at he; cases hsa' : s.state a <;> simp_all [EntryRel]
        | some xj =>
          rw [hja] at hk
          cases hj' : j'.state a with
          | none => rw [hj'] at hk; exact hk.elim
          | some x' =>
            obtain ⟨f1, f2, f3, f4, f5, f6, f7, f8, f9⟩ := absAcct_fields (db := db) hj'
            obtain ⟨g1, g2, g3, g4, g5, g6, g7, g8, g9⟩ := absAcct_fields (db := db) hrp
            obtain ⟨r1, r2, r3, r4, r5, r6, r7, r8, r9⟩ := hs
            refine ⟨⟨?_, ?_, ?_, ?_, ?_, rfl, ?_, ?_, ?_⟩, ?_⟩
            rotate_right
            · intro hmask x y hx hy
              simp only [Option.some.injEq] at hx hy
              subst hx; subst hy
              rw [← f9 hmask, e6, g9 (hm' hmask), r6]
            · show x'.info.balance = y.info.balance; rw [← f1, e1, g1, r1]
            · show x'.info.nonce = y.info.nonce; rw [← f2, e2, g2, r2]
            · show x'.info.codeHash = y.info.codeHash; rw [← f3, e3, g3, r3]
            · show x'.created = y.created; rw [← f4, e4, g4, r4]
            · show x'.selfdestructed = y.selfdestructed; rw [← f5, e5, g5, r5]
            · show x'.notExisting = y.notExisting; rw [← f6, e7, g6, r7]
            · show x'.cold = y.cold
              have : (!x'.cold) = (!xr.cold) := by rw [← f7, e8, g7]
              rw [bool_not_inj this, r8]
            · show slotsOf db a x'.created x'.storage = slotsOf db a y.created y.storage
              have : slotsOf db a x'.created x'.storage = slotsOf db a xr.created xr.storage := by
                rw [← f8, ← g8]; funext k; exact e9 k
              rw [this, r9]
    | none =>
      simp only
      cases hrp : rpre.state a with
      | some xr => rw [hrp, hsn] at hs; exact hs.elim
      | none =>
        cases hja : j.state a with
        | none =>
          rw [hja] at hk he
          have : s.state a = none := by cases hsa' : s.state a <;> simp_all [EntryRel]
          cases hj' : j'.state a with
          | some _ => rw [hj'] at hk; exact hk.elim
          | none => simp [this, EntryRel]
        | some xj =>
          rw [hja] at hk he
          have hsa : (s.state a).isSome = true := by cases hsa' : s.state a <;> simp_all [EntryRel]
          cases hj' : j'.state a with
          | none => rw [hj'] at hk; exact hk.elim
          | some x' =>
            obtain ⟨f1, f2, f3, f4, f5, f6, f7, f8, f9⟩ := absAcct_fields (db := db) hj'
            obtain ⟨g1, g2, g3, g4, g5, g6, g7, g8, g9⟩ := absAcct_fields_none (db := db) hrp
            rw [if_pos hsa, pristine_eq]
            have hda : dbAcct w.db a = dbAcct db a := by unfold dbAcct; rw [hbasic]
            rw [hda]
            have hcold : x'.cold = !w.js.preloaded a := by
              have : (!x'.cold) = rpre.preloaded a := by rw [← f7, e8, g7]
              rw [hw, ← hpre, ← hsnap.pre]
              exact bool_not_eq this
            have hdbv : ∀ (f : Info → Nat), f (dbAcct db a).info = f ((db.basic a).getD Info.default) := by
              intro f; unfold dbAcct; cases db.basic a <;> rfl
            refine ⟨⟨?_, ?_, ?_, ?_, ?_, rfl, ?_, ?_, ?_⟩, ?_⟩
            rotate_right
            · intro hmask x y hx hy
              simp only [Option.some.injEq] at hx hy
              subst hx; subst hy
              rw [← f9 hmask, e6, g9]; unfold dbAcct; cases db.basic a <;> rfl
            · show x'.info.balance = _; rw [← f1, e1, g1]; exact (hdbv Info.balance).symm
            · show x'.info.nonce = _; rw [← f2, e2, g2]; exact (hdbv Info.nonce).symm
            · show x'.info.codeHash = _; rw [← f3, e3, g3]; exact (hdbv Info.codeHash).symm
            · show x'.created = _; rw [← f4, e4, g4]; unfold dbAcct; cases db.basic a <;> rfl
            · show x'.selfdestructed = _; rw [← f5, e5, g5]; unfold dbAcct; cases db.basic a <;> rfl
            · show x'.notExisting = _; rw [← f6, e7, g6]; unfold dbAcct; cases db.basic a <;> rfl
            · exact hcold
            · show slotsOf db a x'.created x'.storage = _
              have h1 : slotsOf db a x'.created x'.storage = slotsOf db a false (fun _ => none) := by
                rw [← f8, ← g8]; funext k; exact e9 k
              rw [h1]
              unfold dbAcct; cases db.basic a <;> rfl
  have hcj' : CodeOk j' := by
    intro a acc hacc hh hc
    have hk := hkeep a
    rw [hacc] at hk
    cases hja : j.state a with
    | none => rw [hja] at hk; exact hk.elim
    | some xj =>
      rw [hja] at hk
      rcases hk.1 with ⟨c1, c2⟩ | c1
      · rw [c2]; exact hcur.cj a xj hja hh (by rw [← c1]; exact hc)
      · rw [c1] at hc; cases hc
  have hpristine_code : ∀ a c, (Spec.Evm.pristine w a).info.code = some c → c = (Spec.Evm.pristine w a).info.codeHash := by
    intro a c hc
    rw [pristine_eq] at hc ⊢
    have hda : dbAcct w.db a = dbAcct db a := by unfold dbAcct; rw [hbasic]
    rw [hda] at hc ⊢
    unfold dbAcct at hc ⊢
    cases hb : db.basic a with
    | none => simp [hb, Acct.newNotExisting, Info.default] at hc ⊢; exact hc.symm
    | some i => simp only [hb] at hc ⊢; exact hdbcode a i hb c hc
  have hbase_code : ∀ a y, (Spec.Evm.restoredBase w snap a) = some y →
      ∀ c, y.info.code = some c → c = y.info.codeHash := by
    intro a y hy c hc
    unfold Spec.Evm.restoredBase at hy
    cases hsn : snap.state a with
    | some x => rw [hsn] at hy; simp only [Option.some.injEq] at hy; subst hy; exact hsnap.cs a x hsn c hc
    | none =>
      rw [hsn] at hy
      by_cases hp : w.addrs.contains a
      · simp only [hp, if_true, Option.some.injEq] at hy; subst hy; exact hpristine_code a c hc
      · rw [if_neg hp] at hy; cases hy
  have clr_touch : ∀ (base : Option Acct) (t : Bool),
      (base.map fun x => ({ x with touched := t } : Acct)).map clr = base.map clr := by
    intro base t; cases base <;> rfl
  refine ⟨?_, ?_, ?_, ?_, ?_, ?_, hjne, hsnap.sne, hcj', ?_⟩
  · -- entries
    intro a
    show EntryRel db a (j'.state a) (Spec.Evm.restoredState w snap (Spec.Evm.restored3 w snap) a)
    obtain ⟨gA, gB⟩ := generic a
    by_cases h3 : a = PRECOMPILE3
    · subst h3
      unfold Spec.Evm.restoredState
      rw [if_pos rfl]
      unfold Spec.Evm.restored3
      rw [hw]
      cases hs3 : s.state PRECOMPILE3 with
      | none =>
        simp only
        exact entryRel_of_clr gA (fun x y hx hy => by
          have hk := hkeep PRECOMPILE3
          have he := hcur.ent PRECOMPILE3
          rw [hs3] at he
          cases hja : j.state PRECOMPILE3 with
          | some _ => rw [hja] at he; exact he.elim
          | none => rw [hja, hx] at hk; exact hk.elim)
      | some c =>
        simp only
        by_cases hsd' : decide (s.spec ≥ SPURIOUS_DRAGON) = true
        · rw [if_pos hsd']
          apply entryRel_of_clr
          · rw [clr_touch]; exact gA
          · intro x y hx hy
            have hk := hkeep PRECOMPILE3
            have he := hcur.ent PRECOMPILE3
            rw [hs3] at he
            cases hja : j.state PRECOMPILE3 with
            | none => rw [hja] at he; exact he.elim
            | some xj =>
              rw [hja, hx] at hk
              rw [hja] at he
              have ht : x.touched = xj.touched := hk.2 (by rw [hsdj, hsd, hw]; exact hsd') rfl
              cases hb : Spec.Evm.restoredBase w snap PRECOMPILE3 with
              | none => rw [hb] at hy; simp at hy
              | some b =>
                rw [hb] at hy
                simp only [Option.map_some, Option.some.injEq] at hy
                subst hy
                show x.touched = c.touched
                rw [ht]; exact he.2.2.2.2.2.1
        · rw [if_neg hsd']
          exact entryRel_of_clr gA (gB (by rw [hsd, hw]; exact fun h => hsd' h.1))
    · unfold Spec.Evm.restoredState
      rw [if_neg h3]
      exact entryRel_of_clr gA (gB (fun h => h3 h.2))
  · intro a k; exact (habs.2.1 a k).trans (hsnap.tr a k)
  · exact habs.2.2.trans hsnap.logs
  · show j'.depth = snap.depth
    rw [hdep, hcur.depth, hdepth, decU64_incU64]
  · show j'.spec = snap.spec
    rw [hspec', hsnap.spec]
  · show j'.preloaded = snap.preloaded
    rw [hpre', hsnap.pre]
  · -- code caches of the restored map
    intro a acc hacc c hc
    change Spec.Evm.restoredState w snap (Spec.Evm.restored3 w snap) a = some acc at hacc
    unfold Spec.Evm.restoredState at hacc
    by_cases h3 : a = PRECOMPILE3
    · subst h3
      rw [if_pos rfl] at hacc
      unfold Spec.Evm.restored3 at hacc
      rw [hw] at hacc
      have hb3 := hbase_code PRECOMPILE3
      cases hs3 : s.state PRECOMPILE3 with
      | none =>
        rw [hs3] at hacc
        exact hb3 acc hacc c hc
      | some cur =>
        rw [hs3] at hacc
        simp only at hacc
        by_cases hsd' : decide (s.spec ≥ SPURIOUS_DRAGON) = true
        · rw [if_pos hsd'] at hacc
          cases hb : Spec.Evm.restoredBase w snap PRECOMPILE3 with
          | none => rw [hb] at hacc; simp at hacc
          | some y =>
            rw [hb] at hacc
            simp only [Option.map_some, Option.some.injEq] at hacc
            subst hacc
            exact hb3 y hb c hc
        · rw [if_neg hsd'] at hacc
          exact hb3 acc hacc c hc
    · rw [if_neg h3] at hacc
      exact hbase_code a acc hacc c hc

end Revm.Proofs.EvmRefine
