import Revm.Proofs.Eof
import Revm.Model.EofValidate
import Revm.Spec.Eof
/-! Proofs about the EOF validation model. Core Lean only. -/
namespace Revm.Proofs.EofValidate
open Revm.Model.Eof Revm.Model.EofValidate Revm.Spec.Eof Revm.Proofs.Eof

set_option linter.unusedSimpArgs false
set_option linter.unusedVariables false

theorem mapErr_eq_ok {ε ε' α : Type} {g : ε → ε'} {x : R ε α} {a : α}
    (h : x.mapErr g = .ok a) : x = .ok a := by
  cases x <;> simp [R.mapErr] at h ⊢; exact h

theorem validateRaw_ok {bs : List Nat} {t : Option CodeType} {e : Eof}
    (h : validateRawEofInner bs t = .ok e) :
    bs.length ≤ 49152 ∧ Eof.decode bs = .ok e ∧ e.body.isDataFilled = true := by
  unfold validateRawEofInner at h
  have hx := ite_err_eq_ok h; clear h; obtain ⟨hlen, h⟩ := hx
  rw [bind_eq_ok] at h
  obtain ⟨e', h1, h⟩ := h
  rw [bind_eq_ok] at h
  obtain ⟨u, h2, h⟩ := h
  simp only [pure_def, R.ok.injEq] at h
  subst h
  refine ⟨by simp only [MAX_INITCODE_SIZE] at hlen; omega, mapErr_eq_ok h1, ?_⟩
  unfold validateEofInner at h2
  have hx := ite_err_eq_ok h2
  simpa using hx.1

/-! ## per-instruction facts -/

theorem byteAt_ok {code : Array Nat} {k b : Nat} (h : byteAt code k = .ok b) : code[k]? = some b := by
  unfold byteAt at h
  split at h
  · rename_i hb; simp only [R.ok.injEq] at h; rw [hb, h]
  · simp at h

theorem readU16_ok {code : Array Nat} {k v : Nat} (h : readU16 code k = .ok v) :
    u16At code k = some v := by
  unfold readU16 at h
  unfold u16At
  split at h
  · rename_i h1 h2; simp only [R.ok.injEq] at h; rw [h1, h2]; simp only [h]
  · simp at h

theorem readI16_ok {code : Array Nat} {k : Nat} {o : Int} (h : readI16 code k = .ok o) :
    ∃ v, u16At code k = some v ∧ o = toI16 v := by
  unfold readI16 at h
  rw [bind_eq_ok] at h
  obtain ⟨v, h1, h2⟩ := h
  simp only [pure_def, R.ok.injEq] at h2
  exact ⟨v, readU16_ok h1, h2.symm⟩

theorem readVtable_ok (code : Array Nat) (i extra : Nat) : ∀ (n k : Nat) (ts : List Int),
    readVtable code i extra k n = .ok ts →
    ∀ j, k ≤ j → j < k + n → ∃ v, u16At code (i + 2 + 2 * j) = some v ∧
      (toI16 v + (i : Int) + 2 + (extra : Int)) ∈ ts
  | 0, k, ts, _, j, h1, h2 => by omega
  | n + 1, k, ts, h, j, h1, h2 => by
    simp only [readVtable] at h
    rw [bind_eq_ok] at h
    obtain ⟨o, ho, h⟩ := h
    rw [bind_eq_ok] at h
    obtain ⟨rest, hr, h⟩ := h
    simp only [pure_def, R.ok.injEq] at h
    subst h
    by_cases hjk : j = k
    · subst hjk
      obtain ⟨v, hv, hov⟩ := readI16_ok ho
      exact ⟨v, hv, by rw [hov]; exact List.mem_cons_self ..⟩
    · obtain ⟨v, hv, hm⟩ := readVtable_ok code i extra n (k + 1) rest hr j (by omega) (by omega)
      exact ⟨v, hv, List.mem_cons_of_mem _ hm⟩

theorem processJump_ok {len i : Nat} {ns nb : Int} {jumps j' : Array InstrInfo} {t : Int}
    (h : processJump len i ns nb jumps t = .ok j') : 0 ≤ t ∧ t < len := by
  unfold processJump at h
  have hx := ite_err_eq_ok h; clear h; obtain ⟨h1, h⟩ := hx
  have hx := ite_err_eq_ok h; clear h; obtain ⟨h2, h⟩ := hx
  omega

theorem processJumps_ok {len i : Nat} {ns nb : Int} : ∀ (ts : List Int) (jumps j' : Array InstrInfo),
    processJumps len i ns nb jumps ts = .ok j' → ∀ t ∈ ts, 0 ≤ t ∧ t < len
  | [], _, _, _, t, ht => by simp at ht
  | t0 :: ts, jumps, j', h, t, ht => by
    simp only [processJumps] at h
    rw [bind_eq_ok] at h
    obtain ⟨j1, h1, h2⟩ := h
    rcases List.mem_cons.1 ht with rfl | ht
    · exact processJump_ok h1
    · exact processJumps_ok ts j1 j' h2 t ht

/-! ## goal-directed reasoning about `R` computations -/
section holds
variable {ε α β : Type}
/-- `P` holds for the value of `x` whenever `x` succeeds -/
def Holds (P : α → Prop) (x : R ε α) : Prop := ∀ r, x = .ok r → P r

theorem holds_bind {P : β → Prop} {x : R ε α} {f : α → R ε β}
    (h : ∀ a, x = .ok a → Holds P (f a)) : Holds P (x >>= f) := by
  intro r hr
  rw [bind_eq_ok] at hr
  obtain ⟨a, h1, h2⟩ := hr
  exact h a h1 r h2
theorem holds_ite {P : α → Prop} {c : Prop} [Decidable c] {a b : R ε α}
    (ha : c → Holds P a) (hb : ¬c → Holds P b) : Holds P (if c then a else b) := by
  by_cases hc : c
  · rw [if_pos hc]; exact ha hc
  · rw [if_neg hc]; exact hb hc
theorem holds_err {P : α → Prop} {e : ε} : Holds P (R.err e : R ε α) := by
  intro r hr; cases hr
theorem holds_panic {P : α → Prop} : Holds P (R.panic : R ε α) := by
  intro r hr; cases hr
theorem holds_ok {P : α → Prop} {a : α} (h : P a) : Holds P (R.ok a : R ε α) := by
  intro r hr; cases hr; exact h
theorem holds_pure {P : α → Prop} {a : α} (h : P a) : Holds P (pure a : R ε α) := holds_ok h
end holds

theorem opSpecific_extra {c : Ctx} {i op : Nat} {inf : OpInfo} {this : InstrInfo}
    {jumps : Array InstrInfo} {tr : Tracker} {isRet : Bool} (hne : op ≠ RJUMPV) :
    Holds (fun r => r.extra = 0) (opSpecific c i op inf this jumps tr isRet) := by
  unfold opSpecific
  dsimp only
  repeat' first
    | exact holds_err
    | exact holds_panic
    | (refine holds_ite (fun _ => ?_) (fun _ => ?_))
    | (refine holds_bind (fun _ _ => ?_))
    | exact holds_pure rfl
    | exact holds_ok rfl
    | contradiction
    | split

theorem lt_of_getElem? {α : Type} {a : Array α} {i : Nat} {x : α} (h : a[i]? = some x) :
    i < a.size := by
  by_cases hi : i < a.size
  · exact hi
  · rw [Array.getElem?_eq_none (by omega)] at h; cases h

theorem opSpecific_rjump {c : Ctx} {i op : Nat} {inf : OpInfo} {this : InstrInfo}
    {jumps : Array InstrInfo} {tr : Tracker} {isRet : Bool} {r : OpRes}
    (hop : op = RJUMP ∨ op = RJUMPI) (h : opSpecific c i op inf this jumps tr isRet = .ok r) :
    ∃ v, u16At c.code (i + 1) = some v ∧ r.targets = [toI16 v + 3 + (i : Int)] := by
  unfold opSpecific at h
  dsimp only at h
  rw [if_pos hop, bind_eq_ok] at h
  obtain ⟨o, ho, h⟩ := h
  obtain ⟨v, hv, hov⟩ := readI16_ok ho
  simp only [pure_def, R.ok.injEq] at h
  subst h
  exact ⟨v, hv, by simp only [hov]⟩

theorem opSpecific_rjumpv {c : Ctx} {i : Nat} {inf : OpInfo} {this : InstrInfo}
    {jumps : Array InstrInfo} {tr : Tracker} {isRet : Bool} {r : OpRes}
    (h : opSpecific c i RJUMPV inf this jumps tr isRet = .ok r) :
    ∃ m, c.code[i + 1]? = some m ∧ r.extra = 2 * (m + 1) ∧ i + 1 + r.extra < c.code.size ∧
      ∀ k, k ≤ m → ∃ v, u16At c.code (i + 2 + 2 * k) = some v ∧
        (toI16 v + (i : Int) + 2 + (r.extra : Int)) ∈ r.targets := by
  unfold opSpecific at h
  dsimp only at h
  rw [if_neg (by decide), if_pos rfl, bind_eq_ok] at h
  obtain ⟨m, hm, h⟩ := h
  have hx := ite_err_eq_ok h; clear h; obtain ⟨hlt, h⟩ := hx
  rw [bind_eq_ok] at h
  obtain ⟨j2, hj2, h⟩ := h
  rw [bind_eq_ok] at h
  obtain ⟨ts, hts, h⟩ := h
  simp only [pure_def, R.ok.injEq] at h
  subst h
  refine ⟨m, byteAt_ok hm, by dsimp only; omega, by dsimp only; omega, ?_⟩
  intro k hk
  exact readVtable_ok _ _ _ _ _ _ hts k (by omega) (by omega)

theorem opSpecific_callf {c : Ctx} {i : Nat} {inf : OpInfo} {this : InstrInfo}
    {jumps : Array InstrInfo} {tr : Tracker} {isRet : Bool} {r : OpRes}
    (h : opSpecific c i CALLF inf this jumps tr isRet = .ok r) :
    ∃ k, u16At c.code (i + 1) = some k ∧ k < c.types.size := by
  unfold opSpecific at h
  dsimp only at h
  rw [if_neg (by decide), if_neg (by decide), if_pos rfl, bind_eq_ok] at h
  obtain ⟨k, hk, h⟩ := h
  refine ⟨k, readU16_ok hk, ?_⟩
  split at h
  · cases h
  · rename_i tt htt; exact lt_of_getElem? htt

theorem opSpecific_jumpf {c : Ctx} {i : Nat} {inf : OpInfo} {this : InstrInfo}
    {jumps : Array InstrInfo} {tr : Tracker} {isRet : Bool} {r : OpRes}
    (h : opSpecific c i JUMPF inf this jumps tr isRet = .ok r) :
    ∃ k, u16At c.code (i + 1) = some k ∧ k < c.types.size := by
  unfold opSpecific at h
  dsimp only at h
  rw [if_neg (by decide), if_neg (by decide), if_neg (by decide), if_pos rfl, bind_eq_ok] at h
  obtain ⟨k, hk, h⟩ := h
  refine ⟨k, readU16_ok hk, ?_⟩
  split at h
  · cases h
  · rename_i tt htt; exact lt_of_getElem? htt

theorem opSpecific_eofcreate {c : Ctx} {i : Nat} {inf : OpInfo} {this : InstrInfo}
    {jumps : Array InstrInfo} {tr : Tracker} {isRet : Bool} {r : OpRes}
    (h : opSpecific c i EOFCREATE inf this jumps tr isRet = .ok r) :
    ∃ k, c.code[i + 1]? = some k ∧ k < c.nContainers := by
  unfold opSpecific at h
  dsimp only at h
  rw [if_neg (by decide), if_neg (by decide), if_neg (by decide), if_neg (by decide), if_pos rfl,
    bind_eq_ok] at h
  obtain ⟨k, hk, h⟩ := h
  have hx := ite_err_eq_ok h
  exact ⟨k, byteAt_ok hk, by omega⟩

theorem opSpecific_returncontract {c : Ctx} {i : Nat} {inf : OpInfo} {this : InstrInfo}
    {jumps : Array InstrInfo} {tr : Tracker} {isRet : Bool} {r : OpRes}
    (h : opSpecific c i RETURNCONTRACT inf this jumps tr isRet = .ok r) :
    ∃ k, c.code[i + 1]? = some k ∧ k < c.nContainers := by
  unfold opSpecific at h
  dsimp only at h
  rw [if_neg (by decide), if_neg (by decide), if_neg (by decide), if_neg (by decide),
    if_neg (by decide), if_pos rfl, bind_eq_ok] at h
  obtain ⟨k, hk, h⟩ := h
  have hx := ite_err_eq_ok h
  exact ⟨k, byteAt_ok hk, by omega⟩

/-- table facts used below -/
theorem imm_table : (opInfo RJUMP).map (·.imm) = some 2 ∧ (opInfo RJUMPI).map (·.imm) = some 2 ∧
    (opInfo RJUMPV).map (·.imm) = some 1 := by decide +kernel

/-- one iteration of the validation loop: if it succeeds, the instruction at `s.i` satisfies
`InstrOk` and the loop advances by exactly the instruction's length -/
theorem step_ok {c : Ctx} {s s' : St} (h : step c s = .ok s') :
    InstrOk c.code c.types.size c.nContainers s.i ∧ s'.i = s.i + 1 + immLen c.code s.i := by
  unfold step at h
  rw [bind_eq_ok] at h
  obtain ⟨op, hop, h⟩ := h
  have hcode := byteAt_ok hop
  split at h
  · cases h
  rename_i inf hinf
  have hx := ite_err_eq_ok h; clear h; obtain ⟨hne, h⟩ := hx
  split at h
  · cases h
  rename_i this0 hthis
  dsimp only at h
  have hx := ite_err_eq_ok h; clear h; obtain ⟨_, h⟩ := hx
  have hx := ite_err_eq_ok h; clear h; obtain ⟨himm, h⟩ := hx
  rw [bind_eq_ok] at h
  obtain ⟨j1, hj1, h⟩ := h
  rw [bind_eq_ok] at h
  obtain ⟨r, hr, h⟩ := h
  have hx := ite_err_eq_ok h; clear h; obtain ⟨_, h⟩ := hx
  rw [bind_eq_ok] at h
  obtain ⟨j2, hj2, h⟩ := h
  simp only [pure_def, R.ok.injEq] at h
  subst h
  have hi : s.i < c.code.size := lt_of_getElem? hcode
  have htargets := processJumps_ok _ _ _ hj2
  -- the instruction length
  have hextra : op ≠ RJUMPV → r.extra = 0 := fun hne' => opSpecific_extra hne' r hr
  have hlen : immLen c.code s.i = inf.imm + r.extra ∧ s.i + (inf.imm + r.extra) < c.code.size := by
    unfold immLen
    rw [hcode]; dsimp only; rw [hinf]; dsimp only
    by_cases hv : op = RJUMPV
    · subst hv
      obtain ⟨m, hm, he, hlt, _⟩ := opSpecific_rjumpv hr
      have : inf.imm = 1 := by
        have := imm_table.2.2; rw [hinf] at this; simpa using this
      rw [if_pos rfl, hm]; dsimp only
      generalize 2 * (m + 1) = q at he ⊢
      omega
    · rw [if_neg hv, hextra hv]
      refine ⟨rfl, ?_⟩
      by_cases h0 : inf.imm = 0
      · omega
      · have : ¬ (s.i + inf.imm ≥ c.code.size) := fun hge => himm ⟨h0, hge⟩
        omega
  refine ⟨⟨⟨op, inf, hcode, hinf, by simpa using hne⟩, by omega, ?_, ?_, ?_, ?_⟩, by dsimp only; omega⟩
  · rintro (hc | hc)
    · rw [hcode] at hc; cases hc; exact opSpecific_callf hr
    · rw [hcode] at hc; cases hc; exact opSpecific_jumpf hr
  · rintro (hc | hc)
    · rw [hcode] at hc; cases hc; exact opSpecific_eofcreate hr
    · rw [hcode] at hc; cases hc; exact opSpecific_returncontract hr
  · intro hc
    have hop' : op = RJUMP ∨ op = RJUMPI := by
      rcases hc with hc | hc <;> (rw [hcode] at hc; cases hc; simp)
    obtain ⟨v, hv, ht⟩ := opSpecific_rjump hop' hr
    refine ⟨v, hv, ?_⟩
    have := htargets (toI16 v + 3 + (s.i : Int)) (by rw [ht]; exact List.mem_cons_self ..)
    unfold TargetIn
    omega
  · intro hc
    rw [hcode] at hc; cases hc
    obtain ⟨m, hm, he, hlt, hall⟩ := opSpecific_rjumpv hr
    refine ⟨m, hm, fun k hk => ?_⟩
    obtain ⟨v, hv, hmem⟩ := hall k hk
    refine ⟨v, hv, ?_⟩
    have := htargets _ hmem
    unfold TargetIn
    rw [he] at this
    omega

theorem loop_ok (c : Ctx) : ∀ (fuel : Nat) (s s' : St), loop c fuel s = .ok s' →
    ∀ j, Reach c.code s.i j → j < c.code.size → InstrOk c.code c.types.size c.nContainers j := by
  intro fuel
  induction fuel with
  | zero =>
    intro s s' h j hr hj
    unfold loop at h
    by_cases hi : s.i < c.code.size
    · rw [if_pos hi] at h; cases h
    · cases hr with
      | refl => omega
      | step h1 _ => omega
  | succ fuel ih =>
    intro s s' h j hr hj
    unfold loop at h
    by_cases hi : s.i < c.code.size
    · rw [if_pos hi] at h
      dsimp only at h
      rw [bind_eq_ok] at h
      obtain ⟨s1, h1, h2⟩ := h
      obtain ⟨hok, hnext⟩ := step_ok h1
      cases hr with
      | refl => exact hok
      | step _ hr' => rw [← hnext] at hr'; exact ih s1 s' h2 j hr' hj
    · cases hr with
      | refl => omega
      | step h1 _ => omega

/-- **per section**: whatever `validate_eof_code` accepts satisfies `SectionOk` -/
theorem validateEofCode_ok {code : Array Nat} {dataSize idx nContainers : Nat}
    {types : Array TypesSection} {tr tr' : Tracker}
    (h : validateEofCode code dataSize idx nContainers types tr = .ok tr') :
    SectionOk code types.size nContainers := by
  unfold validateEofCode at h
  split at h
  · cases h
  rename_i thisTypes _
  dsimp only at h
  rw [bind_eq_ok] at h
  obtain ⟨s, hs, _⟩ := h
  intro j hj
  exact loop_ok _ _ _ _ hs j hj.1 hj.2

end Revm.Proofs.EofValidate
