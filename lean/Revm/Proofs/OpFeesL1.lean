import Revm.Proofs.OpFees
/-! `calculate_tx_l1_cost` (Bedrock / Ecotone / Fjord) equals the fork's cost formula over unbounded
integers whenever no 256-bit (or, for the Fjord size estimate, 64-bit) intermediate saturates (C33). -/
set_option linter.unusedSimpArgs false
set_option linter.unusedVariables false
namespace Revm.Proofs.OpFees
open Revm Revm.U256 Revm.Model.OpFees
open Revm.Spec.OpFees (calldataGas estimatedSize feeScaled l1Bedrock l1Cost)

theorem foldl_calldata (input : List Nat) (a : Nat) :
    input.foldl (fun acc b => acc + (if b = 0 then 4 else 16)) a =
      a + (input.filter (· = 0)).length * 4 + (input.filter (· ≠ 0)).length * 16 := by
  induction input generalizing a with
  | nil => simp
  | cons b bs ih =>
    simp only [List.foldl_cons, ih]
    by_cases hb : b = 0
    · simp [hb, List.filter_cons]; omega
    · simp [hb, List.filter_cons]; omega

/-- `data_gas` before Fjord is the calldata gas of the envelope -/
theorem dataGas_pre_fjord (input : List Nat) (spec : Nat) (hf : enabled spec FJORD = false)
    (hW : calldataGas input spec < W) : dataGas input spec = calldataGas input spec := by
  unfold dataGas calldataGas at *
  simp only [hf, Bool.false_eq_true, if_false, foldl_calldata, Nat.zero_add]
  by_cases hr : enabled spec REGOLITH = true
  · simp only [hr, Bool.not_true, Bool.false_eq_true, if_false, if_true, Nat.add_zero] at hW ⊢
  · simp only [hr, Bool.not_false, if_true, Bool.false_eq_true, if_false] at hW ⊢
    have h1 : wmul 16 68 = 1088 := by decide
    rw [h1, wadd_eq _ _ hW]

/-- `tx_estimated_size_fjord` without u64 saturation -/
theorem estimatedSize_eq (input : List Nat) (h : flzCompressLen input * 836500 < U64) :
    txEstimatedSizeFjord input = estimatedSize input := by
  unfold txEstimatedSizeFjord estimatedSize U64ops.saturatingMul U64ops.saturatingSub
  simp only [h, if_true]

theorem feeScaled_eq (info : L1Info)
    (h1 : info.l1BaseFee * 16 < W) (h2 : info.l1BaseFee * 16 * info.l1BaseFeeScalar < W)
    (h3 : info.l1BlobBaseFee.getD 0 * info.l1BlobBaseFeeScalar.getD 0 < W) (h4 : feeScaled info < W) :
    l1FeeScaledEcotone info = feeScaled info := by
  unfold l1FeeScaledEcotone feeScaled at *
  rw [satMul_eq _ _ h1, satMul_eq _ _ h2, satMul_eq _ _ h3, satAdd_eq _ _ h4]

theorem l1CostBedrock_eq (info : L1Info) (input : List Nat) (spec : Nat) (hf : enabled spec FJORD = false)
    (h1 : calldataGas input spec + info.l1FeeOverhead.getD 0 < W)
    (h2 : (calldataGas input spec + info.l1FeeOverhead.getD 0) * info.l1BaseFee < W)
    (h3 : (calldataGas input spec + info.l1FeeOverhead.getD 0) * info.l1BaseFee * info.l1BaseFeeScalar < W) :
    l1CostBedrock info input spec = l1Bedrock info input spec := by
  unfold l1CostBedrock l1Bedrock wdiv
  rw [dataGas_pre_fjord input spec hf (by omega), satAdd_eq _ _ h1, satMul_eq _ _ h2, satMul_eq _ _ h3]

/-- the no-saturation conditions of the cost function of the fork `spec` -/
structure NoSat (info : L1Info) (input : List Nat) (spec : Nat) : Prop where
  bedrock : (enabled spec ECOTONE = false ∨ (enabled spec FJORD = false ∧ info.emptyEcotoneScalars = true)) →
    calldataGas input spec + info.l1FeeOverhead.getD 0 < W ∧
    (calldataGas input spec + info.l1FeeOverhead.getD 0) * info.l1BaseFee < W ∧
    (calldataGas input spec + info.l1FeeOverhead.getD 0) * info.l1BaseFee * info.l1BaseFeeScalar < W
  scaled : (enabled spec FJORD = true ∨ (enabled spec ECOTONE = true ∧ info.emptyEcotoneScalars = false)) →
    info.l1BaseFee * 16 < W ∧ info.l1BaseFee * 16 * info.l1BaseFeeScalar < W ∧
    info.l1BlobBaseFee.getD 0 * info.l1BlobBaseFeeScalar.getD 0 < W ∧ feeScaled info < W
  ecotone : (enabled spec FJORD = false ∧ enabled spec ECOTONE = true ∧ info.emptyEcotoneScalars = false) →
    calldataGas input spec < W ∧ feeScaled info * calldataGas input spec < W
  fjord : enabled spec FJORD = true →
    flzCompressLen input * 836500 < U64 ∧ estimatedSize input * feeScaled info < W

/-- **`calculate_tx_l1_cost` is the fork's formula**: with an empty cache and no saturating intermediate,
the cost of an envelope is
Bedrock/Regolith `(calldataGas + overhead)·l1BaseFee·scalar / 10^6`,
Ecotone `calldataGas·(16·l1BaseFee·baseFeeScalar + l1BlobBaseFee·blobBaseFeeScalar) / (16·10^6)` (the Bedrock
formula while the scalars are still empty),
Fjord `max(100·10^6, 836500·fastlz − 42585600)·(16·l1BaseFee·baseFeeScalar + l1BlobBaseFee·blobBaseFeeScalar) / 10^12`,
and 0 for an empty or `0x7f…` envelope. -/
theorem l1Cost_eq (info : L1Info) (input : List Nat) (spec : Nat) (hc : info.txL1Cost = none)
    (hecf : enabled spec FJORD = true → enabled spec ECOTONE = true)
    (hn : NoSat info input spec) :
    (calculateTxL1Cost info input spec).1 = l1Cost info input spec := by
  rw [calculateTxL1Cost_fresh _ _ _ hc]
  unfold l1Cost
  by_cases hz : zeroCostEnvelope input = true
  · simp only [hz, if_true]
  · simp only [hz, Bool.false_eq_true, if_false]
    unfold l1CostFresh
    by_cases hf : enabled spec FJORD = true
    · simp only [hf, if_true]
      obtain ⟨a1, a2, a3, a4⟩ := hn.scaled (Or.inl hf)
      obtain ⟨b1, b2⟩ := hn.fjord hf
      unfold l1CostFjord wdiv
      rw [estimatedSize_eq _ b1, feeScaled_eq _ a1 a2 a3 a4, satMul_eq _ _ b2]
    · have hf' : enabled spec FJORD = false := by simpa using hf
      simp only [hf', Bool.false_eq_true, if_false]
      by_cases he : enabled spec ECOTONE = true
      · simp only [he, if_true]
        unfold l1CostEcotone
        by_cases hem : info.emptyEcotoneScalars = true
        · simp only [hem, if_true]
          obtain ⟨c1, c2, c3⟩ := hn.bedrock (Or.inr ⟨hf', hem⟩)
          exact l1CostBedrock_eq info input spec hf' c1 c2 c3
        · have hem' : info.emptyEcotoneScalars = false := by simpa using hem
          simp only [hem', Bool.false_eq_true, if_false]
          obtain ⟨a1, a2, a3, a4⟩ := hn.scaled (Or.inr ⟨he, hem'⟩)
          obtain ⟨d1, d2⟩ := hn.ecotone ⟨hf', he, hem'⟩
          unfold wdiv
          rw [feeScaled_eq _ a1 a2 a3 a4, dataGas_pre_fjord input spec hf' d1, satMul_eq _ _ d2]
      · have he' : enabled spec ECOTONE = false := by simpa using he
        simp only [he', Bool.false_eq_true, if_false]
        obtain ⟨c1, c2, c3⟩ := hn.bedrock (Or.inl he')
        exact l1CostBedrock_eq info input spec hf' c1 c2 c3

end Revm.Proofs.OpFees
