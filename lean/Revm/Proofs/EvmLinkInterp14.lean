import Revm.Proofs.EvmLinkInterp13
import Revm.Proofs.Precompile
/-! LINK, the interpreter side of panic-freedom, part 14: **`PcOut` holds** — the executable precompiles (SHA-256,
RIPEMD-160, identity, MODEXP, BN254 add / mul, BLAKE2F) return at most `isize::MAX` bytes on an input of at most
`isize::MAX` bytes: 32, 32, the input, `mod_len` (which the allocation check of `right_pad_vec` bounds), 64, 64, 64. -/
set_option linter.unusedSimpArgs false
set_option linter.unusedVariables false
namespace Revm.Proofs.EvmLink
open Revm Revm.Model Revm.Model.Evm Revm.Model.Precompile Revm.Model.PrecompileHash

local notation "ISZ" => Memory.ISIZE_MAX

theorem isz_val : ISZ = 2^63 - 1 := rfl

theorem small_le_isz {n : Nat} (h : n ≤ 64) : n ≤ ISZ := by
  rw [isz_val]; omega

theorem toLE_length : ∀ (w v : Nat), (toLE w v).length = w := by
  intro w
  induction w with
  | zero => intro v; rfl
  | succ n ih => intro v; simp only [toLE, List.length_cons, ih]

theorem flatMap_toLE_length (l : List UInt64) : (l.flatMap (fun w => toLE 8 w.toNat)).length = 8 * l.length := by
  induction l with
  | nil => rfl
  | cons a l ih => simp only [List.flatMap_cons, List.length_append, toLE_length, ih, List.length_cons]; omega

theorem blake2f_length (input : Bytes) (f : Bool) : (blake2f input f).length = 64 := by
  unfold blake2f
  simp only []
  rw [flatMap_toLE_length]
  unfold Blake2.compress
  simp only [Array.length_toList, Array.size_map, Array.size_range]

theorem encodeG1_length (p : G1) : (encodeG1 p).length = 64 := by
  cases p with
  | none => simp [encodeG1]
  | some xy =>
    obtain ⟨x, y⟩ := xy
    simp only [encodeG1, List.length_append, Proofs.Precompile.toBE_length]

theorem modexp_out (berlin : Bool) (input : Bytes) (gasLimit gasUsed : Nat) (out : Bytes)
    (h : modexpRun berlin input gasLimit = .ok gasUsed out) (hin : input.length ≤ ISZ) : out.length ≤ ISZ := by
  unfold modexpRun at h
  simp only [] at h
  generalize beNat (rightPadOff 32 input 0) = baseLen at h
  generalize beNat (rightPadOff 32 input 32) = expLen at h
  generalize beNat (rightPadOff 32 input 64) = modLen at h
  repeat' (split at h)
  all_goals first
    | (cases h; done)
    | (simp only [Res.ok.injEq] at h; rw [← h.2]; exact Nat.zero_le _)
    | (have hp : ¬((List.drop 96 input).length < U64ops.saturatingAdd (U64ops.saturatingAdd baseLen expLen) modLen ∧
          U64ops.saturatingAdd (U64ops.saturatingAdd baseLen expLen) modLen > isizeMax) := by assumption
       simp only [Res.ok.injEq] at h
       rw [← h.2, Proofs.Precompile.leftPad_length]
       have hd : (input.drop 96).length ≤ input.length := by rw [List.length_drop]; omega
       have hI : isizeMax = 2^63 - 1 := rfl
       rw [hI] at hp
       rw [isz_val] at hin ⊢
       unfold U64ops.saturatingAdd at hp
       have hU := U64_val
       generalize (input.drop 96).length = dl at hp hd
       generalize input.length = il at hin hd
       generalize U64 = u at *
       subst hU
       split at hp <;> split at hp <;> omega)

set_option maxRecDepth 8000 in
theorem pcOut : PcOut := by
  intro fork a input gasLimit gasUsed out ho h hin
  unfold Precompile.call at h
  simp only [] at h
  split at h
  all_goals first
    | (exact absurd ho (by decide))
    | (cases h; done)
    | (simp only [Option.some.injEq] at h
       first
         | (unfold sha256Run at h; simp only [] at h; split at h
            · cases h
            · cases h; rw [Proofs.Precompile.sha256_length]; exact small_le_isz (by omega))
         | (unfold ripemd160Run at h; simp only [] at h; split at h
            · cases h
            · cases h
              rw [List.length_append, List.length_replicate, Proofs.Precompile.ripemd160_length]
              exact small_le_isz (by omega))
         | (unfold identityRun at h; simp only [] at h; split at h
            · cases h
            · cases h; exact hin))
    | (split at h
       · cases h
       · simp only [Option.some.injEq] at h
         first
           | exact modexp_out _ _ _ _ _ h hin
           | (unfold bnAddRun at h; simp only [] at h; repeat' (split at h)
              all_goals first
                | (cases h; done)
                | (cases h; rw [encodeG1_length]; exact small_le_isz (Nat.le_refl _)))
           | (unfold bnMulRun at h; simp only [] at h; repeat' (split at h)
              all_goals first
                | (cases h; done)
                | (cases h; rw [encodeG1_length]; exact small_le_isz (Nat.le_refl _)))
           | (unfold blake2Run at h; simp only [] at h; repeat' (split at h)
              all_goals first
                | (cases h; done)
                | (cases h; rw [blake2f_length]; exact small_le_isz (Nat.le_refl _))))

end Revm.Proofs.EvmLink
